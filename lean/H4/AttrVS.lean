import H4.AttrSD
/-!
# C10 — Vdata / Vdata-field / Vgroup attributes (vattr.c)

`VSsetattr`, `VSnattrs`, `VSfnattrs`, `VSfindattr`, `VSattrinfo`, `VSgetattr`, `Vsetattr`, `Vnattrs`, `Vfindattr`,
`Vattrinfo`, `Vgetattr`.  An attribute is a Vdata of class "Attr0.0" created at once by `VHstoredatam`
(so it is on disk immediately and survives close/reopen without a separate codec); `VSsetname` truncates its name to
VSNAMELENMAX, and the lookups compare the stored name with the first VSNAMELENMAX characters of the caller's name
(`strncmp(vsname, attrname, VSNAMELENMAX)`), i.e. with the name as it would be stored.
A Vdata keeps ONE list `alist` of (field index, attribute); the attributes of a field are the entries with that index.
-/
namespace H4.AttrVS
open H4.Attr H4.Gen.Attr
open H4.AttrSD (Out Item)

structure Vdata where
  nfields : Nat
  alist : List (Int × Attr)
  mode : Option Bool       -- attached? `some true` = "w"
deriving DecidableEq, Repr, Inhabited

structure Vgroup where
  alist : AList
  mode : Option Bool
deriving DecidableEq, Repr, Inhabited

structure File where
  isOpen : Bool := false
  writable : Bool := false
  vds : List Vdata := []
  vgs : List Vgroup := []
deriving Repr, Inhabited

/-- the attributes of field `fx` (−1 = the Vdata itself), in index order -/
def view (al : List (Int × Attr)) (fx : Int) : AList := (al.filter (·.1 == fx)).map (·.2)

/-- position in `alist` of the `k`-th entry of field `fx` -/
def posOf (al : List (Int × Attr)) (fx : Int) (k : Nat) : Option Nat :=
  let rec go (l : List (Int × Attr)) (k pos : Nat) : Option Nat :=
    match l with
    | [] => none
    | e :: t => if e.1 == fx then (if k == 0 then some pos else go t (k - 1) (pos + 1)) else go t k (pos + 1)
  go al k 0

/-- `(findex >= n || findex < 0) && findex != _HDF_VDATA` -/
def badField (n : Nat) (fx : Int) : Bool := (fx ≥ n || fx < 0) && fx != _HDF_VDATA

/-- the attribute Vdata `VHstoredatam(.., attrname, _HDF_ATTRIBUTE, count)` creates: name cut to VSNAMELENMAX -/
def stored (a : Attr) : Attr := { a with name := a.name.take VSNAMELENMAX }

/-- `VSsetattr` on `alist`: search the entries of field `fx` for a stored name equal to the given name as it would be
    stored; existing → type and order must match, the record is overwritten; else a new attribute Vdata is appended.
    `none` = FAIL. -/
def vsPut (al : List (Int × Attr)) (fx : Int) (a : Attr) (count : Int) : Option (List (Int × Attr)) :=
  match find (stored a).name (view al fx) with
  | some k =>
    let old := (view al fx).getD k default
    if compatible .vs old a then (posOf al fx k).map fun p => al.set p (fx, { a with name := old.name }) else none
  | none => if argsOk a.nt count then some (al ++ [(fx, stored a)]) else none

/-- `Hopen` + `Vstart` -/
def start (f : File) (create writable : Bool) : File :=
  if create then { isOpen := true, writable := true }
  else { f with isOpen := true, writable := writable,
                vds := f.vds.map ({ · with mode := none }), vgs := f.vgs.map ({ · with mode := none }) }

/-- detach everything, `Vend` + `Hclose` -/
def vEnd (f : File) : File × Out :=
  if !f.isOpen then (f, .fail) else
  ({ f with isOpen := false, vds := f.vds.map ({ · with mode := none }), vgs := f.vgs.map ({ · with mode := none }) }, .ok)

/-- a new Vdata with `n` int32 fields and one record, left attached "w" -/
def vsCreate (f : File) (n : Nat) : File × Out :=
  if !f.isOpen || !f.writable then (f, .fail) else
  ({ f with vds := f.vds ++ [{ nfields := n, alist := [], mode := some true }] }, .items [.int f.vds.length])

def vgCreate (f : File) : File × Out :=
  if !f.isOpen || !f.writable then (f, .fail) else
  ({ f with vgs := f.vgs ++ [{ alist := [], mode := some true }] }, .items [.int f.vgs.length])

/-- `VSattach(f, ref, "r"|"w")` / `VSdetach` ("w" needs a writable file) -/
def vsAttach (f : File) (i : Nat) (w : Bool) : File × Out :=
  match f.isOpen, f.vds[i]? with
  | true, some v =>
    if v.mode.isSome then (f, .bad)
    else if w && !f.writable then (f, .fail)
    else ({ f with vds := f.vds.set i { v with mode := some w } }, .ok)
  | _, _ => (f, .bad)

def vsDetach (f : File) (i : Nat) : File × Out :=
  match f.isOpen, f.vds[i]? with
  | true, some v => if v.mode.isNone then (f, .bad) else ({ f with vds := f.vds.set i { v with mode := none } }, .ok)
  | _, _ => (f, .bad)

def vgAttach (f : File) (i : Nat) (w : Bool) : File × Out :=
  match f.isOpen, f.vgs[i]? with
  | true, some v =>
    if v.mode.isSome then (f, .bad)
    else if w && !f.writable then (f, .fail)
    else ({ f with vgs := f.vgs.set i { v with mode := some w } }, .ok)
  | _, _ => (f, .bad)

def vgDetach (f : File) (i : Nat) : File × Out :=
  match f.isOpen, f.vgs[i]? with
  | true, some v => if v.mode.isNone then (f, .bad) else ({ f with vgs := f.vgs.set i { v with mode := none } }, .ok)
  | _, _ => (f, .bad)

def attachedVd (f : File) (i : Nat) : Option Vdata :=
  if !f.isOpen then none else
  match f.vds[i]? with
  | some v => if v.mode.isSome then some v else none
  | none => none

def attachedVg (f : File) (i : Nat) : Option Vgroup :=
  if !f.isOpen then none else
  match f.vgs[i]? with
  | some v => if v.mode.isSome then some v else none
  | none => none

/-- `VSsetattr(vsid, findex, attrname, datatype, count, values)` -/
def vsSetAttr (f : File) (i : Nat) (fx : Int) (name : Bytes) (nt : Nat) (count : Int) (val : Bytes) : File × Out :=
  match attachedVd f i with
  | none => (f, .bad)
  | some v =>
    if v.mode != some true then (f, .fail)
    else if badField v.nfields fx then (f, .fail)
    else match vsPut v.alist fx { name := name, nt := nt, count := count.toNat, val := val } count with
      | none => (f, .fail)
      | some al => ({ f with vds := f.vds.set i { v with alist := al } }, .ok)

/-- `VSnattrs` -/
def vsNattrs (f : File) (i : Nat) : File × Out :=
  match attachedVd f i with
  | none => (f, .bad)
  | some v => (f, .items [.int v.alist.length])

/-- `VSfnattrs(vsid, findex)` (note `findex > n`, not `>=`) -/
def vsFnattrs (f : File) (i : Nat) (fx : Int) : File × Out :=
  match attachedVd f i with
  | none => (f, .bad)
  | some v =>
    if (fx > v.nfields || fx < 0) && fx != _HDF_VDATA then (f, .fail)
    else (f, .items [.int (view v.alist fx).length])

/-- `VSfindattr(vsid, findex, attrname)` -/
def vsFindAttr (f : File) (i : Nat) (fx : Int) (name : Bytes) : File × Out :=
  match attachedVd f i with
  | none => (f, .bad)
  | some v =>
    if badField v.nfields fx then (f, .fail)
    else if v.alist.isEmpty then (f, .fail)
    else match find (name.take VSNAMELENMAX) (view v.alist fx) with
      | some k => (f, .items [.int k])
      | none => (f, .fail)

/-- `VSattrinfo(vsid, findex, attrindex, name, datatype, count, size)` -/
def vsAttrInfo (f : File) (i : Nat) (fx : Int) (idx : Int) : File × Out :=
  match attachedVd f i with
  | none => (f, .bad)
  | some v =>
    if badField v.nfields fx then (f, .fail)
    else if idx < 0 || idx ≥ v.alist.length then (f, .fail)
    else match nth (view v.alist fx) idx.toNat with
      | none => (f, .fail)
      | some a => (f, .items [.hex a.name, .int a.nt, .int a.count, .int (a.count * (ntSize a.nt).getD 0)])

/-- `VSgetattr(vsid, findex, attrindex, values)` -/
def vsGetAttr (f : File) (i : Nat) (fx : Int) (idx : Int) : File × Out :=
  match attachedVd f i with
  | none => (f, .bad)
  | some v =>
    if badField v.nfields fx then (f, .fail)
    else if idx < 0 || idx ≥ v.alist.length then (f, .fail)
    else match nth (view v.alist fx) idx.toNat with
      | none => (f, .fail)
      | some a => (f, .items [.hex a.val])

/-- `Vsetattr(vgid, attrname, datatype, count, values)`: as `VSsetattr` without field index -/
def vgPut (al : AList) (a : Attr) (count : Int) : Option AList :=
  match find (stored a).name al with
  | some k =>
    let old := al.getD k default
    if compatible .vs old a then some (al.set k { a with name := old.name }) else none
  | none => if argsOk a.nt count then some (al ++ [stored a]) else none

def vgSetAttr (f : File) (i : Nat) (name : Bytes) (nt : Nat) (count : Int) (val : Bytes) : File × Out :=
  match attachedVg f i with
  | none => (f, .bad)
  | some g =>
    if g.mode != some true then (f, .fail)
    else match vgPut g.alist { name := name, nt := nt, count := count.toNat, val := val } count with
      | none => (f, .fail)
      | some al => ({ f with vgs := f.vgs.set i { g with alist := al } }, .ok)

/-- `Vnattrs` -/
def vgNattrs (f : File) (i : Nat) : File × Out :=
  match attachedVg f i with
  | none => (f, .bad)
  | some g => (f, .items [.int g.alist.length])

/-- `Vfindattr` -/
def vgFindAttr (f : File) (i : Nat) (name : Bytes) : File × Out :=
  match attachedVg f i with
  | none => (f, .bad)
  | some g => match find (name.take VSNAMELENMAX) g.alist with
    | some k => (f, .items [.int k])
    | none => (f, .fail)

/-- `Vattrinfo(vgid, attrindex, ...)`: a negative index FAILs -/
def vgAttrInfo (f : File) (i : Nat) (idx : Int) : File × Out :=
  match attachedVg f i with
  | none => (f, .bad)
  | some g =>
    if idx < 0 then (f, .fail)
    else match nth g.alist idx.toNat with
      | none => (f, .fail)
      | some a => (f, .items [.hex a.name, .int a.nt, .int a.count, .int (a.count * (ntSize a.nt).getD 0)])

/-- `Vgetattr` -/
def vgGetAttr (f : File) (i : Nat) (idx : Int) : File × Out :=
  match attachedVg f i with
  | none => (f, .bad)
  | some g =>
    if idx < 0 then (f, .fail)
    else match nth g.alist idx.toNat with
      | none => (f, .fail)
      | some a => (f, .items [.hex a.val])

end H4.AttrVS
