import H4.Gen.Fn.Hcomp
import H4.Format
/-! The arguments of `HCPencode_header` / `HCPdecode_header` (`hdf/src/hcomp.c`) as the hand-written codec `H4.Format.encodeCoderInfo` /
    `decodeCoderInfo` sees them: the `comp_info` union as a record of its members, the model coder the C arguments denote, the cases in
    which the C encoder fails, the effect of the C decoder on `*c_info`.  Used by the refinement theorems `H4.Props.C02HdrFn` and by the
    cross-run driver `H4.Driver.Rec`.  Core only. -/
namespace H4.CompHdr
open H4 H4.Format H4.Gen.Hdf H4.Gen.Fmt H4.Gen.Fn.Hcomp

abbrev ESt := HCPencode_header.St
abbrev DSt := HCPdecode_header.St

/-- the members of the `comp_info` union that the two functions touch (C `int` / `int32` values) -/
structure CInfo where
  nt : Int := 0
  sign_ext : Int := 0
  fill_one : Int := 0
  start_bit : Int := 0
  bit_len : Int := 0
  skp_size : Int := 0
  level : Int := 0
  pixels : Int := 0
  pixels_per_scanline : Int := 0
  options_mask : Int := 0
  bits_per_pixel : Int := 0
  pixels_per_block : Int := 0
deriving DecidableEq, Repr

/-- `SZ_H4_REV_2` (or-ed into the szip options mask by the encoder) -/
def szRev2 : Nat := 65536

/-- the model coder that the C arguments `coder_type` and `*c_info` denote: signed members are written as their 32-bit patterns,
    `sign_ext` / `fill_one` / `level` as 16-bit patterns, the two szip bytes as 8-bit patterns; skphuff writes `skp_size` twice;
    szip sets `SZ_H4_REV_2` in the options mask; every other coder type has no parameters -/
def coderOf (ct : Int) (c : CInfo) : Coder :=
  if ct = (COMP_CODE_NBIT : Nat) then .nbit c.nt (c.sign_ext % 65536).toNat (c.fill_one % 65536).toNat c.start_bit c.bit_len
  else if ct = (COMP_CODE_SKPHUFF : Nat) then .skphuff (ofS32 c.skp_size) (ofS32 c.skp_size)
  else if ct = (COMP_CODE_DEFLATE : Nat) then .deflate (c.level % 65536).toNat
  else if ct = (COMP_CODE_SZIP : Nat) then
    .szip (ofS32 c.pixels) (ofS32 c.pixels_per_scanline) (ofS32 c.options_mask ||| szRev2) (c.bits_per_pixel % 256).toNat (c.pixels_per_block % 256).toNat
  else if ct = (COMP_CODE_NONE : Nat) then .none
  else if ct = (COMP_CODE_RLE : Nat) then .rle
  else .other ct.toNat

/-- the cases in which `HCPencode_header` returns FAIL (after it has stored the two type fields) -/
def EncFails (ct : Int) (c : CInfo) : Prop :=
  (ct = (COMP_CODE_SKPHUFF : Nat) ∧ c.skp_size < 1) ∨ (ct = (COMP_CODE_DEFLATE : Nat) ∧ (c.level < 0 ∨ 9 < c.level)) ∨
    ct = (COMP_CODE_IMCOMP : Nat)

instance (ct : Int) (c : CInfo) : Decidable (EncFails ct c) := by unfold EncFails; infer_instance

/-- `*c_info` after the reader has stored the model coder `cd` into it (only the members of that coder are assigned; the C `int` /
    `int32` members receive the 32-bit patterns as signed values) -/
def applyCoder (cd : Coder) (c : CInfo) : CInfo :=
  match cd with
  | .nbit nt se fo sb bl => { c with nt := nt, sign_ext := se, fill_one := fo, start_bit := sb, bit_len := bl }
  | .skphuff sk _ => { c with skp_size := toS32 sk }
  | .deflate l => { c with level := l }
  | .szip px ps m bp pb => { c with pixels := toS32 px, pixels_per_scanline := toS32 ps, options_mask := toS32 m, bits_per_pixel := bp,
                                    pixels_per_block := pb }
  | _ => c

/-- the translated `HCPencode_header`, called with NAMED arguments (the translator orders the parameters by first use in the C text) -/
def HCPencode_headerC (fuel : Nat) (p : List Int) (model_type : Int) (m_info_null : Bool) (coder_type : Int) (c_info_null : Bool)
    (c : CInfo) : ESt :=
  HCPencode_header (fuel := fuel) (p := p) (model_type := model_type) (m_info_null := m_info_null) (coder_type := coder_type)
    (c_info_null := c_info_null) (c_info_nbit_nt := c.nt) (c_info_nbit_sign_ext := c.sign_ext) (c_info_nbit_fill_one := c.fill_one)
    (c_info_nbit_start_bit := c.start_bit) (c_info_nbit_bit_len := c.bit_len) (c_info_skphuff_skp_size := c.skp_size)
    (c_info_deflate_level := c.level) (c_info_szip_pixels := c.pixels) (c_info_szip_pixels_per_scanline := c.pixels_per_scanline)
    (c_info_szip_options_mask := c.options_mask) (c_info_szip_bits_per_pixel := c.bits_per_pixel)
    (c_info_szip_pixels_per_block := c.pixels_per_block)

/-- the `comp_info` members as the state holds them -/
def cinfoOf (s : ESt) : CInfo :=
  { nt := s.c_info_nbit_nt, sign_ext := s.c_info_nbit_sign_ext, fill_one := s.c_info_nbit_fill_one, start_bit := s.c_info_nbit_start_bit,
    bit_len := s.c_info_nbit_bit_len, skp_size := s.c_info_skphuff_skp_size, level := s.c_info_deflate_level,
    pixels := s.c_info_szip_pixels, pixels_per_scanline := s.c_info_szip_pixels_per_scanline,
    options_mask := s.c_info_szip_options_mask, bits_per_pixel := s.c_info_szip_bits_per_pixel,
    pixels_per_block := s.c_info_szip_pixels_per_block }

/-- the translated `HCPdecode_header` with NAMED arguments -/
def HCPdecode_headerC (fuel : Nat) (p : List Int) (model_type_null : Bool) (model_type : List Int) (m_info_null coder_type_null : Bool)
    (coder_type : List Int) (c_info_null : Bool) (c : CInfo) : DSt :=
  HCPdecode_header (fuel := fuel) (p := p) (model_type_null := model_type_null) (model_type := model_type) (m_info_null := m_info_null)
    (coder_type_null := coder_type_null) (coder_type := coder_type) (c_info_null := c_info_null)
    (c_info_nbit_nt := c.nt) (c_info_nbit_sign_ext := c.sign_ext) (c_info_nbit_fill_one := c.fill_one)
    (c_info_nbit_start_bit := c.start_bit) (c_info_nbit_bit_len := c.bit_len) (c_info_skphuff_skp_size := c.skp_size)
    (c_info_deflate_level := c.level) (c_info_szip_pixels := c.pixels) (c_info_szip_pixels_per_scanline := c.pixels_per_scanline)
    (c_info_szip_options_mask := c.options_mask) (c_info_szip_bits_per_pixel := c.bits_per_pixel)
    (c_info_szip_pixels_per_block := c.pixels_per_block)

/-- the `comp_info` members as the decoder's state holds them -/
def cinfoOfD (s : DSt) : CInfo :=
  { nt := s.c_info_nbit_nt, sign_ext := s.c_info_nbit_sign_ext, fill_one := s.c_info_nbit_fill_one, start_bit := s.c_info_nbit_start_bit,
    bit_len := s.c_info_nbit_bit_len, skp_size := s.c_info_skphuff_skp_size, level := s.c_info_deflate_level,
    pixels := s.c_info_szip_pixels, pixels_per_scanline := s.c_info_szip_pixels_per_scanline,
    options_mask := s.c_info_szip_options_mask, bits_per_pixel := s.c_info_szip_bits_per_pixel,
    pixels_per_block := s.c_info_szip_pixels_per_block }

end H4.CompHdr
