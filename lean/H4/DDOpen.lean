import H4.DD
/-! # The file record at the start of a session: `Hopen` on a path that is already open, `Hclose`, `Hcache` (hfile.c)

C17 is stated for a session that runs with *default descriptor caching*: `file_rec->cache` of the record the session
writes through must be on.  `H4.DD.hreopen` models the open of a file nobody else has open.  This module adds

* `hopenAgain`: what `Hopen` does to the DD-directory part of a record that is ALREADY in use (`file_rec->refcount != 0`:
  another file id of the same path - obtained through `Hopen`, `SDstart`, … - is still open), and
* `OpenTab`: the flags `Hopen` / `Hclose` / `Hcache` manage for the record of one path (`refcount`, `access & DFACC_WRITE`,
  `cache`) together with the static `default_cache`, as a small transition system.  Engine `crash` prints these flags,
  read out of the real `filerec_t`, after every open / close / `Hcache` call around a session and at the first physical
  write of the session; `H4.Driver.Crash` recomputes them (Tie B).

Tie A (`H4.Gen.Src.HOPEN_CACHE_IS_DEFAULT`): the body of `Hopen` assigns `file_rec->cache` exactly once, and that
assignment is `file_rec->cache = default_cache;` (the first-open branch, whatever the access mode).
Core-only (the driver links this). -/
namespace H4.DD

/-- `Hopen(path, acc_mode, ndds)`, branch `if (file_rec->refcount)` ("File is already opened, check that permission is
    okay"), on the DD-directory part of the record.  `upgrade` = `(acc_mode & DFACC_WRITE) && !(file_rec->access &
    DFACC_WRITE)`: "Sync. the file before throwing away the old file handle" (`HIsync`), then the stdio stream is replaced by
    one opened for update and `access |= DFACC_WRITE`.  Without `upgrade` only `refcount++`.  In both cases the descriptor
    list in memory, `f_end_off` and `cache` are left as they are. -/
def hopenAgain (s : File) (upgrade : Bool) : File := if upgrade then hiSync s else s

/-- the flags of `filerec_t` that `Hopen` / `Hclose` / `Hcache` manage -/
structure RecFlags where
  /-- `file_rec->refcount` (> 0 while the record exists) -/
  refcount : Nat
  /-- `file_rec->access & DFACC_WRITE` -/
  write : Bool
  /-- `file_rec->cache` -/
  cache : Bool
  deriving Repr, DecidableEq, Inhabited

/-- the record of ONE path in the file-id group (`none`: `HIget_filerec_node` finds none and allocates a fresh one) and
    the static `default_cache` of hfile.c -/
structure OpenTab where
  defCache : Bool := defaultCache
  frec : Option RecFlags := none
  deriving Repr, DecidableEq, Inhabited

/-- the calls that touch the record flags -/
inductive OOp
  /-- `Hopen(path, DFACC_READ | DFACC_RDWR/DFACC_WRITE, _)` of the existing file, directly or inside `SDstart` … -/
  | open (write : Bool)
  /-- `Hclose(file_id)` of one id of the path (directly or inside `SDend`) -/
  | close
  /-- `Hcache(file_id, on)` through an id of the path -/
  | cache (on : Bool)
  /-- `Hcache(CACHE_ALL_FILES, on)` -/
  | cacheAll (on : Bool)
  deriving Repr, DecidableEq

/-- one call.
    * `Hopen`, record in use: `refcount++`; a request for write access on a record without it reopens the stream and sets
      `access |= DFACC_WRITE`; `cache` is NOT touched.
    * `Hopen`, no record: `access = acc_mode | DFACC_READ`, `refcount = 1`, `file_rec->cache = default_cache`.
    * `Hclose`: `--refcount`; at 0 the record is released (`HIrelease_filerec_node`).
    * `Hcache(id, on)`: `file_rec->cache = on` (after `HIsync` when switching off); `Hcache(CACHE_ALL_FILES, on)`:
      `default_cache = on`. -/
def OpenTab.step (t : OpenTab) : OOp → OpenTab
  | .open w =>
    match t.frec with
    | some r => { t with frec := some { r with refcount := r.refcount + 1, write := r.write || w } }
    | none => { t with frec := some { refcount := 1, write := w, cache := t.defCache } }
  | .close =>
    match t.frec with
    | some r => if r.refcount ≤ 1 then { t with frec := none } else { t with frec := some { r with refcount := r.refcount - 1 } }
    | none => t
  | .cache on =>
    match t.frec with
    | some r => { t with frec := some { r with cache := on } }
    | none => t
  | .cacheAll on => { t with defCache := on }

def OpenTab.run (t : OpenTab) (ops : List OOp) : OpenTab := ops.foldl OpenTab.step t

/-- a call that switches descriptor caching off (the only ways to leave "default descriptor caching") -/
def OOp.turnsOff : OOp → Bool
  | .cache false => true
  | .cacheAll false => true
  | _ => false

/-- the projection of a record (its DD-directory part `s`, its access and reference count) to the flags -/
def flagsOf (s : File) (write : Bool) (refcount : Nat) : RecFlags := { refcount := refcount, write := write, cache := s.cache }

end H4.DD
