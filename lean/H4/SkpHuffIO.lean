import H4.SkpHuff
import H4.BitIO
/-! The skipping-Huffman coder (`cskphuff.c`) on top of the bit layer (`hbitio.c`): what ends up in, and what is read from,
    the DFTAG_COMPRESSED element.  Core-only. -/
namespace H4.SkpHuff
open H4.Gen.Cskphuff

/-- the DFTAG_COMPRESSED bytes of a skipping-Huffman element written sequentially with `bs`:
    `HCPcskphuff_stwrite` (`Hstartbitwrite` on a new element), the `Hbitwrite` calls of `HCIcskphuff_encode`,
    `HCPcskphuff_endaccess` (`Hendbitaccess(aid, 0)`) -/
def compress (skip : Nat) (bs : List UInt8) : List UInt8 :=
  H4.BitIO.pack (encodeFields skip bs) (some false)

/-- `n` bytes decoded from the bit stream of the raw bytes -/
def decompress (skip : Nat) (raw : List UInt8) (n : Nat) : Option (List UInt8) :=
  decodeBits skip (H4.Bits.bytesBits raw) n

/-- the inner loop of `HCIcskphuff_decode` pulling its bits with `Hbitread(aid, 1, &bit)` from a bit-id state -/
def descendIO (t : Tree) : Nat → Nat → H4.BitIO.St → Option (Nat × H4.BitIO.St)
  | 0, _, _ => none
  | fuel+1, a, st =>
    match H4.BitIO.bitread st 1 with
    | (st', some (1, bit)) =>
      let a' := if bit = 0 then rd t.left a else rd t.right a
      if a' > SKPHUFF_MAX_CHAR then some (a' - SUCCMAX, st') else descendIO t fuel a' st'
    | _ => none

/-- `HCIcskphuff_decode` on a bit-id state -/
def decRunIO (skip : Nat) : List Tree → Nat → H4.BitIO.St → Nat → Option (List UInt8)
  | _, _, _, 0 => some []
  | ts, pos, st, n+1 =>
    let t := getTree ts pos
    match descendIO t (8 * TWICEMAX) ROOT st with
    | none => none
    | some (s, st') =>
      let plain := UInt8.ofNat s
      (decRunIO skip (ts.set pos (splay t plain.toNat)) ((pos + 1) % skip) st' n).map (plain :: ·)

/-- `n` bytes read back through `Hstartbitread` + `HCIcskphuff_decode` from the raw element bytes -/
def decompressIO (skip : Nat) (raw : List UInt8) (n : Nat) : Option (List UInt8) :=
  decRunIO skip (initTrees skip) 0 (H4.BitIO.startRead raw) n

end H4.SkpHuff
