import H4.Gen.Hdf
import H4.Gen.Vs
/-! Model of the Vdata record transfer layer (C07): `VSfdefine`, `VSsetfields`, `VSfpack` (`hdf/src/vsfld.c`),
    `VSseek`, `VSread`, `VSwrite` (`hdf/src/vrw.c`), `VSsetinterlace`, `VSsizeof` (`hdf/src/vg.c`).

    What is modelled is the gather/scatter index arithmetic: every `DFKconvert` call of the ten interlace cases with its
    base pointers, strides and per-order pointer bumps, the `VDATA_BUFFER_MAX`-bounded chunk loop of cases C/E, the static
    `Vtbufsize`, the byte position of the data element's access id, `nvertices`, the write list (`wlist`: type, order,
    `isize`, `esize`, `off`, `ivsize`) and the read list (`rlist.item`).
    `DFKconvert` itself is a strided per-element copy of `tsz` bytes, byte-reversed for the swapping kernels
    (`DFKsb2b/4b/8b`: big-endian file types on a little-endian host) and verbatim for the native kernels (`DFKnb*b`).
    The data element (tag `DFTAG_VS`) is a growable byte array with a position (`Hseek/Hread/Hwrite`); its realisation
    as a linked-block element is the business of C01.  Buffers are `Array UInt8` so that the model is usable on the
    megabyte-sized cases that cross `VDATA_BUFFER_MAX`.  No Mathlib. -/
namespace H4.VData
open H4.Gen.Hdf H4.Gen.Vs

abbrev Byte := UInt8
abbrev Buf := Array Byte

def getB (b : Buf) (i : Nat) : Byte := b.getD i 0

/-! ### number types (`DFKNTsize`, choice of conversion kernel in `DFKsetNT`) -/

structure NT where
  tsz : Nat     -- DFKNTsize(type): bytes handled per element by the conversion kernel
  nsz : Nat     -- DFKNTsize(type | DFNT_NATIVE)
  swap : Bool   -- kernel reverses the bytes of each element
deriving Repr, DecidableEq

def findIdx (l : List Nat) (x : Nat) : Option Nat :=
  let i := l.idxOf x
  if i < l.length then some i else none

/-- `DFKNTsize(t)`, `DFKNTsize(t | DFNT_NATIVE)` and whether `DFKsetNT(t)` selects a byte-swapping kernel on this host -/
def ntInfo (t : Nat) : Option NT :=
  let base := t % DFNT_NATIVE
  let native := t / DFNT_NATIVE % 2 == 1
  let custom := t / DFNT_CUSTOM % 2 == 1
  let litend := t / DFNT_LITEND % 2 == 1
  if custom ∨ t ≥ 2 * DFNT_LITEND then none else
  match findIdx NT_CODES base with
  | none => none
  | some i =>
    let tsz := (if native then NT_NSIZES else NT_SIZES).getD i 0
    some { tsz := tsz, nsz := NT_NSIZES.getD i 0,
           swap := tsz > 1 && !native && (litend != (HOST_LE == 1)) }

/-! ### symbol table and write list -/

/-- `SYMDEF` (user-defined field, `vs->usym[]`) -/
structure SymDef where
  name : String
  type : Nat
  isize : Nat    -- DFKNTsize(type)
  order : Nat
deriving Repr

/-- one entry of `DYN_VWRITELIST` -/
structure Field where
  name : String
  type : Nat
  tsz : Nat
  swap : Bool
  order : Nat
  isize : Nat
  esize : Nat
  off : Nat
deriving Repr

instance : Inhabited Field := ⟨{ name := "", type := 0, tsz := 0, swap := false, order := 0, isize := 0, esize := 0, off := 0 }⟩

/-- `VSfdefine` behind its `scanattrs` call (which delivered the single token `name`): the limit tests, the duplicate scan and
    the update of `vs->usym[]`; `none` = FAIL. A field that is already defined is replaced at its index (code after commit
    b2ad584; the older scan compared with `rstab[j]` and is described in DESIGN.md).  This is the function the C text of
    `VSfdefine`, translated statement by statement, is proved to compute (`H4.Props.C07Fld.VSfdefine_refines`). -/
def vsfdefineTok (usym : List SymDef) (name : String) (localtype order : Nat) : Option (List SymDef) :=
  if order < 1 ∨ order > MAX_ORDER then none else
  match ntInfo localtype with
  | none => none
  | some nt =>
    if nt.tsz * order > MAX_FIELD_SIZE then none else
    let sd : SymDef := { name := name, type := localtype, isize := nt.tsz, order := order }
    -- for (replacesym = 0, j = 0; j < vs->nusym; j++) if (!strcmp(av[0], vs->usym[j].name)) { replacesym = 1; break; }
    match usym.findIdx? (fun s => s.name == name) with
    | some j => some (usym.set j sd)
    | none => some (usym ++ [sd])

/-- `VSfdefine(vkey, field, localtype, order)`; `none` = FAIL.  `scanattrs(field)` must deliver exactly one token (`ac != 1`
    is refused): no comma, not empty. -/
def vsfdefine (usym : List SymDef) (name : String) (localtype order : Nat) : Option (List SymDef) :=
  if name.isEmpty ∨ name.contains ',' then none else vsfdefineTok usym name localtype order

structure WList where
  fields : List Field := []
  ivsize : Nat := 0
deriving Repr

def WList.n (w : WList) : Nat := w.fields.length
def WList.field (w : WList) (i : Nat) : Field := w.fields.getD i default

/-- `scanattrs`: comma separated tokens, blanks after a comma skipped; an empty token is an error -/
def scanattrs (s : String) : Option (List String) :=
  let toks := (s.splitOn ",").map fun t => String.ofList (t.toList.dropWhile (· == ' '))
  if toks.any (·.isEmpty) then none else some toks

/-- `for (uj = 0, i = 0; i < wlist->n; i++) { wlist->off[i] = uj; uj += wlist->isize[i]; }` -/
def assignOffs (fs : List Field) : List Field :=
  (fs.foldl (fun (p : List Field × Nat) f => ({ f with off := p.2 } :: p.1, p.2 + f.isize)) ([], 0)).1.reverse

/-- a name of the generated table `RSTAB_NAME` (character codes followed by the NUL) -/
def rowString (r : List Int) : String := String.ofList ((r.takeWhile (· ≠ 0)).map fun c => Char.ofNat c.toNat)

/-- `rstab[]` of vsfld.c: the reserved (predefined) symbols `PX PY PZ IX IY IZ NX NY NZ`, from the generated tables -/
def rstab : List SymDef :=
  (List.range NRESERVED).map fun j =>
    { name := rowString (RSTAB_NAME.getD j []), type := RSTAB_TYPE.getD j 0, isize := RSTAB_ISIZE.getD j 0, order := RSTAB_ORDER.getD j 0 }

/-- first part of `VSsetfields` (write access, empty vdata, write list not yet set): build the write list.  Every name is
    looked up among the user symbols first, then among the reserved symbols `rstab[]`; an unknown name = FAIL.
    A field is refused when the record size so far would exceed `MAX_FIELD_SIZE` (a user field also when its own size does);
    the reserved-symbol branch has that test since commit fef3f30 (before, `wlist->ivsize += (uint16)isize` wrapped modulo
    65536: known finding `limits-ivsize-wrap:reserved-field`). -/
def buildWList (usym : List SymDef) (names : List String) : Option WList :=
  let rec go : List String → List Field → Nat → Option (List Field × Nat)
    | [], acc, iv => some (acc.reverse, iv)
    | nm :: rest, acc, iv =>
      match usym.find? (·.name == nm) with
      | some sd =>
        match ntInfo sd.type with
        | none => none
        | some nt =>
          let esize := sd.order * nt.nsz
          let isize := sd.order * sd.isize
          if isize > MAX_FIELD_SIZE then none else
          if iv + isize > MAX_FIELD_SIZE then none else
          go rest ({ name := sd.name, type := sd.type, tsz := nt.tsz, swap := nt.swap, order := sd.order,
                     isize := isize, esize := esize % 65536, off := 0 } :: acc) (iv + isize)
      | none =>
        -- if (!found) for (j = 0; j < NRESERVED; j++) if (!strcmp(av[i], rstab[j].name)) { ... }
        match rstab.find? (·.name == nm) with
        | none => none
        | some sd =>
          match ntInfo sd.type with
          | none => none
          | some nt =>
            let isize := sd.order * sd.isize % 65536
            -- value = (int32)wlist->ivsize + (int32)(wlist->isize[wlist->n]); if (value > MAX_FIELD_SIZE) FAIL
            if iv + isize > MAX_FIELD_SIZE then none else
            go rest ({ name := sd.name, type := sd.type, tsz := nt.tsz, swap := nt.swap, order := sd.order,
                       isize := isize, esize := sd.order * nt.nsz % 65536, off := 0 } :: acc) (iv + isize)
  match go names [] 0 with
  | none => none
  | some (fs, iv) =>
    some { fields := assignOffs fs, ivsize := iv }

/-- second part of `VSsetfields` (vdata has records): the read list; on an unknown name the C returns FAIL and
    leaves the items found so far in `rlist` -/
def buildRList (w : WList) (names : List String) : List Nat × Bool :=
  let rec go : List String → List Nat → List Nat × Bool
    | [], acc => (acc.reverse, true)
    | nm :: rest, acc =>
      let j := w.fields.findIdx (·.name == nm)
      if j < w.fields.length then go rest (j :: acc) else (acc.reverse, false)
  go names []

/-! ### `DFKconvert` -/

/-- one element: `dest[b] = source[tsz-1-b]` (`DFKsb*b`) or `dest[b] = source[b]` (`DFKnb*b`) -/
def copyElem (tsz : Nat) (swap : Bool) (src : Buf) (s : Nat) (dst : Buf) (d : Nat) : Buf :=
  (List.range tsz).foldl (fun dst b => dst.setIfInBounds (d + b) (getB src (s + (if swap then tsz - 1 - b else b)))) dst

/-- `DFKconvert(source + s, dest + d, type, n, acc, source_stride, dest_stride)`: element `i` goes from
    `s + i·source_stride` to `d + i·dest_stride`; strides `(0,0)` mean contiguous -/
def dfkConvert (tsz : Nat) (swap : Bool) (src : Buf) (s : Nat) (dst : Buf) (d : Nat) (n ss ds : Nat) : Buf :=
  let ss' := if ss = 0 ∧ ds = 0 then tsz else ss
  let ds' := if ss = 0 ∧ ds = 0 then tsz else ds
  (List.range n).foldl (fun dst i => copyElem tsz swap src (s + i * ss') dst (d + i * ds')) dst

/-- the loop shared by every case of `VSread`/`VSwrite`:
    `for (index = 0; index < order; index++) { DFKconvert(src, dst, type, n, acc, ss, ds); src += sadv; dst += dadv; }`
    returns the destination buffer and the two pointers after the loop -/
def indexLoop (f : Field) (src : Buf) (dst : Buf) (s d n ss ds sadv dadv : Nat) : Buf × Nat × Nat :=
  (List.range f.order).foldl
    (fun (st : Buf × Nat × Nat) _ => (dfkConvert f.tsz f.swap src st.2.1 st.1 st.2.2 n ss ds, st.2.1 + sadv, st.2.2 + dadv))
    (dst, s, d)

/-! ### `VSread` -/

/-- `for (uvsize = 0, j = 0; j < r->n; j++) uvsize += w->esize[r->item[j]];` -/
def uvsizeOf (w : WList) (items : List Nat) : Nat := items.foldl (fun a i => a + (w.field i).esize) 0

/-- `if ((uint32)total_bytes < Vtbufsize) chunk = nelt; else { buf_size = MIN(total_bytes, VDATA_BUFFER_MAX);
    chunk = buf_size / hsize + 1; Vtbufsize = chunk * hsize; }` — returns `(chunk, Vtbufsize)` -/
def chunkInit (total_bytes hsize nelt vtbufsize : Nat) : Nat × Nat :=
  if total_bytes < vtbufsize then (nelt, vtbufsize)
  else
    let buf_size := min total_bytes VDATA_BUFFER_MAX
    let chunk := buf_size / hsize + 1
    (chunk, chunk * hsize)

/-- VSread case C (user FULL, vdata FULL), one chunk: `vt` holds `chunk` records, user pointer `Src = buf + src` -/
def readC (w : WList) (items : List Nat) (vt buf : Buf) (src chunk hsize uvsize : Nat) : Buf :=
  (items.foldl (fun (st : Buf × Nat) i =>
      let f := w.field i
      -- b1 = Src + offset; b2 = Vtbuf + w->off[i]; ... DFKconvert(b2, b1, type, chunk, DFACC_READ, hsize, uvsize); offset += esize
      ((indexLoop f vt st.1 f.off (src + st.2) chunk hsize uvsize (f.isize / f.order) (f.esize / f.order)).1, st.2 + f.esize))
    (buf, 0)).1

/-- the `while (done < nelt)` loop of VSread cases C/E. `none` = a short `Hread` (FAIL) -/
def readCELoop (w : WList) (items : List Nat) (store : Buf) (hsize uvsize nelt : Nat) :
    Nat → Nat → Nat → Nat → Nat → Buf → Option (Buf × Nat)
  | 0, _, _, _, _, _ => none
  | fuel + 1, chunk, done, pos, src, buf =>
    if done < nelt then
      let chunk := if nelt - done < chunk then nelt - done else chunk
      let bytes := hsize * chunk
      if pos + bytes > store.size then none else
      let vt := store.extract pos (pos + bytes)
      let buf :=
        if w.n = 1 then
          -- CASE (E): DFKconvert(Vtbuf, Src, w->type[0], (int32)w->order[0] * chunk, DFACC_READ, 0, 0);
          let f := w.field 0
          dfkConvert f.tsz f.swap vt 0 buf src (f.order * chunk) 0 0
        else readC w items vt buf src chunk hsize uvsize
      readCELoop w items store hsize uvsize nelt fuel chunk (done + chunk) (pos + bytes) (src + chunk * uvsize) buf
    else some (buf, pos)

/-- VSread case A (user NO_INTERLACE, vdata FULL_INTERLACE) -/
def readA (w : WList) (items : List Nat) (vt buf : Buf) (nelt hsize : Nat) : Buf :=
  (items.foldl (fun (st : Buf × Nat) i =>
      let f := w.field i
      -- b2 = Vtbuf + off[i]; DFKconvert(b2, b1, type, nelt, DFACC_READ, hsize, esize); b1 += (nelt - 1) * esize
      let r := indexLoop f vt st.1 f.off st.2 nelt hsize f.esize (f.isize / f.order) (f.esize / f.order)
      (r.1, r.2.2 + (nelt - 1) * f.esize))
    (buf, 0)).1

/-- VSread case B (user NO_INTERLACE, vdata NO_INTERLACE) -/
def readB (w : WList) (items : List Nat) (vt buf : Buf) (nelt : Nat) : Buf :=
  (items.foldl (fun (st : Buf × Nat) i =>
      let f := w.field i
      -- b2 = Vtbuf + off[i] * nelt; DFKconvert(b2, b1, type, nelt, DFACC_READ, isize, esize); b1 += (nelt - 1) * esize
      let r := indexLoop f vt st.1 (f.off * nelt) st.2 nelt f.isize f.esize (f.isize / f.order) (f.esize / f.order)
      (r.1, r.2.2 + (nelt - 1) * f.esize))
    (buf, 0)).1

/-- VSread case D (user FULL_INTERLACE, vdata NO_INTERLACE); note `offset += isize` (case C has `esize`) -/
def readD (w : WList) (items : List Nat) (vt buf : Buf) (nelt uvsize : Nat) : Buf :=
  (items.foldl (fun (st : Buf × Nat) i =>
      let f := w.field i
      -- b1 = buf + offset; b2 = Vtbuf + off[i] * nelt; DFKconvert(b2, b1, type, nelt, DFACC_READ, isize, uvsize); offset += isize
      ((indexLoop f vt st.1 (f.off * nelt) st.2 nelt f.isize uvsize (f.isize / f.order) (f.esize / f.order)).1, st.2 + f.isize))
    (buf, 0)).1

/-- data part of `VSread(vkey, buf, nelt, interlace)` for `nelt ≥ 1`: write list `w`, vdata interlace `vil`, read list
    `items`, data element `store` at byte position `pos`, static `Vtbufsize`. Returns the new `Vtbufsize` (updated before
    the first `Hread`, hence also when the call fails) and, unless the call FAILs (`none`), the user buffer and the new
    position. `buf` is the caller's buffer before the call. -/
def vsreadCore (w : WList) (vil : Nat) (items : List Nat) (store : Buf) (pos vtbufsize : Nat) (buf : Buf) (nelt il : Nat) :
    Nat × Option (Buf × Nat) :=
  if w.n = 0 then (vtbufsize, none) else
  if il ≠ FULL_INTERLACE ∧ il ≠ NO_INTERLACE then (vtbufsize, none) else
  let hsize := w.ivsize
  let total_bytes := hsize * nelt
  if w.n = 1 ∨ (il = FULL_INTERLACE ∧ vil = FULL_INTERLACE) then
    let ci := chunkInit total_bytes hsize nelt vtbufsize
    let uvsize := uvsizeOf w items
    (ci.2, readCELoop w items store hsize uvsize nelt (nelt + 1) ci.1 0 pos 0 buf)
  else
    let vtb := if vtbufsize < nelt * hsize then nelt * hsize else vtbufsize
    if pos + nelt * hsize > store.size then (vtb, none) else
    let vt := store.extract pos (pos + nelt * hsize)
    let buf :=
      if il = NO_INTERLACE ∧ vil = FULL_INTERLACE then readA w items vt buf nelt hsize
      else if il = NO_INTERLACE ∧ vil = NO_INTERLACE then readB w items vt buf nelt
      else if il = FULL_INTERLACE ∧ vil = NO_INTERLACE then readD w items vt buf nelt (uvsizeOf w items)
      else buf
    (vtb, some (buf, pos + nelt * hsize))

/-! ### `VSwrite` -/

/-- `Hwrite(aid, bytes, Vtbuf)` at byte position `pos` of the data element (extended when written past its end) -/
def hwrite (store : Buf) (pos : Nat) (vt : Buf) (bytes : Nat) : Buf :=
  let store := if store.size < pos + bytes then store ++ Array.replicate (pos + bytes - store.size) (0 : Byte) else store
  (List.range bytes).foldl (fun s i => s.setIfInBounds (pos + i) (getB vt i)) store

/-- `for (int_size = 0, j = 0; j < w->n; j++) int_size += w->esize[j];` -/
def intSizeOf (w : WList) : Nat := w.fields.foldl (fun a f => a + f.esize) 0

/-- VSwrite case C/E, one chunk: gather `chunk` records from the user buffer at `Src = buf + src` into `Vtbuf` -/
def writeC (w : WList) (buf vt : Buf) (src chunk int_size hdf_size : Nat) : Buf :=
  (w.fields.foldl (fun (st : Buf × Nat) f =>
      -- src = Src + offset; dest = Vtbuf + off[j]; DFKconvert(src, dest, type, chunk, DFACC_WRITE, int_size, hdf_size); offset += esize
      ((indexLoop f buf st.1 (src + st.2) f.off chunk int_size hdf_size (f.esize / f.order) (f.isize / f.order)).1, st.2 + f.esize))
    (vt, 0)).1

/-- the `while (done < nelt)` loop of VSwrite cases C/E; state: `Vtbuf`, data element, position -/
def writeCELoop (w : WList) (buf : Buf) (int_size hdf_size nelt : Nat) :
    Nat → Nat → Nat → Nat → Nat → Buf → Buf → Buf × Nat
  | 0, _, _, pos, _, _, store => (store, pos)
  | fuel + 1, chunk, done, pos, src, vt, store =>
    if done < nelt then
      let chunk := if nelt - done < chunk then nelt - done else chunk
      let bytes := hdf_size * chunk
      let vt := writeC w buf vt src chunk int_size hdf_size
      let store := hwrite store pos vt bytes
      writeCELoop w buf int_size hdf_size nelt fuel chunk (done + chunk) (pos + bytes) (src + chunk * int_size) vt store
    else (store, pos)

/-- VSwrite case A (user NO_INTERLACE, vdata FULL_INTERLACE) -/
def writeA (w : WList) (buf vt : Buf) (nelt hdf_size : Nat) : Buf :=
  (w.fields.foldl (fun (st : Buf × Nat) f =>
      -- dest = Vtbuf + off[j]; DFKconvert(src, dest, type, nelt, DFACC_WRITE, esize, hdf_size); src += (nelt - 1) * esize
      let r := indexLoop f buf st.1 st.2 f.off nelt f.esize hdf_size (f.esize / f.order) (f.isize / f.order)
      (r.1, r.2.1 + (nelt - 1) * f.esize))
    (vt, 0)).1

/-- VSwrite case B (user NO_INTERLACE, vdata NO_INTERLACE) -/
def writeB (w : WList) (buf vt : Buf) (nelt : Nat) : Buf :=
  (w.fields.foldl (fun (st : Buf × Nat) f =>
      -- dest = Vtbuf + off[j] * nelt; DFKconvert(src, dest, type, nelt, DFACC_WRITE, esize, isize); src += (nelt - 1) * esize
      let r := indexLoop f buf st.1 st.2 (f.off * nelt) nelt f.esize f.isize (f.esize / f.order) (f.isize / f.order)
      (r.1, r.2.1 + (nelt - 1) * f.esize))
    (vt, 0)).1

/-- VSwrite case D (user FULL_INTERLACE, vdata NO_INTERLACE) -/
def writeD (w : WList) (buf vt : Buf) (nelt int_size : Nat) : Buf :=
  (w.fields.foldl (fun (st : Buf × Nat) f =>
      -- src = buf + offset; dest = Vtbuf + off[j] * nelt; DFKconvert(src, dest, type, nelt, DFACC_WRITE, int_size, isize); offset += esize
      ((indexLoop f buf st.1 st.2 (f.off * nelt) nelt int_size f.isize (f.esize / f.order) (f.isize / f.order)).1, st.2 + f.esize))
    (vt, 0)).1

/-- data part of `VSwrite(vkey, buf, nelt, interlace)` for `nelt ≥ 1`. Returns the data element, the new position and
    the new `Vtbufsize`; `none` = FAIL. A freshly (re)allocated `Vtbuf` is modelled as zero-filled. -/
def vswriteCore (w : WList) (vil : Nat) (store : Buf) (pos vtbufsize : Nat) (buf : Buf) (nelt il : Nat) :
    Option (Buf × Nat × Nat) :=
  if nelt = 0 then none else
  if w.n = 0 then none else
  if il ≠ NO_INTERLACE ∧ il ≠ FULL_INTERLACE then none else
  let hdf_size := w.ivsize
  let total_bytes := hdf_size * nelt
  let int_size := intSizeOf w
  if w.n = 1 ∨ (il = FULL_INTERLACE ∧ vil = FULL_INTERLACE) then
    let ci := chunkInit total_bytes hdf_size nelt vtbufsize
    let vt : Buf := Array.replicate (hdf_size * min ci.1 nelt) 0
    let res := writeCELoop w buf int_size hdf_size nelt (nelt + 1) ci.1 0 pos 0 vt store
    some (res.1, res.2, ci.2)
  else
    let vtb := if vtbufsize < total_bytes then total_bytes else vtbufsize
    let vt : Buf := Array.replicate total_bytes 0
    let vt :=
      if il = NO_INTERLACE ∧ vil = FULL_INTERLACE then writeA w buf vt nelt hdf_size
      else if il = NO_INTERLACE ∧ vil = NO_INTERLACE then writeB w buf vt nelt
      else if il = FULL_INTERLACE ∧ vil = NO_INTERLACE then writeD w buf vt nelt int_size
      else vt
    some (hwrite store pos vt total_bytes, pos + total_bytes, vtb)

/-! ### the Vdata object -/

structure VS where
  writable : Bool := true            -- vs->access == 'w'
  usym : List SymDef := []
  w : WList := {}
  interlace : Nat := FULL_INTERLACE  -- vs->interlace
  nvertices : Nat := 0
  rlist : List Nat := []
  store : Buf := #[]                 -- the DFTAG_VS element
  pos : Nat := 0                     -- position of vs->aid
deriving Repr

/-- `VSsetinterlace` -/
def VS.setInterlace (v : VS) (il : Nat) : Option VS :=
  if !v.writable then none
  else if v.nvertices > 0 then none
  else if il = FULL_INTERLACE ∨ il = NO_INTERLACE then some { v with interlace := il }
  else none

/-- `VSfdefine` -/
def VS.fdefine (v : VS) (name : String) (t order : Nat) : Option VS :=
  (vsfdefine v.usym name t order).map fun u => { v with usym := u }

/-- `VSsetfields` behind its `scanattrs` call (which delivered the tokens `names`): the returned flag is SUCCEED/FAIL.  A
    refused write list leaves the vdata unchanged (commit bafc8f1); a refused READ list leaves the items found so far in
    `rlist`.  This is the function the C text of `VSsetfields`, translated statement by statement, is proved to compute
    (`H4.Props.C07Fld.VSsetfields_refines`). -/
def VS.setFieldsTok (v : VS) (names : List String) : VS × Bool :=
  if names.length = 0 ∨ names.length > VSFIELDMAX then (v, false) else
  if v.writable ∧ v.nvertices = 0 ∧ v.w.n = 0 then
    match buildWList v.usym names with
    | none => (v, false)
    | some w => ({ v with w := w }, true)
  else if v.nvertices > 0 then
    let (items, ok) := buildRList v.w names
    ({ v with rlist := items }, ok)
  else (v, false)

/-- `VSsetfields`: the returned flag is SUCCEED/FAIL (the state may change even on FAIL: partial read list) -/
def VS.setFields (v : VS) (fields : String) : VS × Bool :=
  match scanattrs fields with
  | none => (v, false)
  | some names => v.setFieldsTok names

/-- `VSseek(vkey, eltpos)`: `Hseek(vs->aid, eltpos * vs->wlist.ivsize, DF_START)`; seeks past the end of the
    data element are left to the linked-block layer and not modelled (`none`) -/
def VS.seek (v : VS) (eltpos : Nat) : Option VS :=
  if v.w.n = 0 then none
  else
    let offset := eltpos * v.w.ivsize
    if offset > v.store.size then none else some { v with pos := offset }

/-- `VSwrite` -/
def VS.write (v : VS) (vtbufsize : Nat) (buf : Buf) (nelt il : Nat) : Option (VS × Nat) :=
  if !v.writable then none else
  match vswriteCore v.w v.interlace v.store v.pos vtbufsize buf nelt il with
  | none => none
  | some (store, pos, vtb) =>
    -- new_size = (position / ivsize) + nelt; if (new_size > vs->nvertices) vs->nvertices = new_size;
    let new_size := v.pos / v.w.ivsize + nelt
    some ({ v with store := store, pos := pos, nvertices := max v.nvertices new_size }, vtb)

/-- `VSread` into a zero-filled caller buffer of `bufsz` bytes; the second component is the new `Vtbufsize` -/
def VS.read (v : VS) (vtbufsize : Nat) (bufsz nelt il : Nat) : Option (Buf × VS) × Nat :=
  if v.nvertices = 0 then (none, vtbufsize) else
  match vsreadCore v.w v.interlace v.rlist v.store v.pos vtbufsize (Array.replicate bufsz 0) nelt il with
  | (vtb, none) => (none, vtb)
  | (vtb, some (buf, pos)) => (some (buf, { v with pos := pos }), vtb)

/-- `VSsizeof(vkey, fields)` -/
def VS.sizeof (v : VS) (fields : Option String) : Option Nat :=
  match fields with
  | none => some (intSizeOf v.w)
  | some s =>
    match scanattrs s with
    | none => none
    | some names =>
      names.foldl (fun acc nm => match acc, v.w.fields.find? (·.name == nm) with
        | some a, some f => some (a + f.esize)
        | _, _ => none) (some 0)

/-! ### `VSfpack` -/

/-- `memcpy(dst + d, src + s, n)` -/
def copyBytes (src : Buf) (s : Nat) (dst : Buf) (d n : Nat) : Buf := copyElem n false src s dst d

/-- the `blist` of `VSfpack`: for every field in the packed buffer its (`esize`, offset in a buffer record);
    `fields_in_buf = NULL` means all vdata fields -/
def fpackBList (w : WList) (fieldsInBuf : Option (List String)) : Option (List (String × Nat × Nat)) :=
  let idx : Option (List Nat) :=
    match fieldsInBuf with
    | none => some (List.range w.n)
    | some names => names.mapM fun nm =>
        let j := w.fields.findIdx (·.name == nm)
        if j < w.fields.length then some j else none
  idx.map fun idx =>
    -- blist.offs[i] = (i == 0 ? 0 : blist.offs[i-1] + w->esize[blist.idx[i-1]])
    (idx.foldl (fun (p : List (String × Nat × Nat) × Nat) i =>
        let f := w.field i
        ((f.name, f.esize, p.2) :: p.1, p.2 + f.esize)) ([], 0)).1.reverse

/-- `fmsizes[]`, `foffs[]` for the fields to (un)pack; `fields = NULL` means all buffer fields -/
def fpackSel (bl : List (String × Nat × Nat)) (fields : Option (List String)) : Option (List (Nat × Nat)) :=
  match fields with
  | none => some (bl.map fun e => (e.2.1, e.2.2))
  | some names => names.mapM fun nm => (bl.find? (·.1 == nm)).map fun e => (e.2.1, e.2.2)

/-- `_HDF_VSPACK` loops: `for (i < n_records) { for (j < ac) { memcpy(bufp + foffs[j], fbufps[j], fmsizes[j]); fbufps[j] += fmsizes[j]; } bufp += b_rec_size; }`
    (`fbufps[j]` is kept in closed form `i * fmsizes[j]`) -/
def fpackPack (sel : List (Nat × Nat)) (recSize nrec : Nat) (buf : Buf) (fbufs : List Buf) : Buf :=
  (List.range nrec).foldl (fun buf i =>
    ((sel.zip fbufs).foldl (fun buf (e : (Nat × Nat) × Buf) =>
      copyBytes e.2 (i * e.1.1) buf (i * recSize + e.1.2) e.1.1) buf)) buf

/-- `_HDF_VSUNPACK` loops: `memcpy(fbufps[j], bufp + foffs[j], fmsizes[j])` -/
def fpackUnpack (sel : List (Nat × Nat)) (recSize nrec : Nat) (buf : Buf) (fbufs : List Buf) : List Buf :=
  (sel.zip fbufs).map fun (e : (Nat × Nat) × Buf) =>
    (List.range nrec).foldl (fun fb i => copyBytes buf (i * recSize + e.1.2) fb (i * e.1.1) e.1.1) e.2

/-- `VSfpack(vsid, packtype, fields_in_buf, buf, bufsz, n_records, fields, fldbufpt)`:
    returns `(buf, field buffers)` after the call, `none` = FAIL -/
def vsfpack (w : WList) (packtype : Nat) (fieldsInBuf : Option String) (buf : Buf) (nrec : Nat)
    (fields : Option String) (fbufs : List Buf) : Option (Buf × List Buf) :=
  let fib := match fieldsInBuf with
    | none => some none
    | some s => (scanattrs s).map some
  let fl := match fields with
    | none => some none
    | some s => (scanattrs s).map some
  match fib, fl with
  | some fib, some fl =>
    match fpackBList w fib with
    | none => none
    | some bl =>
      let recSize := bl.foldl (fun a e => a + e.2.1) 0
      if buf.size < recSize * nrec then none else
      match fpackSel bl fl with
      | none => none
      | some sel =>
        if fbufs.length < sel.length then none else
        if packtype = _HDF_VSPACK then some (fpackPack sel recSize nrec buf fbufs, fbufs)
        else some (buf, fpackUnpack sel recSize nrec buf fbufs ++ fbufs.drop sel.length)
  | _, _ => none

end H4.VData
