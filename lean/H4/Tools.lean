import H4.Gen.Tools
import H4.Slab
/-! Model of the command-line tools (C18 hrepack, C19 hdiff / hdp / hdfimport).  Core-only, executable.

## hrepack (`mfhdf/hrepack`)
* `parseComp` / `parseChunk`     – `hrepack_parse.c` on character lists, including every rejection branch
* `tblAddComp` / `tblAddChunk`   – `hrepack_opttable.c:options_add_comp / options_add_chunk` (with the `found` flag that is
                                   never reset)
* `addComp` / `addChunk` / `readInfo` / `mainLoop` / `printOptionsCheck` – `hrepack.c`, `hrepack_main.c:main`
* `optionsGetInfo`               – `hrepack_utils.c:options_get_info`, the four `all_chunk × all_comp` cases
* `sdsDecide` / `grDecide`       – the decision part of `hrepack_sds.c:copy_sds` / `hrepack_gr.c:copy_gr`
                                   (defaults read from the input object, threshold rules, unlimited rule)
* `smSize` / `advance` / `tilesLoop` – the strip-mine (hyperslab) loop of `copy_sds`
Strings are `List Char`; integers that can be negative in C (`rank` = -1 / -2, `info` = -1) are `Int`. -/
namespace H4.Tools
open H4.Gen.Tools

abbrev Str := List Char

/-- `atoi` on a buffer that starts with its digits (no sign / blanks can reach it here) -/
def atoi (s : Str) : Nat := (s.takeWhile Char.isDigit).foldl (fun a c => 10 * a + (c.toNat - '0'.toNat)) 0

/-- position of the last `':'` (`end_obj`), scanning the whole string as the C loop does -/
def lastColonAux : Str → Nat → Option Nat → Option Nat
  | [], _, acc => acc
  | c :: cs, i, acc => lastColonAux cs (i + 1) (if c = ':' then some i else acc)

def lastColon (s : Str) : Option Nat := lastColonAux s 0 none

/-- number of `','` in the WHOLE string (`n`), names and value alike -/
def countCommas (s : Str) : Nat := s.count ','

/-- the "get object list" loop over `str[0 .. end_obj)`: a name is emitted at every `','` and at the last character;
    `none` = a name does not fit in `obj[H4_MAX_NC_NAME]` (rejected, commit a29fdb9) -/
def namesLoop : Str → Str → Option (List Str)
  | [], _ => some []
  | [c], cur =>
    if cur.length ≥ H4_MAX_NC_NAME - 1 then none
    else if c = ',' then some [cur] else some [cur ++ [c]]
  | c :: c2 :: rest, cur =>
    if cur.length ≥ H4_MAX_NC_NAME - 1 then none
    else if c = ',' then (namesLoop (c2 :: rest) []).map (cur :: ·)
    else namesLoop (c2 :: rest) (cur ++ [c])

/-- compression request of a `-t` option: `type` is a `comp_coder_t`, `info` the numeric parameter (-1 = never set:
    `memset(&comp, FAIL, ...)`) -/
structure Comp where
  type : Int
  info : Int
deriving DecidableEq, Repr, Inhabited

/-- the `strcmp(scomp, ...)` chain of `parse_comp`; `m` = number of parameter digits, `noParam` = no blank was seen -/
def compOfName (scomp : Str) (m : Nat) (noParam : Bool) (info : Int) : Option Comp :=
  if scomp = "NONE".toList then some ⟨COMP_CODE_NONE, info⟩
  else if scomp = "RLE".toList then (if m > 0 then none else some ⟨COMP_CODE_RLE, info⟩)
  else if scomp = "HUFF".toList then (if noParam then none else some ⟨COMP_CODE_SKPHUFF, info⟩)
  else if scomp = "GZIP".toList then (if noParam then none else some ⟨COMP_CODE_DEFLATE, info⟩)
  else if scomp = "JPEG".toList then (if noParam then none else some ⟨COMP_CODE_JPEG, info⟩)
  else none  -- "SZIP": not available in this build (H4_HAVE_LIBSZ undefined) ; anything else: invalid type

/-- the "get compression type" loop of `parse_comp` over the characters after the colon; `sc` = `scomp` so far -/
def compValue : Str → Str → Option Comp
  | [], _ => none
  | c :: rest, sc =>
    if sc.length ≥ SCOMP_SZ - 1 then none                      -- token does not fit in scomp[10]
    else if c = ' ' then
      -- one more parameter: all remaining characters must be digits, at most STYPE_SZ-1 of them
      -- (scomp = "SZIP" runs another scanner, and is rejected afterwards in any case)
      if rest.all Char.isDigit && rest.length ≤ STYPE_SZ - 1 && sc ≠ "SZIP".toList then
        compOfName sc rest.length false (atoi rest)
      else none
    else match rest with
      | [] => compOfName (sc ++ [c]) 0 true (-1)
      | _ :: _ => compValue rest (sc ++ [c])

/-- "check valid parameters" switch at the end of `parse_comp` -/
def compParamOk (c : Comp) : Bool :=
  if c.type = COMP_CODE_SKPHUFF then decide (c.info > 0)
  else if c.type = COMP_CODE_DEFLATE then decide (0 ≤ c.info ∧ c.info ≤ 9)
  else if c.type = COMP_CODE_JPEG then decide (0 ≤ c.info ∧ c.info ≤ 100)
  else true

/-- the test after the `':'` search (commit b6f2d28): an empty object list (`end_obj == 0`) or one that ends with `','`
    (`str[end_obj - 1] == ','`) is refused - the name loop would store fewer names than `*n_objs` = commas + 1 announces, and
    `hrepack_addcomp` / `options_add_comp` then used the unwritten `obj_list` entry -/
def badObjList (s : Str) (e : Nat) : Bool := e = 0 || s.getD (e - 1) ' ' = ','

/-- `parse_comp`: `(n_objs, names, comp)` or rejection -/
def parseComp (s : Str) : Option (Nat × List Str × Comp) :=
  match lastColon s with
  | none => none                                               -- missing ':'
  | some e =>
    if badObjList s e then none else                           -- invalid object list
    match namesLoop (s.take e) [] with
    | none => none
    | some names =>
      let v := s.drop (e + 1)
      if v.isEmpty then none                                   -- nothing after ':'
      else match compValue v [] with
        | none => none
        | some c => if compParamOk c then some (countCommas s + 1, names, c) else none

/-- chunk request of a `-c` option: `rank` = -1 nothing, -2 `NONE`, else the number of lengths -/
structure Chunk where
  rank : Int
  lens : List Nat
deriving DecidableEq, Repr, Inhabited

def chunkChar (c : Char) : Bool := c.isDigit || c = 'x' || c = 'N' || c = 'O' || c = 'E'

/-- the "get chunk info" loop of `parse_chunk`; `sd` = `sdim` so far, `lens` = lengths stored so far (`c_index` = their number).
    At every `'x'` and at the last character the loop first refuses `c_index >= H4_MAX_VAR_DIMS` - the caller's `chunk_lengths[]`
    has that many entries (commit 5787e18; before it the 33rd length was written beyond the array) -/
def chunkValue : Str → Str → List Nat → Option Chunk
  | [], _, _ => none
  | c :: rest, sd, lens =>
    if sd.length ≥ SDIM_SZ - 1 || (c = 'x' && rest.isEmpty) then none   -- sdim[10] full / nothing after the last 'x'
    else if !chunkChar c then none
    else if c = 'x' then
      if lens.length ≥ H4_MAX_VAR_DIMS then none                        -- too many chunk dimensions
      else
        let v := atoi sd
        if v = 0 then none else chunkValue rest [] (lens ++ [v])
    else match rest with
      | [] =>
        if lens.length ≥ H4_MAX_VAR_DIMS then none                      -- too many chunk dimensions (also before `NONE`)
        else
          let sd' := sd ++ [c]
          if sd' = "NONE".toList then some ⟨-2, []⟩
          else let v := atoi sd'
            if v = 0 then none else some ⟨(lens.length + 1 : Nat), lens ++ [v]⟩
      | _ :: _ => chunkValue rest (sd ++ [c]) lens

/-- `parse_chunk` -/
def parseChunk (s : Str) : Option (Nat × List Str × Chunk) :=
  match lastColon s with
  | none => none
  | some e =>
    if badObjList s e then none else                           -- invalid object list
    match namesLoop (s.take e) [] with
    | none => none
    | some names =>
      let v := s.drop (e + 1)
      if v.isEmpty then none
      else match chunkValue v [] [] with
        | none => none
        | some ck => some (countCommas s + 1, names, ck)

/-! ### pretty printers (the grammar the usage text documents) -/

def digitChar (d : Nat) : Char := ['0', '1', '2', '3', '4', '5', '6', '7', '8', '9'].getD d '0'

def natStrF : Nat → Nat → Str
  | 0, _ => []
  | fuel + 1, n => if n < 10 then [digitChar n] else natStrF fuel (n / 10) ++ [digitChar (n % 10)]

/-- decimal digits of `n` (what `printf("%d")` prints for a non-negative value) -/
def natStr (n : Nat) : Str := natStrF (n + 1) n

def compName (t : Int) : Str :=
  if t = COMP_CODE_RLE then "RLE".toList else if t = COMP_CODE_SKPHUFF then "HUFF".toList
  else if t = COMP_CODE_DEFLATE then "GZIP".toList else if t = COMP_CODE_JPEG then "JPEG".toList else "NONE".toList

/-- `names` joined with commas -/
def joinNames : List Str → Str
  | [] => []
  | [n] => n
  | n :: m :: ms => n ++ ',' :: joinNames (m :: ms)

/-- `<type>[ <parameter>]` -/
def compValueStr (c : Comp) : Str :=
  compName c.type ++
    (if c.type = COMP_CODE_SKPHUFF ∨ c.type = COMP_CODE_DEFLATE ∨ c.type = COMP_CODE_JPEG then ' ' :: natStr c.info.toNat else [])

/-- `<names>:<type>[ <parameter>]` -/
def showComp (names : List Str) (c : Comp) : Str := joinNames names ++ ':' :: compValueStr c

/-- `<d1>x<d2>...` -/
def joinDims : List Nat → Str
  | [] => []
  | [n] => natStr n
  | n :: m :: ms => natStr n ++ 'x' :: joinDims (m :: ms)

def chunkValueStr (ck : Chunk) : Str := if ck.rank = -2 then "NONE".toList else joinDims ck.lens

/-- `<names>:<d1>x<d2>...` or `<names>:NONE` -/
def showChunk (names : List Str) (ck : Chunk) : Str := joinNames names ++ ':' :: chunkValueStr ck

/-! ### option table (`hrepack_opttable.c`) -/

structure PackInfo where
  path : Str
  comp : Comp
  chunk : Chunk
deriving DecidableEq, Repr, Inhabited

/-- a table slot as `options_table_init` / the `realloc` branch leave it, with the name filled in -/
def PackInfo.fresh (n : Str) : PackInfo := ⟨n, ⟨COMP_CODE_NONE, -1⟩, ⟨-1, []⟩⟩

def findIdx (n : Str) : List PackInfo → Nat → Option Nat
  | [], _ => none
  | p :: ps, i => if p.path = n then some i else findIdx n ps (i + 1)

/-- the `for j` loop of `options_add_comp` when the table is not empty. `old` = the first `nelems` slots (searched and
    updated in place), `added` = slots appended in this call, `found` is set once and never reset. -/
def addCompLoop (comp : Comp) : List Str → List PackInfo → List PackInfo → Bool → Option (List PackInfo)
  | [], old, added, _ => some (old ++ added)
  | n :: ns, old, added, found =>
    match findIdx n old 0 with
    | some i =>
      let e := old.getD i default
      if e.comp.type > 0 then none                              -- compression information already inserted
      else addCompLoop comp ns (old.set i { e with comp := comp }) added true
    | none =>
      if found then addCompLoop comp ns old added found
      else addCompLoop comp ns old (added ++ [{ PackInfo.fresh n with comp := comp }]) found

/-- `options_add_comp` -/
def tblAddComp (names : List Str) (comp : Comp) (tbl : List PackInfo) : Option (List PackInfo) :=
  if tbl.isEmpty then some (names.map fun n => { PackInfo.fresh n with comp := comp })
  else addCompLoop comp names tbl [] false

def addChunkLoop (ck : Chunk) : List Str → List PackInfo → List PackInfo → Bool → Option (List PackInfo)
  | [], old, added, _ => some (old ++ added)
  | n :: ns, old, added, found =>
    match findIdx n old 0 with
    | some i =>
      let e := old.getD i default
      if e.chunk.rank > 0 then none                             -- chunk information already inserted
      else addChunkLoop ck ns (old.set i { e with chunk := ck }) added true
    | none =>
      if found then addChunkLoop ck ns old added found
      else addChunkLoop ck ns old (added ++ [{ PackInfo.fresh n with chunk := ck }]) found

/-- `options_add_chunk` -/
def tblAddChunk (names : List Str) (ck : Chunk) (tbl : List PackInfo) : Option (List PackInfo) :=
  if tbl.isEmpty then some (names.map fun n => { PackInfo.fresh n with chunk := ck })
  else addChunkLoop ck names tbl [] false

/-- `options_get_object`: first slot with that path -/
def getObject (path : Str) (tbl : List PackInfo) : Option PackInfo := tbl.find? (·.path = path)

/-! ### `options_t` and the option loop -/

structure Options where
  tbl : List PackInfo := []
  allChunk : Bool := false
  allComp : Bool := false
  compG : Comp := ⟨0, 0⟩          -- memset 0 in hrepack_init
  chunkG : Chunk := ⟨0, []⟩
  threshold : Int := DEFAULT_THRESHOLD
deriving Repr, Inhabited

def star : Str := ['*']

/-- `hrepack_addcomp` -/
def addComp (s : Str) (o : Options) : Option Options :=
  if o.allComp then none                                        -- '*' is present with other objects
  else match parseComp s with
    | none => none
    | some (n, names, comp) =>
      let o1 := if (names.take n).any (· = star) then { o with allComp := true, compG := comp } else o
      if n > 1 && o1.allComp then none                          -- '*' cannot be with other objects
      else if !o1.allComp then (tblAddComp (names.take n) comp o1.tbl).map fun t => { o1 with tbl := t }
      else some o1

/-- `hrepack_addchunk` (object lists accepted since commit 72c2a77) -/
def addChunk (s : Str) (o : Options) : Option Options :=
  if o.allChunk then none
  else match parseChunk s with
    | none => none
    | some (n, names, ck) =>
      let o1 := if (names.take n).any (· = star) then { o with allChunk := true, chunkG := ck } else o
      if n > 1 && o1.allChunk then none
      else if !o1.allChunk then (tblAddChunk (names.take n) ck o1.tbl).map fun t => { o1 with tbl := t }
      else some o1

def isSpace (c : Char) : Bool := c = ' ' || c = '\n' || c = '\t' || c = '\r' || c = '\x0b' || c = '\x0c'

/-- `read_info`: `fscanf("%9s")` tokens `-t` / `-c`, each followed by a double-quoted value.  A token is cut after
    `READ_INFO_TOKEN_WIDTH` characters (the rest is the next token - neither part is `-t` / `-c` then), a value whose characters and
    closing quote do not fit in `info[READ_INFO_SZ]` is refused (commit 6ab7877; before it both went beyond their stack buffers) -/
def readInfo : Nat → Str → Options → Option Options
  | 0, _, o => some o
  | fuel + 1, s, o =>
    let s := s.dropWhile isSpace
    if s.isEmpty then some o
    else
      let tok := (s.takeWhile (fun c => !isSpace c)).take READ_INFO_TOKEN_WIDTH
      let rest := s.drop tok.length
      if tok = "-t".toList || tok = "-c".toList then
        match rest.dropWhile (· ≠ '"') with
        | [] => none                                            -- no opening quote before end of file
        | _ :: r2 =>
          let info := r2.takeWhile (· ≠ '"')
          if info.length ≥ READ_INFO_SZ then none               -- option too long (or end of file, whichever comes first)
          else
          match r2.drop info.length with
          | [] => none                                          -- no closing quote
          | _ :: r4 =>
            match (if tok = "-t".toList then addComp info o else addChunk info o) with
            | none => none
            | some o' => readInfo fuel r4 o'
      else none                                                 -- bad file format

/-- `parse_number` -/
def parseNumber (s : Str) : Int := if s.all Char.isDigit then (atoi s : Nat) else -1

/-- the `argv` loop of `hrepack_main.c:main` restricted to `-t -c -m -f` (the argument of `-f` is the file CONTENT here);
    `none` = `usage()` -/
def mainLoop : List Str → Options → Option Options
  | [], o => some o
  | a :: rest, o =>
    if a = "-t".toList then
      match rest with
      | [] => none
      | v :: r => (addComp v o).bind (mainLoop r)
    else if a = "-c".toList then
      match rest with
      | [] => none
      | v :: r => (addChunk v o).bind (mainLoop r)
    else if a = "-m".toList then
      match rest with
      | [] => none
      | v :: r =>
        let t := parseNumber v
        if t = -1 then none else mainLoop r { o with threshold := t }
    else if a = "-f".toList then
      match rest with
      | [] => none
      | v :: r => (readInfo (v.length + 1) v o).bind (mainLoop r)
    else if a.head? = some '-' then none
    else mainLoop rest o

/-- the two checks of `print_options` -/
def printOptionsCheck (o : Options) : Bool :=
  let hasCk := o.tbl.any fun p => decide (p.chunk.rank > 0) || decide (p.chunk.rank = -2)
  let hasCp := o.tbl.any fun p => decide (p.comp.type > 0)
  !(o.allChunk && hasCk) && !(o.allComp && hasCp)

/-! ### `options_get_info` -/

/-- the OUT parameters of `options_get_info`: `flags` = `*chunk_flags`, `lens` = `chunk_def->chunk_lengths`,
    `ccomp`/`cparm` = `chunk_def->comp.comp_type` and its parameter, `comp`/`info` = `*comp_type`/`*info` -/
structure LState where
  flags : Nat
  lens : List Nat
  ccomp : Int
  cparm : Int
  comp : Int
  info : Int
deriving DecidableEq, Repr, Inhabited

inductive GI where
  | ok (have_ : Nat) (s : LState)
  | fail
deriving DecidableEq, Repr

def isChunkComp (f : Nat) : Bool := f = (HDF_CHUNK ||| HDF_COMP)

/-- the `switch (comp type)` that fills `chunk_def->comp.cinfo`; `none` = a `return FAIL` branch.
    `strict` = the `default:` label returns FAIL (cases 2,3,4) instead of just printing (case 1). -/
def setChunkComp (s : LState) (t info : Int) (strict : Bool) : Option LState :=
  let s := { s with flags := HDF_CHUNK ||| HDF_COMP, ccomp := t }
  if t = COMP_CODE_NONE ∨ t = COMP_CODE_RLE then some s
  else if t = COMP_CODE_SZIP then none                          -- set_szip: SZIP not available
  else if t = COMP_CODE_SKPHUFF ∨ t = COMP_CODE_DEFLATE ∨ t = COMP_CODE_JPEG then some { s with cparm := info }
  else if strict then none else some s

/-- the common tail of cases 3 and 4: "we must have COMP information" from the global `-t "*:..."` -/
def globalCompTail (o : Options) (hv : Nat) (chunkApplies : LState → Bool) (s1 : LState) : GI :=
  let s2 := { s1 with comp := o.compG.type, info := o.compG.info }
  if chunkApplies s2 then
    match setChunkComp s2 s2.comp s2.info true with
    | none => .fail
    | some s3 => .ok hv s3
  else .ok hv s2

/-- `options_get_info` (HEAD, with `*chunk_flags = HDF_NONE` in case 1) -/
def optionsGetInfo (o : Options) (s : LState) (rank : Nat) (path : Str) : GI :=
  let obj := getObject path o.tbl
  if o.allChunk && !o.allComp then
    -- CASE 1: chunk==ALL comp==SELECTED
    let s1 := if o.chunkG.rank = -2 then { s with flags := HDF_NONE }
              else if o.chunkG.rank ≠ (rank : Int) then s
              else { s with flags := HDF_CHUNK, lens := o.chunkG.lens }
    match obj with
    | none => .ok 0 s1
    | some ob =>
      let s2 := { s1 with comp := ob.comp.type, info := ob.comp.info }
      if s2.flags = HDF_CHUNK ∧ s2.comp > 0 then
        match setChunkComp s2 ob.comp.type ob.comp.info false with
        | none => .fail
        -- `comp.chunk_lengths[i] = options->chunk_g.chunk_lengths[i]` only when chunk_g has the object's rank
        -- (an object that is chunked already keeps its own lengths)
        | some s3 => .ok 1 (if o.chunkG.rank = (rank : Int) then { s3 with lens := o.chunkG.lens } else s3)
      else .ok 1 s2
  else if !o.allChunk && !o.allComp then
    -- CASE 2: chunk==SELECTED comp==SELECTED
    match obj with
    | none => .ok 0 s
    | some ob =>
      if ob.chunk.rank > 0 ∧ ob.chunk.rank ≠ (rank : Int) then .fail   -- chunk rank does not match
      else
        let s1 := if ob.chunk.rank = -2 then { s with flags := HDF_NONE }
                  else if ob.chunk.rank > 0 then { s with flags := HDF_CHUNK, lens := ob.chunk.lens } else s
        if ob.comp.type ≥ 0 then
          let s2 := { s1 with comp := ob.comp.type, info := ob.comp.info }
          if ob.chunk.rank > 0 then
            match setChunkComp s2 s2.comp ob.comp.info true with
            | none => .fail
            | some s3 => .ok 1 s3
          else .ok 1 s2
        else .ok 1 s1
  else if !o.allChunk && o.allComp then
    -- CASE 3: chunk==SELECTED comp==ALL ; "check if we have also CHUNK information": flags is HDF_CHUNK or HDF_CHUNK|HDF_COMP
    let applies := fun (s2 : LState) => decide (s2.flags = HDF_CHUNK) || isChunkComp s2.flags
    match obj with
    | none => globalCompTail o 0 applies s
    | some ob =>
      if ob.chunk.rank = -2 then globalCompTail o 1 applies { s with flags := HDF_NONE }
      else if ob.chunk.rank > 0 then
        (if ob.chunk.rank ≠ (rank : Int) then .fail                 -- chunk rank does not match
         else globalCompTail o 1 applies { s with flags := HDF_CHUNK, lens := ob.chunk.lens })
      else globalCompTail o 1 applies s
  else
    -- CASE 4: chunk==ALL comp==ALL  (obj is never looked up: returns 0) ; "check if we can apply CHUNK": ranks agree
    let s1 := if o.chunkG.rank = -2 then { s with flags := HDF_NONE }
              else if o.chunkG.rank ≠ (rank : Int) then s
              else { s with flags := HDF_CHUNK, lens := o.chunkG.lens }
    globalCompTail o 0 (fun _ => decide (o.chunkG.rank = (rank : Int))) s1

/-! ### the decision part of `copy_sds` / `copy_gr` -/

inductive Kind where
  | sds | gr | vg | vs
deriving DecidableEq, Repr, Inhabited

/-- what the copy routines read from the INPUT object before deciding -/
structure Obj where
  kind : Kind
  path : Str
  rank : Nat := 0
  dims : List Nat := []
  eltsz : Nat := 1
  empty : Bool := false         -- SDcheckempty
  isrec : Bool := false         -- SDisrecord
  flags : Nat := 0              -- SDgetchunkinfo / GRgetchunkinfo flags
  comp : Int := 0               -- SDgetcompinfo / GRgetcompinfo type
  info : Int := 0               --   its parameter (skip size / deflate level)
  lens : List Nat := []         -- chunk lengths when chunked
deriving Repr, Inhabited

/-- layout the output object is created with, as its `SD/GRgetchunkinfo` + `SD/GRgetcompinfo` report it -/
structure Layout where
  flags : Nat
  comp : Int
  info : Int
  lens : List Nat
  isrec : Bool
deriving DecidableEq, Repr, Inhabited

inductive Dec where
  | ok (l : Layout)
  | fail
deriving DecidableEq, Repr

def prodN (l : List Nat) : Nat := l.foldl (· * ·) 1

def paramOf (t info : Int) : Int := if t = COMP_CODE_SKPHUFF ∨ t = COMP_CODE_DEFLATE ∨ t = COMP_CODE_JPEG then info else 0

/-- what `SDsetchunk(chunk_def, flags)` / `GRsetchunk` leave behind for the later get*info calls -/
def chunkedLayout (s : LState) (isrec : Bool) : Layout :=
  if isChunkComp s.flags ∧ s.ccomp ≠ COMP_CODE_NONE then ⟨HDF_CHUNK ||| HDF_COMP, s.ccomp, paramOf s.ccomp s.cparm, s.lens, isrec⟩
  else ⟨HDF_CHUNK, COMP_CODE_NONE, 0, s.lens, isrec⟩

/-- initial OUT values: "set the default values to the ones read from the object" -/
def initState (ob : Obj) : LState :=
  { flags := ob.flags, lens := if ob.flags = HDF_NONE then [] else ob.lens,
    ccomp := if isChunkComp ob.flags then ob.comp else 0, cparm := if isChunkComp ob.flags then ob.info else 0,
    comp := ob.comp, info := ob.info }

/-- `copy_sds`, second trip, up to the point where the output dataset has its layout -/
def sdsDecide (o : Options) (ob : Obj) : Dec :=
  if ob.empty then .ok ⟨HDF_NONE, COMP_CODE_NONE, 0, [], ob.isrec⟩
  -- chunked+compressed input: only RLE / SKPHUFF / DEFLATE are recognised
  else if isChunkComp ob.flags ∧ ¬(ob.comp = COMP_CODE_RLE ∨ ob.comp = COMP_CODE_SKPHUFF ∨ ob.comp = COMP_CODE_DEFLATE) then .fail
  else if ¬(ob.comp = COMP_CODE_NONE ∨ ob.comp = COMP_CODE_RLE ∨ ob.comp = COMP_CODE_NBIT ∨ ob.comp = COMP_CODE_SZIP
            ∨ ob.comp = COMP_CODE_SKPHUFF ∨ ob.comp = COMP_CODE_DEFLATE) then .fail
  else match optionsGetInfo o (initState ob) ob.rank ob.path with
    | .fail => .fail
    | .ok hv s =>
      let size : Int := (prodN ob.dims * ob.eltsz : Nat)
      -- "check for objects too small": back to the values of the input object
      let s := if hv = 1 ∧ size < o.threshold then { s with flags := ob.flags, comp := ob.comp } else s
      -- SDSs do not support JPEG / unknown codes
      if ¬(s.comp = COMP_CODE_NONE ∨ s.comp = COMP_CODE_RLE ∨ s.comp = COMP_CODE_SKPHUFF ∨ s.comp = COMP_CODE_DEFLATE
            ∨ s.comp = COMP_CODE_SZIP ∨ s.comp = COMP_CODE_NBIT) then .fail
      else
        -- unlimited dimension kept only when no compression is requested at this point
        let isrec := ob.isrec && decide (s.comp ≤ COMP_CODE_NONE)
        if s.flags = HDF_CHUNK ∨ isChunkComp s.flags then
          if isrec then .ok ⟨HDF_NONE, COMP_CODE_NONE, 0, [], true⟩    -- unlimited dimensions don't work with chunking
          else if isChunkComp s.flags ∧ (s.ccomp = COMP_CODE_SZIP ∨ s.ccomp = COMP_CODE_JPEG) then .fail  -- SDsetchunk: no encoder
          else if s.lens.any (· = 0) then .fail                        -- SDsetchunk: chunk length < 1
          else .ok (chunkedLayout s false)
        else if s.flags = HDF_NONE ∧ s.comp > COMP_CODE_NONE then
          if size < o.threshold then .ok ⟨HDF_NONE, COMP_CODE_NONE, 0, [], isrec⟩
          else if s.comp = COMP_CODE_SZIP ∨ s.comp = COMP_CODE_NBIT then .ok ⟨HDF_NONE, COMP_CODE_NONE, 0, [], isrec⟩
          else .ok ⟨HDF_NONE, s.comp, paramOf s.comp s.info, [], isrec⟩
        else .ok ⟨HDF_NONE, COMP_CODE_NONE, 0, [], isrec⟩

/-- `copy_gr`, second trip -/
def grDecide (o : Options) (ob : Obj) : Dec :=
  match optionsGetInfo o (initState ob) ob.rank ob.path with
  | .fail => .fail                                             -- `ret = -1; goto out` since commit 4daf36f
  | .ok hv s =>
    let size : Int := (prodN ob.dims * ob.eltsz : Nat)       -- nelms * eltsz: the number of components is not counted
    let small := hv ≠ 0 ∧ size < o.threshold
    let s := if small then { s with flags := ob.flags, comp := ob.comp } else s
    if s.flags = HDF_CHUNK ∨ isChunkComp s.flags then
      if isChunkComp s.flags ∧ s.ccomp = COMP_CODE_SZIP then .fail
      else if s.lens.any (· = 0) then .fail                            -- GRsetchunk: chunk length < 1
      else .ok (chunkedLayout s false)
    else if s.flags = HDF_NONE ∧ s.comp > COMP_CODE_NONE then
      if small then .ok ⟨HDF_NONE, COMP_CODE_NONE, 0, [], false⟩
      else if s.comp = COMP_CODE_RLE ∨ s.comp = COMP_CODE_SKPHUFF ∨ s.comp = COMP_CODE_DEFLATE ∨ s.comp = COMP_CODE_JPEG then
        .ok ⟨HDF_NONE, s.comp, paramOf s.comp s.info, [], false⟩
      else .ok ⟨HDF_NONE, COMP_CODE_NONE, 0, [], false⟩      -- can_compress = 0
    else .ok ⟨HDF_NONE, COMP_CODE_NONE, 0, [], false⟩

/-- the layout decision for one object of the file -/
def decide_ (o : Options) (ob : Obj) : Dec :=
  match ob.kind with
  | .sds => sdsDecide o ob
  | .gr => grDecide o ob
  | _ => .ok ⟨0, 0, 0, [], false⟩

/-- `list_table_check` for one requested name against the objects found in the first trip (traversal order) -/
def nameOk (objs : List Obj) (n : Str) : Bool :=
  match objs.find? (·.path = n) with
  | some ob => ob.kind = .sds || ob.kind = .gr
  | none => false

inductive Status where
  | ok | fail | usage
deriving DecidableEq, Repr

/-- exit behaviour of `hrepack -i in -o out <args>` on a file whose objects (in traversal order) are `objs` -/
def runStatus (args : List Str) (objs : List Obj) : Status :=
  match mainLoop args {} with
  | none => .usage
  | some o =>
    if !printOptionsCheck o then .fail
    else if !(o.tbl.all fun p => nameOk objs p.path) then .fail
    else if objs.all (fun ob => decide_ o ob ≠ .fail) then .ok else .fail

/-! ### the strip-mine loop of `copy_sds` (data of `H4TOOLS_MALLOCSIZE` bytes or more) -/

/-- `sm_size[]` and `sm_nbytes`, computed from the last dimension to the first -/
def smSize (bufsize eltsz : Nat) : List Nat → List Nat × Nat
  | [] => ([], eltsz)
  | d :: ds =>
    let r := smSize bufsize eltsz ds
    let s := min d (bufsize / r.2)
    (s :: r.1, r.2 * s)

/-- `hs_size[i] = MIN(dimsizes[i] - hs_offset[i], sm_size[i])` -/
def hsSize : List Nat → List Nat → List Nat → List Nat
  | d :: ds, o :: os, s :: ss => min (d - o) s :: hsSize ds os ss
  | _, _, _ => []

/-- "calculate the next hyperslab offset": the carry loop from the last dimension; returns the new offsets and whether
    the carry left the first dimension -/
def advance : List Nat → List Nat → List Nat → List Nat × Bool
  | d :: ds, o :: os, s :: ss =>
    let r := advance ds os ss
    if r.2 then
      let n := o + min (d - o) s
      if n = d then (0 :: r.1, true) else (n :: r.1, false)
    else (o :: r.1, false)
  | _, _, _ => ([], true)

/-- the `for (elmtno = 0; elmtno < p_nelmts; elmtno += hs_nelmts)` loop: the (offset, size) pairs handed to
    SDreaddata / SDwritedata -/
def tilesLoop (dims sm : List Nat) : Nat → List Nat → Nat → Nat → List (List Nat × List Nat)
  | 0, _, _, _ => []
  | fuel + 1, off, elmtno, nelmts =>
    if elmtno < nelmts then
      let sz := hsSize dims off sm
      (off, sz) :: tilesLoop dims sm fuel (advance dims off sm).1 (elmtno + H4.Slab.prod sz) nelmts
    else []

def tiles (dims sm : List Nat) : List (List Nat × List Nat) :=
  tilesLoop dims sm (H4.Slab.prod dims) (dims.map fun _ => 0) 0 (H4.Slab.prod dims)

/-- the tiles `copy_sds` uses for a dataset of extents `dims` and element size `eltsz` -/
def copyTiles (bufsize eltsz : Nat) (dims : List Nat) : List (List Nat × List Nat) :=
  tiles dims (smSize bufsize eltsz dims).1


/-! ### which vgroups and vdatas are copied (`is_reserved`, `list_vg`, `vgroup_insert`, `list_vs` / `copy_vs`)

hrepack takes a vgroup or a lone vdata for one of the library's own bookkeeping objects - and leaves it out - by looking
at its CLASS string (and, for vgroups, at the NAME `GR_NAME`).  The class names and the prefix are read from the text of
`is_reserved` by Tie A (`IS_RESERVED_CLASS_k`, `IS_RESERVED_PREFIX`). -/

/-- a C string constant, generated as the list of its character codes -/
def cstr (l : List Nat) : Str := l.map Char.ofNat

/-- the names `is_reserved` compares with `strcmp` (whole string), in source order -/
def reservedClasses : List Str :=
  [cstr IS_RESERVED_CLASS_0, cstr IS_RESERVED_CLASS_1, cstr IS_RESERVED_CLASS_2, cstr IS_RESERVED_CLASS_3, cstr IS_RESERVED_CLASS_4,
   cstr IS_RESERVED_CLASS_5, cstr IS_RESERVED_CLASS_6, cstr IS_RESERVED_CLASS_7, cstr IS_RESERVED_CLASS_8, cstr IS_RESERVED_CLASS_9,
   cstr IS_RESERVED_CLASS_10]

/-- the chunk-table class prefix (`strncmp(vgroup_class, "_HDF_CHK_TBL_", 13) == 0`) -/
def reservedPrefix : Str := cstr IS_RESERVED_PREFIX

/-- `hrepack_utils.c:is_reserved` (the argument is never NULL here): equal to one of the names, or the first
    `IS_RESERVED_PREFIX_LEN` characters equal to the prefix (a shorter class meets its NUL first and differs) -/
def isReserved (cls : Str) : Bool :=
  reservedClasses.contains cls || (cls.take IS_RESERVED_PREFIX_LEN == reservedPrefix.take IS_RESERVED_PREFIX_LEN)

/-- `list_vg` / `vgroup_insert`: a vgroup is skipped (`continue`) when `is_reserved(vg_class)` or `strcmp(vg_name, GR_NAME) == 0` -/
def keepVgroup (name cls : Str) : Bool := !isReserved cls && name != cstr GR_NAME_CHARS

/-- `copy_vs`: only a LONE vdata (`is_lone == 1`) with a non-empty reserved class is skipped; a vdata reached through a
    vgroup (`vgroup_insert`, `is_lone == 0`) is always copied -/
def keepVdata (lone : Bool) (cls : Str) : Bool := !(lone && !cls.isEmpty && isReserved cls)

/-- a user vgroup or vdata of the input file; `parent` = position (in the node list) of the vgroup it was inserted into -/
structure VNode where
  isVg : Bool
  name : Str
  cls : Str
  parent : Option Nat
deriving DecidableEq, Repr, Inhabited

/-- is this node created in the output?  `flags` = the answers for the nodes before it (parents come first).
    A member is reached only through a vgroup that was itself entered (`vgroup_insert` recursion). -/
def nodeKept (flags : List Bool) (n : VNode) : Bool :=
  match n.parent with
  | none => if n.isVg then keepVgroup n.name n.cls else keepVdata true n.cls
  | some p => flags.getD p false && (if n.isVg then keepVgroup n.name n.cls else keepVdata false n.cls)

/-- the traversal `list_vg` + `list_vs` as a fold over the nodes in creation order -/
def keptFlagsFrom : List VNode → List Bool → List Bool
  | [], acc => acc
  | n :: ns, acc => keptFlagsFrom ns (acc ++ [nodeKept acc n])

def keptFlags (nodes : List VNode) : List Bool := keptFlagsFrom nodes []

/-! ## hdiff (`mfhdf/hdiff`), hdp dump order, hdfimport shape (C19)

Element values are `Int`: integer types carry the stored value, floating-point types carry the value in EIGHTHS
(the engine only uses multiples of 1/8, which are exact in float32/float64), and the `-t` / `-p` limits are given in
eighths as well, so every comparison below is exact integer arithmetic. -/

inductive NT where
  | i8 | u8 | i16 | u16 | i32 | u32 | f32 | f64
deriving DecidableEq, Repr, Inhabited

/-- `diff_opt_t`: `tl8` = `err_limit`·8 (`-t`), `pr8` = `err_rel`·8 (`-p`, 0 = not given), `maxErr` = `-e` -/
structure DiffOpts where
  tl8 : Int := 0
  pr8 : Int := 0
  maxErr : Nat := 0
deriving Repr, Inhabited

/-- two's-complement reinterpretation of `v` in `bits` bits -/
def wrapS (bits : Nat) (v : Int) : Int :=
  let m : Int := (2 : Int) ^ bits
  let r := v % m
  if r < m / 2 then r else r - m

/-- how `array_diff` reads an element: through `int8*` / `int16*` / `int32*` also for the unsigned types -/
def stored (t : NT) (v : Int) : Int :=
  match t with
  | .i8 | .u8 => wrapS 8 v
  | .i16 | .u16 => wrapS 16 v
  | .i32 | .u32 => wrapS 32 v
  | .f32 | .f64 => v

/-- `c_diff`, `i2_diff` = `abs(a-b)` in int32 (no narrowing cast since commit 64e275a), `i4_diff` = the 64-bit difference
    saturated at INT_MAX, `f_diff = fabs(a-b)` (eighths) -/
def absDiff (t : NT) (a b : Int) : Int :=
  let d : Int := ((stored t a) - (stored t b)).natAbs
  match t with
  | .i32 | .u32 => if d > 2147483647 then 2147483647 else d
  | _ => d

/-- the right-hand side of the absolute test: `(int32)err_limit` for the integer types (truncation), `err_limit` itself
    (in eighths) for the floating-point types -/
def absLimit (t : NT) (o : DiffOpts) : Int :=
  match t with
  | .f32 | .f64 => o.tl8
  | _ => Int.tdiv o.tl8 8

/-- **the element test of `array_diff`**: does the pair count as a difference? -/
def differs (t : NT) (o : DiffOpts) (a b : Int) : Bool :=
  let sa := stored t a
  let sb := stored t b
  if o.pr8 ≠ 0 then
    -- PER / PER_F: per = -1 when A = 0, else |(B-A)/A|
    if sa = 0 then (if sb = 0 then decide (-8 > o.pr8) else true)     -- both_zero : per = -1 ; else "not comparable"
    else decide ((sb - sa).natAbs * 8 > o.pr8 * sa.natAbs)
  else decide (absDiff t a b > absLimit t o)

/-- is the pair reported as "not comparable" (printed whatever `-e` says)? -/
def notComparable (t : NT) (o : DiffOpts) (a b : Int) : Bool :=
  decide (o.pr8 ≠ 0) && decide (stored t a = 0) && decide (stored t b ≠ 0)

/-- the loop of `array_diff`: `(n_diff, number of difference lines printed)` -/
def arrayDiffLoop (t : NT) (o : DiffOpts) : List Int → List Int → Nat → Nat → Nat × Nat
  | a :: as, b :: bs, n, pr =>
    if differs t o a b then
      let n' := n + 1
      if notComparable t o a b || decide (n' ≤ o.maxErr) then arrayDiffLoop t o as bs n' (pr + 1)
      else arrayDiffLoop t o as bs n' pr
    else arrayDiffLoop t o as bs n pr
  | _, _, n, pr => (n, pr)

def arrayDiff (t : NT) (o : DiffOpts) (l1 l2 : List Int) : Nat × Nat := arrayDiffLoop t o l1 l2 0 0

/-! ### floating-point elements over the whole IEEE value domain (NaN, ±Inf, -0.0)

`array_diff` never looks at the bits of a float32 / float64 element: it forms `fabs(a - b)` (resp. `(B - A) / A`) and
compares with `>`.  What these operations can tell apart is: a finite number, a NaN (any payload, quiet or signalling,
either sign - all of them propagate alike), `+Inf`, `-Inf`.  `-0.0` is the finite number 0 (`0.0 - -0.0 = 0.0`,
`fabs(-0.0) < DBL_EPSILON`).  The operations below are the IEEE-754 ones on that domain; finite values stay in eighths. -/

inductive FV where
  | fin (v : Int)
  | nan
  | pinf
  | ninf
deriving DecidableEq, Repr, Inhabited

namespace FV

/-- IEEE `a - b`: NaN propagates, `Inf - Inf` (same sign) is NaN -/
def sub : FV → FV → FV
  | .nan, _ => .nan
  | _, .nan => .nan
  | .fin a, .fin b => .fin (a - b)
  | .fin _, .pinf => .ninf
  | .fin _, .ninf => .pinf
  | .pinf, .pinf => .nan
  | .pinf, _ => .pinf
  | .ninf, .ninf => .nan
  | .ninf, _ => .ninf

/-- `fabs` -/
def abs : FV → FV
  | .fin a => .fin a.natAbs
  | .nan => .nan
  | _ => .pinf

/-- IEEE `a > b`: false as soon as one side is a NaN -/
def gt : FV → FV → Bool
  | .nan, _ => false
  | _, .nan => false
  | .fin a, .fin b => decide (a > b)
  | .fin _, .pinf => false
  | .fin _, .ninf => true
  | .pinf, .pinf => false
  | .pinf, _ => true
  | .ninf, _ => false

/-- `H4_DBL_ABS_EQUAL(x, 0.0)` = `fabs(x - 0.0) < DBL_EPSILON` (false for NaN and the infinities) -/
def isZero : FV → Bool
  | .fin a => a == 0
  | _ => false

end FV

/-- the value of `per` in `PER_F`: -1 (initial value), a non-negative ratio, `+Inf`, NaN -/
inductive Per where
  | neg1
  | ratio (num den : Nat)
  | inf
  | nan
deriving DecidableEq, Repr, Inhabited

/-- `ABS((double)(d) / (double)a)` with the IEEE division: NaN propagates, `Inf/Inf` and `0/0` are NaN, `Inf/x` and `x/0`
    are infinite, `x/Inf` is 0.  (`ABS(x)` is `x >= 0 ? x : -x`: a NaN stays a NaN.) -/
def absQuot : FV → FV → Per
  | .nan, _ => .nan
  | _, .nan => .nan
  | .fin d, .fin a => if a = 0 then (if d = 0 then .nan else .inf) else .ratio d.natAbs a.natAbs
  | .fin _, _ => .ratio 0 1
  | _, .fin _ => .inf
  | _, _ => .nan

/-- `(float)per > err_rel` (IEEE `>`) -/
def perGt (p : Per) (pr8 : Int) : Bool :=
  match p with
  | .neg1 => decide (-8 > pr8)
  | .ratio n d => decide ((n : Int) * 8 > pr8 * (d : Int))
  | .inf => true
  | .nan => false

/-- the macro `PER_F(A, B)`: `(per, not_comparable, both_zero)` -/
def perF (a b : FV) : Per × Bool × Bool :=
  let bz := a.isZero && b.isZero
  if !a.isZero then (absQuot (b.sub a) a, false, bz) else (.neg1, true, bz)

/-- the macro `ONE_IS_NAN(X, Y)` = `(isnan(X) != 0) != (isnan(Y) != 0)` (fix 27db4d9) -/
def FV.isNan : FV → Bool
  | .nan => true
  | _ => false

def oneIsNan (a b : FV) : Bool := a.isNan != b.isNan

/-- the element test of the `DFNT_FLOAT` / `DFNT_DOUBLE` branches of `array_diff` on the whole value domain:
    `-p`: `not_comparable && !both_zero` or `(float)per > err_rel || ONE_IS_NAN`; otherwise `fabs(a - b) > err_limit || ONE_IS_NAN` -/
def differsF (o : DiffOpts) (a b : FV) : Bool :=
  if o.pr8 ≠ 0 then
    let r := perF a b
    if r.2.1 && !r.2.2 then true else perGt r.1 o.pr8 || oneIsNan a b
  else ((a.sub b).abs).gt (.fin o.tl8) || oneIsNan a b

/-- **the element test of `array_diff` with the special values**: the integer types have none -/
def differsV (t : NT) (o : DiffOpts) (a b : FV) : Bool :=
  match t with
  | .f32 | .f64 => differsF o a b
  | _ =>
    match a, b with
    | .fin x, .fin y => differs t o x y
    | _, _ => false

def notComparableV (t : NT) (o : DiffOpts) (a b : FV) : Bool :=
  match t with
  | .f32 | .f64 => decide (o.pr8 ≠ 0) && a.isZero && !b.isZero
  | _ =>
    match a, b with
    | .fin x, .fin y => notComparable t o x y
    | _, _ => false

/-- the loop of `array_diff` over buffers that may hold NaN / ±Inf -/
def arrayDiffLoopV (t : NT) (o : DiffOpts) : List FV → List FV → Nat → Nat → Nat × Nat
  | a :: as, b :: bs, n, pr =>
    if differsV t o a b then
      let n' := n + 1
      if notComparableV t o a b || decide (n' ≤ o.maxErr) then arrayDiffLoopV t o as bs n' (pr + 1)
      else arrayDiffLoopV t o as bs n' pr
    else arrayDiffLoopV t o as bs n pr
  | _, _, n, pr => (n, pr)

def arrayDiffV (t : NT) (o : DiffOpts) (l1 l2 : List FV) : Nat × Nat := arrayDiffLoopV t o l1 l2 0 0

/-- `strcmp` (ASCII names) -/
def strcmp : Str → Str → Ordering
  | [], [] => .eq
  | [], _ :: _ => .lt
  | _ :: _, [] => .gt
  | a :: as, b :: bs => if a.toNat < b.toNat then .lt else if a.toNat > b.toNat then .gt else strcmp as bs

/-- the table built by `hdiff.c:match`: `(name, in file 1, in file 2)`; a merge of the two object lists that ASSUMES both
    are sorted by name (they are in traversal order) -/
def matchLoop : Nat → List Str → List Str → List (Str × Bool × Bool)
  | 0, _, _ => []
  | fuel + 1, a :: as, b :: bs =>
    match strcmp a b with
    | .eq => (a, true, true) :: matchLoop fuel as bs
    | .lt => (a, true, false) :: matchLoop fuel as (b :: bs)
    | .gt => (b, false, true) :: matchLoop fuel (a :: as) bs
  | _ + 1, l1, [] => l1.map fun n => (n, true, false)
  | _ + 1, [], l2 => l2.map fun n => (n, false, true)

def matchTable (l1 l2 : List Str) : List (Str × Bool × Bool) := matchLoop (l1.length + l2.length + 1) l1 l2

/-- `nfound` of `match`: only entries present in BOTH files are compared; `pairDiff n` = what `diff()` returns for object `n` -/
def matchFound (pairDiff : Str → Nat) (tbl : List (Str × Bool × Bool)) : Nat :=
  (tbl.map fun e => if e.2.1 && e.2.2 then pairDiff e.1 else 0).sum

/-- exit status of `hdiff file1 file2` (no I/O error): `ret = (nfound == 0 ? 0 : 1)` with
    `nfound = match(...) + diff_match_dim(...) + gattr_diff(...)` -/
def exitCode (pairDiff : Str → Nat) (l1 l2 : List Str) (dimDiff gattrDiff : Nat) : Nat :=
  if matchFound pairDiff (matchTable l1 l2) + dimDiff + gattrDiff = 0 then 0 else 1

/-- cells in the order `hdp dumpsds/dumpgr -d` prints them: the whole object is read with one `SDreaddata` and the buffer is
    printed front to back (`dumpfull`) -/
def dumpIndices (dims : List Nat) : List (List Nat) := H4.Slab.cells (dims.map fun _ => 0) dims

/-- `hdfimport`: `gdimen` reads `nplanes nrows ncols`, `process`/`create_SDS` build the SDS shape; `none` = rejected
    ("Dimension(s) is less than '2'"; a plane count below 1 is rejected too since commit e643f9a) -/
def importShape (nplanes nrows ncols : Int) : Option (List Int) :=
  if ncols < 2 ∨ nrows < 2 ∨ nplanes < 1 then none
  else if nplanes > 1 then some [nplanes, nrows, ncols] else some [nrows, ncols]

/-! ### one `hdfimport` run over several input files (`process`)

`hdfimport <infile> [-t <type> | -n] [<infile> ...] -o <outfile>` : `process` walks the input files with ONE `struct Input`.
The part of that structure that decides how the bytes of a file are read are the four format flags; `process` clears them at
the top of every pass, `gtype` raises the flag of the format it recognises (and never lowers one), and the value readers
(`gfloat`, `gfloat64`, `gint32`, `gint16`, `gint8`) choose by flag, in the order `is_text`, `is_fp32`, else by the output type. -/

/-- the format `gtype` recognises (`Hishdf`, then the four-character tag) -/
inductive ImpFmt where
  | text | fp32 | fp64 | in32 | in16 | in08 | hdf
deriving DecidableEq, Repr, Inhabited

/-- `outtype`: `FP_32 .. INT_8`; `NO_NE` (no `-t` / `-n` on the command line) is `none` -/
inductive ImpOut where
  | fp32 | fp64 | int32 | int16 | int8
deriving DecidableEq, Repr, Inhabited

/-- `struct Input`: `is_hdf`, `is_text`, `is_fp32`, `is_fp64` -/
structure ImpFlags where
  isHdf : Bool := false
  isText : Bool := false
  isFp32 : Bool := false
  isFp64 : Bool := false
deriving DecidableEq, Repr, Inhabited

/-- how one number is taken from the input: through the SD interface, by `fscanf`, or `bytes` bytes by `fread` -/
inductive ImpRead where
  | sd | scan | raw (bytes : Nat)
deriving DecidableEq, Repr, Inhabited

/-- how the numbers of a file of this format are laid down (manual page, "Notes") -/
def ImpFmt.layout : ImpFmt → ImpRead
  | .text => .scan | .fp32 => .raw 4 | .fp64 => .raw 8 | .in32 => .raw 4 | .in16 => .raw 2 | .in08 => .raw 1 | .hdf => .sd

/-- one input file of the command line: format, `-t` / `-n`, header `nplanes nrows ncols` -/
structure ImpFile where
  fmt : ImpFmt
  opt : Option ImpOut
  np : Int
  nr : Int
  nc : Int
deriving Repr, Inhabited

/-- `process`, top of the loop: `in.is_hdf = in.is_text = in.is_fp32 = in.is_fp64 = FALSE` -/
def impReset (_ : ImpFlags) : ImpFlags := {}

/-- `gtype`: raises ONE flag (the others are left as they are) and settles / validates `outtype`;
    `none` = "Invalid use of -t or -n options" -/
def gtype (fl : ImpFlags) (f : ImpFmt) (o : Option ImpOut) : Option (ImpFlags × Option ImpOut) :=
  match f with
  | .hdf => some ({ fl with isHdf := true }, o)
  | .text => some ({ fl with isText := true }, some (o.getD .fp32))
  | .fp64 =>
    if o = some .fp64 then some ({ fl with isFp64 := true }, some .fp64)
    else if o ≠ none then none
    else some ({ fl with isFp64 := true }, some .fp32)
  | .fp32 => if o ≠ none then none else some ({ fl with isFp32 := true }, some .fp32)
  | .in32 => if o ≠ none then none else some (fl, some .int32)
  | .in16 => if o ≠ none then none else some (fl, some .int16)
  | .in08 => if o ≠ none then none else some (fl, some .int8)

/-- the reader `gmaxmin` / `gscale` / `gdata` use for the numbers of the file: `is_hdf` first, then per output type
    `gfloat` (`is_text`, `is_fp32`, else a double), `gfloat64`, `gint32`, `gint16`, `gint8` (`is_text`, else their own width);
    `NO_NE` only occurs with an HDF input -/
def impReader (fl : ImpFlags) (out : Option ImpOut) : ImpRead :=
  if fl.isHdf then .sd
  else if fl.isText then .scan
  else match out with
    | some .fp32 | none => if fl.isFp32 then .raw 4 else .raw 8
    | some .fp64 => .raw 8
    | some .int32 => .raw 4
    | some .int16 => .raw 2
    | some .int8 => .raw 1

/-- type of the SDS `process` creates: `case 0: case 5:` is `DFNT_FLOAT32` -/
def impSdsType (out : Option ImpOut) : ImpOut := out.getD .fp32

/-- what one pass of the loop of `process` gives: SDS type, SDS shape, the reader used -/
structure ImpRes where
  ty : ImpOut
  shape : List Int
  rd : ImpRead
deriving DecidableEq, Repr, Inhabited

/-- one pass: reset, `gtype`, `gdimen`; the flags are handed to the next pass as they stand -/
def impPass (fl : ImpFlags) (f : ImpFile) : Option (ImpFlags × ImpRes) :=
  match gtype (impReset fl) f.fmt f.opt with
  | none => none
  | some (fl', out) =>
    match importShape f.np f.nr f.nc with
    | none => none
    | some sh => some (fl', { ty := impSdsType out, shape := sh, rd := impReader fl' out })

/-- `process`: the loop over the input files, starting from whatever the (uninitialised) descriptor holds; a refused file ends
    the run with `EXIT_FAILURE` -/
def importRun (fl : ImpFlags) : List ImpFile → Option (List ImpRes)
  | [] => some []
  | f :: rest =>
    match impPass fl f with
    | none => none
    | some (fl', r) => (importRun fl' rest).map (r :: ·)

end H4.Tools
