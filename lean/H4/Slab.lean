/-! Model of the SD hyperslab machinery (C03), `mfhdf/src/putget.c` and `putgetg.c`.
    Units are ELEMENTS (the C multiplies by the element size at the very end).
    * `offset`  – `NC_varoffset` for a non-record variable (row-major mixed radix over `shape`, `dsizes`)
    * `runs`    – the I/O requests `(offset, count)` issued by `NCvario`: `NCvcmaxcontig` finds the longest
                  suffix of dimensions taken whole (edge = shape), the dimension before it contributes its
                  whole edge to the contiguous count, the remaining leading dimensions are enumerated by the
                  ripple counter.  This is the structurally recursive equivalent of the C `goto`-free loops.
    * `genioReqs` – the `(start, count)` vectors `NCgenio`'s odometer hands to `NCvario` for a strided access.
    * `writeSlab/readSlab` – the effect of the requests on the flat element image of the variable. -/
namespace H4.Slab

def prod : List Nat → Nat
  | [] => 1
  | x :: xs => x * prod xs

/-- row-major linear offset of `coords` in an array of extents `shape` (`NC_varoffset`) -/
def offset : List Nat → List Nat → Nat
  | _ :: shs, c :: cs => c * prod shs + offset shs cs
  | _, _ => 0

/-- the cells of the unit-stride slab `start, edges` in row-major order -/
def cells : List Nat → List Nat → List (List Nat)
  | s :: ss, e :: es => (List.range e).flatMap (fun i => (cells ss es).map ((s + i) :: ·))
  | _, _ => [[]]

/-- the cells of a strided slab in row-major order: index `start + i*stride`, `i < count`, per dimension -/
def scells : List Nat → List Nat → List Nat → List (List Nat)
  | s :: ss, st :: sts, c :: cs => (List.range c).flatMap (fun i => (scells ss sts cs).map ((s + i * st) :: ·))
  | _, _, _ => [[]]

/-- all of the given dimensions are taken whole (`*edp == *shp`, hence origin 0) -/
def full : List Nat → List Nat → List Nat → Bool
  | sh :: shs, s :: ss, e :: es => s == 0 && e == sh && full shs ss es
  | _, _, _ => true

/-- the I/O requests (`offset`, `count`) `NCvario` issues: one per maximal contiguous run -/
def runs : List Nat → List Nat → List Nat → Nat → List (Nat × Nat)
  | _ :: shs, s :: ss, e :: es, base =>
    if full shs ss es then [(base + s * prod shs, e * prod shs)]
    else (List.range e).flatMap (fun i => runs shs ss es (base + (s + i) * prod shs))
  | _, _, _, base => [(base, 1)]

/-- the loop of `NCvcmaxcontig`: the indices `m-1, m-2, …, boundary` are scanned from the last dimension down;
    an edge that does not fit between the start coordinate and the extent (`*edp > *shp - *orp`) refuses the request (`none` = NULL),
    the first edge shorter than its extent stops the scan (`break`: the answer is that index), and a scan that passes `boundary`
    answers `boundary` (`edp++`).  `shape - origin` is the C's unsigned subtraction for `origin ≤ shape` (what `NCcoordck` established). -/
def maxContigScan (shape origin edges : List Nat) (boundary : Nat) : Nat → Option Nat
  | 0 => some boundary
  | j + 1 =>
    if j < boundary then some boundary
    else if shape.getD j 0 - origin.getD j 0 < edges.getD j 0 then none
    else if edges.getD j 0 < shape.getD j 0 then some j
    else maxContigScan shape origin edges boundary j

/-- `NCvcmaxcontig`: the index (into `edges`) from which on the request is transferred as ONE contiguous run, `none` when an edge
    is refused.  A record variable (`IS_RECVAR`: `shape[0] = 0`) never scans dimension 0 (`boundary = shape + 1`), and the
    one-dimensional only record variable (`recsize ≤ len`) answers `edges` at once. -/
def maxContig (recsize len : Nat) (shape origin edges : List Nat) : Option Nat :=
  if shape.getD 0 1 = 0 then
    if shape.length = 1 ∧ recsize ≤ len then some 0
    else maxContigScan shape origin edges 1 shape.length
  else maxContigScan shape origin edges 0 shape.length

/-- the index at which `runs` stops enumerating and issues one contiguous request: the first dimension all of whose successors are
    taken whole (same recursion as `runs`) -/
def cut : List Nat → List Nat → List Nat → Nat
  | _ :: shs, _ :: ss, _ :: es => if full shs ss es then 0 else cut shs ss es + 1
  | _, _, _ => 0

/-- what `NCvario` does with the pointer `edp0 = edges + k` that `NCvcmaxcontig` returned: the dimensions before `k` are enumerated by the
    ripple counter, and at every such coordinate ONE request is issued at `NC_varoffset(coords)` (the remaining coordinates are the
    start coordinates) for `iocount = edges[k] * edges[k+1] * …` elements. -/
def runsAt : Nat → List Nat → List Nat → List Nat → Nat → List (Nat × Nat)
  | 0, sh :: shs, s :: ss, e :: es, base => [(base + offset (sh :: shs) (s :: ss), e * prod es)]
  | k + 1, _ :: shs, s :: ss, e :: es, base => (List.range e).flatMap (fun i => runsAt k shs ss es (base + (s + i) * prod shs))
  | _, _, _, _, base => [(base, 1)]

def expandRuns (rs : List (Nat × Nat)) : List Nat := rs.flatMap (fun r => List.range' r.1 r.2)

/-- `NCcoordck` + the edge test of `NCvcmaxcontig` for a fixed-size variable: the slab lies inside the shape -/
def inRange : List Nat → List Nat → List Nat → Prop
  | sh :: shs, s :: ss, e :: es => s + e ≤ sh ∧ inRange shs ss es
  | [], [], [] => True
  | _, _, _ => False

instance : (sh s e : List Nat) → Decidable (inRange sh s e)
  | _ :: shs, _ :: ss, _ :: es => by
      unfold inRange
      have := instDecidableInRange shs ss es
      exact inferInstance
  | [], [], [] => isTrue trivial
  | [], [], _ :: _ => isFalse (by simp [inRange])
  | [], _ :: _, _ => isFalse (by simp [inRange])
  | _ :: _, [], _ => isFalse (by simp [inRange])
  | _ :: _, _ :: _, [] => isFalse (by simp [inRange])

/-- strided request inside the shape: last selected index `start + (count-1)*stride < extent`, stride ≥ 1
    (the guard of `SDreaddata`/`SDwritedata`) -/
def sInRange : List Nat → List Nat → List Nat → List Nat → Prop
  | sh :: shs, s :: ss, st :: sts, c :: cs => 1 ≤ st ∧ 1 ≤ c ∧ s + (c - 1) * st < sh ∧ sInRange shs ss sts cs
  | [], [], [], [] => True
  | _, _, _, _ => False

/-- the `(mystart, iocount)` vectors `NCgenio` passes to `NCvario`: with unit stride in the fastest dimension
    one request per row, otherwise one request per element -/
def genioReqs : List Nat → List Nat → List Nat → List (List Nat × List Nat)
  | [s], [st], [c] => if st = 1 then [([s], [c])] else (List.range c).map (fun i => ([s + i * st], [1]))
  | s :: ss, st :: sts, c :: cs =>
      (List.range c).flatMap (fun i => (genioReqs ss sts cs).map (fun r => ((s + i * st) :: r.1, 1 :: r.2)))
  | _, _, _ => []

/-- element offsets touched, in transfer order, by a (possibly strided) SDwritedata/SDreaddata -/
def slabOffsets (shape start stride count : List Nat) : List Nat :=
  if stride.all (· == 1) then expandRuns (runs shape start count 0)
  else (genioReqs start stride count).flatMap (fun r => expandRuns (runs shape r.1 r.2 0))

/-- write `vals` at `offs` (in order; later writes win) -/
def writeAt {α} (img : List α) : List Nat → List α → List α
  | o :: os, v :: vs => writeAt (img.set o v) os vs
  | _, _ => img

def readAt {α} (d : α) (img : List α) (offs : List Nat) : List α := offs.map (img.getD · d)

def writeSlab {α} (shape start edges : List Nat) (vals : List α) (img : List α) : List α :=
  writeAt img (expandRuns (runs shape start edges 0)) vals

def readSlab {α} (d : α) (shape start edges : List Nat) (img : List α) : List α :=
  readAt d img (expandRuns (runs shape start edges 0))

end H4.Slab
