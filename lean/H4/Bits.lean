/-! Bit-list vocabulary shared by the C05 models (`hbitio.c`, `cnbit.c`, `cskphuff.c`):
    a bit stream is a `List Bool`, most significant bit first, exactly the order in which
    `Hbitwrite` packs and `Hbitread` unpacks.  Core-only. -/
namespace H4.Bits

/-- the `w` low bits of `n`, most significant first (the bits `Hbitwrite(id, w, n)` appends) -/
def msbBits : Nat → Nat → List Bool
  | 0, _ => []
  | w+1, n => n.testBit w :: msbBits w n

/-- value of a bit list read most significant bit first (what `Hbitread` returns for that many bits) -/
def ofBits (l : List Bool) : Nat := l.foldl (fun a b => 2 * a + b.toNat) 0

/-- the bit stream held by a byte list -/
def bytesBits (bs : List UInt8) : List Bool := bs.flatMap fun b => msbBits 8 b.toNat

/-- bits appended by a sequence of `Hbitwrite(id, w, v)` calls -/
def fieldsBits (fs : List (Nat × Nat)) : List Bool := fs.flatMap fun f => msbBits f.1 f.2

/-- successive fields of the given widths cut from a bit stream, each read MSB first
    (what a sequence of `Hbitread(id, w, &v)` calls must return) -/
def takeFields : List Bool → List Nat → List Nat
  | _, [] => []
  | l, w :: ws => ofBits (l.take w) :: takeFields (l.drop w) ws

/-- pack a bit list into bytes, the last byte completed with the bits of `pad` (a list of at least 7 bits) -/
def packBytes : Nat → List Bool → List Bool → List UInt8
  | 0, _, _ => []
  | fuel+1, l, pad =>
    if l.isEmpty then []
    else if l.length < 8 then [UInt8.ofNat (ofBits ((l ++ pad).take 8))]
    else UInt8.ofNat (ofBits (l.take 8)) :: packBytes fuel (l.drop 8) pad

/-- zero-padded packing of a bit list into `⌈|l|/8⌉` bytes -/
def packZero (l : List Bool) : List UInt8 := packBytes l.length l (List.replicate 8 false)

end H4.Bits
