import H4.AttrSD
/-!
# C10 — GR attributes (mfgr.c: `GRsetattr`, `GRattrinfo`, `GRgetattr`, `GRfindattr`, `GRIup_attr_data`, the attribute
loops of `GRend`, and the attribute part of `GRIget_image_list`)

One attribute list for the file (`gr_ptr->gattree`) and one per raster image (`ri_ptr->lattree`), both kept in index
order.  An attribute below `GR_ATTR_THRESHHOLD` bytes is cached and written by `GRend`; a larger one is written to its
Vdata by `GRsetattr` itself.  The attribute Vdata (`VHstoredata(file, name, data, len, nt, RIGATTRNAME, RIGATTRCLASS)`)
has ONE field whose NAME is the attribute name (truncated to FIELDNAMELENMAX by `VSfdefine`) and `len` records;
an overwrite (`VSwrite` from record 0) never shortens it.
-/
namespace H4.AttrGR
open H4.Attr H4.Gen.Attr
open H4.AttrSD (Out Item)

/-- `at_info_t` -/
structure GAttr where
  name : Bytes
  nt : Nat
  len : Nat
  data : Option Bytes      -- `at_ptr->data` (cached copy)
  disk : Option Bytes      -- records of the attribute Vdata; `none` ⇔ `ref == DFREF_WILDCARD`
  dataMod : Bool
  newAt : Bool
deriving DecidableEq, Repr, Inhabited

/-- the attribute as the API shows it in this session -/
def GAttr.view (g : GAttr) : Attr :=
  let sz := (ntSize g.nt).getD 0
  { name := g.name, nt := g.nt, count := g.len,
    val := match g.data with
      | some d => d
      | none => ((g.disk.getD []).take (g.len * sz)) }

structure Img where
  name : Bytes
  attrs : List GAttr
deriving DecidableEq, Repr, Inhabited

structure Persist where
  gattrs : List GAttr := []
  imgs : List Img := []
deriving Repr, Inhabited

structure File where
  isOpen : Bool := false
  writable : Bool := false
  gattrs : List GAttr := []
  imgs : List Img := []
  disk : Persist := {}
deriving Repr, Inhabited

def views (l : List GAttr) : AList := l.map GAttr.view

/-- `VSwrite` of the new records over the old Vdata contents, from record 0 -/
def overwrite (new : Bytes) (old : Option Bytes) : Bytes :=
  match old with
  | none => new
  | some d => new ++ d.drop new.length

/-- `GRsetattr` on one attribute tree of a file open for writing. `none` = FAIL (nothing changes).
    A name that does not fit a Vdata field name is refused. -/
def grPut (l : List GAttr) (name : Bytes) (nt : Nat) (count : Int) (val : Bytes) : Option (List GAttr) :=
  if !argsOk nt count then none else
  if name.length > FIELDNAMELENMAX then none else
  let cnt := count.toNat
  let size := cnt * (ntSize nt).getD 0
  match find name (views l) with
  | some i =>
    let g := l.getD i default
    if nt != g.nt then none
    else if size > GR_ATTR_THRESHHOLD then
      -- not cacheable: written straight to the Vdata (created now if the attribute was only cached so far)
      some (l.set i { g with len := cnt, data := none, disk := some (overwrite val g.disk), dataMod := false })
    else some (l.set i { g with len := cnt, data := some val, dataMod := true })
  | none =>
    if size < GR_ATTR_THRESHHOLD then
      some (l ++ [{ name := name, nt := nt, len := cnt, data := some val, disk := none, dataMod := true, newAt := true }])
    else some (l ++ [{ name := name, nt := nt, len := cnt, data := none, disk := some val, dataMod := false, newAt := true }])

/-- attribute loops of `GRend` (+ `GRIup_attr_data`) on a writable file -/
def flush (l : List GAttr) : List GAttr :=
  l.map fun g =>
    let g1 := if g.dataMod then { g with disk := some (overwrite (g.data.getD []) g.disk), dataMod := false } else g
    { g1 with newAt := false }

/-- `GRIget_image_list`, attribute part: name = field name, nt = field type, len = number of records, nothing cached -/
def loadAttr (g : GAttr) : GAttr :=
  let d := g.disk.getD []
  let sz := (ntSize g.nt).getD 1
  { name := g.name.take FIELDNAMELENMAX, nt := g.nt, len := d.length / sz, data := none, disk := some d, dataMod := false, newAt := false }

def persist (f : File) : Persist :=
  { gattrs := (flush f.gattrs).map loadAttr,
    imgs := f.imgs.map fun im => { im with attrs := (flush im.attrs).map loadAttr } }

/-- `Hopen` + `GRstart`: `c` = create -/
def start (f : File) (create writable : Bool) : File :=
  if create then { isOpen := true, writable := true }
  else { isOpen := true, writable := writable, gattrs := f.disk.gattrs, imgs := f.disk.imgs, disk := f.disk }

/-- `GRend` + `Hclose` -/
def grEnd (f : File) : File × Out :=
  if !f.isOpen then (f, .fail)
  else if f.writable then ({ disk := persist f }, .ok)
  else ({ disk := f.disk }, .ok)

/-- `GRcreate` -/
def grCreate (f : File) (name : Bytes) : File × Out :=
  if !f.isOpen then (f, .fail)
  else ({ f with imgs := f.imgs ++ [{ name := name, attrs := [] }] }, .items [.int f.imgs.length])

/-- which tree: `none` = the file (grid), `some i` = image i (riid) -/
def listOf (f : File) : Option Nat → Option (List GAttr)
  | none => some f.gattrs
  | some i => (f.imgs[i]?).map (·.attrs)

def setList (f : File) (o : Option Nat) (l : List GAttr) : File :=
  match o with
  | none => { f with gattrs := l }
  | some i => match f.imgs[i]? with
    | some im => { f with imgs := f.imgs.set i { im with attrs := l } }
    | none => f

/-- `GRsetattr` -/
def grSetAttr (f : File) (o : Option Nat) (name : Bytes) (nt : Nat) (count : Int) (val : Bytes) : File × Out :=
  if !f.isOpen then (f, .fail) else
  match listOf f o with
  | none => (f, .fail)
  | some l =>
    -- `GRend` writes nothing to a file opened read-only: the call is refused
    if !f.writable then (f, .fail) else
    match grPut l name nt count val with
    | none => (f, .fail)
    | some l' => (setList f o l', .ok)

/-- `GRattrinfo` -/
def grAttrInfo (f : File) (o : Option Nat) (index : Int) : File × Out :=
  if !f.isOpen then (f, .fail) else
  match listOf f o with
  | none => (f, .fail)
  | some l =>
    if index < 0 then (f, .fail) else
    match nth (views l) index.toNat with
    | none => (f, .fail)
    | some a => (f, .items [.hex a.name, .int a.nt, .int a.count])

/-- `GRgetattr` -/
def grGetAttr (f : File) (o : Option Nat) (index : Int) : File × Out :=
  if !f.isOpen then (f, .fail) else
  match listOf f o with
  | none => (f, .fail)
  | some l =>
    if index < 0 then (f, .fail) else
    match nth (views l) index.toNat with
    | none => (f, .fail)
    | some a => (f, .items [.hex a.val])

/-- `GRfindattr` -/
def grFindAttr (f : File) (o : Option Nat) (name : Bytes) : File × Out :=
  if !f.isOpen then (f, .fail) else
  match listOf f o with
  | none => (f, .fail)
  | some l =>
    match find name (views l) with
    | none => (f, .fail)
    | some i => (f, .items [.int i])

/-- `GRfileinfo`: number of images, number of file attributes -/
def grFileInfo (f : File) : File × Out :=
  if !f.isOpen then (f, .fail) else (f, .items [.int f.imgs.length, .int f.gattrs.length])

/-- `GRgetiminfo`: name and number of attributes of image i -/
def grImInfo (f : File) (i : Nat) : File × Out :=
  if !f.isOpen then (f, .fail) else
  match f.imgs[i]? with
  | none => (f, .fail)
  | some im => (f, .items [.hex im.name, .int im.attrs.length])

end H4.AttrGR
