import H4.Gen.Atom
import H4.Gen.Macros
/-! # Model of `hdf/src/atom.c` (C13, atom layer)

State = the file-scope variables of `atom.c`:
`atom_group_list[MAXGROUP]`, `atom_next_id[MAXGROUP]`, `atom_free_list`, `atom_id_cache[4]` / `atom_obj_cache[4]`.

Conventions
* an atom (`atom_t` = `int32_t`) is carried as the `Nat` below `2^32` with the same bit pattern
  (`FAIL` = -1 is `FAIL_ATOM` = 4294967295); this is the domain of the generated macros
  `H4.Gen.Macros.MAKE_ATOM / ATOM_TO_GROUP / ATOM_TO_LOC`;
* an object (`void *`) is an opaque `Nat`, `NULL` = 0;
* a `group_t` argument is an `Int` (it is a C enum with a negative enumerator);
* a hash chain (`atom_info_t` nodes linked by `next`) is a `List Info`, head = first node of the chain;
  the hash table `atom_list` is the list of its `hash_size` chains;
* `HEclear`/`HGOTO_ERROR` only touch the error stack, which is not modelled;
  allocation failure (`DFE_NOSPACE`) is not modelled.
* `unsigned count` is an unbounded `Nat` (2^32 nested `HAinit_group` calls are not modelled);
  the `unsigned atom_next_id[]` counters wrap at `2^UNSIGNED_BITS` as in C.
-/
namespace H4.Atom
open H4.Gen.Atom H4.Gen.Macros

/-- `NULL` object pointer -/
def NULL : Nat := 0

/-- `atom_info_t` without its `next` link (the link is the list structure) -/
structure Info where
  id : Nat
  obj : Nat
deriving DecidableEq, Repr, Inhabited

/-- `atom_group_t` -/
structure Group where
  count : Nat := 0
  hashSize : Nat := 0
  atoms : Nat := 0
  /-- `atom_list`: `hash_size` chains; `[]` stands for the `NULL` pointer left by `HAdestroy_group`/`calloc` -/
  atomList : List (List Info) := []
deriving DecidableEq, Repr, Inhabited

/-- the two parallel arrays `atom_id_cache[4]`, `atom_obj_cache[4]`; slot `k` = (`atom_id_cache[k]`, `atom_obj_cache[k]`) -/
structure Cache where
  c0 : Info
  c1 : Info
  c2 : Info
  c3 : Info
deriving DecidableEq, Repr, Inhabited

/-- an unused cache slot: `atom_id_cache[k] = -1`, `atom_obj_cache[k] = NULL` -/
def emptySlot : Info := ⟨FAIL_ATOM, NULL⟩

def Cache.toList (c : Cache) : List Info := [c.c0, c.c1, c.c2, c.c3]

structure State where
  /-- `atom_group_list[MAXGROUP]`, `none` = `NULL` -/
  groups : List (Option Group)
  /-- `atom_next_id[MAXGROUP]`: the id counter of each group; it is NOT part of the group record, so it survives
      `HAdestroy_group` and `HAshutdown` (an id is never issued twice before the 28-bit counter wraps) -/
  nextIds : List Nat
  /-- `atom_free_list`: released nodes, most recently released first (stale contents as in C) -/
  freeList : List Info
  cache : Cache
deriving DecidableEq, Repr, Inhabited

/-- static initialisers of `atom.c`; the cache contents are the compiled initialisers (`H4.Gen.Atom.atom_*_cache_init`) -/
def State.init : State :=
  let slot (k : Nat) : Info := ⟨atom_id_cache_init.getD k 0, atom_obj_cache_init.getD k 0⟩
  { groups := List.replicate MAXGROUP none, nextIds := atom_next_id_init, freeList := [],
    cache := ⟨slot 0, slot 1, slot 2, slot 3⟩ }

/-- `atom_group_list[g]` -/
def getG (s : State) (g : Nat) : Option Group := (s.groups.getD g none)

/-- `atom_next_id[g]` -/
def nextId (s : State) (g : Nat) : Nat := s.nextIds.getD g 0

/-- `atom_group_list[g] = p` -/
def setG (s : State) (g : Nat) (p : Group) : State := { s with groups := s.groups.set g (some p) }

/-- the argument check `grp <= BADGROUP || grp >= MAXGROUP` (true = rejected) -/
def badGroup (grp : Int) : Bool := grp ≤ BADGROUP || grp ≥ (MAXGROUP : Int)

/-- `(group_t)ATOM_TO_GROUP(atm)` -/
def atomGroup (atm : Nat) : Int := (ATOM_TO_GROUP atm : Nat)

/-! ## SWAP_CACHE -/

/-- the three XOR assignments `a ^= b, b ^= a, a ^= b` of `SWAP_CACHE` on one of the arrays -/
def xorSwap (a b : Nat) : Nat × Nat :=
  let a1 := a ^^^ b
  let b1 := b ^^^ a1
  let a2 := a1 ^^^ b1
  (a2, b1)

/-- `SWAP_CACHE(i, j)` on two slots: ids and object pointers are XOR-swapped independently -/
def swapSlots (x y : Info) : Info × Info :=
  let (xi, yi) := xorSwap x.id y.id
  let (xo, yo) := xorSwap x.obj y.obj
  (⟨xi, xo⟩, ⟨yi, yo⟩)

/-! ## node allocation -/

/-- `HAIget_atom_node`: take the head of the free list if there is one, else `malloc`; the node is zeroed.
    Only the free list changes. -/
def getAtomNode (s : State) : State := { s with freeList := s.freeList.drop 1 }

/-- `HAIrelease_atom_node`: push on the free list (contents are left as they are) -/
def releaseAtomNode (s : State) (n : Info) : State := { s with freeList := n :: s.freeList }

/-! ## API -/

/-- `HAinit_group(grp, hash_size)`; result `SUCCEED`/`FAIL` -/
def initGroup (s : State) (grp : Int) (hashSize : Nat) : State × Int :=
  if badGroup grp || hashSize == 0 then (s, FAIL)
  else if hashSize &&& (hashSize - 1) != 0 then (s, FAIL)          -- must be a power of two
  else
    let g := grp.toNat
    -- `calloc(1, sizeof(atom_group_t))` when the slot is NULL
    let gp : Group := (getG s g).getD {}
    let gp : Group :=
      if gp.count == 0 then
        { gp with hashSize := hashSize, atoms := 0, atomList := List.replicate hashSize [] }
      else gp
    (setG s g { gp with count := gp.count + 1 }, SUCCEED)

/-- the cache sweep of `HAdestroy_group`: every slot whose id carries group `g` is emptied -/
def Cache.dropGroup (c : Cache) (grp : Int) : Cache :=
  let f (x : Info) : Info := if atomGroup x.id == grp then emptySlot else x
  ⟨f c.c0, f c.c1, f c.c2, f c.c3⟩

/-- `HAdestroy_group(grp)` -/
def destroyGroup (s : State) (grp : Int) : State × Int :=
  if badGroup grp then (s, FAIL)
  else
    let g := grp.toNat
    match getG s g with
    | none => (s, FAIL)
    | some gp =>
      if gp.count == 0 then (s, FAIL)
      else
        let gp := { gp with count := gp.count - 1 }
        if gp.count == 0 then
          -- cache sweep, `free(atom_list)`, `atom_list = NULL` (the chain nodes are leaked)
          (setG { s with cache := s.cache.dropGroup grp } g { gp with atomList := [] }, SUCCEED)
        else (setG s g gp, SUCCEED)

/-- `HAregister_atom(grp, object)`; result: the new atom, or `FAIL_ATOM` -/
def registerAtom (s : State) (grp : Int) (obj : Nat) : State × Nat :=
  if badGroup grp then (s, FAIL_ATOM)
  else
    let g := grp.toNat
    match getG s g with
    | none => (s, FAIL_ATOM)
    | some gp =>
      if gp.count == 0 then (s, FAIL_ATOM)
      else
        let s := getAtomNode s
        let n := nextId s g
        let atm := MAKE_ATOM g n
        let loc := n % gp.hashSize
        -- prepend to the bucket's chain
        let chain := gp.atomList.getD loc []
        let gp := { gp with atomList := gp.atomList.set loc (⟨atm, obj⟩ :: chain),
                            atoms := gp.atoms + 1 }
        -- `atom_next_id[grp]++`
        (setG { s with nextIds := s.nextIds.set g ((n + 1) % 2 ^ UNSIGNED_BITS) } g gp, atm)

/-- `HAIfind_atom(atm)`: general lookup; a hit is stored in the LAST cache slot -/
def findAtom (s : State) (atm : Nat) : State × Option Info :=
  let grp := atomGroup atm
  if badGroup grp then (s, none)
  else
    match getG s grp.toNat with
    | none => (s, none)
    | some gp =>
      if gp.count == 0 then (s, none)
      else
        let loc := ATOM_TO_LOC atm gp.hashSize
        -- empty bucket: error; otherwise walk the chain
        match (gp.atomList.getD loc []).find? (fun n => n.id == atm) with
        | none => (s, none)
        | some n => ({ s with cache := { s.cache with c3 := ⟨atm, n.obj⟩ } }, some n)

/-- `HAIatom_object(atm)` -/
def atomObjectSlow (s : State) (atm : Nat) : State × Nat :=
  match findAtom s atm with
  | (s, none) => (s, NULL)
  | (s, some n) => (s, n.obj)

/-- `HAatom_object(atm)`: the 4-way conditional with the `SWAP_CACHE` promotions (a hit in slot k>0 moves
    the entry one slot towards the front) -/
def atomObject (s : State) (atm : Nat) : State × Nat :=
  let c := s.cache
  if c.c0.id == atm then (s, c.c0.obj)
  else if c.c1.id == atm then
    let (a, b) := swapSlots c.c0 c.c1                       -- SWAP_CACHE(0, 1), atom_obj_cache[0]
    ({ s with cache := { c with c0 := a, c1 := b } }, a.obj)
  else if c.c2.id == atm then
    let (a, b) := swapSlots c.c1 c.c2                       -- SWAP_CACHE(1, 2), atom_obj_cache[1]
    ({ s with cache := { c with c1 := a, c2 := b } }, a.obj)
  else if c.c3.id == atm then
    let (a, b) := swapSlots c.c2 c.c3                       -- SWAP_CACHE(2, 3), atom_obj_cache[2]
    ({ s with cache := { c with c2 := a, c3 := b } }, a.obj)
  else atomObjectSlow s atm

/-- `HAatom_group(atm)`; `BADGROUP` on failure -/
def atomGroupOf (atm : Nat) : Int :=
  let g := atomGroup atm
  if badGroup g then BADGROUP else g

/-- the cache loop of `HAremove_atom`: the FIRST slot holding `atm` is emptied, then `break` -/
def Cache.dropFirst (c : Cache) (atm : Nat) : Cache :=
  if c.c0.id == atm then { c with c0 := emptySlot }
  else if c.c1.id == atm then { c with c1 := emptySlot }
  else if c.c2.id == atm then { c with c2 := emptySlot }
  else if c.c3.id == atm then { c with c3 := emptySlot }
  else c

/-- `HAremove_atom(atm)`; result: the atom's object, `NULL` on failure -/
def removeAtom (s : State) (atm : Nat) : State × Nat :=
  let grp := atomGroup atm
  if badGroup grp then (s, NULL)
  else
    let g := grp.toNat
    match getG s g with
    | none => (s, NULL)
    | some gp =>
      if gp.count == 0 then (s, NULL)
      else
        let loc := ATOM_TO_LOC atm gp.hashSize
        let chain := gp.atomList.getD loc []
        match chain.find? (fun n => n.id == atm) with
        | none => (s, NULL)                                  -- empty bucket or not in the chain
        | some n =>
          -- unlink the first node with this id, release it, sweep the cache, `atoms--`
          let gp := { gp with atomList := gp.atomList.set loc (chain.eraseP (fun n => n.id == atm)),
                              atoms := gp.atoms - 1 }
          let s := releaseAtomNode s n
          (setG { s with cache := s.cache.dropFirst atm } g gp, n.obj)

/-- `HAsearch_atom(grp, func, key)`: buckets in index order, each chain from its head; `p obj` = `func(obj, key) != 0` -/
def searchAtom (s : State) (grp : Int) (p : Nat → Bool) : Nat :=
  if badGroup grp then NULL
  else
    match getG s grp.toNat with
    | none => NULL
    | some gp =>
      if gp.count == 0 then NULL
      else
        match ((gp.atomList.take gp.hashSize).flatten).find? (fun n => p n.obj) with
        | none => NULL
        | some n => n.obj

/-- `HAshutdown()`: the free list and every group are released and every cache slot is emptied.
    `atom_next_id[]` is left as it is. -/
def shutdown (s : State) : State :=
  { s with freeList := [], groups := List.replicate MAXGROUP none,
           cache := ⟨emptySlot, emptySlot, emptySlot, emptySlot⟩ }

/-! ## operation histories -/

/-- search predicates used by the driver: `func(obj, key)` = `obj % m == r` -/
def modPred (m r : Nat) (o : Nat) : Bool := o % m == r

inductive Op where
  | init (grp : Int) (hashSize : Nat)
  | destroy (grp : Int)
  | register (grp : Int) (obj : Nat)
  | object (atm : Nat)
  | group (atm : Nat)
  | remove (atm : Nat)
  | search (grp : Int) (m r : Nat)
  | shutdown
deriving DecidableEq, Repr, Inhabited

/-- what the C call returned -/
inductive Res where
  | status (r : Int)      -- `SUCCEED` / `FAIL`
  | atom (a : Nat)        -- an `atom_t` bit pattern (`FAIL_ATOM` on failure)
  | obj (o : Nat)         -- a `void *` (`NULL` on failure)
  | grp (g : Int)         -- a `group_t` (`BADGROUP` on failure)
deriving DecidableEq, Repr, Inhabited

def step (s : State) : Op → State × Res
  | .init g h => let (s, r) := initGroup s g h; (s, .status r)
  | .destroy g => let (s, r) := destroyGroup s g; (s, .status r)
  | .register g o => let (s, a) := registerAtom s g o; (s, .atom a)
  | .object a => let (s, o) := atomObject s a; (s, .obj o)
  | .group a => (s, .grp (atomGroupOf a))
  | .remove a => let (s, o) := removeAtom s a; (s, .obj o)
  | .search g m r => (s, .obj (searchAtom s g (modPred m r)))
  | .shutdown => (shutdown s, .status SUCCEED)

/-- state after a history -/
def runS (s : State) : List Op → State
  | [] => s
  | op :: ops => runS (step s op).1 ops

/-- results of a history, in order -/
def runR (s : State) : List Op → List Res
  | [] => []
  | op :: ops => (step s op).2 :: runR (step s op).1 ops

/-! ## admissible histories (the explicit hypotheses of the C13 theorems) -/

/-- precondition of one call, evaluated in the state in which it is made:
    * `HAinit_group`: `hash_size <= 2^ATOM_BITS` (atom.c, comment on `ATOM_TO_LOC`: "assumes s is a power of 2 and smaller
      than the ATOM_MASK constant"; `HAinit_group` itself only checks the power of two);
    * `HAregister_atom` into a live group: fewer than `2^ATOM_BITS` atoms were registered in the group since the process
      started (`atom_next_id[grp] < 2^28`), i.e. the 28-bit counter has not wrapped.
    Every other call, `HAshutdown` included, is always admissible. -/
def opOk (s : State) : Op → Bool
  | .init _ hs => hs ≤ 2 ^ ATOM_BITS
  | .register grp _ =>
    if badGroup grp then true
    else match getG s grp.toNat with
      | some gp => gp.count == 0 || nextId s grp.toNat < 2 ^ ATOM_BITS
      | none => true
  | _ => true

/-- every call of the history satisfies `opOk` in the state it is made in -/
def adm (s : State) : List Op → Bool
  | [] => true
  | op :: ops => opOk s op && adm (step s op).1 ops

/-! ## state observers used in the theorem statements (all executable) -/

/-- the chain walk shared by `HAIfind_atom` and `HAremove_atom`: the node of `atm` in the hash table, if any
    (no cache involved, no state change) -/
def tableFind (s : State) (atm : Nat) : Option Info :=
  if badGroup (atomGroup atm) then none
  else match getG s (atomGroup atm).toNat with
    | none => none
    | some gp => if gp.count == 0 then none
                 else (gp.atomList.getD (ATOM_TO_LOC atm gp.hashSize) []).find? (fun n => n.id == atm)

/-- `atm` is in the hash table of a live group -/
def isLive (s : State) (atm : Nat) : Bool := (tableFind s atm).isSome

/-- init count of group `g` (0 when it was never initialised) -/
def groupCount (s : State) (g : Nat) : Nat :=
  match getG s g with
  | some gp => gp.count
  | none => 0

/-- `atm` carries a valid group whose counter has already passed the atom's 28-bit index, i.e. (as long as the
    counter has not wrapped) `atm` was issued by `HAregister_atom` at some time in this process -/
def issued (s : State) (atm : Nat) : Bool :=
  let g := ATOM_TO_GROUP atm
  decide (g < MAXGROUP) && decide (atm % 2 ^ ATOM_BITS < nextId s g)

/-- along `ops`, `atm` is never passed to `HAremove_atom` and its group's init count never returns to 0 -/
def keeps (atm : Nat) (s : State) : List Op → Bool
  | [] => true
  | op :: ops =>
    (op != Op.remove atm) && decide (0 < groupCount (step s op).1 (ATOM_TO_GROUP atm)) && keeps atm (step s op).1 ops

/-! ## specification: one finite map `id ⇀ obj` per group

`SGroup.live` is the list of the current registrations of the group (most recent first): a successful
`HAregister_atom` adds `(id, obj)`, a successful `HAremove_atom id` deletes the entry of `id`, the last
`HAdestroy_group` of the group or `HAshutdown` deletes all; the id counter `nextid` is never reset.  No hash table, no cache, no free list. -/

structure SGroup where
  count : Nat := 0
  nextid : Nat := 0
  live : List Info := []
deriving Repr, Inhabited

abbrev SState := Nat → SGroup

def SState.init : SState := fun _ => {}

def upd (sp : SState) (g : Nat) (sg : SGroup) : SState := fun x => if x = g then sg else sp x

/-- the map lookup: the live registration of `atm` in the group named by its top bits -/
def slookup (sp : SState) (atm : Nat) : Option Nat :=
  ((sp (ATOM_TO_GROUP atm)).live.find? (fun e => e.id == atm)).map (·.obj)

/-- spec state transition -/
def sstep (sp : SState) : Op → SState
  | .init grp hs =>
    if badGroup grp || hs == 0 || (hs &&& (hs - 1) != 0) then sp
    else
      let sg := sp grp.toNat
      upd sp grp.toNat (if sg.count == 0 then { sg with count := 1, live := [] } else { sg with count := sg.count + 1 })
  | .destroy grp =>
    if badGroup grp then sp
    else
      let sg := sp grp.toNat
      if sg.count == 0 then sp
      else if sg.count == 1 then upd sp grp.toNat { sg with count := 0, live := [] }
      else upd sp grp.toNat { sg with count := sg.count - 1 }
  | .register grp obj =>
    if badGroup grp then sp
    else
      let sg := sp grp.toNat
      if sg.count == 0 then sp
      else upd sp grp.toNat { sg with nextid := sg.nextid + 1, live := ⟨MAKE_ATOM grp.toNat sg.nextid, obj⟩ :: sg.live }
  | .remove atm =>
    match slookup sp atm with
    | none => sp
    | some _ =>
      let g := ATOM_TO_GROUP atm
      upd sp g { sp g with live := (sp g).live.eraseP (fun e => e.id == atm) }
  | .shutdown => fun g => { sp g with count := 0, live := [] }
  | _ => sp

/-- spec result of every call except `HAsearch_atom` -/
def sres (sp : SState) : Op → Res
  | .init grp hs => .status (if badGroup grp || hs == 0 || (hs &&& (hs - 1) != 0) then FAIL else SUCCEED)
  | .destroy grp => .status (if badGroup grp || (sp grp.toNat).count == 0 then FAIL else SUCCEED)
  | .register grp _ =>
    .atom (if badGroup grp || (sp grp.toNat).count == 0 then FAIL_ATOM else MAKE_ATOM grp.toNat (sp grp.toNat).nextid)
  | .object atm => .obj ((slookup sp atm).getD NULL)
  | .group atm => .grp (atomGroupOf atm)
  | .remove atm => .obj ((slookup sp atm).getD NULL)
  | .search _ _ _ => .obj NULL
  | .shutdown => .status SUCCEED

/-- `HAsearch_atom` may return the object of ANY live registration of the group satisfying `func`;
    `NULL` exactly when there is none (or the first one found is a `NULL` object) -/
def SearchOk (sp : SState) (grp : Int) (p : Nat → Bool) (o : Nat) : Prop :=
  if badGroup grp then o = NULL
  else (∃ e ∈ (sp grp.toNat).live, p e.obj = true ∧ o = e.obj) ∨ ((∀ e ∈ (sp grp.toNat).live, p e.obj = false) ∧ o = NULL)

/-- the result `r` of call `op` is one the specification allows in spec state `sp` -/
def SOk (sp : SState) (op : Op) (r : Res) : Prop :=
  match op with
  | .search grp m k => ∃ o, r = .obj o ∧ SearchOk sp grp (modPred m k) o
  | op => r = sres sp op

def srunS (sp : SState) : List Op → SState
  | [] => sp
  | op :: ops => srunS (sstep sp op) ops

/-- every result of the history is allowed by the specification -/
def SRun (sp : SState) : List Op → List Res → Prop
  | [], [] => True
  | op :: ops, r :: rs => SOk sp op r ∧ SRun (sstep sp op) ops rs
  | _, _ => False

end H4.Atom
