import H4.Gen.Hdf
/-! Model of the chunk ADDRESS ARITHMETIC of `hdf/src/hchunks.c` (C04) and of the piece-by-piece loops of
    `HMCPread` / `HMCPwrite` / `HMCPseek` that use it.

    Rank = length of the dimension list (no bound on rank or extents). Units are those of the C code:
    `sloc`, `relative_posn`, `len`, `chunk_size` (the piece length), `read_seek`/`write_seek` are BYTES,
    `seek_chunk_indices` (`sbi`), `seek_pos_chunk` (`spb`), `seek_user_indices` are ELEMENT indices and
    `nt_size` converts between the two.  `int32` values are modelled by `Nat` (all operands are non-negative and
    `/`, `%` agree) except where the C subtracts (`calculate_chunk_for_chunk`, `HMCPread` length clamp): there
    `Int` is used so that the sign behaviour of the C is kept.  Assumption (not modelled): no `int32` overflow,
    i.e. `Π dim_length · nt_size < 2^31` and `Π chunk_length · nt_size < 2^31`.  Core only, no Mathlib. -/
namespace H4.Chunk
open H4.Gen.Hdf

/-- `DIM_REC` (hchunks_priv.h): the fields used by the address arithmetic -/
structure DimRec where
  dimLength : Nat
  chunkLength : Nat
  numChunks : Nat
  lastChunkLength : Nat
deriving Repr, DecidableEq, Inhabited

/-- DIM_REC set-up in `HMCcreate` (and, identically, in `HMCIstaccess` when the header is read back):
    `dim_length == 0` means unlimited and is replaced by the chunk length (HMCcreate only);
    `num_chunks = dim_length / chunk_length`, one more when `odd_size = dim_length % chunk_length` is non-zero,
    in which case `last_chunk_length = odd_size`, else `last_chunk_length = chunk_length`. -/
def mkDimRec (dimLen chunkLen : Nat) : DimRec :=
  let d := if dimLen == 0 then chunkLen else dimLen
  let n := d / chunkLen
  let odd := d % chunkLen
  if odd != 0 then { dimLength := d, chunkLength := chunkLen, numChunks := n + 1, lastChunkLength := odd }
  else { dimLength := d, chunkLength := chunkLen, numChunks := n, lastChunkLength := chunkLen }

/-- the `ddims` array built by the `for (i = 0; i < ndims; i++)` loop of `HMCcreate` -/
def mkDims : List Nat → List Nat → List DimRec
  | d :: ds, c :: cs => mkDimRec d c :: mkDims ds cs
  | _, _ => []

/-- body of the `for (i = ndims-1; i >= 0; i--)` loop of `update_chunk_indices_seek`: the recursion handles the
    faster dimensions (tail) first, exactly as the C loop runs from the last index down; returns
    (left-over `stmp`, `sbi`, `spb`). -/
def ucisLoop : List DimRec → Nat → Nat × List Nat × List Nat
  | [], stmp => (stmp, [], [])
  | d :: ds, stmp =>
    let r := ucisLoop ds stmp
    let m := r.1 % d.dimLength
    (r.1 / d.dimLength, (m / d.chunkLength) :: r.2.1, (m % d.chunkLength) :: r.2.2)

/-- `update_chunk_indices_seek(sloc, ndims, nt_size, sbi, spb, ddims)`: byte position → (`sbi`, `spb`) -/
def updateChunkIndicesSeek (dd : List DimRec) (ntSize sloc : Nat) : List Nat × List Nat :=
  (ucisLoop dd (sloc / ntSize)).2

/-- the common `x[ndims-1]; cnum = 1; for (j = ndims-2; j >= 0; j--) { cnum *= len[j+1]; acc += x[j]*cnum; }`
    loop of `compute_array_to_seek`, `calculate_seek_in_chunk`, `calculate_chunk_num`.
    Returns (`cnum * len[0]`, `acc`); missing indices read as 0. -/
def lin : List Nat → List Nat → Nat × Nat
  | [], _ => (1, 0)
  | r :: rs, xs =>
    let t := lin rs xs.tail
    (t.1 * r, t.2 + xs.headD 0 * t.1)

/-- `compute_chunk_to_array(chunk_indices, chunk_array_ind, array_indices, ndims, ddims)` including its
    clamp in the last chunk of a dimension (`> last_chunk_length ? last_chunk_length : ind`). -/
def computeChunkToArray : List DimRec → List Nat → List Nat → List Nat
  | [], _, _ => []
  | d :: ds, sbi, spb =>
    let ci := sbi.headD 0
    let pi := spb.headD 0
    let a := ci * d.chunkLength
    let a := if ci + 1 == d.numChunks then   -- C: chunk_indices[j] == num_chunks - 1
               a + (if pi > d.lastChunkLength then d.lastChunkLength else pi)
             else a + pi
    a :: computeChunkToArray ds sbi.tail spb.tail

/-- `compute_array_to_seek(&user_seek, array_indices, nt_size, ndims, ddims)` (bytes) -/
def computeArrayToSeek (dd : List DimRec) (ntSize : Nat) (arr : List Nat) : Nat :=
  (lin (dd.map (·.dimLength)) arr).2 * ntSize

/-- `calculate_seek_in_chunk(&chunk_seek, ndims, nt_size, spb, ddims)` (bytes inside the chunk buffer) -/
def calculateSeekInChunk (dd : List DimRec) (ntSize : Nat) (spb : List Nat) : Nat :=
  (lin (dd.map (·.chunkLength)) spb).2 * ntSize

/-- `calculate_chunk_num(&chunk_num, ndims, sbi, ddims)` -/
def calculateChunkNum (dd : List DimRec) (sbi : List Nat) : Nat :=
  (lin (dd.map (·.numChunks)) sbi).2

/-- loop of `update_seek_pos_chunk`: (left-over `stmp`, `spb`) -/
def uspcLoop : List DimRec → Nat → Nat × List Nat
  | [], stmp => (stmp, [])
  | d :: ds, stmp =>
    let r := uspcLoop ds stmp
    (r.1 / d.chunkLength, (r.1 % d.chunkLength) :: r.2)

/-- `update_seek_pos_chunk(chunk_seek, ndims, nt_size, spb, ddims)` -/
def updateSeekPosChunk (dd : List DimRec) (ntSize chunkSeek : Nat) : List Nat :=
  (uspcLoop dd (chunkSeek / ntSize)).2

/-- `calculate_chunk_for_chunk(&chunk_size, ndims, nt_size, len, bytes_finished, sbi, spb, ddims)`:
    looks only at the fastest (last) dimension; signed as in C. -/
def calculateChunkForChunk (dd : List DimRec) (ntSize len done : Nat) (sbi spb : List Nat) : Int :=
  let d := dd.getLastD default
  let b := sbi.getLastD 0
  let p : Int := spb.getLastD 0
  let rem : Int := (len : Int) - done
  if b + 1 == d.numChunks then   -- sbi[ndims-1] == num_chunks - 1: last chunk
    if ((d.lastChunkLength : Int) - p) * ntSize > rem then rem else ((d.lastChunkLength : Int) - p) * ntSize
  else
    if ((d.chunkLength : Int) - p) * ntSize > rem then rem else ((d.chunkLength : Int) - p) * ntSize

/-- one pass of the `while (bytes_read < read_len)` loop: what is copied where -/
structure Piece where
  pos : Nat     -- `relative_posn` at the start of the pass (byte position in the element)
  chunk : Nat   -- `chunk_num` (the cache page is `chunk_num + 1`)
  seek : Nat    -- `read_seek + elem_off` / `write_seek + elem_off`: byte offset of the `memcpy` inside the chunk buffer
  size : Nat    -- `chunk_size`: bytes copied by the `memcpy`
deriving Repr, DecidableEq

/-- the `while (bytes_read < read_len)` loop shared by `HMCPread` and `HMCPwrite`.
    A transfer may start inside an element: `elem_off = relative_posn % nt_size` (non-zero on the first pass only);
    the piece is `calculate_chunk_for_chunk(len + elem_off, …) - elem_off` bytes and the `memcpy` starts at
    `read_seek + elem_off` in the chunk buffer.
    `fuel` only makes the definition total: every pass copies ≥ 1 byte when all lengths are positive
    (`walkLoop_tiles` in Lemmas/Chunk.lean), so `fuel = len` is enough. A non-positive `chunk_size` (the C would spin
    or run backwards) stops the model; this never happens for positive geometry. -/
def walkLoop (dd : List DimRec) (ntSize len : Nat) : Nat → Nat → Nat → List Nat → List Nat → List Piece
  | 0, _, _, _, _ => []
  | fuel + 1, relPosn, done, sbi, spb =>
    if done < len then
      let chunkNum := calculateChunkNum dd sbi
      let elemOff := relPosn % ntSize                    -- elem_off = relative_posn % info->nt_size
      let chunkSize := calculateChunkForChunk dd ntSize (len + elemOff) done sbi spb - (elemOff : Int)
      let seek := calculateSeekInChunk dd ntSize spb
      if chunkSize ≤ 0 then [] else
      let relPosn' := relPosn + chunkSize.toNat        -- relative_posn += chunk_size
      let ix := updateChunkIndicesSeek dd ntSize relPosn'
      { pos := relPosn, chunk := chunkNum, seek := seek + elemOff, size := chunkSize.toNat }
        :: walkLoop dd ntSize len fuel relPosn' (done + chunkSize.toNat) ix.1 ix.2
    else []

/-- pieces of a transfer of `len` bytes at byte position `posn`: `update_chunk_indices_seek(access_rec->posn …)`
    followed by the loop -/
def walk (dd : List DimRec) (ntSize posn len : Nat) : List Piece :=
  let ix := updateChunkIndicesSeek dd ntSize posn
  walkLoop dd ntSize len len posn 0 ix.1 ix.2

/-- chunk buffers as seen through the cache: chunk number → byte offset → byte.
    (A structure rather than a bare function so that the compiled driver builds each layer once.) -/
structure Store where
  get : Nat → Nat → UInt8

def fillAt (fill : List UInt8) (o : Nat) : UInt8 := fill.getD (o % fill.length) 0

/-- `HMCPchunkread` for a chunk that has no record yet: `HDmemfill` of the fill value over the buffer -/
def initStore (fill : List UInt8) : Store := ⟨fun _ o => fillAt fill o⟩

/-- `memcpy(chk_dptr + o, bptr, n)` into the buffer of chunk `c` -/
def Store.copyIn (st : Store) (c o : Nat) (bs : List UInt8) : Store :=
  let n := bs.length
  let arr := bs.toArray
  ⟨fun c' o' => if c' = c ∧ o ≤ o' ∧ o' < o + n then arr.getD (o' - o) 0 else st.get c' o'⟩

/-- `memcpy(bptr, chk_dptr + o, n)` out of the buffer of chunk `c` -/
def Store.copyOut (st : Store) (c o n : Nat) : List UInt8 := (List.range' o n).map (st.get c)

/-- data movement of the `HMCPwrite` loop: `memcpy; bptr += chunk_size` per piece -/
def writePieces : Store → List Piece → List UInt8 → Store
  | st, [], _ => st
  | st, p :: ps, data => writePieces (st.copyIn p.chunk p.seek (data.take p.size)) ps (data.drop p.size)

/-- data movement of the `HMCPread` loop -/
def readPieces (st : Store) (ps : List Piece) : List UInt8 :=
  ps.flatMap fun p => st.copyOut p.chunk p.seek p.size

/-- access state of one chunked element (what `HMCPseek/HMCPread/HMCPwrite` touch) -/
structure Elem where
  dd : List DimRec
  ntSize : Nat
  length : Nat          -- `info->length`: Π dim_length (elements)
  store : Store
  posn : Nat := 0       -- `access_rec->posn` (bytes)

def Elem.totalBytes (e : Elem) : Nat := e.length * e.ntSize

/-- `HMCPseek(access_rec, offset, origin)`: new `posn`, or `none` for `offset < 0` (DFE_RANGE).
    "there is no upper bound to posn". -/
def hmcpSeek (e : Elem) (offset : Int) (origin : Nat) : Option Elem :=
  let offset := if origin == DF_CURRENT then offset + e.posn else offset
  let offset := if origin == DF_END then offset + e.totalBytes else offset
  if offset < 0 then none else some { e with posn := offset.toNat }

/-- `HMCPread(access_rec, length, datap)`: bytes delivered and new state (`none` = FAIL).
    `length == 0` → rest of the element, `length < 0` → FAIL, then clamp to the element end (the clamped length is
    ≤ 0 when `posn` is at/after the end: the loop is skipped and 0 is returned). -/
def hmcpRead (e : Elem) (length : Int) : Option (List UInt8 × Elem) :=
  if length < 0 then none else
  let length := if length == 0 then (e.totalBytes : Int) - e.posn else length
  let length := if (e.posn : Int) + length > e.totalBytes then (e.totalBytes : Int) - e.posn else length
  let ps := walk e.dd e.ntSize e.posn length.toNat
  some (readPieces e.store ps, { e with posn := e.posn + (ps.map (·.size)).sum })

/-- `HMCPwrite(access_rec, length, datap)`; `length <= 0` fails (DFE_RANGE); a write that would end past the (fixed)
    element end is refused before anything is modified: `length > length*nt_size - posn` → FAIL (DFE_BADSEEK). -/
def hmcpWrite (e : Elem) (data : List UInt8) : Option (Nat × Elem) :=
  if data.length == 0 then none else
  if (data.length : Int) > (e.totalBytes : Int) - e.posn then none else
  let ps := walk e.dd e.ntSize e.posn data.length
  let n := (ps.map (·.size)).sum
  some (n, { e with store := writePieces e.store ps data, posn := e.posn + n })

/-- position left in `access_rec->posn` by `HMCreadChunk`/`HMCwriteChunk(origin)`:
    `update_seek_pos_chunk(chunk_size*nt_size)`, `compute_chunk_to_array`, `compute_array_to_seek` -/
def chunkIOPosn (dd : List DimRec) (ntSize chunkSize : Nat) (origin : List Nat) : Nat :=
  let spb := updateSeekPosChunk dd ntSize (chunkSize * ntSize)
  computeArrayToSeek dd ntSize (computeChunkToArray dd origin spb)

end H4.Chunk
