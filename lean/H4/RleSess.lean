import H4.Rle
import H4.Gen.Fn.Crle
import H4.Gen.Hdf
/-! Session model of a run-length coded element behind ONE access id (C05): the `comp_coder_rle_info_t` record is SHARED by the encoder
    and the decoder (`rle_state`, `buf_length`, `buf_pos`, `last_byte`, `buffer` mean different things to each; the flag `encoding`,
    added by the repair 75e1c7a, says whose they are), and the access id `info->aid` of the underlying DFTAG_COMPRESSED element has
    ONE position at which both read and write.  An operation of a session is one call of the C text:

      * `start`      `HCPcrle_stread` / `HCPcrle_stwrite` -> `HCIcrle_staccess` -> `HCIcrle_init`        TRANSLATED (`H4.Gen.Fn.Crle`)
      * `write`      `HCPwrite` (hcomp.c; hand: `info->length = max`) -> `HCPcrle_write` -> `HCIcrle_encode`   TRANSLATED
      * `read`       `HCPread` (hcomp.c; hand: range check) -> `HCPcrle_read` -> `HCIcrle_decode`              TRANSLATED
      * `endaccess`  `HCPcrle_endaccess` -> `HCIcrle_term`                                                      TRANSLATED
      * `seek`       `HCPcrle_seek`: HAND model of its control flow, branch by branch (flush test, `HCIcrle_term`, `HCIcrle_init`, the
                     `while` over chunks of `TMP_BUF_SIZE` and the last chunk), over the TRANSLATED `HCIcrle_term` / `HCIcrle_init` /
                     `HCIcrle_decode` (gen/c2lean.py cannot express `tmp_buf = malloc(..)` inside a condition and a pointer local as array
                     argument); its faithfulness is what the `T rle sess` lines of engine comp test.

    What the translator leaves to this file (the effect of calls on `info->aid` other than the stream I/O builtins, trusted):
    `Hseek(info->aid, 0, DF_START)` in `HCIcrle_init` puts the position to 0 (`fpos := 0`); bytes written through `HDputc` / `Hwrite`
    (the translated functions APPEND them to `io_out`, here started empty at every call) go to the current position of the appendable
    access id, over what is there and beyond the end (`put`), and advance it; bytes read come from the current position (`io_in := file`,
    `io_pos := fpos`).  `access_rec->posn` always equals `rle_info->offset` (HCPseek / HCPread / HCPwrite set it to the same values), so
    `offset` stands for both.  Core only (the driver links it). -/
namespace H4.RleSess
open H4.Rle H4.Gen.Crle H4.Gen.Fn.Crle

/-- the coder record, the underlying element with the position of `info->aid`, `info->length` and `access_rec->access` -/
structure St where
  st : Int
  len : Int
  pos : Int
  last : Int
  second : Int
  offset : Int
  encoding : Int
  buffer : List Int
  file : List Int
  fpos : Int
  length : Int
  access : Int
deriving Repr

/-- a C `uint8` array as the translated functions see it -/
def ints (l : List Byte) : List Int := l.map fun b => (b.toNat : Int)

/-- `HDputc` / `Hwrite` on the appendable `info->aid` at position `fpos` -/
def put (file : List Int) (fpos : Int) (out : List Int) : List Int :=
  file.take fpos.toNat ++ out ++ file.drop (fpos.toNat + out.length)

/-- `HCIcrle_staccess` (translated; calls the translated `HCIcrle_init`) on a record with ARBITRARY content - `info` comes from `malloc` in
    `HCcreate` / `HCIstaccess` -; `new_aid` is the access id `Hstartread` / `Hstartaccess` returned (`FAIL` = -1 makes it fail) -/
def start (σ : St) (acc_mode new_aid : Int) : Option St :=
  let s := HCIcrle_staccess 0 0 σ.st σ.encoding σ.pos σ.last σ.second σ.offset acc_mode new_aid
  if s.ub || s.oof || s.ret != 0 then none
  else some { σ with st := s.rle_rle_state, encoding := s.rle_encoding, pos := s.rle_buf_pos, last := s.rle_last_byte,
                     second := s.rle_second_byte, offset := s.rle_offset, fpos := 0 }

/-- `HCPwrite` around the translated `HCPcrle_write` (refuses a write that is neither an append nor starts at 0, calls `HCIcrle_encode`) -/
def write (σ : St) (bs : List Byte) : Option St :=
  let s := HCPcrle_write bs.length σ.length σ.offset σ.encoding σ.st σ.buffer σ.last σ.len σ.pos σ.second bs.length (ints bs) []
  if s.ub || s.oof || s.ret == -1 then none
  else some { σ with st := s.rle_rle_state, len := s.rle_buf_length, pos := s.rle_buf_pos, last := s.rle_last_byte,
                     second := s.rle_second_byte, offset := s.rle_offset, encoding := s.rle_encoding, buffer := s.rle_buffer,
                     file := put σ.file σ.fpos s.io_out, fpos := σ.fpos + s.io_out.length,
                     length := if s.rle_offset > σ.length then s.rle_offset else σ.length }

/-- `HCPread` (`posn + length > info->length` is refused) around the translated `HCPcrle_read` (calls `HCIcrle_decode`) -/
def read (σ : St) (n : Nat) : Option (St × List Int) :=
  if σ.offset + n > σ.length then none else
  let s := HCPcrle_read n σ.st σ.len σ.last σ.buffer σ.pos σ.offset n (List.replicate n 0xA5) σ.file σ.fpos
  if s.ub || s.oof || s.ret == -1 then none
  else some ({ σ with st := s.rle_rle_state, len := s.rle_buf_length, last := s.rle_last_byte, buffer := s.rle_buffer, pos := s.rle_buf_pos,
                      offset := s.rle_offset, fpos := s.io_pos }, s.data)

/-- one `HCIcrle_decode(info, n, tmp_buf)` of `HCPcrle_seek` (translated) -/
def skip (σ : St) (n : Nat) : Option St :=
  let s := HCIcrle_decode n σ.st σ.len σ.last σ.buffer σ.pos σ.offset n (List.replicate n 0xA5) σ.file σ.fpos
  if s.ub || s.oof || s.ret != 0 then none
  else some { σ with st := s.rle_rle_state, len := s.rle_buf_length, last := s.rle_last_byte, buffer := s.rle_buffer, pos := s.rle_buf_pos,
                     offset := s.rle_offset, fpos := s.io_pos }

/-- `HCPcrle_seek`, second half: `while (rle_info->offset + TMP_BUF_SIZE < offset) decode(TMP_BUF_SIZE)`, then
    `if (rle_info->offset < offset) decode(offset - rle_info->offset)`; `fuel` bounds the number of whole chunks -/
def forward : Nat → St → Int → Option St
  | 0, _, _ => none
  | fuel + 1, σ, off =>
    if σ.offset + TMP_BUF_SIZE < off then (skip σ TMP_BUF_SIZE).bind fun σ' => forward fuel σ' off
    else if σ.offset < off then skip σ (off - σ.offset).toNat
    else some σ

/-- `HCIcrle_term(info)` as `HCPcrle_seek` calls it (translated): the packet goes to the position of `info->aid` -/
def flush (σ : St) : Option St :=
  let t := HCIcrle_term 0 σ.st σ.len σ.last σ.buffer σ.encoding σ.second []
  if t.ub || t.oof || t.ret != 0 then none
  else some { σ with st := t.rle_rle_state, len := t.rle_buf_length, last := t.rle_last_byte, buffer := t.rle_buffer,
                     encoding := t.rle_encoding, second := t.rle_second_byte,
                     file := put σ.file σ.fpos t.io_out, fpos := σ.fpos + t.io_out.length }

/-- `HCIcrle_init(access_rec)` as `HCPcrle_seek` calls it (translated); its `Hseek(info->aid, 0, DF_START)` rewinds the position -/
def reinit (σ : St) : Option St :=
  let i := HCIcrle_init 0 σ.st σ.encoding σ.pos σ.last σ.second σ.offset
  if i.ub || i.oof || i.ret != 0 then none
  else some { σ with st := i.rle_rle_state, encoding := i.rle_encoding, pos := i.rle_buf_pos, last := i.rle_last_byte,
                     second := i.rle_second_byte, offset := i.rle_offset, fpos := 0 }

/-- `HCPcrle_seek`, first half: `if (offset < rle_info->offset) { if ((access & DFACC_WRITE) && encoding && rle_state != RLE_INIT)
    HCIcrle_term(info); HCIcrle_init(access_rec); }` -/
def rewind (σ : St) : Option St :=
  (if (σ.access.toNat &&& H4.Gen.Hdf.DFACC_WRITE) ≠ 0 ∧ σ.encoding ≠ 0 ∧ σ.st ≠ 0 then flush σ else some σ).bind reinit

/-- `HCPcrle_seek(access_rec, offset, origin)` -/
def seek (σ : St) (off : Nat) : Option St :=
  (if (off : Int) < σ.offset then rewind σ else some σ).bind fun σ' => forward (off / TMP_BUF_SIZE + 1) σ' off

/-- `HCPcrle_endaccess` (translated; flush test, `HCIcrle_term`); the result is the underlying element as it is left -/
def endaccess (σ : St) : Option (List Int) :=
  let s := HCPcrle_endaccess 0 σ.access σ.encoding σ.st σ.len σ.last σ.buffer σ.second []
  if s.ub || s.oof || s.ret != 0 then none else some (put σ.file σ.fpos s.io_out)

inductive Op where
  | write (bs : List Byte)
  | seek (off : Nat)
  | read (n : Nat)
deriving Repr

/-- a history of calls through the access id; the bytes the reads delivered are collected -/
def run : St → List Op → Option (St × List Int)
  | σ, [] => some (σ, [])
  | σ, .write bs :: ops => (write σ bs).bind fun σ' => run σ' ops
  | σ, .seek off :: ops => (seek σ off).bind fun σ' => run σ' ops
  | σ, .read n :: ops => (read σ n).bind fun p => (run p.1 ops).map fun q => (q.1, p.2 ++ q.2)

/-- a whole session: start access on the element `file` (uncompressed length `length`), the history, `Hendaccess`;
    the result is the underlying element afterwards and the bytes read -/
def session (σ : St) (acc_mode : Int) (ops : List Op) : Option (List Int × List Int) :=
  (start σ acc_mode 1).bind fun σ0 => (run σ0 ops).bind fun p => (endaccess p.1).map fun f => (f, p.2)

/-! ## what C05 says about such a history (the specification side: no coder in it) -/

/-- the histories C05 is about, relative to `len` bytes in the element and the position `pos` of the access id: a write is a non-empty
    APPEND (the element is written sequentially), a seek goes anywhere inside the data (forward or backward), a read is non-empty and
    stays inside the data.  (Zero-length transfers are outside the property: `Hread(.., 0, ..)` means "up to the end".) -/
def InScope : Nat → Nat → List Op → Prop
  | _, _, [] => True
  | len, pos, .write bs :: ops => pos = len ∧ bs ≠ [] ∧ InScope (len + bs.length) (len + bs.length) ops
  | len, _, .seek off :: ops => off ≤ len ∧ InScope len off ops
  | len, pos, .read n :: ops => 0 < n ∧ pos + n ≤ len ∧ InScope len (pos + n) ops

/-- the bytes a history appends -/
def written : List Op → List Byte
  | [] => []
  | .write bs :: ops => bs ++ written ops
  | _ :: ops => written ops

/-- what the reads of a history have to deliver, concatenated: each read the bytes written so far at its position -/
def expected : List Byte → Nat → List Op → List Byte
  | _, _, [] => []
  | d, _, .write bs :: ops => expected (d ++ bs) (d.length + bs.length) ops
  | d, _, .seek off :: ops => expected d off ops
  | d, p, .read n :: ops => (d.drop p).take n ++ expected d (p + n) ops

end H4.RleSess
