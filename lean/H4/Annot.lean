import H4.Gen.Hdf
import H4.Gen.Mfan
import H4.Gen.Macros
/-! Model of the annotation layer (C11): `hdf/src/mfan.c` (multi-file `AN*` interface) and the parts of
    `hdf/src/dfan.c` (single-file `DFAN*` interface) that read and write the same four element kinds.

    * keys: `AN_CREATE_KEY` / `AN_KEY2REF` / `AN_KEY2TYPE` are the GENERATED translations of the C macros;
    * payload: `encodeAnn`/`decodeAnn` — object labels/descriptions carry a 4-byte big-endian target tag/ref prefix,
      file labels/descriptions are the bare text (`ANIwriteann`, `ANIreadann`, `DFANIputann`, `DFANIaddfann`);
    * state: the annotation data elements of the file in DD (creation) order, and the four per-type TBBTs of
      `filerec_t.an_tree[]`, kept as ONE list ordered the way `tbbtfirst/tbbtnext` walk them.  `ANIanncmp` is
      an inverted comparison (returns -1 for "greater"), so the walk is by DESCENDING key. -/
namespace H4.Annot
open H4.Gen.Hdf H4.Gen.Mfan H4.Gen.Macros

abbrev Byte := UInt8
abbrev Bytes := List Byte

/-- the annotation tag of a type (`ANatype2tag`, the `switch`es of mfan.c); `none` = "Bad annotation type" -/
def tagOfType (t : Nat) : Option Nat :=
  if t = AN_DATA_LABEL then some TAG_DATA_LABEL
  else if t = AN_DATA_DESC then some TAG_DATA_DESC
  else if t = AN_FILE_LABEL then some TAG_FILE_LABEL
  else if t = AN_FILE_DESC then some TAG_FILE_DESC
  else none

/-- `ANtag2atype` -/
def typeOfTag (tag : Nat) : Option Nat :=
  if tag = TAG_DATA_LABEL then some AN_DATA_LABEL
  else if tag = TAG_DATA_DESC then some AN_DATA_DESC
  else if tag = TAG_FILE_LABEL then some AN_FILE_LABEL
  else if tag = TAG_FILE_DESC then some AN_FILE_DESC
  else none

def isDataType (t : Nat) : Bool := t == AN_DATA_LABEL || t == AN_DATA_DESC
def isLabelType (t : Nat) : Bool := t == AN_DATA_LABEL || t == AN_FILE_LABEL

def u16 (n : Nat) : Bytes := [UInt8.ofNat (n / 256), UInt8.ofNat n]

/-- the bytes of the annotation element: `UINT16ENCODE(tag); UINT16ENCODE(ref)` + text for object annotations,
    the text alone for file annotations -/
def encodeAnn (t : Nat) (target : Nat × Nat) (text : Bytes) : Bytes :=
  if isDataType t then u16 target.1 ++ u16 target.2 ++ text else text

/-- what the readers make of an element of type `t` whose own ref is `annref`
    (`ANIcreate_ann_tree` for the target, `ANIreadann` for the text); `none` = shorter than its 4-byte prefix -/
def decodeAnn (t : Nat) (selfTagRef : Nat × Nat) (b : Bytes) : Option ((Nat × Nat) × Bytes) :=
  if isDataType t then
    match b with
    | a :: b1 :: c :: d :: rest => some ((a.toNat * 256 + b1.toNat, c.toNat * 256 + d.toNat), rest)
    | _ => none
  else some (selfTagRef, b)

/-- `ANentry` -/
structure Entry where
  annref : Nat
  elmtag : Nat
  elmref : Nat
deriving Repr, DecidableEq

structure AnState where
  elems : List ((Nat × Nat) × Bytes) := []   -- annotation data elements (tag, ref) ↦ bytes, in DD order
  tree : List (Nat × Entry) := []            -- all four TBBTs, walk order = descending key
  loaded : List Nat := []                    -- types whose `an_num[type] != -1`
deriving Repr

def elemLook (k : Nat × Nat) : List ((Nat × Nat) × Bytes) → Option Bytes
  | [] => none
  | (k', v) :: r => if k' = k then some v else elemLook k r

/-- `Hputelement`/`Hstartwrite` on a tag/ref: replace in place (the DD is reused) or append a new DD -/
def elemPut (k : Nat × Nat) (v : Bytes) : List ((Nat × Nat) × Bytes) → List ((Nat × Nat) × Bytes)
  | [] => [(k, v)]
  | (k', v') :: r => if k' = k then (k, v) :: r else (k', v') :: elemPut k v r

/-- `tbbtdins` with `ANIanncmp`: keep the walk order descending; `none` = key already present -/
def treeIns (key : Nat) (e : Entry) : List (Nat × Entry) → Option (List (Nat × Entry))
  | [] => some [(key, e)]
  | (k', e') :: r =>
    if key > k' then some ((key, e) :: (k', e') :: r)
    else if key = k' then none
    else (treeIns key e r).map ((k', e') :: ·)

def treeFind (key : Nat) : List (Nat × Entry) → Option Entry
  | [] => none
  | (k', e) :: r => if k' = key then some e else treeFind key r

/-- the entries of one type, in walk order -/
def ofType (t : Nat) (tree : List (Nat × Entry)) : List (Nat × Entry) := tree.filter (fun p => AN_KEY2TYPE p.1 == t)

/-- `ANIcreate_ann_tree`: read every element of the type's tag from the file, in DD order, and insert it -/
def loadType (s : AnState) (t : Nat) : AnState :=
  if s.loaded.contains t then s else
  match tagOfType t with
  | none => s
  | some tag =>
    let es := s.elems.filter (fun p => p.1.1 == tag)
    let tree := es.foldl (fun tr p =>
      match decodeAnn t (tag, p.1.2) p.2 with
      | none => tr
      | some (target, _) =>
        (treeIns (AN_CREATE_KEY t p.1.2) ⟨p.1.2, target.1, target.2⟩ tr).getD tr) s.tree
    { s with tree := tree, loaded := t :: s.loaded }

def countType (s : AnState) (t : Nat) : Nat := (ofType t s.tree).length

inductive Op where
  | start                                         -- `Hopen` of a file that is not open (new `filerec_t`) + `ANstart`: no tree loaded
  | endan                                         -- `ANend`; the file id stays open, the `filerec_t` lives on
  | restart                                       -- `ANstart` on a file id of a `filerec_t` that is still open
  | hput (tag ref : Nat) (b : Bytes)              -- `Hputelement` of an annotation element through an open file id
  | fileinfo                                      -- `ANfileinfo`
  | create (t etag eref annref : Nat)             -- `ANcreate`/`ANcreatef`; `annref` = what `Htagnewref` returned
  | writeann (t annref : Nat) (text : Bytes)      -- `ANwriteann`
  | readann (t annref maxlen : Nat)               -- `ANreadann`
  | annlen (t annref : Nat)
  | numann (t etag eref : Nat)
  | annlist (t etag eref : Nat)
  | select (t : Nat) (index : Int)
  | gettagref (t : Nat) (index : Int)
  | tagref2id (tag ref : Nat)
  | rawelem (tag ref : Nat)                       -- `Hgetelement` of the annotation element
  | dfput (t etag eref annref : Nat) (text : Bytes)   -- `DFANputlabel`/`DFANputdesc`; `annref` = `DFANlastref()`
  | dfget (t etag eref maxlen : Nat)              -- `DFANgetlabel`/`DFANgetdesc`
  | dfgetlen (t etag eref : Nat)
  | dfaddf (t annref : Nat) (text : Bytes)        -- `DFANaddfid`/`DFANaddfds`
  | dfgetf (t i maxlen : Nat)                     -- the i-th `DFANgetfid`/`DFANgetfds` of a walk (isfirst = 1, 0, 0, …)
deriving Repr, DecidableEq

inductive Out where
  | fail | ok
  | int (i : Int)
  | nats (l : List Nat)
  | bytes (b : Bytes)
  | read (b : Bytes) (written : Nat)     -- the text returned and how many bytes of the caller's buffer were written
deriving Repr, DecidableEq

/-- `ANIreadann` / `DFANIgetann` on a text of `len` bytes with a caller buffer of `maxlen` bytes:
    (number of text bytes returned, number of buffer bytes WRITTEN).  The length is clipped to `maxlen` (labels:
    `maxlen - 1`), `Hread` is called only for a positive length (/repo d625c61; before that a clipped length of 0 was
    handed to `Hread`, for which 0 means "to the end of the element", and the whole text overran a 1-byte label
    buffer — finding `an-read-overrun`), labels then get a NUL at `ann[ann_len]`. -/
def readSpan (t len maxlen : Nat) : Nat × Nat :=
  let n := if isLabelType t then min len (maxlen - 1) else min len maxlen
  (n, if isLabelType t then n + 1 else n)

def indexed (t : Nat) (s : AnState) (index : Int) : Option Entry :=
  if index < 0 then none else ((ofType t s.tree)[index.toNat]?).map (·.2)

/-- first element (DD order) of tag `tag` whose 4-byte prefix names the target (`DFANIlocate`) -/
def dfLocate (tag : Nat) (target : Nat × Nat) (elems : List ((Nat × Nat) × Bytes)) : Option Nat :=
  (elems.find? (fun p => p.1.1 == tag && p.2.take 4 == u16 target.1 ++ u16 target.2)).map (·.1.2)

def step (s : AnState) : Op → AnState × Out
  | .start => ({ s with tree := [], loaded := [] }, .ok)
  -- `ANend`: for EACH of the four types the tree is freed (`tbbtdfree`), its annotation atoms are removed, and
  -- `an_tree[type] = NULL; an_num[type] = -1` — nothing of the session survives in the file record
  | .endan => ({ s with tree := [], loaded := [] }, .ok)
  -- `ANstart`: `HIfid2rec` + `ANIinit`; the annotation state of the file record is not touched, so what the next
  -- session sees is whatever `ANend` (or `Hopen`) left there: nothing
  | .restart => (s, .ok)
  | .hput tag ref b => ({ s with elems := elemPut (tag, ref) b s.elems }, .ok)
  | .fileinfo =>
    let s1 := loadType (loadType (loadType (loadType s AN_FILE_LABEL) AN_FILE_DESC) AN_DATA_LABEL) AN_DATA_DESC
    (s1, .nats [countType s1 AN_FILE_LABEL, countType s1 AN_FILE_DESC, countType s1 AN_DATA_LABEL, countType s1 AN_DATA_DESC])
  | .create t etag eref annref =>
    match tagOfType t with
    | none => (s, .fail)
    | some tag =>
      -- file annotations describe themselves
      let target := if isDataType t then (etag % 65536, eref % 65536) else (tag, annref)
      if target.1 = 0 ∨ target.2 = 0 then (s, .fail)
      else
        -- `ANIaddentry`: an unloaded tree is first built from the annotations already in the file
        -- (`ANIcreate_ann_tree`, /repo d4a30b4; before that it was created EMPTY and marked loaded, which hid every
        -- existing annotation of the type for the rest of the session — finding `an-create-hides`)
        let s1 := loadType s t
        match treeIns (AN_CREATE_KEY t annref) ⟨annref, target.1, target.2⟩ s1.tree with
        | none => (s1, .fail)
        | some tr => ({ s1 with tree := tr }, .ok)
  | .writeann t annref text =>
    -- /repo 3d2a8cf: an empty text is refused before anything is created (before that the zero-length
    -- `Hwrite`/`Hputelement` reported failure only after the element and its prefix existed — finding `an-write-empty`)
    if text.isEmpty then (s, .fail) else
    match tagOfType t, treeFind (AN_CREATE_KEY t annref) s.tree with
    | some tag, some e =>
      ({ s with elems := elemPut (tag, annref) (encodeAnn t (e.elmtag, e.elmref) text) s.elems }, .ok)
    | _, _ => (s, .fail)
  | .readann t annref maxlen =>
    match tagOfType t with
    | none => (s, .fail)
    | some tag =>
      match elemLook (tag, annref) s.elems with
      | none => (s, .fail)
      | some b =>
        let len := b.length - (if isDataType t then 4 else 0)
        let sp := readSpan t len maxlen
        (s, .read ((b.drop (if isDataType t then 4 else 0)).take sp.1) sp.2)
  | .annlen t annref =>
    match tagOfType t with
    | none => (s, .fail)
    | some tag =>
      match elemLook (tag, annref) s.elems with
      | none => (s, .fail)
      | some b => (s, .int ((b.length : Int) - (if isDataType t then 4 else 0)))
  | .numann t etag eref =>
    if ¬ isDataType t then (s, .fail) else
    let s1 := loadType s t
    (s1, .int ((ofType t s1.tree).filter (fun p => p.2.elmtag == etag && p.2.elmref == eref)).length)
  | .annlist t etag eref =>
    if ¬ isDataType t then (s, .fail) else
    let s1 := loadType s t
    (s1, .nats (((ofType t s1.tree).filter (fun p => p.2.elmtag == etag && p.2.elmref == eref)).map (·.2.annref)))
  | .select t index =>
    let s1 := loadType s t
    match indexed t s1 index with
    | none => (s1, .fail)
    | some e => (s1, .int e.annref)
  | .gettagref t index =>
    let s1 := loadType s t
    match indexed t s1 index, tagOfType t with
    | some e, some tag => (s1, .nats [tag, e.annref])
    | _, _ => (s1, .fail)
  | .tagref2id tag ref =>
    match typeOfTag tag with
    | none => (s, .fail)
    | some t =>
      let s1 := loadType s t
      match treeFind (AN_CREATE_KEY t ref) s1.tree with
      | none => (s1, .fail)
      | some _ => (s1, .ok)
  | .rawelem tag ref =>
    match elemLook (tag, ref) s.elems with
    | none => (s, .fail)
    | some b => (s, .bytes b)
  | .dfput t etag eref annref text =>
    match tagOfType t with
    | none => (s, .fail)
    | some tag =>
      if etag = 0 ∨ eref = 0 then (s, .fail) else
      let r := (dfLocate tag (etag, eref) s.elems).getD annref
      ({ s with elems := elemPut (tag, r) (encodeAnn t (etag, eref) text) s.elems }, .int r)
  | .dfget t etag eref maxlen =>
    match tagOfType t with
    | none => (s, .fail)
    | some tag =>
      match dfLocate tag (etag, eref) s.elems with
      | none => (s, .fail)
      | some r =>
        match elemLook (tag, r) s.elems with
        | none => (s, .fail)
        | some b =>
          let sp := readSpan t (b.length - 4) maxlen
          (s, .read ((b.drop 4).take sp.1) sp.2)
  | .dfgetlen t etag eref =>
    match tagOfType t with
    | none => (s, .fail)
    | some tag =>
      match dfLocate tag (etag, eref) s.elems with
      | none => (s, .fail)
      | some r =>
        match elemLook (tag, r) s.elems with
        | none => (s, .fail)
        | some b => (s, .int ((b.length : Int) - 4))
  | .dfaddf t annref text =>
    match tagOfType t with
    | none => (s, .fail)
    | some tag => ({ s with elems := elemPut (tag, annref) text s.elems }, .ok)
  | .dfgetf t i maxlen =>
    match tagOfType t with
    | none => (s, .fail)
    | some tag =>
      match (s.elems.filter (fun p => p.1.1 == tag))[i]? with
      | none => (s, .fail)
      | some p => (s, .bytes (p.2.take (min (min p.2.length maxlen) (maxlen - 1))))

end H4.Annot
