import H4.Gen.Hdf
import H4.Gen.Mfan
import H4.Gen.Macros
/-! Model of the annotation layer (C11): `hdf/src/mfan.c` (multi-file `AN*` interface) and the parts of
    `hdf/src/dfan.c` (single-file `DFAN*` interface) that read and write the same four element kinds.

    * keys: `AN_CREATE_KEY` / `AN_KEY2REF` / `AN_KEY2TYPE` are the GENERATED translations of the C macros;
    * payload: `encodeAnn`/`decodeAnn` — object labels/descriptions carry a 4-byte big-endian target tag/ref prefix,
      file labels/descriptions are the bare text (`ANIwriteann`, `ANIreadann`, `DFANIputann`, `DFANIaddfann`);
    * state: the data elements of the file in DD order — a DD whose element was deleted (`Hdeldd`) stays in the list as
      a FREE DD (tag `DFTAG_NULL`) and is the first to be taken by the next new element (`HTPcreate`) — and the walk
      state of the single-file file-annotation interface (`Next_label_ref`, `Next_desc_ref`), and the four per-type TBBTs of
      `filerec_t.an_tree[]`, kept as ONE list ordered the way `tbbtfirst/tbbtnext` walk them.  `ANIanncmp` is
      an inverted comparison (returns -1 for "greater"), so the walk is by DESCENDING key. -/
namespace H4.Annot
open H4.Gen.Hdf H4.Gen.Mfan H4.Gen.Macros

abbrev Byte := UInt8
abbrev Bytes := List Byte

/-- the annotation tag of a type (`ANatype2tag`, the `switch`es of mfan.c); `none` = "Bad annotation type" -/
def tagOfType (t : Nat) : Option Nat :=
  if t = AN_DATA_LABEL then some TAG_DATA_LABEL
  else if t = AN_DATA_DESC then some TAG_DATA_DESC
  else if t = AN_FILE_LABEL then some TAG_FILE_LABEL
  else if t = AN_FILE_DESC then some TAG_FILE_DESC
  else none

/-- `ANtag2atype` -/
def typeOfTag (tag : Nat) : Option Nat :=
  if tag = TAG_DATA_LABEL then some AN_DATA_LABEL
  else if tag = TAG_DATA_DESC then some AN_DATA_DESC
  else if tag = TAG_FILE_LABEL then some AN_FILE_LABEL
  else if tag = TAG_FILE_DESC then some AN_FILE_DESC
  else none

def isDataType (t : Nat) : Bool := t == AN_DATA_LABEL || t == AN_DATA_DESC
def isLabelType (t : Nat) : Bool := t == AN_DATA_LABEL || t == AN_FILE_LABEL

def u16 (n : Nat) : Bytes := [UInt8.ofNat (n / 256), UInt8.ofNat n]

/-- the bytes of the annotation element: `UINT16ENCODE(tag); UINT16ENCODE(ref)` + text for object annotations,
    the text alone for file annotations -/
def encodeAnn (t : Nat) (target : Nat × Nat) (text : Bytes) : Bytes :=
  if isDataType t then u16 target.1 ++ u16 target.2 ++ text else text

/-- what the readers make of an element of type `t` whose own ref is `annref`
    (`ANIcreate_ann_tree` for the target, `ANIreadann` for the text); `none` = shorter than its 4-byte prefix -/
def decodeAnn (t : Nat) (selfTagRef : Nat × Nat) (b : Bytes) : Option ((Nat × Nat) × Bytes) :=
  if isDataType t then
    match b with
    | a :: b1 :: c :: d :: rest => some ((a.toNat * 256 + b1.toNat, c.toNat * 256 + d.toNat), rest)
    | _ => none
  else some (selfTagRef, b)

/-- `ANentry` -/
structure Entry where
  annref : Nat
  elmtag : Nat
  elmref : Nat
deriving Repr, DecidableEq

structure AnState where
  elems : List ((Nat × Nat) × Bytes) := []   -- data elements (tag, ref) ↦ bytes, in DD order; tag `DFTAG_NULL` = free DD
  tree : List (Nat × Entry) := []            -- all four TBBTs, walk order = descending key
  loaded : List Nat := []                    -- types whose `an_num[type] != -1`
  nextLab : Nat := 0                         -- dfan.c `static uint16 Next_label_ref` (per process, not per file)
  nextDesc : Nat := 0                        -- dfan.c `static uint16 Next_desc_ref`
  labDone : Bool := false                    -- dfan.c `static int Label_walk_done` (/repo 358eba8)
  descDone : Bool := false                   -- dfan.c `static int Desc_walk_done`
deriving Repr

def elemLook (k : Nat × Nat) : List ((Nat × Nat) × Bytes) → Option Bytes
  | [] => none
  | (k', v) :: r => if k' = k then some v else elemLook k r

/-- the DD of an existing tag/ref is reused (`HTPselect` + `HTPupdate`) -/
def elemSet (k : Nat × Nat) (v : Bytes) : List ((Nat × Nat) × Bytes) → List ((Nat × Nat) × Bytes)
  | [] => []
  | (k', v') :: r => if k' = k then (k, v) :: r else (k', v') :: elemSet k v r

/-- `HTPcreate`: a new tag/ref takes the FIRST free DD of the DD list (`HTIfind_dd(DFTAG_NULL, DFTAG_WILDCARD)`;
    `HTPdelete` resets the `ddnull` search hint, so the search starts at the head after every deletion), and only when
    there is none a DD behind all others (`HTInew_dd_block`) -/
def elemFill (k : Nat × Nat) (v : Bytes) : List ((Nat × Nat) × Bytes) → List ((Nat × Nat) × Bytes)
  | [] => [(k, v)]
  | (k', v') :: r => if k'.1 = DFTAG_NULL then (k, v) :: r else (k', v') :: elemFill k v r

/-- `Hputelement`/`Hstartwrite` on a tag/ref: replace in place (the DD is reused) or take a free / new DD -/
def elemPut (k : Nat × Nat) (v : Bytes) (l : List ((Nat × Nat) × Bytes)) : List ((Nat × Nat) × Bytes) :=
  if (elemLook k l).isSome then elemSet k v l else elemFill k v l

/-- `Hdeldd` → `HTPdelete`: the DD stays where it is in the DD list, its tag becomes `DFTAG_NULL`
    (`HTIunregister_tag_ref`); the ref number is free again for `Htagnewref` -/
def elemDel (k : Nat × Nat) : List ((Nat × Nat) × Bytes) → List ((Nat × Nat) × Bytes)
  | [] => []
  | (k', v') :: r => if k' = k then ((DFTAG_NULL, 0), []) :: r else (k', v') :: elemDel k r

/-- `Hstartread(file, tag, ref)`: `ref = DFREF_WILDCARD` attaches to the first DD (DD order) with the tag,
    otherwise to the DD of that tag/ref -/
def startRead (tag ref : Nat) (elems : List ((Nat × Nat) × Bytes)) : Option ((Nat × Nat) × Bytes) :=
  if ref = DFREF_WILDCARD then elems.find? (fun p => p.1.1 == tag)
  else (elemLook (tag, ref) elems).map (fun b => ((tag, ref), b))

/-- `Hnextread(aid, tag, DFREF_WILDCARD, DF_CURRENT)` on an access element attached to `(tag, ref)`:
    the ref of the next DD with the tag BEHIND that DD in the DD list -/
def afterRef (tag ref : Nat) : List ((Nat × Nat) × Bytes) → Option Nat
  | [] => none
  | p :: r => if p.1 = (tag, ref) then (r.find? (fun q => q.1.1 == tag)).map (·.1.2) else afterRef tag ref r

/-- `tbbtdins` with `ANIanncmp`: keep the walk order descending; `none` = key already present -/
def treeIns (key : Nat) (e : Entry) : List (Nat × Entry) → Option (List (Nat × Entry))
  | [] => some [(key, e)]
  | (k', e') :: r =>
    if key > k' then some ((key, e) :: (k', e') :: r)
    else if key = k' then none
    else (treeIns key e r).map ((k', e') :: ·)

def treeFind (key : Nat) : List (Nat × Entry) → Option Entry
  | [] => none
  | (k', e) :: r => if k' = key then some e else treeFind key r

/-- the entries of one type, in walk order -/
def ofType (t : Nat) (tree : List (Nat × Entry)) : List (Nat × Entry) := tree.filter (fun p => AN_KEY2TYPE p.1 == t)

/-- `ANIcreate_ann_tree`: read every element of the type's tag from the file, in DD order, and insert it -/
def loadType (s : AnState) (t : Nat) : AnState :=
  if s.loaded.contains t then s else
  match tagOfType t with
  | none => s
  | some tag =>
    let es := s.elems.filter (fun p => p.1.1 == tag)
    let tree := es.foldl (fun tr p =>
      match decodeAnn t (tag, p.1.2) p.2 with
      | none => tr
      | some (target, _) =>
        (treeIns (AN_CREATE_KEY t p.1.2) ⟨p.1.2, target.1, target.2⟩ tr).getD tr) s.tree
    { s with tree := tree, loaded := t :: s.loaded }

def countType (s : AnState) (t : Nat) : Nat := (ofType t s.tree).length

inductive Op where
  | start                                         -- `Hopen` of a file that is not open (new `filerec_t`) + `ANstart`: no tree loaded
  | endan                                         -- `ANend`; the file id stays open, the `filerec_t` lives on
  | restart                                       -- `ANstart` on a file id of a `filerec_t` that is still open
  | hput (tag ref : Nat) (b : Bytes)              -- `Hputelement` of an annotation (or any other) element through an open file id
  | hdel (tag ref : Nat)                          -- `Hdeldd`: the only way HDF4 offers to delete an annotation
  | fileinfo                                      -- `ANfileinfo`
  | create (t etag eref annref : Nat)             -- `ANcreate`/`ANcreatef`; `annref` = what `Htagnewref` returned
  | writeann (t annref : Nat) (text : Bytes)      -- `ANwriteann`
  | readann (t annref maxlen : Nat)               -- `ANreadann`
  | annlen (t annref : Nat)
  | numann (t etag eref : Nat)
  | annlist (t etag eref : Nat)
  | select (t : Nat) (index : Int)
  | gettagref (t : Nat) (index : Int)
  | tagref2id (tag ref : Nat)
  | rawelem (tag ref : Nat)                       -- `Hgetelement` of the annotation element
  | dfput (t etag eref annref : Nat) (text : Bytes)   -- `DFANputlabel`/`DFANputdesc`; `annref` = `DFANlastref()`
  | dfget (t etag eref maxlen : Nat)              -- `DFANgetlabel`/`DFANgetdesc`
  | dfgetlen (t etag eref : Nat)
  | dfaddf (t annref : Nat) (text : Bytes)        -- `DFANaddfid`/`DFANaddfds`
  | dfflen (t first : Nat)                        -- `DFANgetfidlen`/`DFANgetfdslen(file_id, isfirst)`
  | dffget (t first maxlen : Nat)                 -- `DFANgetfid`/`DFANgetfds(file_id, buf, maxlen, isfirst)`
  | dflablist (tag listsize maxlen startpos : Nat)    -- `DFANlablist`
deriving Repr, DecidableEq

inductive Out where
  | fail | ok
  | int (i : Int)
  | nats (l : List Nat)
  | bytes (b : Bytes)
  | read (b : Bytes) (written : Nat)     -- the text returned and how many bytes of the caller's buffer were written
  | lablist (refs : List Nat) (labels : List Bytes)   -- `DFANlablist`: reflist and the label (C string) of each entry
deriving Repr, DecidableEq

/-- `ANIreadann` / `DFANIgetann` on a text of `len` bytes with a caller buffer of `maxlen` bytes:
    (number of text bytes returned, number of buffer bytes WRITTEN).  The length is clipped to `maxlen` (labels:
    `maxlen - 1`), `Hread` is called only for a positive length (/repo d625c61; before that a clipped length of 0 was
    handed to `Hread`, for which 0 means "to the end of the element", and the whole text overran a 1-byte label
    buffer — finding `an-read-overrun`), labels then get a NUL at `ann[ann_len]`. -/
def readSpan (t len maxlen : Nat) : Nat × Nat :=
  let n := if isLabelType t then min len (maxlen - 1) else min len maxlen
  (n, if isLabelType t then n + 1 else n)

def indexed (t : Nat) (s : AnState) (index : Int) : Option Entry :=
  if index < 0 then none else ((ofType t s.tree)[index.toNat]?).map (·.2)

/-- first element (DD order) of tag `tag` whose 4-byte prefix names the target (`DFANIlocate`) -/
def dfLocate (tag : Nat) (target : Nat × Nat) (elems : List ((Nat × Nat) × Bytes)) : Option Nat :=
  (elems.find? (fun p => p.1.1 == tag && p.2.take 4 == u16 target.1 ++ u16 target.2)).map (·.1.2)

/-- `Next_label_ref` / `Next_desc_ref` -/
def nextOf (s : AnState) (t : Nat) : Nat := if t = AN_FILE_LABEL then s.nextLab else s.nextDesc
/-- `Label_walk_done` / `Desc_walk_done`: the file label / description `DFANIgetfann` read last was the last one -/
def doneOf (s : AnState) (t : Nat) : Bool := if t = AN_FILE_LABEL then s.labDone else s.descDone
def setNext (s : AnState) (t r : Nat) (done : Bool) : AnState :=
  if t = AN_FILE_LABEL then { s with nextLab := r, labDone := done } else { s with nextDesc := r, descDone := done }

/-- the bytes `DFANIgetfann` returns: `length = min(length, maxlen)` is read, then `length = min(length, maxlen - 1)` -/
def clipF (b : Bytes) (maxlen : Nat) : Bytes := b.take (min (min b.length maxlen) (maxlen - 1))

/-- `DFANIlablist`, label part: every entry of the label directory (object labels in DD order) whose target has the tag
    overwrites the label of its target's position in `reflist`, so the LAST label of an object is the one listed;
    `maxlen - 1` bytes of the text are read, none for `maxlen = 1` (/repo 380b3fd; before that the length 0 was handed
    to `Hread`, for which it means "to the end", and the whole label overran the caller's buffer — finding
    `dfan-lablist-overrun`) -/
def labFill (tag maxlen : Nat) (refs : List Nat) : List ((Nat × Nat) × Bytes) → List Bytes → List Bytes
  | [], acc => acc
  | p :: r, acc =>
    match decodeAnn AN_DATA_LABEL (0, 0) p.2 with
    | some (target, text) =>
      if target.1 = tag ∧ refs.idxOf target.2 < refs.length then
        labFill tag maxlen refs r (acc.set (refs.idxOf target.2) (text.take (maxlen - 1)))
      else labFill tag maxlen refs r acc
    | none => labFill tag maxlen refs r acc

def step (s : AnState) : Op → AnState × Out
  | .start => ({ s with tree := [], loaded := [] }, .ok)
  -- `ANend`: for EACH of the four types the tree is freed (`tbbtdfree`), its annotation atoms are removed, and
  -- `an_tree[type] = NULL; an_num[type] = -1` — nothing of the session survives in the file record
  | .endan => ({ s with tree := [], loaded := [] }, .ok)
  -- `ANstart`: `HIfid2rec` + `ANIinit`; the annotation state of the file record is not touched, so what the next
  -- session sees is whatever `ANend` (or `Hopen`) left there: nothing
  | .restart => (s, .ok)
  | .hput tag ref b => ({ s with elems := elemPut (tag, ref) b s.elems }, .ok)
  -- `Hdeldd`: `HTPselect` fails for a tag/ref that is not in the file
  | .hdel tag ref =>
    if tag = DFTAG_NULL ∨ (elemLook (tag, ref) s.elems).isNone then (s, .fail)
    else ({ s with elems := elemDel (tag, ref) s.elems }, .ok)
  | .fileinfo =>
    let s1 := loadType (loadType (loadType (loadType s AN_FILE_LABEL) AN_FILE_DESC) AN_DATA_LABEL) AN_DATA_DESC
    (s1, .nats [countType s1 AN_FILE_LABEL, countType s1 AN_FILE_DESC, countType s1 AN_DATA_LABEL, countType s1 AN_DATA_DESC])
  | .create t etag eref annref =>
    match tagOfType t with
    | none => (s, .fail)
    | some tag =>
      -- file annotations describe themselves
      let target := if isDataType t then (etag % 65536, eref % 65536) else (tag, annref)
      if target.1 = 0 ∨ target.2 = 0 then (s, .fail)
      else
        -- `ANIaddentry`: an unloaded tree is first built from the annotations already in the file
        -- (`ANIcreate_ann_tree`, /repo d4a30b4; before that it was created EMPTY and marked loaded, which hid every
        -- existing annotation of the type for the rest of the session — finding `an-create-hides`)
        let s1 := loadType s t
        match treeIns (AN_CREATE_KEY t annref) ⟨annref, target.1, target.2⟩ s1.tree with
        | none => (s1, .fail)
        | some tr => ({ s1 with tree := tr }, .ok)
  | .writeann t annref text =>
    -- /repo 3d2a8cf: an empty text is refused before anything is created (before that the zero-length
    -- `Hwrite`/`Hputelement` reported failure only after the element and its prefix existed — finding `an-write-empty`)
    if text.isEmpty then (s, .fail) else
    match tagOfType t, treeFind (AN_CREATE_KEY t annref) s.tree with
    | some tag, some e =>
      ({ s with elems := elemPut (tag, annref) (encodeAnn t (e.elmtag, e.elmref) text) s.elems }, .ok)
    | _, _ => (s, .fail)
  | .readann t annref maxlen =>
    match tagOfType t with
    | none => (s, .fail)
    | some tag =>
      match elemLook (tag, annref) s.elems with
      | none => (s, .fail)
      | some b =>
        let len := b.length - (if isDataType t then 4 else 0)
        let sp := readSpan t len maxlen
        (s, .read ((b.drop (if isDataType t then 4 else 0)).take sp.1) sp.2)
  | .annlen t annref =>
    match tagOfType t with
    | none => (s, .fail)
    | some tag =>
      match elemLook (tag, annref) s.elems with
      | none => (s, .fail)
      | some b => (s, .int ((b.length : Int) - (if isDataType t then 4 else 0)))
  | .numann t etag eref =>
    if ¬ isDataType t then (s, .fail) else
    let s1 := loadType s t
    (s1, .int ((ofType t s1.tree).filter (fun p => p.2.elmtag == etag && p.2.elmref == eref)).length)
  | .annlist t etag eref =>
    if ¬ isDataType t then (s, .fail) else
    let s1 := loadType s t
    (s1, .nats (((ofType t s1.tree).filter (fun p => p.2.elmtag == etag && p.2.elmref == eref)).map (·.2.annref)))
  | .select t index =>
    let s1 := loadType s t
    match indexed t s1 index with
    | none => (s1, .fail)
    | some e => (s1, .int e.annref)
  | .gettagref t index =>
    let s1 := loadType s t
    match indexed t s1 index, tagOfType t with
    | some e, some tag => (s1, .nats [tag, e.annref])
    | _, _ => (s1, .fail)
  | .tagref2id tag ref =>
    match typeOfTag tag with
    | none => (s, .fail)
    | some t =>
      let s1 := loadType s t
      match treeFind (AN_CREATE_KEY t ref) s1.tree with
      | none => (s1, .fail)
      | some _ => (s1, .ok)
  | .rawelem tag ref =>
    match elemLook (tag, ref) s.elems with
    | none => (s, .fail)
    | some b => (s, .bytes b)
  | .dfput t etag eref annref text =>
    match tagOfType t with
    | none => (s, .fail)
    | some tag =>
      if etag = 0 ∨ eref = 0 then (s, .fail) else
      let r := (dfLocate tag (etag, eref) s.elems).getD annref
      ({ s with elems := elemPut (tag, r) (encodeAnn t (etag, eref) text) s.elems }, .int r)
  | .dfget t etag eref maxlen =>
    match tagOfType t with
    | none => (s, .fail)
    | some tag =>
      match dfLocate tag (etag, eref) s.elems with
      | none => (s, .fail)
      | some r =>
        match elemLook (tag, r) s.elems with
        | none => (s, .fail)
        | some b =>
          let sp := readSpan t (b.length - 4) maxlen
          (s, .read ((b.drop 4).take sp.1) sp.2)
  | .dfgetlen t etag eref =>
    match tagOfType t with
    | none => (s, .fail)
    | some tag =>
      match dfLocate tag (etag, eref) s.elems with
      | none => (s, .fail)
      | some r =>
        match elemLook (tag, r) s.elems with
        | none => (s, .fail)
        | some b => (s, .int ((b.length : Int) - 4))
  | .dfaddf t annref text =>
    match tagOfType t with
    | none => (s, .fail)
    | some tag => ({ s with elems := elemPut (tag, annref) text s.elems }, .ok)
  -- `DFANIgetfannlen`: past the last one (`isfirst != 1` and the walk is marked done) nothing is reported; else
  -- `Hstartread(file_id, anntag, isfirst == 1 ? DFREF_WILDCARD : Next_???_ref)`; on success `Next_???_ref = annref`
  -- (the ref found), so that the `DFANgetfid` that follows reads the same annotation, and the walk is not done
  | .dfflen t first =>
    match tagOfType t with
    | none => (s, .fail)
    | some tag =>
      if isDataType t then (s, .fail) else
      if first ≠ 1 ∧ doneOf s t = true then (s, .fail) else
      match startRead tag (if first = 1 then DFREF_WILDCARD else nextOf s t) s.elems with
      | none => (s, .fail)
      | some p => (setNext s t p.1.2 false, .int p.2.length)
  -- `DFANIgetfann`: the same guard and lookup, the read, then "prepare for next call": `Hnextread(aid, anntag,
  -- DFREF_WILDCARD, DF_CURRENT)` finds the next annotation of the tag BEHIND this one in the DD list and its ref becomes
  -- `Next_???_ref`; when there is none the walk is marked done (`Next_???_ref = (uint16)(annref + 1)` is kept but is no
  -- longer what ends the walk: before /repo 358eba8 it was, and the walk went round again whenever an annotation with
  -- that ref existed or the value wrapped to 0 = `DFREF_WILDCARD` — finding `dfan-walk-endless`)
  | .dffget t first maxlen =>
    match tagOfType t with
    | none => (s, .fail)
    | some tag =>
      if isDataType t then (s, .fail) else
      if first ≠ 1 ∧ doneOf s t = true then (s, .fail) else
      match startRead tag (if first = 1 then DFREF_WILDCARD else nextOf s t) s.elems with
      | none => (s, .fail)
      | some p =>
        match afterRef tag p.1.2 s.elems with
        | some r => (setNext s t r false, .bytes (clipF p.2 maxlen))
        | none => (setNext s t ((p.1.2 + 1) % 65536) true, .bytes (clipF p.2 maxlen))
  -- `DFANIlablist`: `reflist` = the refs of the objects with the tag in DD order, from position `startpos` (1-based),
  -- at most `listsize`; fails when the file holds no object of the tag (`Hstartread` fails)
  | .dflablist tag listsize maxlen startpos =>
    let objs := (s.elems.filter (fun p => p.1.1 == tag)).map (·.1.2)
    if tag = 0 ∨ objs.isEmpty then (s, .fail) else
    let refs := (objs.drop (startpos - 1)).take listsize
    (s, .lablist refs (labFill tag maxlen refs (s.elems.filter (fun p => p.1.1 == TAG_DATA_LABEL)) (refs.map (fun _ => []))))

end H4.Annot
