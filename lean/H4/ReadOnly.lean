import H4.Gen.Hdf
import H4.Gen.RO
import H4.Gen.Src
import H4.Gen.Macros
/-! # H-layer access-control model (C14: read-only access never alters a file)

Model of the permission checks and of every path to a physical write in `hdf/src/hfile.c`, `hfiledd.c`
(+ the entry checks of `hblocks.c HLcreate/HLconvert/HLIstaccess`, `hextelt.c HXcreate/HXIstaccess`,
`hcomp.c HCcreate/HCIstaccess`, `hchunks.c HMCcreate/HMCIstaccess`).

State = ONE file record (`filerec_t`, shared by all file ids of that path as in `Hopen`), the byte image of the
file it is attached to, the live file ids and access records (`accrec_t`), the external files, and the WRITE LOG.

* every primitive write of the H layer (`HP_write` after `HPseek`) goes through `hpWrite`: the request is appended
  to `log` whatever the stream mode (this is what `harness/wrap.h` records) and reaches `disk` only when the stdio
  stream was opened for update (`streamW`; an `"rb"` stream refuses the `fwrite`);
* `Cfg` carries five facts that Tie A reads from the TEXT of the functions (`H4.Gen.Src`): whether `Hdeldd`,
  `Hdupdd`, `HDreuse_tagref`, `Hsetlength` test `DFACC_WRITE`, and whether the "reopen for writing" branch of `Hopen`
  records the write access it gained.  The theorems of `Props/C14.lean` are stated for every `cfg` with the checks
  present and are instantiated at `Cfg.current`; for a `cfg` without a check the refusal theorem is FALSE (witnesses there).
* DD blocks are decoded from the byte image by `Hopen` (`HTPstart`) and written back byte-exactly (`HTIupdate_dd`,
  `HTPsync`, `HTInew_dd_block`, `HPgetdiskblock`, `HIextend_file`, `Hwrite`).

NOT modelled (result `pass` = "every argument/access guard of the C function was passed; what follows is outside this
model"): the bodies of `HLcreate`, `HLconvert`, `HXcreate`, `HCcreate`, `HMCcreate` after their access check, reads and
writes THROUGH a special element (`special_func->read/write`), `DFACC_CREATE` opens, OS-level open failures,
wildcard searches starting from a previous match, duplicate-DD detection of `HTIregister_tag_ref`, the error stack.

ASSUMPTION (reduction for the upper layers, checked by engine `ro`, not proved): the V/VS/SD/GR/AN interfaces reach
the file (and external files) only through the H operations below, i.e. through `hpWrite`/`extWrite`.
-/
namespace H4.ReadOnly
open H4.Gen.Hdf H4.Gen.Macros
open H4.Gen.RO (DFACC_CURRENT DDLIST_DIRTY FILE_END_DIRTY DFREF_NONE)

abbrev Bytes := List UInt8

/-! ## configuration read from the source text (Tie A) -/

structure Cfg where
  hdelddChecks : Bool
  hdupddChecks : Bool
  hreuseChecks : Bool
  hsetlengthChecks : Bool
  reopenSetsAccess : Bool
  /-- `HLcreate` / `HLconvert` refuse a block length or a number of blocks per table that is not positive (with 0 blocks
      `HLInewlink` writes beyond its 0-element table; with a block length of 0 `HLPwrite` divides by zero) -/
  hlRefusesZero : Bool := true
deriving DecidableEq, Repr

/-- what the current source says -/
def Cfg.current : Cfg :=
  { hdelddChecks := H4.Gen.Src.HDELDD_CHECKS_ACCESS, hdupddChecks := H4.Gen.Src.HDUPDD_CHECKS_ACCESS,
    hreuseChecks := H4.Gen.Src.HDREUSE_CHECKS_ACCESS, hsetlengthChecks := H4.Gen.Src.HSETLENGTH_CHECKS_ACCESS,
    reopenSetsAccess := H4.Gen.Src.HOPEN_REOPEN_SETS_ACCESS,
    hlRefusesZero := H4.Gen.Src.HLCREATE_REFUSES_ZERO && H4.Gen.Src.HLCONVERT_REFUSES_ZERO }

/-- every mutator of the DD layer tests `DFACC_WRITE` -/
def Cfg.guarded (c : Cfg) : Bool := c.hdelddChecks && c.hdupddChecks && c.hreuseChecks && c.hsetlengthChecks

/-! ## bytes -/

def be16 (n : Nat) : Bytes := [UInt8.ofNat (n / 256 % 256), UInt8.ofNat (n % 256)]
def be32 (n : Nat) : Bytes :=
  [UInt8.ofNat (n / 16777216 % 256), UInt8.ofNat (n / 65536 % 256), UInt8.ofNat (n / 256 % 256), UInt8.ofNat (n % 256)]
/-- two's complement bit pattern of an `int32` -/
def i32 (x : Int) : Nat := (x % 4294967296).toNat
def rd8 (d : Bytes) (o : Nat) : Nat := (d.getD o 0).toNat
def rd16 (d : Bytes) (o : Nat) : Nat := rd8 d o * 256 + rd8 d (o + 1)
def rd32 (d : Bytes) (o : Nat) : Nat := rd16 d o * 65536 + rd16 d (o + 2)
def s16 (n : Nat) : Int := if n ≥ 32768 then (n : Int) - 65536 else n
def s32 (n : Nat) : Int := if n ≥ 2147483648 then (n : Int) - 4294967296 else n

/-- POSIX write at an offset: a gap beyond the end is filled with zeros -/
def writeAt (d : Bytes) (off : Nat) (bs : Bytes) : Bytes :=
  let d := if d.length < off then d ++ List.replicate (off - d.length) 0 else d
  d.take off ++ bs ++ d.drop (off + bs.length)

/-! ## data descriptors -/

/-- `dd_t` -/
structure DD where
  tag : Nat
  ref : Nat
  off : Int
  len : Int
deriving DecidableEq, Repr, Inhabited

/-- the NIL descriptor of `HTPinit`/`HTInew_dd_block` -/
def nullDD : DD := ⟨DFTAG_NULL, DFREF_NONE, INVALID_OFFSET, INVALID_LENGTH⟩

/-- `DDENCODE` -/
def DD.encode (d : DD) : Bytes := be16 d.tag ++ be16 d.ref ++ be32 (i32 d.off) ++ be32 (i32 d.len)
/-- `DDDECODE` at byte offset `o` -/
def DD.decode (b : Bytes) (o : Nat) : DD := ⟨rd16 b o, rd16 b (o + 2), s32 (rd32 b (o + 4)), s32 (rd32 b (o + 8))⟩

/-- `ddblock_t`; `ndds` = `dds.length` -/
structure Block where
  myoff : Nat
  nextoff : Nat
  dirty : Bool
  dds : List DD
deriving DecidableEq, Repr, Inhabited

def ddHdr : Nat := NDDS_SZ + OFFSET_SZ

/-- a position in the DD list: (block index, slot index) — the `dd_t *` of the C code -/
abbrev Slot := Nat × Nat

def slotDD (bl : List Block) (p : Slot) : DD := ((bl.getD p.1 default).dds.getD p.2 nullDD)

def setSlot (bl : List Block) (p : Slot) (d : DD) (mkDirty : Bool) : List Block :=
  bl.modify p.1 (fun b => { b with dds := b.dds.set p.2 d, dirty := b.dirty || mkDirty })

/-- all slots in list order -/
def allSlots (bl : List Block) : List (Slot × DD) :=
  (bl.zipIdx).flatMap (fun (b, i) => (b.dds.zipIdx).map (fun (d, j) => ((i, j), d)))

/-- the tag tree lookup shared by `HTPselect` and `HTIfind_dd` (no wildcards): the DD whose BASE tag and ref match -/
def findDD (bl : List Block) (tag ref : Nat) : Option (Slot × DD) :=
  (allSlots bl).find? (fun (_, d) => d.tag != DFTAG_NULL && BASETAG d.tag == BASETAG tag && d.ref == ref)

/-- `HTIfind_dd(..., DF_FORWARD)` from the start of the list, wildcards allowed (`Hfind` with `*find_tag = *find_ref = 0`) -/
def hfindFirst (bl : List Block) (tag ref : Nat) : Option (Slot × DD) :=
  if tag != DFTAG_WILDCARD && ref != DFREF_WILDCARD then findDD bl tag ref
  else if tag == DFTAG_WILDCARD && ref == DFREF_WILDCARD then (allSlots bl).find? (fun (_, d) => d.tag != DFTAG_NULL)
  else if tag == DFTAG_WILDCARD then (allSlots bl).find? (fun (_, d) => d.tag != DFTAG_NULL && d.ref == ref)
  else
    let sp := MKSPECIALTAG tag
    (allSlots bl).find? (fun (_, d) => (d.tag != DFTAG_NULL || tag == DFTAG_NULL) &&
      (d.tag == tag || (sp != DFTAG_NULL && d.tag == sp)))

/-! ## state -/

structure WriteRec where
  /-- 0 = the HDF file, `k+1` = external file number `k` -/
  stream : Nat
  off : Nat
  bytes : Bytes
deriving DecidableEq, Repr

/-- `filerec_t` together with the bytes of the file -/
structure File where
  disk : Bytes
  /-- `file_rec->file` was opened for update (`"rb+"`); `false` = `"rb"` -/
  streamW : Bool := false
  access : Nat := 0
  blocks : List Block := []
  cache : Bool := false
  dirty : Nat := 0
  endOff : Nat := 0
  refcount : Nat := 0
  attach : Nat := 0
  maxref : Nat := 0
  /-- `ddnull`, `ddnull_idx` -/
  ddnull : Option (Nat × Int) := none
  verMod : Bool := false
  verSet : Bool := false
  ver : Nat × Nat × Nat := (0, 0, 0)
deriving Repr

/-- `accrec_t` -/
structure Acc where
  aid : Nat
  fid : Nat
  slot : Slot
  access : Nat
  newElem : Bool
  appendable : Bool
  special : Nat
  posn : Nat
deriving DecidableEq, Repr, Inhabited

structure State where
  f : File
  /-- live file ids (FIDGROUP atoms of this record) -/
  fids : List Nat := []
  nfid : Nat := 0
  accs : List Acc := []
  naid : Nat := 0
  /-- external files: (name, content); a name that is absent does not exist -/
  exts : List (Nat × Bytes) := []
  log : List WriteRec := []
deriving Repr

/-- the file with byte image `disk` before any `Hopen` -/
def State.closed (disk : Bytes) (exts : List (Nat × Bytes) := []) : State := { f := { disk := disk }, exts := exts }

inductive Res where
  | fail
  | ok
  | id (n : Nat)
  | num (n : Int)
  | pass          -- every guard passed; the rest of the C function is not modelled
deriving DecidableEq, Repr, Inhabited

def Res.isFail : Res → Bool
  | .fail => true
  | _ => false

/-! ## physical I/O -/

/-- `HPseek(off)` + `HP_write(bytes)`: the ONE primitive write to the HDF file -/
def hpWrite (s : State) (off : Nat) (bs : Bytes) : State × Bool :=
  let s := { s with log := s.log ++ [(⟨0, off, bs⟩ : WriteRec)] }
  if s.f.streamW then ({ s with f := { s.f with disk := writeAt s.f.disk off bs } }, true) else (s, false)

/-- `HPseek(off)` + `HP_read(n)`.  The file may end inside the range: with DD caching on, space handed out by
    `HPgetdiskblock` in this session lies below `f_end_off` while the file is only extended at the next sync
    (`FILE_END_DIRTY`); such bytes are delivered as zeros (`H4.Gen.Src.HPREAD_ZERO_FILLS_RESERVED`, af826f2).  Every other
    short read is `none` (an error).  No write is issued either way. -/
def hpRead (s : State) (off n : Nat) : Option Bytes :=
  if n == 0 then some []                       -- a read of nothing succeeds wherever the stream stands
  else if off + n ≤ s.f.disk.length then some ((s.f.disk.drop off).take n)
  else if s.f.cache && s.f.dirty &&& FILE_END_DIRTY != 0 && off + n ≤ s.f.endOff then
    let got := (s.f.disk.drop off).take n
    some (got ++ List.replicate (n - got.length) 0)
  else none

/-! ## DD list in memory and on disk -/

/-- `HTPstart`: decode the chain of DD blocks; `fuel` bounds the walk (a cyclic chain makes the C loop forever) -/
def readBlocks (d : Bytes) : Nat → Nat → Option (List Block)
  | 0, _ => none
  | fuel + 1, off =>
    if off + ddHdr > d.length then none
    else
      let ndds := s16 (rd16 d off)
      if ndds ≤ 0 then none
      else
        let n := ndds.toNat
        let next := rd32 d (off + NDDS_SZ)
        if off + ddHdr + n * DD_SZ > d.length then none
        else
          let b : Block := ⟨off, next, false, (List.range n).map (fun i => DD.decode d (off + ddHdr + i * DD_SZ))⟩
          if next != 0 then (readBlocks d fuel next).map (b :: ·) else some [b]

/-- `end_off` of `HTPstart`: the largest block end / element end -/
def endOfBlocks (bl : List Block) : Nat :=
  bl.foldl (fun e b =>
    let e := max e (b.myoff + ddHdr + b.dds.length * DD_SZ)
    b.dds.foldl (fun e d => if d.off + d.len > (e : Int) then (d.off + d.len).toNat else e) e) 0

def maxRefOf (bl : List Block) : Nat := bl.foldl (fun m b => b.dds.foldl (fun m d => max m d.ref) m) 0

/-- `HTIupdate_dd` for the slot `p` (already changed in memory) -/
def updateDD (s : State) (p : Slot) : State × Bool :=
  let dd := slotDD s.f.blocks p
  let r : State × Bool :=
    if s.f.cache then
      ({ s with f := { s.f with dirty := s.f.dirty ||| DDLIST_DIRTY,
                                blocks := s.f.blocks.modify p.1 (fun b => { b with dirty := true }) } }, true)
    else
      hpWrite s ((s.f.blocks.getD p.1 default).myoff + ddHdr + p.2 * DD_SZ) dd.encode
  if !r.2 then r
  else
    let s := r.1
    if dd.off != INVALID_OFFSET && dd.len != INVALID_LENGTH && dd.off + dd.len > (s.f.endOff : Int) then
      ({ s with f := { s.f with endOff := (dd.off + dd.len).toNat } }, true)
    else (s, true)

/-- `HTPupdate(ddid, new_off, new_len)`; `-2` = leave unchanged -/
def htpUpdate (s : State) (p : Slot) (newOff newLen : Int) : State × Bool :=
  let dd := slotDD s.f.blocks p
  let dd := { dd with len := if newLen != -2 then newLen else dd.len, off := if newOff != -2 then newOff else dd.off }
  updateDD { s with f := { s.f with blocks := setSlot s.f.blocks p dd false } } p

/-- the body of one block as `HTPsync` writes it -/
def Block.encode (b : Block) : Bytes := be16 b.dds.length ++ be32 b.nextoff ++ b.dds.flatMap DD.encode

/-- `HTPsync`: write every dirty block (header, then the DD list) -/
def htpSyncFrom (s : State) : Nat → Nat → State × Bool
  | 0, _ => (s, true)
  | n + 1, i =>
    let b := s.f.blocks.getD i default
    if b.dirty then
      let r := hpWrite s b.myoff (be16 b.dds.length ++ be32 b.nextoff)
      if !r.2 then r
      else
        let r := hpWrite r.1 (b.myoff + ddHdr) (b.dds.flatMap DD.encode)
        if !r.2 then r
        else
          let s := r.1
          htpSyncFrom { s with f := { s.f with blocks := s.f.blocks.modify i (fun b => { b with dirty := false }) } } n (i + 1)
    else htpSyncFrom s n (i + 1)

def htpSync (s : State) : State × Bool :=
  if s.f.blocks.isEmpty then (s, false) else htpSyncFrom s s.f.blocks.length 0

/-- `HIextend_file`: one zero byte at `f_end_off` -/
def extendFile (s : State) : State × Bool := hpWrite s s.f.endOff [0]

/-- `HIsync` -/
def hiSync (s : State) : State × Bool :=
  if s.f.cache && s.f.dirty != 0 then
    let r := if s.f.dirty &&& DDLIST_DIRTY != 0 then htpSync s else (s, true)
    if !r.2 then r
    else
      let r := if r.1.f.dirty &&& FILE_END_DIRTY != 0 then extendFile r.1 else r
      if !r.2 then r
      else ({ r.1 with f := { r.1.f with dirty := 0 } }, true)
  else (s, true)

/-- `HPgetdiskblock(file_rec, size, moveto)`: returns the offset of the block -/
def getDiskBlock (s : State) (size : Nat) : State × Option Nat :=
  let off := s.f.endOff
  let r : State × Bool :=
    if size > 0 then
      if s.f.cache then ({ s with f := { s.f with dirty := s.f.dirty ||| FILE_END_DIRTY } }, true)
      else hpWrite s (off + size - 1) [0]
    else (s, true)
  if !r.2 then (r.1, none)
  else ({ r.1 with f := { r.1.f with endOff := r.1.f.endOff + size } }, some off)

/-- `HTInew_dd_block` -/
def newDDBlock (s : State) : State × Bool :=
  match s.f.blocks.getLast? with
  | none => (s, false)
  | some last =>
    let ndds := (s.f.blocks.headD default).dds.length
    let (s, o) := getDiskBlock s (ddHdr + ndds * DD_SZ)
    match o with
    | none => (s, false)
    | some off =>
      let nb : Block := ⟨off, 0, s.f.cache, List.replicate ndds nullDD⟩
      let s := if s.f.cache then { s with f := { s.f with dirty := s.f.dirty ||| DDLIST_DIRTY } } else s
      let r := hpWrite s off (be16 ndds ++ be32 0)
      if !r.2 then r
      else
        let r := hpWrite r.1 (off + ddHdr) ((List.replicate ndds nullDD).flatMap DD.encode)
        if !r.2 then r
        else
          let s := r.1
          let li := s.f.blocks.length - 1
          -- update the previously last block to point to the new one
          let blocks := s.f.blocks.modify li (fun b => { b with nextoff := off })
          let r : State × Bool :=
            if s.f.cache then
              ({ s with f := { s.f with dirty := s.f.dirty ||| DDLIST_DIRTY,
                                        blocks := blocks.modify li (fun b => { b with dirty := true }) } }, true)
            else
              hpWrite { s with f := { s.f with blocks := blocks } } (last.myoff + NDDS_SZ) (be32 off)
          if !r.2 then r
          else
            let s := r.1
            ({ s with f := { s.f with blocks := s.f.blocks ++ [nb], endOff := off + ddHdr + ndds * DD_SZ } }, true)

/-- the `DFTAG_NULL` search of `HTIfind_dd`: first NIL slot at or after the remembered position -/
def findNull (f : File) : Option Slot :=
  let start : Nat × Nat := match f.ddnull with
    | none => (0, 0)
    | some (b, i) => (b, if i < 0 then 0 else i.toNat + 1)
  ((allSlots f.blocks).find? (fun (p, d) => d.tag == DFTAG_NULL && (p.1 > start.1 || (p.1 == start.1 && p.2 ≥ start.2)))).map (·.1)

/-- `Hfind` from the start of the list on a file record.  `HTIfind_dd`'s "special case for quick lookup of empty DD's"
    (`look_tag == DFTAG_NULL && look_ref == DFTAG_WILDCARD`) searches from the free-slot cursor AND MOVES IT to the slot found:
    an inquiry for the NULL tag makes the next `HTPcreate` skip that free descriptor. -/
def hfind (f : File) (tag ref : Nat) : Option (Slot × DD) × Option (Nat × Int) :=
  if tag == DFTAG_NULL && ref == DFREF_WILDCARD then
    match findNull f with
    | some p => (some (p, slotDD f.blocks p), some (p.1, (p.2 : Int)))
    | none => (none, f.ddnull)
  else (hfindFirst f.blocks tag ref, f.ddnull)

/-- `HTPcreate(file_rec, tag, ref)`: the slot of the new DD -/
def htpCreate (s : State) (tag ref : Nat) : State × Option Slot :=
  if tag == DFTAG_NULL || tag == DFTAG_WILDCARD || ref == DFREF_WILDCARD then (s, none)
  else
    let r : State × Option Slot := match findNull s.f with
      | some p => ({ s with f := { s.f with ddnull := some (p.1, (p.2 : Int)) } }, some p)
      | none =>
        let r := newDDBlock s
        if r.2 then (r.1, some (r.1.f.blocks.length - 1, 0)) else (r.1, none)
    match r with
    | (s, none) => (s, none)
    | (s, some p) =>
      let s := { s with f := { s.f with blocks := setSlot s.f.blocks p ⟨tag, ref, INVALID_OFFSET, INVALID_LENGTH⟩ false } }
      let r := updateDD s p
      if r.2 then (r.1, some p) else (r.1, none)

/-- `HTPdelete` on the slot: `HTIunregister_tag_ref` sets the TAG to `DFTAG_NULL` (ref, offset and length stay), then
    `HTIupdate_dd` writes / dirties the nulled descriptor (order of fix 5bd49ce) -/
def htpDelete (s : State) (p : Slot) : State × Bool :=
  let dd := slotDD s.f.blocks p
  updateDD { s with f := { s.f with ddnull := none, blocks := setSlot s.f.blocks p { dd with tag := DFTAG_NULL } false } } p

/-! ## version record -/

def libVer : Nat × Nat × Nat := (LIBVER_MAJOR, LIBVER_MINOR, LIBVER_RELEASE)

def verLess (a b : Nat × Nat × Nat) : Bool :=
  b.1 > a.1 || (b.1 == a.1 && b.2.1 > a.2.1) || (b.1 == a.1 && b.2.1 == a.2.1 && b.2.2 > a.2.2)

/-- `HIcheckfileversion` -/
def checkFileVersion (f : File) : File :=
  let f := if verLess f.ver libVer then { f with ver := libVer, verMod := true } else f
  { f with verSet := true }

/-! ## access records -/

def badFrec (s : State) (fid : Nat) : Bool := !s.fids.contains fid || s.f.refcount == 0

def findAcc (s : State) (aid : Nat) : Option Acc := s.accs.find? (fun a => a.aid == aid)

def setAcc (s : State) (a : Acc) : State := { s with accs := s.accs.map (fun x => if x.aid == a.aid then a else x) }

def dropAcc (s : State) (aid : Nat) : State := { s with accs := s.accs.filter (fun a => a.aid != aid) }

def canWrite (f : File) : Bool := f.access &&& DFACC_WRITE != 0

/-- special code in the first two bytes of a special element (`HIget_function_table`); 0 = unknown -/
def specialCode (s : State) (dd : DD) : Nat :=
  match hpRead s dd.off.toNat 2 with
  | some b =>
    let c := rd16 b 0
    if c == SPECIAL_LINKED || c == SPECIAL_EXT || c == SPECIAL_COMP || c == SPECIAL_CHUNKED ||
       c == SPECIAL_BUFFERED || c == SPECIAL_COMPRAS then c else 0
  | none => 0

/-- `file_rec->ddnull`, `ddnull_idx` := c -/
def setCursor (s : State) (c : Option (Nat × Int)) : State := { s with f := { s.f with ddnull := c } }

/-- the DD `Hstartaccess` works on: the one `Hfind` returns, else the (tag, ref) asked for with INVALID offset/length -/
def saTarget (found : Option (Slot × DD)) (tag ref : Nat) : Nat × Nat × Int × Int :=
  match found with
  | some (_, d) => (d.tag, d.ref, d.off, d.len)
  | none => (tag, ref, INVALID_OFFSET, INVALID_LENGTH)

/-- `HTPselect(file_rec, new_tag, new_ref)` -/
def saSelect (bl : List Block) (ntag nref : Nat) : Option (Slot × DD) :=
  if ntag == DFTAG_NULL || ntag == DFTAG_WILDCARD || nref == DFREF_WILDCARD then none else findDD bl ntag nref

/-- tail of `Hstartaccess` for an ordinary element: fill in the access record, `attach++`, `maxref`, first-access version
    check, register the access id -/
def openAcc (s : State) (fid : Nat) (p : Slot) (flags : Nat) (ddnew : Bool) (nref : Nat) : State × Res :=
  let a : Acc := ⟨s.naid, fid, p, flags, ddnew, flags &&& DFACC_APPENDABLE != 0, 0, 0⟩
  let f := { s.f with attach := s.f.attach + 1, maxref := max s.f.maxref nref }
  let f := if !f.verSet then checkFileVersion f else f
  ({ s with f := f, accs := s.accs ++ [a], naid := s.naid + 1 }, .id a.aid)

/-- special element: `HIget_function_table`, then `stread` / `stwrite` (`HLIstaccess`, `HXIstaccess`, `HCIstaccess`,
    `HMCIstaccess`: "BADFREC(file_rec) || !(file_rec->access & acc_mode)") -/
def openSpecial (s : State) (fid : Nat) (p : Slot) (dd : DD) (flags : Nat) : State × Res :=
  let code := specialCode s dd
  if code == 0 then (s, .fail)
  else
    let mode := if flags &&& DFACC_WRITE == 0 then DFACC_READ else DFACC_WRITE
    if s.f.access &&& mode == 0 then (s, .fail)
    else
      let a : Acc := ⟨s.naid, fid, p, mode ||| DFACC_READ, false, flags &&& DFACC_APPENDABLE != 0, code, 0⟩
      ({ s with f := { s.f with attach := s.f.attach + 1 }, accs := s.accs ++ [a], naid := s.naid + 1 }, .id a.aid)

/-- `Hstartaccess(file_id, tag, ref, flags)` -/
def startAccess (s : State) (fid tag ref flags : Nat) : State × Res :=
  if badFrec s fid then (s, .fail)
  -- "If writing, can we write to this file?"
  else if flags &&& DFACC_WRITE != 0 && !canWrite s.f then (s, .fail)
  else
    -- "flags & DFACC_CURRENT || Hfind(...) == FAIL"; Hfind may move the free-slot cursor
    let fr := if flags &&& DFACC_CURRENT != 0 then (none, s.f.ddnull) else hfind s.f tag ref
    let s := setCursor s fr.2
    let tgt := saTarget fr.1 tag ref
    match saSelect s.f.blocks tgt.1 tgt.2.1 with
    | none =>
      -- "can't create data elements with only read access"
      if flags &&& DFACC_WRITE == 0 then (s, .fail)
      else
        match htpCreate s tgt.1 tgt.2.1 with
        | (s, none) => (s, .fail)
        | (s, some p) => openAcc s fid p flags true tgt.2.1
    | some (p, dd) =>
      if SPECIALTAG tag == 0 && SPECIALTAG dd.tag != 0 then openSpecial s fid p dd flags
      else openAcc s fid p flags (tgt.2.2.1 == INVALID_OFFSET && tgt.2.2.2 == INVALID_LENGTH) tgt.2.1

/-- `file_rec->attach--` -/
def decAttach (s : State) : State := { s with f := { s.f with attach := s.f.attach - 1 } }

/-- `Hendaccess(aid)` (the special `endaccess` functions release the record and decrement `attach` the same way) -/
def endAccess (s : State) (aid : Nat) : State × Res :=
  match findAcc s aid with
  | none => (s, .fail)
  | some a =>
    if a.special == 0 && badFrec s a.fid then (dropAcc s aid, .fail)
    else (decAttach (dropAcc s aid), .ok)

/-- `HIrefresh_new` (fix 7f7ac10): "new" is a property of the element's DD — another access record may have given the element a
    length since this one was opened; the flag of the record is corrected (and stays corrected) -/
def refreshNew (s : State) (a : Acc) : Acc :=
  let dd := slotDD s.f.blocks a.slot
  if a.newElem && a.special == 0 && !(dd.off == INVALID_OFFSET && dd.len == INVALID_LENGTH) then { a with newElem := false } else a

/-- a run of zero bytes written in pieces of at most 512 (the `zeros[512]` loop of `Hwrite`), one `HP_write` each -/
def zeroFill (s : State) (off : Nat) : Nat → Nat → State × Bool
  | 0, _ => (s, true)
  | fuel + 1, gap =>
    if gap == 0 then (s, true)
    else
      let n := min gap 512
      let r := hpWrite s off (List.replicate n 0)
      if !r.2 then r else zeroFill r.1 (off + n) fuel (gap - n)

/-- `Hsetlength(aid, length)` -/
def setLength (cfg : Cfg) (s : State) (aid : Nat) (len : Nat) : State × Res :=
  match findAcc s aid with
  | none => (s, .fail)
  | some a0 =>
    let a := refreshNew s a0
    let s := setAcc s a
    if !a.newElem then (s, .fail)
    else if cfg.hsetlengthChecks && a.access &&& DFACC_WRITE == 0 then (s, .fail)
    else if badFrec s a.fid then (s, .fail)
    else
      match getDiskBlock s len with
      | (s, none) => (s, .fail)
      | (s, some off) =>
        let r := htpUpdate s a.slot off len
        if !r.2 then (r.1, .fail)
        else (setAcc r.1 { a with newElem := false }, .ok)

/-- `HLconvert(aid, ...)`: argument and access checks only (no state change in the model) -/
def hlConvert (cfg : Cfg) (s : State) (aid : Nat) : Res :=
  match findAcc s aid with
  | none => .fail
  | some a =>
    let dd := slotDD s.f.blocks a.slot
    if badFrec s a.fid then .fail
    else if !canWrite s.f then .fail
    else if SPECIALTAG dd.tag != 0 then .fail
    -- "the data doesn't exist yet": `Hsetlength(aid, 0)` has to succeed first (it tests the access record's DFACC_WRITE)
    else if dd.off == INVALID_OFFSET && dd.len == INVALID_LENGTH && (setLength cfg s aid 0).2 == .fail then .fail
    else .pass

/-- `Hseek(aid, offset, origin)` on an ordinary element; `pass` on a special one -/
def seek (cfg : Cfg) (s : State) (aid : Nat) (offset : Int) (origin : Nat) : State × Res :=
  match findAcc s aid with
  | none => (s, .fail)
  | some a =>
    if origin != DF_START && origin != DF_CURRENT && origin != DF_END then (s, .fail)
    else if a.special != 0 then (s, .pass)
    else
      let dd := slotDD s.f.blocks a.slot
      let offset := if origin == DF_CURRENT then offset + a.posn else if origin == DF_END then offset + dd.len else offset
      if offset == (a.posn : Int) then (s, .ok)
      else if offset < 0 || (!a.appendable && offset > dd.len) then (s, .fail)
      else if a.appendable && offset ≥ dd.len && dd.len + dd.off != (s.f.endOff : Int) then
        -- not at the end of the file: promotion to a linked-block element
        if hlConvert cfg s aid == .pass then (setAcc s { a with special := SPECIAL_LINKED, appendable := false }, .pass)
        else (setAcc s { a with appendable := false }, .fail)
      else (setAcc s { a with posn := offset.toNat }, .ok)

/-- `Hread(aid, length, data)`: number of bytes, `pass` on a special element -/
def read (s : State) (aid : Nat) (len : Int) : State × Res :=
  match findAcc s aid with
  | none => (s, .fail)
  | some a0 =>
    let a := refreshNew s a0
    let s := setAcc s a
    if a.newElem then (s, .fail)
    else if a.special != 0 then (s, .pass)
    else if badFrec s a.fid then (s, .fail)
    else if len < 0 then (s, .fail)
    else
      let dd := slotDD s.f.blocks a.slot
      let len := if len == 0 || len + a.posn > dd.len then dd.len - a.posn else len
      -- "Hseek allows a position beyond the end of an appendable element: nothing to read there" (fix 21b8ab5)
      let len := if len < 0 then 0 else len
      -- `HPseek` to a negative file offset (descriptor invalidated under the record by `HDreuse_tagref`) fails
      if (a.posn : Int) + dd.off < 0 then (s, .fail) else
      match hpRead s (a.posn + dd.off).toNat len.toNat with
      | none => (s, .fail)
      | some _ => (setAcc s { a with posn := a.posn + len.toNat }, .num len)

/-- `Hwrite(aid, length, data)` -/
def write (cfg : Cfg) (s : State) (aid : Nat) (data : Bytes) : State × Res :=
  match findAcc s aid with
  | none => (s, .fail)
  | some a =>
    -- "access_rec == NULL || !(access_rec->access & DFACC_WRITE) || data == NULL"
    if a.access &&& DFACC_WRITE == 0 then (s, .fail)
    else if a.special != 0 then (s, .pass)
    else if badFrec s a.fid then (s, .fail)
    else
      let length := data.length
      let a := refreshNew s a
      let s := setAcc s a
      -- a "new" element: Hsetlength (result ignored), then appendable
      let (s, a) : State × Acc :=
        if a.newElem then
          let s' := (setLength cfg s aid length).1
          let a' := (findAcc s' aid).getD a
          let a' := { a' with appendable := true }
          (setAcc s' a', a')
        else (s, a)
      let dd := slotDD s.f.blocks a.slot
      if length == 0 || (!a.appendable && (length + a.posn : Int) > dd.len) then (s, .fail)
      else
        let grow := a.appendable && (length + a.posn : Int) > dd.len
        if grow && dd.len + dd.off != (s.f.endOff : Int) then
          if hlConvert cfg s aid == .pass then (setAcc s { a with special := SPECIAL_LINKED, appendable := false }, .pass)
          else (setAcc s { a with appendable := false }, .fail)
        else
          -- the element grows in place: a gap between its old end and the write position is zero-filled (fix 998a325)
          let r : State × Bool :=
            if grow && (a.posn : Int) > dd.len then zeroFill s (dd.off + dd.len).toNat ((a.posn : Int) - dd.len).toNat ((a.posn : Int) - dd.len).toNat
            else (s, true)
          if !r.2 then (r.1, .fail) else
          let s := r.1
          let r : State × Bool := if grow then htpUpdate s a.slot (-2) (a.posn + length) else (s, true)
          if !r.2 then (r.1, .fail)
          else
            let r := hpWrite r.1 (a.posn + dd.off).toNat data
            if !r.2 then (r.1, .fail)
            else
              let s := r.1
              let cur := (a.posn + dd.off).toNat + length
              let s := if cur > s.f.endOff then { s with f := { s.f with endOff := cur } } else s
              (setAcc s { a with posn := a.posn + length }, .num length)

/-- `Htrunc(aid, trunc_len)` -/
def trunc (s : State) (aid : Nat) (len : Int) : State × Res :=
  match findAcc s aid with
  | none => (s, .fail)
  | some a =>
    if a.access &&& DFACC_WRITE == 0 then (s, .fail)
    else if a.special != 0 then (s, .fail)      -- "Truncating a special element is not implemented" (fix 1e2fd75)
    else
      let dd := slotDD s.f.blocks a.slot
      if dd.len > len then
        let r := htpUpdate s a.slot (-2) len
        if !r.2 then (r.1, .fail)
        else (setAcc r.1 { a with posn := if (a.posn : Int) > len then len.toNat else a.posn }, .num len)
      else (s, .fail)

/-- `Hstartread(fid, tag, ref)` -/
def startRead (s : State) (fid tag ref : Nat) : State × Res := startAccess s fid (BASETAG tag) ref DFACC_READ

/-- `Hstartwrite(fid, tag, ref, length)` -/
def startWrite (cfg : Cfg) (s : State) (fid tag ref len : Nat) : State × Res :=
  let r := startAccess s fid (BASETAG tag) ref DFACC_RDWR
  match r.2 with
  | .id aid =>
    if ((findAcc r.1 aid).map (·.newElem)).getD false then
      let r2 := setLength cfg r.1 aid len
      if r2.2 == .ok then (r2.1, .id aid) else ((endAccess r2.1 aid).1, .fail)
    else (r.1, .id aid)
  | _ => (r.1, .fail)

/-- `Hgetelement(fid, tag, ref, data)`: result (`num` length / `pass` for a special element / `fail`) and the data,
    with the state after `Hstartread`/`Hread`/`Hendaccess` -/
def getElement (s : State) (fid tag ref : Nat) : State × Res × Bytes :=
  let r := startRead s fid tag ref
  match r.2 with
  | .id aid =>
    let a := (findAcc r.1 aid).getD default
    let dd := slotDD r.1.f.blocks a.slot
    let r2 := read r.1 aid 0
    ((endAccess r2.1 aid).1,
     (match r2.2 with | .num n => .num n | .pass => .pass | _ => .fail),
     (match r2.2 with | .num n => (hpRead r2.1 dd.off.toNat n.toNat).getD [] | _ => []))
  | _ => (r.1, .fail, [])

/-- `Hputelement(fid, tag, ref, data, length)` -/
def putElement (cfg : Cfg) (s : State) (fid tag ref : Nat) (data : Bytes) : State × Res :=
  let r := startWrite cfg s fid tag ref data.length
  match r.2 with
  | .id aid =>
    let r2 := write cfg r.1 aid data
    match r2.2 with
    | .num n =>
      let r3 := endAccess r2.1 aid
      (r3.1, if r3.2 == .ok then .num n else .fail)
    | .pass => ((endAccess r2.1 aid).1, .pass)
    | _ => ((endAccess r2.1 aid).1, .fail)
  | _ => (r.1, .fail)

/-- the version fields after `HIread_version` -/
def setVer (s : State) (v : Option (Nat × Nat × Nat)) : State :=
  { s with f := { s.f with ver := v.getD s.f.ver, verMod := false } }

/-- `HIread_version` (called by `Hopen` on an existing file) -/
def readVersion (s : State) (fid : Nat) : State :=
  let r := getElement s fid DFTAG_VERSION 1
  setVer r.1 (if r.2.1 == .fail then some (0, 0, 0)
              else if r.2.2.length ≥ 12 then some (rd32 r.2.2 0, rd32 r.2.2 4, rd32 r.2.2 8) else none)

/-- `HIupdate_version` -/
def updateVersion (cfg : Cfg) (s : State) (fid : Nat) : State :=
  let r := putElement cfg { s with f := { s.f with ver := libVer } } fid DFTAG_VERSION 1 (H4.Gen.RO.LIBVER_BYTES.map UInt8.ofNat)
  if r.2 == .fail then r.1 else { r.1 with f := { r.1.f with verMod := false } }

def magicOk (d : Bytes) : Bool := d.take MAGICLEN == H4.Gen.RO.HDFMAGIC_BYTES.map UInt8.ofNat

/-- the file record after the first half of `Hopen` (`none` = the open fails): either one more reference to the record that
    is already in use (reopening the stream for update when write access is asked for the first time), or a fresh record
    read from the bytes (`HIvalid_magic`, `HTPstart`) -/
def hopenRec (cfg : Cfg) (s : State) (acc : Nat) : Option State :=
  if s.f.refcount != 0 then
    -- file is already opened: "attempt to reopen the file with write permission"
    if acc &&& DFACC_WRITE != 0 && !canWrite s.f then
      let r := hiSync s
      if !r.2 then none
      else
        let f := { r.1.f with streamW := true }
        let f := if cfg.reopenSetsAccess then { f with access := f.access ||| DFACC_WRITE } else f
        some { r.1 with f := { f with refcount := f.refcount + 1 } }
    else some { s with f := { s.f with refcount := s.f.refcount + 1 } }
  else
    if !magicOk s.f.disk then none
    else
      match readBlocks s.f.disk (s.f.disk.length + 1) MAGICLEN with
      | none => none
      | some bl =>
        some { s with f := { s.f with streamW := acc &&& DFACC_WRITE != 0, access := acc ||| DFACC_READ, blocks := bl,
                                       maxref := maxRefOf bl, endOff := endOfBlocks bl, ddnull := none, refcount := 1, attach := 0,
                                       cache := H4.Gen.RO.DEFAULT_CACHE != 0, dirty := 0 } }

/-- second half of `Hopen`: `version_set = FALSE`, register the file id, `HIread_version` -/
def hopenFinish (s : State) : State × Res :=
  let fid := s.nfid
  let s := { s with f := { s.f with verSet := false }, fids := s.fids ++ [fid], nfid := s.nfid + 1 }
  (readVersion s fid, .id fid)

/-- `Hopen(path, acc_mode, ndds)` on the (existing) file of this state; `DFACC_CREATE` is outside the model -/
def hopen (cfg : Cfg) (s : State) (acc : Nat) : State × Res :=
  if acc &&& DFACC_ALL != acc || acc &&& DFACC_CREATE != 0 then (s, .fail)
  else
    match hopenRec cfg s acc with
    | none => (s, .fail)
    | some s' => hopenFinish s'

/-- `Hclose` after the version update: drop one reference; the last one flushes (`HIsync`, `HTPend` -> `HTPsync`) and
    releases the record unless access records are still attached -/
def hcloseCore (s : State) (fid : Nat) : State × Res :=
  if s.f.refcount == 1 then
    if s.f.attach > 0 then (s, .fail)
    else
      -- refcount is 0 from here on
      let r := hiSync { s with f := { s.f with refcount := 0 } }
      if !r.2 then (r.1, .fail)
      else
        -- HTPend: HTPsync, free the DD list
        let r := htpSync r.1
        if !r.2 then (r.1, .fail)
        else ({ r.1 with f := { r.1.f with blocks := [], streamW := false, access := 0 }, fids := r.1.fids.filter (· != fid) }, .ok)
  else ({ s with f := { s.f with refcount := s.f.refcount - 1 }, fids := s.fids.filter (· != fid) }, .ok)

/-- `Hclose(fid)` -/
def hclose (cfg : Cfg) (s : State) (fid : Nat) : State × Res :=
  if badFrec s fid then (s, .fail)
  else hcloseCore (if s.f.verMod then updateVersion cfg s fid else s) fid

/-- `Hsync(fid)` -/
def hsync (s : State) (fid : Nat) : State × Res :=
  if badFrec s fid then (s, .fail)
  else
    let r := hiSync s
    (r.1, if r.2 then .ok else .fail)

/-- `Hcache(fid, cache_on)` -/
def hcache (s : State) (fid : Nat) (on : Bool) : State × Res :=
  if badFrec s fid then (s, .fail)
  else
    let r := if !on && s.f.cache then hiSync s else (s, true)
    if !r.2 then (r.1, .fail)
    else ({ r.1 with f := { r.1.f with cache := on } }, .ok)

/-- `Hdeldd(fid, tag, ref)` -/
def deldd (cfg : Cfg) (s : State) (fid tag ref : Nat) : State × Res :=
  if badFrec s fid || tag == DFTAG_WILDCARD || ref == DFREF_WILDCARD then (s, .fail)
  else if cfg.hdelddChecks && !canWrite s.f then (s, .fail)
  else if tag == DFTAG_NULL then (s, .fail)
  else
    match findDD s.f.blocks tag ref with
    | none => (s, .fail)
    | some (p, _) =>
      let r := htpDelete s p
      (r.1, if r.2 then .ok else .fail)

/-- `Hdupdd(fid, tag, ref, old_tag, old_ref)` -/
def dupdd (cfg : Cfg) (s : State) (fid tag ref otag oref : Nat) : State × Res :=
  if badFrec s fid then (s, .fail)
  else if cfg.hdupddChecks && !canWrite s.f then (s, .fail)
  else if otag == DFTAG_NULL || otag == DFTAG_WILDCARD || oref == DFREF_WILDCARD then (s, .fail)
  else
    match findDD s.f.blocks otag oref with
    | none => (s, .fail)
    | some (_, od) =>
      -- HTIregister_tag_ref refuses a (base tag, ref) that is already there
      if (findDD s.f.blocks tag ref).isSome then (s, .fail)
      else
        match htpCreate s tag ref with
        | (s, none) => (s, .fail)
        | (s, some p) =>
          let r := htpUpdate s p od.off od.len
          (r.1, if r.2 then .ok else .fail)

/-- `HDreuse_tagref(fid, tag, ref)` -/
def reuse (cfg : Cfg) (s : State) (fid tag ref : Nat) : State × Res :=
  if badFrec s fid || tag == DFTAG_WILDCARD || ref == DFREF_WILDCARD then (s, .fail)
  else if cfg.hreuseChecks && !canWrite s.f then (s, .fail)
  else if tag == DFTAG_NULL then (s, .fail)
  else
    match findDD s.f.blocks tag ref with
    | none => (s, .fail)
    | some (p, _) =>
      let r := htpUpdate s p INVALID_OFFSET INVALID_LENGTH
      (r.1, if r.2 then .ok else .fail)

/-- entry checks of `HLcreate` / `HXcreate` / `HCcreate` / `HMCcreate`: arguments, then "make sure write access to file" -/
def specialCreate (s : State) (fid tag : Nat) (argsOk : Bool) : State × Res :=
  if badFrec s fid || !argsOk || SPECIALTAG tag != 0 || MKSPECIALTAG tag == DFTAG_NULL then (s, .fail)
  else if !canWrite s.f then (s, .fail)
  else (s, .pass)

/-- `Hlength(fid, tag, ref)` of an ordinary element (`pass` for a special one) -/
def hlength (s : State) (fid tag ref : Nat) : State × Res :=
  let r := startRead s fid tag ref
  match r.2 with
  | .id aid =>
    let a := (findAcc r.1 aid).getD default
    let dd := slotDD r.1.f.blocks a.slot
    ((endAccess r.1 aid).1, if a.special != 0 then .pass else .num dd.len)
  | _ => (r.1, .fail)

/-- `Hexist(fid, tag, ref)` -/
def hexist (s : State) (fid tag ref : Nat) : State × Res :=
  if badFrec s fid then (s, .fail)
  else
    let fr := hfind s.f tag ref
    (setCursor s fr.2, if fr.1.isSome then .ok else .fail)

/-- `Happendable(aid)` -/
def appendable (s : State) (aid : Nat) : State × Res :=
  match findAcc s aid with
  | none => (s, .fail)
  | some a => (setAcc s { a with appendable := true }, .ok)

/-! ## operations -/

inductive Op where
  | hopen (acc : Nat)
  | hclose (fid : Nat)
  | hcache (fid : Nat) (on : Bool)
  | hsync (fid : Nat)
  | startaccess (fid tag ref flags : Nat)
  | startread (fid tag ref : Nat)
  | startwrite (fid tag ref len : Nat)
  | setlength (aid len : Nat)
  | appendable (aid : Nat)
  | seek (aid : Nat) (off : Int) (origin : Nat)
  | read (aid : Nat) (len : Int)
  | write (aid : Nat) (data : Bytes)
  | trunc (aid : Nat) (len : Int)
  | endaccess (aid : Nat)
  | getelement (fid tag ref : Nat)
  | putelement (fid tag ref : Nat) (data : Bytes)
  | hlength (fid tag ref : Nat)
  | hexist (fid tag ref : Nat)
  | deldd (fid tag ref : Nat)
  | dupdd (fid tag ref otag oref : Nat)
  | reuse (fid tag ref : Nat)
  | hlcreate (fid tag ref : Nat) (blen nblk : Int)
  | hlconvert (aid : Nat) (blen nblk : Int)
  | hxcreate (fid tag ref : Nat) (off : Int)
  | hccreate (fid tag ref : Nat)
  | hmccreate (fid tag ref : Nat)
deriving DecidableEq, Repr, Inhabited

def step (cfg : Cfg) (s : State) : Op → State × Res
  | .hopen acc => hopen cfg s acc
  | .hclose fid => hclose cfg s fid
  | .hcache fid on => hcache s fid on
  | .hsync fid => hsync s fid
  | .startaccess fid tag ref flags => startAccess s fid tag ref flags
  | .startread fid tag ref => startRead s fid tag ref
  | .startwrite fid tag ref len => startWrite cfg s fid tag ref len
  | .setlength aid len => setLength cfg s aid len
  | .appendable aid => appendable s aid
  | .seek aid off origin => seek cfg s aid off origin
  | .read aid len => read s aid len
  | .write aid data => write cfg s aid data
  | .trunc aid len => trunc s aid len
  | .endaccess aid => endAccess s aid
  | .getelement fid tag ref => let r := getElement s fid tag ref; (r.1, r.2.1)
  | .putelement fid tag ref data => putElement cfg s fid tag ref data
  | .hlength fid tag ref => hlength s fid tag ref
  | .hexist fid tag ref => hexist s fid tag ref
  | .deldd fid tag ref => deldd cfg s fid tag ref
  | .dupdd fid tag ref otag oref => dupdd cfg s fid tag ref otag oref
  | .reuse fid tag ref => reuse cfg s fid tag ref
  | .hlcreate fid tag _ blen nblk => specialCreate s fid tag (blen ≥ 0 && nblk ≥ 0 && !(cfg.hlRefusesZero && (blen == 0 || nblk == 0)))
  | .hlconvert aid blen nblk =>
    if blen < 0 || nblk < 0 || (cfg.hlRefusesZero && (blen == 0 || nblk == 0)) then (s, .fail) else (s, hlConvert cfg s aid)
  | .hxcreate fid tag _ off => specialCreate s fid tag (off ≥ 0)
  | .hccreate fid tag ref =>
    -- an existing element is read into memory first (`malloc(data_len)` + `Hgetelement`): a descriptor without data
    -- (length INVALID_LENGTH, left by `HDreuse_tagref` or a `Hstartwrite` that never wrote) cannot be read
    match specialCreate s fid tag true, findDD s.f.blocks tag ref with
    | (s', .pass), some (_, dd) => if dd.len == INVALID_LENGTH then (s', .fail) else (s', .pass)
    | r, _ => r
  | .hmccreate fid tag _ => specialCreate s fid tag true

def run (cfg : Cfg) (s : State) : List Op → State
  | [] => s
  | op :: ops => run cfg (step cfg s op).1 ops

def results (cfg : Cfg) (s : State) : List Op → List Res
  | [] => []
  | op :: ops => (step cfg s op).2 :: results cfg (step cfg s op).1 ops

/-- the calls that would have to write data or create a stored object -/
def Op.isMutating : Op → Bool
  | .startaccess _ _ _ flags => flags &&& DFACC_WRITE != 0
  | .startwrite .. | .setlength .. | .write .. | .trunc .. | .putelement .. | .deldd .. | .dupdd .. | .reuse ..
  | .hlcreate .. | .hlconvert .. | .hxcreate .. | .hccreate .. | .hmccreate .. => true
  | _ => false

/-- an `Hopen` that asks for write access -/
def Op.opensForWrite : Op → Bool
  | .hopen acc => acc &&& DFACC_WRITE != 0
  | _ => false

end H4.ReadOnly
