import H4.Codecs
/-! Helper lemmas for C15: big-endian field macros and the record readers on what the writers produce. -/
namespace H4.Codecs
open H4.Gen.Codecs

theorem u8 (n : Nat) (h : n < 256) : (UInt8.ofNat n).toNat = n := by
  simp [UInt8.toNat_ofNat']
  omega

theorem and255 (n : Nat) : n &&& 0xff = n % 256 := Nat.and_two_pow_sub_one_eq_mod n 8

theorem shl_or (hi lo k : Nat) (h : lo < 2 ^ k) : hi <<< k ||| lo = hi * 2 ^ k + lo := by
  rw [← Nat.shiftLeft_add_eq_or_of_lt h, Nat.shiftLeft_eq]

/-- `UINT16DECODE(UINT16ENCODE(n)) = n` for every 16-bit value -/
theorem dec16_enc16 (n : Nat) (h : n < 65536) :
    dec16 (UInt8.ofNat ((n >>> 8) &&& 0xff)) (UInt8.ofNat (n &&& 0xff)) = n := by
  simp only [dec16, and255, Nat.shiftRight_eq_div_pow]
  rw [u8 _ (by omega), u8 _ (by omega), shl_or _ _ 8 (by omega)]
  omega

theorem dec32_bytes (a b c d : Nat) (hb : b < 256) (hc : c < 256) (hd : d < 256) :
    a <<< 24 ||| b <<< 16 ||| c <<< 8 ||| d = a * 16777216 + b * 65536 + c * 256 + d := by
  have e1 : a <<< 24 ||| b <<< 16 = (a * 256 + b) <<< 16 := by
    have : a <<< 24 = (a <<< 8) <<< 16 := by rw [← Nat.shiftLeft_add]
    rw [this, ← Nat.shiftLeft_or_distrib, shl_or _ _ 8 (by omega)]
  have e2 : (a * 256 + b) <<< 16 ||| c <<< 8 = ((a * 256 + b) * 256 + c) <<< 8 := by
    have : (a * 256 + b) <<< 16 = ((a * 256 + b) <<< 8) <<< 8 := by rw [← Nat.shiftLeft_add]
    rw [this, ← Nat.shiftLeft_or_distrib, shl_or _ _ 8 (by omega)]
  rw [e1, e2, shl_or _ _ 8 (by omega)]
  omega

/-- `UINT32DECODE(UINT32ENCODE(n)) = n` for every 32-bit value -/
theorem dec32_enc32 (n : Nat) (h : n < 4294967296) :
    dec32 (UInt8.ofNat ((n >>> 24) &&& 0xff)) (UInt8.ofNat ((n >>> 16) &&& 0xff)) (UInt8.ofNat ((n >>> 8) &&& 0xff))
      (UInt8.ofNat (n &&& 0xff)) = n := by
  simp only [dec32, and255, Nat.shiftRight_eq_div_pow]
  rw [u8 _ (by omega), u8 _ (by omega), u8 _ (by omega), u8 _ (by omega)]
  rw [dec32_bytes _ _ _ _ (by omega) (by omega) (by omega)]
  omega

theorem toU16_lt (i : Int) : toU16 i < 65536 := by simp only [toU16]; omega
theorem toU32_lt (i : Int) : toU32 i < 4294967296 := by simp only [toU32]; omega

theorem toS_toU16 (i : Int) (h1 : -32768 ≤ i) (h2 : i < 32768) : toS16 (toU16 i) = i := by
  simp only [toS16, toU16]
  by_cases h : (i % 65536).toNat ≥ 32768 <;> simp only [h, ↓reduceIte] <;> omega

theorem toS_toU32 (i : Int) (h1 : -2147483648 ≤ i) (h2 : i < 2147483648) : toS32 (toU32 i) = i := by
  simp only [toS32, toU32]
  by_cases h : (i % 4294967296).toNat ≥ 2147483648 <;> simp only [h, ↓reduceIte] <;> omega

theorem toU16_nat (n : Nat) (h : n < 65536) : toU16 (n : Int) = n := by simp only [toU16]; omega

/-- `INT16DECODE(INT16ENCODE(i)) = i` for every int16 -/
theorem decI16_encI16 (i : Int) (h1 : -32768 ≤ i) (h2 : i < 32768) :
    decI16 (UInt8.ofNat ((toU16 i >>> 8) &&& 0xff)) (UInt8.ofNat (toU16 i &&& 0xff)) = i := by
  simp only [decI16]; rw [dec16_enc16 _ (toU16_lt i), toS_toU16 i h1 h2]

/-- `INT32DECODE(INT32ENCODE(i)) = i` for every int32 -/
theorem decI32_encI32 (i : Int) (h1 : -2147483648 ≤ i) (h2 : i < 2147483648) :
    decI32 (UInt8.ofNat ((toU32 i >>> 24) &&& 0xff)) (UInt8.ofNat ((toU32 i >>> 16) &&& 0xff))
      (UInt8.ofNat ((toU32 i >>> 8) &&& 0xff)) (UInt8.ofNat (toU32 i &&& 0xff)) = i := by
  simp only [decI32]; rw [dec32_enc32 _ (toU32_lt i), toS_toU32 i h1 h2]

def I32 (i : Int) : Prop := -2147483648 ≤ i ∧ i < 2147483648
def I16 (i : Int) : Prop := -32768 ≤ i ∧ i < 32768
def U16 (n : Nat) : Prop := n < 65536
instance (i : Int) : Decidable (I32 i) := by unfold I32; infer_instance
instance (i : Int) : Decidable (I16 i) := by unfold I16; infer_instance
instance (n : Nat) : Decidable (U16 n) := by unfold U16; infer_instance

/-- the field ranges of a dimension record: int32 sizes, uint16 tags/refs, int16 component count and interlace -/
def DimRec.InRange (r : DimRec) : Prop :=
  I32 r.xdim ∧ I32 r.ydim ∧ U16 r.ntTag ∧ U16 r.ntRef ∧ I16 r.ncomps ∧ I16 r.il ∧ U16 r.compTag ∧ U16 r.compRef

theorem readI32s_enc (tail : List Byte) : ∀ (dims : List Int), (∀ d ∈ dims, I32 d) →
    readI32s dims.length (dims.flatMap encI32 ++ tail) = some (dims, tail) := by
  intro dims
  induction dims with
  | nil => intro _; simp [readI32s]
  | cons d ds ih =>
    intro h
    have hd := h d (by simp)
    have := ih (fun x hx => h x (by simp [hx]))
    simp only [List.flatMap_cons, encI32, enc32, List.length_cons, List.cons_append, List.nil_append, readI32s, this,
      Option.map_some, decI32_encI32 d hd.1 hd.2]

theorem readTagRefs_enc (tail : List Byte) : ∀ (nts : List (Nat × Nat)), (∀ t ∈ nts, U16 t.1 ∧ U16 t.2) →
    readTagRefs nts.length (nts.flatMap encTagRef ++ tail) = some (nts, tail) := by
  intro nts
  induction nts with
  | nil => intro _; simp [readTagRefs]
  | cons t ts ih =>
    intro h
    have ht := h t (by simp)
    have := ih (fun x hx => h x (by simp [hx]))
    simp only [List.flatMap_cons, encTagRef, enc16, List.length_cons, List.cons_append, List.nil_append, readTagRefs, this,
      Option.map_some, dec16_enc16 _ ht.1, dec16_enc16 _ ht.2]

end H4.Codecs
