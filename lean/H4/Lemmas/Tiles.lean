import H4.Tools
import H4.Lemmas.Slab
/-! Helper lemmas for C18 `tiles_partition`: the strip-mine loop of `copy_sds` (`H4.Tools.tilesLoop`) enumerates the
    grid of per-dimension blocks, and the cells of that grid are a permutation of all cells. -/
namespace H4.Tools
open H4.Slab

/-- every extent and every strip-mine size is at least 1, same rank -/
def Valid : List Nat → List Nat → Prop
  | d :: ds, s :: ss => 1 ≤ d ∧ 1 ≤ s ∧ Valid ds ss
  | [], [] => True
  | _, _ => False

instance : (d s : List Nat) → Decidable (Valid d s)
  | _ :: ds, _ :: ss => by
      unfold Valid
      have := instDecidableValid ds ss
      exact inferInstance
  | [], [] => isTrue trivial
  | [], _ :: _ => isFalse (by simp [Valid])
  | _ :: _, [] => isFalse (by simp [Valid])

def zeros (dims : List Nat) : List Nat := dims.map fun _ => 0

/-- the blocks `(offset, size)` of one dimension from offset `o` with `rem` elements left, step `s` -/
def blk (s : Nat) : Nat → Nat → Nat → List (Nat × Nat)
  | 0, _, _ => []
  | fuel + 1, o, rem => if rem = 0 then [] else (o, min rem s) :: blk s fuel (o + min rem s) (rem - min rem s)

/-- the grid of tiles, first dimension slowest -/
def grid : List Nat → List Nat → List (List Nat × List Nat)
  | d :: ds, s :: ss => (blk s d 0 d).flatMap fun b => (grid ds ss).map fun t => (b.1 :: t.1, b.2 :: t.2)
  | _, _ => [([], [])]

/-! ### the carry loop walks the grid -/

/-- starting in state `x`, the successive states of the carry loop are exactly the tiles of `G`; the carry is false
    between two tiles, and the step after the last tile yields `e` -/
def WalkTo (dims sm : List Nat) : List (List Nat × List Nat) → List Nat → List Nat × Bool → Prop
  | [], _, _ => False
  | [t], x, e => t = (x, hsSize dims x sm) ∧ advance dims x sm = e
  | t :: t' :: ts, x, e =>
    t = (x, hsSize dims x sm) ∧ (advance dims x sm).2 = false ∧ WalkTo dims sm (t' :: ts) (advance dims x sm).1 e

theorem walk_append (dims sm : List Nat) : ∀ (G1 G2 : List (List Nat × List Nat)) (x y : List Nat) (e : List Nat × Bool),
    WalkTo dims sm G1 x (y, false) → WalkTo dims sm G2 y e → G2 ≠ [] → WalkTo dims sm (G1 ++ G2) x e := by
  intro G1
  induction G1 with
  | nil => intro G2 x y e h; simp [WalkTo] at h
  | cons t ts ih =>
    intro G2 x y e h1 h2 hne
    cases ts with
    | nil =>
      obtain ⟨ht, ha⟩ := h1
      cases G2 with
      | nil => exact absurd rfl hne
      | cons g gs =>
        simp only [List.cons_append, List.nil_append, WalkTo]
        refine ⟨ht, by rw [ha], ?_⟩
        rw [ha]; exact h2
    | cons t' ts' =>
      obtain ⟨ht, hc, hw⟩ := h1
      simp only [List.cons_append, WalkTo]
      exact ⟨ht, hc, ih G2 _ y e hw h2 hne⟩

/-- lifting an inner walk to the next outer dimension at a fixed outer offset `o` -/
theorem walk_lift (d s o : Nat) (ds ss : List Nat) :
    ∀ (H : List (List Nat × List Nat)) (x y : List Nat) (c : Bool), WalkTo ds ss H x (y, c) →
    WalkTo (d :: ds) (s :: ss) (H.map fun t => (o :: t.1, min (d - o) s :: t.2)) (o :: x)
      (if c then (if o + min (d - o) s = d then (0 :: y, true) else ((o + min (d - o) s) :: y, false)) else (o :: y, false)) := by
  intro H
  induction H with
  | nil => intro x y c h; simp [WalkTo] at h
  | cons t ts ih =>
    intro x y c h
    cases ts with
    | nil =>
      obtain ⟨ht, ha⟩ := h
      simp only [List.map_cons, List.map_nil, WalkTo]
      refine ⟨by rw [ht]; simp [hsSize], ?_⟩
      simp only [advance, ha]
    | cons t' ts' =>
      obtain ⟨ht, hc, hw⟩ := h
      have := ih _ y c hw
      simp only [List.map_cons, WalkTo] at this ⊢
      refine ⟨by rw [ht]; simp [hsSize], by simp [advance, hc], ?_⟩
      simp only [advance, hc]
      exact this

theorem grid_ne_nil : ∀ (dims sm : List Nat), Valid dims sm → grid dims sm ≠ [] := by
  intro dims
  induction dims with
  | nil => intro sm _; cases sm <;> simp [grid]
  | cons d ds ih =>
    intro sm hv
    cases sm with
    | nil => simp [grid]
    | cons s ss =>
      obtain ⟨hd, hs, hv'⟩ := hv
      have := ih ss hv'
      cases d with
      | zero => omega
      | succ d' =>
        simp only [grid, blk]
        have : ¬ (d' + 1 = 0) := by omega
        simp only [this, if_false, List.flatMap_cons]
        intro h
        have h2 := List.append_eq_nil_iff.mp h
        have h3 := h2.1
        simp only [List.map_eq_nil_iff] at h3
        exact ih ss hv' h3

/-- the blocks of the first dimension, from offset `o` (with `o + rem = d`), each combined with the whole inner grid -/
theorem walk_blocks (d s : Nat) (ds ss : List Nat) (hs : 1 ≤ s) (H : List (List Nat × List Nat)) (hH : H ≠ [])
    (hw : WalkTo ds ss H (zeros ds) (zeros ds, true)) :
    ∀ (fuel o rem : Nat), o + rem = d → 1 ≤ rem → rem ≤ fuel →
    WalkTo (d :: ds) (s :: ss) ((blk s fuel o rem).flatMap fun b => H.map fun t => (b.1 :: t.1, b.2 :: t.2))
      (o :: zeros ds) (0 :: zeros ds, true) := by
  intro fuel
  induction fuel with
  | zero => intro o rem _ h1 h2; omega
  | succ fuel ih =>
    intro o rem hd h1 h2
    have hne : ¬ rem = 0 := by omega
    simp only [blk, hne, if_false, List.flatMap_cons]
    have hmin : min rem s = min (d - o) s := by congr 1; omega
    have lift := walk_lift d s o ds ss H (zeros ds) (zeros ds) true hw
    simp only [if_true] at lift
    rw [hmin]
    by_cases hlast : o + min (d - o) s = d
    · -- last block
      have hrem : rem - min (d - o) s = 0 := by omega
      have : blk s fuel (o + min (d - o) s) (rem - min (d - o) s) = [] := by
        rw [hrem]; cases fuel <;> simp [blk]
      rw [this]
      simp only [List.flatMap_nil, List.append_nil]
      simpa [hlast] using lift
    · simp only [hlast, if_false] at lift
      have hm1 : 1 ≤ min (d - o) s := by
        have : 1 ≤ d - o := by omega
        exact Nat.le_min.mpr ⟨this, hs⟩
      have hm2 : min (d - o) s ≤ d - o := Nat.min_le_left _ _
      have rest := ih (o + min (d - o) s) (rem - min (d - o) s) (by omega) (by omega) (by omega)
      apply walk_append _ _ _ _ _ _ _ lift rest
      -- the remaining part is not empty
      have hne2 : ¬ (rem - min (d - o) s = 0) := by omega
      cases fuel with
      | zero => omega
      | succ f =>
        simp only [blk, hne2, if_false, List.flatMap_cons]
        intro h
        have := (List.append_eq_nil_iff.mp h).1
        simp only [List.map_eq_nil_iff] at this
        exact hH this

theorem zeros_cons (d : Nat) (ds : List Nat) : zeros (d :: ds) = 0 :: zeros ds := rfl

/-- **the carry loop of `copy_sds` walks the grid**, for every rank -/
theorem walk_grid : ∀ (dims sm : List Nat), Valid dims sm →
    WalkTo dims sm (grid dims sm) (zeros dims) (zeros dims, true) := by
  intro dims
  induction dims with
  | nil =>
    intro sm hv
    cases sm with
    | nil => simp [grid, WalkTo, hsSize, advance, zeros]
    | cons _ _ => simp [Valid] at hv
  | cons d ds ih =>
    intro sm hv
    cases sm with
    | nil => simp [Valid] at hv
    | cons s ss =>
      obtain ⟨hd, hs, hv'⟩ := hv
      have := walk_blocks d s ds ss hs (grid ds ss) (grid_ne_nil ds ss hv') (ih ss hv') d 0 d (by omega) hd (Nat.le_refl _)
      simpa [grid, zeros_cons] using this

/-! ### element counts -/

def tileSum (G : List (List Nat × List Nat)) : Nat := (G.map fun t => prod t.2).sum

theorem blk_sum (s : Nat) (hs : 1 ≤ s) : ∀ (fuel o rem : Nat), rem ≤ fuel → ((blk s fuel o rem).map (·.2)).sum = rem := by
  intro fuel
  induction fuel with
  | zero => intro o rem h; have : rem = 0 := by omega
            subst this; simp [blk]
  | succ fuel ih =>
    intro o rem h
    by_cases h0 : rem = 0
    · subst h0; simp [blk]
    · simp only [blk, h0, if_false, List.map_cons, List.sum_cons]
      have hm : 1 ≤ min rem s := Nat.le_min.mpr ⟨by omega, hs⟩
      have hm2 : min rem s ≤ rem := Nat.min_le_left _ _
      rw [ih _ _ (by omega)]
      omega

theorem tileSum_append (a b : List (List Nat × List Nat)) : tileSum (a ++ b) = tileSum a + tileSum b := by
  simp [tileSum, List.sum_append]

theorem tileSum_lift (o n : Nat) (H : List (List Nat × List Nat)) :
    tileSum (H.map fun t => (o :: t.1, n :: t.2)) = n * tileSum H := by
  induction H with
  | nil => simp [tileSum]
  | cons t ts ih =>
    simp only [tileSum, List.map_cons, List.sum_cons, prod] at ih ⊢
    rw [ih, Nat.mul_add]

theorem tileSum_blocks (H : List (List Nat × List Nat)) : ∀ (B : List (Nat × Nat)),
    tileSum (B.flatMap fun b => H.map fun t => (b.1 :: t.1, b.2 :: t.2)) = (B.map (·.2)).sum * tileSum H := by
  intro B
  induction B with
  | nil => simp [tileSum]
  | cons b bs ih =>
    simp only [List.flatMap_cons, tileSum_append, tileSum_lift, ih, List.map_cons, List.sum_cons, Nat.add_mul]

theorem grid_sum : ∀ (dims sm : List Nat), Valid dims sm → tileSum (grid dims sm) = prod dims := by
  intro dims
  induction dims with
  | nil => intro sm hv; cases sm <;> simp [grid, tileSum, prod]
  | cons d ds ih =>
    intro sm hv
    cases sm with
    | nil => simp [Valid] at hv
    | cons s ss =>
      obtain ⟨_, hs, hv'⟩ := hv
      simp only [grid, tileSum_blocks, blk_sum s hs d 0 d (Nat.le_refl _), ih ss hv', prod]

theorem blk_pos (s : Nat) (hs : 1 ≤ s) : ∀ (fuel o rem : Nat), ∀ b ∈ blk s fuel o rem, 1 ≤ b.2 := by
  intro fuel
  induction fuel with
  | zero => intro o rem b hb; simp [blk] at hb
  | succ fuel ih =>
    intro o rem b hb
    by_cases h0 : rem = 0
    · simp [blk, h0] at hb
    · simp only [blk, h0, if_false, List.mem_cons] at hb
      rcases hb with rfl | hb
      · exact Nat.le_min.mpr ⟨by omega, hs⟩
      · exact ih _ _ b hb

theorem grid_pos : ∀ (dims sm : List Nat), Valid dims sm → ∀ t ∈ grid dims sm, 1 ≤ prod t.2 := by
  intro dims
  induction dims with
  | nil => intro sm hv t ht; cases sm <;> simp [grid] at ht <;> subst ht <;> simp [prod]
  | cons d ds ih =>
    intro sm hv t ht
    cases sm with
    | nil => simp [Valid] at hv
    | cons s ss =>
      obtain ⟨_, hs, hv'⟩ := hv
      simp only [grid, List.mem_flatMap, List.mem_map] at ht
      obtain ⟨b, hb, t', ht', rfl⟩ := ht
      have h1 := blk_pos s hs _ _ _ b hb
      have h2 := ih ss hv' t' ht'
      simp only [prod]
      exact Nat.mul_le_mul h1 h2

theorem tileSum_ge_length (G : List (List Nat × List Nat)) (h : ∀ t ∈ G, 1 ≤ prod t.2) : G.length ≤ tileSum G := by
  induction G with
  | nil => simp [tileSum]
  | cons t ts ih =>
    have h1 := h t (by simp)
    have h2 := ih (fun x hx => h x (by simp [hx]))
    simp only [tileSum, List.map_cons, List.sum_cons, List.length_cons] at h2 ⊢
    omega

/-- the `elmtno`-controlled loop stops exactly at the end of a walk whose tiles hold the remaining elements -/
theorem loop_of_walk (dims sm : List Nat) : ∀ (G : List (List Nat × List Nat)) (x : List Nat) (e : List Nat × Bool)
    (fuel elmtno nelmts : Nat), WalkTo dims sm G x e → (∀ t ∈ G, 1 ≤ prod t.2) → elmtno + tileSum G = nelmts →
    G.length ≤ fuel → tilesLoop dims sm fuel x elmtno nelmts = G := by
  intro G
  induction G with
  | nil => intro x e fuel a b h; simp [WalkTo] at h
  | cons t ts ih =>
    intro x e fuel elmtno nelmts hw hp hs hf
    cases fuel with
    | zero => simp at hf
    | succ fuel =>
      have hp1 := hp t (by simp)
      cases ts with
      | nil =>
        obtain ⟨ht, _⟩ := hw
        subst ht
        simp only [tileSum, List.map_cons, List.map_nil, List.sum_cons, List.sum_nil] at hs
        have hp1' : 1 ≤ prod (hsSize dims x sm) := hp1
        have hlt : elmtno < nelmts := by omega
        simp only [tilesLoop, hlt, if_true]
        have hstop : ¬ (elmtno + prod (hsSize dims x sm) < nelmts) := by omega
        cases fuel <;> simp [tilesLoop, hstop]
      | cons t' ts' =>
        obtain ⟨ht, _, hw'⟩ := hw
        subst ht
        have hs' : elmtno + prod (hsSize dims x sm) + tileSum (t' :: ts') = nelmts := by
          simp only [tileSum, List.map_cons, List.sum_cons] at hs ⊢; omega
        have hp' : 1 ≤ tileSum (t' :: ts') := by
          have := hp t' (by simp)
          simp only [tileSum, List.map_cons, List.sum_cons]; omega
        have hp1' : 1 ≤ prod (hsSize dims x sm) := hp1
        have hlt : elmtno < nelmts := by omega
        simp only [tilesLoop, hlt, if_true]
        congr 1
        exact ih _ e fuel _ nelmts hw' (fun y hy => hp y (by simp [hy])) hs' (by simpa using hf)

/-- **`tiles` = the grid** -/
theorem tiles_eq_grid (dims sm : List Nat) (hv : Valid dims sm) : tiles dims sm = grid dims sm := by
  unfold tiles
  have hw := walk_grid dims sm hv
  have hp := grid_pos dims sm hv
  have hs := grid_sum dims sm hv
  have hl := tileSum_ge_length _ hp
  exact loop_of_walk dims sm _ _ _ _ 0 _ hw hp (by rw [hs]; simp) (by rw [hs] at hl; exact hl)

/-! ### the cells of the grid -/

theorem flatMap_nil_fun {α β} (l : List α) : l.flatMap (fun _ => ([] : List β)) = [] := by
  induction l <;> simp_all

theorem flatMap_append_perm' {α β} (l : List α) (f g : α → List β) :
    (l.flatMap fun a => f a ++ g a).Perm (l.flatMap f ++ l.flatMap g) := by
  induction l with
  | nil => simp
  | cons a as ih =>
    simp only [List.flatMap_cons]
    have h1 : (f a ++ g a ++ List.flatMap (fun a => f a ++ g a) as).Perm (f a ++ g a ++ (as.flatMap f ++ as.flatMap g)) :=
      List.Perm.append_left _ ih
    refine h1.trans ?_
    simp only [List.append_assoc]
    apply List.Perm.append_left
    rw [← List.append_assoc, ← List.append_assoc]
    exact List.Perm.append_right _ List.perm_append_comm

theorem flatMap_comm_perm {α β γ} (l1 : List α) (l2 : List β) (f : α → β → List γ) :
    (l1.flatMap fun a => l2.flatMap (f a)).Perm (l2.flatMap fun b => l1.flatMap fun a => f a b) := by
  induction l1 with
  | nil => simp [flatMap_nil_fun]
  | cons a as ih =>
    simp only [List.flatMap_cons]
    exact (List.Perm.append_left _ ih).trans (flatMap_append_perm' l2 (f a) _).symm

theorem flatMap_congr' {α β} (l : List α) (f g : α → List β) (h : ∀ a ∈ l, f a = g a) : l.flatMap f = l.flatMap g := by
  induction l with
  | nil => simp
  | cons a as ih =>
    simp only [List.flatMap_cons]
    rw [h a (by simp), ih fun x hx => h x (by simp [hx])]

theorem flatMap_perm_congr {α β} (l : List α) (f g : α → List β) (h : ∀ a ∈ l, (f a).Perm (g a)) :
    (l.flatMap f).Perm (l.flatMap g) := by
  induction l with
  | nil => simp
  | cons a as ih =>
    simp only [List.flatMap_cons]
    exact (h a (by simp)).append (ih fun x hx => h x (by simp [hx]))

def tileCells (G : List (List Nat × List Nat)) : List (List Nat) := G.flatMap fun t => cells t.1 t.2

/-- the blocks of a dimension, concatenated, are the whole dimension -/
theorem blk_range (s : Nat) (hs : 1 ≤ s) {β} (g : Nat → List β) : ∀ (fuel o rem : Nat), rem ≤ fuel →
    (blk s fuel o rem).flatMap (fun b => (List.range b.2).flatMap fun i => g (b.1 + i)) =
      (List.range rem).flatMap fun i => g (o + i) := by
  intro fuel
  induction fuel with
  | zero => intro o rem h; have : rem = 0 := by omega
            subst this; simp [blk]
  | succ fuel ih =>
    intro o rem h
    by_cases h0 : rem = 0
    · subst h0; simp [blk]
    · simp only [blk, h0, if_false, List.flatMap_cons]
      have hm : 1 ≤ min rem s := Nat.le_min.mpr ⟨by omega, hs⟩
      have hm2 : min rem s ≤ rem := Nat.min_le_left _ _
      rw [ih _ _ (by omega)]
      have hsplit : rem = min rem s + (rem - min rem s) := by omega
      conv => rhs; rw [hsplit, List.range_eq_range', ← List.range'_append_1, List.flatMap_append]
      congr 1
      · rw [List.range_eq_range']
      · rw [List.range_eq_range', Nat.zero_add]
        have : List.range' (min rem s) (rem - min rem s) = (List.range' 0 (rem - min rem s)).map (min rem s + ·) := by
          rw [List.map_add_range']; simp
        rw [this, List.flatMap_map]
        apply flatMap_congr'
        intro i _
        rw [Nat.add_assoc]

/-- **the cells of all tiles of the grid, concatenated, are a permutation of all cells of the index space** -/
theorem grid_cells_perm : ∀ (dims sm : List Nat), Valid dims sm →
    (tileCells (grid dims sm)).Perm (cells (zeros dims) dims) := by
  intro dims
  induction dims with
  | nil => intro sm hv; cases sm <;> simp [grid, tileCells, cells, zeros]
  | cons d ds ih =>
    intro sm hv
    cases sm with
    | nil => simp [Valid] at hv
    | cons s ss =>
      obtain ⟨_, hs, hv'⟩ := hv
      have ih' := ih ss hv'
      simp only [tileCells] at ih' ⊢
      simp only [grid, List.flatMap_assoc, List.flatMap_map, cells, zeros_cons]
      -- for a fixed block: swap "for tile, for i" into "for i, for tile", then use the induction hypothesis
      have step : ∀ b ∈ blk s d 0 d,
          ((grid ds ss).flatMap fun t => (List.range b.2).flatMap fun i => (cells t.1 t.2).map ((b.1 + i) :: ·)).Perm
            ((List.range b.2).flatMap fun i => (cells (zeros ds) ds).map ((b.1 + i) :: ·)) := by
        intro b _
        refine (flatMap_comm_perm (grid ds ss) (List.range b.2) _).trans ?_
        apply flatMap_perm_congr
        intro i _
        have := List.Perm.map ((b.1 + i) :: ·) ih'
        rwa [List.map_flatMap] at this
      refine (flatMap_perm_congr _ _ _ step).trans ?_
      have := blk_range s hs (fun j => (cells (zeros ds) ds).map (j :: ·)) d 0 d (Nat.le_refl _)
      simp only [Nat.zero_add] at this ⊢
      rw [this]

/-! ### the strip-mine sizes are valid -/

theorem smSize_valid (bufsize eltsz : Nat) (he : 1 ≤ eltsz) (hb : eltsz ≤ bufsize) : ∀ (dims : List Nat), (∀ d ∈ dims, 1 ≤ d) →
    Valid dims (smSize bufsize eltsz dims).1 ∧ 1 ≤ (smSize bufsize eltsz dims).2 ∧ (smSize bufsize eltsz dims).2 ≤ bufsize := by
  intro dims
  induction dims with
  | nil => intro _; simp [smSize, Valid]; omega
  | cons d ds ih =>
    intro h
    obtain ⟨h1, h2, h3⟩ := ih (fun x hx => h x (by simp [hx]))
    have hd := h d (by simp)
    simp only [smSize, Valid]
    have hq : 1 ≤ bufsize / (smSize bufsize eltsz ds).2 := by
      exact (Nat.le_div_iff_mul_le h2).mpr (by omega)
    have hm : 1 ≤ min d (bufsize / (smSize bufsize eltsz ds).2) := Nat.le_min.mpr ⟨hd, hq⟩
    refine ⟨⟨hd, hm, h1⟩, Nat.mul_pos h2 hm, ?_⟩
    calc (smSize bufsize eltsz ds).2 * min d (bufsize / (smSize bufsize eltsz ds).2)
        ≤ (smSize bufsize eltsz ds).2 * (bufsize / (smSize bufsize eltsz ds).2) := Nat.mul_le_mul_left _ (Nat.min_le_right _ _)
      _ ≤ bufsize := Nat.mul_div_le _ _

end H4.Tools
