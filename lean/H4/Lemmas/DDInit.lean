import H4.Lemmas.DDRun
/-! # A newly created file satisfies the invariant -/
namespace H4.DD
open H4.Gen.Hdf H4.Bitvect

/-- `ndds` as `HTPinit` 'reasonablizes' it -/
def normNdds (n : Nat) : Nat := if n = 0 then DEF_NDDS else if n < MIN_NDDS then MIN_NDDS else n

theorem normNdds_ge (n : Nat) : MIN_NDDS ≤ normNdds n := by
  unfold normNdds; split
  · decide
  · split
    · exact Nat.le_refl _
    · omega

theorem htpInit_eq (n : Nat) (c : Bool) : ({ htpInit n with cache := c } : File) =
    { blocks := [{ myoff := MAGICLEN, next := 0, dirty := false, dds := List.replicate (normNdds n) nilDD }],
      disk := [{ myoff := MAGICLEN, hdr := true, ndds := normNdds n, next := 0, dds := List.replicate (normNdds n) nilDD }],
      cache := c, fdirty := false, maxref := 0, nullBlk := some 0, nullNext := 0,
      fEnd := MAGICLEN + (NDDS_SZ + OFFSET_SZ) + normNdds n * DD_SZ, tags := [], ub := false } := rfl

theorem htpInit_inv (cfg : Cfg) (n : Nat) (c : Bool) : Inv cfg ({ htpInit n with cache := c } : File) := by
  rw [htpInit_eq]
  have hn : 4 ≤ normNdds n := normNdds_ge n
  have hlive : liveOf (List.replicate (normNdds n) nilDD ++ []) = [] := by simp [liveOf_replicate_nil]
  refine ⟨⟨⟨?_, ?_, ⟨?_, ?_⟩, ?_⟩, rfl, by simp, ?_⟩, ⟨rfl, ?_, ?_, ?_, ?_⟩, ?_⟩
  · intro d hd
    have hd' : d ∈ liveOf (List.replicate (normNdds n) nilDD ++ []) := by simpa [File.slots, slotsOf] using hd
    rw [hlive] at hd'; cases hd'
  · show KeysNodup (slotsOf _)
    unfold KeysNodup
    simp only [slotsOf_cons, slotsOf_nil, hlive]
    exact List.nodup_nil
  · intro base bv h; simp [tget] at h
  · intro base _ d hd
    have hd' : d ∈ liveOf (List.replicate (normNdds n) nilDD ++ []) := by simpa [File.slots, slotsOf] using hd
    rw [hlive] at hd'; cases hd'
  · intro d hd
    have hd' : d ∈ liveOf (List.replicate (normNdds n) nilDD ++ []) := by simpa [File.slots, slotsOf] using hd
    rw [hlive] at hd'; cases hd'
  · intro b hb
    simp only [List.length_cons, List.length_nil] at hb
    have hb0 : b = 0 := by omega
    subst hb0
    exact ⟨_, rfl, by simp; omega⟩
  · intro i b d h1 h2 _
    cases i with
    | zero => simp at h1 h2; subst h1 h2; simp [mirror]
    | succ i => simp at h1
  · simp [chainFrom, MAGICLEN]
  · intro b hb
    simp at hb; subst hb
    simp only
    have : 0 < NDDS_SZ + OFFSET_SZ := by decide
    omega
  · intro b hb hd
    simp at hb; subst hb; simp at hd
  · intro _ d hd
    have hd' : d ∈ liveOf (List.replicate (normNdds n) nilDD ++ []) := by
      have : d ∈ liveOf (File.slots _) := hd
      simpa [File.slots, slotsOf] using this
    rw [hlive] at hd'; cases hd'

theorem htpInit_guardF3 (cfg : Cfg) (n : Nat) (c : Bool) : guardF3 cfg ({ htpInit n with cache := c } : File) = true := by
  rw [htpInit_eq]
  have hn : 4 ≤ normNdds n := normNdds_ge n
  unfold guardF3
  have : (scanFwd pNull [({ myoff := MAGICLEN, next := 0, dirty := false, dds := List.replicate (normNdds n) nilDD } : Block)] 0 0).isSome = true := by
    obtain ⟨m, hm⟩ : ∃ m, normNdds n = m + 1 := ⟨normNdds n - 1, by omega⟩
    rw [hm]
    simp [scanFwd, List.replicate_succ, firstIdx, pNull, nilDD]
  simp [this]

/-- **a file just created by `Hopen(DFACC_CREATE, ndds)`** (with the version element the library puts in it)
    satisfies the invariant, and its directory holds exactly that element -/
theorem hopenCreate_inv (cfg : Cfg) (n : Nat) :
    Inv cfg (hopenCreate cfg n) ∧ (hopenCreate cfg n).abs = [(DFTAG_VERSION, 1, (LIBVER_LEN : Int))] := by
  have h0 := htpInit_inv cfg n defaultCache
  have hw := write_refines cfg true h0 (t := DFTAG_VERSION) (r := 1) (l := (LIBVER_LEN : Int))
    (by decide) (by decide) (by decide) (by decide) (htpInit_guardF3 cfg n defaultCache)
  simp only [if_true] at hw
  obtain ⟨hi, _, hp⟩ := hw
  refine ⟨hi, ?_⟩
  have habs0 : ({ htpInit n with cache := defaultCache } : File).abs = [] := by
    rw [htpInit_eq]
    simp [File.abs, absl, File.slots, slotsOf, liveOf_replicate_nil]
  rw [habs0] at hp
  have : specWrite [] (baseTag DFTAG_VERSION) 1 (LIBVER_LEN : Int) true = (.num (LIBVER_LEN : Int), [(DFTAG_VERSION, 1, (LIBVER_LEN : Int))]) := by
    decide
  rw [this] at hp
  exact List.perm_singleton.mp hp

theorem guarded_of_dom : ∀ (ops : List Op) (s : File), (∀ op ∈ ops, dom op = true) → guarded Cfg.fixed s ops = true := by
  intro ops
  induction ops with
  | nil => intro s _; rfl
  | cons op ops ih =>
    intro s h
    simp only [guarded, Bool.and_eq_true]
    refine ⟨by rw [guard_fixed]; exact h op (by simp), ?_⟩
    cases (step Cfg.fixed s op).2 with
    | none => rfl
    | some s' => exact ih s' (fun o ho => h o (by simp [ho]))

end H4.DD
