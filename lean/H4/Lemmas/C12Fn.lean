import H4.Gen.Fn.Bitvect2
import H4.Lemmas.Bitvect
import H4.Lemmas.C2L
/-! Lemmas for `H4.Props.C12Fn`: `bv_get`, `bv_set`, `bv_find_next_zero` of `hdf/src/bitvect.c`, as TRANSLATED from the C text
    (`H4.Gen.Fn.Bitvect2`, regenerated on every run), compute the hand-written model `H4.Bitvect` (`BV.get`, `BV.set`, `BV.findNextZero`).

    Method: the translated functions are straight-line code (one loop, `loop0_run`); every branch combination is evaluated with ONE
    `simp only` call whose rewrite rules are the branch conditions (as Nat facts, the Int comparisons are turned into them by the `c*`
    rules), the C arithmetic (`tdiv`/`tmod`/`% 2^64` on non-negative values), the 32-bit bit operations (`clr_s32`, `or_s32`, `and_s32`,
    `mask_s32`: two's complement `& | ~` followed by the store into a `uint8` cell) and the memory steps (`realloc_memset`). -/
namespace H4.Lemmas.C12Fn
open H4 H4.Bitvect H4.Gen.Bitvect H4.Gen.Fn.Bitvect2 H4.C2L
set_option linter.unusedSimpArgs false

/-- the part of `BV.Inv` the C code needs to run without undefined behaviour -/
structure Shape (b : BV) : Prop where
  len : b.buf.length = b.arraySize
  used : b.bitsUsed ≤ b.arraySize * 8
  bytes : ∀ x ∈ b.buf, x < 256
  lzle : b.lastZero ≤ b.bitsUsed / 8


theorem ints_getD' (l : List Nat) (i : Nat) : (ints l).getD i 0 = ((l.getD i 0 : Nat) : Int) := by
  simp only [List.getD_eq_getElem?_getD, ints_getD]

theorem ints_append_zeros (l : List Nat) (k : Nat) : ints l ++ List.replicate k (0 : Int) = ints (l ++ List.replicate k 0) := by
  simp [ints]

theorem ints_set_modify (l : List Nat) (i : Nat) (f : Nat → Nat) :
    (ints l).set i ((f (l.getD i 0) : Nat) : Int) = ints (l.modify i f) := by
  apply List.ext_getElem?
  intro j
  simp only [ints, List.getElem?_set, List.getElem?_map, List.getElem?_modify, List.length_map, List.getD_eq_getElem?_getD]
  by_cases hij : i = j
  · subst hij
    by_cases hl : i < l.length
    · simp [hl]
    · have : l[i]? = none := by simp; omega
      simp [hl, this]
  · simp [hij]

theorem ints_set_clr (l : List Nat) (i c : Nat) :
    (ints l).set i ((l.getD i 0 &&& c : Nat) : Int) = ints (l.modify i (fun x => x &&& c)) := ints_set_modify l i (fun x => x &&& c)
theorem ints_set_or (l : List Nat) (i c : Nat) :
    (ints l).set i ((l.getD i 0 ||| c : Nat) : Int) = ints (l.modify i (fun x => x ||| c)) := ints_set_modify l i (fun x => x ||| c)

/-- `realloc` to `a + k` cells (new cells poisoned) followed by `memset(&buf[a], 0, k)` -/
theorem realloc_memset (B : List Int) (a k : Nat) (h : B.length = a) :
    List.take a (List.take (a + k) B ++ List.replicate (a + k - a) 170) ++ List.replicate k 0 ++
      List.drop (a + k) (List.take (a + k) B ++ List.replicate (a + k - a) 170) = B ++ List.replicate k 0 := by
  have h1 : List.take (a + k) B = B := List.take_of_length_le (by omega)
  rw [h1, Nat.add_sub_cancel_left, List.take_left' h, List.drop_of_length_le (by simp; omega), List.append_nil]

set_option maxRecDepth 100000 in
theorem clr_table : ∀ x : Fin 256, ∀ k : Fin 8,
    x.val &&& (4294967295 - bitValue k.val) = x.val &&& (255 - bitValue k.val) := by decide +kernel

/-- `buffer[i] &= ~bv_bit_value[k]`: `~` and `&` at 32 bits (two's complement), the store into the `uint8` cell -/
theorem clr_s32 (x k : Nat) (hx : x < 256) (hk : k < 8) :
    (if 2147483648 ≤ Int.ofNat (((x : Int) % 4294967296).toNat &&& ((-Int.ofNat (bv_bit_value.getD k 0) - 1) % 4294967296).toNat)
     then Int.ofNat (((x : Int) % 4294967296).toNat &&& ((-Int.ofNat (bv_bit_value.getD k 0) - 1) % 4294967296).toNat) - 4294967296
     else Int.ofNat (((x : Int) % 4294967296).toNat &&& ((-Int.ofNat (bv_bit_value.getD k 0) - 1) % 4294967296).toNat)) % 256
    = ((x &&& (255 - bitValue k) : Nat) : Int) := by
  have hb : bitValue k ≤ 128 := by
    rw [bitValue_eq hk]
    have : 2 ^ k ≤ 2 ^ 7 := Nat.pow_le_pow_right (by omega) (by omega)
    omega
  have h1 : ((x : Int) % 4294967296).toNat = x := by omega
  have h2 : ((-Int.ofNat (bv_bit_value.getD k 0) - 1) % 4294967296).toNat = 4294967295 - bitValue k := by
    show ((-((bitValue k : Nat) : Int) - 1) % 4294967296).toNat = _
    omega
  rw [h1, h2]
  have h3 : x &&& (4294967295 - bitValue k) = x &&& (255 - bitValue k) := clr_table ⟨x, hx⟩ ⟨k, hk⟩
  have h4 : x &&& (255 - bitValue k) ≤ x := Nat.and_le_left
  rw [h3, if_neg (by simp only [Int.ofNat_eq_natCast]; omega)]
  simp only [Int.ofNat_eq_natCast]
  omega


theorem or_s32 (x k : Nat) (hx : x < 256) (hk : k < 8) :
    (if 2147483648 ≤ Int.ofNat (((x : Int) % 4294967296).toNat ||| (Int.ofNat (bv_bit_value.getD k 0) % 4294967296).toNat)
     then Int.ofNat (((x : Int) % 4294967296).toNat ||| (Int.ofNat (bv_bit_value.getD k 0) % 4294967296).toNat) - 4294967296
     else Int.ofNat (((x : Int) % 4294967296).toNat ||| (Int.ofNat (bv_bit_value.getD k 0) % 4294967296).toNat)) % 256
    = ((x ||| bitValue k : Nat) : Int) := by
  have hb : bitValue k < 2 ^ 8 := by
    rw [bitValue_eq hk]
    exact Nat.pow_lt_pow_right (by omega) hk
  have h1 : ((x : Int) % 4294967296).toNat = x := by omega
  have h2 : (Int.ofNat (bv_bit_value.getD k 0) % 4294967296).toNat = bitValue k := by
    show ((((bitValue k : Nat) : Int)) % 4294967296).toNat = _
    omega
  rw [h1, h2]
  have h4 : x ||| bitValue k < 2 ^ 8 := Nat.or_lt_two_pow (by omega) hb
  rw [if_neg (by simp only [Int.ofNat_eq_natCast]; omega)]
  simp only [Int.ofNat_eq_natCast]
  omega

def SetOut (s : bv_set.St) (ret : Int) (m : BV) : Prop :=
  s.ub = false ∧ s.oof = false ∧ s.ret = ret ∧ s.b_bits_used = m.bitsUsed ∧ s.b_array_size = m.arraySize ∧ s.b_last_zero = m.lastZero ∧ s.b_buffer = ints m.buf

theorem getD_append_zeros_lt {l : List Nat} (h : ∀ x ∈ l, x < 256) (k i : Nat) : (l ++ List.replicate k 0).getD i 0 < 256 := by
  rw [getD_append_zeros]; exact getD_lt_256 h i

theorem set_run (fuel : Nat) (m : BV) (hs : Shape m) (n : Nat) (hn : n < 2147483647) (v : Int) :
    SetOut (bv_set fuel false m.bitsUsed m.arraySize (ints m.buf) m.lastZero n v) 0 (m.set n (decide (v ≠ 0))) := by
  have hn0 : ¬ (n : Int) < 0 := by omega
  have hq : Int.tdiv (n : Int) 8 = ((n / 8 : Nat) : Int) := tdiv_nat n 8
  have hr : Int.tmod (n : Int) 8 = ((n % 8 : Nat) : Int) := tmod_nat n 8
  have c1 : ((m.bitsUsed : Int) ≤ n) = (m.bitsUsed ≤ n) := propext Int.ofNat_le
  have c2 : (((n / 8 : Nat) : Int) < m.arraySize) = (n / 8 < m.arraySize) := propext Int.ofNat_lt
  have c3 : (((n / 8 : Nat) : Int) < m.lastZero) = (n / 8 < m.lastZero) := propext Int.ofNat_lt
  have hnc : ¬ n / 8 < m.arraySize →
      Int.tdiv (((n / 8 : Nat) : Int) + 1 - m.arraySize) 64 + 1 = (((n / 8 + 1 - m.arraySize) / 64 + 1 : Nat) : Int) := by
    intro h
    have : ((n / 8 : Nat) : Int) + 1 - m.arraySize = ((n / 8 + 1 - m.arraySize : Nat) : Int) := by omega
    rw [this, show (64 : Int) = ((64 : Nat) : Int) from rfl, tdiv_nat]; omega
  have he1 : ¬ n / 8 < m.arraySize → ((m.arraySize : Int) + (((n / 8 + 1 - m.arraySize) / 64 + 1 : Nat) : Int) * 64) % 18446744073709551616 =
      ((m.arraySize + ((n / 8 + 1 - m.arraySize) / 64 + 1) * 64 : Nat) : Int) := by intro h; omega
  have he2 : (((n / 8 + 1 - m.arraySize) / 64 + 1 : Nat) : Int) * 64 % 18446744073709551616 =
      ((((n / 8 + 1 - m.arraySize) / 64 + 1) * 64 : Nat) : Int) := by omega
  have he3 : (m.arraySize : Int) + ((((n / 8 + 1 - m.arraySize) / 64 + 1) * 64 : Nat) : Int) =
      ((m.arraySize + ((n / 8 + 1 - m.arraySize) / 64 + 1) * 64 : Nat) : Int) := by omega
  have hlen := hs.len
  have hk : n % 8 < 8 := Nat.mod_lt _ (by omega)
  have hx1 := getD_lt_256 hs.bytes (n / 8)
  have hx2 := getD_append_zeros_lt hs.bytes (((n / 8 + 1 - m.arraySize) / 64 + 1) * 64) (n / 8)
  by_cases hv : v = 0 <;> by_cases h1 : m.bitsUsed ≤ n <;> by_cases h2 : n / 8 < m.arraySize <;> by_cases h3 : n / 8 < m.lastZero
  all_goals
    simp only [SetOut, bv_set, he1, he2, he3, Int.toNat_natCast, ints_length, hlen, realloc_memset _ _ _ (ints_length m.buf ▸ hlen),
      ints_append_zeros, ints_getD', clr_s32 _ _ hx1 hk, clr_s32 _ _ hx2 hk, or_s32 _ _ hx1 hk, or_s32 _ _ hx2 hk, ints_set_clr, ints_set_or, c1, c2, c3, hv, h1, h2, h3,
      bv_set.chk, bv_set.St.set_ret, bv_set.St.set_done, bv_set.St.set_base_elem, bv_set.St.set_bit_elem,
      bv_set.St.set_b_bits_used, bv_set.St.set_old_buf, bv_set.St.set_num_chunks, bv_set.St.set_new_size, bv_set.St.set_b_buffer,
      bv_set.St.set_extra_size, bv_set.St.set_b_array_size, bv_set.St.set_b_last_zero,
      hn0, hq, hr, hnc, Bool.false_eq_true, false_or, or_false, ite_true, ite_false, if_false, if_true,
      ge_iff_le, Bool.or_false, Bool.false_or, ne_eq, not_false_eq_true, decide_true, Bool.not_true, Int.reduceMod]
  all_goals first
    | (exfalso; have := hs.used; omega)
    | (refine ⟨?_, trivial, trivial, ?_⟩
       · have hbl : bv_bit_value.length = 8 := rfl
         simp [hbl, hlen]
         omega
       · simp [set_false_def, set_true_def, grow_def, h1, h2, h3] <;> omega)


/-! ## `Shape` is kept by the model operations -/

theorem Shape.of_inv {b : BV} (h : b.Inv) : Shape b := ⟨h.len, h.used, h.bytes, h.lzle⟩

theorem grow_shape {b : BV} (h : Shape b) (k : Nat) :
    Shape (b.grow k) ∧ k < (b.grow k).bitsUsed ∧ (b.grow k).lastZero = b.lastZero := by
  obtain ⟨hlen, hused, hbytes, hlzle⟩ := h
  rw [grow_def]
  split
  · split
    · exact ⟨⟨hlen, by simp only; omega, hbytes, by simp only; omega⟩, by simp, rfl⟩
    · refine ⟨⟨by simp [hlen], by simp only; omega, ?_, by simp only; omega⟩, by simp, rfl⟩
      intro x hx
      simp only [List.mem_append, List.mem_replicate] at hx
      rcases hx with hx | hx
      · exact hbytes x hx
      · omega
  · exact ⟨⟨hlen, hused, hbytes, hlzle⟩, by omega, rfl⟩

theorem set_shape {b : BV} (h : Shape b) (k : Nat) (v : Bool) : Shape (b.set k v) := by
  obtain ⟨⟨hlen, hused, hbytes, hlzle⟩, gk, glz⟩ := grow_shape h k
  have hm : k % 8 < 8 := Nat.mod_lt _ (by omega)
  cases v
  · rw [set_false_def]
    refine ⟨by simp [hlen], hused, ?_, ?_⟩
    · exact mem_modify_lt _ hbytes (fun x hx => Nat.lt_of_le_of_lt Nat.and_le_left hx)
    · simp only
      split <;> omega
  · rw [set_true_def]
    refine ⟨by simp [hlen], hused, ?_, hlzle⟩
    apply mem_modify_lt _ hbytes
    intro x hx
    rw [bitValue_eq hm]
    have h1 : x < 2 ^ 8 := hx
    have h2 : 2 ^ (k % 8) < 2 ^ 8 := Nat.pow_lt_pow_right (by omega) hm
    exact Nat.or_lt_two_pow h1 h2

/-- the sizes `bv_set` computes stay in `int32` when its inputs are (no signed overflow in `bit_num + 1`,
    `array_size + num_chunks * BV_CHUNK_SIZE`) -/
theorem set_bounds (b : BV) (k : Nat) (v : Bool) :
    (b.set k v).bitsUsed ≤ max b.bitsUsed (k + 1) ∧ (b.set k v).arraySize ≤ max b.arraySize (k / 8 + 65) := by
  have hg : (b.grow k).bitsUsed ≤ max b.bitsUsed (k + 1) ∧ (b.grow k).arraySize ≤ max b.arraySize (k / 8 + 65) := by
    rw [grow_def]
    split
    · split
      · simp only; omega
      · simp only; omega
    · omega
  cases v
  · rw [set_false_def]; exact hg
  · rw [set_true_def]; exact hg

theorem findNextZero_shape {b : BV} (h : Shape b) : Shape b.findNextZero.2 := by
  obtain ⟨s1, s2, s3, s4, s5⟩ := skipFull_spec (b.buf.drop b.lastZero) b.lastZero (b.bitsUsed / 8)
  rw [findNextZero_def]
  have := s5 h.lzle
  split
  · exact ⟨h.len, h.used, h.bytes, this⟩
  · split
    · exact ⟨h.len, h.used, h.bytes, this⟩
    · exact (set_shape h _ _ : Shape (b.set b.bitsUsed false))

/-! ## `bv_get` -/

/-- `buffer[i] & bv_bit_value[k]` at 32 bits -/
theorem and_s32 (x k : Nat) (hx : x < 256) :
    (if 2147483648 ≤ Int.ofNat (((x : Int) % 4294967296).toNat &&& (Int.ofNat (bv_bit_value.getD k 0) % 4294967296).toNat)
     then Int.ofNat (((x : Int) % 4294967296).toNat &&& (Int.ofNat (bv_bit_value.getD k 0) % 4294967296).toNat) - 4294967296
     else Int.ofNat (((x : Int) % 4294967296).toNat &&& (Int.ofNat (bv_bit_value.getD k 0) % 4294967296).toNat))
    = ((x &&& bitValue k : Nat) : Int) := by
  have h1 : ((x : Int) % 4294967296).toNat = x := by omega
  rw [h1]
  have h4 : x &&& (Int.ofNat (bv_bit_value.getD k 0) % 4294967296).toNat ≤ x := Nat.and_le_left
  rw [if_neg (by simp only [Int.ofNat_eq_natCast] at h4 ⊢; omega)]
  by_cases hk : k < 8
  · have hb : bitValue k < 2 ^ 8 := by
      rw [bitValue_eq hk]
      exact Nat.pow_lt_pow_right (by omega) hk
    have h2 : (Int.ofNat (bv_bit_value.getD k 0) % 4294967296).toNat = bitValue k := by
      show ((((bitValue k : Nat) : Int)) % 4294967296).toNat = _
      omega
    rw [h2]; rfl
  · have hz : bv_bit_value.getD k 0 = 0 := by
      rw [List.getD_eq_getElem?_getD, List.getElem?_eq_none (by show 8 ≤ k; omega)]; rfl
    have hz' : bitValue k = 0 := hz
    rw [hz, hz']
    simp

def GetOut (s : bv_get.St) (ret : Int) (m : BV) : Prop :=
  s.ub = false ∧ s.oof = false ∧ s.ret = ret ∧ s.b_bits_used = m.bitsUsed ∧ s.b_buffer = ints m.buf

theorem get_run (fuel : Nat) (m : BV) (hs : Shape m) (n : Nat) :
    GetOut (bv_get fuel false false m.bitsUsed (ints m.buf) n) (m.get n) m := by
  obtain ⟨hlen, hused, hbytes, hlzle⟩ := hs
  have hn0 : ¬ (n : Int) < 0 := by omega
  have hq : Int.tdiv (n : Int) 8 = ((n / 8 : Nat) : Int) := tdiv_nat n 8
  have hr : Int.tmod (n : Int) 8 = ((n % 8 : Nat) : Int) := tmod_nat n 8
  have c1 : ((m.bitsUsed : Int) ≤ n) = (m.bitsUsed ≤ n) := propext Int.ofNat_le
  have hx := getD_lt_256 hbytes (n / 8)
  have hk : n % 8 < 8 := Nat.mod_lt _ (by omega)
  have hbl : bv_bit_value.length = 8 := rfl
  unfold BV.get
  by_cases h1 : m.bitsUsed ≤ n
  all_goals
    simp only [GetOut, bv_get, hn0, hq, hr, c1, h1, Int.toNat_natCast, ints_getD', ints_length, hlen, and_s32 _ _ hx,
      bv_get.chk, bv_get.St.set_ret, bv_get.St.set_done, bv_get.St.set_base_elem, bv_get.St.set_bit_elem, bv_get.St.set_ret_value,
      Bool.false_eq_true, false_or, or_false, ite_true, ite_false, if_false, if_true, and_true, and_false, true_and, false_and,
      ge_iff_le, Bool.or_false, Bool.false_or, ne_eq, not_false_eq_true, not_true_eq_false, decide_true, Bool.not_true, Int.reduceMod,
      consts.1]
  · rfl
  · refine ⟨?_, ?_⟩
    · simp [hbl]; omega
    · rw [Nat.shiftRight_eq_div_pow]
      simp

/-! ## `bv_find_next_zero` -/

theorem fz_chk_true (s : bv_find_next_zero.St) (c : Prop) [Decidable c] (h : c) : bv_find_next_zero.chk s c = s := by
  simp [bv_find_next_zero.chk, h]

theorem skipFull_drop (buf : List Nat) (i by_ : Nat) :
    skipFull (buf.drop i) i by_ = if i < by_ ∧ buf.getD i 0 = 255 ∧ i < buf.length then skipFull (buf.drop (i + 1)) (i + 1) by_ else i := by
  by_cases hl : i < buf.length
  · rw [drop_cons_getD buf i hl, skipFull]
    simp only [List.getD_eq_getElem?_getD, hl, and_true]
  · rw [List.drop_of_length_le (by omega), skipFull]
    simp [hl]

/-- the `while (i < bytes_used && *tmp_buf == 255) { i++; tmp_buf++; }` loop is the model's `skipFull` -/
theorem loop0_run (buf : List Nat) (by_ : Nat) (hby : by_ ≤ buf.length) :
    ∀ (fuel : Nat) (s : bv_find_next_zero.St), 0 ≤ s.i → s.tmp_buf = s.i → s.bytes_used = (by_ : Int) → s.b_buffer = ints buf →
      s.done = false → by_ - s.i.toNat ≤ fuel →
      bv_find_next_zero.loop0 fuel s =
        { s with i := ((skipFull (buf.drop s.i.toNat) s.i.toNat by_ : Nat) : Int),
                 tmp_buf := ((skipFull (buf.drop s.i.toNat) s.i.toNat by_ : Nat) : Int) } := by
  intro fuel
  induction fuel with
  | zero =>
    intro s h0 ht hb hbuf hd hf
    obtain ⟨i, hi⟩ := Int.eq_ofNat_of_zero_le h0
    have hit : s.i.toNat = i := by omega
    rw [hit] at hf ⊢
    have hc : ¬(s.i < s.bytes_used) ∨ (0 ≤ s.tmp_buf ∧ s.tmp_buf < s.b_buffer.length) := by
      rw [ht, hb, hbuf, hi, ints_length]; omega
    have hcond' : ¬ (((s.i < s.bytes_used) ∧ ((s.b_buffer.getD (Int.toNat (s.tmp_buf)) 0) = 255)) ∧ ¬(s.done = true)) := by
      rw [hb, hi]; omega
    rw [bv_find_next_zero.loop0]
    simp only [fz_chk_true _ _ hc, if_neg hcond']
    rw [skipFull_drop buf i, if_neg (by omega)]
    cases s; simp_all
  | succ f ih =>
    intro s h0 ht hb hbuf hd hf
    obtain ⟨i, hi⟩ := Int.eq_ofNat_of_zero_le h0
    have hit : s.i.toNat = i := by omega
    rw [hit]
    have hc : ¬(s.i < s.bytes_used) ∨ (0 ≤ s.tmp_buf ∧ s.tmp_buf < s.b_buffer.length) := by
      rw [ht, hb, hbuf, hi, ints_length]; omega
    by_cases hcond : i < by_ ∧ buf.getD i 0 = 255
    · have hcond' : ((s.i < s.bytes_used) ∧ ((s.b_buffer.getD (Int.toNat (s.tmp_buf)) 0) = 255)) ∧ ¬(s.done = true) := by
        rw [ht, hb, hbuf, hi, hd, Int.toNat_natCast, ints_getD', hcond.2]; simp; omega
      rw [bv_find_next_zero.loop0]
      simp only [fz_chk_true _ _ hc, if_pos hcond']
      rw [ih _ (by simp [bv_find_next_zero.loop0.body]; omega) (by simp [bv_find_next_zero.loop0.body, ht]) (by simpa [bv_find_next_zero.loop0.body] using hb)
        (by simpa [bv_find_next_zero.loop0.body] using hbuf) (by simpa [bv_find_next_zero.loop0.body] using hd)
        (by simp [bv_find_next_zero.loop0.body, hi]; omega)]
      have : (bv_find_next_zero.loop0.body (f + 1) s).i.toNat = i + 1 := by simp [bv_find_next_zero.loop0.body, hi]
      rw [this, skipFull_drop buf i, if_pos ⟨hcond.1, hcond.2, by omega⟩]
      simp [bv_find_next_zero.loop0.body]
    · have hcond' : ¬ (((s.i < s.bytes_used) ∧ ((s.b_buffer.getD (Int.toNat (s.tmp_buf)) 0) = 255)) ∧ ¬(s.done = true)) := by
        rw [ht, hb, hbuf, hi, Int.toNat_natCast, ints_getD']
        intro ⟨⟨h1, h2⟩, _⟩
        exact hcond ⟨by omega, by omega⟩
      rw [bv_find_next_zero.loop0]
      simp only [fz_chk_true _ _ hc, if_neg hcond']
      rw [skipFull_drop buf i, if_neg (fun h => hcond ⟨h.1, h.2.1⟩)]
      cases s; simp_all

def FzOut (s : bv_find_next_zero.St) (ret : Int) (m : BV) : Prop :=
  s.ub = false ∧ s.oof = false ∧ s.ret = ret ∧ s.b_bits_used = m.bitsUsed ∧ s.b_array_size = m.arraySize ∧ s.b_last_zero = m.lastZero ∧ s.b_buffer = ints m.buf

theorem mask_s32 (x k : Nat) (hx : x < 256) (hk : k ≤ 8) :
    (if 2147483648 ≤ Int.ofNat (((x : Int) % 4294967296).toNat &&& (Int.ofNat (bv_bit_mask.getD k 0) % 4294967296).toNat)
     then Int.ofNat (((x : Int) % 4294967296).toNat &&& (Int.ofNat (bv_bit_mask.getD k 0) % 4294967296).toNat) - 4294967296
     else Int.ofNat (((x : Int) % 4294967296).toNat &&& (Int.ofNat (bv_bit_mask.getD k 0) % 4294967296).toNat)) % 256
    = ((x &&& bitMask k : Nat) : Int) := by
  have hb : bitMask k < 256 := by
    rw [bitMask_eq hk]
    have : 2 ^ k ≤ 2 ^ 8 := Nat.pow_le_pow_right (by omega) hk
    omega
  have h1 : ((x : Int) % 4294967296).toNat = x := by omega
  have h2 : (Int.ofNat (bv_bit_mask.getD k 0) % 4294967296).toNat = bitMask k := by
    show ((((bitMask k : Nat) : Int)) % 4294967296).toNat = _
    omega
  rw [h1, h2]
  have h4 : x &&& bitMask k ≤ x := Nat.and_le_left
  rw [if_neg (by simp only [Int.ofNat_eq_natCast]; omega)]
  simp only [Int.ofNat_eq_natCast]
  omega

set_option maxRecDepth 100000 in
theorem first_zero_length : bv_first_zero.length = 256 := by decide

theorem fz_run (fuel : Nat) (m : BV) (hs : Shape m) (hf : m.bitsUsed / 8 ≤ fuel) (hbu : m.bitsUsed < 2147483647) :
    FzOut (bv_find_next_zero fuel false false m.bitsUsed m.lastZero (ints m.buf) m.arraySize) m.findNextZero.1 m.findNextZero.2 := by
  obtain ⟨hlen, hused, hbytes, hlzle⟩ := hs
  have hby : m.bitsUsed / 8 ≤ m.buf.length := by omega
  obtain ⟨k1, k2, k3, k4, k5, k6, k7⟩ := set_run fuel m ⟨hlen, hused, hbytes, hlzle⟩ m.bitsUsed hbu 0
  obtain ⟨s1, s2, s3, s4, s5⟩ := skipFull_spec (m.buf.drop m.lastZero) m.lastZero (m.bitsUsed / 8)
  rw [findNextZero_def]
  generalize hj : skipFull (m.buf.drop m.lastZero) m.lastZero (m.bitsUsed / 8) = j at *
  have hjle : j ≤ m.bitsUsed / 8 := s5 hlzle
  have hlz0 : (m.lastZero : Int) ≥ 0 := by omega
  have hq : Int.tdiv (m.bitsUsed : Int) 8 = ((m.bitsUsed / 8 : Nat) : Int) := tdiv_nat _ 8
  have c1 : ((j : Int) < ((m.bitsUsed / 8 : Nat) : Int)) = (j < m.bitsUsed / 8) := propext Int.ofNat_lt
  have c2 : (((m.bitsUsed / 8 : Nat) : Int) * 8 < (m.bitsUsed : Int)) = (m.bitsUsed / 8 * 8 < m.bitsUsed) := propext (by omega)
  have c3 : (m.bitsUsed : Int) - ((m.bitsUsed / 8 : Nat) : Int) * 8 = ((m.bitsUsed - m.bitsUsed / 8 * 8 : Nat) : Int) := by omega
  have hx := getD_lt_256 hbytes j
  have c4 : ((((m.buf.getD j 0 &&& bitMask (m.bitsUsed - m.bitsUsed / 8 * 8) : Nat) : Int)) = 255) =
      (m.buf.getD j 0 &&& bitMask (m.bitsUsed - m.bitsUsed / 8 * 8) = 255) := propext (by omega)
  have hf' : m.bitsUsed / 8 - m.lastZero ≤ fuel := by omega
  have hbl := first_zero_length
  have hne : ((0 : Int) = -1) = False := by decide
  have h255 : ((255 : Nat) : Int) = 255 := rfl
  have hml : bv_bit_mask.length = 9 := rfl
  have hsl : m.buf.getD j 0 &&& bitMask (m.bitsUsed - m.bitsUsed / 8 * 8) < 256 := Nat.lt_of_le_of_lt Nat.and_le_left hx
  by_cases h1 : j < m.bitsUsed / 8 <;> by_cases h2 : m.bitsUsed / 8 * 8 < m.bitsUsed <;>
    by_cases h3 : m.buf.getD j 0 &&& bitMask (m.bitsUsed - m.bitsUsed / 8 * 8) = 255
  all_goals
    simp only [FzOut, bv_find_next_zero, hlz0, hq, c1, c2, c3, c4, h1, h2, h3, hj,
      loop0_run m.buf (m.bitsUsed / 8) hby, Int.toNat_natCast, Int.natCast_nonneg, hf', mask_s32 _ (m.bitsUsed - m.bitsUsed / 8 * 8) hx (by omega),
      ints_getD', ints_length, hlen,
      bv_find_next_zero.chk, bv_find_next_zero.St.join,
      bv_find_next_zero.St.set_ret, bv_find_next_zero.St.set_done, bv_find_next_zero.St.set_bytes_used, bv_find_next_zero.St.set_i,
      bv_find_next_zero.St.set_tmp_buf, bv_find_next_zero.St.set_b_last_zero, bv_find_next_zero.St.set_slush_bits,
      bv_find_next_zero.St.set_old_bits_used, bv_find_next_zero.St.set_b_bits_used, bv_find_next_zero.St.set_b_array_size,
      bv_find_next_zero.St.set_b_buffer,
      k1, k2, k3, k4, k5, k6, k7,
      Bool.false_eq_true, false_or, or_false, ite_true, ite_false, if_false, if_true, and_true, and_false, true_and, false_and,
      ge_iff_le, Bool.or_false, Bool.false_or, ne_eq, not_false_eq_true, not_true_eq_false, decide_true, Bool.not_true, Int.reduceMod, hne, h255]
  all_goals simp [hbl, hml, firstZero]
  all_goals
    have hx' : m.buf[j]?.getD 0 < 256 := by simpa using hx
    have hsl' : m.buf[j]?.getD 0 &&& bitMask (m.bitsUsed - m.bitsUsed / 8 * 8) < 256 := by simpa using hsl
    omega

end H4.Lemmas.C12Fn
