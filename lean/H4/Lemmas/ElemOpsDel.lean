import H4.Lemmas.ElemOpsStartWrite
import H4.Lemmas.ElemOpsFile
/-! `Hdeldd`: the DD of a user element is dropped; its data (and, for a linked-block element, its blocks) stay in the
    file as unreferenced space. -/
namespace H4.Elem
open H4.Gen.Hdf

/-- dropping the DD of a user element (plain or linked-block) keeps the file well-formed and every other element -/
theorem delete_user {f f' : File} (hw : WFE f) (i : Nat) (hut : baseTag (f.dd i).tag ≠ DFTAG_LINKED)
    (hdd : ∀ j, f'.dd j = if j = i then { f.dd i with tag := DFTAG_NULL } else f.dd j)
    (hdisk : f'.disk = f.disk) (hend : f'.endOff = f.endOff) (hlinks : f'.links = f.links) (hndds : f'.ndds = f.ndds) :
    WFE f' ∧ ∀ s, f.live s → s ≠ i → f'.slotBytes s = f.slotBytes s := by
  have hkeep : ∀ j, j ≠ i → f'.dd j = f.dd j := by intro j hj; rw [hdd]; simp [hj]
  have hlive : ∀ j, f'.live j ↔ (f.live j ∧ j ≠ i) := by
    intro j
    unfold File.live
    by_cases e : j = i
    · subst e; rw [hdd]; simp
    · rw [hkeep j e]; simp [e]
  have hw' : WFF f' := by
    refine ⟨by rw [hndds]; exact hw.ndds_pos, ?_, ?_, ?_, ?_⟩
    · intro j o l hj he
      obtain ⟨h1, h2⟩ := (hlive j).mp hj
      rw [hkeep j h2] at he; rw [hend]; exact hw.ext_le j o l h1 he
    · intro a b oa la ob lb hab ha hb hea heb
      obtain ⟨a1, a2⟩ := (hlive a).mp ha
      obtain ⟨b1, b2⟩ := (hlive b).mp hb
      rw [hkeep a a2] at hea; rw [hkeep b b2] at heb
      exact hw.disj a b oa la ob lb hab a1 b1 hea heb
    · intro k hk; rw [hdisk]; rw [hend] at hk; exact hw.tail0 k hk
    · intro a b ha hb ht hr
      obtain ⟨a1, a2⟩ := (hlive a).mp ha
      obtain ⟨b1, b2⟩ := (hlive b).mp hb
      rw [hkeep a a2, hkeep b b2] at ht hr
      exact hw.uniq a b a1 b1 ht hr
  -- block slots are never the deleted one
  have hblk_ne : ∀ li j, f.blockSlotOf li j → j ≠ i := by
    intro li j ⟨t, idx, _, hk⟩ e
    subst e
    exact hut (by rw [hk.2.1]; rfl)
  have hblk' : ∀ li j, f'.blockSlotOf li j → f.blockSlotOf li j := by
    intro li j ⟨t, idx, h0, hk⟩
    obtain ⟨_, h2⟩ := (hlive j).mp hk.1
    exact ⟨t, idx, h0, (hasKey_congr (by rw [hkeep j h2]) (by rw [hkeep j h2])).mp hk⟩
  have hlink : ∀ k, f'.link k = f.link k := link_of_links hlinks
  have hfr : ∀ s, f.live s → s ≠ i → f'.slotBytes s = f.slotBytes s := by
    intro s hs hne
    apply slotBytes_frame hw hw' s hs (fun j => j = i)
    · intro j _ hj; exact hkeep j hj
    · exact hlink _
    · intro x _ _; rw [hdisk]
    · exact hne
    · intro _ li _ j hb; exact hblk_ne li j hb
  refine ⟨⟨hw', ?_, ?_, ?_⟩, hfr⟩
  · intro s hs hsp
    obtain ⟨s1, s2⟩ := (hlive s).mp hs
    rw [hkeep s s2] at hsp ⊢
    obtain ⟨li, ho, hl, h1, h2, h3, h4⟩ := hw.linked_ok s s1 hsp
    refine ⟨li, ho, hl, ?_, ?_, h3, h4⟩
    · rw [keyOf_eq (hkeep s s2), hlink]; exact h1
    · exact h2.frame hw' (fun j hj => hkeep j (hblk_ne li j hj)) (fun _ _ _ _ _ _ _ _ => by rw [hdisk])
  · intro s hs hsp
    obtain ⟨s1, s2⟩ := (hlive s).mp hs
    rw [hkeep s s2] at hsp ⊢
    exact hw.hdr_tag s s1 hsp
  · intro s1 s2 li1 li2 j h1 hp1 h2 hp2 hl1 hl2 hb1 hb2
    obtain ⟨a1, a2⟩ := (hlive s1).mp h1
    obtain ⟨b1, b2⟩ := (hlive s2).mp h2
    rw [hkeep s1 a2] at hp1
    rw [hkeep s2 b2] at hp2
    rw [keyOf_eq (hkeep s1 a2), hlink] at hl1
    rw [keyOf_eq (hkeep s2 b2), hlink] at hl2
    exact hw.own s1 s2 li1 li2 j a1 hp1 b1 hp2 hl1 hl2 (hblk' li1 j hb1) (hblk' li2 j hb2)

theorem stepOK_deldd (w : World) (hw : WFW w) (fi tag ref : Nat) (hsafe : OpSafe w (.deldd fi tag ref)) :
    StepOK w (.deldd fi tag ref) := by
  obtain ⟨hu, hnoh⟩ := hsafe
  have hbase : baseTag tag = tag := userKey_base hu
  by_cases hop' : (w.file fi).isOpen = false
  · exact stepOK_fail_same w hw _ (by simp only [step, hdeldd]; rw [if_pos (by simp [hop'])])
  have hop : (w.file fi).isOpen = true := by simpa using hop'
  have hfi := file_lt_of_open w fi hop
  cases hsel : (w.file fi).select tag ref with
  | none => exact stepOK_fail_same w hw _ (by simp only [step, hdeldd]; rw [if_neg (by simp [hop])]; simp only [hsel])
  | some i =>
    have hstep : step w (.deldd fi tag ref) = (w.setFile fi ((w.file fi).ddDelete i), .ok) := by
      simp only [step, hdeldd]; rw [if_neg (by simp [hop])]; simp only [hsel]
    have hk := select_some _ _ _ i hsel
    have hE := hw.files fi
    have hil := live_lt _ i hk.1
    have hkey : (w.file fi).keyOf i = (tag, ref) := keyOf_of_hasKey (k := (tag, ref)) hu hk
    have hbt : baseTag ((w.file fi).dd i).tag = tag := by rw [hk.2.1, hbase]
    have hdd := fun j => ddDelete_dd (w.file fi) i j hil
    have hend : ((w.file fi).ddDelete i).endOff = (w.file fi).endOff := by
      rw [ddDelete_endOff]
      cases hx : ((w.file fi).dd i).ext with
      | none => rfl
      | some e =>
        obtain ⟨o, l⟩ := e
        have := hE.ext_le i o l hk.1 hx
        simp only
        exact Nat.max_eq_left this
    obtain ⟨E1, hfr⟩ := delete_user hE i (by rw [hbt]; exact hu.2.1) hdd (ddDelete_disk _ i) hend (ddDelete_links _ i) (ddDelete_ndds _ i)
    have hC1 := coh_ddDelete (hw.coh fi) i hil
    have hkeep : ∀ j, j ≠ i → ((w.file fi).ddDelete i).dd j = (w.file fi).dd j := by intro j hj; rw [hdd]; simp [hj]
    have hnoi := hnoh i hsel
    have hfile : ∀ j, (w.setFile fi ((w.file fi).ddDelete i)).file j = if j = fi then (w.file fi).ddDelete i else w.file j :=
      fun j => file_setFile w fi j _ hfi
    -- dd of the slot behind any access record is unchanged
    have hslot : ∀ h a, w.acc h = some a → ((w.setFile fi ((w.file fi).ddDelete i)).file a.file).dd a.slot = (w.file a.file).dd a.slot := by
      intro h a ha
      rw [hfile]
      by_cases e : a.file = fi
      · rw [if_pos e, e]
        exact hkeep _ (fun es => hnoi h a ha ⟨e, es⟩)
      · rw [if_neg e]
    unfold StepOK
    rw [hstep]
    refine ⟨⟨?_, ?_, ?_⟩, (abs w).setElem fi (tag, ref) none, by simp only [specStep, hbase], ?_, ?_, ?_⟩
    · intro j; rw [hfile]; split
      · exact E1
      · exact hw.files j
    · intro j; rw [hfile]; split
      · exact hC1
      · exact hw.coh j
    · intro h a ha
      rw [acc_setFile] at ha
      have e := hslot h a ha
      exact (hw.handles h a ha).transfer (by rw [e]) (by rw [e]) (by rw [e]; exact id)
    · intro j
      show (w.file j).present = ((w.setFile fi ((w.file fi).ddDelete i)).file j).present
      rw [hfile]; split
      · rename_i e; rw [e, ddDelete_present]
      · rfl
    · intro j k hk'
      show (if j = fi ∧ k = (tag, ref) then none else (w.file j).elem k.1 k.2) = ((w.setFile fi ((w.file fi).ddDelete i)).file j).elem k.1 k.2
      rw [hfile]
      by_cases ej : j = fi
      · subst ej
        simp only [true_and, if_true]
        by_cases ek : k = (tag, ref)
        · subst ek
          rw [if_pos rfl]
          symm
          unfold File.elem
          rw [select_none_of]; rfl
          intro x hx
          by_cases ex : x = i
          · subst ex
            apply hx.1
            rw [hdd]; simp
          · have : (w.file j).hasKey x tag ref := (hasKey_congr (by rw [hkeep x ex]) (by rw [hkeep x ex])).mp hx
            have hxi := hE.uniq x i this.1 hk.1 (by rw [this.2.1, hk.2.1]) (by rw [this.2.2, hk.2.2])
            exact ex hxi
        · rw [if_neg ek]
          symm
          apply elem_frame hE.toWFF E1.toWFF
          · intro x
            by_cases ex : x = i
            · subst ex
              constructor
              · intro hx; exfalso; apply hx.1; rw [hdd]; simp
              · intro hx; exact absurd ((keyOf_of_hasKey hk' hx).symm.trans hkey) ek
            · exact hasKey_congr (by rw [hkeep x ex]) (by rw [hkeep x ex])
          · intro x hx
            have hxi : x ≠ i := fun e => ek ((keyOf_of_hasKey hk' (e ▸ hx)).symm.trans hkey)
            exact hfr x hx.1 hxi
      · simp only [ej, false_and, if_false]
    · intro h
      simp only [View.setElem, abs_hnd, acc_setFile]
      cases ha : w.acc h with
      | none => rfl
      | some a =>
        simp only [Option.map_some]
        have e := hslot h a ha
        have : ((w.setFile fi ((w.file fi).ddDelete i)).file a.file).keyOf a.slot = (w.file a.file).keyOf a.slot := keyOf_eq e
        rw [this]

end H4.Elem
