import H4.Lemmas.C07Fn7
/-! Lemmas for `H4.Props.C07Fn3`, part 6: positions of the fields of a DFTAG_VH record, the phases cumulated (`mid8_ok`: interlace ..
    the middle trailer copies; `tail_ok`: version-4 fields, old-type mapping, esize) and the whole translated `vunpackvs` on an accepted
    record (`run_ok`, `run_hi`).  Core only. -/
set_option linter.unusedSimpArgs false
set_option linter.unusedVariables false
namespace H4.Lemmas.C07Fn3
open H4 H4.Gen.Hdf H4.Gen.Fn.Vio3 H4.C2L
open H4.Lemmas.C08Fn3 (andS orS andU orU andS_255 andU_255 b8 be16 be32 b8_range b8_nat or_add or_add' orS_nat orU_nat v16 S32 orS_S32 orS_S32i
  nattrs_val flags_val be16N be16_eq be16N_lt be32N be32_eq be32N_lt w16 take_takeWhile_length vals vals_length vals_succ fill fill_nil fill_length
  fill_snoc strAt attr_bit)

/-! ## positions of the fields of a DFTAG_VH record (functions of the buffer) -/

/-- `nfields` -/
def nfN (B : List Int) : Nat := be16N B 8
/-- position of the first field name -/
def pNm (B : List Int) : Nat := 10 + 8 * nfN B
/-- position of the `vsname` length prefix -/
def pVn (B : List Int) : Nat := namePos B (pNm B) (nfN B)
def lVn (B : List Int) : Nat := be16N B (pVn B)
/-- position of the `vsclass` length prefix -/
def pVc (B : List Int) : Nat := pVn B + 2 + lVn B
def lVc (B : List Int) : Nat := be16N B (pVc B)
/-- position of `extag` -/
def pEx (B : List Int) : Nat := pVc B + 2 + lVc B

def Sm3 (B : List Int) (s : St) : St := SFix (·.vs_vsname) vunpackvs.St.set_vs_vsname B (STable B (SHead B s) (nfN B)) (pVn B)
def Sm4 (B : List Int) (s : St) : St := SFix (·.vs_vsclass) vunpackvs.St.set_vs_vsclass B (Sm3 B s) (pVc B)
def Sm5 (B : List Int) (s : St) : St := ((Sm4 B s).set_vs_extag (be16 B (pEx B))).set_bb ((pEx B + 2 : Nat) : Int)
def Sm6 (B : List Int) (s : St) : St := ((Sm5 B s).set_vs_exref (be16 B (pEx B + 2))).set_bb ((pEx B + 2 + 2 : Nat) : Int)
def Sm7 (B : List Int) (s : St) : St := ((Sm6 B s).set_temp (w16 (be16 B (pEx B + 2 + 2)))).set_bb ((pEx B + 2 + 2 + 2 : Nat) : Int)
/-- the state after the two middle trailer copies (cursor at `pEx B + 8`) -/
def Sm8 (B : List Int) (s : St) : St := ((Sm7 B s).set_temp (w16 (be16 B (pEx B + 2 + 2 + 2)))).set_bb ((pEx B + 2 + 2 + 2 + 2 : Nat) : Int)

/-- what the record must satisfy up to the middle trailer copies for the translated code to read it without undefined behaviour:
    a field count and name lengths that are non-negative as `int16`, everything inside the buffer, `vsname` / `vsclass` (up to their
    first NUL) fitting the arrays of `*vs`, the middle copies equal to the trailer -/
structure HeadOK (B : List Int) (s : St) : Prop where
  nf : nfN B < 32768
  names : ∀ t, t < nfN B → nameLen B (pNm B) t < 32768
  lvn : lVn B < 32768
  lvc : lVc B < 32768
  inside : pEx B + 8 ≤ B.length
  fitn : (((B.drop (pVn B + 2)).take (lVn B)).takeWhile (· ≠ 0)).length + 1 ≤ s.vs_vsname.length
  fitc : (((B.drop (pVc B + 2)).take (lVc B)).takeWhile (· ≠ 0)).length + 1 ≤ s.vs_vsclass.length
  ver : w16 (be16 B (pEx B + 4)) = s.vs_version
  more : w16 (be16 B (pEx B + 6)) = s.vs_more

theorem STable_proj {α} (f : St → α) (B : List Int) (s : St) (n : Nat) (h0 : f (phNoFields s) = f s) (h1 : f (SF7 B s n) = f s) :
    f (STable B s n) = f s := by
  simp only [STable]; split
  · exact h0
  · exact h1

theorem STable_vsname (B : List Int) (s : St) (n : Nat) : (STable B s n).vs_vsname = s.vs_vsname :=
  STable_proj (·.vs_vsname) B s n rfl rfl
theorem STable_vsclass (B : List Int) (s : St) (n : Nat) : (STable B s n).vs_vsclass = s.vs_vsclass :=
  STable_proj (·.vs_vsclass) B s n rfl rfl
theorem STable_version (B : List Int) (s : St) (n : Nat) : (STable B s n).vs_version = s.vs_version :=
  STable_proj (·.vs_version) B s n rfl rfl
theorem STable_more (B : List Int) (s : St) (n : Nat) : (STable B s n).vs_more = s.vs_more :=
  STable_proj (·.vs_more) B s n rfl rfl

/-- **interlace .. the middle trailer copies** -/
theorem mid8_ok (M D : Int → Int) {B s} (h : Ok B s 0) (fuel : Nat) (hk : HeadOK B s) (hf : nfN B ≤ fuel) :
    phMid (phMid (phExref (phExtag (phStr (phStr (phTable M D fuel (phHead s)) (·.vs_vsname) vunpackvs.St.set_vs_vsname) (·.vs_vsclass)
      vunpackvs.St.set_vs_vsclass))) (·.vs_version)) (·.vs_more) = Sm8 B s ∧ Ok B (Sm8 B s) (pEx B + 8) := by
  obtain ⟨k1, k2, k3, k4, k5, k6, k7, k8, k9⟩ := hk
  have hpos : pNm B = 10 + 8 * nfN B ∧ pVn B = namePos B (pNm B) (nfN B) ∧ pVc B = pVn B + 2 + lVn B ∧ pEx B = pVc B + 2 + lVc B := ⟨rfl, rfl, rfl, rfl⟩
  have hmono := namePos_mono B (pNm B) 0 (nfN B) (by omega)
  have hp0 : namePos B (pNm B) 0 = pNm B := rfl
  obtain ⟨q1, o1⟩ := phHead_ok h (by omega) k1
  obtain ⟨q2, o2⟩ := phTable_ok M D o1 fuel (nfN B) rfl k1 k2 (by show pVn B ≤ _; omega) hf
  have o2' : Ok B (STable B (SHead B s) (nfN B)) (pVn B) := o2
  obtain ⟨q3, o3⟩ := phStr_ok (·.vs_vsname) vunpackvs.St.set_vs_vsname (frame_rfl _) (fun _ _ _ => rfl) (fun _ _ => rfl) (fun _ _ _ _ => rfl) o2'
    (by show pVn B + 2 + lVn B ≤ _; omega) k3 (by rw [STable_vsname]; exact k6)
  have o3' : Ok B (Sm3 B s) (pVc B) := o3
  obtain ⟨q4, o4⟩ := phStr_ok (·.vs_vsclass) vunpackvs.St.set_vs_vsclass (frame_rfl _) (fun _ _ _ => rfl) (fun _ _ => rfl) (fun _ _ _ _ => rfl) o3'
    (by show pVc B + 2 + lVc B ≤ _; omega) k4 (by
      show _ ≤ (STable B (SHead B s) (nfN B)).vs_vsclass.length
      rw [STable_vsclass]; exact k7)
  have o4' : Ok B (Sm4 B s) (pEx B) := o4
  obtain ⟨q5, o5⟩ := phExtag_ok o4' (by omega)
  obtain ⟨q6, o6⟩ := phExref_ok o5 (by omega)
  have v6 : (Sm6 B s).vs_version = s.vs_version := by
    show (STable B (SHead B s) (nfN B)).vs_version = _
    rw [STable_version]; rfl
  have m6 : (Sm6 B s).vs_more = s.vs_more := by
    show (STable B (SHead B s) (nfN B)).vs_more = _
    rw [STable_more]; rfl
  have e4 : pEx B + 2 + 2 = pEx B + 4 := by omega
  have e6 : pEx B + 2 + 2 + 2 = pEx B + 6 := by omega
  obtain ⟨q7, o7⟩ := phMid_ok (show Ok B (Sm6 B s) (pEx B + 2 + 2) from o6) (·.vs_version) (fun _ _ _ => rfl) (by omega) (by rw [e4, v6]; exact k8)
  obtain ⟨q8, o8⟩ := phMid_ok (show Ok B (Sm7 B s) (pEx B + 2 + 2 + 2) from o7) (·.vs_more) (fun _ _ _ => rfl) (by omega) (by
    rw [e6]; show _ = (Sm6 B s).vs_more; rw [m6]; exact k9)
  refine ⟨?_, by have e8 : pEx B + 2 + 2 + 2 + 2 = pEx B + 8 := by omega
                 rw [← e8]; exact o8⟩
  have q3' : phStr (STable B (SHead B s) (nfN B)) (·.vs_vsname) vunpackvs.St.set_vs_vsname = Sm3 B s := q3
  have q4' : phStr (Sm3 B s) (·.vs_vsclass) vunpackvs.St.set_vs_vsclass = Sm4 B s := q4
  have q5' : phExtag (Sm4 B s) = Sm5 B s := q5
  have q6' : phExref (Sm5 B s) = Sm6 B s := q6
  have q7' : phMid (Sm6 B s) (·.vs_version) = Sm7 B s := q7
  have q8' : phMid (Sm7 B s) (·.vs_more) = Sm8 B s := q8
  rw [q1, q2, q3', q4', q5', q6', q7', q8']

/-! ## the tail: version-4 fields, old-type mapping, `esize`, epilogue -/

/-- the state after the version-4 block (`p` = position behind the middle trailer copies) -/
def SV4 (B : List Int) (s : St) (p : Nat) : St :=
  if s.vs_version = 4 then
    (if be32N B p % 2 = 1 then SAttr B s p (be32N B (p + 4)) else (s.set_vs_flags (be32 B p)).set_bb ((p + 4 : Nat) : Int))
  else s

/-- where the version-4 block ends -/
def endV4 (B : List Int) (ver : Int) (p : Nat) : Nat :=
  if ver = 4 then (if be32N B p % 2 = 1 then p + 8 + 8 * be32N B (p + 4) else p + 4) else p

theorem SV4_proj {α} (f : St → α) (B : List Int) (s : St) (p : Nat) (h1 : ∀ na, f (SAttr B s p na) = f s)
    (h2 : ∀ v w, f (vunpackvs.St.set_bb (vunpackvs.St.set_vs_flags s v) w) = f s) : f (SV4 B s p) = f s := by
  simp only [SV4]; split
  · split
    · exact h1 _
    · exact h2 _ _
  · rfl

theorem phV4_all (M D : Int → Int) {B s p} (h : Ok B s p) (fuel : Nat)
    (hin : s.vs_version = 4 → p + 4 ≤ B.length ∧ (be32N B p % 2 = 1 → be32N B (p + 4) < 2147483648 ∧ p + 8 + 8 * be32N B (p + 4) ≤ B.length ∧
      be32N B (p + 4) ≤ fuel)) :
    phV4 M D fuel s = SV4 B s p ∧ Ok B (SV4 B s p) (endV4 B s.vs_version p) := by
  simp only [SV4, endV4]
  by_cases hv : s.vs_version = 4
  · obtain ⟨h4, ha⟩ := hin hv
    rw [if_pos hv, if_pos hv]
    by_cases hb : be32N B p % 2 = 1
    · obtain ⟨a1, a2, a3⟩ := ha hb
      rw [if_pos hb, if_pos hb]
      exact phV4_attrs M D h fuel hv hb a1 a2 a3
    · rw [if_neg hb, if_neg hb]
      exact phV4_flags M D h fuel hv h4 (by omega)
  · rw [if_neg hv, if_neg hv]
    exact ⟨phV4_old M D h fuel hv, h⟩

theorem loop6_zero (M D : Int → Int) (fuel : Nat) (s : St) (hn : s.vs_wlist_n = 0) (hi : s.i = 0) : vunpackvs.loop6 M D fuel s = s := by
  have c : ¬ ((s.i < s.vs_wlist_n) ∧ ¬(s.done ∨ s.gto)) := by rw [hn, hi]; simp
  cases fuel <;> (rw [vunpackvs.loop6]; exact if_neg c)

theorem loop7_zero (M D : Int → Int) (fuel : Nat) (s : St) (hn : s.vs_wlist_n = 0) (hi : s.i = 0) : vunpackvs.loop7 M D fuel s = s := by
  have c : ¬ ((s.i < s.vs_wlist_n) ∧ ¬(s.done ∨ s.gto)) := by rw [hn, hi]; simp
  cases fuel <;> (rw [vunpackvs.loop7]; exact if_neg c)

/-- the state after the old-type mapping (`n` fields, type cursor 0) -/
def SOld (M : Int → Int) (s : St) (n : Nat) : St :=
  if s.vs_version ≤ 2 then (if n = 0 then s.set_i 0 else F6 M (s.set_i 0) 0 n) else s

theorem phOld_all (M D : Int → Int) {B s p} (h : Ok B s p) (fuel n : Nat) (hn : s.vs_wlist_n = (n : Int))
    (hc : 0 < n → s.vs_wlist_type = 0 ∧ n ≤ s.vs_wlist_bptr.length) (hf : n ≤ fuel) :
    phOld M D fuel s = SOld M s n ∧ Ok B (SOld M s n) p := by
  simp only [SOld]
  by_cases hv : s.vs_version ≤ 2
  · rw [if_pos hv]
    by_cases h0 : n = 0
    · subst h0
      rw [if_pos rfl, phOld, guard_ok h]
      simp only [if_pos hv]
      rw [loop6_zero M D fuel _ (by show s.vs_wlist_n = 0; rw [hn]; rfl) rfl]
      exact ⟨rfl, ⟨h.buf, h.bb, h.ub, h.oof, h.done, h.gto⟩⟩
    · rw [if_neg h0]
      obtain ⟨c1, c2⟩ := hc (by omega)
      exact phOld_old M D h fuel hv n 0 hn (by rw [c1]; rfl) (by omega) hf
  · rw [if_neg hv]
    exact ⟨phOld_new M D h fuel hv, h⟩

/-- the state after the `esize` loop (`n` fields; cursors type 0, order `3 n`, esize `4 n`) -/
def SEs (D : Int → Int) (s : St) (n : Nat) : St := if n = 0 then s.set_i 0 else F7 D (s.set_i 0) 0 (3 * n) (4 * n) n

theorem phEs_all (M D : Int → Int) {B s p} (h : Ok B s p) (fuel n : Nat) (hn : s.vs_wlist_n = (n : Int))
    (hc : 0 < n → s.vs_wlist_type = 0 ∧ s.vs_wlist_order = ((3 * n : Nat) : Int) ∧ s.vs_wlist_esize = ((4 * n : Nat) : Int) ∧ 5 * n ≤ s.vs_wlist_bptr.length)
    (hf : n ≤ fuel) :
    phLoop s (vunpackvs.loop7 M D fuel) = SEs D s n ∧ Ok B (SEs D s n) p := by
  rw [phLoop_ok h]
  simp only [SEs]
  by_cases h0 : n = 0
  · subst h0
    rw [if_pos rfl, loop7_zero M D fuel _ (by show s.vs_wlist_n = 0; rw [hn]; rfl) rfl]
    exact ⟨rfl, ⟨h.buf, h.bb, h.ub, h.oof, h.done, h.gto⟩⟩
  · rw [if_neg h0]
    obtain ⟨c1, c2, c3, c4⟩ := hc (by omega)
    exact loop7_ok M D (show Ok B (s.set_i 0) p from ⟨h.buf, h.bb, h.ub, h.oof, h.done, h.gto⟩) n fuel 0 (3 * n) (4 * n) rfl hn
      (by show s.vs_wlist_type = _; rw [c1]; rfl) c2 c3 (by omega) (by omega) (by show 4 * n + n ≤ s.vs_wlist_bptr.length; omega) hf

/-- the field table as the tail needs it: `n` fields; for `n > 0` the cursors `0 / 3n / 4n` into a block of `5 n` cells -/
structure TableOK (s : St) (n : Nat) : Prop where
  nf : s.vs_wlist_n = (n : Int)
  type : 0 < n → s.vs_wlist_type = 0
  order : 0 < n → s.vs_wlist_order = ((3 * n : Nat) : Int)
  esize : 0 < n → s.vs_wlist_esize = ((4 * n : Nat) : Int)
  len : 0 < n → s.vs_wlist_bptr.length = 5 * n

theorem TableOK.of_eq {s s' : St} {n : Nat} (h : TableOK s n) (e1 : s'.vs_wlist_n = s.vs_wlist_n) (e2 : s'.vs_wlist_type = s.vs_wlist_type)
    (e3 : s'.vs_wlist_order = s.vs_wlist_order) (e4 : s'.vs_wlist_esize = s.vs_wlist_esize) (e5 : s'.vs_wlist_bptr.length = s.vs_wlist_bptr.length) :
    TableOK s' n :=
  ⟨by rw [e1]; exact h.nf, fun x => by rw [e2]; exact h.type x, fun x => by rw [e3]; exact h.order x, fun x => by rw [e4]; exact h.esize x,
   fun x => by rw [e5]; exact h.len x⟩

theorem SV4_table (B : List Int) (s : St) (p n : Nat) (h : TableOK s n) : TableOK (SV4 B s p) n :=
  h.of_eq (SV4_proj (·.vs_wlist_n) B s p (fun _ => rfl) (fun _ _ => rfl)) (SV4_proj (·.vs_wlist_type) B s p (fun _ => rfl) (fun _ _ => rfl))
    (SV4_proj (·.vs_wlist_order) B s p (fun _ => rfl) (fun _ _ => rfl)) (SV4_proj (·.vs_wlist_esize) B s p (fun _ => rfl) (fun _ _ => rfl))
    (SV4_proj (·.vs_wlist_bptr.length) B s p (fun _ => rfl) (fun _ _ => rfl))

theorem SOld_table (M : Int → Int) (s : St) (n : Nat) (h : TableOK s n) : TableOK (SOld M s n) n := by
  simp only [SOld]
  split
  · split
    · exact h.of_eq rfl rfl rfl rfl rfl
    · rename_i h0
      refine h.of_eq rfl rfl rfl rfl ?_
      show (fill s.vs_wlist_bptr 0 _).length = _
      rw [fill_length _ _ _ (by simp; rw [h.len (by omega)]; omega)]
  · exact h

/-- **the tail of the function** from the cursor position `p` behind the middle trailer copies -/
theorem tail_ok (M D : Int → Int) {B s p} (h : Ok B s p) (fuel n : Nat) (ht : TableOK s n)
    (hin : s.vs_version = 4 → p + 4 ≤ B.length ∧ (be32N B p % 2 = 1 → be32N B (p + 4) < 2147483648 ∧ p + 8 + 8 * be32N B (p + 4) ≤ B.length ∧
      be32N B (p + 4) ≤ fuel)) (hf : n ≤ fuel) :
    phLoop (phOld M D fuel (phV4 M D fuel s)) (vunpackvs.loop7 M D fuel) = SEs D (SOld M (SV4 B s p) n) n ∧
      Ok B (SEs D (SOld M (SV4 B s p) n) n) (endV4 B s.vs_version p) := by
  obtain ⟨q1, o1⟩ := phV4_all M D h fuel hin
  have t1 := SV4_table B s p n ht
  obtain ⟨q2, o2⟩ := phOld_all M D o1 fuel n t1.nf (fun x => ⟨t1.type x, by rw [t1.len x]; omega⟩) hf
  have t2 := SOld_table M _ n t1
  obtain ⟨q3, o3⟩ := phEs_all M D o2 fuel n t2.nf (fun x => ⟨t2.type x, t2.order x, t2.esize x, by rw [t2.len x]; omega⟩) hf
  rw [q1, q2, q3]
  exact ⟨rfl, o3⟩

theorem SF5_len (B : List Int) (s : St) (n : Nat) : (SF5 B s n).vs_wlist_bptr.length = 5 * n := by
  have len2 : (SF2 B s n).vs_wlist_bptr.length = 5 * n := by
    show (fill (List.replicate (5 * n) 170) 0 _).length = _
    rw [fill_length _ _ _ (by simp; omega)]; simp
  have len3 : (SF3 B s n).vs_wlist_bptr.length = 5 * n := by
    show (fill (SF2 B s n).vs_wlist_bptr (2 * n) _).length = _
    rw [fill_length _ _ _ (by simp [idv]; rw [len2]; omega), len2]
  have len4 : (SF4 B s n).vs_wlist_bptr.length = 5 * n := by
    show (fill (SF3 B s n).vs_wlist_bptr n _).length = _
    rw [fill_length _ _ _ (by simp [idv]; rw [len3]; omega), len3]
  show (fill (SF4 B s n).vs_wlist_bptr (3 * n) _).length = _
  rw [fill_length _ _ _ (by simp [idv]; rw [len4]; omega), len4]

theorem STable_table (B : List Int) (s : St) (n : Nat) (hn : s.vs_wlist_n = (n : Int)) : TableOK (STable B s n) n := by
  refine ⟨by rw [STable_proj (·.vs_wlist_n) B s n rfl rfl]; exact hn, ?_, ?_, ?_, ?_⟩ <;> intro h0 <;> simp only [STable, if_neg (show ¬ n = 0 by omega)]
  · rfl
  · rfl
  · rfl
  · exact SF5_len B s n

theorem Sm8_table (B : List Int) (s : St) : TableOK (Sm8 B s) (nfN B) :=
  (STable_table B (SHead B s) (nfN B) rfl).of_eq rfl rfl rfl rfl rfl

theorem Sm8_version (B : List Int) (s : St) : (Sm8 B s).vs_version = s.vs_version := by
  show (STable B (SHead B s) (nfN B)).vs_version = _
  rw [STable_version]; rfl

/-- the state `done: return ret_value;` leaves -/
def Epi (s : St) : St := ((s.set_gto false).set_ret s.ret_value).set_done true

/-- what the caller must provide: the buffer, `len`, the flags of a fresh state -/
structure Init (B : List Int) (L : Nat) (s : St) : Prop where
  buf : s.buf = B
  len : s.len = L
  ub : s.ub = false
  oof : s.oof = false
  done : s.done = false
  gto : s.gto = false

/-- the final state on an accepted record of version ≤ 4 -/
def SFin (M D : Int → Int) (B : List Int) (L : Nat) (s : St) : St :=
  Epi (SEs D (SOld M (SV4 B (Sm8 B (SPre B L s)) (pEx B + 8)) (nfN B)) (nfN B))

/-- a version above 4: only `version` and `more` are set -/
theorem run_hi (M D : Int → Int) {B L s} (h : Init B L s) (fuel : Nat) (h5 : 5 ≤ L) (hL : L ≤ B.length) (hv : ¬ w16 (be16 B (L - 5)) ≤ 4) :
    run M D fuel s = Epi (SPre B L s) ∧ (Epi (SPre B L s)).ub = false ∧ (Epi (SPre B L s)).oof = false ∧ (Epi (SPre B L s)).ret = 0 := by
  obtain ⟨q, o⟩ := phPre_ok B L s h.buf h.len h5 hL h.ub h.oof h.done h.gto
  refine ⟨?_, o.ub, o.oof, rfl⟩
  simp only [run]
  rw [q, if_neg (show ¬ (SPre B L s).vs_version ≤ 4 from hv), phEpi_ok _ o.done]
  rfl

/-- **the whole function on a record of version ≤ 4 that satisfies `HeadOK` and whose version-4 fields are inside the buffer** -/
theorem run_ok (M D : Int → Int) {B L s} (h : Init B L s) (fuel : Nat) (h5 : 5 ≤ L) (hL : L ≤ B.length) (hv : w16 (be16 B (L - 5)) ≤ 4)
    (hk : HeadOK B (SPre B L s))
    (hin : w16 (be16 B (L - 5)) = 4 → pEx B + 8 + 4 ≤ B.length ∧ (be32N B (pEx B + 8) % 2 = 1 → be32N B (pEx B + 8 + 4) < 2147483648 ∧
      pEx B + 8 + 8 + 8 * be32N B (pEx B + 8 + 4) ≤ B.length ∧ be32N B (pEx B + 8 + 4) ≤ fuel)) (hf : nfN B ≤ fuel) :
    run M D fuel s = SFin M D B L s ∧ (SFin M D B L s).ub = false ∧ (SFin M D B L s).oof = false ∧ (SFin M D B L s).ret = (SFin M D B L s).ret_value := by
  obtain ⟨q, o⟩ := phPre_ok B L s h.buf h.len h5 hL h.ub h.oof h.done h.gto
  obtain ⟨q8, o8⟩ := mid8_ok M D o fuel hk hf
  have hver : (Sm8 B (SPre B L s)).vs_version = w16 (be16 B (L - 5)) := by rw [Sm8_version]; rfl
  obtain ⟨qt, ot⟩ := tail_ok M D o8 fuel (nfN B) (Sm8_table B _) (by rw [hver]; exact hin) hf
  refine ⟨?_, ot.ub, ot.oof, rfl⟩
  simp only [run]
  rw [q, if_pos (show (SPre B L s).vs_version ≤ 4 from hv)]
  simp only [phBody]
  rw [q8, qt, phEpi_ok _ ot.done]
  rfl

end H4.Lemmas.C07Fn3
