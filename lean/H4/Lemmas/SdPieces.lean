import H4.SdPieces
/-! Helper lemmas for the piecewise fill loops of `hdf_xdr_NCvdata` (C03). Statements of the property theorems are in `H4/Props/C03Pieces.lean`. -/
namespace H4.SdPieces
open H4.Slab

/-- closed form of the loop: full pieces, then the remainder -/
theorem pieceLoop_closed : ∀ (fuel buf chunk : Nat), 0 < chunk → chunk ≤ buf → buf ≤ fuel →
    pieceLoop fuel buf chunk = List.replicate (buf / chunk) chunk ++ (if buf % chunk = 0 then [] else [buf % chunk]) := by
  intro fuel
  induction fuel with
  | zero => intro buf chunk h0 h1 h2; omega
  | succ fuel ih =>
    intro buf chunk h0 h1 h2
    have hb : buf = (buf - chunk) + chunk := by omega
    have hd : buf / chunk = (buf - chunk) / chunk + 1 := by
      conv => lhs; rw [hb]
      exact Nat.add_div_right _ h0
    have hm : buf % chunk = (buf - chunk) % chunk := by
      conv => lhs; rw [hb]
      exact Nat.add_mod_right _ _
    simp only [pieceLoop]
    by_cases hz : buf - chunk = 0
    · rw [hd, hm, hz]
      simp
    · have hpos : 0 < buf - chunk := by omega
      simp only [hpos, if_true]
      by_cases hge : chunk ≤ buf - chunk
      · rw [Nat.min_eq_left hge, ih _ _ h0 hge (by omega), hd, hm, List.replicate_succ]
        simp
      · have hlt : buf - chunk < chunk := by omega
        rw [Nat.min_eq_right (by omega), ih _ _ hpos (Nat.le_refl _) (by omega), hd, hm,
          Nat.div_eq_of_lt hlt, Nat.mod_eq_of_lt hlt, Nat.div_self hpos, Nat.mod_self]
        simp [hz]

theorem pieces_closed (P n : Nat) (hP : 0 < P) (hn : 0 < n) :
    pieces P n = List.replicate (n / P) P ++ (if n % P = 0 then [] else [n % P]) := by
  unfold pieces
  by_cases h : n ≤ P
  · rw [Nat.min_eq_left h, pieceLoop_closed _ _ _ hn (Nat.le_refl _) (by omega), Nat.div_self hn, Nat.mod_self]
    by_cases he : n = P
    · subst he; simp [Nat.div_self hn]
    · have hlt : n < P := by omega
      simp [Nat.div_eq_of_lt hlt, Nat.mod_eq_of_lt hlt]; omega
  · rw [Nat.min_eq_right (by omega), pieceLoop_closed _ _ _ hP (by omega) (by omega)]

theorem sum_replicate_nat (q c : Nat) : (List.replicate q c).sum = q * c := by
  induction q with
  | zero => simp
  | succ q ih => rw [List.replicate_succ, List.sum_cons, ih]; rw [Nat.succ_mul]; omega

theorem pieces_sum (P n : Nat) (hP : 0 < P) (hn : 0 < n) : (pieces P n).sum = n := by
  rw [pieces_closed P n hP hn, List.sum_append, sum_replicate_nat]
  have := Nat.div_add_mod n P
  by_cases h : n % P = 0
  · simp only [h, if_true, List.sum_nil]; rw [Nat.mul_comm]; omega
  · simp only [h, if_false, List.sum_cons, List.sum_nil]; rw [Nat.mul_comm]; omega

theorem fillPieces_sum (P n : Nat) (hP : 0 < P) : (fillPieces P n).sum = n := by
  unfold fillPieces
  by_cases h : 0 < n
  · simp only [h, if_true]; exact pieces_sum P n hP h
  · simp only [h, if_false, List.sum_nil]; omega

theorem pieces_mem (P n : Nat) (hP : 0 < P) (hn : 0 < n) : ∀ x ∈ pieces P n, x = P ∨ (x = n % P ∧ n % P ≠ 0) := by
  intro x hx
  rw [pieces_closed P n hP hn, List.mem_append] at hx
  cases hx with
  | inl h => exact Or.inl (List.eq_of_mem_replicate h)
  | inr h =>
    by_cases hm : n % P = 0
    · simp [hm] at h
    · simp only [hm, if_false, List.mem_singleton] at h
      exact Or.inr ⟨h, hm⟩

theorem place_expand : ∀ (ls : List Nat) (pos : Nat), expandRuns (place pos ls) = List.range' pos ls.sum := by
  intro ls
  induction ls with
  | nil => intro pos; simp [place, expandRuns]
  | cons l ls ih =>
    intro pos
    have h := ih (pos + l)
    simp only [expandRuns] at h
    simp only [place, expandRuns, List.flatMap_cons, h, List.sum_cons]
    rw [List.range'_append_1]

theorem expandRuns_append (a b : List (Nat × Nat)) : expandRuns (a ++ b) = expandRuns a ++ expandRuns b := by
  simp [expandRuns]

/-! ### contents -/

theorem patBytes_add (pat : List UInt8) (a b : Nat) (h : pat.length ∣ a) :
    patBytes pat (a + b) = patBytes pat a ++ patBytes pat b := by
  unfold patBytes
  rw [List.range_add, List.map_append, List.map_map]
  congr 1
  apply List.map_congr_left
  intro j _
  simp only [Function.comp]
  obtain ⟨k, hk⟩ := h
  rw [hk, Nat.mul_add_mod]

theorem flatMap_patBytes (pat : List UInt8) : ∀ (ls : List Nat), (∀ x ∈ ls, pat.length ∣ x) →
    ls.flatMap (patBytes pat) = patBytes pat ls.sum := by
  intro ls
  induction ls with
  | nil => intro _; simp [patBytes]
  | cons l ls ih =>
    intro h
    rw [List.flatMap_cons, ih (fun x hx => h x (List.mem_cons_of_mem _ hx)), List.sum_cons,
      patBytes_add pat l ls.sum (h l List.mem_cons_self)]

theorem fillPieces_dvd (P n e : Nat) (hP : 0 < P) (heP : e ∣ P) (hen : e ∣ n) : ∀ x ∈ fillPieces P n, e ∣ x := by
  intro x hx
  unfold fillPieces at hx
  by_cases h : 0 < n
  · simp only [h, if_true] at hx
    cases pieces_mem P n hP h x hx with
    | inl hx => rw [hx]; exact heP
    | inr hx => rw [hx.1]; exact (Nat.dvd_mod_iff heP).mpr hen
  · simp [h] at hx

theorem place_dvd (e : Nat) : ∀ (ls : List Nat) (pos : Nat), e ∣ pos → (∀ x ∈ ls, e ∣ x) →
    ∀ r ∈ place pos ls, e ∣ r.1 ∧ e ∣ r.2 := by
  intro ls
  induction ls with
  | nil => intro pos _ _ r hr; simp [place] at hr
  | cons l ls ih =>
    intro pos hp h r hr
    simp only [place, List.mem_cons] at hr
    cases hr with
    | inl hr => subst hr; exact ⟨hp, h l List.mem_cons_self⟩
    | inr hr => exact ih (pos + l) (Nat.dvd_add hp (h l List.mem_cons_self)) (fun x hx => h x (List.mem_cons_of_mem _ hx)) r hr

end H4.SdPieces
