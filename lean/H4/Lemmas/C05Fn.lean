import H4.Gen.Fn.Cskphuff
import H4.Lemmas.SkpHuff
import H4.Lemmas.C2L
/-! Lemmas for `H4.Props.C05Fn`: `HCIcskphuff_splay` of `hdf/src/cskphuff.c`, as TRANSLATED from the C text
    (`H4.Gen.Fn.Cskphuff`, regenerated on every run), computes the hand-written model `H4.SkpHuff.splay`. -/
namespace H4.Lemmas.C05Fn
open H4 H4.SkpHuff H4.Gen.Cskphuff H4.Gen.Fn.Cskphuff H4.C2L

/-- a C array (`unsigned[SUCCMAX]` / `uint8[TWICEMAX]`) of the model, as the translated function sees it -/
def arr (a : Array Nat) : List Int := ints a.toList

@[simp] theorem arr_length (a : Array Nat) : (arr a).length = a.size := by simp [arr]

theorem arr_getD (a : Array Nat) (i : Nat) : (arr a).getD i 0 = ((rd a i : Nat) : Int) := by
  simp [arr, rd, Array.getD, ints, List.getD]
  by_cases h : i < a.size <;> simp [h]

theorem arr_set (a : Array Nat) (i v : Nat) : (arr a).set i (v : Int) = arr (wr a i v) := by
  simp [arr, wr, ints_set]

theorem chk_true (s : HCIcskphuff_splay.St) (c : Prop) [Decidable c] (h : c) : HCIcskphuff_splay.chk s c = s := by
  simp [HCIcskphuff_splay.chk, h]

/-- the translated state holds the tree `t` and the node `a`; the row cursors are 0 (the regions ARE the rows) -/
structure Rel (s : HCIcskphuff_splay.St) (t : Tree) (a : Nat) : Prop where
  hl : s.skphuff_info_left = arr t.left
  hr : s.skphuff_info_right = arr t.right
  hu : s.skphuff_info_up = arr t.up
  ha : s.a = (a : Int)
  l0 : s.lleft = 0
  r0 : s.lright = 0
  u0 : s.lup = 0
  ub : s.ub = false
  oof : s.oof = false

/-- normal form of the states met while executing the loop body.  `simp only [loop0.body]` zeta-substitutes the whole `have` chain
    at once; with every intermediate state rewritten to this opaque form (setter lemmas `st_set_*`, `st_chk`: a check only
    accumulates into `ub`, it is discharged at the end) the term stays small.  The projection lemmas `st_l` … are deliberately NOT
    `rfl` lemmas: as `dsimp` lemmas they would rewrite the proposition of a `chk` but not its `Decidable` instance, after which
    `st_chk` no longer unifies. -/
def st (base : HCIcskphuff_splay.St) (l r u : Array Nat) (a b c d : Int) (ub : Bool) : HCIcskphuff_splay.St :=
  { base with skphuff_info_left := arr l, skphuff_info_right := arr r, skphuff_info_up := arr u,
              a := a, b := b, c_ := c, d := d, lleft := 0, lright := 0, lup := 0, ub := ub, oof := false }

section
variable (base : HCIcskphuff_splay.St) (l r u : Array Nat) (a b c d : Int) (ub : Bool)
theorem st_l : (st base l r u a b c d ub).skphuff_info_left = arr l := by simp only [st]
theorem st_r : (st base l r u a b c d ub).skphuff_info_right = arr r := by simp only [st]
theorem st_u : (st base l r u a b c d ub).skphuff_info_up = arr u := by simp only [st]
theorem st_a : (st base l r u a b c d ub).a = a := by simp only [st]
theorem st_b : (st base l r u a b c d ub).b = b := by simp only [st]
theorem st_c : (st base l r u a b c d ub).c_ = c := by simp only [st]
theorem st_d : (st base l r u a b c d ub).d = d := by simp only [st]
theorem st_ll : (st base l r u a b c d ub).lleft = 0 := by simp only [st]
theorem st_lr : (st base l r u a b c d ub).lright = 0 := by simp only [st]
theorem st_lu : (st base l r u a b c d ub).lup = 0 := by simp only [st]
theorem st_ub : (st base l r u a b c d ub).ub = ub := by simp only [st]
theorem st_oof : (st base l r u a b c d ub).oof = false := by simp only [st]
theorem st_set_a (v : Int) : (st base l r u a b c d ub).set_a v = st base l r u v b c d ub := rfl
theorem st_set_b (v : Int) : (st base l r u a b c d ub).set_b v = st base l r u a v c d ub := rfl
theorem st_set_c (v : Int) : (st base l r u a b c d ub).set_c_ v = st base l r u a b v d ub := rfl
theorem st_set_d (v : Int) : (st base l r u a b c d ub).set_d v = st base l r u a b c v ub := rfl
theorem st_set_l (i v : Nat) : (st base l r u a b c d ub).set_skphuff_info_left ((arr l).set i (v : Int)) = st base (wr l i v) r u a b c d ub := by
  rw [arr_set]; rfl
theorem st_set_r (i v : Nat) : (st base l r u a b c d ub).set_skphuff_info_right ((arr r).set i (v : Int)) = st base l (wr r i v) u a b c d ub := by
  rw [arr_set]; rfl
theorem st_set_u (i v : Nat) : (st base l r u a b c d ub).set_skphuff_info_up ((arr u).set i (v : Int)) = st base l r (wr u i v) a b c d ub := by
  rw [arr_set]; rfl
theorem st_chk (p : Prop) (inst : Decidable p) : @HCIcskphuff_splay.chk (st base l r u a b c d ub) p inst = st base l r u a b c d (ub || !@decide p inst) :=
  rfl
end

theorem zero_add_toNat (n : Nat) : (0 + (n : Int)).toNat = n := by omega

theorem rel_st (s : HCIcskphuff_splay.St) (t : Tree) (a : Nat) (h : Rel s t a) :
    s = st s t.left t.right t.up a s.b s.c_ s.d false := by
  obtain ⟨hl, hr, hu, hae, l0, r0, u0, ub, oof⟩ := h
  obtain ⟨plain, lleft, lright, lup, a', b, c_, d, skip_num, pos, left, right, up, ub', oof', ret⟩ := s
  simp only at hl hr hu hae l0 r0 u0 ub oof
  subst hl hr hu hae l0 r0 u0 ub oof
  rfl

theorem st_rel (base : HCIcskphuff_splay.St) (l r u : Array Nat) (a : Nat) (b c d : Int) (ub : Bool) (h : ub = false) :
    Rel (st base l r u a b c d ub) { left := l, right := r, up := u } a := by
  subst h; exact ⟨rfl, rfl, rfl, rfl, rfl, rfl, rfl, rfl, rfl⟩

set_option linter.unusedSimpArgs false in
theorem body_rel (g : Nat) (s : HCIcskphuff_splay.St) (t : Tree) (a : Nat) (h : Rel s t a) (hw : WF t)
    (ha : a < 512) :
    Rel (HCIcskphuff_splay.loop0.body g s) (splayStep t a).1 (splayStep t a).2 := by
  rw [rel_st s t a h]
  generalize s.b = b0
  generalize s.c_ = c0
  generalize s.d = d0
  have szl := hw.szl
  have szr := hw.szr
  have szu := hw.szu
  have c_lt : rd t.up a < 256 := hw.f.upLt a ha
  by_cases hc : rd t.up a = 0
  · rw [splayStep_root t a hc]
    simp only [HCIcskphuff_splay.loop0.body]
    simp only [st_u, st_a, st_lu, st_set_a, st_set_c,
      st_chk, zero_add_toNat, arr_getD, hc, Int.natCast_zero, ne_eq, not_true_eq_false, ↓reduceIte]
    apply st_rel s _ _ _ 0
    simp [szu]; omega
  · have d_lt : rd t.up (rd t.up a) < 256 := hw.f.upLt _ (by omega)
    have hcm : rd t.up a % 256 = rd t.up a := Nat.mod_eq_of_lt c_lt
    have hdm : rd t.up (rd t.up a) % 256 = rd t.up (rd t.up a) := Nat.mod_eq_of_lt d_lt
    have l_lt := hw.f.leftLt _ d_lt
    have r_lt := hw.f.rightLt _ d_lt
    simp only [splayStep, hcm, hdm, consts]
    generalize hcd : rd t.up a = c at *
    generalize hdd : rd t.up c = d at *
    simp only [HCIcskphuff_splay.loop0.body]
    by_cases h1 : c = rd t.left d
    · by_cases h2 : a = rd t.left c
      · simp only [st_l, st_r, st_u, st_a, st_b, st_c, st_d, st_ll, st_lr, st_lu, st_set_a, st_set_b, st_set_c, st_set_d,
          st_set_l, st_set_r, st_set_u, st_chk, zero_add_toNat, arr_getD, hcd, hdd, ← h1, ← h2, Int.natCast_eq_zero, Int.natCast_inj,
          hc, ne_eq, not_false_eq_true, ↓reduceIte]
        apply st_rel s _ _ _ d
        simp [szl, szr, szu]; omega
      · simp only [st_l, st_r, st_u, st_a, st_b, st_c, st_d, st_ll, st_lr, st_lu, st_set_a, st_set_b, st_set_c, st_set_d,
          st_set_l, st_set_r, st_set_u, st_chk, zero_add_toNat, arr_getD, hcd, hdd, ← h1, h2, Int.natCast_eq_zero, Int.natCast_inj,
          hc, ne_eq, not_false_eq_true, ↓reduceIte]
        apply st_rel s _ _ _ d
        simp [szl, szr, szu]; omega
    · by_cases h2 : a = rd (wr t.left d a) c
      · simp only [st_l, st_r, st_u, st_a, st_b, st_c, st_d, st_ll, st_lr, st_lu, st_set_a, st_set_b, st_set_c, st_set_d,
          st_set_l, st_set_r, st_set_u, st_chk, zero_add_toNat, arr_getD, hcd, hdd, h1, ← h2, Int.natCast_eq_zero, Int.natCast_inj,
          hc, ne_eq, not_false_eq_true, ↓reduceIte]
        apply st_rel s _ _ _ d
        simp [szl, szr, szu]; omega
      · simp only [st_l, st_r, st_u, st_a, st_b, st_c, st_d, st_ll, st_lr, st_lu, st_set_a, st_set_b, st_set_c, st_set_d,
          st_set_l, st_set_r, st_set_u, st_chk, zero_add_toNat, arr_getD, hcd, hdd, h1, h2, Int.natCast_eq_zero, Int.natCast_inj,
          hc, ne_eq, not_false_eq_true, ↓reduceIte]
        apply st_rel s _ _ _ d
        simp [szl, szr, szu]; omega

/-! ### termination: the walk `a, up[a], up[up[a]], ...` reaches ROOT, and a semi-rotation does not touch the rest of the walk -/

/-- `Reach U n a`: `n ≥ 1` steps of `U` lead from `a` to node 0 for the first time -/
inductive Reach (U : Nat → Nat) : Nat → Nat → Prop
  | one (a : Nat) : U a = 0 → Reach U 1 a
  | step (a n : Nat) : U a ≠ 0 → Reach U n (U a) → Reach U (n + 1) a

theorem reach_pos {U : Nat → Nat} {n a : Nat} (h : Reach U n a) : 1 ≤ n := by
  cases h <;> omega

theorem reach_of_rank (U : Nat → Nat) (m : Nat → Nat) (hlt : ∀ x, x < 512 → U x < 256)
    (hm : ∀ x, x < 512 → x ≠ 0 → m (U x) < m x) :
    ∀ (k a : Nat), a < 512 → a ≠ 0 → m a ≤ k → ∃ n, n ≤ k ∧ Reach U n a := by
  intro k
  induction k with
  | zero => intro a ha ha0 hk; have := hm a ha ha0; omega
  | succ k ih =>
    intro a ha ha0 hk
    by_cases hu : U a = 0
    · exact ⟨1, by omega, Reach.one a hu⟩
    · have h1 := hlt a ha
      have h2 := hm a ha ha0
      obtain ⟨n, hn, hr⟩ := ih (U a) (by omega) hu (by omega)
      exact ⟨n + 1, by omega, Reach.step a n hu hr⟩

theorem reach_congr {U U' : Nat → Nat} (rank : Nat → Nat) (hlt : ∀ x, x < 512 → U x < 256)
    (hr : ∀ x, x < 512 → x ≠ 0 → rank (U x) < rank x) :
    ∀ (n x : Nat), Reach U n x → x < 512 → x ≠ 0 → (∀ y, y ≠ 0 → rank y ≤ rank x → U' y = U y) → Reach U' n x := by
  intro n x h
  induction h with
  | one a hu =>
    intro _ ha0 he
    exact Reach.one a (by rw [he a ha0 (Nat.le_refl _)]; exact hu)
  | step a n hu _ ih =>
    intro ha ha0 he
    have e := he a ha0 (Nat.le_refl _)
    have h1 := hlt a ha
    have h2 := hr a ha ha0
    apply Reach.step a n (by rw [e]; exact hu)
    rw [e]
    exact ih (by omega) hu (fun y hy hle => he y hy (by omega))

/-- after the semi-rotation around `a` the walk continues from the grand-parent `d`, two steps shorter -/
theorem reach_step (t : Tree) (a n : Nat) (hw : WF t) (ha : a < 512) (ha0 : a ≠ 0)
    (hc : rd t.up a ≠ 0) (hd : rd t.up (rd t.up a) ≠ 0) (h : Reach (rd t.up) n a) :
    3 ≤ n ∧ (splayStep t a).2 = rd t.up (rd t.up a) ∧ Reach (rd (splayStep t a).1.up) (n - 2) (rd t.up (rd t.up a)) := by
  obtain ⟨h2, -, -, -, -, -, hU⟩ := splayStep_rot t a _ _ _ hw ha rfl hc rfl rfl
  obtain ⟨rank, hr⟩ := hw.f.rank
  have c_lt := hw.f.upLt a ha
  have d_lt := hw.f.upLt _ (show rd t.up a < 512 by omega)
  have r1 := hr a ha ha0
  have r2 := hr _ (show rd t.up a < 512 by omega) hc
  have ul := hw.f.upLeft _ d_lt
  have ur := hw.f.upRight _ d_lt
  have ll := hw.f.leftLt _ d_lt
  have rl := hw.f.rightLt _ d_lt
  cases h with
  | one _ hu => exact absurd hu hc
  | step _ n1 _ h1 =>
    cases h1 with
    | one _ hu => exact absurd hu hd
    | step _ n2 _ h2' =>
      have := reach_pos h2'
      refine ⟨by omega, h2, ?_⟩
      have e : n2 + 1 + 1 - 2 = n2 := by omega
      rw [e]
      apply reach_congr rank hw.f.upLt hr n2 _ h2' (by omega) hd
      intro y hy hle
      rw [hU y]
      have hya : y ≠ a := by intro e; subst e; omega
      have hyb : y ≠ (if rd t.up a = rd t.left (rd t.up (rd t.up a)) then rd t.right (rd t.up (rd t.up a))
          else rd t.left (rd t.up (rd t.up a))) := by
        intro e
        have hb : y < 512 ∧ rd t.up y = rd t.up (rd t.up a) := by
          rw [e]; split <;> exact ⟨by assumption, by assumption⟩
        have := hr y hb.1 hy
        rw [hb.2] at this
        omega
      simp [hya, hyb]

/-! ### the loop -/

theorem loop0_done (g : Nat) (s : HCIcskphuff_splay.St) (h : s.a = 0) : HCIcskphuff_splay.loop0 g s = s := by
  cases g <;> simp [HCIcskphuff_splay.loop0, h]

theorem loop0_step (g : Nat) (s : HCIcskphuff_splay.St) (h : s.a ≠ 0) :
    HCIcskphuff_splay.loop0 (g + 1) s = HCIcskphuff_splay.loop0 g (HCIcskphuff_splay.loop0.body (g + 1) s) := by
  simp [HCIcskphuff_splay.loop0, h]

/-- the do-while loop of `HCIcskphuff_splay` (one pass through the body, then `loop0`) computes the model's `splayLoop`,
    whenever both have enough fuel for the `n` steps of the walk from `a` to ROOT (two steps per iteration) -/
theorem loop_rel : ∀ (g n f : Nat) (s : HCIcskphuff_splay.St) (t : Tree) (a : Nat), WF t → a < 512 → a ≠ 0 →
    Reach (rd t.up) n a → n ≤ 2 * g + 2 → n ≤ 2 * f → Rel s t a → ∀ g' : Nat,
    Rel (HCIcskphuff_splay.loop0 g (HCIcskphuff_splay.loop0.body g' s)) (splayLoop f t a) 0 := by
  intro g
  induction g with
  | zero =>
    intro n f s t a hw ha ha0 hr hng hnf hrel g'
    have hb := body_rel g' s t a hrel hw ha
    obtain ⟨f, rfl⟩ : ∃ f', f = f' + 1 := ⟨f - 1, by cases hr <;> omega⟩
    simp only [splayLoop]
    by_cases h0 : (splayStep t a).2 = 0
    · rw [loop0_done _ _ (by rw [hb.ha, h0]; rfl)]
      simp only [h0, consts, ne_eq, not_true_eq_false, ↓reduceIte]
      rw [h0] at hb; exact hb
    · exfalso
      by_cases hc : rd t.up a = 0
      · rw [splayStep_root t a hc] at h0; exact h0 rfl
      · by_cases hd : rd t.up (rd t.up a) = 0
        · obtain ⟨h2, -⟩ := splayStep_rot t a _ _ _ hw ha rfl hc rfl rfl
          rw [h2] at h0; exact h0 hd
        · have := (reach_step t a n hw ha ha0 hc hd hr).1; omega
  | succ g ih =>
    intro n f s t a hw ha ha0 hr hng hnf hrel g'
    have hb := body_rel g' s t a hrel hw ha
    obtain ⟨hw1, ha1⟩ := splayStep_WF t a hw ha ha0
    obtain ⟨f, rfl⟩ : ∃ f', f = f' + 1 := ⟨f - 1, by cases hr <;> omega⟩
    simp only [splayLoop]
    by_cases h0 : (splayStep t a).2 = 0
    · rw [loop0_done _ _ (by rw [hb.ha, h0]; rfl)]
      simp only [h0, consts, ne_eq, not_true_eq_false, ↓reduceIte]
      rw [h0] at hb; exact hb
    · have hc : rd t.up a ≠ 0 := by
        intro hc; rw [splayStep_root t a hc] at h0; exact h0 rfl
      have hd : rd t.up (rd t.up a) ≠ 0 := by
        intro hd
        obtain ⟨h2, -⟩ := splayStep_rot t a _ _ _ hw ha rfl hc rfl rfl
        rw [h2] at h0; exact h0 hd
      obtain ⟨hn3, h2, hr'⟩ := reach_step t a n hw ha ha0 hc hd hr
      rw [loop0_step _ _ (by rw [hb.ha]; omega)]
      simp only [consts, ne_eq, h0, not_false_eq_true, ↓reduceIte]
      rw [← h2] at hr'
      exact ih (n - 2) f _ _ _ hw1 (by omega) h0 hr' (by omega) (by omega) hb (g + 1)

/-- the state of `HCIcskphuff_splay` when it enters its do-while loop: `skip_num = skip_pos`, row cursors at 0,
    `a = (unsigned)plain + SUCCMAX` -/
def entry (skip : Int) (l r u : List Int) (plain : Int) : HCIcskphuff_splay.St :=
  { skphuff_info_skip_pos := skip, skphuff_info_left := l, skphuff_info_right := r, skphuff_info_up := u,
    plain := plain, skip_num := skip, a := (plain + ((255 + 1) % 4294967296)) % 4294967296 }

/-- the translator executes the body of a do-while once inline and then enters `loop0`: same text as `loop0.body` -/
theorem splay_eq (fuel : Nat) (skip : Int) (l r u : List Int) (plain : Int) :
    HCIcskphuff_splay fuel skip l r u plain =
      HCIcskphuff_splay.loop0 fuel (HCIcskphuff_splay.loop0.body 0 (entry skip l r u plain)) := by
  unfold HCIcskphuff_splay
  extract_lets s1 s2 s3 s4 s5 s6
  have e6 : entry skip l r u plain = s6 := rfl
  rw [e6]
  unfold HCIcskphuff_splay.loop0.body
  extract_lets
  rfl

theorem entry_rel (skip : Int) (t : Tree) (plain : Nat) (hp : plain < 256) :
    Rel (entry skip (arr t.left) (arr t.right) (arr t.up) plain) t (plain + 256) :=
  ⟨rfl, rfl, rfl, by simp only [entry]; omega, rfl, rfl, rfl, rfl, rfl⟩

end H4.Lemmas.C05Fn
