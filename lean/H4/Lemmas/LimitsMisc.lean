import H4.Limits
/-! Helper lemmas for C20: reference numbers, Vdata field limits, names, the SD open-file table. -/
namespace H4.Limits
open H4.Gen.Hdf

theorem consts2 : MAX_REF = 65535 ∧ MAX_ORDER = 65535 ∧ MAX_FIELD_SIZE = 65535 ∧ VSFIELDMAX = 256 ∧ VSNAMELENMAX = 64
    ∧ FIELDNAMELENMAX = 128 ∧ H4_MAX_NC_NAME = 256 ∧ H4_MAX_VAR_DIMS = 32 ∧ H4.Gen.Limits.UINT16_MAX = 65535
    ∧ H4.Gen.Limits.SIZEOF_VSNAME = 65 ∧ H4.Gen.Limits.SIZEOF_VSCLASS = 65 ∧ H4.Gen.Limits.H4_MAX_NC_OPEN = 32
    ∧ H4.Gen.Limits.H4_MAX_GR_NAME = 256 := by decide

/-! ### reference numbers -/

theorem firstFree_none {used : Nat → Bool} {lo : Nat} :
    firstFree used lo = none ↔ ∀ r, lo ≤ r → r ≤ 65535 → used r = true := by
  unfold firstFree
  rw [List.find?_eq_none]
  simp only [List.mem_range'_1, MAX_REF]
  constructor
  · intro h r h1 h2
    have := h r ⟨h1, by omega⟩
    simpa using this
  · intro h r ⟨h1, h2⟩
    have := h r h1 (by omega)
    simp [this]

theorem firstFree_some {used : Nat → Bool} {lo r : Nat} (h : firstFree used lo = some r) :
    lo ≤ r ∧ r ≤ 65535 ∧ used r = false := by
  unfold firstFree at h
  have h1 := List.mem_of_find?_eq_some h
  have h2 := List.find?_some h
  simp only [List.mem_range'_1, MAX_REF] at h1
  refine ⟨h1.1, by omega, by simpa using h2⟩

/-- the ref found is the SMALLEST free one -/
theorem firstFree_min {used : Nat → Bool} {lo r : Nat} (h : firstFree used lo = some r) :
    ∀ q, lo ≤ q → q < r → used q = true := by
  unfold firstFree at h
  rw [List.find?_eq_some_iff_append] at h
  obtain ⟨_, as, bs, hsplit, hall⟩ := h
  intro q h1 h2
  -- q is in the range and comes before r, hence in `as`
  have hq : q ∈ List.range' lo (MAX_REF + 1 - lo) := by
    have hr : r ∈ List.range' lo (MAX_REF + 1 - lo) := by rw [hsplit]; simp
    simp only [List.mem_range'_1] at hr ⊢
    omega
  rw [hsplit] at hq
  have hsorted : List.Pairwise (· < ·) (List.range' lo (MAX_REF + 1 - lo)) := List.pairwise_lt_range'
  rw [hsplit] at hsorted
  rcases List.mem_append.mp hq with hqa | hqb
  · have := hall q hqa; simpa using this
  · rcases List.mem_cons.mp hqb with rfl | hqb
    · omega
    · have := (List.pairwise_append.mp hsorted).2.1
      have := (List.pairwise_cons.mp this).1 q hqb
      omega

/-! ### VSsetfields -/

theorem setfieldsLoop_spec (l : List Nat) (iv k : Nat) (hiv : iv ≤ 65535) :
    ((setfieldsLoop l iv k).1 = true ↔ iv + l.sum ≤ 65535) ∧
    ((setfieldsLoop l iv k).1 = true → (setfieldsLoop l iv k).2.1 = k + l.length ∧ (setfieldsLoop l iv k).2.2 = iv + l.sum) ∧
    (setfieldsLoop l iv k).2.1 ≤ k + l.length ∧ k ≤ (setfieldsLoop l iv k).2.1 := by
  induction l generalizing iv k with
  | nil => simp [setfieldsLoop]; omega
  | cons sz rest ih =>
    simp only [setfieldsLoop, MAX_FIELD_SIZE, List.sum_cons, List.length_cons]
    by_cases h1 : sz > 65535
    · simp [h1]; omega
    · by_cases h2 : iv + sz > 65535
      · simp [h1, h2]; omega
      · simp only [h1, h2, if_false]
        have := ih (iv + sz) (k + 1) (by omega)
        refine ⟨by rw [this.1]; omega, fun h => ?_, by have := this.2.2.1; omega, by have := this.2.2.2; omega⟩
        have := this.2.1 h
        omega

/-! ### the open-file table -/

/-- consistency of `_cdfs` / `_cdfs_size` / `_ncdf` / `_curr_opened` / `max_NC_open` -/
structure Tab.WF (t : Tab) : Prop where
  unalloc : t.alloc = false → t.slots = [] ∧ t.ncdf = 0 ∧ t.opened = 0
  size : t.alloc = true → t.maxOpen = t.slots.length
  ncdf_le : t.ncdf ≤ t.slots.length
  beyond : ∀ i, t.ncdf ≤ i → t.slots.getD i false = false
  count : t.opened = t.slots.count true
  pos : 0 < t.maxOpen

theorem tabValid_iff (t : Tab) (id : Nat) : tabValid t id = true ↔ id < t.ncdf ∧ t.slots.getD id false = true := by
  simp [tabValid]

theorem getD_take_append_replicate (l : List Bool) (a i : Nat) (hi : i < a) :
    (l.take a ++ List.replicate (a - (l.take a).length) false).getD i false = l.getD i false := by
  simp only [List.getD_eq_getElem?_getD, List.getElem?_append, List.length_take, List.getElem?_take, hi, if_true,
    List.getElem?_replicate]
  by_cases h : i < l.length
  · have : i < min a l.length := by omega
    simp [this]
  · have h1 : ¬ i < min a l.length := by omega
    have h2 : l[i]? = none := by simp; omega
    simp only [h1, if_false, h2]
    split <;> simp

end H4.Limits
