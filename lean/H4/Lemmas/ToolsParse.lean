import H4.Tools
/-! Helper lemmas for the C18 option-grammar round trip (`hrepack_parse.c`). -/
namespace H4.Tools
open H4.Gen.Tools

theorem digitChar_spec : ∀ d, d < 10 → (digitChar d).isDigit = true ∧ (digitChar d).toNat - '0'.toNat = d := by
  decide

theorem takeWhile_all {α} (p : α → Bool) : ∀ (s : List α), (∀ c ∈ s, p c = true) → s.takeWhile p = s := by
  intro s
  induction s with
  | nil => intro _; rfl
  | cons c cs ih =>
    intro h
    simp only [List.takeWhile_cons, h c (by simp), if_true]
    rw [ih fun x hx => h x (by simp [hx])]

theorem atoi_foldl_digits (s : Str) (hs : ∀ c ∈ s, c.isDigit = true) :
    atoi s = s.foldl (fun a c => 10 * a + (c.toNat - '0'.toNat)) 0 := by
  unfold atoi
  rw [takeWhile_all _ s hs]

theorem natStrF_digits : ∀ (f n : Nat), ∀ c ∈ natStrF f n, c.isDigit = true := by
  intro f
  induction f with
  | zero => intro n c hc; simp [natStrF] at hc
  | succ f ih =>
    intro n c hc
    unfold natStrF at hc
    split at hc
    · simp only [List.mem_singleton] at hc; subst hc
      exact (digitChar_spec n (by omega)).1
    · simp only [List.mem_append, List.mem_singleton] at hc
      rcases hc with hc | hc
      · exact ih _ c hc
      · subst hc; exact (digitChar_spec (n % 10) (Nat.mod_lt _ (by omega))).1

theorem natStrF_val : ∀ (f n : Nat), n < f →
    (natStrF f n).foldl (fun a c => 10 * a + (c.toNat - '0'.toNat)) 0 = n := by
  intro f
  induction f with
  | zero => intro n h; omega
  | succ f ih =>
    intro n h
    unfold natStrF
    split
    · simp only [List.foldl_cons, List.foldl_nil]
      rw [(digitChar_spec n (by omega)).2]; omega
    · rw [List.foldl_append]
      simp only [List.foldl_cons, List.foldl_nil]
      rw [ih (n / 10) (by omega), (digitChar_spec (n % 10) (Nat.mod_lt _ (by omega))).2]
      omega

theorem natStr_digits (n : Nat) : ∀ c ∈ natStr n, c.isDigit = true := natStrF_digits _ _

theorem atoi_natStr (n : Nat) : atoi (natStr n) = n := by
  rw [atoi_foldl_digits _ (natStr_digits n)]
  exact natStrF_val _ _ (by omega)

theorem natStrF_length : ∀ (f n k : Nat), 0 < k → n < 10 ^ k → (natStrF f n).length ≤ k := by
  intro f
  induction f with
  | zero => intro n k _ _; simp [natStrF]
  | succ f ih =>
    intro n k hk hn
    unfold natStrF
    split
    · simp; omega
    · rename_i h10
      have hk2 : 2 ≤ k := by
        rcases Nat.lt_or_ge k 2 with h | h
        · have : k = 1 := by omega
          subst this; simp at hn; omega
        · exact h
      have : n / 10 < 10 ^ (k - 1) := by
        have : 10 ^ k = 10 ^ (k - 1) * 10 := by
          rw [← Nat.pow_succ]; congr 1; omega
        rw [this] at hn
        exact Nat.div_lt_of_lt_mul (by rw [Nat.mul_comm]; exact hn)
      have := ih (n / 10) (k - 1) (by omega) this
      simp only [List.length_append, List.length_singleton]
      omega

theorem natStr_length (n k : Nat) (hk : 0 < k) (hn : n < 10 ^ k) : (natStr n).length ≤ k := natStrF_length _ _ _ hk hn

theorem natStrF_ne_nil (f n : Nat) : natStrF (f + 1) n ≠ [] := by
  unfold natStrF; split <;> simp

theorem natStr_ne_nil (n : Nat) : natStr n ≠ [] := natStrF_ne_nil _ _

/-! ### `end_obj` -/

theorem lastColonAux_no (v : Str) (hv : ':' ∉ v) : ∀ (i : Nat) (acc : Option Nat), lastColonAux v i acc = acc := by
  induction v with
  | nil => intro i acc; rfl
  | cons c cs ih =>
    intro i acc
    have hc : c ≠ ':' := fun h => hv (by simp [h])
    simp only [lastColonAux, hc, if_false]
    exact ih (fun h => hv (by simp [h])) _ _

theorem lastColonAux_split (a v : Str) (hv : ':' ∉ v) : ∀ (i : Nat) (acc : Option Nat),
    lastColonAux (a ++ ':' :: v) i acc = some (i + a.length) := by
  induction a with
  | nil => intro i acc; simp [lastColonAux, lastColonAux_no v hv]
  | cons c cs ih =>
    intro i acc
    simp only [List.cons_append, lastColonAux, List.length_cons]
    rw [ih]; congr 1; omega

theorem lastColon_split (a v : Str) (hv : ':' ∉ v) : lastColon (a ++ ':' :: v) = some a.length := by
  unfold lastColon; rw [lastColonAux_split a v hv]; simp

theorem lastColon_none (s : Str) (h : ':' ∉ s) : lastColon s = none := lastColonAux_no s h 0 none

/-! ### the object list -/

/-- a name the parser can represent: not empty, no comma, fits in `obj[]` with its terminator -/
def GoodName (n : Str) : Prop := n ≠ [] ∧ ',' ∉ n ∧ n.length < H4_MAX_NC_NAME - 1

theorem joinNames_ne_nil : ∀ (ns : List Str), ns ≠ [] → (∀ n ∈ ns, GoodName n) → joinNames ns ≠ [] := by
  intro ns h hg
  cases ns with
  | nil => exact absurd rfl h
  | cons n ms =>
    have := (hg n (by simp)).1
    cases ms with
    | nil => simpa [joinNames] using this
    | cons m ms' => simp [joinNames, this]

/-- scanning one name `n` (already `cur` collected) that is the last one -/
theorem namesLoop_last : ∀ (n cur : Str), n ≠ [] → ',' ∉ n → (cur ++ n).length ≤ H4_MAX_NC_NAME - 1 →
    namesLoop n cur = some [cur ++ n] := by
  intro n
  induction n with
  | nil => intro cur h; exact absurd rfl h
  | cons c cs ih =>
    intro cur _ hc hl
    have hcc : c ≠ ',' := fun h => hc (by simp [h])
    simp only [List.length_append, List.length_cons] at hl
    cases cs with
    | nil =>
      have : ¬ (cur.length ≥ H4_MAX_NC_NAME - 1) := by simp at hl; omega
      simp [namesLoop, this, hcc]
    | cons c2 rest =>
      have : ¬ (cur.length ≥ H4_MAX_NC_NAME - 1) := by simp at hl; omega
      simp only [namesLoop, this, if_false, hcc]
      rw [ih (cur ++ [c]) (by simp) (fun h => hc (by simp [h])) (by simp at hl ⊢; omega)]
      simp

/-- scanning one name `n` followed by a comma and a non-empty remainder -/
theorem namesLoop_more : ∀ (n cur rest : Str), ',' ∉ n → (cur ++ n).length < H4_MAX_NC_NAME - 1 → rest ≠ [] →
    namesLoop (n ++ ',' :: rest) cur = (namesLoop rest []).map ((cur ++ n) :: ·) := by
  intro n
  induction n with
  | nil =>
    intro cur rest _ hl hr
    cases rest with
    | nil => exact absurd rfl hr
    | cons r rs =>
      have : ¬ (cur.length ≥ H4_MAX_NC_NAME - 1) := by simp at hl; omega
      simp [namesLoop, this]
  | cons c cs ih =>
    intro cur rest hc hl hr
    have hcc : c ≠ ',' := fun h => hc (by simp [h])
    simp only [List.length_append, List.length_cons] at hl
    have : ¬ (cur.length ≥ H4_MAX_NC_NAME - 1) := by omega
    have hne : cs ++ ',' :: rest ≠ [] := by simp
    obtain ⟨x, xs, hx⟩ := List.exists_cons_of_ne_nil hne
    simp only [List.cons_append, hx, namesLoop, this, if_false, hcc]
    rw [← hx, ih (cur ++ [c]) rest (fun h => hc (by simp [h])) (by simp; omega) hr]
    simp

theorem namesLoop_join : ∀ (ns : List Str), ns ≠ [] → (∀ n ∈ ns, GoodName n) → namesLoop (joinNames ns) [] = some ns := by
  intro ns
  induction ns with
  | nil => intro h; exact absurd rfl h
  | cons n ms ih =>
    intro _ hg
    obtain ⟨h1, h2, h3⟩ := hg n (by simp)
    cases ms with
    | nil =>
      simp only [joinNames]
      have := namesLoop_last n [] h1 h2 (by simp; omega)
      simpa using this
    | cons m ms' =>
      simp only [joinNames]
      have hg' : ∀ x ∈ m :: ms', GoodName x := fun x hx => hg x (by simp [hx])
      rw [namesLoop_more n [] _ h2 (by simpa using h3) (joinNames_ne_nil _ (by simp) hg')]
      rw [ih (by simp) hg']
      simp

theorem count_joinNames : ∀ (ns : List Str), ns ≠ [] → (∀ n ∈ ns, ',' ∉ n) → (joinNames ns).count ',' = ns.length - 1 := by
  intro ns
  induction ns with
  | nil => intro h; exact absurd rfl h
  | cons n ms ih =>
    intro _ hg
    have h0 : n.count ',' = 0 := List.count_eq_zero.mpr (hg n (by simp))
    cases ms with
    | nil => simpa [joinNames] using h0
    | cons m ms' =>
      simp only [joinNames, List.count_append, List.count_cons_self, h0]
      rw [ih (by simp) (fun x hx => hg x (by simp [hx]))]
      simp

theorem colon_not_mem_join : ∀ (ns : List Str), (∀ n ∈ ns, ':' ∉ n) → ':' ∉ joinNames ns := by
  intro ns
  induction ns with
  | nil => intro _; simp [joinNames]
  | cons n ms ih =>
    intro hg
    cases ms with
    | nil => simpa [joinNames] using hg n (by simp)
    | cons m ms' =>
      simp only [joinNames, List.mem_append, List.mem_cons, not_or]
      exact ⟨hg n (by simp), by decide, ih fun x hx => hg x (by simp [hx])⟩

/-- the joined list does not end with a comma (every name is non-empty and has none) -/
theorem joinNames_getLast : ∀ (ns : List Str), ns ≠ [] → (∀ n ∈ ns, GoodName n) → (joinNames ns).getLast? ≠ some ',' := by
  intro ns
  induction ns with
  | nil => intro h; exact absurd rfl h
  | cons n ms ih =>
    intro _ hg
    cases ms with
    | nil =>
      simp only [joinNames]
      intro h
      exact (hg n (by simp)).2.1 (List.mem_of_getLast? h)
    | cons m ms' =>
      have hg' : ∀ x ∈ m :: ms', GoodName x := fun x hx => hg x (by simp [hx])
      have hne := joinNames_ne_nil (m :: ms') (by simp) hg'
      simp only [joinNames, List.getLast?_append]
      obtain ⟨y, ys, hy⟩ := List.exists_cons_of_ne_nil hne
      have hih := ih (by simp) hg'
      rw [hy] at hih ⊢
      cases hl : (y :: ys).getLast? with
      | none => simp at hl
      | some z =>
        rw [hl] at hih
        simp only [List.getLast?_cons_cons, hl, Option.some_or]
        exact hih

/-- the object-list test of commit b6f2d28 passes when the list is not empty and does not end with a comma -/
theorem badObjList_split (a v : Str) (hne : a ≠ []) (hl : a.getLast? ≠ some ',') : badObjList (a ++ ':' :: v) a.length = false := by
  unfold badObjList
  have h0 : a.length ≠ 0 := by cases a <;> simp_all
  have hget : (a ++ ':' :: v).getD (a.length - 1) ' ' = a.getLast hne := by
    rw [List.getD_eq_getElem?_getD, List.getElem?_append_left (by omega), List.getLast_eq_getElem]
    simp [List.getElem?_eq_getElem (by omega : a.length - 1 < a.length)]
  have hl' : a.getLast hne ≠ ',' := by
    intro h; apply hl; rw [List.getLast?_eq_some_getLast hne, h]
  rw [hget]
  simp [h0, hl']

/-! ### values -/

theorem digit_ne (c : Char) (h : c.isDigit = true) : c ≠ ':' ∧ c ≠ ',' ∧ c ≠ 'x' ∧ c ≠ ' ' := by
  refine ⟨?_, ?_, ?_, ?_⟩ <;> (intro hc; subst hc; simp at h)

theorem digit_chunkChar (c : Char) (h : c.isDigit = true) : chunkChar c = true := by simp [chunkChar, h]

/-- one digit that is not the last character goes into `sdim` -/
theorem chunkValue_step (c : Char) (rest sd : Str) (lens : List Nat) (hc : c.isDigit = true)
    (hlen : sd.length < SDIM_SZ - 1) (hr : rest ≠ []) :
    chunkValue (c :: rest) sd lens = chunkValue rest (sd ++ [c]) lens := by
  obtain ⟨_, _, hx, _⟩ := digit_ne c hc
  have hlen' : ¬ (sd.length ≥ SDIM_SZ - 1) := by omega
  cases rest with
  | nil => exact absurd rfl hr
  | cons y ys =>
    conv => lhs; unfold chunkValue
    simp [hlen', hx, digit_chunkChar c hc]

/-- a run of digits before something else is collected into `sdim` -/
theorem chunkValue_digits : ∀ (ds sd : Str) (lens : List Nat) (rest : Str), (∀ c ∈ ds, c.isDigit = true) →
    (sd ++ ds).length ≤ SDIM_SZ - 1 → rest ≠ [] → chunkValue (ds ++ rest) sd lens = chunkValue rest (sd ++ ds) lens := by
  intro ds
  induction ds with
  | nil => intro sd lens rest _ _ _; simp
  | cons c cs ih =>
    intro sd lens rest hd hl hr
    have hc := hd c (by simp)
    rw [List.cons_append, chunkValue_step c _ sd lens hc (by simp at hl; omega) (by simp [hr])]
    rw [ih (sd ++ [c]) lens rest (fun x hx => hd x (by simp [hx])) (by simp at hl ⊢; omega) hr]
    simp

theorem chunkValue_x (sd : Str) (lens : List Nat) (rest : Str) (hl : sd.length < SDIM_SZ - 1) (hr : rest ≠ [])
    (hroom : lens.length < H4_MAX_VAR_DIMS) :
    chunkValue ('x' :: rest) sd lens = if atoi sd = 0 then none else chunkValue rest [] (lens ++ [atoi sd]) := by
  have hlen : ¬ (sd.length ≥ SDIM_SZ - 1) := by omega
  have hroom' : ¬ (lens.length ≥ H4_MAX_VAR_DIMS) := by omega
  obtain ⟨y, ys, hy⟩ := List.exists_cons_of_ne_nil hr
  subst hy
  conv => lhs; unfold chunkValue
  simp [hlen, chunkChar, hroom']

theorem chunkValue_last : ∀ (ds sd : Str) (lens : List Nat), ds ≠ [] → (∀ c ∈ ds, c.isDigit = true) →
    (sd ++ ds).length ≤ SDIM_SZ - 1 → atoi (sd ++ ds) ≠ 0 → lens.length < H4_MAX_VAR_DIMS →
    chunkValue ds sd lens = some ⟨(lens.length + 1 : Nat), lens ++ [atoi (sd ++ ds)]⟩ := by
  intro ds
  induction ds with
  | nil => intro sd lens h; exact absurd rfl h
  | cons c cs ih =>
    intro sd lens _ hd hl hz hroom
    have hroom' : ¬ (lens.length ≥ H4_MAX_VAR_DIMS) := by omega
    have hc := hd c (by simp)
    obtain ⟨_, _, hx, _⟩ := digit_ne c hc
    cases cs with
    | nil =>
      have hlen : ¬ (sd.length ≥ SDIM_SZ - 1) := by simp at hl; omega
      have hnone : sd ++ [c] ≠ "NONE".toList := by
        intro h
        have hm : c ∈ "NONE".toList := by rw [← h]; simp
        have : c = 'N' ∨ c = 'O' ∨ c = 'E' := by
          simp at hm; rcases hm with h | h | h | h <;> simp [h]
        rcases this with rfl | rfl | rfl <;> simp at hc
      have hnone' : ¬ (sd ++ [c] = ['N', 'O', 'N', 'E']) := hnone
      conv => lhs; unfold chunkValue
      simp [hlen, hx, digit_chunkChar c hc, hnone', hz, hroom']
    | cons c2 rest =>
      rw [chunkValue_step c _ sd lens hc (by simp at hl; omega) (by simp)]
      have := ih (sd ++ [c]) lens (by simp) (fun x hx => hd x (by simp [hx])) (by simp at hl ⊢; omega) (by simpa using hz) hroom
      simpa using this

theorem joinDims_ne_nil : ∀ (l : List Nat), l ≠ [] → joinDims l ≠ [] := by
  intro l h
  cases l with
  | nil => exact absurd rfl h
  | cons n ms =>
    cases ms with
    | nil => simpa [joinDims] using natStr_ne_nil n
    | cons m ms' => simp [joinDims]

/-- **`d1xd2x...` parses back**: every length in 1 .. 99 999 999, at most `H4_MAX_VAR_DIMS` lengths in all -/
theorem chunkValue_joinDims : ∀ (l : List Nat) (acc : List Nat), l ≠ [] → (∀ n ∈ l, 1 ≤ n ∧ n < 10 ^ 8) →
    (acc ++ l).length ≤ H4_MAX_VAR_DIMS →
    chunkValue (joinDims l) [] acc = some ⟨((acc ++ l).length : Nat), acc ++ l⟩ := by
  intro l
  induction l with
  | nil => intro acc h; exact absurd rfl h
  | cons n ms ih =>
    intro acc _ hg hroom
    have hroom1 : acc.length < H4_MAX_VAR_DIMS := by simp at hroom; omega
    obtain ⟨h1, h2⟩ := hg n (by simp)
    have hlen := natStr_length n 8 (by omega) h2
    cases ms with
    | nil =>
      simp only [joinDims]
      have := chunkValue_last (natStr n) [] acc (natStr_ne_nil n) (natStr_digits n) (by simp [SDIM_SZ]; omega)
        (by simp [atoi_natStr]; omega) hroom1
      simpa [atoi_natStr] using this
    | cons m ms' =>
      simp only [joinDims]
      have hne : joinDims (m :: ms') ≠ [] := joinDims_ne_nil _ (by simp)
      rw [chunkValue_digits (natStr n) [] acc _ (natStr_digits n) (by simp [SDIM_SZ]; omega) (by simp)]
      rw [List.nil_append, chunkValue_x _ _ _ (by simp [SDIM_SZ]; omega) hne hroom1, atoi_natStr]
      have : ¬ n = 0 := by omega
      simp only [this, if_false]
      rw [ih (acc ++ [n]) (by simp) (fun x hx => hg x (by simp [hx])) (by simpa using hroom)]
      simp

end H4.Tools

namespace H4.Tools
open H4.Gen.Tools

/-- the characters of the coder name are collected into `scomp` -/
theorem compValue_prefix : ∀ (nm sc rest : Str), (∀ c ∈ nm, c ≠ ' ') → (sc ++ nm).length ≤ SCOMP_SZ - 1 → rest ≠ [] →
    compValue (nm ++ rest) sc = compValue rest (sc ++ nm) := by
  intro nm
  induction nm with
  | nil => intro sc rest _ _ _; simp
  | cons c cs ih =>
    intro sc rest hn hl hr
    have hc := hn c (by simp)
    have hlen : ¬ (sc.length ≥ SCOMP_SZ - 1) := by simp at hl; omega
    have hne : cs ++ rest ≠ [] := by simp [hr]
    obtain ⟨y, ys, hy⟩ := List.exists_cons_of_ne_nil hne
    rw [List.cons_append, hy]
    conv => lhs; unfold compValue
    simp only [hlen, hc, if_false]
    rw [← hy, ih (sc ++ [c]) rest (fun x hx => hn x (by simp [hx])) (by simp at hl ⊢; omega) hr]
    simp

theorem compValue_param (sc ds : Str) (hl : sc.length < SCOMP_SZ - 1) (hd : ∀ c ∈ ds, c.isDigit = true)
    (hn : ds.length ≤ STYPE_SZ - 1) (hs : sc ≠ "SZIP".toList) :
    compValue (' ' :: ds) sc = compOfName sc ds.length false (atoi ds) := by
  have hlen : ¬ (sc.length ≥ SCOMP_SZ - 1) := by omega
  have hall : ds.all Char.isDigit = true := List.all_eq_true.mpr hd
  have hs' : ¬ (sc = ['S', 'Z', 'I', 'P']) := hs
  conv => lhs; unfold compValue
  simp [hlen, hall, hn, hs']

theorem compValue_noparam : ∀ (nm sc : Str), nm ≠ [] → (∀ c ∈ nm, c ≠ ' ') → (sc ++ nm).length ≤ SCOMP_SZ - 1 →
    compValue nm sc = compOfName (sc ++ nm) 0 true (-1) := by
  intro nm
  induction nm with
  | nil => intro sc h; exact absurd rfl h
  | cons c cs ih =>
    intro sc _ hn hl
    have hc := hn c (by simp)
    have hlen : ¬ (sc.length ≥ SCOMP_SZ - 1) := by simp at hl; omega
    cases cs with
    | nil =>
      conv => lhs; unfold compValue
      simp [hlen, hc]
    | cons c2 rest =>
      conv => lhs; unfold compValue
      simp only [hlen, hc, if_false]
      rw [ih (sc ++ [c]) (by simp) (fun x hx => hn x (by simp [hx])) (by simp at hl ⊢; omega)]
      simp

end H4.Tools
