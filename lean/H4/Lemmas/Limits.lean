import H4.Limits
/-! Helper lemmas for C20 (allocation part): `wrap32` is the identity on int32 values, the fixed code keeps every
    sum inside the range, `WF32` is preserved by every modelled operation. -/
namespace H4.Limits
open H4.Gen.Hdf

theorem consts : I32MAX = 2147483647 ∧ maxEnd = 2147483646 ∧ (INVALID_OFFSET : Int) = -1 ∧ (INVALID_LENGTH : Int) = -1
    ∧ (∀ n, blockSize n = 6 + 12 * (n : Int)) := by
  refine ⟨rfl, rfl, rfl, rfl, ?_⟩
  intro n
  simp only [blockSize, NDDS_SZ, OFFSET_SZ, DD_SZ]
  omega

theorem i32max_eq : I32MAX = 2147483647 := rfl
theorem maxEnd_eq : maxEnd = 2147483646 := rfl
theorem blockSize_eq (n : Nat) : blockSize n = 6 + 12 * (n : Int) := consts.2.2.2.2 n
theorem blockSize_nonneg (n : Nat) : 0 ≤ blockSize n := by rw [blockSize_eq]; omega

/-- `wrap32` does nothing to a value that is an `int32` -/
theorem wrap32_id {x : Int} (h1 : -2147483648 ≤ x) (h2 : x ≤ 2147483647) : wrap32 x = x := by
  unfold wrap32; omega

/-- and always produces one -/
theorem wrap32_range (x : Int) : -2147483648 ≤ wrap32 x ∧ wrap32 x ≤ 2147483647 := by
  unfold wrap32; omega

/-- a descriptor is acceptable when it has no data yet or its extent lies inside `[0, e]` -/
def DD.okUpTo (d : DD) (e : Int) : Prop := (d.off = -1 ∧ d.len = -1) ∨ (0 ≤ d.off ∧ 0 ≤ d.len ∧ d.off + d.len ≤ e)

/-- **the invariant**: the end of file is a non-negative int32 with room for the pad byte, and every descriptor and
    DD block ends at or before it -/
structure WF32 (s : St) : Prop where
  end_lo : 0 ≤ s.endOff
  end_hi : s.endOff ≤ maxEnd
  ndds_ok : s.ndds ≤ 32767
  dds_ok : ∀ d ∈ s.dds, d.okUpTo s.endOff
  blocks_ok : ∀ b ∈ s.blocks, 0 ≤ b ∧ b + blockSize s.ndds ≤ s.endOff

theorem DD.okUpTo_mono {d : DD} {e e' : Int} (h : d.okUpTo e) (he : e ≤ e') : d.okUpTo e' := by
  rcases h with h | ⟨a, b, c⟩
  · exact Or.inl h
  · exact Or.inr ⟨a, b, by omega⟩

theorem DD.invalid_iff (d : DD) : d.invalid = true ↔ (d.off = -1 ∧ d.len = -1) := by
  simp [DD.invalid, INVALID_OFFSET, INVALID_LENGTH]

/-! ### HPgetdiskblock -/

/-- with the range check, a block that is handed out starts at the old end, and the new end is the exact sum and
    still leaves room for the pad byte -/
theorem getdiskblock_some {c : Cfg} (hA : c.fixA = true) {s : St} (h : WF32 s) {n : Int} {m : Bool} {off : Int} {s' : St}
    (hg : getdiskblock c s n m = some (off, s')) :
    off = s.endOff ∧ 0 ≤ n ∧ s.endOff + n ≤ maxEnd ∧ s' = { s with endOff := s.endOff + n } := by
  have h1 := h.end_lo; have h2 := h.end_hi
  rw [maxEnd_eq] at h2 ⊢
  have hw : wrap32 (2147483647 - s.endOff) = 2147483647 - s.endOff := by
    apply wrap32_id <;> omega
  unfold getdiskblock at hg
  simp only [hA, Bool.true_and, i32max_eq, hw] at hg
  split at hg
  · simp at hg
  · rename_i hn
    split at hg
    · simp at hg
    · rename_i hlim
      simp only [decide_eq_true_eq] at hlim
      have hw2 : wrap32 (s.endOff + n) = s.endOff + n := by apply wrap32_id <;> omega
      split at hg
      · simp at hg
      · split at hg
        · simp at hg
        · simp only [Option.some.injEq, Prod.mk.injEq] at hg
          refine ⟨hg.1.symm, by omega, by omega, ?_⟩
          rw [← hg.2, hw2]

/-- **limit_rejected (allocation)**: a block that would push the end of file beyond `maxEnd` is refused -/
theorem getdiskblock_rejected {c : Cfg} (hA : c.fixA = true) {s : St} (h : WF32 s) {n : Int} (m : Bool)
    (hbig : s.endOff + n > maxEnd) : getdiskblock c s n m = none := by
  have h1 := h.end_lo; have h2 := h.end_hi
  rw [maxEnd_eq] at h2 hbig
  have hw : wrap32 (2147483647 - s.endOff) = 2147483647 - s.endOff := by
    apply wrap32_id <;> omega
  unfold getdiskblock
  simp only [hA, Bool.true_and, i32max_eq, hw]
  split
  · rfl
  · have : n ≥ 2147483647 - s.endOff := by omega
    simp [this]

/-- and one that fits is granted (when DD caching is on, or the block is not empty / the seek target is fine) -/
theorem getdiskblock_granted {c : Cfg} (hA : c.fixA = true) {s : St} (h : WF32 s) {n : Int} (m : Bool)
    (h0 : 0 ≤ n) (hfit : s.endOff + n ≤ maxEnd) :
    getdiskblock c s n m = some (s.endOff, { s with endOff := s.endOff + n }) := by
  have h1 := h.end_lo; have h2 := h.end_hi
  rw [maxEnd_eq] at h2 hfit
  have hw : wrap32 (2147483647 - s.endOff) = 2147483647 - s.endOff := by
    apply wrap32_id <;> omega
  have hw2 : wrap32 (s.endOff + n) = s.endOff + n := by apply wrap32_id <;> omega
  unfold getdiskblock
  simp only [hA, Bool.true_and, i32max_eq, hw, hw2]
  have hn : ¬ n < 0 := by omega
  have hl : ¬ n ≥ 2147483647 - s.endOff := by omega
  have hneg : ¬ s.endOff < 0 := by omega
  simp only [hn, hl, hneg, if_false, decide_false, Bool.and_false, Bool.false_eq_true]
  by_cases hpos : n > 0
  · have hw3 : wrap32 (s.endOff + n - 1) = s.endOff + n - 1 := by apply wrap32_id <;> omega
    have : ¬ s.endOff + n - 1 < 0 := by omega
    simp [hw3, this]
  · simp [hpos]

/-! ### descriptors -/

theorem endRule_valid {e off len : Int} (h0 : 0 ≤ off) (h1 : 0 ≤ len) (h2 : off + len ≤ maxEnd) :
    endRule e off len = if off + len > e then off + len else e := by
  rw [maxEnd_eq] at h2
  have hw : wrap32 (off + len) = off + len := by apply wrap32_id <;> omega
  have ho : (off != (INVALID_OFFSET : Int)) = true := by simp [INVALID_OFFSET]; omega
  have hl : (len != (INVALID_LENGTH : Int)) = true := by simp [INVALID_LENGTH]; omega
  simp [endRule, hw, ho, hl]

theorem updateDD_wf {s : St} (h : WF32 s) (tag ref : Nat) {off len : Int}
    (h0 : 0 ≤ off) (h1 : 0 ≤ len) (h2 : off + len ≤ maxEnd) : WF32 (updateDD s tag ref off len) := by
  have he := endRule_valid (e := s.endOff) h0 h1 h2
  have hge : s.endOff ≤ endRule s.endOff off len := by rw [he]; split <;> omega
  have hcov : off + len ≤ endRule s.endOff off len := by rw [he]; split <;> omega
  have hhi : endRule s.endOff off len ≤ maxEnd := by
    rw [he]; split
    · exact h2
    · exact h.end_hi
  refine ⟨by have := h.end_lo; simp only [updateDD]; omega, by simpa [updateDD] using hhi, h.ndds_ok, ?_, ?_⟩
  · intro d hd
    simp only [updateDD, List.mem_map] at hd
    obtain ⟨d0, hd0, rfl⟩ := hd
    simp only [updateDD]
    split
    · exact Or.inr ⟨h0, h1, hcov⟩
    · exact DD.okUpTo_mono (h.dds_ok d0 hd0) hge
  · intro b hb
    have := h.blocks_ok b hb
    simp only [updateDD] at hb ⊢
    exact ⟨this.1, by omega⟩

theorem updateDD_endOff_same {s : St} (tag ref : Nat) {off len : Int} (h0 : 0 ≤ off) (h1 : 0 ≤ len)
    (h2 : off + len ≤ maxEnd) (hle : off + len ≤ s.endOff) : (updateDD s tag ref off len).endOff = s.endOff := by
  simp only [updateDD, endRule_valid h0 h1 h2]
  split <;> omega

/-! ### HTInew_dd_block / HTPcreate / Hsetlength / Hstartwrite -/

theorem newBlock_wf {c : Cfg} (hA : c.fixA = true) {s s' : St} (h : WF32 s) (hn : newBlock c s = some s') :
    WF32 s' ∧ s'.endOff = s.endOff + blockSize s.ndds ∧ s'.dds = s.dds ∧ s'.free = s.free + s.ndds ∧ s'.ndds = s.ndds := by
  unfold newBlock at hn
  split at hn
  · simp at hn
  · rename_i off s1 hg
    obtain ⟨ho, hn0, hfit, hs1⟩ := getdiskblock_some hA h hg
    simp only [Option.some.injEq] at hn
    subst hn; subst hs1; subst ho
    have hb := blockSize_nonneg s.ndds
    have hw : wrap32 (s.endOff + blockSize s.ndds) = s.endOff + blockSize s.ndds := by
      have := h.end_lo; rw [maxEnd_eq] at hfit
      apply wrap32_id <;> omega
    simp only [hw]
    refine ⟨⟨?_, hfit, h.ndds_ok, ?_, ?_⟩, by first | rfl | trivial, by first | rfl | trivial, by first | rfl | trivial, by first | rfl | trivial⟩
    · have := h.end_lo; simp only; omega
    · intro d hd
      exact DD.okUpTo_mono (h.dds_ok d hd) (by simp only; omega)
    · intro b hb'
      simp only [List.mem_append, List.mem_singleton] at hb'
      rcases hb' with hb' | rfl
      · have := h.blocks_ok b hb'; exact ⟨this.1, by simp only; omega⟩
      · exact ⟨h.end_lo, by simp only; omega⟩

theorem htpCreate_wf {c : Cfg} (hA : c.fixA = true) {s s' : St} (h : WF32 s) (tag ref : Nat)
    (hc : htpCreate c s tag ref = some s') :
    WF32 s' ∧ (s'.endOff = s.endOff ∨ (s.free = 0 ∧ s'.endOff = s.endOff + blockSize s.ndds))
      ∧ s'.dds = s.dds ++ [{ tag, ref, off := INVALID_OFFSET, len := INVALID_LENGTH }] := by
  unfold htpCreate at hc
  split at hc
  · rename_i hfree
    cases hnb : newBlock c s with
    | none => simp [hnb] at hc
    | some s1 =>
      obtain ⟨hw, he, hd, _, _⟩ := newBlock_wf hA h hnb
      simp only [hnb, Option.map_some, Option.some.injEq] at hc
      subst hc
      refine ⟨⟨hw.end_lo, hw.end_hi, hw.ndds_ok, ?_, hw.blocks_ok⟩, Or.inr ⟨hfree, he⟩, by simp [hd]⟩
      intro d hdm
      simp only [List.mem_append, List.mem_singleton] at hdm
      rcases hdm with hdm | rfl
      · exact hw.dds_ok d hdm
      · exact Or.inl ⟨rfl, rfl⟩
  · simp only [Option.map_some, Option.some.injEq] at hc
    subst hc
    refine ⟨⟨h.end_lo, h.end_hi, h.ndds_ok, ?_, h.blocks_ok⟩, Or.inl rfl, rfl⟩
    intro d hdm
    simp only [List.mem_append, List.mem_singleton] at hdm
    rcases hdm with hdm | rfl
    · exact h.dds_ok d hdm
    · exact Or.inl ⟨rfl, rfl⟩

theorem setlength_wf {c : Cfg} (hA : c.fixA = true) {s : St} (h : WF32 s) (tag ref : Nat) (len : Int) :
    WF32 (setlength c s tag ref len).1 := by
  unfold setlength
  split
  · exact h
  · rename_i off s2 hg
    obtain ⟨ho, hn0, hfit, hs2⟩ := getdiskblock_some hA h hg
    subst hs2; subst ho
    have h' : WF32 { s with endOff := s.endOff + len } :=
      ⟨by have := h.end_lo; simp only; omega, hfit, h.ndds_ok,
       fun d hd => DD.okUpTo_mono (h.dds_ok d hd) (by simp only; omega),
       fun b hb => ⟨(h.blocks_ok b hb).1, by have := (h.blocks_ok b hb).2; simp only; omega⟩⟩
    exact updateDD_wf h' tag ref h.end_lo hn0 hfit

theorem reserve_wf {c : Cfg} (hA : c.fixA = true) {s : St} (h : WF32 s) (tag ref : Nat) (len : Int) :
    WF32 (reserve c s tag ref len).1 := by
  unfold reserve
  split
  · split
    · exact h
    · rename_i s1 hc
      exact setlength_wf hA (htpCreate_wf hA h tag ref hc).1 tag ref len
  · split
    · exact setlength_wf hA h tag ref len
    · exact h

/-! ### Hseek / Hwrite -/

theorem findDD_mem {s : St} {tag ref : Nat} {d : DD} (h : findDD s tag ref = some d) :
    d ∈ s.dds ∧ d.tag = tag ∧ d.ref = ref := by
  unfold findDD at h
  have h1 := List.mem_of_find?_eq_some h
  have h2 := List.find?_some h
  simp only [Bool.and_eq_true, beq_iff_eq] at h2
  exact ⟨h1, h2.1, h2.2⟩

/-- a write on a valid element at a position that is an int32 ≥ 0 keeps the invariant (fixed `Hwrite`) -/
theorem hwrite_wf {c : Cfg} (hB : c.fixB = true) {s : St} (h : WF32 s) {d : DD} (hd : d ∈ s.dds)
    (hv : d.invalid = false) (app : Bool) {posn n : Int} (hp0 : 0 ≤ posn) (hp1 : posn ≤ I32MAX)
    (hn1 : n ≤ I32MAX) : WF32 (hwrite c s d app posn n).1 := by
  have hok := h.dds_ok d hd
  have hnv : ¬ (d.off = -1 ∧ d.len = -1) := by
    intro hh; have := (DD.invalid_iff d).2 hh; rw [hv] at this; cases this
  rcases hok with hh | ⟨ho, hl, hol⟩
  · exact absurd hh hnv
  have e1 := h.end_lo; have e2 := h.end_hi
  rw [maxEnd_eq] at e2; rw [i32max_eq] at hp1 hn1
  have hw1 : wrap32 ((I32MAX - 1) - d.off) = 2147483646 - d.off := by
    rw [i32max_eq]; apply wrap32_id <;> omega
  have hw2 : wrap32 (2147483646 - d.off - posn) = 2147483646 - d.off - posn := by apply wrap32_id <;> omega
  unfold hwrite
  simp only [hB, Bool.true_and, hw1, hw2]
  split
  · exact h
  · rename_i hchk
    split
    · exact h
    · rename_i hbad
      simp only [Bool.or_eq_true, decide_eq_true_eq, Bool.and_eq_true, Bool.not_eq_true', not_or, not_and] at hbad
      have hnpos : 0 < n := by omega
      have hdo : (decide (d.off ≥ 0)) = true := by simp [ho]
      simp only [hnpos, hdo, decide_true, Bool.and_true, Bool.true_and, decide_eq_true_eq] at hchk
      have hfit : d.off + posn + n ≤ 2147483646 := by omega
      have hwnp : wrap32 (n + posn) = n + posn := by apply wrap32_id <;> omega
      have hwpn : wrap32 (posn + n) = posn + n := by apply wrap32_id <;> omega
      have hwlo : wrap32 (d.len + d.off) = d.len + d.off := by apply wrap32_id <;> omega
      have hwt : wrap32 (posn + d.off) = posn + d.off := by apply wrap32_id <;> omega
      have hwc : wrap32 (posn + d.off + n) = posn + d.off + n := by apply wrap32_id <;> omega
      simp only [hwnp, hwpn, hwlo, hwt, hwc]
      split
      · exact h
      · have htn : ¬ posn + d.off < 0 := by omega
        simp only [htn, if_false]
        -- the state after the optional length update
        have hs1 : WF32 (if (app && decide (n + posn > d.len)) = true then updateDD s d.tag d.ref d.off (posn + n) else s) := by
          split
          · exact updateDD_wf h d.tag d.ref ho (by omega) (by rw [maxEnd_eq]; omega)
          · exact h
        generalize hs1def : (if (app && decide (n + posn > d.len)) = true then updateDD s d.tag d.ref d.off (posn + n) else s) = s1 at hs1
        refine ⟨?_, ?_, hs1.ndds_ok, ?_, ?_⟩
        · have := hs1.end_lo; simp only; split <;> omega
        · have := hs1.end_hi; simp only; split
          · rw [maxEnd_eq]; omega
          · exact this
        · intro d' hd'
          refine DD.okUpTo_mono (hs1.dds_ok d' hd') ?_
          simp only; split <;> omega
        · intro b hb
          have := hs1.blocks_ok b hb
          refine ⟨this.1, ?_⟩
          simp only; split <;> omega

/-- **limit_rejected (appending write)**: a write that would end beyond `maxEnd` in the file is refused and
    nothing changes -/
theorem hwrite_rejected {c : Cfg} (hB : c.fixB = true) {s : St} (h : WF32 s) {d : DD} (hd : d ∈ s.dds)
    (hv : d.invalid = false) (app : Bool) {posn n : Int} (hp0 : 0 ≤ posn) (hp1 : posn ≤ I32MAX)
    (hn0 : 0 < n) (hbig : d.off + posn + n > maxEnd) : hwrite c s d app posn n = (s, .fail) := by
  have hok := h.dds_ok d hd
  have hnv : ¬ (d.off = -1 ∧ d.len = -1) := by
    intro hh; have := (DD.invalid_iff d).2 hh; rw [hv] at this; cases this
  rcases hok with hh | ⟨ho, hl, hol⟩
  · exact absurd hh hnv
  have e2 := h.end_hi
  rw [maxEnd_eq] at e2 hbig; rw [i32max_eq] at hp1
  have hw1 : wrap32 ((I32MAX - 1) - d.off) = 2147483646 - d.off := by
    rw [i32max_eq]; apply wrap32_id <;> omega
  have hw2 : wrap32 (2147483646 - d.off - posn) = 2147483646 - d.off - posn := by apply wrap32_id <;> omega
  unfold hwrite
  have hc : n > 2147483646 - d.off - posn := by omega
  simp [hB, hw1, hw2, hn0, ho, hc]

theorem hseek_some {s : St} {d : DD} {app : Bool} {pos p : Int} (h : hseek s d app pos = some (some p)) :
    p = pos ∧ 0 ≤ pos := by
  unfold hseek at h
  split at h
  · rename_i h0; simp only [Option.some.injEq] at h; omega
  · split at h
    · simp at h
    · rename_i hneg
      simp only [Bool.or_eq_true, decide_eq_true_eq, not_or] at hneg
      split at h
      · simp at h
      · simp only [Option.some.injEq] at h; omega

theorem append_wf {c : Cfg} (hB : c.fixB = true) {s : St} (h : WF32 s) (tag ref : Nat) {pos n : Int}
    (hp : pos ≤ I32MAX) (hn : n ≤ I32MAX) : WF32 (append c s tag ref pos n).1 := by
  unfold append
  split
  · exact h
  · rename_i d hf
    split
    · exact h
    · rename_i hv
      split
      · exact h
      · exact h
      · rename_i p hs
        obtain ⟨rfl, hp0⟩ := hseek_some hs
        exact hwrite_wf hB h (findDD_mem hf).1 (by simpa using hv) true hp0 hp hn

theorem write_wf {c : Cfg} (hB : c.fixB = true) {s : St} (h : WF32 s) (tag ref : Nat) {pos n : Int}
    (hp : pos ≤ I32MAX) (hn : n ≤ I32MAX) : WF32 (write c s tag ref pos n).1 := by
  unfold write
  split
  · exact h
  · rename_i d hf
    split
    · exact h
    · rename_i hv
      split
      · exact h
      · exact h
      · rename_i p hs
        obtain ⟨rfl, hp0⟩ := hseek_some hs
        exact hwrite_wf hB h (findDD_mem hf).1 (by simpa using hv) false hp0 hp hn

/-! ### HTPstart -/

/-- running maximum as `HTPstart` computes it -/
def fmax {α : Type} (f : α → Int) (l : List α) (e : Int) : Int := l.foldl (fun e x => if f x > e then f x else e) e

theorem fmax_ge_init {α : Type} (f : α → Int) (l : List α) (e : Int) : e ≤ fmax f l e := by
  induction l generalizing e with
  | nil => simp [fmax]
  | cons x xs ih =>
    simp only [fmax, List.foldl_cons] at ih ⊢
    split
    · exact Int.le_trans (by omega) (ih _)
    · exact ih _

theorem fmax_ge_mem {α : Type} (f : α → Int) (l : List α) (e : Int) {x : α} (hx : x ∈ l) : f x ≤ fmax f l e := by
  induction l generalizing e with
  | nil => cases hx
  | cons y ys ih =>
    simp only [fmax, List.foldl_cons]
    rcases List.mem_cons.mp hx with rfl | hx
    · split
      · exact fmax_ge_init f ys _
      · exact Int.le_trans (by omega) (fmax_ge_init f ys _)
    · exact ih _ hx

theorem fmax_le {α : Type} (f : α → Int) (l : List α) (e B : Int) (he : e ≤ B) (hl : ∀ x ∈ l, f x ≤ B) : fmax f l e ≤ B := by
  induction l generalizing e with
  | nil => simpa [fmax]
  | cons y ys ih =>
    simp only [fmax, List.foldl_cons]
    have hy := hl y (List.mem_cons_self ..)
    have hys : ∀ x ∈ ys, f x ≤ B := fun x hx => hl x (List.mem_cons_of_mem _ hx)
    split
    · exact ih _ hy hys
    · exact ih _ he hys

theorem reopenEnd_eq (s : St) :
    reopenEnd s = fmax (fun d : DD => wrap32 (d.off + d.len)) s.dds (fmax (fun b : Int => wrap32 (b + blockSize s.ndds)) s.blocks 0) := rfl

theorem reopen_wf {c : Cfg} {s : St} (h : WF32 s) : WF32 (reopen c s).1 := by
  unfold reopen
  split
  · have e2 := h.end_hi; have e1 := h.end_lo
    rw [maxEnd_eq] at e2
    have hdd : ∀ d ∈ s.dds, wrap32 (d.off + d.len) ≤ s.endOff ∧ (d.invalid = false → wrap32 (d.off + d.len) = d.off + d.len) := by
      intro d hd
      rcases h.dds_ok d hd with ⟨a, b⟩ | ⟨a, b, c⟩
      · rw [a, b]
        refine ⟨by rw [wrap32_id] <;> omega, fun hv => ?_⟩
        have := (DD.invalid_iff d).2 ⟨a, b⟩; rw [hv] at this; cases this
      · have : wrap32 (d.off + d.len) = d.off + d.len := by apply wrap32_id <;> omega
        exact ⟨by rw [this]; exact c, fun _ => this⟩
    have hbl : ∀ b ∈ s.blocks, wrap32 (b + blockSize s.ndds) = b + blockSize s.ndds ∧ b + blockSize s.ndds ≤ s.endOff := by
      intro b hb
      have := h.blocks_ok b hb
      have hbs := blockSize_nonneg s.ndds
      exact ⟨by apply wrap32_id <;> omega, this.2⟩
    have hle : reopenEnd s ≤ s.endOff := by
      rw [reopenEnd_eq]
      apply fmax_le
      · apply fmax_le _ _ _ _ e1
        intro b hb; rw [(hbl b hb).1]; exact (hbl b hb).2
      · intro d hd; exact (hdd d hd).1
    have hge0 : 0 ≤ reopenEnd s := by
      rw [reopenEnd_eq]
      exact Int.le_trans (fmax_ge_init _ _ _) (fmax_ge_init _ _ _)
    refine ⟨hge0, by simp only; rw [maxEnd_eq]; omega, h.ndds_ok, ?_, ?_⟩
    · intro d hd
      rcases h.dds_ok d hd with hi | ⟨a, b, c⟩
      · exact Or.inl hi
      · refine Or.inr ⟨a, b, ?_⟩
        have hw : wrap32 (d.off + d.len) = d.off + d.len := by apply wrap32_id <;> omega
        have := fmax_ge_mem (fun d : DD => wrap32 (d.off + d.len)) s.dds
          (fmax (fun b : Int => wrap32 (b + blockSize s.ndds)) s.blocks 0) hd
        simp only [hw] at this
        simpa [reopenEnd_eq] using this
    · intro b hb
      refine ⟨(h.blocks_ok b hb).1, ?_⟩
      have h1 := fmax_ge_mem (fun b : Int => wrap32 (b + blockSize s.ndds)) s.blocks 0 hb
      simp only [(hbl b hb).1] at h1
      have h2 := fmax_ge_init (fun d : DD => wrap32 (d.off + d.len)) s.dds
        (fmax (fun b : Int => wrap32 (b + blockSize s.ndds)) s.blocks 0)
      simp only [reopenEnd_eq]
      omega
  · exact h

/-- in a well-formed state the recomputed end of file is the end of file (nothing allocated is forgotten) is NOT
    claimed: a refused `Hsetlength` leaves no hole, but `reopenEnd ≤ endOff` is all the invariant gives -/
theorem reopenEnd_le {s : St} (h : WF32 s) : (reopen head s).1.endOff ≤ s.endOff := by
  have e1 := h.end_lo; have e2 := h.end_hi
  rw [maxEnd_eq] at e2
  unfold reopen
  split
  · simp only [reopenEnd_eq]
    apply fmax_le
    · apply fmax_le _ _ _ _ e1
      intro b hb
      have := h.blocks_ok b hb
      have hbs := blockSize_nonneg s.ndds
      rw [wrap32_id (by omega) (by omega)]; exact this.2
    · intro d hd
      rcases h.dds_ok d hd with ⟨a, b⟩ | ⟨a, b, c⟩
      · rw [a, b, wrap32_id (by omega) (by omega)]; omega
      · rw [wrap32_id (by omega) (by omega)]; exact c
  · exact Int.le_refl _

end H4.Limits
