import H4.Lemmas.C07Fld
/-! `VSfdefine` (vsfld.c) as translated statement by statement (`H4.Gen.Fn.Vsfld.VSfdefine`): the duplicate scan, and the function cut
    into five pieces (copies of the generated text, glued by `VSfdefine_pieces : … := rfl`, so a change of the C text breaks the
    glue) with one lemma per piece. -/
namespace H4.Lemmas.C07Fld
open H4.Gen.Fn.Dfconv H4.Gen.Fn.Vsfld H4.VData H4.Gen.Hdf H4.Gen.Vs H4.C2L H4.VsfldEnc
set_option linter.unusedVariables false
set_option linter.unusedSimpArgs false

instance : Inhabited SymDef := ⟨⟨"", 0, 0, 0⟩⟩

theorem fd_chk_true (s : VSfdefine.St) (c : Prop) [Decidable c] (h : c) : VSfdefine.chk s c = s := by
  simp [VSfdefine.chk, h]

/-- one pass of the duplicate scan of `VSfdefine` -/
theorem fd_loop0_step (usym : List SymDef) (hn : ∀ sd ∈ usym, NameOK sd.name) (tok : String) (htok : NameOK tok) (pad : List Int)
    (rest : List (List Int)) (fuel : Nat) (s : VSfdefine.St)
    (hav : s.av = (chars tok ++ 0 :: pad) :: rest) (hnm : s.vs_usym_name = nameRows usym) (hnu : s.vs_nusym = usym.length)
    (hj0 : 0 ≤ s.j) (hj : s.j.toNat < usym.length) (hd : s.done = false) (hg : s.gto = false) (hb : s.brk = false) :
    VSfdefine.loop0 (fuel + 1) s =
      VSfdefine.loop0 fuel (if (usym.getD s.j.toNat default).name = tok then { s with replacesym := 1, brk := true, cnt := false }
        else { s with j := s.j + 1, cnt := false }) := by
  have hcond : (s.j < s.vs_nusym) ∧ ¬(s.done ∨ s.gto ∨ s.brk) := by
    refine ⟨by omega, ?_⟩
    simp [hd, hg, hb]
  rw [VSfdefine.loop0, if_pos hcond]
  congr 1
  have hrow : s.vs_usym_name.getD (Int.toNat s.j) [] = chars (usym.getD s.j.toNat default).name ++ 0 :: [] := by
    rw [hnm]; simp [nameRows, hj, cstr]
  have hnj : NameOK (usym.getD s.j.toNat default).name := hn _ (by simp [hj])
  obtain ⟨r, hr, hr0⟩ := strcmp_names tok (usym.getD s.j.toNat default).name htok hnj pad []
  have hav0 : s.av.getD (Int.toNat 0) [] = chars tok ++ 0 :: pad := by rw [hav]; rfl
  have c1 : VSfdefine.chk s (0 ≤ 0 ∧ 0 < s.av.length) = s := fd_chk_true _ _ (by rw [hav]; simp)
  have c2 : VSfdefine.chk s (0 ≤ s.j ∧ s.j < s.vs_usym_name.length) = s := fd_chk_true _ _ (by rw [hnm]; simp [nameRows]; omega)
  have c3 : VSfdefine.chk s ((strcmpC (s.av.getD (Int.toNat (0)) []) (s.vs_usym_name.getD (Int.toNat (s.j)) [])).isSome = true) = s :=
    fd_chk_true _ _ (by rw [hav0, hrow, hr]; rfl)
  simp only [VSfdefine.loop0.body]
  simp only [c1]
  simp only [c2]
  simp only [c3]
  simp only [hav0, hrow, hr, Option.getD_some]
  by_cases e : (usym.getD s.j.toNat default).name = tok
  · have : r = 0 := hr0.mpr e.symm
    subst this
    rw [if_pos e, if_pos (by simp), if_pos (by simp)]
    rfl
  · have : r ≠ 0 := fun h => e (hr0.mp h).symm
    rw [if_neg e, if_neg (show ¬ ¬ r ≠ 0 from fun h => h this)]
    have hc : ¬ ((s.set_cnt false).done = true ∨ (s.set_cnt false).gto = true ∨ (s.set_cnt false).brk = true) := by
      simp [hd, hg, hb]
    rw [if_neg hc]

theorem fd_loop0_exit (fuel : Nat) (s : VSfdefine.St) (h : ¬ ((s.j < s.vs_nusym) ∧ ¬(s.done ∨ s.gto ∨ s.brk))) :
    VSfdefine.loop0 fuel s = s := by
  cases fuel <;> (rw [VSfdefine.loop0, if_neg h])

/-- the duplicate scan of `VSfdefine`: `j` stops at the first symbol named `tok` (`replacesym = 1`, left by `break`) or at `nusym` -/
theorem fd_loop0_spec (usym : List SymDef) (hn : ∀ sd ∈ usym, NameOK sd.name) (tok : String) (htok : NameOK tok) (pad : List Int)
    (rest : List (List Int)) :
    ∀ (n fuel : Nat) (s : VSfdefine.St), n ≤ fuel →
    s.av = (chars tok ++ 0 :: pad) :: rest → s.vs_usym_name = nameRows usym → s.vs_nusym = usym.length →
    0 ≤ s.j → s.j.toNat + n = usym.length → s.done = false → s.gto = false → s.brk = false → s.cnt = false →
    VSfdefine.loop0 fuel s = match (usym.drop s.j.toNat).findIdx? (·.name == tok) with
      | some i => { s with j := s.j + i, replacesym := 1, brk := true }
      | none => { s with j := usym.length } := by
  intro n
  induction n with
  | zero =>
    intro fuel s _ hav hnm hnu hj0 hj hd hg hb hc
    rw [fd_loop0_exit _ _ (by omega)]
    have : usym.drop s.j.toNat = [] := List.drop_eq_nil_of_le (by omega)
    rw [this]
    have e : s.j = (usym.length : Int) := by omega
    simp only [List.findIdx?_nil]
    rw [← e]
  | succ n ih =>
    intro fuel s hf hav hnm hnu hj0 hj hd hg hb hc
    obtain ⟨fuel', rfl⟩ : ∃ f, fuel = f + 1 := ⟨fuel - 1, by omega⟩
    have hlt : s.j.toNat < usym.length := by omega
    rw [fd_loop0_step usym hn tok htok pad rest fuel' s hav hnm hnu hj0 hlt hd hg hb]
    have hdrop : usym.drop s.j.toNat = usym.getD s.j.toNat default :: usym.drop (s.j.toNat + 1) := by
      rw [List.drop_eq_getElem_cons hlt]; simp [hlt]
    rw [hdrop, List.findIdx?_cons]
    by_cases e : (usym.getD s.j.toNat default).name = tok
    · rw [if_pos e, fd_loop0_exit _ _ (by simp)]
      simp only [e, beq_self_eq_true, if_true]
      cases s
      simp_all
    · rw [if_neg e]
      have e' : ((usym.getD s.j.toNat default).name == tok) = false := by simpa using e
      rw [e', ih fuel' { s with j := s.j + 1, cnt := false } (by omega) hav hnm hnu (by show 0 ≤ s.j + 1; omega)
        (by show (s.j + 1).toNat + n = _; omega) hd hg hb rfl]
      have hj1 : (s.j + 1).toNat = s.j.toNat + 1 := by omega
      simp only [hj1]
      cases (usym.drop (s.j.toNat + 1)).findIdx? (·.name == tok) with
      | none => cases s; simp_all
      | some i =>
        cases s
        simp_all
        omega

/-! ### the pieces -/

def fdChk (fuel : Nat) (s : VSfdefine.St) : VSfdefine.St :=
  have s : VSfdefine.St := VSfdefine.St.set_ret_value s (0)
  have s : VSfdefine.St := if (s.vkey_group ≠ 4) then
      have s : VSfdefine.St := VSfdefine.St.set_ret_value s ((- 1))
      have s : VSfdefine.St := VSfdefine.St.set_gto s (true)
      s
    else
      s
  have s : VSfdefine.St := if s.done ∨ s.gto ∨ s.brk ∨ s.cnt then s else
    have s : VSfdefine.St := if (s.w_null = true) then
        have s : VSfdefine.St := VSfdefine.St.set_ret_value s ((- 1))
        have s : VSfdefine.St := VSfdefine.St.set_gto s (true)
        s
      else
        s
    s
  have s : VSfdefine.St := if s.done ∨ s.gto ∨ s.brk ∨ s.cnt then s else
    have s : VSfdefine.St := if (((s.vs_null = true) ∨ (s.scan_ret = (- 1))) ∨ (s.ac ≠ 1)) then
        have s : VSfdefine.St := VSfdefine.St.set_ret_value s ((- 1))
        have s : VSfdefine.St := VSfdefine.St.set_gto s (true)
        s
      else
        s
    s
  have s : VSfdefine.St := if s.done ∨ s.gto ∨ s.brk ∨ s.cnt then s else
    have s : VSfdefine.St := if ((s.order < 1) ∨ (s.order > 65535)) then
        have s : VSfdefine.St := VSfdefine.St.set_ret_value s ((- 1))
        have s : VSfdefine.St := VSfdefine.St.set_gto s (true)
        s
      else
        s
    s
  have s : VSfdefine.St := if s.done ∨ s.gto ∨ s.brk ∨ s.cnt then s else
    let r0 : H4.Gen.Fn.Dfconv.DFKNTsize.St := H4.Gen.Fn.Dfconv.DFKNTsize fuel (s.localtype)
    have s : VSfdefine.St := VSfdefine.St.join s r0.ub r0.oof
    have s : VSfdefine.St := VSfdefine.St.set_isize s ((((r0.ret) + 32768) % 65536 - 32768))
    s
  have s : VSfdefine.St := if s.done ∨ s.gto ∨ s.brk ∨ s.cnt then s else
    have s : VSfdefine.St := if ((s.isize = (- 1)) ∨ ((s.isize * s.order) > 65535)) then
        have s : VSfdefine.St := VSfdefine.St.set_ret_value s ((- 1))
        have s : VSfdefine.St := VSfdefine.St.set_gto s (true)
        s
      else
        s
    s
  s

def fdScan (fuel : Nat) (s : VSfdefine.St) : VSfdefine.St :=
  have s : VSfdefine.St := if s.done ∨ s.gto ∨ s.brk ∨ s.cnt then s else
    have s : VSfdefine.St := VSfdefine.St.set_replacesym s ((((0) + 32768) % 65536 - 32768))
    have s : VSfdefine.St := VSfdefine.St.set_j s (0)
    have s : VSfdefine.St := VSfdefine.loop0 fuel s
    have s : VSfdefine.St := VSfdefine.St.set_brk s (false)
    s
  s

def fdAlloc (fuel : Nat) (s : VSfdefine.St) : VSfdefine.St :=
  have s : VSfdefine.St := if s.done ∨ s.gto ∨ s.brk ∨ s.cnt then s else
    have s : VSfdefine.St := if (s.replacesym ≠ 0) then
        have s : VSfdefine.St := VSfdefine.St.set_usymid s (s.j)
        s
      else
        have s : VSfdefine.St := VSfdefine.St.set_usymid s (s.vs_nusym)
        have s : VSfdefine.St := if (s.vs_usym_null = true) then
            have s : VSfdefine.St := VSfdefine.chk s ((0 : Int) ≤ (Int.tdiv (((16 * (((s.usymid + 1)) % 18446744073709551616))) % 18446744073709551616) 16))
            let ncells : Int := (Int.tdiv (((16 * (((s.usymid + 1)) % 18446744073709551616))) % 18446744073709551616) 16)
            have s : VSfdefine.St := VSfdefine.St.set_vs_usym_name s (List.replicate (Int.toNat ncells) [])
            have s : VSfdefine.St := VSfdefine.St.set_vs_usym_isize s (List.replicate (Int.toNat ncells) 170)
            have s : VSfdefine.St := VSfdefine.St.set_vs_usym_type s (List.replicate (Int.toNat ncells) 170)
            have s : VSfdefine.St := VSfdefine.St.set_vs_usym_order s (List.replicate (Int.toNat ncells) 170)
            have s : VSfdefine.St := VSfdefine.St.set_vs_usym_null s (false)
            have s : VSfdefine.St := if False then
                have s : VSfdefine.St := VSfdefine.St.set_ret_value s ((- 1))
                have s : VSfdefine.St := VSfdefine.St.set_gto s (true)
                s
              else
                s
            s
          else
            have s : VSfdefine.St := VSfdefine.chk s ((0 : Int) ≤ (Int.tdiv (((16 * (((s.usymid + 1)) % 18446744073709551616))) % 18446744073709551616) 16))
            let ncells : Int := (Int.tdiv (((16 * (((s.usymid + 1)) % 18446744073709551616))) % 18446744073709551616) 16)
            have s : VSfdefine.St := VSfdefine.St.set_vs_usym_name s ((s.vs_usym_name.take (Int.toNat ncells)) ++ List.replicate (Int.toNat ncells - s.vs_usym_name.length) [])
            have s : VSfdefine.St := VSfdefine.St.set_vs_usym_isize s ((s.vs_usym_isize.take (Int.toNat ncells)) ++ List.replicate (Int.toNat ncells - s.vs_usym_isize.length) 170)
            have s : VSfdefine.St := VSfdefine.St.set_vs_usym_type s ((s.vs_usym_type.take (Int.toNat ncells)) ++ List.replicate (Int.toNat ncells - s.vs_usym_type.length) 170)
            have s : VSfdefine.St := VSfdefine.St.set_vs_usym_order s ((s.vs_usym_order.take (Int.toNat ncells)) ++ List.replicate (Int.toNat ncells - s.vs_usym_order.length) 170)
            have s : VSfdefine.St := VSfdefine.St.set_vs_usym_null s (false)
            have s : VSfdefine.St := if False then
                have s : VSfdefine.St := VSfdefine.St.set_ret_value s ((- 1))
                have s : VSfdefine.St := VSfdefine.St.set_gto s (true)
                s
              else
                s
            s
        s
    s
  s

def fdS1 (fuel : Nat) (s : VSfdefine.St) : VSfdefine.St :=
  have s : VSfdefine.St := if s.done ∨ s.gto ∨ s.brk ∨ s.cnt then s else
    have s : VSfdefine.St := VSfdefine.chk s (0 ≤ s.usymid ∧ s.usymid < s.vs_usym_isize.length)
    have s : VSfdefine.St := VSfdefine.St.set_vs_usym_isize s (s.vs_usym_isize.set (Int.toNat (s.usymid)) (((s.isize) % 65536)))
    s
  s

def fdS2 (fuel : Nat) (s : VSfdefine.St) : VSfdefine.St :=
  have s : VSfdefine.St := if s.done ∨ s.gto ∨ s.brk ∨ s.cnt then s else
    have s : VSfdefine.St := VSfdefine.chk s (0 ≤ s.usymid ∧ s.usymid < s.vs_usym_name.length)
    have s : VSfdefine.St := VSfdefine.chk s (0 ≤ 0 ∧ 0 < s.av.length)
    have s : VSfdefine.St := VSfdefine.chk s ((0 : Int) ∈ (s.av.getD (Int.toNat (0)) []))
    have s : VSfdefine.St := VSfdefine.St.set_vs_usym_name s (s.vs_usym_name.set (Int.toNat (s.usymid)) (((s.av.getD (Int.toNat (0)) []).take (((s.av.getD (Int.toNat (0)) []).takeWhile (· ≠ 0)).length + 1))))
    have s : VSfdefine.St := if False then
        have s : VSfdefine.St := VSfdefine.St.set_ret_value s ((- 1))
        have s : VSfdefine.St := VSfdefine.St.set_gto s (true)
        s
      else
        s
    s
  s

def fdS3 (fuel : Nat) (s : VSfdefine.St) : VSfdefine.St :=
  have s : VSfdefine.St := if s.done ∨ s.gto ∨ s.brk ∨ s.cnt then s else
    have s : VSfdefine.St := VSfdefine.chk s (0 ≤ s.usymid ∧ s.usymid < s.vs_usym_type.length)
    have s : VSfdefine.St := VSfdefine.St.set_vs_usym_type s (s.vs_usym_type.set (Int.toNat (s.usymid)) ((((s.localtype) + 32768) % 65536 - 32768)))
    s
  s

def fdS4 (fuel : Nat) (s : VSfdefine.St) : VSfdefine.St :=
  have s : VSfdefine.St := if s.done ∨ s.gto ∨ s.brk ∨ s.cnt then s else
    have s : VSfdefine.St := VSfdefine.chk s (0 ≤ s.usymid ∧ s.usymid < s.vs_usym_order.length)
    have s : VSfdefine.St := VSfdefine.St.set_vs_usym_order s (s.vs_usym_order.set (Int.toNat (s.usymid)) (((s.order) % 65536)))
    s
  s

def fdS5 (fuel : Nat) (s : VSfdefine.St) : VSfdefine.St :=
  have s : VSfdefine.St := if s.done ∨ s.gto ∨ s.brk ∨ s.cnt then s else
    have s : VSfdefine.St := if (¬(s.replacesym ≠ 0)) then
        have s : VSfdefine.St := VSfdefine.St.set_vs_nusym s (((((s.vs_nusym + 1)) + 32768) % 65536 - 32768))
        s
      else
        s
    s
  s

def fdDone (fuel : Nat) (s : VSfdefine.St) : VSfdefine.St :=
  have s : VSfdefine.St := if s.done then s else
    have s : VSfdefine.St := VSfdefine.St.set_gto s (false)
    have s : VSfdefine.St := VSfdefine.St.set_ret s (s.ret_value)
    have s : VSfdefine.St := VSfdefine.St.set_done s (true)
    s
  s

theorem VSfdefine_pieces (fuel : Nat) (vkey : Int) (localtype : Int) (order : Int) (ac : Int) (av : List (List Int)) (vkey_group : Int) (w_null : Bool) (vs_null : Bool) (scan_ret : Int) (vs_nusym : Int) (vs_usym_name : List (List Int)) (vs_usym_null : Bool) (vs_usym_isize : List Int) (vs_usym_type : List Int) (vs_usym_order : List Int) :
    VSfdefine fuel vkey localtype order ac av vkey_group w_null vs_null scan_ret vs_nusym vs_usym_name vs_usym_null vs_usym_isize vs_usym_type vs_usym_order = fdDone fuel (fdS5 fuel (fdS4 fuel (fdS3 fuel (fdS2 fuel (fdS1 fuel (fdAlloc fuel (fdScan fuel (fdChk fuel ({ vkey := vkey, localtype := localtype, order := order, ac := ac, av := av, vkey_group := vkey_group, w_null := w_null, vs_null := vs_null, scan_ret := scan_ret, vs_nusym := vs_nusym, vs_usym_name := vs_usym_name, vs_usym_null := vs_usym_null, vs_usym_isize := vs_usym_isize, vs_usym_type := vs_usym_type, vs_usym_order := vs_usym_order }))))))))) := rfl


/-- no `return` / `goto` / `break` / `continue` is pending -/
def FdClean (s : VSfdefine.St) : Prop := s.done = false ∧ s.gto = false ∧ s.brk = false ∧ s.cnt = false

/-- the part of the state that belongs to the vdata (everything else is a local variable of the function) -/
def fdVs (s : VSfdefine.St) := (s.vs_nusym, s.vs_usym_name, s.vs_usym_isize, s.vs_usym_type, s.vs_usym_order, s.vs_usym_null)

theorem fdChk_ok (fuel : Nat) (s : VSfdefine.St) (hcl : FdClean s) (h32 : -2147483648 ≤ s.localtype ∧ s.localtype < 2147483648)
    (hg : s.vkey_group = 4) (hw : s.w_null = false) (hv : s.vs_null = false) (hs : s.scan_ret ≠ -1) (hac : s.ac = 1)
    (ho1 : 1 ≤ s.order) (ho2 : s.order ≤ 65535) (hnt : ntsize s.localtype ≠ -1) (hsz : ntsize s.localtype * s.order ≤ 65535) :
    fdChk fuel s = { s with ret_value := 0, isize := ntsize s.localtype } := by
  obtain ⟨h1, h2, h3, h4⟩ := hcl
  have hr := ntsize_range s.localtype
  have hconv : (ntsize s.localtype + 32768) % 65536 - 32768 = ntsize s.localtype := by omega
  have hD := DFKNTsize_spec fuel s.localtype h32.1 h32.2
  have ho : ¬ (s.order < 1 ∨ 65535 < s.order) := by omega
  have hl : ¬ (65535 < ntsize s.localtype * s.order) := by omega
  simp [fdChk, VSfdefine.St.join, h1, h2, h3, h4, hg, hw, hv, hs, hac, hD, hconv, hnt, ho, hl]

/-- the entry tests of `VSfdefine` (atom group, instance, vdata, `scanattrs` with exactly one token, order and field-size limits) -/
def FdOk (s : VSfdefine.St) : Prop :=
  s.vkey_group = 4 ∧ s.w_null = false ∧ s.vs_null = false ∧ s.scan_ret ≠ -1 ∧ s.ac = 1 ∧ 1 ≤ s.order ∧ s.order ≤ 65535 ∧
    ntsize s.localtype ≠ -1 ∧ ntsize s.localtype * s.order ≤ 65535

instance (s : VSfdefine.St) : Decidable (FdOk s) := by unfold FdOk; infer_instance

theorem fdChk_fail (fuel : Nat) (s : VSfdefine.St) (hcl : FdClean s) (h32 : -2147483648 ≤ s.localtype ∧ s.localtype < 2147483648)
    (hbad : ¬ FdOk s) :
    (fdChk fuel s).gto = true ∧ (fdChk fuel s).done = false ∧ (fdChk fuel s).ret_value = -1 ∧ fdVs (fdChk fuel s) = fdVs s ∧
      (fdChk fuel s).ub = s.ub ∧ (fdChk fuel s).oof = s.oof := by
  obtain ⟨h1, h2, h3, h4⟩ := hcl
  have hr := ntsize_range s.localtype
  have hD := DFKNTsize_spec fuel s.localtype h32.1 h32.2
  by_cases c1 : s.vkey_group = 4
  · by_cases c2 : s.w_null = false
    · by_cases c3 : s.vs_null = false ∧ s.scan_ret ≠ -1 ∧ s.ac = 1
      · obtain ⟨c3, c4, c5⟩ := c3
        by_cases c6 : 1 ≤ s.order ∧ s.order ≤ 65535
        · have ho : ¬ (s.order < 1 ∨ 65535 < s.order) := by omega
          have hl : ntsize s.localtype = -1 ∨ 65535 < ntsize s.localtype * s.order := by
            by_cases e : ntsize s.localtype = -1
            · exact Or.inl e
            · right
              by_cases h : ntsize s.localtype * s.order ≤ 65535
              · exact absurd ⟨c1, c2, c3, c4, c5, c6.1, c6.2, e, h⟩ hbad
              · omega
          have hconv : (ntsize s.localtype + 32768) % 65536 - 32768 = ntsize s.localtype := by omega
          simp [fdChk, fdVs, VSfdefine.St.join, h1, h2, h3, h4, c1, c2, c3, c4, c5, hD, hconv, ho, hl]
        · have ho : (s.order < 1 ∨ 65535 < s.order) := by omega
          simp [fdChk, fdVs, VSfdefine.St.join, h1, h2, h3, h4, c1, c2, c3, c4, c5, ho]
      · have hc : (s.vs_null = true ∨ s.scan_ret = -1) ∨ ¬ s.ac = 1 := by
          by_cases a : s.vs_null = true
          · exact Or.inl (Or.inl a)
          · by_cases b : s.scan_ret = -1
            · exact Or.inl (Or.inr b)
            · right; intro h; exact c3 ⟨by simpa using a, b, h⟩
        simp [fdChk, fdVs, VSfdefine.St.join, h1, h2, h3, h4, c1, c2, hc]
    · have c2' : s.w_null = true := by simpa using c2
      simp [fdChk, fdVs, VSfdefine.St.join, h1, h2, h3, h4, c1, c2']
  · simp [fdChk, fdVs, VSfdefine.St.join, h1, h2, h3, h4, c1]

/-- after a `goto done` the remaining statements are skipped -/
theorem fdScan_skip (fuel : Nat) (s : VSfdefine.St) (h : s.gto = true) : fdScan fuel s = s := by simp [fdScan, h]
theorem fdAlloc_skip (fuel : Nat) (s : VSfdefine.St) (h : s.gto = true) : fdAlloc fuel s = s := by simp [fdAlloc, h]
theorem fdS1_skip (fuel : Nat) (s : VSfdefine.St) (h : s.gto = true) : fdS1 fuel s = s := by simp [fdS1, h]
theorem fdS2_skip (fuel : Nat) (s : VSfdefine.St) (h : s.gto = true) : fdS2 fuel s = s := by simp [fdS2, h]
theorem fdS3_skip (fuel : Nat) (s : VSfdefine.St) (h : s.gto = true) : fdS3 fuel s = s := by simp [fdS3, h]
theorem fdS4_skip (fuel : Nat) (s : VSfdefine.St) (h : s.gto = true) : fdS4 fuel s = s := by simp [fdS4, h]
theorem fdS5_skip (fuel : Nat) (s : VSfdefine.St) (h : s.gto = true) : fdS5 fuel s = s := by simp [fdS5, h]

theorem fdScan_spec (usym : List SymDef) (hn : ∀ sd ∈ usym, NameOK sd.name) (tok : String) (htok : NameOK tok) (pad : List Int)
    (rest : List (List Int)) (fuel : Nat) (s : VSfdefine.St) (hf : usym.length ≤ fuel) (hcl : FdClean s)
    (hav : s.av = (chars tok ++ 0 :: pad) :: rest) (hnm : s.vs_usym_name = nameRows usym) (hnu : s.vs_nusym = usym.length) :
    fdScan fuel s = match usym.findIdx? (·.name == tok) with
      | some i => { s with j := i, replacesym := 1 }
      | none => { s with j := usym.length, replacesym := 0 } := by
  obtain ⟨h1, h2, h3, h4⟩ := hcl
  simp only [fdScan]
  rw [if_neg (by simp [h1, h2, h3, h4])]
  have := fd_loop0_spec usym hn tok htok pad rest usym.length fuel
    ((s.set_replacesym (((0) + 32768) % 65536 - 32768)).set_j 0) hf hav hnm hnu (by simp) (by simp) h1 h2 h3 h4
  simp only [this]
  simp only [show ((s.set_replacesym (((0) + 32768) % 65536 - 32768)).set_j 0).j.toNat = 0 from rfl, List.drop_zero]
  cases usym.findIdx? (·.name == tok) with
  | none => cases s; simp_all
  | some i => cases s; simp_all


/-- `sizeof(SYMDEF) * (size_t)(n)` bytes are `n` cells of 16 bytes -/
theorem cells16 (n : Int) (h0 : 0 ≤ n) (h1 : n < 4294967296) :
    Int.tdiv ((16 * (n % 18446744073709551616)) % 18446744073709551616) 16 = n := by
  rw [Int.emod_eq_of_lt h0 (by omega), Int.emod_eq_of_lt (by omega) (by omega)]
  rw [Int.tdiv_eq_ediv_of_nonneg (by omega)]
  omega

@[simp] theorem fd_chk_True (s : VSfdefine.St) : VSfdefine.chk s True = s := by simp [VSfdefine.chk]

theorem fdAlloc_found (fuel : Nat) (s : VSfdefine.St) (hcl : FdClean s) (hr : s.replacesym = 1) :
    fdAlloc fuel s = { s with usymid := s.j } := by
  obtain ⟨h1, h2, h3, h4⟩ := hcl
  simp [fdAlloc, h1, h2, h3, h4, hr]

theorem take_append_replicate {α} (l : List α) (n : Nat) (x : α) (h : l.length = n) :
    l.take (n + 1) ++ List.replicate (n + 1 - l.length) x = l ++ [x] := by
  rw [List.take_of_length_le (by omega), h]
  simp

theorem fdAlloc_new (fuel : Nat) (s : VSfdefine.St) (hcl : FdClean s) (hr : s.replacesym = 0) (n : Nat) (hn : s.vs_nusym = n)
    (hn2 : n < 32767) (l1 : s.vs_usym_name.length = n) (l2 : s.vs_usym_isize.length = n) (l3 : s.vs_usym_type.length = n)
    (l4 : s.vs_usym_order.length = n) (hnull : s.vs_usym_null = true → n = 0) :
    fdAlloc fuel s = { s with usymid := (n : Int), vs_usym_name := s.vs_usym_name ++ [([] : List Int)], vs_usym_isize := s.vs_usym_isize ++ [170], vs_usym_type := s.vs_usym_type ++ [170], vs_usym_order := s.vs_usym_order ++ [170], vs_usym_null := false } := by
  obtain ⟨h1, h2, h3, h4⟩ := hcl
  have hc : Int.tdiv ((16 * (((n : Int) + 1) % 18446744073709551616)) % 18446744073709551616) 16 = (n : Int) + 1 :=
    cells16 _ (by omega) (by omega)
  have hck : ∀ t : VSfdefine.St, VSfdefine.chk t ((0 : Int) ≤ (n : Int) + 1) = t := fun t => fd_chk_true t _ (by omega)
  have hto : ((n : Int) + 1).toNat = n + 1 := by omega
  by_cases hu : s.vs_usym_null = true
  · have hz := hnull hu
    have e1 : s.vs_usym_name = [] := List.length_eq_zero_iff.mp (by omega)
    have e2 : s.vs_usym_isize = [] := List.length_eq_zero_iff.mp (by omega)
    have e3 : s.vs_usym_type = [] := List.length_eq_zero_iff.mp (by omega)
    have e4 : s.vs_usym_order = [] := List.length_eq_zero_iff.mp (by omega)
    simp only [fdAlloc]
    simp [h1, h2, h3, h4, hr, hn, hu, hc, hck, hto, e1, e2, e3, e4, hz]
  · have hu' : s.vs_usym_null = false := by simpa using hu
    simp only [fdAlloc]
    simp [h1, h2, h3, h4, hr, hn, hu', hc, hck, hto, take_append_replicate _ n _ l1, take_append_replicate _ n _ l2,
      take_append_replicate _ n _ l3, take_append_replicate _ n _ l4]

theorem fdS1_spec (fuel : Nat) (s : VSfdefine.St) (hcl : FdClean s) (k : Nat) (hk : s.usymid = k) (l2 : k < s.vs_usym_isize.length) :
    fdS1 fuel s = { s with vs_usym_isize := s.vs_usym_isize.set k (s.isize % 65536) } := by
  obtain ⟨h1, h2, h3, h4⟩ := hcl
  simp [fdS1, h1, h2, h3, h4, hk, l2]

theorem fdS3_spec (fuel : Nat) (s : VSfdefine.St) (hcl : FdClean s) (k : Nat) (hk : s.usymid = k) (l3 : k < s.vs_usym_type.length) :
    fdS3 fuel s = { s with vs_usym_type := s.vs_usym_type.set k ((s.localtype + 32768) % 65536 - 32768) } := by
  obtain ⟨h1, h2, h3, h4⟩ := hcl
  simp [fdS3, h1, h2, h3, h4, hk, l3]

theorem fdS4_spec (fuel : Nat) (s : VSfdefine.St) (hcl : FdClean s) (k : Nat) (hk : s.usymid = k) (l4 : k < s.vs_usym_order.length) :
    fdS4 fuel s = { s with vs_usym_order := s.vs_usym_order.set k (s.order % 65536) } := by
  obtain ⟨h1, h2, h3, h4⟩ := hcl
  simp [fdS4, h1, h2, h3, h4, hk, l4]

theorem fdS5_spec (fuel : Nat) (s : VSfdefine.St) (hcl : FdClean s) :
    fdS5 fuel s = { s with vs_nusym := if s.replacesym = 0 then (s.vs_nusym + 1 + 32768) % 65536 - 32768 else s.vs_nusym } := by
  obtain ⟨h1, h2, h3, h4⟩ := hcl
  by_cases hr : s.replacesym = 0
  · simp [fdS5, h1, h2, h3, h4, hr]
  · simp only [fdS5]
    rw [if_neg (by simp [h1, h2, h3, h4]), if_neg (by simpa using hr), if_neg hr]

theorem fdS2_spec (fuel : Nat) (s : VSfdefine.St) (hcl : FdClean s) (tok : String) (htok : NameOK tok) (pad : List Int)
    (rest : List (List Int)) (hav : s.av = (chars tok ++ 0 :: pad) :: rest) (k : Nat) (hk : s.usymid = k)
    (l1 : k < s.vs_usym_name.length) :
    fdS2 fuel s = { s with vs_usym_name := s.vs_usym_name.set k (cstr tok) } := by
  obtain ⟨h1, h2, h3, h4⟩ := hcl
  have hav0 : s.av.getD (Int.toNat 0) [] = chars tok ++ 0 :: pad := by rw [hav]; rfl
  have hstr := take_string (chars tok) pad (chars_ok htok)
  have c1 : VSfdefine.chk s (0 ≤ s.usymid ∧ s.usymid < s.vs_usym_name.length) = s := fd_chk_true _ _ (by omega)
  have c2 : VSfdefine.chk s (0 ≤ 0 ∧ 0 < s.av.length) = s := fd_chk_true _ _ (by rw [hav]; simp)
  have c3 : VSfdefine.chk s ((0 : Int) ∈ (s.av.getD (Int.toNat (0)) [])) = s := fd_chk_true _ _ (by rw [hav0]; exact zero_mem _ _)
  simp only [fdS2]
  rw [if_neg (by simp [h1, h2, h3, h4])]
  simp only [c1]
  simp only [c2]
  simp only [c3]
  simp only [hav0, hstr, if_false]
  have hto : s.usymid.toNat = k := by omega
  rw [hto]
  rfl

theorem fdDone_spec (fuel : Nat) (s : VSfdefine.St) (h : s.done = false) :
    fdDone fuel s = { s with gto := false, ret := s.ret_value, done := true } := by
  simp [fdDone, h]

/-- the symbol table after an accepted `VSfdefine`: the new definition replaces the first symbol of that name, else it is appended -/
def usymPut (usym : List SymDef) (sd : SymDef) : List SymDef :=
  match usym.findIdx? (fun s => s.name == sd.name) with
  | some j => usym.set j sd
  | none => usym ++ [sd]

theorem set_snoc {α} (l : List α) (a v : α) : (l ++ [a]).set l.length v = l ++ [v] := by
  induction l with
  | nil => rfl
  | cons x t ih => simp [ih]

theorem VSfdefine_accept (usym : List SymDef) (hn : ∀ sd ∈ usym, NameOK sd.name) (tok : String) (htok : NameOK tok) (pad : List Int)
    (rest : List (List Int)) (t order vkey scan_ret : Int) (h32 : -2147483648 ≤ t ∧ t < 2147483648) (hs : scan_ret ≠ -1)
    (unull : Bool) (hnull : unull = true → usym = []) (hlen : usym.length < 32767) (fuel : Nat) (hf : usym.length ≤ fuel)
    (ho1 : 1 ≤ order) (ho2 : order ≤ 65535) (hnt : ntsize t ≠ -1) (hsz : ntsize t * order ≤ 65535) :
    let s := VSfdefine fuel vkey t order 1 ((chars tok ++ 0 :: pad) :: rest) 4 false false scan_ret usym.length (nameRows usym) unull
      (isizeCol usym) (typeCol usym) (orderCol usym)
    let u' := usymPut usym ⟨tok, t.toNat, (ntsize t).toNat, order.toNat⟩
    s.ub = false ∧ s.oof = false ∧ s.ret = 0 ∧ s.vs_nusym = u'.length ∧ s.vs_usym_name = nameRows u' ∧ s.vs_usym_isize = isizeCol u' ∧
      s.vs_usym_type = typeCol u' ∧ s.vs_usym_order = orderCol u' ∧ s.vs_usym_null = false := by
  intro s u'
  have hr := ntsize_range t
  have hs' : s = _ := VSfdefine_pieces ..
  rw [fdChk_ok _ _ ⟨rfl, rfl, rfl, rfl⟩ h32 rfl rfl rfl hs rfl ho1 ho2 hnt hsz] at hs'
  rw [fdScan_spec usym hn tok htok pad rest fuel _ hf ⟨rfl, rfl, rfl, rfl⟩ rfl rfl rfl] at hs'
  have e1 : ntsize t % 65536 = ((ntsize t).toNat : Int) := by omega
  have e2 : (t + 32768) % 65536 - 32768 = (t.toNat : Int) := by omega
  have e3 : order % 65536 = (order.toNat : Int) := by omega
  cases hfi : usym.findIdx? (fun s => s.name == tok) with
  | some j =>
    have hj : j < usym.length := by
      have := List.findIdx?_eq_some_iff_getElem.mp hfi
      exact this.1
    have hu : unull = false := by
      cases unull with
      | false => rfl
      | true => have := hnull rfl; subst this; simp at hj
    rw [hfi] at hs'
    simp only at hs'
    rw [fdAlloc_found _ _ ⟨rfl, rfl, rfl, rfl⟩ rfl] at hs'
    rw [fdS1_spec _ _ ⟨rfl, rfl, rfl, rfl⟩ j rfl (by simp [isizeCol, hj])] at hs'
    rw [fdS2_spec _ _ ⟨rfl, rfl, rfl, rfl⟩ tok htok pad rest rfl j rfl (by simp [nameRows, hj])] at hs'
    rw [fdS3_spec _ _ ⟨rfl, rfl, rfl, rfl⟩ j rfl (by simp [typeCol, hj])] at hs'
    rw [fdS4_spec _ _ ⟨rfl, rfl, rfl, rfl⟩ j rfl (by simp [orderCol, hj])] at hs'
    rw [fdS5_spec _ _ ⟨rfl, rfl, rfl, rfl⟩, fdDone_spec _ _ rfl] at hs'
    have hu' : u' = usym.set j ⟨tok, t.toNat, (ntsize t).toNat, order.toNat⟩ := by
      show usymPut _ _ = _
      unfold usymPut; simp only; rw [hfi]
    rw [hs', hu']
    simp [nameRows, isizeCol, typeCol, orderCol, List.map_set, e1, e2, e3, hu]
  | none =>
    rw [hfi] at hs'
    simp only at hs'
    rw [fdAlloc_new _ _ ⟨rfl, rfl, rfl, rfl⟩ rfl usym.length rfl hlen (by simp [nameRows]) (by simp [isizeCol]) (by simp [typeCol])
      (by simp [orderCol]) (by intro h; have := hnull h; simp [this])] at hs'
    rw [fdS1_spec _ _ ⟨rfl, rfl, rfl, rfl⟩ usym.length rfl (by simp [isizeCol])] at hs'
    rw [fdS2_spec _ _ ⟨rfl, rfl, rfl, rfl⟩ tok htok pad rest rfl usym.length rfl (by simp [nameRows])] at hs'
    rw [fdS3_spec _ _ ⟨rfl, rfl, rfl, rfl⟩ usym.length rfl (by simp [typeCol])] at hs'
    rw [fdS4_spec _ _ ⟨rfl, rfl, rfl, rfl⟩ usym.length rfl (by simp [orderCol])] at hs'
    rw [fdS5_spec _ _ ⟨rfl, rfl, rfl, rfl⟩, fdDone_spec _ _ rfl] at hs'
    have hu' : u' = usym ++ [⟨tok, t.toNat, (ntsize t).toNat, order.toNat⟩] := by
      show usymPut _ _ = _
      unfold usymPut; simp only; rw [hfi]
    rw [hs', hu']
    have hl1 : (nameRows usym).length = usym.length := by simp [nameRows]
    have hl2 : (isizeCol usym).length = usym.length := by simp [isizeCol]
    have hl3 : (typeCol usym).length = usym.length := by simp [typeCol]
    have hl4 : (orderCol usym).length = usym.length := by simp [orderCol]
    have s1 := set_snoc (nameRows usym) [] (cstr tok)
    have s2 := set_snoc (isizeCol usym) 170 (ntsize t % 65536)
    have s3 := set_snoc (typeCol usym) 170 ((t + 32768) % 65536 - 32768)
    have s4 := set_snoc (orderCol usym) 170 (order % 65536)
    rw [hl1] at s1; rw [hl2] at s2; rw [hl3] at s3; rw [hl4] at s4
    simp only [s1, s2, s3, s4]
    simp [nameRows, isizeCol, typeCol, orderCol, e1, e2, e3]
    omega


/-- a refused `VSfdefine` changes nothing — whatever the symbol table and the `scanattrs` result look like -/
theorem VSfdefine_refuse (fuel : Nat) (vkey t order ac : Int) (av : List (List Int)) (group : Int) (wnull vsnull : Bool) (scan_ret nusym : Int)
    (names : List (List Int)) (unull : Bool) (isz typ ord : List Int) (h32 : -2147483648 ≤ t ∧ t < 2147483648)
    (hbad : ¬ (group = 4 ∧ wnull = false ∧ vsnull = false ∧ scan_ret ≠ -1 ∧ ac = 1 ∧ 1 ≤ order ∧ order ≤ 65535 ∧
      ntsize t ≠ -1 ∧ ntsize t * order ≤ 65535)) :
    let s := VSfdefine fuel vkey t order ac av group wnull vsnull scan_ret nusym names unull isz typ ord
    s.ub = false ∧ s.oof = false ∧ s.ret = -1 ∧ s.vs_nusym = nusym ∧ s.vs_usym_name = names ∧ s.vs_usym_isize = isz ∧
      s.vs_usym_type = typ ∧ s.vs_usym_order = ord ∧ s.vs_usym_null = unull := by
  intro s
  have hs' : s = _ := VSfdefine_pieces ..
  obtain ⟨g1, g2, g3, g4, g5, g6⟩ := fdChk_fail fuel { vkey := vkey, localtype := t, order := order, ac := ac, av := av, vkey_group := group, w_null := wnull, vs_null := vsnull, scan_ret := scan_ret, vs_nusym := nusym, vs_usym_name := names, vs_usym_null := unull, vs_usym_isize := isz, vs_usym_type := typ, vs_usym_order := ord } ⟨rfl, rfl, rfl, rfl⟩ h32 hbad
  rw [fdScan_skip _ _ g1, fdAlloc_skip _ _ g1, fdS1_skip _ _ g1, fdS2_skip _ _ g1, fdS3_skip _ _ g1, fdS4_skip _ _ g1,
    fdS5_skip _ _ g1, fdDone_spec _ _ g2] at hs'
  rw [hs']
  simp only [fdVs, Prod.mk.injEq] at g4
  obtain ⟨a1, a2, a3, a4, a5, a6⟩ := g4
  exact ⟨g5, g6, g3, a1, a2, a3, a4, a5, a6⟩

/-- the limit tests of `VSfdefine`: `order < 1 || order > MAX_ORDER`, `isize == FAIL || isize * order > MAX_FIELD_SIZE` -/
def FdLimits (t order : Int) : Prop := 1 ≤ order ∧ order ≤ 65535 ∧ ntsize t ≠ -1 ∧ ntsize t * order ≤ 65535

instance (t order : Int) : Decidable (FdLimits t order) := by unfold FdLimits; infer_instance

/-- the model `vsfdefineTok` on C's `int32` arguments (a negative type or order is refused by the C tests) -/
def vsfdefineI (usym : List SymDef) (tok : String) (t order : Int) : Option (List SymDef) :=
  if 0 ≤ t ∧ 0 ≤ order then vsfdefineTok usym tok t.toNat order.toNat else none

theorem vsfdefineI_eq (usym : List SymDef) (tok : String) (t order : Int) :
    vsfdefineI usym tok t order =
      if FdLimits t order then some (usymPut usym ⟨tok, t.toNat, (ntsize t).toNat, order.toNat⟩) else none := by
  have hr := ntsize_range t
  have hc : MAX_ORDER = 65535 ∧ MAX_FIELD_SIZE = 65535 := by decide
  unfold vsfdefineI
  by_cases h0 : 0 ≤ t ∧ 0 ≤ order
  · rw [if_pos h0]
    unfold vsfdefineTok
    simp only [hc.1, hc.2]
    by_cases ho : order.toNat < 1 ∨ order.toNat > 65535
    · rw [if_pos ho, if_neg (by unfold FdLimits; omega)]
    · rw [if_neg ho]
      cases hnt : ntInfo t.toNat with
      | none =>
        have := ntsize_none (Or.inr hnt)
        simp only
        rw [if_neg (by unfold FdLimits; omega)]
      | some nt =>
        have e := ntsize_some h0.1 hnt
        simp only
        have hmul : (nt.tsz * order.toNat > 65535) ↔ ¬ (ntsize t * order ≤ 65535) := by
          rw [e]
          have : ((nt.tsz * order.toNat : Nat) : Int) = (nt.tsz : Int) * order := by push_cast; congr 1; omega
          omega
        by_cases hm : nt.tsz * order.toNat > 65535
        · rw [if_pos hm, if_neg (by intro h; exact hmul.mp hm h.2.2.2)]
        · rw [if_neg hm, if_pos (show FdLimits t order from ⟨by omega, by omega, by omega, by have := hmul.not.mp hm; omega⟩)]
          have : (ntsize t).toNat = nt.tsz := by omega
          rw [this]
          unfold usymPut
          cases usym.findIdx? (fun s => s.name == tok) <;> rfl
  · rw [if_neg h0, if_neg (by unfold FdLimits; omega)]

end H4.Lemmas.C07Fld
