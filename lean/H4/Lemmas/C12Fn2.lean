import H4.Gen.Fn.Hfiledd
import H4.Lemmas.C2L
import H4.Lemmas.DDCodec
import H4.Limits
import H4.Lemmas.LimitsMisc
import Lean.Elab.Tactic.Basic
/-! Lemmas for `H4.Props.C12Fn2`: the reference-number allocator (`Hnewref`, `Htagnewref`) and the DD-block codec loops of
    `hdf/src/hfiledd.c` (`HTPsync_ddlist`, `HTPstart_ddlist`: fragments of `HTPsync` / `HTPstart`), as TRANSLATED from the C text
    (`H4.Gen.Fn.Hfiledd`, regenerated on every run), compute the hand-written models `H4.DD` / `H4.Limits`.

    Method.  `Hnewref`: induction over the remaining refs of the search loop (`Hnewref_loop`).  The codec loops: the generated loop body
    (twelve byte stores / loads with their checks) is RESTATED as a composition of byte combinators whose bodies are the generated text with
    the operand abstracted; the restatement is checked by the kernel against the generated definition (`enc_body`, `dec_body`), so a change
    of the C text breaks it.  Each combinator is shown to extend what has been written / read so far (`EAt`, `DAt`), which gives a
    one-iteration lemma (`enc_iter`, `dec_iter`); the loops follow by induction on the number of remaining descriptors.  Core only. -/
namespace H4.Lemmas.C12Fn2
open H4 H4.Gen.Fn.Hfiledd H4.C2L
set_option linter.unusedSimpArgs false
set_option linter.unusedVariables false


elab "kernel_rfl" : tactic => do
  let g ← Lean.Elab.Tactic.getMainGoal
  let some (_, lhs, _) := (← g.getType).eq? | throwError "kernel_rfl: not an equation"
  g.assign (← Lean.Meta.mkEqRefl lhs)

/-- `a & b` at 32 bits, signed (two's complement), as the translator writes it -/
def sand (a b : Int) : Int :=
  if (Int.ofNat (Int.toNat (a % 4294967296) &&& Int.toNat (b % 4294967296))) ≥ 2147483648 then (Int.ofNat (Int.toNat (a % 4294967296) &&& Int.toNat (b % 4294967296))) - 4294967296 else (Int.ofNat (Int.toNat (a % 4294967296) &&& Int.toNat (b % 4294967296)))
/-- `a & b` in an unsigned 32-bit type -/
def uand (a b : Int) : Int := Int.ofNat (Int.toNat (a % 4294967296) &&& Int.toNat (b % 4294967296))

theorem uand_255 (a : Int) (h : 0 ≤ a) : uand a (255 % 4294967296) = a % 256 := by
  obtain ⟨n, rfl⟩ := Int.eq_ofNat_of_zero_le h
  have e : (n % 4294967296) &&& 255 = (n % 4294967296) % 256 := Nat.and_two_pow_sub_one_eq_mod _ 8
  have e1 : Int.toNat ((n : Int) % 4294967296) = n % 4294967296 := by omega
  have e2 : Int.toNat ((255 : Int) % 4294967296 % 4294967296) = 255 := by decide
  unfold uand
  rw [e1, e2, e]
  simp only [Int.ofNat_eq_natCast]
  omega

theorem sand_255 (a : Int) (h : 0 ≤ a) : sand a 255 = a % 256 := by
  obtain ⟨n, rfl⟩ := Int.eq_ofNat_of_zero_le h
  have e : (n % 4294967296) &&& 255 = (n % 4294967296) % 256 := Nat.and_two_pow_sub_one_eq_mod _ 8
  have e1 : Int.toNat ((n : Int) % 4294967296) = n % 4294967296 := by omega
  have e2 : Int.toNat ((255 : Int) % 4294967296) = 255 := by decide
  unfold sand
  rw [e1, e2, e]
  simp only [Int.ofNat_eq_natCast]
  rw [if_neg (by omega)]
  omega


/-! ## `Hnewref` -/


/-- the first ref `r` in `k .. k+m-1` for which the table says "no descriptor has this ref" (`HTIfind_dd` = FAIL) -/
def tblFree (tbl : List Int) (k m : Nat) : Option Nat := (List.range' k m).find? (fun r => decide (tbl.getD r 0 = -1))

theorem Hnewref_loop_stop (fuel : Nat) (s : Hnewref.St) (h : s.brk = true) : Hnewref.loop0 fuel s = s := by
  cases fuel <;> simp [Hnewref.loop0, h]

theorem Hnewref_loop (tbl : List Int) : ∀ (m fuel : Nat) (s : Hnewref.St) (k : Nat), m ≤ fuel → k + m = 65536 → 1 ≤ k →
    s.i_ref = k → s.HTIfind_dd_ret = tbl → s.done = false → s.gto = false → s.brk = false → s.oof = false →
    (Hnewref.loop0 fuel s).ub = s.ub ∧ (Hnewref.loop0 fuel s).oof = false ∧ (Hnewref.loop0 fuel s).done = false ∧
    (Hnewref.loop0 fuel s).file_rec_maxref = s.file_rec_maxref ∧
    (Hnewref.loop0 fuel s).ret_value = (match tblFree tbl k m with | some r => (r : Int) | none => s.ret_value) := by
  intro m
  induction m with
  | zero =>
    intro fuel s k _ hk _ hi _ hd hg hb ho
    have hc : ¬ (s.i_ref ≤ 65535) := by rw [hi]; omega
    have e : Hnewref.loop0 fuel s = s := by cases fuel <;> simp only [Hnewref.loop0, Int.reduceMod, hc, false_and, if_false]
    rw [e]; simp [tblFree, ho, hd]
  | succ m ih =>
    intro fuel s k hf hk h1 hi ht hd hg hb ho
    obtain ⟨fuel, rfl⟩ : ∃ f, fuel = f + 1 := ⟨fuel - 1, by omega⟩
    have hc : (s.i_ref ≤ 65535) ∧ ¬(s.done ∨ s.gto ∨ s.brk) := by
      rw [hi, hd, hg, hb]; refine ⟨by omega, by simp⟩
    have e : Hnewref.loop0 (fuel + 1) s = Hnewref.loop0 fuel (Hnewref.loop0.body (fuel + 1) s) := by
      rw [Hnewref.loop0]; simp [hc.1, hd, hg, hb]
    have hkm : ((k : Int)) % 65536 = k := by omega
    rw [e]
    have hfind : tblFree tbl k (m + 1) = if tbl.getD k 0 = -1 then some k else tblFree tbl (k + 1) m := by
      unfold tblFree
      rw [List.range'_succ, List.find?_cons]
      by_cases hq : tbl.getD k 0 = -1
      · rw [if_pos hq]; simp only [hq, decide_true]
      · rw [if_neg hq]; simp only [hq, decide_false]
    by_cases hq : tbl.getD k 0 = -1
    · have eb : Hnewref.loop0.body (fuel + 1) s = { s with ref := k, ret_value := k, brk := true, cnt := false } := by
        simp only [Hnewref.loop0.body, Hnewref.St.set_ref, Hnewref.St.set_ret_value, Hnewref.St.set_brk, Hnewref.St.set_cnt,
          Hnewref.St.set_i_ref, hi, hkm, ht, Int.toNat_natCast, hq, if_true, hd, hg, Bool.false_eq_true, false_or, or_true, true_or, Bool.or_true]
      rw [eb, Hnewref_loop_stop _ _ rfl, hfind, if_pos hq]
      simp [ho, hd]
    · have eb : Hnewref.loop0.body (fuel + 1) s = { s with ref := k, cnt := false, i_ref := ((k + 1 : Nat) : Int) } := by
        have h2 : ((k : Int) + 1) % 4294967296 = ((k + 1 : Nat) : Int) := by omega
        simp only [Hnewref.loop0.body, Hnewref.St.set_ref, Hnewref.St.set_ret_value, Hnewref.St.set_brk, Hnewref.St.set_cnt,
          Hnewref.St.set_i_ref, hi, hkm, ht, Int.toNat_natCast, hq, if_false, hd, hg, hb, Bool.false_eq_true, false_or, or_false, h2]
      rw [eb, hfind, if_neg hq]
      exact ih fuel _ (k + 1) (by omega) (by omega) (by omega) rfl ht hd hg hb ho

/-- the whole function on a valid file record -/
theorem Hnewref_run (fuel : Nat) (hf : 65535 ≤ fuel) (file_id refcount : Int) (hrc : refcount ≠ 0) (maxref : Nat) (hm : maxref ≤ 65535)
    (tbl : List Int) :
    (Hnewref fuel file_id false refcount maxref tbl).ub = false ∧ (Hnewref fuel file_id false refcount maxref tbl).oof = false ∧
    (Hnewref fuel file_id false refcount maxref tbl).ret = (if maxref < 65535 then ((maxref + 1 : Nat) : Int) else (((tblFree tbl 1 65535).getD 0 : Nat) : Int)) ∧
    (Hnewref fuel file_id false refcount maxref tbl).file_rec_maxref = (if maxref < 65535 then ((maxref + 1 : Nat) : Int) else (maxref : Int)) := by
  by_cases hlt : maxref < 65535
  · have h1 : ((maxref : Int) < 65535) := by omega
    have h2 : ((maxref : Int) + 1) % 65536 = ((maxref + 1 : Nat) : Int) := by omega
    simp [Hnewref, hrc, h1, h2, hlt]
  · have h1 : ¬ ((maxref : Int) < 65535) := by omega
    have L := Hnewref_loop tbl 65535 fuel
      { file_id := file_id, file_rec_null := false, file_rec_refcount := refcount, file_rec_maxref := maxref, HTIfind_dd_ret := tbl, i_ref := 1 }
      1 hf rfl (Nat.le_refl _) rfl rfl rfl rfl rfl rfl
    obtain ⟨l1, l2, l3, l4, l5⟩ := L
    simp only [Hnewref, Hnewref.St.set_ret_value, Hnewref.St.set_gto, Hnewref.St.set_file_rec_maxref, Hnewref.St.set_i_ref, Hnewref.St.set_brk,
      Hnewref.St.set_ret, Hnewref.St.set_done, Int.reduceMod, hrc, h1, hlt, if_false, Bool.false_eq_true, false_or, or_false, or_self]
    simp only [l1, l2, l3, l4, l5, if_false, Bool.false_eq_true]
    cases tblFree tbl 1 65535 <;> simp

/-! ## `BASETAG` -/
/-- `BASETAG(tag)` as translated: `(uint16)((~(t) & 0x8000) ? ((t) & ~0x4000) : (t))` -/
def basetagC (tag : Int) : Int := ((if (sand (-(tag) - 1) 32768) ≠ 0 then sand tag (-(16384) - 1) else tag)) % 65536

theorem bit15 (x : Nat) : x &&& 32768 = 32768 * (x / 32768 % 2) := by
  have h1 : (x &&& 32768) % 2^15 = 0 := by
    rw [Nat.and_mod_two_pow]
    have : 32768 % 2^15 = 0 := by decide
    rw [this, Nat.and_zero]
  have h2 : (x &&& 32768) >>> 15 = x / 32768 % 2 := by
    rw [Nat.shiftRight_and_distrib]
    have : 32768 >>> 15 = 1 := by decide
    rw [this, Nat.and_one_is_mod, Nat.shiftRight_eq_div_pow]
  rw [Nat.shiftRight_eq_div_pow] at h2
  omega

theorem clr14 (t : Nat) (h : t < 32768) : t &&& 4294950911 = t % 16384 := by
  have h1 : (t &&& 4294950911) % 2^14 = t % 2^14 := by
    rw [Nat.and_mod_two_pow]
    have : 4294950911 % 2^14 = 2^14 - 1 := by decide
    rw [this, Nat.and_two_pow_sub_one_eq_mod, Nat.mod_mod]
  have h2 : (t &&& 4294950911) >>> 14 = 0 := by
    rw [Nat.shiftRight_and_distrib]
    have : t >>> 14 = 0 ∨ t >>> 14 = 1 := by rw [Nat.shiftRight_eq_div_pow]; omega
    rcases this with e | e <;> rw [e] <;> decide
  rw [Nat.shiftRight_eq_div_pow] at h2
  omega

/-- the translated `BASETAG` is the model's `baseTag` on every `uint16` -/
theorem basetagC_eq (t : Nat) (h : t < 65536) : basetagC (t : Int) = ((DD.baseTag t : Nat) : Int) := by
  have e1 : Int.toNat ((-(t : Int) - 1) % 4294967296) = 4294967295 - t := by omega
  have e2 : Int.toNat ((32768 : Int) % 4294967296) = 32768 := by decide
  have e3 : Int.toNat ((t : Int) % 4294967296) = t := by omega
  have e4 : Int.toNat ((-(16384 : Int) - 1) % 4294967296) = 4294950911 := by decide
  have b := bit15 (4294967295 - t)
  unfold basetagC sand DD.baseTag
  rw [e1, e2, e3, e4, b]
  by_cases hlt : t < 32768
  · have hb : (4294967295 - t) / 32768 % 2 = 1 := by omega
    rw [hb, clr14 t hlt]
    have hm : t % 16384 = if 16384 ≤ t ∧ t < 32768 then t - 16384 else t := by split <;> omega
    rw [← hm]
    simp only [Int.ofNat_eq_natCast, Nat.mul_one]
    rw [if_pos (by decide)]
    have : ¬ (((t % 16384 : Nat) : Int) ≥ 2147483648) := by omega
    rw [if_neg this]; omega
  · have hb : (4294967295 - t) / 32768 % 2 = 0 := by omega
    rw [hb]
    have hm : (if 16384 ≤ t ∧ t < 32768 then t - 16384 else t) = t := by split <;> omega
    rw [hm]
    simp only [Int.ofNat_eq_natCast, Nat.mul_zero]
    rw [if_neg (by decide)]
    omega


/-! ## `HTPsync_ddlist`: the loop that serialises the descriptors of one block -/
abbrev ESt := HTPsync_ddlist.St

theorem echk_true (s : ESt) (c : Prop) [Decidable c] (h : c) : HTPsync_ddlist.chk s c = s := by
  simp [HTPsync_ddlist.chk, h]

/-- `*p = (uint8)(((unsigned)(x) >> 8) & 0xff); p++` for a `uint16` member `x = list->…` -/
def ehi16 (s : ESt) (reg : ESt → List Int) : ESt :=
  have s : ESt := HTPsync_ddlist.chk s (0 ≤ s.list ∧ s.list < (reg s).length)
  have s : ESt := HTPsync_ddlist.chk s ((0 : Int) ≤ ((reg s).getD (Int.toNat (s.list)) 0) ∧ (0 : Int) ≤ 8 ∧ 8 < (32 : Int))
  have s : ESt := HTPsync_ddlist.chk s (0 ≤ s.p ∧ s.p < s.tbuf.length)
  have s : ESt := HTPsync_ddlist.St.set_tbuf s (s.tbuf.set (Int.toNat (s.p)) ((uand (((reg s).getD (Int.toNat (s.list)) 0) / 2 ^ Int.toNat (8)) (255 % 4294967296)) % 256))
  let e0 : Int := (s.p + 1)
  have s : ESt := HTPsync_ddlist.St.set_p s (e0)
  s
/-- `*p = (uint8)((x) & 0xff); p++` -/
def elo16 (s : ESt) (reg : ESt → List Int) : ESt :=
  have s : ESt := HTPsync_ddlist.chk s (0 ≤ s.list ∧ s.list < (reg s).length)
  have s : ESt := HTPsync_ddlist.chk s (0 ≤ s.p ∧ s.p < s.tbuf.length)
  have s : ESt := HTPsync_ddlist.St.set_tbuf s (s.tbuf.set (Int.toNat (s.p)) ((sand ((reg s).getD (Int.toNat (s.list)) 0) 255) % 256))
  let e0 : Int := (s.p + 1)
  have s : ESt := HTPsync_ddlist.St.set_p s (e0)
  s
/-- `*p = (uint8)(((uint32)(x) >> k) & 0xff); p++` for an `int32` member -/
def eb32 (s : ESt) (reg : ESt → List Int) (k : Int) : ESt :=
  have s : ESt := HTPsync_ddlist.chk s (0 ≤ s.list ∧ s.list < (reg s).length)
  have s : ESt := HTPsync_ddlist.chk s ((0 : Int) ≤ (((reg s).getD (Int.toNat (s.list)) 0) % 4294967296) ∧ (0 : Int) ≤ k ∧ k < (32 : Int))
  have s : ESt := HTPsync_ddlist.chk s (0 ≤ s.p ∧ s.p < s.tbuf.length)
  have s : ESt := HTPsync_ddlist.St.set_tbuf s (s.tbuf.set (Int.toNat (s.p)) ((uand (((((reg s).getD (Int.toNat (s.list)) 0) % 4294967296) / 2 ^ Int.toNat (k))) (255 % 4294967296)) % 256))
  let e0 : Int := (s.p + 1)
  have s : ESt := HTPsync_ddlist.St.set_p s (e0)
  s
/-- `*p = (uint8)((uint32)(x) & 0xff); p++` -/
def eb32l (s : ESt) (reg : ESt → List Int) : ESt :=
  have s : ESt := HTPsync_ddlist.chk s (0 ≤ s.list ∧ s.list < (reg s).length)
  have s : ESt := HTPsync_ddlist.chk s (0 ≤ s.p ∧ s.p < s.tbuf.length)
  have s : ESt := HTPsync_ddlist.St.set_tbuf s (s.tbuf.set (Int.toNat (s.p)) ((uand ((((reg s).getD (Int.toNat (s.list)) 0) % 4294967296)) (255 % 4294967296)) % 256))
  let e0 : Int := (s.p + 1)
  have s : ESt := HTPsync_ddlist.St.set_p s (e0)
  s

/-- the body of the loop is `DDENCODE(p, list->tag, list->ref, list->offset, list->length); i++, list++` -/
theorem enc_body (fuel : Nat) (s : ESt) : HTPsync_ddlist.loop0.body fuel s =
    (have s : ESt := ehi16 s (·.block_ddlist_tag); have s : ESt := elo16 s (·.block_ddlist_tag)
     have s : ESt := ehi16 s (·.block_ddlist_ref); have s : ESt := elo16 s (·.block_ddlist_ref)
     have s : ESt := eb32 s (·.block_ddlist_offset) 24; have s : ESt := eb32 s (·.block_ddlist_offset) 16
     have s : ESt := eb32 s (·.block_ddlist_offset) 8; have s : ESt := eb32l s (·.block_ddlist_offset)
     have s : ESt := eb32 s (·.block_ddlist_length) 24; have s : ESt := eb32 s (·.block_ddlist_length) 16
     have s : ESt := eb32 s (·.block_ddlist_length) 8; have s : ESt := eb32l s (·.block_ddlist_length)
     have s : ESt := HTPsync_ddlist.St.set_i s ((s.i + 1))
     HTPsync_ddlist.St.set_list s ((s.list + 1))) := by kernel_rfl

/-- `*p++ = v` -/
def eput (s : ESt) (v : Int) : ESt := { s with tbuf := s.tbuf.set s.p.toNat v, p := s.p + 1 }

theorem ehi16_eq (s : ESt) (reg : ESt → List Int) (hl : 0 ≤ s.list ∧ s.list < (reg s).length)
    (hv : 0 ≤ (reg s).getD (Int.toNat s.list) 0) (hp : 0 ≤ s.p ∧ s.p < s.tbuf.length) :
    ehi16 s reg = eput s (((reg s).getD (Int.toNat s.list) 0) / 256 % 256) := by
  have c2 : (0 : Int) ≤ ((reg s).getD (Int.toNat (s.list)) 0) ∧ (0 : Int) ≤ 8 ∧ 8 < (32 : Int) := ⟨hv, by decide, by decide⟩
  have h2 : (0 : Int) ≤ ((reg s).getD (Int.toNat (s.list)) 0) / 2 ^ Int.toNat 8 := Int.ediv_nonneg hv (by decide)
  simp only [ehi16]
  simp only [echk_true s _ hl]
  simp only [echk_true s _ c2]
  simp only [echk_true s _ hp]
  rw [uand_255 _ h2]
  have e : (2 : Int) ^ Int.toNat 8 = 256 := by decide
  rw [e, Int.emod_emod_of_dvd _ (by decide : (256 : Int) ∣ 256)]
  rfl

theorem elo16_eq (s : ESt) (reg : ESt → List Int) (hl : 0 ≤ s.list ∧ s.list < (reg s).length)
    (hv : 0 ≤ (reg s).getD (Int.toNat s.list) 0) (hp : 0 ≤ s.p ∧ s.p < s.tbuf.length) :
    elo16 s reg = eput s (((reg s).getD (Int.toNat s.list) 0) % 256) := by
  simp only [elo16]
  simp only [echk_true s _ hl]
  simp only [echk_true s _ hp]
  rw [sand_255 _ hv, Int.emod_emod_of_dvd _ (by decide : (256 : Int) ∣ 256)]
  rfl

theorem eb32_eq (s : ESt) (reg : ESt → List Int) (k : Int) (hk : k = 8 ∨ k = 16 ∨ k = 24) (hl : 0 ≤ s.list ∧ s.list < (reg s).length)
    (hp : 0 ≤ s.p ∧ s.p < s.tbuf.length) :
    eb32 s reg k = eput s (((reg s).getD (Int.toNat s.list) 0) % 4294967296 / 2 ^ Int.toNat k % 256) := by
  have hv : (0 : Int) ≤ ((reg s).getD (Int.toNat (s.list)) 0) % 4294967296 := Int.emod_nonneg _ (by decide)
  have c2 : (0 : Int) ≤ (((reg s).getD (Int.toNat (s.list)) 0) % 4294967296) ∧ (0 : Int) ≤ k ∧ k < (32 : Int) := ⟨hv, by omega, by omega⟩
  have h2 : (0 : Int) ≤ (((reg s).getD (Int.toNat (s.list)) 0) % 4294967296) / 2 ^ Int.toNat k :=
    Int.ediv_nonneg hv (Int.le_of_lt (Int.pow_pos (by decide)))
  simp only [eb32]
  simp only [echk_true s _ hl]
  simp only [echk_true s _ c2]
  simp only [echk_true s _ hp]
  rw [uand_255 _ h2, Int.emod_emod_of_dvd _ (by decide : (256 : Int) ∣ 256)]
  rfl

theorem eb32l_eq (s : ESt) (reg : ESt → List Int) (hl : 0 ≤ s.list ∧ s.list < (reg s).length)
    (hp : 0 ≤ s.p ∧ s.p < s.tbuf.length) :
    eb32l s reg = eput s (((reg s).getD (Int.toNat s.list) 0) % 4294967296 % 256) := by
  have hv : (0 : Int) ≤ ((reg s).getD (Int.toNat (s.list)) 0) % 4294967296 := Int.emod_nonneg _ (by decide)
  simp only [eb32l]
  simp only [echk_true s _ hl]
  simp only [echk_true s _ hp]
  rw [uand_255 _ hv, Int.emod_emod_of_dvd _ (by decide : (256 : Int) ∣ 256)]
  rfl

/-- the 12 bytes `DDENCODE` stores for the C values `tag`, `ref` (uint16) and `offset`, `length` (int32) -/
def ddBytesC (t r o l : Int) : List Int :=
  [t / 256 % 256, t % 256, r / 256 % 256, r % 256,
   o % 4294967296 / 2 ^ Int.toNat 24 % 256, o % 4294967296 / 2 ^ Int.toNat 16 % 256, o % 4294967296 / 2 ^ Int.toNat 8 % 256, o % 4294967296 % 256,
   l % 4294967296 / 2 ^ Int.toNat 24 % 256, l % 4294967296 / 2 ^ Int.toNat 16 % 256, l % 4294967296 / 2 ^ Int.toNat 8 % 256, l % 4294967296 % 256]

/-- everything but the cursor `p` and the buffer -/
def eframe (s : ESt) : ESt := { s with p := 0, tbuf := [] }

theorem eq_of_eframe {a b : ESt} (h : eframe a = eframe b) (hp : a.p = b.p) (ht : a.tbuf = b.tbuf) : a = b := by
  cases a; cases b; simp_all [eframe]

/-- since the state `F`, `out` has been stored at `F.p = P` onwards, nothing else changed -/
structure EAt (F : ESt) (P : Nat) (s : ESt) (out : List Int) : Prop where
  p : s.p = ((P + out.length : Nat) : Int)
  buf : s.tbuf = F.tbuf.take P ++ out ++ F.tbuf.drop (P + out.length)
  fr : eframe s = eframe F

theorem EAt.start (F : ESt) (P : Nat) (h : F.p = P) : EAt F P F [] := by
  refine ⟨by simpa using h, ?_, rfl⟩
  simp

theorem EAt.len {F P s out} (h : EAt F P s out) (hr : P + out.length ≤ F.tbuf.length) : s.tbuf.length = F.tbuf.length := by
  rw [h.buf]; simp only [List.length_append, List.length_take, List.length_drop]; omega

theorem EAt.bounds {F P s out} (h : EAt F P s out) (hr : P + out.length < F.tbuf.length) : 0 ≤ s.p ∧ s.p < s.tbuf.length := by
  rw [h.len (by omega), h.p]; omega

theorem EAt.put {F P s out} (h : EAt F P s out) (v : Int) (hr : P + out.length < F.tbuf.length) : EAt F P (eput s v) (out ++ [v]) := by
  refine ⟨?_, ?_, h.fr⟩
  · simp only [eput, h.p, List.length_append, List.length_cons, List.length_nil]; omega
  · simp only [eput, h.p, h.buf, Int.toNat_natCast, List.length_append, List.length_cons, List.length_nil]
    have hl : (F.tbuf.take P ++ out).length = P + out.length := by simp only [List.length_append, List.length_take]; omega
    rw [List.set_append_right _ _ (by omega), hl, Nat.sub_self]
    rw [List.drop_eq_getElem_cons hr, List.set_cons_zero]
    simp only [List.append_assoc, List.cons_append, List.nil_append, Nat.add_assoc]

theorem EAt.get {F P s out} (h : EAt F P s out) {α} (f : ESt → α) (hf : ∀ t, f t = f (eframe t)) : f s = f F := by
  rw [hf s, hf F, h.fr]

theorem ehi16_at {F P s out} (h : EAt F P s out) (reg : ESt → List Int) (hreg : ∀ t, reg t = reg (eframe t)) (j : Nat)
    (hj : F.list = j) (hjl : j < (reg F).length) (v : Int) (hx : (reg F).getD j 0 = v) (hv : 0 ≤ v) (hr : P + out.length < F.tbuf.length) :
    EAt F P (ehi16 s reg) (out ++ [v / 256 % 256]) := by
  have hL : s.list = j := (h.get (·.list) (fun _ => rfl)).trans hj
  have hR : reg s = reg F := h.get reg hreg
  have e := ehi16_eq s reg (by rw [hL, hR]; omega) (by rw [hL, hR, Int.toNat_natCast, hx]; exact hv) (h.bounds hr)
  rw [e, hL, hR, Int.toNat_natCast, hx]
  exact h.put _ hr

theorem elo16_at {F P s out} (h : EAt F P s out) (reg : ESt → List Int) (hreg : ∀ t, reg t = reg (eframe t)) (j : Nat)
    (hj : F.list = j) (hjl : j < (reg F).length) (v : Int) (hx : (reg F).getD j 0 = v) (hv : 0 ≤ v) (hr : P + out.length < F.tbuf.length) :
    EAt F P (elo16 s reg) (out ++ [v % 256]) := by
  have hL : s.list = j := (h.get (·.list) (fun _ => rfl)).trans hj
  have hR : reg s = reg F := h.get reg hreg
  have e := elo16_eq s reg (by rw [hL, hR]; omega) (by rw [hL, hR, Int.toNat_natCast, hx]; exact hv) (h.bounds hr)
  rw [e, hL, hR, Int.toNat_natCast, hx]
  exact h.put _ hr

theorem eb32_at {F P s out} (h : EAt F P s out) (reg : ESt → List Int) (hreg : ∀ t, reg t = reg (eframe t)) (k : Int) (hk : k = 8 ∨ k = 16 ∨ k = 24)
    (j : Nat) (hj : F.list = j) (hjl : j < (reg F).length) (v : Int) (hx : (reg F).getD j 0 = v) (hr : P + out.length < F.tbuf.length) :
    EAt F P (eb32 s reg k) (out ++ [v % 4294967296 / 2 ^ Int.toNat k % 256]) := by
  have hL : s.list = j := (h.get (·.list) (fun _ => rfl)).trans hj
  have hR : reg s = reg F := h.get reg hreg
  have e := eb32_eq s reg k hk (by rw [hL, hR]; omega) (h.bounds hr)
  rw [e, hL, hR, Int.toNat_natCast, hx]
  exact h.put _ hr

theorem eb32l_at {F P s out} (h : EAt F P s out) (reg : ESt → List Int) (hreg : ∀ t, reg t = reg (eframe t))
    (j : Nat) (hj : F.list = j) (hjl : j < (reg F).length) (v : Int) (hx : (reg F).getD j 0 = v) (hr : P + out.length < F.tbuf.length) :
    EAt F P (eb32l s reg) (out ++ [v % 4294967296 % 256]) := by
  have hL : s.list = j := (h.get (·.list) (fun _ => rfl)).trans hj
  have hR : reg s = reg F := h.get reg hreg
  have e := eb32l_eq s reg (by rw [hL, hR]; omega) (h.bounds hr)
  rw [e, hL, hR, Int.toNat_natCast, hx]
  exact h.put _ hr

/-- one pass through the loop: the twelve bytes of descriptor `j` are stored at `p`, then `p += 12`, `i++`, `list++` -/
theorem enc_iter (fuel : Nat) (s : ESt) (j P : Nat) (hj : s.list = j) (hP : s.p = P)
    (h1 : j < s.block_ddlist_tag.length) (h2 : j < s.block_ddlist_ref.length) (h3 : j < s.block_ddlist_offset.length)
    (h4 : j < s.block_ddlist_length.length) (ht : 0 ≤ s.block_ddlist_tag.getD j 0) (hr : 0 ≤ s.block_ddlist_ref.getD j 0)
    (hb : P + 12 ≤ s.tbuf.length) :
    HTPsync_ddlist.loop0.body fuel s =
      { s with tbuf := s.tbuf.take P ++ ddBytesC (s.block_ddlist_tag.getD j 0) (s.block_ddlist_ref.getD j 0) (s.block_ddlist_offset.getD j 0)
                  (s.block_ddlist_length.getD j 0) ++ s.tbuf.drop (P + 12),
               p := ((P + 12 : Nat) : Int), i := s.i + 1, list := s.list + 1 } := by
  have a0 := EAt.start s P hP
  have a1 := ehi16_at a0 (·.block_ddlist_tag) (fun _ => rfl) j hj h1 _ rfl ht (by simp only [List.length_nil]; omega)
  have a2 := elo16_at a1 (·.block_ddlist_tag) (fun _ => rfl) j hj h1 _ rfl ht (by simp only [List.length_append, List.length_cons, List.length_nil]; omega)
  have a3 := ehi16_at a2 (·.block_ddlist_ref) (fun _ => rfl) j hj h2 _ rfl hr (by simp only [List.length_append, List.length_cons, List.length_nil]; omega)
  have a4 := elo16_at a3 (·.block_ddlist_ref) (fun _ => rfl) j hj h2 _ rfl hr (by simp only [List.length_append, List.length_cons, List.length_nil]; omega)
  have a5 := eb32_at a4 (·.block_ddlist_offset) (fun _ => rfl) 24 (by omega) j hj h3 _ rfl (by simp only [List.length_append, List.length_cons, List.length_nil]; omega)
  have a6 := eb32_at a5 (·.block_ddlist_offset) (fun _ => rfl) 16 (by omega) j hj h3 _ rfl (by simp only [List.length_append, List.length_cons, List.length_nil]; omega)
  have a7 := eb32_at a6 (·.block_ddlist_offset) (fun _ => rfl) 8 (by omega) j hj h3 _ rfl (by simp only [List.length_append, List.length_cons, List.length_nil]; omega)
  have a8 := eb32l_at a7 (·.block_ddlist_offset) (fun _ => rfl) j hj h3 _ rfl (by simp only [List.length_append, List.length_cons, List.length_nil]; omega)
  have a9 := eb32_at a8 (·.block_ddlist_length) (fun _ => rfl) 24 (by omega) j hj h4 _ rfl (by simp only [List.length_append, List.length_cons, List.length_nil]; omega)
  have a10 := eb32_at a9 (·.block_ddlist_length) (fun _ => rfl) 16 (by omega) j hj h4 _ rfl (by simp only [List.length_append, List.length_cons, List.length_nil]; omega)
  have a11 := eb32_at a10 (·.block_ddlist_length) (fun _ => rfl) 8 (by omega) j hj h4 _ rfl (by simp only [List.length_append, List.length_cons, List.length_nil]; omega)
  have a12 := eb32l_at a11 (·.block_ddlist_length) (fun _ => rfl) j hj h4 _ rfl (by simp only [List.length_append, List.length_cons, List.length_nil]; omega)
  have key : ∀ S : ESt, EAt s P S ([] ++ [s.block_ddlist_tag.getD j 0 / 256 % 256] ++ [s.block_ddlist_tag.getD j 0 % 256] ++
      [s.block_ddlist_ref.getD j 0 / 256 % 256] ++ [s.block_ddlist_ref.getD j 0 % 256] ++
      [s.block_ddlist_offset.getD j 0 % 4294967296 / 2 ^ Int.toNat 24 % 256] ++ [s.block_ddlist_offset.getD j 0 % 4294967296 / 2 ^ Int.toNat 16 % 256] ++
      [s.block_ddlist_offset.getD j 0 % 4294967296 / 2 ^ Int.toNat 8 % 256] ++ [s.block_ddlist_offset.getD j 0 % 4294967296 % 256] ++
      [s.block_ddlist_length.getD j 0 % 4294967296 / 2 ^ Int.toNat 24 % 256] ++ [s.block_ddlist_length.getD j 0 % 4294967296 / 2 ^ Int.toNat 16 % 256] ++
      [s.block_ddlist_length.getD j 0 % 4294967296 / 2 ^ Int.toNat 8 % 256] ++ [s.block_ddlist_length.getD j 0 % 4294967296 % 256]) →
      HTPsync_ddlist.St.set_list (HTPsync_ddlist.St.set_i S (S.i + 1)) ((HTPsync_ddlist.St.set_i S (S.i + 1)).list + 1) =
      { s with tbuf := s.tbuf.take P ++ ddBytesC (s.block_ddlist_tag.getD j 0) (s.block_ddlist_ref.getD j 0) (s.block_ddlist_offset.getD j 0)
                  (s.block_ddlist_length.getD j 0) ++ s.tbuf.drop (P + 12),
               p := ((P + 12 : Nat) : Int), i := s.i + 1, list := s.list + 1 } := by
    intro S aS
    have hfr := aS.fr
    have hp := aS.p
    have hbuf := aS.buf
    simp only [List.nil_append, List.append_assoc, List.cons_append, List.length_cons, List.length_nil] at hp hbuf
    apply eq_of_eframe
    · have hi : S.i = s.i := aS.get (·.i) (fun _ => rfl)
      have hl : S.list = s.list := aS.get (·.list) (fun _ => rfl)
      simp only [HTPsync_ddlist.St.set_list, HTPsync_ddlist.St.set_i, eframe, hi, hl] at hfr ⊢
      cases S; cases s; simp_all
    · simpa using hp
    · simp only [HTPsync_ddlist.St.set_list, HTPsync_ddlist.St.set_i, hbuf, ddBytesC, List.append_assoc, List.cons_append, List.nil_append]
  rw [enc_body]
  exact key _ a12

/-- the bytes of descriptors `j .. j+m-1` of the four C arrays -/
def encFrom (T R O L : List Int) : Nat → Nat → List Int
  | _, 0 => []
  | j, m + 1 => ddBytesC (T.getD j 0) (R.getD j 0) (O.getD j 0) (L.getD j 0) ++ encFrom T R O L (j + 1) m

theorem ddBytesC_length (t r o l : Int) : (ddBytesC t r o l).length = 12 := rfl

theorem encFrom_length (T R O L : List Int) : ∀ (m j : Nat), (encFrom T R O L j m).length = 12 * m
  | 0, _ => rfl
  | m + 1, j => by simp only [encFrom, List.length_append, ddBytesC_length, encFrom_length T R O L m (j + 1)]; omega

theorem enc_loop (T R O L : List Int) (n : Nat) : ∀ (m fuel j : Nat) (s : ESt), m ≤ fuel → j + m = n →
    s.list = j → s.i = j → s.ndds = n → s.p = ((12 * j : Nat) : Int) → s.gto = false →
    s.block_ddlist_tag = T → s.block_ddlist_ref = R → s.block_ddlist_offset = O → s.block_ddlist_length = L →
    n ≤ T.length → n ≤ R.length → n ≤ O.length → n ≤ L.length → (∀ k, k < n → 0 ≤ T.getD k 0) → (∀ k, k < n → 0 ≤ R.getD k 0) →
    12 * n ≤ s.tbuf.length →
    HTPsync_ddlist.loop0 fuel s =
      { s with tbuf := s.tbuf.take (12 * j) ++ encFrom T R O L j m ++ s.tbuf.drop (12 * n), p := ((12 * n : Nat) : Int), i := n, list := n } := by
  intro m
  induction m with
  | zero =>
    intro fuel j s _ hjm hl hi hn hp hg hT hR hO hL _ _ _ _ _ _ hb
    have hjn : j = n := by omega
    subst hjn
    have hc : ¬ (s.i < s.ndds) := by rw [hi, hn]; omega
    have e : HTPsync_ddlist.loop0 fuel s = s := by cases fuel <;> simp only [HTPsync_ddlist.loop0, hc, false_and, if_false]
    rw [e]
    simp only [encFrom, List.append_nil, List.take_append_drop]
    cases s; simp_all
  | succ m ih =>
    intro fuel j s hf hjm hl hi hn hp hg hT hR hO hL lT lR lO lL pT pR hb
    obtain ⟨fuel, rfl⟩ : ∃ f, fuel = f + 1 := ⟨fuel - 1, by omega⟩
    have hc : s.i < s.ndds := by rw [hi, hn]; omega
    have e : HTPsync_ddlist.loop0 (fuel + 1) s = HTPsync_ddlist.loop0 fuel (HTPsync_ddlist.loop0.body (fuel + 1) s) := by
      rw [HTPsync_ddlist.loop0]; simp [hc, hg]
    have it := enc_iter (fuel + 1) s j (12 * j) hl hp (by rw [hT]; omega) (by rw [hR]; omega) (by rw [hO]; omega) (by rw [hL]; omega)
      (by rw [hT]; exact pT j (by omega)) (by rw [hR]; exact pR j (by omega)) (by omega)
    rw [e]
    have hlen : (List.take (12 * j) s.tbuf ++ ddBytesC (T.getD j 0) (R.getD j 0) (O.getD j 0) (L.getD j 0)).length = 12 * (j + 1) := by
      simp only [List.length_append, List.length_take, ddBytesC_length]; omega
    generalize HTPsync_ddlist.loop0.body (fuel + 1) s = S at it ⊢
    have q1 : S.list = ((j + 1 : Nat) : Int) := by rw [it]; simp only [hl]; omega
    have q2 : S.i = ((j + 1 : Nat) : Int) := by rw [it]; simp only [hi]; omega
    have q3 : S.ndds = n := by rw [it]; exact hn
    have q4 : S.p = ((12 * (j + 1) : Nat) : Int) := by rw [it]; simp only []; omega
    have q5 : S.gto = false := by rw [it]; exact hg
    have q6 : S.block_ddlist_tag = T := by rw [it]; exact hT
    have q7 : S.block_ddlist_ref = R := by rw [it]; exact hR
    have q8 : S.block_ddlist_offset = O := by rw [it]; exact hO
    have q9 : S.block_ddlist_length = L := by rw [it]; exact hL
    have q10 : S.tbuf = List.take (12 * j) s.tbuf ++ ddBytesC (T.getD j 0) (R.getD j 0) (O.getD j 0) (L.getD j 0) ++ List.drop (12 * j + 12) s.tbuf := by
      rw [it, hT, hR, hO, hL]
    have q11 : 12 * n ≤ S.tbuf.length := by
      rw [q10]; simp only [List.length_append, List.length_take, List.length_drop, ddBytesC_length]; omega
    rw [ih fuel (j + 1) S (by omega) (by omega) q1 q2 q3 q4 q5 q6 q7 q8 q9 lT lR lO lL pT pR q11]
    rw [q10, List.take_left' hlen]
    have hd : List.drop (12 * n) (List.take (12 * j) s.tbuf ++ ddBytesC (T.getD j 0) (R.getD j 0) (O.getD j 0) (L.getD j 0) ++ List.drop (12 * j + 12) s.tbuf)
        = List.drop (12 * n) s.tbuf := by
      rw [List.drop_append, hlen, List.drop_of_length_le (by rw [hlen]; omega), List.nil_append, List.drop_drop]
      congr 1; omega
    rw [hd, it]
    simp only [encFrom, List.append_assoc]

/-- the whole fragment: the loop, then `HP_write(file_rec, tbuf, ndds * DD_SZ)` -/
theorem HTPsync_ddlist_run (T R O L tbuf io_out : List Int) (n fuel : Nat) (ret_value : Int) (hf : n ≤ fuel)
    (lT : n ≤ T.length) (lR : n ≤ R.length) (lO : n ≤ O.length) (lL : n ≤ L.length)
    (pT : ∀ k, k < n → 0 ≤ T.getD k 0) (pR : ∀ k, k < n → 0 ≤ R.getD k 0) (hb : 12 * n ≤ tbuf.length) :
    HTPsync_ddlist fuel T R O L tbuf n ret_value io_out =
      { block_ddlist_tag := T, block_ddlist_ref := R, block_ddlist_offset := O, block_ddlist_length := L, ndds := n, ret_value := ret_value,
        tbuf := encFrom T R O L 0 n ++ tbuf.drop (12 * n), io_out := io_out ++ encFrom T R O L 0 n, p := ((12 * n : Nat) : Int), i := n, list := n } := by
  have L0 := enc_loop T R O L n n fuel 0
    { block_ddlist_tag := T, block_ddlist_ref := R, block_ddlist_offset := O, block_ddlist_length := L, tbuf := tbuf, ndds := n,
      ret_value := ret_value, io_out := io_out, list := 0, p := 0, i := 0 }
    hf (by omega) rfl rfl rfl rfl rfl rfl rfl rfl rfl lT lR lO lL pT pR hb
  have c1 : (0 : Int) ≤ (n : Int) * 12 := by omega
  have c3 : ¬ ((n : Int) * 12 = -1) := by omega
  have hlen := encFrom_length T R O L n 0
  have c2 : (0 : Int) ≤ 0 ∧ 0 + (n : Int) * 12 ≤ ((encFrom T R O L 0 n ++ List.drop (12 * n) tbuf).length : Int) := by
    simp only [List.length_append, List.length_drop, hlen]; omega
  have ht : Int.toNat ((n : Int) * 12) = 12 * n := by omega
  simp only [HTPsync_ddlist, HTPsync_ddlist.St.set_list, HTPsync_ddlist.St.set_p, HTPsync_ddlist.St.set_i]
  rw [L0]
  simp only [Nat.mul_zero, List.take_zero, List.nil_append]
  simp only [HTPsync_ddlist.chk, c1, c2, decide_true, Bool.not_true, Bool.or_false, and_self,
    HTPsync_ddlist.St.set_io_out, HTPsync_ddlist.St.set_ret_value, HTPsync_ddlist.St.set_gto, c3, decide_false, Bool.false_eq_true, if_false,
    Int.toNat_zero, List.drop_zero, ht]
  rw [List.take_left' hlen]
  simp

/-- the C arrays of a model block (`ddlist[k].tag` …), possibly followed by more cells -/
def cTag (ds : List DD.DD) : List Int := ds.map fun d => (d.tag : Int)
def cRef (ds : List DD.DD) : List Int := ds.map fun d => (d.ref : Int)
def cOff (ds : List DD.DD) : List Int := ds.map fun d => d.off
def cLen (ds : List DD.DD) : List Int := ds.map fun d => d.len

/-- the twelve bytes `DDENCODE` stores are the model's `encodeDD` -/
theorem ddBytesC_model (d : DD.DD) : ddBytesC d.tag d.ref d.off d.len = ints (DD.encodeDD d) := by
  have e1 : (2 : Int) ^ Int.toNat 24 = 16777216 := by decide
  have e2 : (2 : Int) ^ Int.toNat 16 = 65536 := by decide
  have e3 : (2 : Int) ^ Int.toNat 8 = 256 := by decide
  have ho : d.off % 4294967296 = ((DD.toU32 d.off : Nat) : Int) := by unfold DD.toU32; omega
  have hl : d.len % 4294967296 = ((DD.toU32 d.len : Nat) : Int) := by unfold DD.toU32; omega
  simp only [ddBytesC, DD.encodeDD, DD.be16, DD.be32, ints, List.map_append, List.map_cons, List.map_nil, List.cons_append, List.nil_append,
    e1, e2, e3, ho, hl, Int.ofNat_eq_natCast]
  refine List.cons_eq_cons.mpr ⟨by omega, List.cons_eq_cons.mpr ⟨by omega, List.cons_eq_cons.mpr ⟨by omega, List.cons_eq_cons.mpr ⟨by omega,
    List.cons_eq_cons.mpr ⟨by omega, List.cons_eq_cons.mpr ⟨by omega, List.cons_eq_cons.mpr ⟨by omega, List.cons_eq_cons.mpr ⟨by omega,
    List.cons_eq_cons.mpr ⟨by omega, List.cons_eq_cons.mpr ⟨by omega, List.cons_eq_cons.mpr ⟨by omega, List.cons_eq_cons.mpr ⟨by omega, rfl⟩⟩⟩⟩⟩⟩⟩⟩⟩⟩⟩⟩

theorem encFrom_model (T R O L : List Int) : ∀ (ds : List DD.DD) (j : Nat),
    (∀ k (h : k < ds.length), T.getD (j + k) 0 = ds[k].tag ∧ R.getD (j + k) 0 = ds[k].ref ∧ O.getD (j + k) 0 = ds[k].off ∧ L.getD (j + k) 0 = ds[k].len) →
    encFrom T R O L j ds.length = ints (ds.flatMap DD.encodeDD)
  | [], _, _ => rfl
  | d :: ds, j, h => by
    obtain ⟨a, b, c, e⟩ := h 0 (by simp)
    simp only [Nat.add_zero, List.getElem_cons_zero] at a b c e
    have ih := encFrom_model T R O L ds (j + 1) (fun k hk => by
      have := h (k + 1) (by simp only [List.length_cons]; omega)
      simpa only [List.getElem_cons_succ, Nat.add_assoc, Nat.add_comm 1 k] using this)
    simp only [List.length_cons, encFrom, List.flatMap_cons, a, b, c, e, ih, ddBytesC_model]
    simp only [ints, List.map_append]

/-! ## `HTPstart_ddlist`: the loop that parses the descriptors of one block -/
abbrev DSt := HTPstart_ddlist.St

/-- `a | b` at 32 bits, signed (two's complement), as the translator writes it -/
def sor (a b : Int) : Int :=
  if (Int.ofNat (Int.toNat (a % 4294967296) ||| Int.toNat (b % 4294967296))) ≥ 2147483648 then (Int.ofNat (Int.toNat (a % 4294967296) ||| Int.toNat (b % 4294967296))) - 4294967296 else (Int.ofNat (Int.toNat (a % 4294967296) ||| Int.toNat (b % 4294967296)))
/-- `a | b` in an unsigned 32-bit type -/
def uor (a b : Int) : Int := Int.ofNat (Int.toNat (a % 4294967296) ||| Int.toNat (b % 4294967296))

/-- the four members of `dd_t` the loop fills -/
inductive Fld | tag | ref | off | len
  deriving DecidableEq

def Fld.get : Fld → DSt → List Int
  | .tag, s => s.ddcurr_ddlist_tag | .ref, s => s.ddcurr_ddlist_ref | .off, s => s.ddcurr_ddlist_offset | .len, s => s.ddcurr_ddlist_length
def Fld.set : Fld → DSt → List Int → DSt
  | .tag, s, v => HTPstart_ddlist.St.set_ddcurr_ddlist_tag s v | .ref, s, v => HTPstart_ddlist.St.set_ddcurr_ddlist_ref s v
  | .off, s, v => HTPstart_ddlist.St.set_ddcurr_ddlist_offset s v | .len, s, v => HTPstart_ddlist.St.set_ddcurr_ddlist_length s v

/-- the byte under `p` -/
abbrev cur (s : DSt) : Int := s.tbuf.getD (Int.toNat (s.p)) 0

/-- `x = (uint16)((*p & 0xff) << 8); p++` -/
def d16a (s : DSt) (f : Fld) : DSt :=
  have s : DSt := HTPstart_ddlist.chk s (0 ≤ s.p ∧ s.p < s.tbuf.length)
  have s : DSt := HTPstart_ddlist.chk s ((0 : Int) ≤ sand (cur s) 255 ∧ (0 : Int) ≤ 8 ∧ 8 < (32 : Int))
  have s : DSt := HTPstart_ddlist.chk s (0 ≤ s.curr_dd_ptr ∧ s.curr_dd_ptr < (f.get s).length)
  have s : DSt := f.set s ((f.get s).set (Int.toNat (s.curr_dd_ptr)) (((sand (cur s) 255) * 2 ^ Int.toNat (8)) % 65536))
  let e0 : Int := (s.p + 1)
  have s : DSt := HTPstart_ddlist.St.set_p s (e0)
  s
/-- `x |= (uint16)(*p & 0xff); p++` -/
def d16b (s : DSt) (f : Fld) : DSt :=
  have s : DSt := HTPstart_ddlist.chk s (0 ≤ s.p ∧ s.p < s.tbuf.length)
  have s : DSt := HTPstart_ddlist.chk s (0 ≤ s.curr_dd_ptr ∧ s.curr_dd_ptr < (f.get s).length)
  have s : DSt := f.set s ((f.get s).set (Int.toNat (s.curr_dd_ptr)) ((sor ((f.get s).getD (Int.toNat (s.curr_dd_ptr)) 0) ((sand (cur s) 255) % 65536)) % 65536))
  let e0 : Int := (s.p + 1)
  have s : DSt := HTPstart_ddlist.St.set_p s (e0)
  s
/-- `x = ((int32)((*p & 0x80) ? ~0xffffffffULL : 0x0ULL)) | ((*p & (unsigned)0xff) << 24); p++` -/
def d32a (s : DSt) (f : Fld) : DSt :=
  have s : DSt := HTPstart_ddlist.chk s (0 ≤ s.p ∧ s.p < s.tbuf.length)
  have s : DSt := HTPstart_ddlist.chk s ((0 : Int) ≤ uand (cur s) (255 % 4294967296) ∧ (0 : Int) ≤ 24 ∧ 24 < (32 : Int))
  have s : DSt := HTPstart_ddlist.chk s (0 ≤ s.curr_dd_ptr ∧ s.curr_dd_ptr < (f.get s).length)
  have s : DSt := f.set s ((f.get s).set (Int.toNat (s.curr_dd_ptr))
    (((uor ((((if (sand (cur s) 128) ≠ 0 then ((-(4294967295) - 1) % 18446744073709551616) else 0) + 2147483648) % 4294967296 - 2147483648) % 4294967296)
        (((uand (cur s) (255 % 4294967296)) * 2 ^ Int.toNat (24)) % 4294967296)) + 2147483648) % 4294967296 - 2147483648))
  let e0 : Int := (s.p + 1)
  have s : DSt := HTPstart_ddlist.St.set_p s (e0)
  s
/-- `x |= ((int32)(*p & 0xff) << k); p++` -/
def d32b (s : DSt) (f : Fld) (k : Int) : DSt :=
  have s : DSt := HTPstart_ddlist.chk s (0 ≤ s.p ∧ s.p < s.tbuf.length)
  have s : DSt := HTPstart_ddlist.chk s ((0 : Int) ≤ sand (cur s) 255 ∧ (0 : Int) ≤ k ∧ k < (32 : Int))
  have s : DSt := HTPstart_ddlist.chk s (0 ≤ s.curr_dd_ptr ∧ s.curr_dd_ptr < (f.get s).length)
  have s : DSt := f.set s ((f.get s).set (Int.toNat (s.curr_dd_ptr)) (sor ((f.get s).getD (Int.toNat (s.curr_dd_ptr)) 0) ((sand (cur s) 255) * 2 ^ Int.toNat (k))))
  let e0 : Int := (s.p + 1)
  have s : DSt := HTPstart_ddlist.St.set_p s (e0)
  s
/-- `x |= (*p & 0xff); p++` -/
def d32c (s : DSt) (f : Fld) : DSt :=
  have s : DSt := HTPstart_ddlist.chk s (0 ≤ s.p ∧ s.p < s.tbuf.length)
  have s : DSt := HTPstart_ddlist.chk s (0 ≤ s.curr_dd_ptr ∧ s.curr_dd_ptr < (f.get s).length)
  have s : DSt := f.set s ((f.get s).set (Int.toNat (s.curr_dd_ptr)) (sor ((f.get s).getD (Int.toNat (s.curr_dd_ptr)) 0) (sand (cur s) 255)))
  let e0 : Int := (s.p + 1)
  have s : DSt := HTPstart_ddlist.St.set_p s (e0)
  s

/-- what follows `DDDECODE` in the loop: `maxref`, `end_off`, the registration of a live descriptor, `i++, curr_dd_ptr++` -/
def dtail (s : DSt) : DSt :=
  have s : DSt := HTPstart_ddlist.chk s (0 ≤ s.curr_dd_ptr ∧ s.curr_dd_ptr < s.ddcurr_ddlist_ref.length)
  have s : DSt := if (s.file_rec_maxref < (s.ddcurr_ddlist_ref.getD (Int.toNat (s.curr_dd_ptr)) 0)) then
      have s : DSt := HTPstart_ddlist.chk s (0 ≤ s.curr_dd_ptr ∧ s.curr_dd_ptr < s.ddcurr_ddlist_ref.length)
      have s : DSt := HTPstart_ddlist.St.set_file_rec_maxref s ((s.ddcurr_ddlist_ref.getD (Int.toNat (s.curr_dd_ptr)) 0))
      s
    else
      s
  have s : DSt := HTPstart_ddlist.chk s (0 ≤ s.curr_dd_ptr ∧ s.curr_dd_ptr < s.ddcurr_ddlist_offset.length)
  have s : DSt := HTPstart_ddlist.chk s (0 ≤ s.curr_dd_ptr ∧ s.curr_dd_ptr < s.ddcurr_ddlist_length.length)
  have s : DSt := if (((s.ddcurr_ddlist_offset.getD (Int.toNat (s.curr_dd_ptr)) 0) + (s.ddcurr_ddlist_length.getD (Int.toNat (s.curr_dd_ptr)) 0)) > s.end_off) then
      have s : DSt := HTPstart_ddlist.chk s (0 ≤ s.curr_dd_ptr ∧ s.curr_dd_ptr < s.ddcurr_ddlist_offset.length)
      have s : DSt := HTPstart_ddlist.chk s (0 ≤ s.curr_dd_ptr ∧ s.curr_dd_ptr < s.ddcurr_ddlist_length.length)
      have s : DSt := HTPstart_ddlist.St.set_end_off s (((s.ddcurr_ddlist_offset.getD (Int.toNat (s.curr_dd_ptr)) 0) + (s.ddcurr_ddlist_length.getD (Int.toNat (s.curr_dd_ptr)) 0)))
      s
    else
      s
  have s : DSt := HTPstart_ddlist.chk s (0 ≤ s.curr_dd_ptr ∧ s.curr_dd_ptr < s.ddcurr_ddlist_tag.length)
  have s : DSt := if ((s.ddcurr_ddlist_tag.getD (Int.toNat (s.curr_dd_ptr)) 0) ≠ 1) then
      have s : DSt := if ((s.HTIregister_tag_ref_ret.getD (Int.toNat (s.curr_dd_ptr)) 0) = (- 1)) then
          have s : DSt := HTPstart_ddlist.St.set_ret_value s ((- 1))
          have s : DSt := HTPstart_ddlist.St.set_gto s (true)
          s
        else
          s
      s
    else
      s
  have s : DSt := if s.gto then s else
    have s : DSt := HTPstart_ddlist.St.set_i s ((s.i + 1))
    have s : DSt := HTPstart_ddlist.St.set_curr_dd_ptr s ((s.curr_dd_ptr + 1))
    s
  s

/-- the body of the loop is `DDDECODE(p, curr_dd_ptr->tag, …->ref, …->offset, …->length)` followed by `dtail` -/
theorem dec_body (fuel : Nat) (s : DSt) : HTPstart_ddlist.loop0.body fuel s =
    (have s : DSt := d16a s .tag; have s : DSt := d16b s .tag; have s : DSt := d16a s .ref; have s : DSt := d16b s .ref
     have s : DSt := d32a s .off; have s : DSt := d32b s .off 16; have s : DSt := d32b s .off 8; have s : DSt := d32c s .off
     have s : DSt := d32a s .len; have s : DSt := d32b s .len 16; have s : DSt := d32b s .len 8; have s : DSt := d32c s .len
     dtail s) := by kernel_rfl

/-! ### values -/

/-- the `int32` whose two's complement representation is `n` -/
def sgn (n : Nat) : Int := if (n : Int) ≥ 2147483648 then (n : Int) - 4294967296 else (n : Int)

theorem sgn_mod (U : Nat) (hU : U < 4294967296) : (sgn U) % 4294967296 = (U : Int) := by
  unfold sgn; split <;> omega

theorem wrap_sgn (U : Nat) (hU : U < 4294967296) : ((U : Int) + 2147483648) % 4294967296 - 2147483648 = sgn U := by
  unfold sgn; split <;> omega

theorem sgn_eq_ofU32 (U : Nat) : sgn U = DD.ofU32 U := by
  unfold sgn DD.ofU32; split <;> split <;> omega

theorem sor_nat (a : Int) (U c : Nat) (ha : a % 4294967296 = (U : Int)) (hU : U < 4294967296) (hc : c < 4294967296) :
    sor a (c : Int) = sgn (U ||| c) := by
  have e1 : Int.toNat (a % 4294967296) = U := by omega
  have e2 : Int.toNat ((c : Int) % 4294967296) = c := by omega
  unfold sor sgn
  rw [e1, e2]
  rfl

theorem uor_nat (a : Int) (U c : Nat) (ha : a % 4294967296 = (U : Int)) (hc : c < 4294967296) :
    uor a (c : Int) = ((U ||| c : Nat) : Int) := by
  have e1 : Int.toNat (a % 4294967296) = U := by omega
  have e2 : Int.toNat ((c : Int) % 4294967296) = c := by omega
  unfold uor
  rw [e1, e2]
  rfl

theorem signfill_zero (c : Prop) [Decidable c] :
    ((if c then ((-(4294967295 : Int) - 1) % 18446744073709551616) else 0) + 2147483648) % 4294967296 - 2147483648 = 0 := by
  split <;> decide

theorem or_lt (a b n : Nat) (ha : a < 2 ^ n) (hb : b < 2 ^ n) : a ||| b < 2 ^ n := Nat.or_lt_two_pow ha hb

/-- `UINT16DECODE`: the two bytes are disjoint bit ranges -/
theorem or16 (a b : Nat) (hb : b < 256) : a * 256 ||| b = a * 256 + b := by
  have := Nat.two_pow_add_eq_or_of_lt (i := 8) (b := b) (by simpa using hb) a
  rw [show (2 : Nat) ^ 8 = 256 from rfl] at this
  rw [Nat.mul_comm a 256, ← this]

/-- `INT32DECODE`: the four bytes are disjoint bit ranges -/
theorem or32 (a b c d : Nat) (hb : b < 256) (hc : c < 256) (hd : d < 256) :
    ((a * 16777216 ||| b * 65536) ||| c * 256) ||| d = a * 16777216 + b * 65536 + c * 256 + d := by
  have h1 := Nat.two_pow_add_eq_or_of_lt (i := 24) (b := b * 65536) (by omega) a
  have h2 := Nat.two_pow_add_eq_or_of_lt (i := 16) (b := c * 256) (by omega) (a * 256 + b)
  have h3 := Nat.two_pow_add_eq_or_of_lt (i := 8) (b := d) (by omega) (a * 65536 + b * 256 + c)
  rw [show (2 : Nat) ^ 24 = 16777216 from rfl] at h1
  rw [show (2 : Nat) ^ 16 = 65536 from rfl] at h2
  rw [show (2 : Nat) ^ 8 = 256 from rfl] at h3
  have e1 : a * 16777216 ||| b * 65536 = a * 16777216 + b * 65536 := by rw [Nat.mul_comm a, ← h1]
  have e2 : (a * 16777216 + b * 65536) ||| c * 256 = a * 16777216 + b * 65536 + c * 256 := by
    have : a * 16777216 + b * 65536 = 65536 * (a * 256 + b) := by omega
    rw [this, ← h2]
  have e3 : (a * 16777216 + b * 65536 + c * 256) ||| d = a * 16777216 + b * 65536 + c * 256 + d := by
    have : a * 16777216 + b * 65536 + c * 256 = 256 * (a * 65536 + b * 256 + c) := by omega
    rw [this, ← h3]
  rw [e1, e2, e3]

/-! ### one store -/

theorem dchk_true (s : DSt) (c : Prop) [Decidable c] (h : c) : HTPstart_ddlist.chk s c = s := by
  simp [HTPstart_ddlist.chk, h]

/-- `x = v; p++` for the member `f` of `*curr_dd_ptr` -/
def dstore (s : DSt) (f : Fld) (v : Int) : DSt :=
  HTPstart_ddlist.St.set_p (f.set s ((f.get s).set (Int.toNat s.curr_dd_ptr) v)) (s.p + 1)

theorem d16a_eq (s : DSt) (f : Fld) (b : Nat) (hb : cur s = (b : Int)) (hb2 : b < 256) (hp : 0 ≤ s.p ∧ s.p < s.tbuf.length)
    (hc : 0 ≤ s.curr_dd_ptr ∧ s.curr_dd_ptr < (f.get s).length) : d16a s f = dstore s f ((b * 256 : Nat) : Int) := by
  have hs : sand (cur s) 255 = (b : Int) := by rw [hb, sand_255 _ (by omega)]; omega
  have c2 : (0 : Int) ≤ sand (cur s) 255 ∧ (0 : Int) ≤ 8 ∧ 8 < (32 : Int) := by rw [hs]; omega
  simp only [d16a]
  simp only [dchk_true s _ hp]
  simp only [dchk_true s _ c2]
  simp only [dchk_true s _ hc]
  rw [hs]
  have e : ((b : Int) * 2 ^ Int.toNat 8) % 65536 = ((b * 256 : Nat) : Int) := by
    rw [show (2 : Int) ^ Int.toNat 8 = 256 from by decide]; omega
  rw [e]
  cases f <;> rfl

theorem d16b_eq (s : DSt) (f : Fld) (b x : Nat) (hb : cur s = (b : Int)) (hb2 : b < 256) (hp : 0 ≤ s.p ∧ s.p < s.tbuf.length)
    (hc : 0 ≤ s.curr_dd_ptr ∧ s.curr_dd_ptr < (f.get s).length) (hx : (f.get s).getD (Int.toNat s.curr_dd_ptr) 0 = (x : Int)) (hx2 : x < 65536) :
    d16b s f = dstore s f ((x ||| b : Nat) : Int) := by
  have hs : sand (cur s) 255 = (b : Int) := by rw [hb, sand_255 _ (by omega)]; omega
  simp only [d16b]
  simp only [dchk_true s _ hp]
  simp only [dchk_true s _ hc]
  rw [hs, hx]
  have e0 : ((b : Int)) % 65536 = (b : Int) := by omega
  have hlt : x ||| b < 2 ^ 16 := or_lt x b 16 (by omega) (by omega)
  have e : (sor (x : Int) ((b : Int) % 65536)) % 65536 = ((x ||| b : Nat) : Int) := by
    rw [e0, sor_nat (x : Int) x b (by omega) (by omega) (by omega)]
    unfold sgn
    rw [if_neg (by omega)]
    omega
  rw [e]
  cases f <;> rfl

theorem d32a_eq (s : DSt) (f : Fld) (b : Nat) (hb : cur s = (b : Int)) (hb2 : b < 256) (hp : 0 ≤ s.p ∧ s.p < s.tbuf.length)
    (hc : 0 ≤ s.curr_dd_ptr ∧ s.curr_dd_ptr < (f.get s).length) : d32a s f = dstore s f (sgn (b * 16777216)) := by
  have hs : uand (cur s) (255 % 4294967296) = (b : Int) := by rw [hb, uand_255 _ (by omega)]; omega
  have c2 : (0 : Int) ≤ uand (cur s) (255 % 4294967296) ∧ (0 : Int) ≤ 24 ∧ 24 < (32 : Int) := by rw [hs]; omega
  simp only [d32a]
  simp only [dchk_true s _ hp]
  simp only [dchk_true s _ c2]
  simp only [dchk_true s _ hc]
  rw [hs, signfill_zero]
  have e1 : ((b : Int) * 2 ^ Int.toNat 24) % 4294967296 = ((b * 16777216 : Nat) : Int) := by
    rw [show (2 : Int) ^ Int.toNat 24 = 16777216 from by decide]; omega
  rw [e1, uor_nat _ 0 (b * 16777216) (by decide) (by omega), Nat.zero_or, wrap_sgn _ (by omega)]
  cases f <;> rfl

theorem d32b_eq (s : DSt) (f : Fld) (k : Int) (hk : k = 8 ∨ k = 16) (b U : Nat) (hb : cur s = (b : Int)) (hb2 : b < 256)
    (hp : 0 ≤ s.p ∧ s.p < s.tbuf.length) (hc : 0 ≤ s.curr_dd_ptr ∧ s.curr_dd_ptr < (f.get s).length)
    (hx : (f.get s).getD (Int.toNat s.curr_dd_ptr) 0 = sgn U) (hU : U < 4294967296) :
    d32b s f k = dstore s f (sgn (U ||| b * 2 ^ Int.toNat k)) := by
  have hs : sand (cur s) 255 = (b : Int) := by rw [hb, sand_255 _ (by omega)]; omega
  have c2 : (0 : Int) ≤ sand (cur s) 255 ∧ (0 : Int) ≤ k ∧ k < (32 : Int) := by rw [hs]; omega
  simp only [d32b]
  simp only [dchk_true s _ hp]
  simp only [dchk_true s _ c2]
  simp only [dchk_true s _ hc]
  rw [hs, hx]
  have e1 : (b : Int) * 2 ^ Int.toNat k = ((b * 2 ^ Int.toNat k : Nat) : Int) := by simp
  have hlt : b * 2 ^ Int.toNat k < 4294967296 := by
    rcases hk with rfl | rfl
    · rw [show (2 : Nat) ^ Int.toNat 8 = 256 from by decide]; omega
    · rw [show (2 : Nat) ^ Int.toNat 16 = 65536 from by decide]; omega
  rw [e1, sor_nat _ U _ (sgn_mod U hU) hU hlt]
  cases f <;> rfl

theorem d32c_eq (s : DSt) (f : Fld) (b U : Nat) (hb : cur s = (b : Int)) (hb2 : b < 256)
    (hp : 0 ≤ s.p ∧ s.p < s.tbuf.length) (hc : 0 ≤ s.curr_dd_ptr ∧ s.curr_dd_ptr < (f.get s).length)
    (hx : (f.get s).getD (Int.toNat s.curr_dd_ptr) 0 = sgn U) (hU : U < 4294967296) :
    d32c s f = dstore s f (sgn (U ||| b)) := by
  have hs : sand (cur s) 255 = (b : Int) := by rw [hb, sand_255 _ (by omega)]; omega
  simp only [d32c]
  simp only [dchk_true s _ hp]
  simp only [dchk_true s _ hc]
  rw [hs, hx, sor_nat _ U b (sgn_mod U hU) hU (by omega)]
  cases f <;> rfl

/-! ### the invariant inside one pass -/

/-- everything but the cursor `p` and the four member arrays -/
def dframe (s : DSt) : DSt :=
  { s with p := 0, ddcurr_ddlist_tag := [], ddcurr_ddlist_ref := [], ddcurr_ddlist_offset := [], ddcurr_ddlist_length := [] }

/-- the four member arrays -/
structure Regs where
  t : List Int
  r : List Int
  o : List Int
  l : List Int

def Regs.get : Fld → Regs → List Int
  | .tag, G => G.t | .ref, G => G.r | .off, G => G.o | .len, G => G.l
/-- `member f of descriptor j := v` -/
def Regs.upd : Fld → Regs → Nat → Int → Regs
  | .tag, G, j, v => { G with t := G.t.set j v } | .ref, G, j, v => { G with r := G.r.set j v }
  | .off, G, j, v => { G with o := G.o.set j v } | .len, G, j, v => { G with l := G.l.set j v }

/-- since the state `F` (`F.p = P`), `k` bytes have been consumed, the member arrays are `G`, nothing else changed -/
structure DAt (F : DSt) (P : Nat) (s : DSt) (k : Nat) (G : Regs) : Prop where
  p : s.p = ((P + k : Nat) : Int)
  regs : ∀ f : Fld, f.get s = G.get f
  fr : dframe s = dframe F

theorem DAt.start (F : DSt) (P : Nat) (h : F.p = P) :
    DAt F P F 0 ⟨F.ddcurr_ddlist_tag, F.ddcurr_ddlist_ref, F.ddcurr_ddlist_offset, F.ddcurr_ddlist_length⟩ :=
  ⟨by simpa using h, fun f => by cases f <;> rfl, rfl⟩

theorem DAt.get {F P s k G} (h : DAt F P s k G) {α} (g : DSt → α) (hg : ∀ t, g t = g (dframe t)) : g s = g F := by
  rw [hg s, hg F, h.fr]

theorem DAt.cptr {F P s k G} (h : DAt F P s k G) : s.curr_dd_ptr = F.curr_dd_ptr := h.get (·.curr_dd_ptr) (fun _ => rfl)
theorem DAt.tbuf {F P s k G} (h : DAt F P s k G) : s.tbuf = F.tbuf := h.get (·.tbuf) (fun _ => rfl)

theorem DAt.cur {F P s k G} (h : DAt F P s k G) : cur s = F.tbuf.getD (P + k) 0 := by
  show s.tbuf.getD (Int.toNat s.p) 0 = _
  rw [h.tbuf, h.p, Int.toNat_natCast]

theorem DAt.pb {F P s k G} (h : DAt F P s k G) (hr : P + k < F.tbuf.length) : 0 ≤ s.p ∧ s.p < s.tbuf.length := by
  rw [h.tbuf, h.p]; omega

theorem DAt.cb {F P s k G} (h : DAt F P s k G) (f : Fld) (j : Nat) (hj : F.curr_dd_ptr = j) (hjl : j < (G.get f).length) :
    0 ≤ s.curr_dd_ptr ∧ s.curr_dd_ptr < (f.get s).length := by
  rw [h.cptr, hj, h.regs f]; omega

theorem DAt.cell {F P s k G} (h : DAt F P s k G) (f : Fld) (j : Nat) (hj : F.curr_dd_ptr = j) :
    (f.get s).getD (Int.toNat s.curr_dd_ptr) 0 = (G.get f).getD j 0 := by
  rw [h.cptr, hj, h.regs f, Int.toNat_natCast]

theorem DAt.store {F P s k G} (h : DAt F P s k G) (f : Fld) (v : Int) (j : Nat) (hj : F.curr_dd_ptr = j) (G' : Regs) (hG : G' = G.upd f j v) :
    DAt F P (dstore s f v) (k + 1) G' := by
  subst hG
  have hc : s.curr_dd_ptr = j := h.cptr.trans hj
  have hp := h.p
  have hr := h.regs
  have hf := h.fr
  refine ⟨?_, ?_, ?_⟩
  · cases f <;> simp only [dstore, Fld.set, HTPstart_ddlist.St.set_p, HTPstart_ddlist.St.set_ddcurr_ddlist_tag, HTPstart_ddlist.St.set_ddcurr_ddlist_ref,
      HTPstart_ddlist.St.set_ddcurr_ddlist_offset, HTPstart_ddlist.St.set_ddcurr_ddlist_length, hp] <;> omega
  · intro f'
    have h1 := hr .tag; have h2 := hr .ref; have h3 := hr .off; have h4 := hr .len
    simp only [Fld.get, Regs.get] at h1 h2 h3 h4
    cases f <;> cases f' <;>
      simp [dstore, Fld.set, Fld.get, Regs.get, Regs.upd, HTPstart_ddlist.St.set_p, HTPstart_ddlist.St.set_ddcurr_ddlist_tag, HTPstart_ddlist.St.set_ddcurr_ddlist_ref,
        HTPstart_ddlist.St.set_ddcurr_ddlist_offset, HTPstart_ddlist.St.set_ddcurr_ddlist_length, hc, h1, h2, h3, h4]
  · rw [← hf]
    cases f <;> rfl

theorem d16a_at {F P s k G} (h : DAt F P s k G) (f : Fld) (j : Nat) (hj : F.curr_dd_ptr = j) (hjl : j < (G.get f).length) (b : Nat)
    (hb : F.tbuf.getD (P + k) 0 = (b : Int)) (hb2 : b < 256) (hr : P + k < F.tbuf.length)
    (G' : Regs) (hG : G' = G.upd f j ((b * 256 : Nat) : Int)) : DAt F P (d16a s f) (k + 1) G' := by
  rw [d16a_eq s f b (h.cur.trans hb) hb2 (h.pb hr) (h.cb f j hj hjl)]
  exact h.store f _ j hj G' hG

theorem d16b_at {F P s k G} (h : DAt F P s k G) (f : Fld) (j : Nat) (hj : F.curr_dd_ptr = j) (hjl : j < (G.get f).length) (b x : Nat)
    (hb : F.tbuf.getD (P + k) 0 = (b : Int)) (hb2 : b < 256) (hr : P + k < F.tbuf.length) (hx : (G.get f).getD j 0 = (x : Int)) (hx2 : x < 65536)
    (G' : Regs) (hG : G' = G.upd f j ((x ||| b : Nat) : Int)) : DAt F P (d16b s f) (k + 1) G' := by
  rw [d16b_eq s f b x (h.cur.trans hb) hb2 (h.pb hr) (h.cb f j hj hjl) ((h.cell f j hj).trans hx) hx2]
  exact h.store f _ j hj G' hG

theorem d32a_at {F P s k G} (h : DAt F P s k G) (f : Fld) (j : Nat) (hj : F.curr_dd_ptr = j) (hjl : j < (G.get f).length) (b : Nat)
    (hb : F.tbuf.getD (P + k) 0 = (b : Int)) (hb2 : b < 256) (hr : P + k < F.tbuf.length)
    (G' : Regs) (hG : G' = G.upd f j (sgn (b * 16777216))) : DAt F P (d32a s f) (k + 1) G' := by
  rw [d32a_eq s f b (h.cur.trans hb) hb2 (h.pb hr) (h.cb f j hj hjl)]
  exact h.store f _ j hj G' hG

theorem d32b_at {F P s k G} (h : DAt F P s k G) (f : Fld) (sh : Int) (hsh : sh = 8 ∨ sh = 16) (j : Nat) (hj : F.curr_dd_ptr = j) (hjl : j < (G.get f).length)
    (b U : Nat) (hb : F.tbuf.getD (P + k) 0 = (b : Int)) (hb2 : b < 256) (hr : P + k < F.tbuf.length) (hx : (G.get f).getD j 0 = sgn U)
    (hU : U < 4294967296) (G' : Regs) (hG : G' = G.upd f j (sgn (U ||| b * 2 ^ Int.toNat sh))) :
    DAt F P (d32b s f sh) (k + 1) G' := by
  rw [d32b_eq s f sh hsh b U (h.cur.trans hb) hb2 (h.pb hr) (h.cb f j hj hjl) ((h.cell f j hj).trans hx) hU]
  exact h.store f _ j hj G' hG

theorem d32c_at {F P s k G} (h : DAt F P s k G) (f : Fld) (j : Nat) (hj : F.curr_dd_ptr = j) (hjl : j < (G.get f).length)
    (b U : Nat) (hb : F.tbuf.getD (P + k) 0 = (b : Int)) (hb2 : b < 256) (hr : P + k < F.tbuf.length) (hx : (G.get f).getD j 0 = sgn U)
    (hU : U < 4294967296) (G' : Regs) (hG : G' = G.upd f j (sgn (U ||| b))) : DAt F P (d32c s f) (k + 1) G' := by
  rw [d32c_eq s f b U (h.cur.trans hb) hb2 (h.pb hr) (h.cb f j hj hjl) ((h.cell f j hj).trans hx) hU]
  exact h.store f _ j hj G' hG

/-! ### one pass -/

/-- the state after one pass that started at descriptor `j`, byte `P`, when `DDDECODE` delivered `tg rf of ln` -/
def dnext (s : DSt) (j P : Nat) (tg rf of ln : Int) : DSt :=
  { s with ddcurr_ddlist_tag := s.ddcurr_ddlist_tag.set j tg, ddcurr_ddlist_ref := s.ddcurr_ddlist_ref.set j rf,
           ddcurr_ddlist_offset := s.ddcurr_ddlist_offset.set j of, ddcurr_ddlist_length := s.ddcurr_ddlist_length.set j ln,
           p := ((P + 12 : Nat) : Int),
           file_rec_maxref := if s.file_rec_maxref < rf then rf else s.file_rec_maxref,
           end_off := if of + ln > s.end_off then of + ln else s.end_off,
           ret_value := if tg ≠ 1 ∧ s.HTIregister_tag_ref_ret.getD j 0 = -1 then -1 else s.ret_value,
           gto := decide (tg ≠ 1 ∧ s.HTIregister_tag_ref_ret.getD j 0 = -1),
           i := if tg ≠ 1 ∧ s.HTIregister_tag_ref_ret.getD j 0 = -1 then s.i else s.i + 1,
           curr_dd_ptr := if tg ≠ 1 ∧ s.HTIregister_tag_ref_ret.getD j 0 = -1 then s.curr_dd_ptr else s.curr_dd_ptr + 1 }

theorem dtail_eq (S : DSt) (j : Nat) (hj : S.curr_dd_ptr = j) (hg : S.gto = false)
    (h1 : j < S.ddcurr_ddlist_tag.length) (h2 : j < S.ddcurr_ddlist_ref.length) (h3 : j < S.ddcurr_ddlist_offset.length)
    (h4 : j < S.ddcurr_ddlist_length.length) :
    dtail S = { S with
      file_rec_maxref := if S.file_rec_maxref < S.ddcurr_ddlist_ref.getD j 0 then S.ddcurr_ddlist_ref.getD j 0 else S.file_rec_maxref,
      end_off := if S.ddcurr_ddlist_offset.getD j 0 + S.ddcurr_ddlist_length.getD j 0 > S.end_off then S.ddcurr_ddlist_offset.getD j 0 + S.ddcurr_ddlist_length.getD j 0 else S.end_off,
      ret_value := if S.ddcurr_ddlist_tag.getD j 0 ≠ 1 ∧ S.HTIregister_tag_ref_ret.getD j 0 = -1 then -1 else S.ret_value,
      gto := decide (S.ddcurr_ddlist_tag.getD j 0 ≠ 1 ∧ S.HTIregister_tag_ref_ret.getD j 0 = -1),
      i := if S.ddcurr_ddlist_tag.getD j 0 ≠ 1 ∧ S.HTIregister_tag_ref_ret.getD j 0 = -1 then S.i else S.i + 1,
      curr_dd_ptr := if S.ddcurr_ddlist_tag.getD j 0 ≠ 1 ∧ S.HTIregister_tag_ref_ret.getD j 0 = -1 then S.curr_dd_ptr else S.curr_dd_ptr + 1 } := by
  have c1 : (0 : Int) ≤ (j : Int) ∧ (j : Int) < S.ddcurr_ddlist_tag.length := by omega
  have c2 : (0 : Int) ≤ (j : Int) ∧ (j : Int) < S.ddcurr_ddlist_ref.length := by omega
  have c3 : (0 : Int) ≤ (j : Int) ∧ (j : Int) < S.ddcurr_ddlist_offset.length := by omega
  have c4 : (0 : Int) ≤ (j : Int) ∧ (j : Int) < S.ddcurr_ddlist_length.length := by omega
  by_cases q1 : S.file_rec_maxref < S.ddcurr_ddlist_ref.getD j 0 <;>
  by_cases q2 : S.ddcurr_ddlist_offset.getD j 0 + S.ddcurr_ddlist_length.getD j 0 > S.end_off <;>
  by_cases q3 : S.ddcurr_ddlist_tag.getD j 0 = 1 <;>
  by_cases q4 : S.HTIregister_tag_ref_ret.getD j 0 = -1 <;>
  simp only [dtail, HTPstart_ddlist.chk, HTPstart_ddlist.St.set_file_rec_maxref, HTPstart_ddlist.St.set_end_off, HTPstart_ddlist.St.set_ret_value,
    HTPstart_ddlist.St.set_gto, HTPstart_ddlist.St.set_i, HTPstart_ddlist.St.set_curr_dd_ptr, hj, hg, Int.toNat_natCast, c1, c2, c3, c4, q1, q2, q3, q4,
    and_self, decide_true, decide_false, Bool.not_true, Bool.or_false, if_true, if_false, ne_eq, not_true_eq_false, not_false_eq_true, false_and, true_and,
    and_false, and_true, Bool.false_eq_true]

theorem eq_of_dframe {a b : DSt} (h : dframe a = dframe b) (hp : a.p = b.p) (h1 : a.ddcurr_ddlist_tag = b.ddcurr_ddlist_tag)
    (h2 : a.ddcurr_ddlist_ref = b.ddcurr_ddlist_ref) (h3 : a.ddcurr_ddlist_offset = b.ddcurr_ddlist_offset)
    (h4 : a.ddcurr_ddlist_length = b.ddcurr_ddlist_length) : a = b := by
  cases a; cases b; simp_all [dframe]

/-- one pass through the loop on the twelve bytes `bs 0 … bs 11` under `p` -/
theorem dec_iter (fuel : Nat) (s : DSt) (j P : Nat) (bs : Nat → Nat) (hj : s.curr_dd_ptr = j) (hP : s.p = P) (hg : s.gto = false)
    (h1 : j < s.ddcurr_ddlist_tag.length) (h2 : j < s.ddcurr_ddlist_ref.length) (h3 : j < s.ddcurr_ddlist_offset.length)
    (h4 : j < s.ddcurr_ddlist_length.length) (hb : P + 12 ≤ s.tbuf.length)
    (hbs : ∀ k, k < 12 → s.tbuf.getD (P + k) 0 = (bs k : Int) ∧ bs k < 256) :
    HTPstart_ddlist.loop0.body fuel s =
      dnext s j P ((bs 0 * 256 + bs 1 : Nat) : Int) ((bs 2 * 256 + bs 3 : Nat) : Int)
        (sgn (bs 4 * 16777216 + bs 5 * 65536 + bs 6 * 256 + bs 7)) (sgn (bs 8 * 16777216 + bs 9 * 65536 + bs 10 * 256 + bs 11)) := by
  have b0 := hbs 0 (by omega); have b1 := hbs 1 (by omega); have b2 := hbs 2 (by omega); have b3 := hbs 3 (by omega)
  have b4 := hbs 4 (by omega); have b5 := hbs 5 (by omega); have b6 := hbs 6 (by omega); have b7 := hbs 7 (by omega)
  have b8 := hbs 8 (by omega); have b9 := hbs 9 (by omega); have b10 := hbs 10 (by omega); have b11 := hbs 11 (by omega)
  have e8 : (2 : Nat) ^ Int.toNat 8 = 256 := by decide
  have e16 : (2 : Nat) ^ Int.toNat 16 = 65536 := by decide
  have a0 := DAt.start s P hP
  have l1 : ∀ v : Int, j < (s.ddcurr_ddlist_tag.set j v).length := fun v => by simpa using h1
  have l2 : ∀ v : Int, j < (s.ddcurr_ddlist_ref.set j v).length := fun v => by simpa using h2
  have l3 : ∀ v : Int, j < (s.ddcurr_ddlist_offset.set j v).length := fun v => by simpa using h3
  have l4 : ∀ v : Int, j < (s.ddcurr_ddlist_length.set j v).length := fun v => by simpa using h4
  have a1 := d16a_at a0 .tag j hj h1 (bs 0) b0.1 b0.2 (by omega)
    ⟨s.ddcurr_ddlist_tag.set j ((bs 0 * 256 : Nat) : Int), s.ddcurr_ddlist_ref, s.ddcurr_ddlist_offset, s.ddcurr_ddlist_length⟩ rfl
  have a2 := d16b_at a1 .tag j hj (l1 _) (bs 1) (bs 0 * 256) b1.1 b1.2 (by omega) (getD_set_self _ _ _ _ h1) (by omega)
    ⟨s.ddcurr_ddlist_tag.set j ((bs 0 * 256 ||| bs 1 : Nat) : Int), s.ddcurr_ddlist_ref, s.ddcurr_ddlist_offset, s.ddcurr_ddlist_length⟩
    (by simp only [Regs.upd, List.set_set])
  have a3 := d16a_at a2 .ref j hj h2 (bs 2) b2.1 b2.2 (by omega)
    ⟨s.ddcurr_ddlist_tag.set j ((bs 0 * 256 ||| bs 1 : Nat) : Int), s.ddcurr_ddlist_ref.set j ((bs 2 * 256 : Nat) : Int), s.ddcurr_ddlist_offset, s.ddcurr_ddlist_length⟩ rfl
  have a4 := d16b_at a3 .ref j hj (l2 _) (bs 3) (bs 2 * 256) b3.1 b3.2 (by omega) (getD_set_self _ _ _ _ h2) (by omega)
    ⟨s.ddcurr_ddlist_tag.set j ((bs 0 * 256 ||| bs 1 : Nat) : Int), s.ddcurr_ddlist_ref.set j ((bs 2 * 256 ||| bs 3 : Nat) : Int), s.ddcurr_ddlist_offset, s.ddcurr_ddlist_length⟩
    (by simp only [Regs.upd, List.set_set])
  have a5 := d32a_at a4 .off j hj h3 (bs 4) b4.1 b4.2 (by omega)
    ⟨s.ddcurr_ddlist_tag.set j ((bs 0 * 256 ||| bs 1 : Nat) : Int), s.ddcurr_ddlist_ref.set j ((bs 2 * 256 ||| bs 3 : Nat) : Int),
     s.ddcurr_ddlist_offset.set j (sgn (bs 4 * 16777216)), s.ddcurr_ddlist_length⟩ rfl
  have a6 := d32b_at a5 .off 16 (Or.inr rfl) j hj (l3 _) (bs 5) (bs 4 * 16777216) b5.1 b5.2 (by omega) (getD_set_self _ _ _ _ h3) (by omega)
    ⟨s.ddcurr_ddlist_tag.set j ((bs 0 * 256 ||| bs 1 : Nat) : Int), s.ddcurr_ddlist_ref.set j ((bs 2 * 256 ||| bs 3 : Nat) : Int),
     s.ddcurr_ddlist_offset.set j (sgn (bs 4 * 16777216 ||| bs 5 * 2 ^ Int.toNat 16)), s.ddcurr_ddlist_length⟩ (by simp only [Regs.upd, List.set_set])
  have u6 : bs 4 * 16777216 ||| bs 5 * 2 ^ Int.toNat 16 < 4294967296 := by rw [e16]; exact or_lt _ _ 32 (by omega) (by omega)
  have a7 := d32b_at a6 .off 8 (Or.inl rfl) j hj (l3 _) (bs 6) _ b6.1 b6.2 (by omega) (getD_set_self _ _ _ _ h3) u6
    ⟨s.ddcurr_ddlist_tag.set j ((bs 0 * 256 ||| bs 1 : Nat) : Int), s.ddcurr_ddlist_ref.set j ((bs 2 * 256 ||| bs 3 : Nat) : Int),
     s.ddcurr_ddlist_offset.set j (sgn ((bs 4 * 16777216 ||| bs 5 * 2 ^ Int.toNat 16) ||| bs 6 * 2 ^ Int.toNat 8)), s.ddcurr_ddlist_length⟩
    (by simp only [Regs.upd, List.set_set])
  have u7 : (bs 4 * 16777216 ||| bs 5 * 2 ^ Int.toNat 16) ||| bs 6 * 2 ^ Int.toNat 8 < 4294967296 := by
    rw [e8]; exact or_lt _ _ 32 u6 (by omega)
  have a8 := d32c_at a7 .off j hj (l3 _) (bs 7) _ b7.1 b7.2 (by omega) (getD_set_self _ _ _ _ h3) u7
    ⟨s.ddcurr_ddlist_tag.set j ((bs 0 * 256 ||| bs 1 : Nat) : Int), s.ddcurr_ddlist_ref.set j ((bs 2 * 256 ||| bs 3 : Nat) : Int),
     s.ddcurr_ddlist_offset.set j (sgn (((bs 4 * 16777216 ||| bs 5 * 2 ^ Int.toNat 16) ||| bs 6 * 2 ^ Int.toNat 8) ||| bs 7)), s.ddcurr_ddlist_length⟩
    (by simp only [Regs.upd, List.set_set])
  have a9 := d32a_at a8 .len j hj h4 (bs 8) b8.1 b8.2 (by omega)
    ⟨s.ddcurr_ddlist_tag.set j ((bs 0 * 256 ||| bs 1 : Nat) : Int), s.ddcurr_ddlist_ref.set j ((bs 2 * 256 ||| bs 3 : Nat) : Int),
     s.ddcurr_ddlist_offset.set j (sgn (((bs 4 * 16777216 ||| bs 5 * 2 ^ Int.toNat 16) ||| bs 6 * 2 ^ Int.toNat 8) ||| bs 7)),
     s.ddcurr_ddlist_length.set j (sgn (bs 8 * 16777216))⟩ rfl
  have a10 := d32b_at a9 .len 16 (Or.inr rfl) j hj (l4 _) (bs 9) (bs 8 * 16777216) b9.1 b9.2 (by omega) (getD_set_self _ _ _ _ h4) (by omega)
    ⟨s.ddcurr_ddlist_tag.set j ((bs 0 * 256 ||| bs 1 : Nat) : Int), s.ddcurr_ddlist_ref.set j ((bs 2 * 256 ||| bs 3 : Nat) : Int),
     s.ddcurr_ddlist_offset.set j (sgn (((bs 4 * 16777216 ||| bs 5 * 2 ^ Int.toNat 16) ||| bs 6 * 2 ^ Int.toNat 8) ||| bs 7)),
     s.ddcurr_ddlist_length.set j (sgn (bs 8 * 16777216 ||| bs 9 * 2 ^ Int.toNat 16))⟩ (by simp only [Regs.upd, List.set_set])
  have v6 : bs 8 * 16777216 ||| bs 9 * 2 ^ Int.toNat 16 < 4294967296 := by rw [e16]; exact or_lt _ _ 32 (by omega) (by omega)
  have a11 := d32b_at a10 .len 8 (Or.inl rfl) j hj (l4 _) (bs 10) _ b10.1 b10.2 (by omega) (getD_set_self _ _ _ _ h4) v6
    ⟨s.ddcurr_ddlist_tag.set j ((bs 0 * 256 ||| bs 1 : Nat) : Int), s.ddcurr_ddlist_ref.set j ((bs 2 * 256 ||| bs 3 : Nat) : Int),
     s.ddcurr_ddlist_offset.set j (sgn (((bs 4 * 16777216 ||| bs 5 * 2 ^ Int.toNat 16) ||| bs 6 * 2 ^ Int.toNat 8) ||| bs 7)),
     s.ddcurr_ddlist_length.set j (sgn ((bs 8 * 16777216 ||| bs 9 * 2 ^ Int.toNat 16) ||| bs 10 * 2 ^ Int.toNat 8))⟩ (by simp only [Regs.upd, List.set_set])
  have v7 : (bs 8 * 16777216 ||| bs 9 * 2 ^ Int.toNat 16) ||| bs 10 * 2 ^ Int.toNat 8 < 4294967296 := by
    rw [e8]; exact or_lt _ _ 32 v6 (by omega)
  have a12 := d32c_at a11 .len j hj (l4 _) (bs 11) _ b11.1 b11.2 (by omega) (getD_set_self _ _ _ _ h4) v7
    ⟨s.ddcurr_ddlist_tag.set j ((bs 0 * 256 ||| bs 1 : Nat) : Int), s.ddcurr_ddlist_ref.set j ((bs 2 * 256 ||| bs 3 : Nat) : Int),
     s.ddcurr_ddlist_offset.set j (sgn (((bs 4 * 16777216 ||| bs 5 * 2 ^ Int.toNat 16) ||| bs 6 * 2 ^ Int.toNat 8) ||| bs 7)),
     s.ddcurr_ddlist_length.set j (sgn (((bs 8 * 16777216 ||| bs 9 * 2 ^ Int.toNat 16) ||| bs 10 * 2 ^ Int.toNat 8) ||| bs 11))⟩
    (by simp only [Regs.upd, List.set_set])
  rw [dec_body]
  have key : ∀ S : DSt, DAt s P S 12 ⟨s.ddcurr_ddlist_tag.set j ((bs 0 * 256 ||| bs 1 : Nat) : Int), s.ddcurr_ddlist_ref.set j ((bs 2 * 256 ||| bs 3 : Nat) : Int),
     s.ddcurr_ddlist_offset.set j (sgn (((bs 4 * 16777216 ||| bs 5 * 2 ^ Int.toNat 16) ||| bs 6 * 2 ^ Int.toNat 8) ||| bs 7)),
     s.ddcurr_ddlist_length.set j (sgn (((bs 8 * 16777216 ||| bs 9 * 2 ^ Int.toNat 16) ||| bs 10 * 2 ^ Int.toNat 8) ||| bs 11))⟩ → dtail S =
      dnext s j P ((bs 0 * 256 + bs 1 : Nat) : Int) ((bs 2 * 256 + bs 3 : Nat) : Int)
        (sgn (bs 4 * 16777216 + bs 5 * 65536 + bs 6 * 256 + bs 7)) (sgn (bs 8 * 16777216 + bs 9 * 65536 + bs 10 * 256 + bs 11)) := by
    intro S aS
    have r1 := aS.regs .tag; have r2 := aS.regs .ref; have r3 := aS.regs .off; have r4 := aS.regs .len
    simp only [Regs.get, Fld.get] at r1 r2 r3 r4
    rw [e16, e8, or32 _ _ _ _ b5.2 b6.2 b7.2] at r3
    rw [e16, e8, or32 _ _ _ _ b9.2 b10.2 b11.2] at r4
    rw [or16 _ _ b1.2] at r1
    rw [or16 _ _ b3.2] at r2
    have hc : S.curr_dd_ptr = j := aS.cptr.trans hj
    rw [dtail_eq S j hc ((aS.get (·.gto) (fun _ => rfl)).trans hg) (by rw [r1]; simpa using h1) (by rw [r2]; simpa using h2)
      (by rw [r3]; simpa using h3) (by rw [r4]; simpa using h4)]
    have g1 : S.ddcurr_ddlist_tag.getD j 0 = ((bs 0 * 256 + bs 1 : Nat) : Int) := by rw [r1]; exact getD_set_self _ _ _ _ h1
    have g2 : S.ddcurr_ddlist_ref.getD j 0 = ((bs 2 * 256 + bs 3 : Nat) : Int) := by rw [r2]; exact getD_set_self _ _ _ _ h2
    have g3 : S.ddcurr_ddlist_offset.getD j 0 = sgn (bs 4 * 16777216 + bs 5 * 65536 + bs 6 * 256 + bs 7) := by rw [r3]; exact getD_set_self _ _ _ _ h3
    have g4 : S.ddcurr_ddlist_length.getD j 0 = sgn (bs 8 * 16777216 + bs 9 * 65536 + bs 10 * 256 + bs 11) := by rw [r4]; exact getD_set_self _ _ _ _ h4
    rw [g1, g2, g3, g4]
    have f1 : S.file_rec_maxref = s.file_rec_maxref := aS.get (·.file_rec_maxref) (fun _ => rfl)
    have f2 : S.end_off = s.end_off := aS.get (·.end_off) (fun _ => rfl)
    have f3 : S.HTIregister_tag_ref_ret = s.HTIregister_tag_ref_ret := aS.get (·.HTIregister_tag_ref_ret) (fun _ => rfl)
    have f4 : S.ret_value = s.ret_value := aS.get (·.ret_value) (fun _ => rfl)
    have f5 : S.i = s.i := aS.get (·.i) (fun _ => rfl)
    have f6 : S.curr_dd_ptr = s.curr_dd_ptr := aS.cptr
    apply eq_of_dframe
    · have hf := aS.fr
      simp only [dframe, dnext, f1, f2, f3, f4, f5, f6] at hf ⊢
      cases S; cases s; simp_all
    · simpa [dnext] using aS.p
    · simpa [dnext] using r1
    · simpa [dnext] using r2
    · simpa [dnext] using r3
    · simpa [dnext] using r4
  exact key _ a12

/-! ### the loop -/

/-- descriptor `j` of the byte string `bs` as `DDDECODE` delivers it -/
def cdd (bs : Nat → Nat) (j : Nat) : DD.DD :=
  ⟨bs (12 * j) * 256 + bs (12 * j + 1), bs (12 * j + 2) * 256 + bs (12 * j + 3),
   sgn (bs (12 * j + 4) * 16777216 + bs (12 * j + 5) * 65536 + bs (12 * j + 6) * 256 + bs (12 * j + 7)),
   sgn (bs (12 * j + 8) * 16777216 + bs (12 * j + 9) * 65536 + bs (12 * j + 10) * 256 + bs (12 * j + 11))⟩

/-- the loop as a function on states: `m` descriptors left, the next one is `j` -/
def decLoop (bs : Nat → Nat) : Nat → Nat → DSt → DSt
  | 0, _, s => s
  | m + 1, j, s =>
    if s.gto = true then s
    else decLoop bs m (j + 1) (dnext s j (12 * j) ((cdd bs j).tag : Int) ((cdd bs j).ref : Int) (cdd bs j).off (cdd bs j).len)

theorem dec_loop_stop (fuel : Nat) (s : DSt) (h : s.gto = true) : HTPstart_ddlist.loop0 fuel s = s := by
  cases fuel <;> simp [HTPstart_ddlist.loop0, h]

theorem decLoop_stop (bs : Nat → Nat) (m j : Nat) (s : DSt) (h : s.gto = true) : decLoop bs m j s = s := by
  cases m <;> simp [decLoop, h]

theorem dec_loop (bs : Nat → Nat) (n : Nat) : ∀ (m fuel j : Nat) (s : DSt), m ≤ fuel → j + m = n →
    s.curr_dd_ptr = j → s.i = j → s.ndds = n → s.p = ((12 * j : Nat) : Int) → s.gto = false →
    n ≤ s.ddcurr_ddlist_tag.length → n ≤ s.ddcurr_ddlist_ref.length → n ≤ s.ddcurr_ddlist_offset.length → n ≤ s.ddcurr_ddlist_length.length →
    12 * n ≤ s.tbuf.length → (∀ k, k < 12 * n → s.tbuf.getD k 0 = (bs k : Int) ∧ bs k < 256) →
    HTPstart_ddlist.loop0 fuel s = decLoop bs m j s := by
  intro m
  induction m with
  | zero =>
    intro fuel j s _ hjm hc hi hn hp hg _ _ _ _ _ _
    have hcnd : ¬ (s.i < s.ndds) := by rw [hi, hn]; omega
    cases fuel <;> simp only [HTPstart_ddlist.loop0, hcnd, false_and, if_false, decLoop]
  | succ m ih =>
    intro fuel j s hf hjm hc hi hn hp hg l1 l2 l3 l4 hb hbs
    obtain ⟨fuel, rfl⟩ : ∃ f, fuel = f + 1 := ⟨fuel - 1, by omega⟩
    have hcnd : s.i < s.ndds := by rw [hi, hn]; omega
    have e : HTPstart_ddlist.loop0 (fuel + 1) s = HTPstart_ddlist.loop0 fuel (HTPstart_ddlist.loop0.body (fuel + 1) s) := by
      rw [HTPstart_ddlist.loop0]; simp [hcnd, hg]
    have it := dec_iter (fuel + 1) s j (12 * j) (fun k => bs (12 * j + k)) hc hp hg (by omega) (by omega) (by omega) (by omega) (by omega)
      (fun k hk => hbs (12 * j + k) (by omega))
    rw [e, it]
    simp only [decLoop, hg, Bool.false_eq_true, if_false, cdd, Nat.add_zero]
    generalize hS : dnext s j (12 * j) _ _ _ _ = S
    by_cases hfail : S.gto = true
    · rw [dec_loop_stop _ _ hfail, decLoop_stop _ _ _ _ hfail]
    · have hfail' : S.gto = false := by cases h : S.gto <;> simp_all
      have hd : ¬ (((bs (12 * j) * 256 + bs (12 * j + 1) : Nat) : Int) ≠ 1 ∧ s.HTIregister_tag_ref_ret.getD j 0 = -1) := by
        intro hh
        rw [← hS] at hfail
        simp only [dnext, hh, ne_eq, not_false_eq_true, and_self, decide_true, not_true_eq_false] at hfail
      refine ih fuel (j + 1) S (by omega) (by omega) ?_ ?_ ?_ ?_ hfail' ?_ ?_ ?_ ?_ ?_ ?_
      · rw [← hS]; simp only [dnext, hd, if_false, hc]; omega
      · rw [← hS]; simp only [dnext, hd, if_false, hi]; omega
      · rw [← hS]; exact hn
      · rw [← hS]; simp only [dnext]; omega
      · rw [← hS]; simpa [dnext] using l1
      · rw [← hS]; simpa [dnext] using l2
      · rw [← hS]; simpa [dnext] using l3
      · rw [← hS]; simpa [dnext] using l4
      · rw [← hS]; exact hb
      · rw [← hS]; exact hbs

/-! ### what the loop computes, on lists -/

/-- number of descriptors processed successfully (registered, or `DFTAG_NULL`) before the first failing registration -/
def ngoodL : List DD.DD → List Int → Nat
  | [], _ => 0
  | d :: ds, ans => if (d.tag : Int) ≠ 1 ∧ ans.headD 0 = -1 then 0 else 1 + ngoodL ds ans.tail
/-- some registration failed -/
def failedL : List DD.DD → List Int → Bool
  | [], _ => false
  | d :: ds, ans => if (d.tag : Int) ≠ 1 ∧ ans.headD 0 = -1 then true else failedL ds ans.tail
/-- number of descriptors stored into the arrays: the good ones and the one whose registration failed -/
def nstoredL (ds : List DD.DD) (ans : List Int) : Nat := ngoodL ds ans + (if failedL ds ans then 1 else 0)

/-- `vals` written over `T` from index `j` -/
def splice (T : List Int) (j : Nat) (vals : List Int) : List Int := T.take j ++ vals ++ T.drop (j + vals.length)

theorem splice_nil (T : List Int) (j : Nat) : splice T j [] = T := by simp [splice]

theorem splice_set (T : List Int) (j : Nat) (v : Int) (vals : List Int) (h : j < T.length) :
    splice (T.set j v) (j + 1) vals = splice T j (v :: vals) := by
  unfold splice
  rw [take_set_succ T j v h, List.drop_set_of_lt (by omega : j < j + 1 + vals.length)]
  have e : j + 1 + vals.length = j + (vals.length + 1) := by omega
  simp only [List.length_cons, List.append_assoc, List.cons_append, List.nil_append, e]

theorem splice_one (T : List Int) (j : Nat) (v : Int) (h : j < T.length) : splice T j [v] = T.set j v := by
  rw [← splice_set T j v [] h, splice_nil]

/-- `maxref` after the descriptors `ds` -/
def maxrefC (m : Int) (ds : List DD.DD) : Int := ds.foldl (fun a d => if a < (d.ref : Int) then (d.ref : Int) else a) m
/-- `end_off` after the descriptors `ds` -/
def endoffC (e : Int) (ds : List DD.DD) : Int := ds.foldl (fun a d => if d.off + d.len > a then d.off + d.len else a) e

/-- the state the loop leaves, in terms of the descriptors `D` it had to process and the answers `A` of `HTIregister_tag_ref` for them -/
def decOut (s : DSt) (j : Nat) (D : List DD.DD) (A : List Int) : DSt :=
  { s with ddcurr_ddlist_tag := splice s.ddcurr_ddlist_tag j ((D.take (nstoredL D A)).map fun d => (d.tag : Int)),
           ddcurr_ddlist_ref := splice s.ddcurr_ddlist_ref j ((D.take (nstoredL D A)).map fun d => (d.ref : Int)),
           ddcurr_ddlist_offset := splice s.ddcurr_ddlist_offset j ((D.take (nstoredL D A)).map fun d => d.off),
           ddcurr_ddlist_length := splice s.ddcurr_ddlist_length j ((D.take (nstoredL D A)).map fun d => d.len),
           p := ((12 * (j + nstoredL D A) : Nat) : Int),
           file_rec_maxref := maxrefC s.file_rec_maxref (D.take (nstoredL D A)),
           end_off := endoffC s.end_off (D.take (nstoredL D A)),
           ret_value := if failedL D A then -1 else s.ret_value,
           gto := failedL D A,
           i := s.i + (ngoodL D A : Nat),
           curr_dd_ptr := s.curr_dd_ptr + (ngoodL D A : Nat) }

/-- everything the loop does not change -/
def dframe2 (s : DSt) : DSt :=
  { s with p := 0, ddcurr_ddlist_tag := [], ddcurr_ddlist_ref := [], ddcurr_ddlist_offset := [], ddcurr_ddlist_length := [],
           file_rec_maxref := 0, end_off := 0, ret_value := 0, gto := false, i := 0, curr_dd_ptr := 0 }

theorem eq_of_dframe2 {a b : DSt} (h : dframe2 a = dframe2 b) (h1 : a.ddcurr_ddlist_tag = b.ddcurr_ddlist_tag)
    (h2 : a.ddcurr_ddlist_ref = b.ddcurr_ddlist_ref) (h3 : a.ddcurr_ddlist_offset = b.ddcurr_ddlist_offset)
    (h4 : a.ddcurr_ddlist_length = b.ddcurr_ddlist_length) (h5 : a.p = b.p) (h6 : a.file_rec_maxref = b.file_rec_maxref)
    (h7 : a.end_off = b.end_off) (h8 : a.ret_value = b.ret_value) (h9 : a.gto = b.gto) (h10 : a.i = b.i)
    (h11 : a.curr_dd_ptr = b.curr_dd_ptr) : a = b := by
  cases a; cases b; simp_all [dframe2]

theorem decOut_nil (s : DSt) (j : Nat) (A : List Int) (hg : s.gto = false) (hp : s.p = ((12 * j : Nat) : Int)) : decOut s j [] A = s := by
  apply eq_of_dframe2
  · rfl
  · simp only [decOut, List.take_nil, List.map_nil, splice_nil]
  · simp only [decOut, List.take_nil, List.map_nil, splice_nil]
  · simp only [decOut, List.take_nil, List.map_nil, splice_nil]
  · simp only [decOut, List.take_nil, List.map_nil, splice_nil]
  · simp only [decOut, nstoredL, ngoodL, failedL, Bool.false_eq_true, if_false, Nat.add_zero, hp]
  · simp only [decOut, List.take_nil, maxrefC, List.foldl_nil]
  · simp only [decOut, List.take_nil, endoffC, List.foldl_nil]
  · simp only [decOut, failedL, Bool.false_eq_true, if_false]
  · simp only [decOut, failedL, hg]
  · simp only [decOut, ngoodL]; omega
  · simp only [decOut, ngoodL]; omega

theorem decOut_cons_fail (s : DSt) (j : Nat) (d : DD.DD) (D : List DD.DD) (A : List Int) (hA : A.headD 0 = s.HTIregister_tag_ref_ret.getD j 0)
    (hf : (d.tag : Int) ≠ 1 ∧ s.HTIregister_tag_ref_ret.getD j 0 = -1)
    (l1 : j < s.ddcurr_ddlist_tag.length) (l2 : j < s.ddcurr_ddlist_ref.length) (l3 : j < s.ddcurr_ddlist_offset.length)
    (l4 : j < s.ddcurr_ddlist_length.length) :
    dnext s j (12 * j) (d.tag : Int) (d.ref : Int) d.off d.len = decOut s j (d :: D) A := by
  have hf' : (d.tag : Int) ≠ 1 ∧ A.headD 0 = -1 := by rw [hA]; exact hf
  have e1 : ngoodL (d :: D) A = 0 := by simp only [ngoodL, hf', ne_eq, not_false_eq_true, and_self, if_true]
  have e2 : failedL (d :: D) A = true := by simp only [failedL, hf', ne_eq, not_false_eq_true, and_self, if_true]
  have e3 : nstoredL (d :: D) A = 1 := by simp only [nstoredL, e1, e2, if_true]
  apply eq_of_dframe2
  · rfl
  · simp only [decOut, dnext, e3, List.take_succ_cons, List.take_zero, List.map_cons, List.map_nil, splice_one _ _ _ l1]
  · simp only [decOut, dnext, e3, List.take_succ_cons, List.take_zero, List.map_cons, List.map_nil, splice_one _ _ _ l2]
  · simp only [decOut, dnext, e3, List.take_succ_cons, List.take_zero, List.map_cons, List.map_nil, splice_one _ _ _ l3]
  · simp only [decOut, dnext, e3, List.take_succ_cons, List.take_zero, List.map_cons, List.map_nil, splice_one _ _ _ l4]
  · simp only [decOut, dnext, e3]; omega
  · simp only [decOut, dnext, e3, List.take_succ_cons, List.take_zero, maxrefC, List.foldl_cons, List.foldl_nil]
  · simp only [decOut, dnext, e3, List.take_succ_cons, List.take_zero, endoffC, List.foldl_cons, List.foldl_nil]
  · simp only [decOut, dnext, e2, hf, ne_eq, not_false_eq_true, and_self, if_true]
  · simp only [decOut, dnext, e2, hf, ne_eq, not_false_eq_true, and_self, decide_true]
  · simp only [decOut, dnext, e1, hf, ne_eq, not_false_eq_true, and_self, if_true]; omega
  · simp only [decOut, dnext, e1, hf, ne_eq, not_false_eq_true, and_self, if_true]; omega

theorem decOut_cons_ok (s : DSt) (j : Nat) (d : DD.DD) (D : List DD.DD) (A : List Int) (hA : A.headD 0 = s.HTIregister_tag_ref_ret.getD j 0)
    (hf : ¬ ((d.tag : Int) ≠ 1 ∧ s.HTIregister_tag_ref_ret.getD j 0 = -1))
    (l1 : j < s.ddcurr_ddlist_tag.length) (l2 : j < s.ddcurr_ddlist_ref.length) (l3 : j < s.ddcurr_ddlist_offset.length)
    (l4 : j < s.ddcurr_ddlist_length.length) :
    decOut (dnext s j (12 * j) (d.tag : Int) (d.ref : Int) d.off d.len) (j + 1) D A.tail = decOut s j (d :: D) A := by
  have hf' : ¬ ((d.tag : Int) ≠ 1 ∧ A.headD 0 = -1) := by rw [hA]; exact hf
  have e1 : ngoodL (d :: D) A = ngoodL D A.tail + 1 := by simp only [ngoodL, hf', if_false]; omega
  have e2 : failedL (d :: D) A = failedL D A.tail := by simp only [failedL, hf', if_false]
  have e3 : nstoredL (d :: D) A = nstoredL D A.tail + 1 := by simp only [nstoredL, e1, e2]; omega
  apply eq_of_dframe2
  · rfl
  · simp only [decOut, dnext, e3, List.take_succ_cons, List.map_cons, splice_set _ _ _ _ l1]
  · simp only [decOut, dnext, e3, List.take_succ_cons, List.map_cons, splice_set _ _ _ _ l2]
  · simp only [decOut, dnext, e3, List.take_succ_cons, List.map_cons, splice_set _ _ _ _ l3]
  · simp only [decOut, dnext, e3, List.take_succ_cons, List.map_cons, splice_set _ _ _ _ l4]
  · simp only [decOut, dnext, e3]; congr 1; omega
  · simp only [decOut, dnext, e3, List.take_succ_cons, maxrefC, List.foldl_cons]
  · simp only [decOut, dnext, e3, List.take_succ_cons, endoffC, List.foldl_cons]
  · simp only [decOut, dnext, e2, hf, if_false]
  · simp only [decOut, dnext, e2]
  · simp only [decOut, dnext, e1, hf, if_false]; omega
  · simp only [decOut, dnext, e1, hf, if_false]; omega

theorem decLoop_spec (bs : Nat → Nat) : ∀ (m j : Nat) (s : DSt), s.gto = false → s.p = ((12 * j : Nat) : Int) →
    j + m ≤ s.ddcurr_ddlist_tag.length → j + m ≤ s.ddcurr_ddlist_ref.length → j + m ≤ s.ddcurr_ddlist_offset.length →
    j + m ≤ s.ddcurr_ddlist_length.length →
    decLoop bs m j s = decOut s j ((List.range' j m).map (cdd bs)) (s.HTIregister_tag_ref_ret.drop j) := by
  intro m
  induction m with
  | zero =>
    intro j s hg hp _ _ _ _
    rw [List.range'_zero, List.map_nil, decOut_nil s j _ hg hp]; rfl
  | succ m ih =>
    intro j s hg hp l1 l2 l3 l4
    have hA : (s.HTIregister_tag_ref_ret.drop j).headD 0 = s.HTIregister_tag_ref_ret.getD j 0 := by
      simp [List.headD_eq_head?_getD, List.head?_drop, List.getD_eq_getElem?_getD]
    have hT : (s.HTIregister_tag_ref_ret.drop j).tail = s.HTIregister_tag_ref_ret.drop (j + 1) := by simp [List.tail_drop]
    rw [List.range'_succ, List.map_cons]
    have un : decLoop bs (m + 1) j s = decLoop bs m (j + 1) (dnext s j (12 * j) ((cdd bs j).tag : Int) ((cdd bs j).ref : Int) (cdd bs j).off (cdd bs j).len) := by
      simp only [decLoop, hg, Bool.false_eq_true, if_false]
    rw [un]
    by_cases hfail : ((cdd bs j).tag : Int) ≠ 1 ∧ s.HTIregister_tag_ref_ret.getD j 0 = -1
    · rw [← decOut_cons_fail s j (cdd bs j) _ _ hA hfail (by omega) (by omega) (by omega) (by omega)]
      apply decLoop_stop
      simp only [dnext, hfail, ne_eq, not_false_eq_true, and_self, decide_true]
    · rw [← decOut_cons_ok s j (cdd bs j) _ _ hA hfail (by omega) (by omega) (by omega) (by omega), hT]
      have hr : (dnext s j (12 * j) ((cdd bs j).tag : Int) ((cdd bs j).ref : Int) (cdd bs j).off (cdd bs j).len).HTIregister_tag_ref_ret
          = s.HTIregister_tag_ref_ret := rfl
      rw [← hr]
      apply ih
      · simp only [dnext, hfail, decide_false]
      · simp only [dnext]; omega
      · simp only [dnext, List.length_set]; omega
      · simp only [dnext, List.length_set]; omega
      · simp only [dnext, List.length_set]; omega
      · simp only [dnext, List.length_set]; omega

/-! ### the whole fragment -/

/-- the state in which the loop starts when `HP_read` delivered the `12 * n` bytes of the block -/
def decStart (T R O L : List Int) (maxref : Int) (tbuf : List Int) (n : Nat) (ret_value end_off : Int) (io_in : List Int) (pos : Nat)
    (tbl : List Int) : DSt :=
  { ddcurr_ddlist_tag := T, ddcurr_ddlist_ref := R, ddcurr_ddlist_offset := O, ddcurr_ddlist_length := L, file_rec_maxref := maxref,
    tbuf := (io_in.drop pos).take (12 * n) ++ tbuf.drop (12 * n), ndds := n, ret_value := ret_value, end_off := end_off, io_in := io_in,
    io_pos := ((pos + 12 * n : Nat) : Int), HTIregister_tag_ref_ret := tbl, curr_dd_ptr := 0, p := 0, i := 0 }

theorem HTPstart_ddlist_run (T R O L : List Int) (maxref : Int) (tbuf : List Int) (n fuel : Nat) (ret_value end_off : Int) (io_in : List Int)
    (pos : Nat) (tbl : List Int) (bs : Nat → Nat) (hf : n ≤ fuel)
    (l1 : n ≤ T.length) (l2 : n ≤ R.length) (l3 : n ≤ O.length) (l4 : n ≤ L.length) (hb : 12 * n ≤ tbuf.length)
    (hin : pos + 12 * n ≤ io_in.length) (hbs : ∀ k, k < 12 * n → io_in.getD (pos + k) 0 = (bs k : Int) ∧ bs k < 256) :
    HTPstart_ddlist fuel T R O L maxref tbuf n ret_value end_off io_in pos tbl =
      decOut (decStart T R O L maxref tbuf n ret_value end_off io_in pos tbl) 0 ((List.range' 0 n).map (cdd bs)) tbl := by
  have c1 : (0 : Int) ≤ (n : Int) * 12 := by omega
  have c2 : (0 : Int) ≤ 0 ∧ 0 + (n : Int) * 12 ≤ (tbuf.length : Int) := by omega
  have c3 : (pos : Int) + (n : Int) * 12 ≤ (io_in.length : Int) := by omega
  have c4 : ¬ ((n : Int) * 12 = -1) := by omega
  have t1 : Int.toNat ((n : Int) * 12) = 12 * n := by omega
  have t2 : Int.toNat (0 + (n : Int) * 12) = 12 * n := by omega
  have t3 : (pos : Int) + (n : Int) * 12 = ((pos + 12 * n : Nat) : Int) := by omega
  have c3' : ((pos + 12 * n : Nat) : Int) ≤ (io_in.length : Int) := by omega
  have c5 : ((0 : Int) ≤ 0 ∧ True) := ⟨Int.le_refl 0, trivial⟩
  have hlen : ((io_in.drop pos).take (12 * n)).length = 12 * n := by simp only [List.length_take, List.length_drop]; omega
  have S0 : HTPstart_ddlist fuel T R O L maxref tbuf n ret_value end_off io_in pos tbl =
      HTPstart_ddlist.loop0 fuel (decStart T R O L maxref tbuf n ret_value end_off io_in pos tbl) := by
    simp only [HTPstart_ddlist, HTPstart_ddlist.chk, HTPstart_ddlist.St.set_curr_dd_ptr, HTPstart_ddlist.St.set_tbuf, HTPstart_ddlist.St.set_io_pos,
      HTPstart_ddlist.St.set_ret_value, HTPstart_ddlist.St.set_gto, HTPstart_ddlist.St.set_p, HTPstart_ddlist.St.set_i, c1, c2, c3, c4, t1, t2, t3, c3', c5,
      and_self, decide_true, decide_false, Bool.not_true, Bool.or_false, if_true, if_false, Bool.false_eq_true, Int.toNat_zero, List.take_zero,
      List.nil_append, Int.toNat_natCast, decStart]
    simp
  rw [S0]
  have hget : ∀ k, k < 12 * n → (decStart T R O L maxref tbuf n ret_value end_off io_in pos tbl).tbuf.getD k 0 = (bs k : Int) ∧ bs k < 256 := by
    intro k hk
    have := hbs k hk
    refine ⟨?_, this.2⟩
    rw [← this.1]
    simp only [decStart, List.getD_eq_getElem?_getD]
    rw [List.getElem?_append_left (by rw [hlen]; exact hk), List.getElem?_take_of_lt hk, List.getElem?_drop]
  rw [dec_loop bs n n fuel 0 _ hf (by omega) rfl rfl rfl rfl rfl l1 l2 l3 l4
    (by simp only [decStart, List.length_append, hlen, List.length_drop]; omega) hget]
  rw [decLoop_spec bs n 0 _ rfl rfl (by simpa [decStart] using l1) (by simpa [decStart] using l2) (by simpa [decStart] using l3)
    (by simpa [decStart] using l4)]
  rfl

/-- `HP_read` fails (the stream is too short): `HGOTO_ERROR(DFE_READERROR, FAIL)`, nothing else happened -/
theorem HTPstart_ddlist_short (T R O L : List Int) (maxref : Int) (tbuf : List Int) (n fuel : Nat) (ret_value end_off : Int) (io_in : List Int)
    (pos : Nat) (tbl : List Int) (hb : 12 * n ≤ tbuf.length) (hin : io_in.length < pos + 12 * n) :
    HTPstart_ddlist fuel T R O L maxref tbuf n ret_value end_off io_in pos tbl =
      { ddcurr_ddlist_tag := T, ddcurr_ddlist_ref := R, ddcurr_ddlist_offset := O, ddcurr_ddlist_length := L, file_rec_maxref := maxref,
        tbuf := tbuf, ndds := n, ret_value := -1, end_off := end_off, io_in := io_in, io_pos := pos, HTIregister_tag_ref_ret := tbl, gto := true } := by
  have c1 : (0 : Int) ≤ (n : Int) * 12 := by omega
  have c2 : (0 : Int) ≤ 0 ∧ 0 + (n : Int) * 12 ≤ (tbuf.length : Int) := by omega
  have c3 : ¬ ((pos : Int) + (n : Int) * 12 ≤ (io_in.length : Int)) := by omega
  simp only [HTPstart_ddlist, HTPstart_ddlist.chk, HTPstart_ddlist.St.set_curr_dd_ptr, HTPstart_ddlist.St.set_tbuf, HTPstart_ddlist.St.set_io_pos,
    HTPstart_ddlist.St.set_ret_value, HTPstart_ddlist.St.set_gto, HTPstart_ddlist.St.set_p, HTPstart_ddlist.St.set_i, c1, c2, c3,
    and_self, decide_true, Bool.not_true, Bool.or_false, if_true, if_false, Bool.false_eq_true]
  rfl

/-! ### the model's `decodeDD` / `decodeDDs` / `registerAll` -/

theorem take12 (B : List Nat) (p : Nat) (h : p + 12 ≤ B.length) :
    (B.drop p).take 12 = [B.getD p 0, B.getD (p + 1) 0, B.getD (p + 2) 0, B.getD (p + 3) 0, B.getD (p + 4) 0, B.getD (p + 5) 0,
      B.getD (p + 6) 0, B.getD (p + 7) 0, B.getD (p + 8) 0, B.getD (p + 9) 0, B.getD (p + 10) 0, B.getD (p + 11) 0] := by
  simp only [List.getD_eq_getElem?_getD]
  rw [drop_cons_getD B p (by omega), drop_cons_getD B (p + 1) (by omega), drop_cons_getD B (p + 2) (by omega), drop_cons_getD B (p + 3) (by omega),
    drop_cons_getD B (p + 4) (by omega), drop_cons_getD B (p + 5) (by omega), drop_cons_getD B (p + 6) (by omega), drop_cons_getD B (p + 7) (by omega),
    drop_cons_getD B (p + 8) (by omega), drop_cons_getD B (p + 9) (by omega), drop_cons_getD B (p + 10) (by omega), drop_cons_getD B (p + 11) (by omega)]
  simp only [List.take_succ_cons, List.take_zero]

/-- what the C loop stores for descriptor `j` is the model's `decodeDD` of its twelve bytes -/
theorem cdd_model (B : List Nat) (j : Nat) (h : 12 * j + 12 ≤ B.length) :
    cdd (fun k => B.getD k 0) j = DD.decodeDD ((B.drop (12 * j)).take 12) := by
  rw [take12 B (12 * j) h]
  simp only [cdd, DD.decodeDD, DD.rd16, DD.rd32, List.drop_succ_cons, List.drop_zero, sgn_eq_ofU32]

theorem map_cdd_model (B : List Nat) : ∀ (n j : Nat), 12 * (j + n) ≤ B.length →
    (List.range' j n).map (cdd (fun k => B.getD k 0)) = DD.decodeDDs n (B.drop (12 * j))
  | 0, _, _ => rfl
  | n + 1, j, h => by
    rw [List.range'_succ, List.map_cons, DD.decodeDDs, cdd_model B j (by omega), map_cdd_model B n (j + 1) (by omega), List.drop_drop]
    congr 2

/-- the answers `HTIregister_tag_ref` gives for the descriptors `ds` when the tag tree is `tags` at the start: `FAIL` for the first live
    descriptor whose tag/ref is already registered (answers after that are never asked for) -/
def regTable : DD.Tags → List DD.DD → List Int
  | _, [] => []
  | tags, d :: ds =>
    if d.tag = H4.Gen.Hdf.DFTAG_NULL then 0 :: regTable tags ds
    else match DD.register tags d with
      | none => [-1]
      | some tags' => 0 :: regTable tags' ds

/-- with those answers the C loop fails exactly when the model's `registerAll` does -/
theorem failedL_regTable : ∀ (ds : List DD.DD) (tags : DD.Tags), failedL ds (regTable tags ds) = (DD.registerAll tags ds).isNone
  | [], _ => rfl
  | d :: ds, tags => by
    have hN : H4.Gen.Hdf.DFTAG_NULL = 1 := rfl
    by_cases hd : d.tag = 1
    · have : ¬ ((d.tag : Int) ≠ 1 ∧ (regTable tags (d :: ds)).headD 0 = -1) := by rw [hd]; simp
      simp only [failedL, this, if_false, DD.registerAll, hN, hd, if_true, regTable, List.tail_cons]
      exact failedL_regTable ds tags
    · have hd' : (d.tag : Int) ≠ 1 := by omega
      cases hr : DD.register tags d with
      | none => simp [failedL, regTable, DD.registerAll, hN, hd, hd', hr]
      | some t' =>
        simp only [failedL, regTable, DD.registerAll, hN, hd, hr, if_false, List.headD_cons, List.tail_cons, hd', ne_eq, not_false_eq_true, true_and]
        rw [if_neg (by decide)]
        exact failedL_regTable ds t'

/-- … and when `registerAll` succeeds, every descriptor is processed -/
theorem ngoodL_regTable : ∀ (ds : List DD.DD) (tags : DD.Tags), (DD.registerAll tags ds).isSome → ngoodL ds (regTable tags ds) = ds.length
  | [], _, _ => rfl
  | d :: ds, tags, h => by
    have hN : H4.Gen.Hdf.DFTAG_NULL = 1 := rfl
    by_cases hd : d.tag = 1
    · have : ¬ ((d.tag : Int) ≠ 1 ∧ (regTable tags (d :: ds)).headD 0 = -1) := by rw [hd]; simp
      simp only [DD.registerAll, hN, hd, if_true] at h
      have e : regTable tags (d :: ds) = 0 :: regTable tags ds := by simp only [regTable, hN, hd, if_true]
      rw [e] at this
      simp only [ngoodL, e, this, if_false, List.tail_cons, List.length_cons, ngoodL_regTable ds tags h]; omega
    · cases hr : DD.register tags d with
      | none => simp [DD.registerAll, hN, hd, hr] at h
      | some t' =>
        simp only [DD.registerAll, hN, hd, hr, if_false] at h
        simp only [ngoodL, regTable, hN, hd, hr, if_false, List.headD_cons, List.tail_cons, List.length_cons]
        rw [if_neg (by simp), ngoodL_regTable ds t' h]; omega

/-- the model's block round trip: `decodeDDs` undoes the concatenation of `encodeDD` -/
theorem decodeDDs_encode : ∀ (ds : List DD.DD), (∀ d ∈ ds, DD.DDRange d) → DD.decodeDDs ds.length (ds.flatMap DD.encodeDD) = ds
  | [], _ => rfl
  | d :: ds, h => by
    have hl : (DD.encodeDD d).length = 12 := DD.encodeDD_length d
    simp only [List.length_cons, List.flatMap_cons, DD.decodeDDs]
    rw [List.take_left' hl, List.drop_left' hl, DD.decode_encode_dd d (h d (by simp)), decodeDDs_encode ds (fun x hx => h x (by simp [hx]))]

theorem flatMap_encode_length (ds : List DD.DD) : (ds.flatMap DD.encodeDD).length = 12 * ds.length := by
  induction ds with
  | nil => rfl
  | cons d ds ih => simp only [List.flatMap_cons, List.length_append, DD.encodeDD_length, ih, List.length_cons]; omega

theorem encodeDD_bytes (d : DD.DD) : ∀ x ∈ DD.encodeDD d, x < 256 := by
  intro x hx
  simp only [DD.encodeDD, DD.be16, DD.be32, List.mem_append, List.mem_cons, List.not_mem_nil, or_false] at hx
  rcases hx with ((h | h) | (h | h)) | (h | h | h | h) | (h | h | h | h) <;> omega

theorem flatMap_encode_bytes (ds : List DD.DD) : ∀ x ∈ ds.flatMap DD.encodeDD, x < 256 := by
  intro x hx
  obtain ⟨d, _, hd⟩ := List.mem_flatMap.mp hx
  exact encodeDD_bytes d x hd

/-- `maxref` in the C's `uint16` arithmetic is the model's fold over `Nat` -/
theorem maxrefC_nat : ∀ (ds : List DD.DD) (m : Nat),
    maxrefC (m : Int) ds = ((ds.foldl (fun m d => if m < d.ref then d.ref else m) m : Nat) : Int)
  | [], _ => rfl
  | d :: ds, m => by
    simp only [maxrefC, List.foldl_cons]
    by_cases h : m < d.ref
    · have : ((m : Int) < (d.ref : Int)) := by omega
      simp only [h, this, if_true]; exact maxrefC_nat ds d.ref
    · have : ¬ ((m : Int) < (d.ref : Int)) := by omega
      simp only [h, this, if_false]; exact maxrefC_nat ds m

/-- the first unused ref the search loop finds -/
theorem tblFree_succ (tbl : List Int) (k m : Nat) :
    tblFree tbl k (m + 1) = if tbl.getD k 0 = -1 then some k else tblFree tbl (k + 1) m := by
  unfold tblFree
  rw [List.range'_succ, List.find?_cons]
  by_cases hq : tbl.getD k 0 = -1
  · rw [if_pos hq]; simp only [hq, decide_true]
  · rw [if_neg hq]; simp only [hq, decide_false]

end H4.Lemmas.C12Fn2
