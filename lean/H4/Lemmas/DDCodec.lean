import H4.DD
/-! # The byte layout of a descriptor (`DDENCODE` / `DDDECODE`) and of a block header -/
namespace H4.DD

/-- what fits the on-disk fields: uint16 tag and ref, int32 offset and length -/
def DDRange (d : DD) : Prop :=
  d.tag < 65536 ∧ d.ref < 65536 ∧ -2147483648 ≤ d.off ∧ d.off < 2147483648 ∧ -2147483648 ≤ d.len ∧ d.len < 2147483648

theorem ofU32_toU32 {i : Int} (h1 : -2147483648 ≤ i) (h2 : i < 2147483648) : ofU32 (toU32 i) = i := by
  unfold ofU32 toU32
  split <;> omega

theorem toU32_lt (i : Int) : toU32 i < 4294967296 := by unfold toU32; omega

theorem encodeDD_length (d : DD) : (encodeDD d).length = 12 := by simp [encodeDD, be16, be32]

theorem decode_encode_dd (d : DD) (h : DDRange d) : decodeDD (encodeDD d) = d := by
  obtain ⟨h1, h2, h3, h4, h5, h6⟩ := h
  have a := ofU32_toU32 h3 h4
  have b := ofU32_toU32 h5 h6
  have ua := toU32_lt d.off
  have ub := toU32_lt d.len
  cases d with
  | mk tag ref off len =>
    simp only [encodeDD, decodeDD, be16, be32, rd16, rd32, List.cons_append, List.nil_append, List.drop_succ_cons,
      List.drop_zero, DD.mk.injEq] at *
    refine ⟨by omega, by omega, ?_, ?_⟩
    · have : toU32 off / 16777216 % 256 * 16777216 + toU32 off / 65536 % 256 * 65536 + toU32 off / 256 % 256 * 256 + toU32 off % 256 = toU32 off := by omega
      rw [this]; exact a
    · have : toU32 len / 16777216 % 256 * 16777216 + toU32 len / 65536 % 256 * 65536 + toU32 len / 256 % 256 * 256 + toU32 len % 256 = toU32 len := by omega
      rw [this]; exact b

/-- header: `ndds` (int16, positive) and `nextoffset` (int32, non-negative) -/
theorem decode_encode_hdr {ndds next : Nat} (h1 : ndds < 32768) (h2 : next < 2147483648) :
    decodeHdr (encodeHdr ndds next) = (ndds, next) := by
  simp only [encodeHdr, decodeHdr, be16, be32, rd16, rd32, List.cons_append, List.nil_append, List.drop_succ_cons,
    List.drop_zero, Prod.mk.injEq]
  constructor <;> omega

end H4.DD
