import H4.Lemmas.C09Fn
/-! Assembly for `H4.Props.C09Fn`: the values the two `switch` statements of `GRIil_convert` store (with their `size_t` / `unsigned`
    reductions) are the model's `setup`, and the whole `else` branch is the model's fold of `iBody`. -/
set_option linter.unusedSimpArgs false
set_option linter.unusedVariables false
namespace H4.Lemmas.C09Fn
open H4 H4.Interlace H4.Gen.Fn.Mfgr H4.C2L

/-- What the C arithmetic needs from the sizes of one call: `dims[]` are non-negative `int32`, at least one component of at least one byte,
    the image size fits in 31 bits, and the two `(int32)` casts of the pixel increment `pixel_size = comp_size * ncomp` and of the line
    increment `(ncomp - 1) * dims[XDIM] * comp_size` are value preserving (the translator treats a conversion to `int32` as the identity:
    these two hypotheses are exactly what makes that true; for `W, H ≥ 1` they follow from the bound on the image size). -/
structure Fits (W H ncomp csz : Nat) : Prop where
  hW : W < 2147483648
  hH : H < 2147483648
  hnc : 1 ≤ ncomp
  hcs : 1 ≤ csz
  hN : W * H * ncomp * csz < 2147483648
  hpix : csz * ncomp < 2147483648
  hline : (ncomp - 1) * W * csz < 2147483648

instance (W H ncomp csz : Nat) : Decidable (Fits W H ncomp csz) :=
  decidable_of_iff (W < 2147483648 ∧ H < 2147483648 ∧ 1 ≤ ncomp ∧ 1 ≤ csz ∧ W * H * ncomp * csz < 2147483648 ∧ csz * ncomp < 2147483648 ∧
      (ncomp - 1) * W * csz < 2147483648)
    ⟨fun ⟨a, b, c, d, e, f, g⟩ => ⟨a, b, c, d, e, f, g⟩, fun ⟨a, b, c, d, e, f, g⟩ => ⟨a, b, c, d, e, f, g⟩⟩

theorem fits_of_pos {W H ncomp csz : Nat} (hW : 1 ≤ W) (hH : 1 ≤ H) (hnc : 1 ≤ ncomp) (hcs : 1 ≤ csz) (hN : W * H * ncomp * csz < 2147483648) :
    Fits W H ncomp csz := by
  have a1 : W ≤ W * H * ncomp * csz := by
    calc W = W * 1 * 1 * 1 := by simp
      _ ≤ W * H * ncomp * csz := Nat.mul_le_mul (Nat.mul_le_mul (Nat.mul_le_mul_left _ hH) hnc) hcs
  have a2 : H ≤ W * H * ncomp * csz := by
    calc H = 1 * H * 1 * 1 := by simp
      _ ≤ W * H * ncomp * csz := Nat.mul_le_mul (Nat.mul_le_mul (Nat.mul_le_mul_right _ hW) hnc) hcs
  have a3 : csz * ncomp ≤ W * H * ncomp * csz := by
    calc csz * ncomp = 1 * 1 * ncomp * csz := by ring
      _ ≤ W * H * ncomp * csz := Nat.mul_le_mul_right _ (Nat.mul_le_mul_right _ (Nat.mul_le_mul hW hH))
  have a4 : (ncomp - 1) * W * csz ≤ W * H * ncomp * csz := by
    calc (ncomp - 1) * W * csz = W * 1 * (ncomp - 1) * csz := by ring
      _ ≤ W * H * ncomp * csz := Nat.mul_le_mul_right _ (Nat.mul_le_mul (Nat.mul_le_mul_left _ hH) (by omega))
  exact ⟨by omega, by omega, hnc, hcs, hN, by omega, by omega⟩

/-- the constant part of the translated state for one call -/
def fixOf (a b : Il) (W H ncomp csz : Nat) (nt : Int) (inOff outOff : Nat) : Fix :=
  ⟨inOff, (a.code : Nat), outOff, (b.code : Nat), ncomp, nt, csz, ((csz * ncomp : Nat) : Int), csz, ints [W, H]⟩

theorem mul_emod64 (x y : Nat) (hx : x < 18446744073709551616) (hy : y < 18446744073709551616) (hxy : x * y < 18446744073709551616) :
    (((x : Int) % 18446744073709551616) * ((y : Int) % 18446744073709551616)) % 18446744073709551616 = ((x * y : Nat) : Int) := by
  rw [emod64_nat x hx, emod64_nat y hy, ← Int.natCast_mul, emod64_nat _ hxy]

theorem mul_emod64' (x y : Nat) (hx : x < 18446744073709551616) (hxy : x * y < 18446744073709551616) :
    (((x : Int) % 18446744073709551616) * (y : Int)) % 18446744073709551616 = ((x * y : Nat) : Int) := by
  rw [emod64_nat x hx, ← Int.natCast_mul, emod64_nat _ hxy]

theorem mul_emod64'' (x y : Nat) (hxy : x * y < 18446744073709551616) :
    ((x : Int) * (y : Int)) % 18446744073709551616 = ((x * y : Nat) : Int) := by
  rw [← Int.natCast_mul, emod64_nat _ hxy]

section
variable {W H ncomp csz : Nat} (hf : Fits W H ncomp csz) (a b : Il) (nt : Int) (inOff outOff : Nat)
include hf

theorem fits_bounds {n : Nat} (hn : n < ncomp) :
    n * csz < 2147483648 ∧ n * W < 2147483648 ∧ n * W * csz < 2147483648 ∧ n * H < 4611686018427387904 ∧ n * H * W < 2147483648 ∧
      n * H * W * csz < 2147483648 ∧ ncomp < 2147483648 ∧ csz < 2147483648 := by
  obtain ⟨hW, hH, hnc, hcs, hN, hpix, hline⟩ := hf
  have b1 : n * csz ≤ csz * ncomp := by rw [Nat.mul_comm]; exact Nat.mul_le_mul_left _ (by omega)
  have b3 : n * W * csz ≤ (ncomp - 1) * W * csz := Nat.mul_le_mul_right _ (Nat.mul_le_mul_right _ (by omega))
  have b2 : n * W ≤ n * W * csz := Nat.le_mul_of_pos_right _ hcs
  have b7 : ncomp ≤ csz * ncomp := Nat.le_mul_of_pos_left _ hcs
  have b8 : csz ≤ csz * ncomp := Nat.le_mul_of_pos_right _ hnc
  have b6 : n * H * W * csz ≤ W * H * ncomp * csz := by
    calc n * H * W * csz = W * H * n * csz := by ring
      _ ≤ W * H * ncomp * csz := Nat.mul_le_mul_right _ (Nat.mul_le_mul_left _ (by omega))
  have b5 : n * H * W ≤ n * H * W * csz := Nat.le_mul_of_pos_right _ hcs
  have b4 : n * H < 2147483648 * 2147483648 := Nat.mul_lt_mul'' (by omega) hH
  exact ⟨by omega, by omega, by omega, by omega, by omega, by omega, by omega, by omega⟩

theorem vBase_eq (off : Nat) (il : Il) {n : Nat} (hn : n < ncomp) :
    vBase (fixOf a b W H ncomp csz nt inOff outOff) (off : Int) il.code n = ((off + baseOf il W H csz n : Nat) : Int) := by
  obtain ⟨c1, c2, c3, c4, c5, c6, c7, c8⟩ := fits_bounds hf hn
  have hW := hf.hW
  have hH := hf.hH
  cases il with
  | pixel =>
    show (off : Int) + (((n : Int) % 18446744073709551616) * (csz : Int)) % 18446744073709551616 = _
    rw [mul_emod64' n csz (by omega) (by omega)]; simp [baseOf]
  | line =>
    show (off : Int) + ((((n : Int) % 18446744073709551616) * (((ints [W, H]).getD 0 0) % 18446744073709551616)) % 18446744073709551616 * (csz : Int))
      % 18446744073709551616 = _
    have : (ints [W, H]).getD 0 0 = (W : Int) := by simp
    rw [this, mul_emod64 n W (by omega) (by omega) (by omega), mul_emod64'' (n * W) csz (by omega)]; simp [baseOf]
  | component =>
    show (off : Int) + (((((n : Int) % 18446744073709551616) * (((ints [W, H]).getD 1 0) % 18446744073709551616)) % 18446744073709551616 *
      (((ints [W, H]).getD 0 0) % 18446744073709551616)) % 18446744073709551616 * (csz : Int)) % 18446744073709551616 = _
    have e0 : (ints [W, H]).getD 0 0 = (W : Int) := by simp
    have e1 : (ints [W, H]).getD 1 0 = (H : Int) := by simp
    rw [e0, e1, mul_emod64 n H (by omega) (by omega) (by omega), ← emod64_nat (n * H) (by omega),
      mul_emod64 (n * H) W (by omega) (by omega) (by omega), mul_emod64'' (n * H * W) csz (by omega)]; simp [baseOf]

omit hf in
theorem vPix_eq (il : Il) : vPix (fixOf a b W H ncomp csz nt inOff outOff) il.code = ((paOf il ncomp csz : Nat) : Int) := by
  cases il <;> simp [vPix, fixOf, paOf, Il.code, H4.Gen.Hdf.MFGR_INTERLACE_PIXEL, H4.Gen.Hdf.MFGR_INTERLACE_LINE, H4.Gen.Hdf.MFGR_INTERLACE_COMPONENT]

theorem vLine_eq (il : Il) : vLine (fixOf a b W H ncomp csz nt inOff outOff) il.code = ((laOf il W ncomp csz : Nat) : Int) := by
  have hW := hf.hW
  have hl := hf.hline
  have hnc := hf.hnc
  have hcs := hf.hcs
  cases il with
  | pixel => simp [vLine, laOf, Il.code, H4.Gen.Hdf.MFGR_INTERLACE_PIXEL]
  | component => simp [vLine, laOf, Il.code, H4.Gen.Hdf.MFGR_INTERLACE_COMPONENT]
  | line =>
    show ((((((ncomp : Int) - 1) % 18446744073709551616) * (((ints [W, H]).getD 0 0) % 18446744073709551616))) % 18446744073709551616 * (csz : Int))
      % 18446744073709551616 = _
    have e0 : (ints [W, H]).getD 0 0 = (W : Int) := by simp
    have e1 : (ncomp : Int) - 1 = ((ncomp - 1 : Nat) : Int) := by omega
    have b2 : (ncomp - 1) * W ≤ (ncomp - 1) * W * csz := Nat.le_mul_of_pos_right _ hcs
    have b7 : ncomp ≤ csz * ncomp := Nat.le_mul_of_pos_left _ hcs
    have hp := hf.hpix
    rw [e0, e1, mul_emod64 (ncomp - 1) W (by omega) (by omega) (by omega), mul_emod64'' ((ncomp - 1) * W) csz (by omega)]; simp [laOf]

end

theorem splice_self (m : List Byte) (off n : Nat) (h : off + n ≤ m.length) : splice m off n (slice m off n) = m := by
  apply List.ext_getElem?
  intro q
  rw [getElem?_splice (length_slice h) h, getElem?_slice]
  by_cases c : off ≤ q ∧ q < off + n
  · rw [if_pos c, if_pos (by omega)]; congr 1; omega
  · rw [if_neg c]

theorem slice_splice_same {m : List Byte} {off n : Nat} {o : List Byte} (ho : o.length = n) (hm : off + n ≤ m.length) :
    slice (splice m off n o) off n = o := by
  apply List.ext_getElem?
  intro q
  rw [getElem?_slice, getElem?_splice ho hm]
  by_cases c : q < n
  · rw [if_pos c, if_pos (by omega)]; congr 1; omega
  · rw [if_neg c, List.getElem?_eq_none (by omega)]

theorem loopsB_mkS (fuel : Nat) (c : Fix) (icp ocp ipa opa ila ola mem : List Int) (i j k : Int) :
    loopsB fuel (mkS c icp ocp ipa opa ila ola mem i j k) = GRIil_convert.loop6 fuel (mkS c icp ocp ipa opa ila ola mem 0 j k) := rfl

theorem code_ne {a b : Il} (h : a ≠ b) : ((a.code : Nat) : Int) ≠ ((b.code : Nat) : Int) := by
  cases a <;> cases b <;> simp_all [Il.code, H4.Gen.Hdf.MFGR_INTERLACE_PIXEL, H4.Gen.Hdf.MFGR_INTERLACE_LINE, H4.Gen.Hdf.MFGR_INTERLACE_COMPONENT]

theorem code_line (a : Il) : ((a.code : Nat) : Int) = 1 ↔ a = .line := by
  cases a <;> simp [Il.code, H4.Gen.Hdf.MFGR_INTERLACE_PIXEL, H4.Gen.Hdf.MFGR_INTERLACE_LINE, H4.Gen.Hdf.MFGR_INTERLACE_COMPONENT]

/-- the model's `convert` for two different interlaces, with `setup` in the closed form of `setup_eq` -/
theorem convert_ne_eq {a b : Il} (hab : a ≠ b) (W H ncomp csz : Nat) (inb outb : List Byte) :
    convert a b W H ncomp csz inb outb =
      ((List.range H).foldl (iBody inb W ncomp csz
          ⟨(List.range ncomp).map (baseOf a W H csz), cst ncomp (paOf a ncomp csz), cst ncomp (laOf a W ncomp csz)⟩
          ⟨(List.range ncomp).map (baseOf b W H csz), cst ncomp (paOf b ncomp csz), cst ncomp (laOf b W ncomp csz)⟩
          (decide (a = .line) || decide (b = .line)))
        (mkSt ncomp (baseOf a W H csz) (baseOf b W H csz) outb)).out := by
  unfold convert
  rw [if_neg hab]
  simp only [setup_eq]
  rfl

/-- **the `else` branch**: for two different interlaces the translated function ends in the state that holds the model's final loop state -/
theorem run_ne {W H ncomp csz : Nat} (hf : Fits W H ncomp csz) {a b : Il} (hab : a ≠ b) (nt : Int) (m : List Byte) (inOff outOff fuel : Nat)
    (hp : Placed m inOff outOff (W * H * ncomp * csz)) (hfuel : H + W + ncomp ≤ fuel) :
    ∃ j k : Int, GRIil_convert fuel inOff (bytes m) (a.code : Nat) outOff (b.code : Nat) (ints [W, H]) ncomp nt csz =
      finishRet (ofSt (fixOf a b W H ncomp csz nt inOff outOff) m inOff outOff (W * H * ncomp * csz)
        (cst ncomp (paOf a ncomp csz)) (cst ncomp (paOf b ncomp csz)) (cst ncomp (laOf a W ncomp csz)) (cst ncomp (laOf b W ncomp csz))
        ((List.range H).foldl (iBody (slice m inOff (W * H * ncomp * csz)) W ncomp csz
            ⟨(List.range ncomp).map (baseOf a W H csz), cst ncomp (paOf a ncomp csz), cst ncomp (laOf a W ncomp csz)⟩
            ⟨(List.range ncomp).map (baseOf b W H csz), cst ncomp (paOf b ncomp csz), cst ncomp (laOf b W ncomp csz)⟩
            (decide (a = .line) || decide (b = .line)))
          (mkSt ncomp (baseOf a W H csz) (baseOf b W H csz) (slice m outOff (W * H * ncomp * csz)))) H j k) := by
  obtain ⟨_, _, _, _, _, _, hncomp, hcsz⟩ := fits_bounds hf (n := 0) (by have := hf.hnc; omega)
  have hout := hp.hout
  rw [entry, if_neg (code_ne hab), allocS_eq _ _ _ _ _ _ _ ncomp csz hncomp hcsz hf.hpix]
  have hc : (⟨inOff, (a.code : Nat), outOff, (b.code : Nat), ncomp, nt, csz, ((csz * ncomp : Nat) : Int), csz, ints [W, H]⟩ : Fix) =
      fixOf a b W H ncomp csz nt inOff outOff := rfl
  rw [hc, swIn_eq a _ ncomp rfl (by simp [fixOf]) rfl fuel (by omega) _ _ _ _ _ _ _ _ _ _ (by simp) (by simp) (by simp),
    swOut_eq b _ ncomp rfl (by simp [fixOf]) rfl fuel (by omega) _ _ _ _ _ _ _ _ _ _ (by simp) (by simp) (by simp), loopsB_mkS]
  have hst : mkS (fixOf a b W H ncomp csz nt inOff outOff)
        ((List.range ncomp).map (vBase (fixOf a b W H ncomp csz nt inOff outOff) (fixOf a b W H ncomp csz nt inOff outOff).inbuf a.code))
        ((List.range ncomp).map (vBase (fixOf a b W H ncomp csz nt inOff outOff) (fixOf a b W H ncomp csz nt inOff outOff).outbuf b.code))
        ((List.range ncomp).map fun _ => vPix (fixOf a b W H ncomp csz nt inOff outOff) a.code)
        ((List.range ncomp).map fun _ => vPix (fixOf a b W H ncomp csz nt inOff outOff) b.code)
        ((List.range ncomp).map fun _ => vLine (fixOf a b W H ncomp csz nt inOff outOff) a.code)
        ((List.range ncomp).map fun _ => vLine (fixOf a b W H ncomp csz nt inOff outOff) b.code) (bytes m) 0 0 0 =
      ofSt (fixOf a b W H ncomp csz nt inOff outOff) m inOff outOff (W * H * ncomp * csz)
        (cst ncomp (paOf a ncomp csz)) (cst ncomp (paOf b ncomp csz)) (cst ncomp (laOf a W ncomp csz)) (cst ncomp (laOf b W ncomp csz))
        (mkSt ncomp (baseOf a W H csz) (baseOf b W H csz) (slice m outOff (W * H * ncomp * csz))) (0 : Nat) 0 0 := by
    unfold ofSt
    have e1 : (List.range ncomp).map (vBase (fixOf a b W H ncomp csz nt inOff outOff) (fixOf a b W H ncomp csz nt inOff outOff).inbuf a.code) =
        ptrs inOff (mkSt ncomp (baseOf a W H csz) (baseOf b W H csz) (slice m outOff (W * H * ncomp * csz))).inp := by
      simp only [mkSt, ptrs, List.map_map]
      apply List.map_congr_left
      intro n hn
      exact vBase_eq hf a b nt inOff outOff inOff a (List.mem_range.mp hn)
    have e2 : (List.range ncomp).map (vBase (fixOf a b W H ncomp csz nt inOff outOff) (fixOf a b W H ncomp csz nt inOff outOff).outbuf b.code) =
        ptrs outOff (mkSt ncomp (baseOf a W H csz) (baseOf b W H csz) (slice m outOff (W * H * ncomp * csz))).outp := by
      simp only [mkSt, ptrs, List.map_map]
      apply List.map_congr_left
      intro n hn
      exact vBase_eq hf a b nt inOff outOff outOff b (List.mem_range.mp hn)
    rw [e1, e2, vPix_eq, vPix_eq, vLine_eq hf, vLine_eq hf]
    have e3 : ∀ v : Nat, ((List.range ncomp).map fun _ => (v : Int)) = ints (cst ncomp v) := by intro v; simp [ints]
    rw [e3, e3, e3, e3]
    show mkS _ _ _ _ _ _ _ (bytes m) _ _ _ = mkS _ _ _ _ _ _ _ (bytes (splice m outOff (W * H * ncomp * csz) (slice m outOff (W * H * ncomp * csz)))) _ _ _
    rw [splice_self m outOff _ hout]
    rfl
  rw [hst]
  have hw : ∀ il : Il, il = a ∨ il = b → il = .line → (decide (a = .line) || decide (b = .line)) = true := by
    intro il h1 h2; rcases h1 with h | h <;> simp [← h, h2]
  have hN : csz * (W * H * ncomp) = W * H * ncomp * csz := by ring
  obtain ⟨j, k, h6⟩ := loop6_spec (c := fixOf a b W H ncomp csz nt inOff outOff) hp W H ncomp csz
    (paOf a ncomp csz) (paOf b ncomp csz) (laOf a W ncomp csz) (laOf b W ncomp csz) (decide (a = .line) || decide (b = .line)) rfl rfl rfl
    (by
      show (((a.code : Nat) : Int) = 1 ∨ ((b.code : Nat) : Int) = 1) ↔ _
      rw [code_line, code_line]; simp)
    ((List.range ncomp).map (baseOf a W H csz)) ((List.range ncomp).map (baseOf b W H csz))
    H 0 fuel (baseOf a W H csz) (baseOf b W H csz) (slice m outOff (W * H * ncomp * csz)) 0 0 (by omega) (by omega) (length_slice hout)
    (by
      intro i' hi' j' hj' k' hk'
      rw [ptr_closed a W H ncomp csz _ (hw a (Or.inl rfl)) hk', ptr_closed b W H ncomp csz _ (hw b (Or.inr rfl)) hk']
      have ha := ilAddr_lt a (W := W) (H := H) (ncomp := ncomp) (p := ⟨j', i', k'⟩) ⟨hj', hi', hk'⟩
      have hb := ilAddr_lt b (W := W) (H := H) (ncomp := ncomp) (p := ⟨j', i', k'⟩) ⟨hj', hi', hk'⟩
      have ha' : csz * (ilAddr a W H ncomp ⟨j', i', k'⟩ + 1) ≤ csz * (W * H * ncomp) := Nat.mul_le_mul_left _ ha
      have hb' : csz * (ilAddr b W H ncomp ⟨j', i', k'⟩ + 1) ≤ csz * (W * H * ncomp) := Nat.mul_le_mul_left _ hb
      rw [Nat.mul_add, Nat.mul_one, hN] at ha' hb'
      exact ⟨ha', hb'⟩)
  exact ⟨j, k, by rw [h6]⟩

/-! ### `inil == outil`: one `memcpy` -/

theorem memcpyLen_chk (s : GRIil_convert.St) (p : Prop) [Decidable p] : memcpyLen (GRIil_convert.chk s p) = memcpyLen s := rfl

theorem memcpyLen_S1 {W H ncomp csz : Nat} (hf : Fits W H ncomp csz) (inbuf outbuf il nt : Int) (mem : List Int) :
    memcpyLen (S1 inbuf outbuf il il ncomp nt csz mem (ints [W, H])) = ((W * H * ncomp * csz : Nat) : Int) := by
  obtain ⟨_, _, _, _, _, _, hncomp, hcsz⟩ := fits_bounds hf (n := 0) (by have := hf.hnc; omega)
  have hW := hf.hW
  have hH := hf.hH
  have hp := hf.hpix
  have hN := hf.hN
  have e0 : (ints [W, H]).getD (Int.toNat 0) 0 = (W : Int) := by simp
  have e1 : (ints [W, H]).getD (Int.toNat 1) 0 = (H : Int) := by simp
  have p1 : (csz : Int) % 4294967296 = csz := emod32_nat _ (by omega)
  have p2 : (ncomp : Int) % 4294967296 = ncomp := emod32_nat _ (by omega)
  have p3 : ((csz : Int) * (ncomp : Int)) % 4294967296 = ((csz * ncomp : Nat) : Int) := by
    rw [← Int.natCast_mul]; exact emod32_nat _ (by omega)
  have hWH : W * H < 2147483648 * 2147483648 := Nat.mul_lt_mul'' hW hH
  have e : W * H * (csz * ncomp) = W * H * ncomp * csz := by ring
  show (((((W : Int) % 18446744073709551616) * ((H : Int) % 18446744073709551616)) % 18446744073709551616) *
      ((((csz : Int) % 4294967296) * ((ncomp : Int) % 4294967296)) % 4294967296)) % 18446744073709551616 = _
  rw [p1, p2, p3, mul_emod64 W H (by omega) (by omega) (by omega), mul_emod64'' (W * H) (csz * ncomp) (by rw [e]; omega), e]

/-- **the `inil == outil` path** (any code, valid or not): one `memcpy` of the whole image; undefined behaviour is exactly the overlap of
    the two placements; the memory afterwards holds the input placement's bytes at the output placement -/
theorem run_same {W H ncomp csz : Nat} (hf : Fits W H ncomp csz) (il nt : Int) (m : List Byte) (inOff outOff fuel : Nat)
    (hin : inOff + W * H * ncomp * csz ≤ m.length) (hout : outOff + W * H * ncomp * csz ≤ m.length) :
    let N := W * H * ncomp * csz
    let s := GRIil_convert fuel inOff (bytes m) il outOff il (ints [W, H]) ncomp nt csz
    s.ub = !decide (outOff + N ≤ inOff ∨ inOff + N ≤ outOff ∨ N = 0) ∧ s.oof = false ∧ s.ret = 0 ∧
      s.mem = bytes (splice m outOff N (slice m inOff N)) := by
  intro N s
  have hs : s = finishRet (memcpyB (S1 inOff outOff il il ncomp nt csz (bytes m) (ints [W, H]))) := by
    show GRIil_convert fuel inOff (bytes m) il outOff il (ints [W, H]) ncomp nt csz = _
    rw [entry, if_pos rfl]
  have hl := memcpyLen_S1 hf inOff outOff il nt (bytes m)
  have hN : ((W * H * ncomp * csz : Nat) : Int) = (N : Int) := rfl
  rw [hN] at hl
  have q1 : (inOff : Int) + N ≤ m.length := by omega
  have q2 : (outOff : Int) + N ≤ m.length := by omega
  have q3 : ((outOff : Int) + (N : Int)).toNat = outOff + N := by omega
  rw [hs]
  unfold memcpyB finishRet
  simp only [memcpyLen_chk, hl]
  refine ⟨?_, ?_, ?_, ?_⟩
  · simp [GRIil_convert.chk, S1, q1, q2]
    have i1 : ((outOff : Int) + N ≤ inOff) ↔ (outOff + N ≤ inOff) := by omega
    have i2 : ((inOff : Int) + N ≤ outOff) ↔ (inOff + N ≤ outOff) := by omega
    rw [decide_eq_decide.mpr i1, decide_eq_decide.mpr i2]
  · simp [GRIil_convert.chk, S1]
  · simp [GRIil_convert.chk, S1]
  · simp only [GRIil_convert.chk, S1, GRIil_convert.St.set_mem, GRIil_convert.St.set_gto, GRIil_convert.St.set_ret, q3, Int.toNat_natCast]
    rw [splice, bytes_append, bytes_append, bytes_take, bytes_drop, slice, bytes_take, bytes_drop]

/-! ### an invalid interlace code -/

theorem finish_fail (fuel : Nat) (c : Fix) (icp ocp ipa opa ila ola mem : List Int) (i j k : Int) :
    let s := finishRet (loopsB fuel (swOut fuel (gotoFail (mkS c icp ocp ipa opa ila ola mem i j k))))
    s.ub = false ∧ s.oof = false ∧ s.ret = -1 ∧ s.mem = mem := by
  simp [finishRet, loopsB, swOut, gotoFail, mkS]

theorem finish_fail' (fuel : Nat) (c : Fix) (icp ocp ipa opa ila ola mem : List Int) (i j k : Int) :
    let s := finishRet (loopsB fuel (gotoFail (mkS c icp ocp ipa opa ila ola mem i j k)))
    s.ub = false ∧ s.oof = false ∧ s.ret = -1 ∧ s.mem = mem := by
  simp [finishRet, loopsB, gotoFail, mkS]

/-- **`default:` of either `switch`**: two different codes of which one is not an interlace: `FAIL`, the memory is untouched -/
theorem run_bad (inbuf outbuf inil outil nt : Int) (mem dims : List Int) (ncomp csz fuel : Nat) (hne : inil ≠ outil)
    (hbad : ¬ (inil = 0 ∨ inil = 1 ∨ inil = 2) ∨ ¬ (outil = 0 ∨ outil = 1 ∨ outil = 2))
    (hn : ncomp < 2147483648) (hc : csz < 2147483648) (hpix : csz * ncomp < 2147483648) (hd : dims.length = 2) (hfuel : ncomp ≤ fuel) :
    let s := GRIil_convert fuel inbuf mem inil outbuf outil dims ncomp nt csz
    s.ub = false ∧ s.oof = false ∧ s.ret = -1 ∧ s.mem = mem := by
  intro s
  have hs : s = GRIil_convert fuel inbuf mem inil outbuf outil dims ncomp nt csz := rfl
  rw [entry, if_neg hne, allocS_eq _ _ _ _ _ _ _ ncomp csz hn hc hpix] at hs
  by_cases hi : inil = 0 ∨ inil = 1 ∨ inil = 2
  · have ho : ¬ (outil = 0 ∨ outil = 1 ∨ outil = 2) := by
      rcases hbad with h | h
      · exact absurd hi h
      · exact h
    obtain ⟨a, ha⟩ : ∃ a : Il, inil = ((a.code : Nat) : Int) := by
      rcases hi with h | h | h
      · exact ⟨.pixel, by rw [h]; rfl⟩
      · exact ⟨.line, by rw [h]; rfl⟩
      · exact ⟨.component, by rw [h]; rfl⟩
    rw [swIn_eq a _ ncomp rfl hd ha fuel hfuel _ _ _ _ _ _ _ _ _ _ (by simp) (by simp) (by simp), swOut_bad _ _ rfl ho] at hs
    rw [hs]
    exact finish_fail' fuel _ _ _ _ _ _ _ _ _ _ _
  · rw [swIn_bad _ _ hi] at hs
    rw [hs]
    exact finish_fail fuel _ _ _ _ _ _ _ _ _ _ _

end H4.Lemmas.C09Fn
