import H4.Lemmas.C07FldSet9
/-! `VSsetfields`: the entry tests and the pieces around the two branches (`sfChk`, `sfBuild`, `sfRead`, `sfDone`, `sfRet`). -/
namespace H4.Lemmas.C07Fld
open H4.Gen.Fn.Dfconv H4.Gen.Fn.Vsfld H4.VData H4.Gen.Hdf H4.Gen.Vs H4.C2L H4.VsfldEnc
set_option linter.unusedVariables false
set_option linter.unusedSimpArgs false

/-- the entry tests of `VSsetfields`: field list not NULL, a vdata key, instance and vdata present, `scanattrs` delivered 1 ..
    `VSFIELDMAX` names -/
def SfOk (s : VSsetfields.St) : Prop :=
  s.fields_null = false ∧ s.vkey_group = 4 ∧ s.w_null = false ∧ s.vs_null = false ∧ s.scan_ret ≠ -1 ∧ s.ac ≠ 0 ∧ s.ac ≤ 256

instance (s : VSsetfields.St) : Decidable (SfOk s) := by unfold SfOk; infer_instance

theorem sfChk_spec (fuel : Nat) (s : VSsetfields.St) (hcl : SfClean s) :
    sfChk fuel s = if SfOk s then { s with building := 0, ret_value := -1 } else { s with building := 0, ret_value := -1, gto := true } := by
  obtain ⟨h1, h2, h3⟩ := hcl
  cases s
  simp only at h1 h2 h3
  subst h1 h2 h3
  simp only [sfChk, SfOk]
  rename_i vkey ac found j i uj order value building ret_value vkey_group scan_ret vs_access vs_nvertices vs_wlist_n vs_wlist_ivsize t1 t2 t3 t4 t5 vs_nusym vs_marked vs_new_h_sz vs_rlist_n fields_null w_null vs_null n1 n2 n3 av wn un wb uo ut ui ri ub oof ret
  by_cases c1 : fields_null = true
  · simp [c1]
  · have c1' : fields_null = false := by simpa using c1
    by_cases c2 : vkey_group = 4
    · by_cases c3 : w_null = true
      · simp [c1', c2, c3]
      · have c3' : w_null = false := by simpa using c3
        by_cases c4 : vs_null = true
        · simp [c1', c2, c3', c4]
        · have c4' : vs_null = false := by simpa using c4
          by_cases c5 : scan_ret = -1 ∨ ac = 0
          · have : ¬ (scan_ret ≠ -1 ∧ ac ≠ 0 ∧ ac ≤ 256) := by omega
            simp [c1', c2, c3', c4', c5, this]
          · by_cases c6 : ac > 256
            · have : ¬ (scan_ret ≠ -1 ∧ ac ≠ 0 ∧ ac ≤ 256) := by omega
              simp [c1', c2, c3', c4', c5, c6, this]
            · have : (scan_ret ≠ -1 ∧ ac ≠ 0 ∧ ac ≤ 256) := by omega
              simp [c1', c2, c3', c4', c5, c6, this]
    · simp [c1', c2]

theorem sfBuild_gto (fuel : Nat) (s : VSsetfields.St) (h : s.gto = true) : sfBuild fuel s = s := by simp [sfBuild, h]

theorem sfBuild_skip (fuel : Nat) (s : VSsetfields.St) (h : ¬ (s.vs_access = 119 ∧ s.vs_nvertices = 0 ∧ s.vs_wlist_n = 0)) :
    sfBuild fuel s = s := by
  unfold sfBuild
  split
  · rfl
  · split
    · split
      · split
        · rename_i a b c; exact absurd ⟨a, b, c⟩ h
        · rfl
      · rfl
    · rfl

theorem sfBuild_run (fuel : Nat) (s : VSsetfields.St) (hcl : SfClean s) (h : s.vs_access = 119 ∧ s.vs_nvertices = 0 ∧ s.vs_wlist_n = 0) :
    sfBuild fuel s = sfBFin fuel (sfBOffs fuel (sfBFields fuel (sfBFlag fuel (sfBNull fuel (sfBInit fuel s))))) := by
  obtain ⟨h1, h2, h3⟩ := hcl
  unfold sfBuild
  rw [if_neg (by simp [h1, h2, h3]), if_pos h.1, if_pos h.2.1, if_pos h.2.2]

theorem sfRead_gto (fuel : Nat) (s : VSsetfields.St) (h : s.gto = true) : sfRead fuel s = s := by simp [sfRead, h]

theorem sfRead_skip (fuel : Nat) (s : VSsetfields.St) (h : ¬ (s.vs_nvertices > 0)) : sfRead fuel s = s := by
  simp only [sfRead]
  split
  · rfl
  · first | rfl | rw [if_neg h]

/-- the read-list branch: `rlist.n = 0`, a fresh `item` array of `ac` cells, the loop, `ret_value = SUCCEED` when it was not left by `goto` -/
theorem sfRead_run (fuel : Nat) (s : VSsetfields.St) (hcl : SfClean s) (h : s.vs_nvertices > 0) (ac : Nat) (hac : s.ac = ac) (hle : ac ≤ 256) :
    sfRead fuel s =
      (if (VSsetfields.loop5 fuel { s with vs_rlist_n := 0, vs_rlist_item := List.replicate ac 170, vs_rlist_item_null := false, i := 0 }).gto = true ∨
          (VSsetfields.loop5 fuel { s with vs_rlist_n := 0, vs_rlist_item := List.replicate ac 170, vs_rlist_item_null := false, i := 0 }).cnt = true
       then VSsetfields.St.set_brk (VSsetfields.loop5 fuel { s with vs_rlist_n := 0, vs_rlist_item := List.replicate ac 170, vs_rlist_item_null := false, i := 0 }) false
       else { VSsetfields.St.set_brk (VSsetfields.loop5 fuel { s with vs_rlist_n := 0, vs_rlist_item := List.replicate ac 170, vs_rlist_item_null := false, i := 0 }) false with ret_value := 0 }) := by
  obtain ⟨h1, h2, h3⟩ := hcl
  have e2 : Int.tdiv ((4 * ((ac : Int) % 18446744073709551616)) % 18446744073709551616) 4 = (ac : Int) := by
    rw [cellsK 4 (Or.inr (Or.inl rfl)) (ac : Int) (by omega) (by omega)]
  cases s
  simp only at h1 h2 h3 hac h
  subst h1 h2 h3 hac
  simp only [sfRead, VSsetfields.St.set_vs_rlist_n, VSsetfields.St.set_vs_rlist_item, VSsetfields.St.set_vs_rlist_item_null,
    VSsetfields.St.set_i, e2, Bool.false_eq_true, or_self, if_false, if_pos h,
    sf_chk_true _ _ (show (0 : Int) ≤ (ac : Int) by omega), Int.toNat_natCast]
  generalize VSsetfields.loop5 fuel _ = L
  by_cases g : L.gto = true
  · simp [g]
  · have g' : L.gto = false := by simpa using g
    by_cases c : L.cnt = true
    · simp [g', c]
    · have c' : L.cnt = false := by simpa using c
      simp [g', c']

theorem sfDone_spec (fuel : Nat) (s : VSsetfields.St) :
    sfDone fuel s = if s.building ≠ 0 then
      { VSsetfields.St.set_brk (VSsetfields.loop7 fuel { s with gto := false, i := 0 }) false with vs_wlist_name := [], vs_wlist_name_null := true, vs_wlist_bptr := [], vs_wlist_bptr_null := true, vs_wlist_n := 0, vs_wlist_ivsize := 0 }
      else { s with gto := false } := by
  simp only [sfDone]
  split <;> rfl

theorem sfRet_spec (fuel : Nat) (s : VSsetfields.St) (hcl : SfClean s) : sfRet fuel s = { s with ret := s.ret_value } := by
  obtain ⟨h1, h2, h3⟩ := hcl
  simp [sfRet, h1, h2, h3]
end H4.Lemmas.C07Fld
