import H4.Gen.Fn.Dfkswap
import H4.Gen.Fn.Dfknat
import H4.Lemmas.Conv
import H4.Lemmas.C2L
/-! Lemmas for `H4.Props.C06Fn`: the number-conversion kernels `DFKsb2b/4b/8b` (`hdf/src/dfkswap.c`) and `DFKnb1b/2b/4b/8b`
    (`hdf/src/dfknat.c`), as TRANSLATED from the C text (`H4.Gen.Fn.Dfkswap`, `H4.Gen.Fn.Dfknat`, regenerated on every run), compute the
    hand-written model `H4.Conv.conv`.

    Structure: (1) list facts relating the unrolled byte assignments of the C bodies (`List.set` chains, `memcpy` as take/drop/append) to
    the model's `readN`/`writeN`; (2) ONE simulation theorem `loop_sim`, parameterised by element size, swap flag and stride step, about
    any fuel-indexed loop whose body performs one model step on a `Core` view of its state; (3) per C loop: the one-iteration equation
    (`…_body`, proved on the generated definition) and the instance of `loop_sim` (`…_spec`).  Core only. -/
set_option linter.unusedSimpArgs false
set_option linter.unusedVariables false
namespace H4.Lemmas.C06Fn
open H4 H4.Conv H4.C2L

/-- the C view of a byte memory: every `uint8` cell as an `Int` in `[0, 256)` -/
def bytes (m : List Byte) : List Int := m.map (fun b => (b.toNat : Int))

@[simp] theorem bytes_length (m : List Byte) : (bytes m).length = m.length := by simp [bytes]

theorem bytes_inj {a b : List Byte} (h : bytes a = bytes b) : a = b := by
  induction a generalizing b with
  | nil => cases b <;> simp_all [bytes]
  | cons x xs ih =>
    cases b with
    | nil => simp [bytes] at h
    | cons y ys =>
      simp only [bytes, List.map_cons, List.cons.injEq] at h
      obtain ⟨h1, h2⟩ := h
      have : x = y := UInt8.toNat_inj.mp (by omega)
      rw [this, ih (by simpa [bytes] using h2)]

/-! ## `readN`/`writeN`/`tr` on the `Int` image -/

def rdI (M : List Int) (off n : Nat) : List Int := (M.drop off).take n
def wrI (M : List Int) (off : Nat) (bs : List Int) : List Int := M.take off ++ bs ++ M.drop (off + bs.length)
def trI (swap : Bool) (e : List Int) : List Int := if swap then e.reverse else e

theorem bytes_readN (m : List Byte) (off n : Nat) : bytes (readN m off n) = rdI (bytes m) off n := by
  simp [bytes, readN, rdI, List.map_take, List.map_drop]

theorem bytes_writeN (m : List Byte) (off : Nat) (bs : List Byte) : bytes (writeN m off bs) = wrI (bytes m) off (bytes bs) := by
  simp [bytes, writeN, wrI, List.map_take, List.map_drop]

theorem bytes_tr (swap : Bool) (e : List Byte) : bytes (tr swap e) = trI swap (bytes e) := by
  cases swap <;> simp [bytes, tr, trI]

/-- one model step seen on the `Int` image -/
theorem bytes_step (m : List Byte) (so dO esz : Nat) (swap : Bool) :
    bytes (writeN m dO (tr swap (readN m so esz))) = wrI (bytes m) dO (trI swap (rdI (bytes m) so esz)) := by
  rw [bytes_writeN, bytes_tr, bytes_readN]

theorem trI_length (swap : Bool) (e : List Int) : (trI swap e).length = e.length := by
  unfold trI; split <;> simp

theorem rdI_length (M : List Int) (off n : Nat) (h : off + n ≤ M.length) : (rdI M off n).length = n := by
  simp [rdI]; omega

/-- `a[d] = v0; a[d+1] = v1; …` -/
def setsAt (M : List Int) (d : Nat) : List Int → List Int
  | [] => M
  | v :: vs => setsAt (M.set d v) (d + 1) vs

/-- `[a[s], a[s+1], …]` (`n` cells) -/
def getsFrom (M : List Int) (s : Nat) : Nat → List Int
  | 0 => []
  | n + 1 => M[s]?.getD 0 :: getsFrom M (s + 1) n

theorem setsAt_eq : ∀ (vs : List Int) (M : List Int) (d : Nat), d + vs.length ≤ M.length → setsAt M d vs = wrI M d vs := by
  intro vs
  induction vs with
  | nil => intro M d h; simp [setsAt, wrI]
  | cons v vs ih =>
    intro M d h
    simp only [List.length_cons] at h
    rw [setsAt, ih _ _ (by simp; omega)]
    simp only [wrI]
    rw [take_set_succ _ _ _ (by omega), List.drop_set_of_lt (by omega)]
    simp [Nat.add_assoc, Nat.add_comm 1]

theorem setsAt_length : ∀ (vs : List Int) (M : List Int) (d : Nat), (setsAt M d vs).length = M.length := by
  intro vs; induction vs with
  | nil => intro M d; rfl
  | cons v vs ih => intro M d; rw [setsAt, ih]; simp

theorem rdI_eq : ∀ (n : Nat) (M : List Int) (s : Nat), s + n ≤ M.length → rdI M s n = getsFrom M s n := by
  intro n
  induction n with
  | zero => intro M s h; simp [rdI, getsFrom]
  | succ n ih =>
    intro M s h
    have := ih M (s + 1) (by omega)
    have hs : s < M.length := by omega
    simp only [rdI] at this ⊢
    rw [getsFrom, ← this, List.drop_eq_getElem_cons hs, List.take_succ_cons]
    simp only [List.getElem?_eq_getElem hs, Option.getD_some]

theorem getsFrom_length : ∀ (n : Nat) (M : List Int) (s : Nat), (getsFrom M s n).length = n := by
  intro n; induction n with
  | zero => intro M s; rfl
  | succ n ih => intro M s; simp [getsFrom, ih]

/-- the unrolled element assignment of the C bodies is the model's `writeN (tr (readN))` -/
theorem sets_gets_eq (M : List Int) (so dO esz : Nat) (swap : Bool) (h1 : so + esz ≤ M.length) (h2 : dO + esz ≤ M.length) :
    setsAt M dO (trI swap (getsFrom M so esz)) = wrI M dO (trI swap (rdI M so esz)) := by
  rw [setsAt_eq _ _ _ (by rw [trI_length, getsFrom_length]; exact h2), rdI_eq _ _ _ h1]

/-! literal pointer offsets: `Int.toNat (p + k)` for a pointer `p` that is a natural number -/
theorem t0 (a : Nat) : Int.toNat ((a : Int) + 0) = a + 0 := by omega
theorem t1 (a : Nat) : Int.toNat ((a : Int) + 1) = a + 1 := by omega
theorem t2 (a : Nat) : Int.toNat ((a : Int) + 2) = a + 2 := by omega
theorem t3 (a : Nat) : Int.toNat ((a : Int) + 3) = a + 3 := by omega
theorem t4 (a : Nat) : Int.toNat ((a : Int) + 4) = a + 4 := by omega
theorem t5 (a : Nat) : Int.toNat ((a : Int) + 5) = a + 5 := by omega
theorem t6 (a : Nat) : Int.toNat ((a : Int) + 6) = a + 6 := by omega
theorem t7 (a : Nat) : Int.toNat ((a : Int) + 7) = a + 7 := by omega
theorem t8 (a : Nat) : Int.toNat ((a : Int) + 8) = a + 8 := by omega
theorem tnn (a b : Nat) : Int.toNat ((a : Int) + (b : Int)) = a + b := by omega

/-! ## model-side facts -/

/-- same-iteration source and destination elements do not overlap: what the NOT-in-place loops of the C routines need in order to
    compute the model's element step (they assign byte by byte without the temporary `buf[]`) -/
def StepDisj (esz n so ss dO ds : Nat) : Prop := ∀ i, i < n → Disj (so + i * ss) esz (dO + i * ds) esz

instance (a la b lb : Nat) : Decidable (Disj a la b lb) := by unfold Disj; infer_instance
instance (esz n so ss dO ds len : Nat) : Decidable (InBounds esz n so ss dO ds len) := by unfold InBounds; infer_instance
instance (esz n so ss dO ds : Nat) : Decidable (StepDisj esz n so ss dO ds) := by unfold StepDisj; infer_instance

theorem inb_head {esz k so ss dO ds len : Nat} (h : InBounds esz (k + 1) so ss dO ds len) : so + esz ≤ len ∧ dO + esz ≤ len := by
  have := h 0 (by omega); simpa using this

theorem inb_tail {esz k so ss dO ds len : Nat} (h : InBounds esz (k + 1) so ss dO ds len) : InBounds esz k (so + ss) ss (dO + ds) ds len := by
  intro i hi
  have := h (i + 1) (by omega)
  rw [Nat.succ_mul, Nat.succ_mul] at this
  constructor <;> omega

theorem sd_head {esz k so ss dO ds : Nat} (h : StepDisj esz (k + 1) so ss dO ds) : Disj so esz dO esz := by
  have := h 0 (by omega); simpa using this

theorem sd_tail {esz k so ss dO ds : Nat} (h : StepDisj esz (k + 1) so ss dO ds) : StepDisj esz k (so + ss) ss (dO + ds) ds := by
  intro i hi
  have := h (i + 1) (by omega)
  rw [Nat.succ_mul, Nat.succ_mul] at this
  have e1 : so + ss + i * ss = so + (i * ss + ss) := by omega
  have e2 : dO + ds + i * ds = dO + (i * ds + ds) := by omega
  rw [e1, e2]; exact this

theorem step_length (m : List Byte) (so dO esz : Nat) (swap : Bool) (h1 : so + esz ≤ m.length) (h2 : dO + esz ≤ m.length) :
    (writeN m dO (tr swap (readN m so esz))).length = m.length := by
  apply writeN_length
  rw [tr_length, readN_length _ _ _ h1]; exact h2

/-! the two loop-free paths of `DFKnb*b` on the model side -/

/-- writing back what was read changes nothing -/
theorem writeN_readN_self (m : List Byte) (o n : Nat) (h : o + n ≤ m.length) : writeN m o (readN m o n) = m := by
  have hl := readN_length m o n h
  simp only [writeN, hl]
  simp only [readN]
  rw [List.append_assoc, ← List.drop_drop, List.take_append_drop, List.take_append_drop]

/-- the "nothing to do" fast path of `DFKnb*b` (in place, contiguous): the model's loop is the identity -/
theorem conv_id (esz : Nat) : ∀ (n o st : Nat) (m : List Byte), InBounds esz n o st o st m.length →
    conv esz false n o st o st m = m := by
  intro n
  induction n with
  | zero => intro o st m _; simp [conv]
  | succ n ih =>
    intro o st m hb
    have h0 := hb 0 (by omega)
    simp only [Nat.zero_mul, Nat.add_zero] at h0
    simp only [conv, tr, Bool.false_eq_true, if_false]
    rw [writeN_readN_self _ _ _ h0.1]
    apply ih
    intro i hi
    have := hb (i + 1) (by omega)
    rw [Nat.succ_mul] at this
    constructor <;> omega

theorem readN_add (m : List Byte) (o a b : Nat) : readN m o (a + b) = readN m o a ++ readN m (o + a) b := by
  simp only [readN]
  rw [List.take_add, List.drop_drop]

theorem writeN_writeN_adj (m : List Byte) (d : Nat) (A B : List Byte) (h : d + A.length + B.length ≤ m.length) :
    writeN (writeN m d A) (d + A.length) B = writeN m d (A ++ B) := by
  have h1 : (m.take d).length = d := by simp; omega
  simp only [writeN, List.length_append]
  have e1 : List.take (d + A.length) (List.take d m ++ A ++ List.drop (d + A.length) m) = List.take d m ++ A := by
    rw [List.take_append_of_le_length (by simp; omega)]
    rw [List.take_of_length_le (by simp; omega)]
  have e2 : List.drop (d + A.length + B.length) (List.take d m ++ A ++ List.drop (d + A.length) m) = List.drop (d + (A.length + B.length)) m := by
    have hl : (List.take d m ++ A).length = d + A.length := by simp; omega
    rw [List.drop_append, List.drop_of_length_le (by omega), hl, List.drop_drop]
    simp; congr 1; omega
  rw [e1, e2]; simp


/-- the `memcpy` fast path of `DFKnb*b` (contiguous, NON-overlapping regions): the model's element loop is one block copy -/
theorem conv_contig (esz : Nat) : ∀ (n so dO : Nat) (m : List Byte), so + n * esz ≤ m.length → dO + n * esz ≤ m.length →
    Disj so (n * esz) dO (n * esz) → conv esz false n so esz dO esz m = writeN m dO (readN m so (n * esz)) := by
  intro n
  induction n with
  | zero =>
    intro so dO m _ _ _
    simp [conv, writeN, readN]
  | succ n ih =>
    intro so dO m h1 h2 hd
    rw [Nat.succ_mul] at h1 h2 hd
    unfold Disj at hd
    have hl : (readN m so esz).length = esz := readN_length _ _ _ (by omega)
    have hw : (writeN m dO (readN m so esz)).length = m.length := writeN_length _ _ _ (by rw [hl]; omega)
    simp only [conv, tr, Bool.false_eq_true, if_false]
    rw [ih _ _ _ (by rw [hw]; omega) (by rw [hw]; omega) (by unfold Disj; omega)]
    rw [readN_writeN_disj _ _ _ _ _ (by rw [hl]; omega) (by rw [hl]; unfold Disj; omega)]
    have := writeN_writeN_adj m dO (readN m so esz) (readN m (so + esz) (n * esz))
      (by rw [hl, readN_length _ _ _ (by omega)]; omega)
    rw [hl] at this
    rw [this, ← readN_add, Nat.succ_mul, Nat.add_comm esz]

/-! ## the simulation theorem -/

/-- what every loop of the seven routines works on -/
structure Core where
  source : Int
  dest : Int
  i : Int
  num : Int
  mem : List Int
  ub : Bool
  oof : Bool
  done : Bool
  ret : Int

/-- **Simulation.**  A fuel-indexed loop `for (…; i < num; i++)` whose body, on the `Core` view of its state, performs one element step of
    the model at the cursors (`source`, `dest`) and advances them by `ss`/`ds`, runs `k` remaining iterations as `conv … k` does.
    `direct = true`: the body assigns byte by byte without the temporary buffer and needs source and destination element disjoint. -/
theorem loop_sim {σ : Type} (loop : Nat → σ → σ) (body : Nat → σ → σ) (view : σ → Core) (Inv : σ → Prop)
    (esz : Nat) (swap : Bool) (direct : Bool) (ss ds : Nat)
    (hstop : ∀ f s, ¬ ((view s).i < (view s).num ∧ ¬ ((view s).done = true)) → loop f s = s)
    (hstep : ∀ f s, ((view s).i < (view s).num ∧ ¬ ((view s).done = true)) → loop (f + 1) s = loop f (body (f + 1) s))
    (hbody : ∀ f s (so dO : Nat), Inv s → (view s).source = so → (view s).dest = dO →
        so + esz ≤ (view s).mem.length → dO + esz ≤ (view s).mem.length → (direct = true → Disj so esz dO esz) →
        Inv (body f s) ∧ view (body f s) =
          { view s with mem := wrI (view s).mem dO (trI swap (rdI (view s).mem so esz)),
                        source := ((so + ss : Nat) : Int), dest := ((dO + ds : Nat) : Int), i := ((view s).i + 1) % 4294967296 }) :
    ∀ (k fuel : Nat) (s : σ) (so dO i : Nat) (m : List Byte), k ≤ fuel → Inv s →
      (view s).source = so → (view s).dest = dO → (view s).i = i → (view s).num = ((i + k : Nat) : Int) → i + k < 4294967296 →
      (view s).mem = bytes m → (view s).done = false →
      InBounds esz k so ss dO ds m.length → (direct = true → StepDisj esz k so ss dO ds) →
      view (loop fuel s) =
        { view s with mem := bytes (conv esz swap k so ss dO ds m), source := ((so + k * ss : Nat) : Int),
                      dest := ((dO + k * ds : Nat) : Int), i := ((i + k : Nat) : Int) } := by
  intro k
  induction k with
  | zero =>
    intro fuel s so dO i m _ _ hso hdO hi hnum _ hm _ _ _
    rw [hstop]
    · cases hv : view s
      simp only [hv] at hso hdO hi hm
      simp [conv, hso, hdO, hi, hm]
    · rw [hi, hnum]; omega
  | succ k ih =>
    intro fuel s so dO i m hf hinv hso hdO hi hnum hlt hm hdone hb hd
    obtain ⟨fuel, rfl⟩ : ∃ f, fuel = f + 1 := ⟨fuel - 1, by omega⟩
    have hc : (view s).i < (view s).num ∧ ¬ ((view s).done = true) := by
      rw [hi, hnum, hdone]; constructor
      · omega
      · simp
    obtain ⟨hb1, hb2⟩ := inb_head hb
    have hl : (view s).mem.length = m.length := by rw [hm]; simp
    obtain ⟨hinv', hv'⟩ := hbody (fuel + 1) s so dO hinv hso hdO (by omega) (by omega) (fun h => sd_head (hd h))
    rw [hstep _ _ hc]
    have hi1 : ((i : Int) + 1) % 4294967296 = ((i + 1 : Nat) : Int) := by omega
    rw [ih fuel (body (fuel + 1) s) (so + ss) (dO + ds) (i + 1) (writeN m dO (tr swap (readN m so esz))) (by omega) hinv'
      (by rw [hv']) (by rw [hv']) (by rw [hv']; simp only []; rw [hi, hi1]) (by rw [hv']; simp only []; rw [hnum]; congr 1; omega) (by omega)
      (by rw [hv']; simp only []; rw [hm, bytes_step]) (by rw [hv']; exact hdone)
      (by rw [step_length _ _ _ _ _ hb1 hb2]; exact inb_tail hb) (fun h => sd_tail (hd h))]
    rw [hv']
    simp only [conv, Core.mk.injEq, true_and, and_true]
    refine ⟨?_, ?_, ?_⟩
    · congr 1; rw [Nat.succ_mul]; omega
    · congr 1; rw [Nat.succ_mul]; omega
    · congr 1; omega

/-! ## per routine / per loop instances (generated definitions on the left-hand sides) -/
open H4.Gen.Fn.Dfkswap H4.Gen.Fn.Dfknat

open Lean in
/-- per routine: `f.chk_true` (a check whose condition holds leaves the state as it is), the `Core` view of the state and the loop
    invariant (the strides are the naturals `ss`, `ds`; the scratch buffer `buf[]` has the element size) -/
macro "conv_routine " f:ident esz:num : command => do
  let fn := f.getId
  let St := mkIdent (fn ++ `St)
  let chk := mkIdent (fn ++ `chk)
  let chkT := mkIdent (fn ++ `chk_true)
  let view := mkIdent (fn ++ `view)
  let inv := mkIdent (fn ++ `Inv)
  `(theorem $chkT (s : $St) (c : Prop) [Decidable c] (h : c) : $chk s c = s := by
      simp [$chk:ident, h]
    def $view (s : $St) : Core := ⟨s.source, s.dest, s.i, s.num_elm, s.mem, s.ub, s.oof, s.done, s.ret⟩
    def $inv (ss ds : Nat) (s : $St) : Prop := s.source_stride = (ss : Int) ∧ s.dest_stride = (ds : Int) ∧ s.buf.length = $esz)

open Lean in
/-- per loop with an unrolled body (`dest[j] = source[k]; …`, possibly through `buf[]`): the one-iteration equation `f.loopK_body` and the
    instance `f.loopK_spec` of `loop_sim`.
    `direct`: no temporary buffer; `fixed`: the cursors advance by the element size (fast path), else by the strides -/
macro "conv_loop " f:ident l:ident esz:num swap:ident direct:ident fixed:ident : command => do
  let fn := f.getId
  let ln := l.getId
  let St := mkIdent (fn ++ `St)
  let chkT := mkIdent (fn ++ `chk_true)
  let view := mkIdent (fn ++ `view)
  let inv := mkIdent (fn ++ `Inv)
  let loop := mkIdent (fn ++ ln)
  let body := mkIdent (fn ++ ln ++ `body)
  let bodyEq := mkIdent (fn ++ Name.mkSimple (ln.toString ++ "_body"))
  let spec := mkIdent (fn ++ Name.mkSimple (ln.toString ++ "_spec"))
  let isFixed := fixed.getId == `true
  let stS : Term ← if isFixed then `($esz) else `(ss)
  let stD : Term ← if isFixed then `($esz) else `(ds)
  `(theorem $bodyEq (fuel : Nat) (s : $St) (so dO ss ds : Nat) (hs : s.source = so) (hd : s.dest = dO)
        (hss : s.source_stride = ss) (hds : s.dest_stride = ds) (hb : s.buf.length = $esz)
        (h1 : so + $esz ≤ s.mem.length) (h2 : dO + $esz ≤ s.mem.length) (hdj : $direct = true → Disj so $esz dO $esz) :
        $body fuel s =
          { s with mem := setsAt s.mem dO (trI $swap (getsFrom s.mem so $esz)),
                   buf := if $direct = true then s.buf else setsAt s.buf 0 (trI $swap (getsFrom s.mem so $esz)),
                   dest := ((dO + $stD : Nat) : Int), source := ((so + $stS : Nat) : Int), i := (s.i + 1) % 4294967296 } := by
      have hdj' := hdj
      simp [Disj] at hdj'
      simp (disch := first | omega | (simp only [List.length_set]; omega)) only [$body:ident, $chkT:ident, hs, hd, hb, hss, hds,
        List.length_set, t0, t1, t2, t3, t4, t5, t6, t7, Int.toNat_zero, Int.toNat_one, Int.reduceToNat,
        List.getD_eq_getElem?_getD, List.getElem?_set_ne, List.getElem?_set_self]
      simp [setsAt, getsFrom, trI, hss, hds]
    theorem $spec (ss ds : Nat) (k fuel : Nat) (s : $St) (so dO i : Nat) (m : List Byte)
        (hf : k ≤ fuel) (hinv : $inv ss ds s) (hso : s.source = so) (hdO : s.dest = dO) (hi : s.i = i)
        (hnum : s.num_elm = ((i + k : Nat) : Int)) (hlt : i + k < 4294967296) (hm : s.mem = bytes m) (hdone : s.done = false)
        (hb : InBounds $esz k so $stS dO $stD m.length) (hd : $direct = true → StepDisj $esz k so $stS dO $stD) :
        $view ($loop fuel s) =
          { $view s with mem := bytes (conv $esz $swap k so $stS dO $stD m), source := ((so + k * $stS : Nat) : Int),
                         dest := ((dO + k * $stD : Nat) : Int), i := ((i + k : Nat) : Int) } := by
      refine loop_sim $loop $body $view ($inv ss ds) $esz $swap $direct _ _ ?_ ?_ ?_ k fuel s so dO i m hf hinv hso hdO hi hnum hlt hm hdone hb hd
      · intro f s h
        have h' : ¬ (s.i < s.num_elm ∧ ¬ (s.done = true)) := h
        cases f <;> simp only [$loop:ident, if_neg h']
      · intro f s h
        have h' : (s.i < s.num_elm ∧ ¬ (s.done = true)) := h
        simp only [$loop:ident, if_pos h']
      · intro f s so dO hinv hs hd h1 h2 hdj
        obtain ⟨hss, hds, hb⟩ := hinv
        rw [$bodyEq f s so dO ss ds hs hd hss hds hb h1 h2 hdj]
        refine ⟨⟨hss, hds, ?_⟩, ?_⟩
        · simp [setsAt_length, hb]
        · simp only [$view:ident]
          have h1' : so + $esz ≤ s.mem.length := h1
          have h2' : dO + $esz ≤ s.mem.length := h2
          rw [sets_gets_eq s.mem so dO $esz $swap h1' h2'])

conv_routine DFKsb2b 2
conv_loop DFKsb2b loop0 2 true true true
conv_loop DFKsb2b loop1 2 true false true
conv_loop DFKsb2b loop2 2 true true false
conv_loop DFKsb2b loop3 2 true false false
conv_routine DFKsb4b 4
conv_loop DFKsb4b loop0 4 true true true
conv_loop DFKsb4b loop1 4 true false true
conv_loop DFKsb4b loop2 4 true true false
conv_loop DFKsb4b loop3 4 true false false
conv_routine DFKsb8b 8
conv_loop DFKsb8b loop0 8 true true true
conv_loop DFKsb8b loop1 8 true false true
conv_loop DFKsb8b loop2 8 true true false
conv_loop DFKsb8b loop3 8 true false false
conv_routine DFKnb2b 2
conv_loop DFKnb2b loop0 2 false true false
conv_loop DFKnb2b loop1 2 false false false
conv_routine DFKnb4b 4
conv_loop DFKnb4b loop0 4 false true false
conv_loop DFKnb4b loop1 4 false false false
conv_routine DFKnb8b 8

/-- `memcpy(d, s, n)` inside one memory, as translated (take/drop/append), is the model's untransformed element step -/
theorem wr_rd (M : List Int) (so dO n : Nat) (h : so + n ≤ M.length) :
    wrI M dO (trI false (rdI M so n)) = M.take dO ++ (M.drop so).take n ++ M.drop (dO + n) := by
  have : (rdI M so n).length = n := rdI_length M so n h
  simp only [wrI, trI, Bool.false_eq_true, if_false, this]
  rfl

theorem DFKnb8b.loop0_body (fuel : Nat) (s : DFKnb8b.St) (so dO ss ds : Nat) (hs : s.source = so) (hd : s.dest = dO)
    (hss : s.source_stride = ss) (hds : s.dest_stride = ds)
    (h1 : so + 8 ≤ s.mem.length) (h2 : dO + 8 ≤ s.mem.length) (hdj : Disj so 8 dO 8) :
    DFKnb8b.loop0.body fuel s =
      { s with mem := wrI s.mem dO (trI false (rdI s.mem so 8)),
               dest := ((dO + ds : Nat) : Int), source := ((so + ss : Nat) : Int), i := (s.i + 1) % 4294967296 } := by
  unfold Disj at hdj
  rw [wr_rd _ _ _ _ h1]
  simp (disch := omega) only [DFKnb8b.loop0.body, DFKnb8b.chk_true, hs, hd, hss, hds, Int.reduceMod, t8, Int.toNat_natCast, Int.reduceToNat]
  simp [hss, hds]

theorem DFKnb8b.loop1_body (fuel : Nat) (s : DFKnb8b.St) (so dO ss ds : Nat) (hs : s.source = so) (hd : s.dest = dO)
    (hss : s.source_stride = ss) (hds : s.dest_stride = ds) (hb : s.buf.length = 8)
    (h1 : so + 8 ≤ s.mem.length) (h2 : dO + 8 ≤ s.mem.length) :
    DFKnb8b.loop1.body fuel s =
      { s with mem := wrI s.mem dO (trI false (rdI s.mem so 8)), buf := rdI s.mem so 8,
               dest := ((dO + ds : Nat) : Int), source := ((so + ss : Nat) : Int), i := (s.i + 1) % 4294967296 } := by
  rw [wr_rd _ _ _ _ h1]
  have hl : (rdI s.mem so 8).length = 8 := rdI_length _ _ _ h1
  have e1 : List.take 0 s.buf ++ List.take 8 (List.drop so s.mem) ++ List.drop 8 s.buf = rdI s.mem so 8 := by
    have : List.drop 8 s.buf = [] := List.drop_of_length_le (by omega)
    rw [this]; simp [rdI]
  have e2 : List.take 8 (rdI s.mem so 8) = rdI s.mem so 8 := List.take_of_length_le (by omega)
  simp (disch := omega) only [DFKnb8b.loop1.body, DFKnb8b.chk_true, hs, hd, hss, hds, hb, Int.reduceMod, t8, Int.toNat_natCast, Int.reduceToNat,
    Int.toNat_zero, Int.reduceAdd, List.length_append, List.length_take, List.length_drop, e1, e2, hl, List.drop_zero]
  simp [hss, hds, rdI]


theorem DFKnb8b.loop0_spec (ss ds : Nat) (k fuel : Nat) (s : DFKnb8b.St) (so dO i : Nat) (m : List Byte)
    (hf : k ≤ fuel) (hinv : DFKnb8b.Inv ss ds s) (hso : s.source = so) (hdO : s.dest = dO) (hi : s.i = i)
    (hnum : s.num_elm = ((i + k : Nat) : Int)) (hlt : i + k < 4294967296) (hm : s.mem = bytes m) (hdone : s.done = false)
    (hb : InBounds 8 k so ss dO ds m.length) (hd : true = true → StepDisj 8 k so ss dO ds) :
    DFKnb8b.view (DFKnb8b.loop0 fuel s) =
      { DFKnb8b.view s with mem := bytes (conv 8 false k so ss dO ds m), source := ((so + k * ss : Nat) : Int),
                            dest := ((dO + k * ds : Nat) : Int), i := ((i + k : Nat) : Int) } := by
  refine loop_sim DFKnb8b.loop0 DFKnb8b.loop0.body DFKnb8b.view (DFKnb8b.Inv ss ds) 8 false true _ _ ?_ ?_ ?_ k fuel s so dO i m hf hinv hso hdO hi hnum hlt hm hdone hb hd
  · intro f s h
    have h' : ¬ (s.i < s.num_elm ∧ ¬ (s.done = true)) := h
    cases f <;> simp only [DFKnb8b.loop0, if_neg h']
  · intro f s h
    have h' : (s.i < s.num_elm ∧ ¬ (s.done = true)) := h
    simp only [DFKnb8b.loop0, if_pos h']
  · intro f s so dO hinv hs hd h1 h2 hdj
    obtain ⟨hss, hds, hb⟩ := hinv
    rw [DFKnb8b.loop0_body f s so dO ss ds hs hd hss hds h1 h2 (hdj rfl)]
    exact ⟨⟨hss, hds, hb⟩, rfl⟩

theorem DFKnb8b.loop1_spec (ss ds : Nat) (k fuel : Nat) (s : DFKnb8b.St) (so dO i : Nat) (m : List Byte)
    (hf : k ≤ fuel) (hinv : DFKnb8b.Inv ss ds s) (hso : s.source = so) (hdO : s.dest = dO) (hi : s.i = i)
    (hnum : s.num_elm = ((i + k : Nat) : Int)) (hlt : i + k < 4294967296) (hm : s.mem = bytes m) (hdone : s.done = false)
    (hb : InBounds 8 k so ss dO ds m.length) (hd : false = true → StepDisj 8 k so ss dO ds) :
    DFKnb8b.view (DFKnb8b.loop1 fuel s) =
      { DFKnb8b.view s with mem := bytes (conv 8 false k so ss dO ds m), source := ((so + k * ss : Nat) : Int),
                            dest := ((dO + k * ds : Nat) : Int), i := ((i + k : Nat) : Int) } := by
  refine loop_sim DFKnb8b.loop1 DFKnb8b.loop1.body DFKnb8b.view (DFKnb8b.Inv ss ds) 8 false false _ _ ?_ ?_ ?_ k fuel s so dO i m hf hinv hso hdO hi hnum hlt hm hdone hb hd
  · intro f s h
    have h' : ¬ (s.i < s.num_elm ∧ ¬ (s.done = true)) := h
    cases f <;> simp only [DFKnb8b.loop1, if_neg h']
  · intro f s h
    have h' : (s.i < s.num_elm ∧ ¬ (s.done = true)) := h
    simp only [DFKnb8b.loop1, if_pos h']
  · intro f s so dO hinv hs hd h1 h2 hdj
    obtain ⟨hss, hds, hb⟩ := hinv
    rw [DFKnb8b.loop1_body f s so dO ss ds hs hd hss hds hb h1 h2]
    exact ⟨⟨hss, hds, rdI_length _ _ _ h1⟩, rfl⟩

/-! `DFKnb1b`: no scratch buffer; its one loop advances the cursors BEFORE copying (`for (i = 1; …) { dest += …; source += …; *dest = *source; }`),
    so the view of its state has the cursors one stride ahead -/
theorem DFKnb1b.chk_true (s : DFKnb1b.St) (c : Prop) [Decidable c] (h : c) : DFKnb1b.chk s c = s := by
  simp [DFKnb1b.chk, h]
def DFKnb1b.view (s : DFKnb1b.St) : Core :=
  ⟨s.source + s.source_stride, s.dest + s.dest_stride, s.i, s.num_elm, s.mem, s.ub, s.oof, s.done, s.ret⟩
def DFKnb1b.Inv (ss ds : Nat) (s : DFKnb1b.St) : Prop := s.source_stride = (ss : Int) ∧ s.dest_stride = (ds : Int)

theorem DFKnb1b.loop0_body (fuel : Nat) (s : DFKnb1b.St) (so dO ss ds : Nat) (hs : s.source + s.source_stride = so) (hd : s.dest + s.dest_stride = dO)
    (h1 : so + 1 ≤ s.mem.length) (h2 : dO + 1 ≤ s.mem.length) :
    DFKnb1b.loop0.body fuel s =
      { s with mem := setsAt s.mem dO (trI false (getsFrom s.mem so 1)),
               dest := (dO : Int), source := (so : Int), i := (s.i + 1) % 4294967296 } := by
  simp (disch := omega) only [DFKnb1b.loop0.body, DFKnb1b.chk_true, DFKnb1b.St.set_dest, DFKnb1b.St.set_source, hs, hd, Int.toNat_natCast, List.getD_eq_getElem?_getD]
  simp [setsAt, getsFrom, trI]

theorem DFKnb1b.loop0_spec (ss ds : Nat) (k fuel : Nat) (s : DFKnb1b.St) (so dO i : Nat) (m : List Byte)
    (hf : k ≤ fuel) (hinv : DFKnb1b.Inv ss ds s) (hso : s.source + s.source_stride = so) (hdO : s.dest + s.dest_stride = dO) (hi : s.i = i)
    (hnum : s.num_elm = ((i + k : Nat) : Int)) (hlt : i + k < 4294967296) (hm : s.mem = bytes m) (hdone : s.done = false)
    (hb : InBounds 1 k so ss dO ds m.length) :
    DFKnb1b.view (DFKnb1b.loop0 fuel s) =
      { DFKnb1b.view s with mem := bytes (conv 1 false k so ss dO ds m), source := ((so + k * ss : Nat) : Int),
                            dest := ((dO + k * ds : Nat) : Int), i := ((i + k : Nat) : Int) } := by
  refine loop_sim DFKnb1b.loop0 DFKnb1b.loop0.body DFKnb1b.view (DFKnb1b.Inv ss ds) 1 false false _ _ ?_ ?_ ?_ k fuel s so dO i m hf hinv hso hdO hi hnum hlt hm hdone hb (fun h => by simp at h)
  · intro f s h
    have h' : ¬ (s.i < s.num_elm ∧ ¬ (s.done = true)) := h
    cases f <;> simp only [DFKnb1b.loop0, if_neg h']
  · intro f s h
    have h' : (s.i < s.num_elm ∧ ¬ (s.done = true)) := h
    simp only [DFKnb1b.loop0, if_pos h']
  · intro f s so dO hinv hs hd h1 h2 hdj
    obtain ⟨hss, hds⟩ := hinv
    rw [DFKnb1b.loop0_body f s so dO ss ds hs hd h1 h2]
    refine ⟨⟨hss, hds⟩, ?_⟩
    simp only [DFKnb1b.view]
    have h1' : so + 1 ≤ s.mem.length := h1
    have h2' : dO + 1 ≤ s.mem.length := h2
    rw [sets_gets_eq s.mem so dO 1 false h1' h2', hss, hds]
    simp


/-! ## the entry functions -/

/-- effective strides of the kernels: `0/0` selects the contiguous fast path (= stride `esz`), as in the model's `convert` -/
def effS (esz ss ds : Nat) : Nat := if ss = 0 ∧ ds = 0 then esz else ss
def effD (esz ss ds : Nat) : Nat := if ss = 0 ∧ ds = 0 then esz else ds

/-- outcome of a successful run: no undefined behaviour, no loop out of fuel, return value 0, memory `X` -/
def Good (c : Core) (X : List Int) : Prop := c.ub = false ∧ c.oof = false ∧ c.ret = 0 ∧ c.mem = X

theorem good_of_view {c c0 : Core} {X : List Int} {a b i : Int} (h : c = { c0 with mem := X, source := a, dest := b, i := i })
    (hub : c0.ub = false) (hoof : c0.oof = false) (hdone : c0.done = false) :
    c.ub = false ∧ c.oof = false ∧ c.mem = X ∧ c.done = false := by
  subst h; exact ⟨hub, hoof, rfl, hdone⟩

open Lean in
/-- entry theorem of a byte-swapping routine: its four paths (fast/strided × out-of-place/in-place) are the four loops -/
macro "conv_entry_sb " f:ident esz:num : command => do
  let fn := f.getId
  let view := mkIdent (fn ++ `view)
  let run := mkIdent (Name.mkSimple (fn.toString ++ "_run"))
  let l0 := mkIdent (fn ++ `loop0_spec)
  let l1 := mkIdent (fn ++ `loop1_spec)
  let l2 := mkIdent (fn ++ `loop2_spec)
  let l3 := mkIdent (fn ++ `loop3_spec)
  let sets := #[`set_fast_processing, `set_in_place, `set_source, `set_dest, `set_ret, `set_done, `set_i].map fun n => mkIdent (fn ++ `St ++ n)
  let s0 := sets[0]!
  let s1 := sets[1]!
  let s2 := sets[2]!
  let s3 := sets[3]!
  let s4 := sets[4]!
  let s5 := sets[5]!
  let s6 := sets[6]!
  `(theorem $run (fuel num so ss dO ds : Nat) (m : List Byte) (hf : num ≤ fuel) (hn0 : num ≠ 0) (hn : num < 4294967296)
        (hb : InBounds $esz num so (effS $esz ss ds) dO (effD $esz ss ds) m.length)
        (hd : so ≠ dO → StepDisj $esz num so (effS $esz ss ds) dO (effD $esz ss ds)) :
        Good ($view ($f fuel so (bytes m) dO num ss ds)) (bytes (conv $esz true num so (effS $esz ss ds) dO (effD $esz ss ds) m)) := by
      have e1 : ¬ ((num : Int) = 0) := by omega
      by_cases hfast : ss = 0 ∧ ds = 0
      · have hss0 : ss = 0 := hfast.1
        have hds0 : ds = 0 := hfast.2
        subst hss0
        subst hds0
        simp only [effS, effD, and_self, if_true] at hb hd ⊢
        by_cases hip : so = dO
        · subst hip
          obtain ⟨k1, k2, k3, k4⟩ := good_of_view ($l1 0 0 num fuel
            { s_ := so, d := so, num_elm := num, source_stride := ((0 : Nat) : Int), dest_stride := ((0 : Nat) : Int), source := so, dest := so,
              fast_processing := 1, in_place := 1, i := 0, mem := bytes m, buf := List.replicate $esz 0 }
            so so 0 m hf ⟨rfl, rfl, by simp⟩ rfl rfl rfl (by simp) (by omega) rfl rfl hb (fun h => by simp at h)) rfl rfl rfl
          simp only [$f:ident, $s0:ident, $s1:ident, $s2:ident, $s3:ident, $s4:ident, $s5:ident, $s6:ident, Int.reduceMod, e1, if_false, if_true, and_self, ne_eq,
            not_true_eq_false, not_false_eq_true, Bool.false_eq_true, Int.reduceEq, Int.reduceNe, Good, $view:ident, Int.natCast_zero] at k1 k2 k3 k4
          simp only [$f:ident, $s0:ident, $s1:ident, $s2:ident, $s3:ident, $s4:ident, $s5:ident, $s6:ident, Int.reduceMod, e1, if_false, if_true, and_self, ne_eq,
            not_true_eq_false, not_false_eq_true, Bool.false_eq_true, Int.reduceEq, Int.reduceNe, Good, $view:ident, Int.natCast_zero, k4]
          exact ⟨k1, k2, trivial, k3⟩
        · have e2 : ¬ ((so : Int) = (dO : Int)) := by omega
          obtain ⟨k1, k2, k3, k4⟩ := good_of_view ($l0 0 0 num fuel
            { s_ := so, d := dO, num_elm := num, source_stride := ((0 : Nat) : Int), dest_stride := ((0 : Nat) : Int), source := so, dest := dO,
              fast_processing := 1, in_place := 0, i := 0, mem := bytes m, buf := List.replicate $esz 0 }
            so dO 0 m hf ⟨rfl, rfl, by simp⟩ rfl rfl rfl (by simp) (by omega) rfl rfl hb (fun _ => hd hip)) rfl rfl rfl
          simp only [$f:ident, $s0:ident, $s1:ident, $s2:ident, $s3:ident, $s4:ident, $s5:ident, $s6:ident, Int.reduceMod, e1, e2, if_false, if_true, and_self, ne_eq,
            not_true_eq_false, not_false_eq_true, Bool.false_eq_true, Int.reduceEq, Int.reduceNe, Good, $view:ident, Int.natCast_zero] at k1 k2 k3 k4
          simp only [$f:ident, $s0:ident, $s1:ident, $s2:ident, $s3:ident, $s4:ident, $s5:ident, $s6:ident, Int.reduceMod, e1, e2, if_false, if_true, and_self, ne_eq,
            not_true_eq_false, not_false_eq_true, Bool.false_eq_true, Int.reduceEq, Int.reduceNe, Good, $view:ident, Int.natCast_zero, k4]
          exact ⟨k1, k2, trivial, k3⟩
      · have e3 : ¬ ((ss : Int) = 0 ∧ (ds : Int) = 0) := by omega
        simp only [effS, effD, hfast, if_false] at hb hd ⊢
        by_cases hip : so = dO
        · subst hip
          obtain ⟨k1, k2, k3, k4⟩ := good_of_view ($l3 ss ds num fuel
            { s_ := so, d := so, num_elm := num, source_stride := ss, dest_stride := ds, source := so, dest := so,
              fast_processing := 0, in_place := 1, i := 0, mem := bytes m, buf := List.replicate $esz 0 }
            so so 0 m hf ⟨rfl, rfl, by simp⟩ rfl rfl rfl (by simp) (by omega) rfl rfl hb (fun h => by simp at h)) rfl rfl rfl
          simp only [$f:ident, $s0:ident, $s1:ident, $s2:ident, $s3:ident, $s4:ident, $s5:ident, $s6:ident, Int.reduceMod, e1, e3, if_false, if_true, and_self, ne_eq,
            not_true_eq_false, not_false_eq_true, Bool.false_eq_true, Int.reduceEq, Int.reduceNe, Good, $view:ident, Int.natCast_zero] at k1 k2 k3 k4
          simp only [$f:ident, $s0:ident, $s1:ident, $s2:ident, $s3:ident, $s4:ident, $s5:ident, $s6:ident, Int.reduceMod, e1, e3, if_false, if_true, and_self, ne_eq,
            not_true_eq_false, not_false_eq_true, Bool.false_eq_true, Int.reduceEq, Int.reduceNe, Good, $view:ident, Int.natCast_zero, k4]
          exact ⟨k1, k2, trivial, k3⟩
        · have e2 : ¬ ((so : Int) = (dO : Int)) := by omega
          obtain ⟨k1, k2, k3, k4⟩ := good_of_view ($l2 ss ds num fuel
            { s_ := so, d := dO, num_elm := num, source_stride := ss, dest_stride := ds, source := so, dest := dO,
              fast_processing := 0, in_place := 0, i := 0, mem := bytes m, buf := List.replicate $esz 0 }
            so dO 0 m hf ⟨rfl, rfl, by simp⟩ rfl rfl rfl (by simp) (by omega) rfl rfl hb (fun _ => hd hip)) rfl rfl rfl
          simp only [$f:ident, $s0:ident, $s1:ident, $s2:ident, $s3:ident, $s4:ident, $s5:ident, $s6:ident, Int.reduceMod, e1, e2, e3, if_false, if_true, and_self, ne_eq,
            not_true_eq_false, not_false_eq_true, Bool.false_eq_true, Int.reduceEq, Int.reduceNe, Good, $view:ident, Int.natCast_zero] at k1 k2 k3 k4
          simp only [$f:ident, $s0:ident, $s1:ident, $s2:ident, $s3:ident, $s4:ident, $s5:ident, $s6:ident, Int.reduceMod, e1, e2, e3, if_false, if_true, and_self, ne_eq,
            not_true_eq_false, not_false_eq_true, Bool.false_eq_true, Int.reduceEq, Int.reduceNe, Good, $view:ident, Int.natCast_zero, k4]
          exact ⟨k1, k2, trivial, k3⟩)

conv_entry_sb DFKsb2b 2
conv_entry_sb DFKsb4b 4
conv_entry_sb DFKsb8b 8

/-- the `DFKnb*b` routines take their `memcpy`/nothing-to-do fast path for strides `0/0` and `esz/esz` -/
def fastNb (esz ss ds : Nat) : Prop := (ss = 0 ∧ ds = 0) ∨ (ss = esz ∧ ds = esz)
instance (esz ss ds : Nat) : Decidable (fastNb esz ss ds) := by unfold fastNb; infer_instance

theorem inb_total {esz num so dO len : Nat} (hn0 : num ≠ 0) (h : InBounds esz num so esz dO esz len) :
    so + num * esz ≤ len ∧ dO + num * esz ≤ len := by
  obtain ⟨k, rfl⟩ : ∃ k, num = k + 1 := ⟨num - 1, by omega⟩
  have := h k (by omega)
  rw [Nat.succ_mul]; omega

/-- the translated `memcpy(dest, source, n)` on the image of a byte memory -/
theorem memcpy_bytes (m : List Byte) (so dO n : Nat) (h : so + n ≤ m.length) :
    (bytes m).take dO ++ ((bytes m).drop so).take n ++ (bytes m).drop (dO + n) = bytes (writeN m dO (readN m so n)) := by
  rw [bytes_writeN, bytes_readN, ← wr_rd _ _ _ _ (by simpa using h)]
  simp [trI]

open Lean in
/-- entry theorem of a native-order routine with a scratch buffer (`DFKnb2b/4b/8b`): `memcpy` fast path, nothing-to-do path, two loops -/
macro "conv_entry_nb " f:ident esz:num : command => do
  let fn := f.getId
  let view := mkIdent (fn ++ `view)
  let chkT := mkIdent (fn ++ `chk_true)
  let run := mkIdent (Name.mkSimple (fn.toString ++ "_run"))
  let ubiff := mkIdent (Name.mkSimple (fn.toString ++ "_fast_ub"))
  let chk := mkIdent (fn ++ `chk)
  let l0 := mkIdent (fn ++ `loop0_spec)
  let l1 := mkIdent (fn ++ `loop1_spec)
  let set_fast_processing := mkIdent (fn ++ `St ++ `set_fast_processing)
  let set_in_place := mkIdent (fn ++ `St ++ `set_in_place)
  let set_source := mkIdent (fn ++ `St ++ `set_source)
  let set_dest := mkIdent (fn ++ `St ++ `set_dest)
  let set_ret := mkIdent (fn ++ `St ++ `set_ret)
  let set_done := mkIdent (fn ++ `St ++ `set_done)
  let set_i := mkIdent (fn ++ `St ++ `set_i)
  let set_mem := mkIdent (fn ++ `St ++ `set_mem)
  `(theorem $run (fuel num so ss dO ds : Nat) (m : List Byte) (hf : num ≤ fuel) (hn0 : num ≠ 0) (hn : num < 4294967296)
        (hb : InBounds $esz num so (effS $esz ss ds) dO (effD $esz ss ds) m.length)
        (hd : so ≠ dO → ¬ fastNb $esz ss ds → StepDisj $esz num so ss dO ds)
        (hfd : so ≠ dO → fastNb $esz ss ds → Disj so (num * $esz) dO (num * $esz) ∧ num * $esz < 4294967296) :
        Good ($view ($f fuel so (bytes m) dO num ss ds)) (bytes (conv $esz false num so (effS $esz ss ds) dO (effD $esz ss ds) m)) := by
      have e1 : ¬ ((num : Int) = 0) := by omega
      by_cases hfast : fastNb $esz ss ds
      · have hS : effS $esz ss ds = $esz := by unfold effS; unfold fastNb at hfast; split <;> omega
        have hD : effD $esz ss ds = $esz := by unfold effD; unfold fastNb at hfast; split <;> omega
        have e3 : (((ss : Int) = 0 ∧ (ds : Int) = 0) ∨ ((ss : Int) = $esz ∧ (ds : Int) = $esz)) := by unfold fastNb at hfast; omega
        rw [hS, hD] at hb ⊢
        obtain ⟨hb1, hb2⟩ := inb_total hn0 hb
        by_cases hip : so = dO
        · subst hip
          simp only [$f:ident, $set_fast_processing:ident, $set_in_place:ident, $set_source:ident, $set_dest:ident, $set_ret:ident,
            $set_done:ident, $set_i:ident, $set_mem:ident, Int.reduceMod, e1, e3, if_false, if_true, and_self, ne_eq,
            not_true_eq_false, not_false_eq_true, Bool.false_eq_true, Int.reduceEq, Int.reduceNe, Good, $view:ident, Int.natCast_zero, true_and]
          rw [conv_id _ _ _ _ _ hb]
        · have e2 : ¬ ((so : Int) = (dO : Int)) := by omega
          obtain ⟨hdj, hlt⟩ := hfd hip hfast
          unfold Disj at hdj
          have e4 : ((num : Int) * $esz % 4294967296) = ((num * $esz : Nat) : Int) := by omega
          simp only [$f:ident, $set_fast_processing:ident, $set_in_place:ident, $set_source:ident, $set_dest:ident, $set_ret:ident,
            $set_done:ident, $set_i:ident, $set_mem:ident, Int.reduceMod, e1, e2, e3, if_false, if_true, and_self, ne_eq,
            not_true_eq_false, not_false_eq_true, Bool.false_eq_true, Int.reduceEq, Int.reduceNe, Good, $view:ident, Int.natCast_zero, true_and]
          simp (disch := omega) only [e4, $chkT:ident, bytes_length]
          simp only [Int.toNat_natCast, tnn, true_and]
          rw [memcpy_bytes _ _ _ _ hb1, conv_contig $esz num so dO m hb1 hb2 hdj]
      · have hS : effS $esz ss ds = ss := by unfold effS; unfold fastNb at hfast; split <;> omega
        have hD : effD $esz ss ds = ds := by unfold effD; unfold fastNb at hfast; split <;> omega
        have e3 : ¬ (((ss : Int) = 0 ∧ (ds : Int) = 0) ∨ ((ss : Int) = $esz ∧ (ds : Int) = $esz)) := by unfold fastNb at hfast; omega
        rw [hS, hD] at hb ⊢
        by_cases hip : so = dO
        · subst hip
          obtain ⟨k1, k2, k3, k4⟩ := good_of_view ($l1 ss ds num fuel
            { s_ := so, d := so, num_elm := num, source_stride := ss, dest_stride := ds, source := so, dest := so,
              fast_processing := 0, in_place := 1, i := 0, mem := bytes m, buf := List.replicate $esz 0 }
            so so 0 m hf ⟨rfl, rfl, by simp⟩ rfl rfl rfl (by simp) (by omega) rfl rfl hb (fun h => by simp at h)) rfl rfl rfl
          simp only [$f:ident, $set_fast_processing:ident, $set_in_place:ident, $set_source:ident, $set_dest:ident, $set_ret:ident,
            $set_done:ident, $set_i:ident, $set_mem:ident, Int.reduceMod, e1, e3, if_false, if_true, and_self, ne_eq,
            not_true_eq_false, not_false_eq_true, Bool.false_eq_true, Int.reduceEq, Int.reduceNe, Good, $view:ident, Int.natCast_zero] at k1 k2 k3 k4
          simp only [$f:ident, $set_fast_processing:ident, $set_in_place:ident, $set_source:ident, $set_dest:ident, $set_ret:ident,
            $set_done:ident, $set_i:ident, $set_mem:ident, Int.reduceMod, e1, e3, if_false, if_true, and_self, ne_eq,
            not_true_eq_false, not_false_eq_true, Bool.false_eq_true, Int.reduceEq, Int.reduceNe, Good, $view:ident, Int.natCast_zero, k4]
          exact ⟨k1, k2, trivial, k3⟩
        · have e2 : ¬ ((so : Int) = (dO : Int)) := by omega
          obtain ⟨k1, k2, k3, k4⟩ := good_of_view ($l0 ss ds num fuel
            { s_ := so, d := dO, num_elm := num, source_stride := ss, dest_stride := ds, source := so, dest := dO,
              fast_processing := 0, in_place := 0, i := 0, mem := bytes m, buf := List.replicate $esz 0 }
            so dO 0 m hf ⟨rfl, rfl, by simp⟩ rfl rfl rfl (by simp) (by omega) rfl rfl hb (fun _ => hd hip hfast)) rfl rfl rfl
          simp only [$f:ident, $set_fast_processing:ident, $set_in_place:ident, $set_source:ident, $set_dest:ident, $set_ret:ident,
            $set_done:ident, $set_i:ident, $set_mem:ident, Int.reduceMod, e1, e2, e3, if_false, if_true, and_self, ne_eq,
            not_true_eq_false, not_false_eq_true, Bool.false_eq_true, Int.reduceEq, Int.reduceNe, Good, $view:ident, Int.natCast_zero] at k1 k2 k3 k4
          simp only [$f:ident, $set_fast_processing:ident, $set_in_place:ident, $set_source:ident, $set_dest:ident, $set_ret:ident,
            $set_done:ident, $set_i:ident, $set_mem:ident, Int.reduceMod, e1, e2, e3, if_false, if_true, and_self, ne_eq,
            not_true_eq_false, not_false_eq_true, Bool.false_eq_true, Int.reduceEq, Int.reduceNe, Good, $view:ident, Int.natCast_zero, k4]
          exact ⟨k1, k2, trivial, k3⟩
    theorem $ubiff (fuel num so ss dO ds : Nat) (m : List Byte) (hn0 : num ≠ 0) (hne : so ≠ dO) (hfast : fastNb $esz ss ds)
        (hb1 : so + num * $esz ≤ m.length) (hb2 : dO + num * $esz ≤ m.length) (hlt : num * $esz < 4294967296) :
        ($f fuel so (bytes m) dO num ss ds).ub = true ↔ ¬ Disj so (num * $esz) dO (num * $esz) := by
      have e1 : ¬ ((num : Int) = 0) := by omega
      have e2 : ¬ ((so : Int) = (dO : Int)) := by omega
      have e3 : (((ss : Int) = 0 ∧ (ds : Int) = 0) ∨ ((ss : Int) = $esz ∧ (ds : Int) = $esz)) := by unfold fastNb at hfast; omega
      have e4 : ((num : Int) * $esz % 4294967296) = ((num * $esz : Nat) : Int) := by omega
      simp only [$f:ident, $set_fast_processing:ident, $set_in_place:ident, $set_source:ident, $set_dest:ident, $set_ret:ident,
        $set_done:ident, $set_i:ident, $set_mem:ident, Int.reduceMod, e1, e2, e3, if_false, if_true, and_self, ne_eq,
        not_true_eq_false, not_false_eq_true, Bool.false_eq_true, Int.reduceEq, Int.reduceNe, Int.natCast_zero, true_and]
      simp (disch := omega) only [e4, $chkT:ident, bytes_length]
      simp only [$chk:ident, Disj]
      simp
      omega)

conv_entry_nb DFKnb2b 2
conv_entry_nb DFKnb4b 4
conv_entry_nb DFKnb8b 8

theorem DFKnb1b_run (fuel num so ss dO ds : Nat) (m : List Byte) (hf : num ≤ fuel) (hn0 : num ≠ 0) (hn : num < 4294967296)
    (hb : InBounds 1 num so (effS 1 ss ds) dO (effD 1 ss ds) m.length)
    (hfd : so ≠ dO → fastNb 1 ss ds → Disj so (num * 1) dO (num * 1)) :
    Good (DFKnb1b.view (DFKnb1b fuel so (bytes m) dO num ss ds)) (bytes (conv 1 false num so (effS 1 ss ds) dO (effD 1 ss ds) m)) := by
  have e1 : ¬ ((num : Int) = 0) := by omega
  by_cases hfast : fastNb 1 ss ds
  · have hS : effS 1 ss ds = 1 := by unfold effS; unfold fastNb at hfast; split <;> omega
    have hD : effD 1 ss ds = 1 := by unfold effD; unfold fastNb at hfast; split <;> omega
    have e3 : (((ss : Int) = 0 ∧ (ds : Int) = 0) ∨ ((ss : Int) = 1 ∧ (ds : Int) = 1)) := by unfold fastNb at hfast; omega
    rw [hS, hD] at hb ⊢
    obtain ⟨hb1, hb2⟩ := inb_total hn0 hb
    by_cases hip : so = dO
    · subst hip
      simp only [DFKnb1b, DFKnb1b.St.set_fast_processing, DFKnb1b.St.set_in_place, DFKnb1b.St.set_source, DFKnb1b.St.set_dest, DFKnb1b.St.set_ret,
        DFKnb1b.St.set_done, DFKnb1b.St.set_i, DFKnb1b.St.set_mem, Int.reduceMod, e1, e3, if_false, if_true, and_self, ne_eq,
        not_true_eq_false, not_false_eq_true, Bool.false_eq_true, Int.reduceEq, Int.reduceNe, Good, DFKnb1b.view, Int.natCast_zero, true_and]
      rw [conv_id _ _ _ _ _ hb]
    · have e2 : ¬ ((so : Int) = (dO : Int)) := by omega
      have hdj := hfd hip hfast
      unfold Disj at hdj
      simp only [Nat.mul_one] at hb1 hb2 hdj
      simp only [DFKnb1b, DFKnb1b.St.set_fast_processing, DFKnb1b.St.set_in_place, DFKnb1b.St.set_source, DFKnb1b.St.set_dest, DFKnb1b.St.set_ret,
        DFKnb1b.St.set_done, DFKnb1b.St.set_i, DFKnb1b.St.set_mem, Int.reduceMod, e1, e2, e3, if_false, if_true, and_self, ne_eq,
        not_true_eq_false, not_false_eq_true, Bool.false_eq_true, Int.reduceEq, Int.reduceNe, Good, DFKnb1b.view, Int.natCast_zero, true_and]
      simp (disch := omega) only [DFKnb1b.chk_true, bytes_length]
      simp only [Int.toNat_natCast, tnn, true_and]
      rw [memcpy_bytes _ _ _ _ hb1, conv_contig 1 num so dO m (by omega) (by omega) (by unfold Disj; omega), Nat.mul_one]
  · have hS : effS 1 ss ds = ss := by unfold effS; unfold fastNb at hfast; split <;> omega
    have hD : effD 1 ss ds = ds := by unfold effD; unfold fastNb at hfast; split <;> omega
    have e3 : ¬ (((ss : Int) = 0 ∧ (ds : Int) = 0) ∨ ((ss : Int) = 1 ∧ (ds : Int) = 1)) := by unfold fastNb at hfast; omega
    rw [hS, hD] at hb ⊢
    obtain ⟨k, rfl⟩ : ∃ k, num = k + 1 := ⟨num - 1, by omega⟩
    by_cases hip : so = dO
    · subst hip
      obtain ⟨hb1, hb2⟩ := inb_head hb
      have em : (bytes m).set so ((bytes m)[so]?.getD 0) = bytes (writeN m so (tr false (readN m so 1))) := by
        rw [bytes_step, ← sets_gets_eq _ _ _ _ _ (by simpa using hb1) (by simpa using hb2)]
        simp [setsAt, getsFrom, trI]
      obtain ⟨k1, k2, k3, k4⟩ := good_of_view (DFKnb1b.loop0_spec ss ds k fuel
        { s_ := so, d := so, num_elm := ((k + 1 : Nat) : Int), source_stride := ss, dest_stride := ds, source := so, dest := so,
          fast_processing := 0, in_place := 1, i := 1, mem := bytes (writeN m so (tr false (readN m so 1))) }
        (so + ss) (so + ds) 1 (writeN m so (tr false (readN m so 1))) (by omega) ⟨rfl, rfl⟩ (by simp) (by simp) rfl (by simp; omega) (by omega) rfl rfl
        (by rw [step_length _ _ _ _ _ hb1 hb2]; exact inb_tail hb)) rfl rfl rfl
      simp only [DFKnb1b.view] at k1 k2 k3 k4
      simp only [DFKnb1b, DFKnb1b.St.set_fast_processing, DFKnb1b.St.set_in_place, DFKnb1b.St.set_source, DFKnb1b.St.set_dest, DFKnb1b.St.set_ret,
        DFKnb1b.St.set_done, DFKnb1b.St.set_i, DFKnb1b.St.set_mem, Int.reduceMod, e1,  e3, if_false, if_true, and_self, ne_eq,
        not_true_eq_false, not_false_eq_true, Bool.false_eq_true, Int.reduceEq, Int.reduceNe, Good, DFKnb1b.view, Int.natCast_zero]
      simp (disch := omega) only [DFKnb1b.chk_true, bytes_length, Int.toNat_natCast, List.getD_eq_getElem?_getD, em]
      simp only [k4, Bool.false_eq_true, if_false]
      exact ⟨k1, k2, trivial, k3⟩
    · have e2 : ¬ ((so : Int) = (dO : Int)) := by omega
      obtain ⟨hb1, hb2⟩ := inb_head hb
      have em : (bytes m).set dO ((bytes m)[so]?.getD 0) = bytes (writeN m dO (tr false (readN m so 1))) := by
        rw [bytes_step, ← sets_gets_eq _ _ _ _ _ (by simpa using hb1) (by simpa using hb2)]
        simp [setsAt, getsFrom, trI]
      obtain ⟨k1, k2, k3, k4⟩ := good_of_view (DFKnb1b.loop0_spec ss ds k fuel
        { s_ := so, d := dO, num_elm := ((k + 1 : Nat) : Int), source_stride := ss, dest_stride := ds, source := so, dest := dO,
          fast_processing := 0, in_place := 0, i := 1, mem := bytes (writeN m dO (tr false (readN m so 1))) }
        (so + ss) (dO + ds) 1 (writeN m dO (tr false (readN m so 1))) (by omega) ⟨rfl, rfl⟩ (by simp) (by simp) rfl (by simp; omega) (by omega) rfl rfl
        (by rw [step_length _ _ _ _ _ hb1 hb2]; exact inb_tail hb)) rfl rfl rfl
      simp only [DFKnb1b.view] at k1 k2 k3 k4
      simp only [DFKnb1b, DFKnb1b.St.set_fast_processing, DFKnb1b.St.set_in_place, DFKnb1b.St.set_source, DFKnb1b.St.set_dest, DFKnb1b.St.set_ret,
        DFKnb1b.St.set_done, DFKnb1b.St.set_i, DFKnb1b.St.set_mem, Int.reduceMod, e1, e2, e3, if_false, if_true, and_self, ne_eq,
        not_true_eq_false, not_false_eq_true, Bool.false_eq_true, Int.reduceEq, Int.reduceNe, Good, DFKnb1b.view, Int.natCast_zero]
      simp (disch := omega) only [DFKnb1b.chk_true, bytes_length, Int.toNat_natCast, List.getD_eq_getElem?_getD, em]
      simp only [k4, Bool.false_eq_true, if_false]
      exact ⟨k1, k2, trivial, k3⟩

theorem DFKnb1b_fast_ub (fuel num so ss dO ds : Nat) (m : List Byte) (hn0 : num ≠ 0) (hne : so ≠ dO) (hfast : fastNb 1 ss ds)
    (hb1 : so + num ≤ m.length) (hb2 : dO + num ≤ m.length) :
    (DFKnb1b fuel so (bytes m) dO num ss ds).ub = true ↔ ¬ Disj so num dO num := by
  have e1 : ¬ ((num : Int) = 0) := by omega
  have e2 : ¬ ((so : Int) = (dO : Int)) := by omega
  have e3 : (((ss : Int) = 0 ∧ (ds : Int) = 0) ∨ ((ss : Int) = 1 ∧ (ds : Int) = 1)) := by unfold fastNb at hfast; omega
  simp only [DFKnb1b, DFKnb1b.St.set_fast_processing, DFKnb1b.St.set_in_place, DFKnb1b.St.set_source, DFKnb1b.St.set_dest, DFKnb1b.St.set_ret,
    DFKnb1b.St.set_done, DFKnb1b.St.set_i, DFKnb1b.St.set_mem, Int.reduceMod, e1, e2, e3, if_false, if_true, and_self, ne_eq,
    not_true_eq_false, not_false_eq_true, Bool.false_eq_true, Int.reduceEq, Int.reduceNe, Int.natCast_zero, true_and]
  simp (disch := omega) only [DFKnb1b.chk_true, bytes_length]
  simp only [DFKnb1b.chk, Disj]
  simp
  omega

end H4.Lemmas.C06Fn
