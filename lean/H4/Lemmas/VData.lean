import H4.VData
import Mathlib.Tactic.Ring
/-! Helper lemmas for C07 (Vdata record transfer): byte-move programs on `Array UInt8`, the loops of `VSread`/`VSwrite`
    as move programs, record layouts (prefix sums, injectivity), per-case transfer specifications. -/
namespace H4.VData
open H4.Gen.Hdf H4.Gen.Vs

/-! ### byte-move programs -/

theorem getB_eq (b : Buf) (i : Nat) : getB b i = b[i]?.getD 0 := by
  simp [getB]

theorem getB_set (d : Buf) (i p : Nat) (v : Byte) :
    getB (d.setIfInBounds i v) p = if p = i ∧ i < d.size then v else getB d p := by
  simp only [getB_eq, Array.getElem?_setIfInBounds]
  by_cases h : i = p
  · subst h
    by_cases h2 : i < d.size
    · simp [h2]
    · simp [h2]
  · have : ¬ p = i := fun e => h e.symm
    simp [h, this]

/-- a straight-line program of byte moves `dst[m.1] := src[m.2]` -/
def applyMoves (src : Buf) (ms : List (Nat × Nat)) (dst : Buf) : Buf :=
  ms.foldl (fun d m => d.setIfInBounds m.1 (getB src m.2)) dst

@[simp] theorem size_applyMoves (src : Buf) (ms : List (Nat × Nat)) (dst : Buf) :
    (applyMoves src ms dst).size = dst.size := by
  induction ms generalizing dst with
  | nil => rfl
  | cons m t ih => simp [applyMoves, List.foldl_cons] at ih ⊢; rw [ih]; simp

theorem applyMoves_append (src : Buf) (a b : List (Nat × Nat)) (dst : Buf) :
    applyMoves src (a ++ b) dst = applyMoves src b (applyMoves src a dst) := by
  simp [applyMoves, List.foldl_append]

theorem applyMoves_notin {src : Buf} {ms : List (Nat × Nat)} {dst : Buf} {p : Nat}
    (h : ∀ m ∈ ms, m.1 ≠ p) : getB (applyMoves src ms dst) p = getB dst p := by
  induction ms generalizing dst with
  | nil => rfl
  | cons m t ih =>
    simp only [applyMoves, List.foldl_cons] at ih ⊢
    rw [ih (fun m' hm' => h m' (List.mem_cons_of_mem _ hm')), getB_set]
    have := h m List.mem_cons_self
    rw [if_neg (fun e => this e.1.symm)]

theorem applyMoves_mem {src : Buf} {ms : List (Nat × Nat)} {dst : Buf} {m : Nat × Nat}
    (hm : m ∈ ms) (hb : m.1 < dst.size)
    (hag : ∀ m' ∈ ms, m'.1 = m.1 → getB src m'.2 = getB src m.2) :
    getB (applyMoves src ms dst) m.1 = getB src m.2 := by
  induction ms generalizing dst m with
  | nil => cases hm
  | cons h t ih =>
    simp only [applyMoves, List.foldl_cons] at ih ⊢
    by_cases c : ∃ m' ∈ t, m'.1 = m.1
    · obtain ⟨m', hm', e⟩ := c
      have := ih (dst := dst.setIfInBounds h.1 (getB src h.2)) (m := m') hm' (by simp; omega)
        (fun a ha ea => by
          rw [hag a (List.mem_cons_of_mem _ ha) (ea.trans e), hag m' (List.mem_cons_of_mem _ hm') e])
      rw [e] at this
      rw [this, hag m' (List.mem_cons_of_mem _ hm') e]
    · have hne : ∀ m' ∈ t, m'.1 ≠ m.1 := fun m' hm' e => c ⟨m', hm', e⟩
      have := applyMoves_notin (src := src) (dst := dst.setIfInBounds h.1 (getB src h.2)) hne
      simp only [applyMoves] at this
      rw [this, getB_set]
      rcases List.mem_cons.mp hm with e | e
      · subst e; simp [hb]
      · exact absurd rfl (hne m e)


/-! ### the transfer loops as move programs -/

/-- byte `b` of an element of `t` bytes is taken from byte `mir swap t b` of the source element -/
def mir (swap : Bool) (t b : Nat) : Nat := if swap then t - 1 - b else b

theorem mir_lt {swap : Bool} {t b : Nat} (h : b < t) : mir swap t b < t := by
  unfold mir; split <;> omega

theorem mir_mir {swap : Bool} {t b : Nat} (h : b < t) : mir swap t (mir swap t b) = b := by
  unfold mir; cases swap <;> simp <;> omega

def elemMoves (tsz : Nat) (swap : Bool) (s d : Nat) : List (Nat × Nat) :=
  (List.range tsz).map fun b => (d + b, s + mir swap tsz b)

theorem copyElem_eq (tsz : Nat) (swap : Bool) (src : Buf) (s : Nat) (dst : Buf) (d : Nat) :
    copyElem tsz swap src s dst d = applyMoves src (elemMoves tsz swap s d) dst := by
  simp [copyElem, applyMoves, elemMoves, List.foldl_map, mir]

theorem foldl_applyMoves {α : Type} (src : Buf) (g : α → List (Nat × Nat)) (xs : List α) (dst : Buf) :
    xs.foldl (fun d x => applyMoves src (g x) d) dst = applyMoves src (xs.flatMap g) dst := by
  induction xs generalizing dst with
  | nil => rfl
  | cons x t ih => rw [List.foldl_cons, ih, List.flatMap_cons, applyMoves_append]

/-- effective strides of `DFKconvert`: `(0,0)` means contiguous -/
def effS (tsz ss ds : Nat) : Nat := if ss = 0 ∧ ds = 0 then tsz else ss
def effD (tsz ss ds : Nat) : Nat := if ss = 0 ∧ ds = 0 then tsz else ds

def convMoves (tsz : Nat) (swap : Bool) (s d n ss ds : Nat) : List (Nat × Nat) :=
  (List.range n).flatMap fun i => elemMoves tsz swap (s + i * effS tsz ss ds) (d + i * effD tsz ss ds)

theorem dfkConvert_eq (tsz : Nat) (swap : Bool) (src : Buf) (s : Nat) (dst : Buf) (d n ss ds : Nat) :
    dfkConvert tsz swap src s dst d n ss ds = applyMoves src (convMoves tsz swap s d n ss ds) dst := by
  simp only [dfkConvert, copyElem_eq, convMoves, effS, effD]
  exact foldl_applyMoves src _ _ _

def idxMoves (f : Field) (s d n ss ds sadv dadv : Nat) : List (Nat × Nat) :=
  (List.range f.order).flatMap fun idx => convMoves f.tsz f.swap (s + idx * sadv) (d + idx * dadv) n ss ds

theorem ptrFold_eq (src : Buf) (g : Nat → Nat → List (Nat × Nat)) (a c : Nat) (k : Nat) (dst : Buf) (s d : Nat) :
    (List.range k).foldl (fun (st : Buf × Nat × Nat) _ => (applyMoves src (g st.2.1 st.2.2) st.1, st.2.1 + a, st.2.2 + c)) (dst, s, d)
      = (applyMoves src ((List.range k).flatMap fun idx => g (s + idx * a) (d + idx * c)) dst, s + k * a, d + k * c) := by
  induction k with
  | zero => simp [applyMoves]
  | succ k ih =>
    rw [List.range_succ, List.foldl_append, ih]
    simp only [List.foldl_cons, List.foldl_nil, List.flatMap_append, List.flatMap_cons, List.flatMap_nil, List.append_nil,
      applyMoves_append]
    congr 2 <;> ring

theorem indexLoop_eq (f : Field) (src dst : Buf) (s d n ss ds sadv dadv : Nat) :
    indexLoop f src dst s d n ss ds sadv dadv
      = (applyMoves src (idxMoves f s d n ss ds sadv dadv) dst, s + f.order * sadv, d + f.order * dadv) := by
  simp only [indexLoop, dfkConvert_eq]
  exact ptrFold_eq src (fun s d => convMoves f.tsz f.swap s d n ss ds) sadv dadv f.order dst s d

theorem mem_idxMoves {f : Field} {s d n ss ds sadv dadv : Nat} {m : Nat × Nat} :
    m ∈ idxMoves f s d n ss ds sadv dadv ↔
      ∃ idx < f.order, ∃ i < n, ∃ b < f.tsz,
        m = (d + idx * dadv + i * effD f.tsz ss ds + b, s + idx * sadv + i * effS f.tsz ss ds + mir f.swap f.tsz b) := by
  simp only [idxMoves, convMoves, elemMoves, List.mem_flatMap, List.mem_map, List.mem_range]
  constructor
  · rintro ⟨idx, hidx, i, hi, b, hb, rfl⟩; exact ⟨idx, hidx, i, hi, b, hb, rfl⟩
  · rintro ⟨idx, hidx, i, hi, b, hb, rfl⟩; exact ⟨idx, hidx, i, hi, b, hb, rfl⟩

/-- moves of a loop over fields whose per-field moves depend on an accumulated offset -/
def fieldMoves {α : Type} (mv : α → Nat → List (Nat × Nat)) (h : α → Nat) : List α → Nat → List (Nat × Nat)
  | [], _ => []
  | x :: xs, o => mv x o ++ fieldMoves mv h xs (o + h x)

theorem fieldFold_eq {α : Type} (src : Buf) (mv : α → Nat → List (Nat × Nat)) (h : α → Nat) (xs : List α) (o : Nat) (dst : Buf) :
    xs.foldl (fun (st : Buf × Nat) x => (applyMoves src (mv x st.2) st.1, st.2 + h x)) (dst, o)
      = (applyMoves src (fieldMoves mv h xs o) dst, o + (xs.map h).sum) := by
  induction xs generalizing o dst with
  | nil => simp [fieldMoves, applyMoves]
  | cons x t ih =>
    rw [List.foldl_cons, ih]
    simp only [fieldMoves, applyMoves_append, List.map_cons, List.sum_cons]
    congr 1; ring

/-- prefix sum -/
def pre (szs : List Nat) (j : Nat) : Nat := (szs.take j).sum

theorem mem_fieldMoves {α : Type} {mv : α → Nat → List (Nat × Nat)} {h : α → Nat} {xs : List α} {o : Nat} {m : Nat × Nat} :
    m ∈ fieldMoves mv h xs o ↔ ∃ j, ∃ hj : j < xs.length, m ∈ mv xs[j] (o + pre (xs.map h) j) := by
  induction xs generalizing o with
  | nil => simp [fieldMoves]
  | cons x t ih =>
    simp only [fieldMoves, List.mem_append, ih]
    constructor
    · rintro (hm | ⟨j, hj, hm⟩)
      · exact ⟨0, by simp, by simpa [pre] using hm⟩
      · refine ⟨j + 1, by simp; omega, ?_⟩
        simp only [List.getElem_cons_succ, pre, List.map_cons, List.take_succ_cons, List.sum_cons]
        simp only [pre] at hm
        rwa [Nat.add_assoc] at hm
    · rintro ⟨j, hj, hm⟩
      cases j with
      | zero => left; simpa [pre] using hm
      | succ j =>
        right
        refine ⟨j, by simp at hj; omega, ?_⟩
        simp only [List.getElem_cons_succ, pre, List.map_cons, List.take_succ_cons, List.sum_cons] at hm
        simp only [pre]
        rwa [Nat.add_assoc]


/-! ### record layouts -/

theorem pre_zero (szs : List Nat) : pre szs 0 = 0 := by simp [pre]

theorem pre_succ {szs : List Nat} {j : Nat} (h : j < szs.length) : pre szs (j + 1) = pre szs j + szs[j] := by
  induction szs generalizing j with
  | nil => simp at h
  | cons a t ih =>
    cases j with
    | zero => simp [pre]
    | succ j =>
      simp only [pre, List.take_succ_cons, List.sum_cons, List.getElem_cons_succ] at ih ⊢
      rw [ih (by simpa using h)]; omega

theorem pre_ge_length {szs : List Nat} {j : Nat} (h : szs.length ≤ j) : pre szs j = szs.sum := by
  simp [pre, List.take_of_length_le h]

theorem pre_mono (szs : List Nat) {j j' : Nat} (h : j ≤ j') : pre szs j ≤ pre szs j' := by
  induction j' with
  | zero => have : j = 0 := by omega
            subst this; exact Nat.le_refl _
  | succ k ih =>
    rcases Nat.lt_or_ge j (k + 1) with c | c
    · have h1 := ih (by omega)
      rcases Nat.lt_or_ge k szs.length with c2 | c2
      · rw [pre_succ c2]; omega
      · rw [pre_ge_length (by omega : szs.length ≤ k + 1), ← pre_ge_length c2]; exact h1
    · have : j = k + 1 := by omega
      subst this; exact Nat.le_refl _

theorem pre_le_sum (szs : List Nat) (j : Nat) : pre szs j ≤ szs.sum := by
  rw [← pre_ge_length (Nat.le_max_left szs.length j)]
  exact pre_mono szs (Nat.le_max_right _ _)

theorem pre_add_le {szs : List Nat} {j j' : Nat} (hj' : j < j') (h : j < szs.length) : pre szs j + szs[j] ≤ pre szs j' := by
  rw [← pre_succ h]; exact pre_mono szs hj'

theorem pre_add_le_sum {szs : List Nat} {j : Nat} (h : j < szs.length) : pre szs j + szs[j] ≤ szs.sum := by
  rw [← pre_succ h]; exact pre_le_sum _ _

/-- the byte intervals of the fields of a record do not overlap -/
theorem interval_inj {szs : List Nat} {j j' e e' : Nat} (hj : j < szs.length) (hj' : j' < szs.length)
    (he : e < szs[j]) (he' : e' < szs[j']) (h : pre szs j + e = pre szs j' + e') : j = j' ∧ e = e' := by
  rcases Nat.lt_trichotomy j j' with c | c | c
  · have := pre_add_le c hj; omega
  · subst c; exact ⟨rfl, by omega⟩
  · have := pre_add_le c hj'; omega

/-- address of byte 0 of field `j` of record `r` in a buffer holding `n` records of fields with sizes `szs`:
    record-major (`FULL_INTERLACE`) or field-major (`NO_INTERLACE`) -/
def layoutAddr (full : Bool) (szs : List Nat) (n r j : Nat) : Nat :=
  if full then r * szs.sum + pre szs j else pre szs j * n + r * szs.getD j 0

theorem getD_eq_getElem {szs : List Nat} {j : Nat} (h : j < szs.length) : szs.getD j 0 = szs[j] := by
  simp [List.getD_eq_getElem?_getD, h]

theorem mul_add_lt {r n sz e : Nat} (hr : r < n) (he : e < sz) : r * sz + e < n * sz := by
  calc r * sz + e < r * sz + sz := by omega
    _ = (r + 1) * sz := by ring
    _ ≤ n * sz := Nat.mul_le_mul_right _ hr

theorem div_mod_unique {C m c m' c' : Nat} (hc : c < C) (hc' : c' < C) (h : m * C + c = m' * C + c') :
    m = m' ∧ c = c' := by
  have hC : 0 < C := by omega
  have e1 : (m * C + c) / C = m := by
    rw [Nat.add_comm, Nat.add_mul_div_right _ _ hC, Nat.div_eq_of_lt hc]; simp
  have e2 : (m' * C + c') / C = m' := by
    rw [Nat.add_comm, Nat.add_mul_div_right _ _ hC, Nat.div_eq_of_lt hc']; simp
  have hm : m = m' := by rw [← e1, ← e2, h]
  subst hm
  exact ⟨rfl, by omega⟩

theorem layoutAddr_inj {full : Bool} {szs : List Nat} {n r j e r' j' e' : Nat}
    (hj : j < szs.length) (hj' : j' < szs.length) (he : e < szs[j]) (he' : e' < szs[j'])
    (hr : r < n) (hr' : r' < n)
    (h : layoutAddr full szs n r j + e = layoutAddr full szs n r' j' + e') : r = r' ∧ j = j' ∧ e = e' := by
  cases full with
  | true =>
    simp only [layoutAddr, if_true] at h
    have b1 := pre_add_le_sum hj
    have b2 := pre_add_le_sum hj'
    obtain ⟨h1, h2⟩ := div_mod_unique (C := szs.sum) (m := r) (m' := r') (c := pre szs j + e) (c' := pre szs j' + e')
      (by omega) (by omega) (by omega)
    obtain ⟨h3, h4⟩ := interval_inj hj hj' he he' h2
    exact ⟨h1, h3, h4⟩
  | false =>
    simp only [layoutAddr, Bool.false_eq_true, if_false, getD_eq_getElem hj, getD_eq_getElem hj'] at h
    have u1 := mul_add_lt hr he
    have u2 := mul_add_lt hr' he'
    rw [Nat.mul_comm n] at u1 u2
    have key : j = j' := by
      rcases Nat.lt_trichotomy j j' with c | c | c
      · have := Nat.mul_le_mul_right n (pre_add_le c hj)
        rw [Nat.add_mul] at this; omega
      · exact c
      · have := Nat.mul_le_mul_right n (pre_add_le c hj')
        rw [Nat.add_mul] at this; omega
    subst key
    obtain ⟨h1, h2⟩ := div_mod_unique (C := szs[j]) (m := r) (m' := r') he he' (by omega)
    exact ⟨h1, rfl, h2⟩

/-- end of the buffer: every field byte lies below `n · Σ szs` -/
theorem layoutAddr_lt {full : Bool} {szs : List Nat} {n r j e : Nat} (hj : j < szs.length) (he : e < szs[j]) (hr : r < n) :
    layoutAddr full szs n r j + e < n * szs.sum := by
  cases full with
  | true =>
    simp only [layoutAddr, if_true]
    have b1 := pre_add_le_sum hj
    have := mul_add_lt (sz := szs.sum) (e := pre szs j + e) hr (by omega)
    omega
  | false =>
    simp only [layoutAddr, Bool.false_eq_true, if_false, getD_eq_getElem hj]
    have u1 := mul_add_lt hr he
    have := Nat.mul_le_mul_right n (pre_add_le_sum hj)
    rw [Nat.add_mul] at this
    calc pre szs j * n + r * szs[j] + e < pre szs j * n + n * szs[j] := by omega
      _ = pre szs j * n + szs[j] * n := by ring
      _ ≤ szs.sum * n := this
      _ = n * szs.sum := by ring


/-! ### generic field loop -/

/-- specification of a move program by coordinates: every coordinate's destination receives its source byte,
    everything else is untouched -/
theorem moves_spec {ι : Type} {src dst : Buf} {ms : List (Nat × Nat)} (P : ι → Prop) (D S : ι → Nat)
    (hmem : ∀ m, m ∈ ms ↔ ∃ c, P c ∧ m = (D c, S c))
    (hinj : ∀ c c', P c → P c' → D c = D c' → S c = S c')
    (hb : ∀ c, P c → D c < dst.size) :
    (∀ c, P c → getB (applyMoves src ms dst) (D c) = getB src (S c)) ∧
    (∀ p, (∀ c, P c → D c ≠ p) → getB (applyMoves src ms dst) p = getB dst p) := by
  constructor
  · intro c hc
    have hm : (D c, S c) ∈ ms := (hmem _).mpr ⟨c, hc, rfl⟩
    have := applyMoves_mem (src := src) (dst := dst) hm (hb c hc) (by
      intro m' hm' e
      obtain ⟨c', hc', rfl⟩ := (hmem _).mp hm'
      simp only at e ⊢
      rw [hinj c' c hc' hc e])
    exact this
  · intro p hp
    apply applyMoves_notin
    intro m hm e
    obtain ⟨c, hc, rfl⟩ := (hmem _).mp hm
    exact hp c hc e

theorem getD_getElem {α : Type} {xs : List α} {j : Nat} (h : j < xs.length) (d : α) : xs.getD j d = xs[j] := by
  simp [List.getD_eq_getElem?_getD, h]

/-- parameters of one of the eight field loops of `VSread`/`VSwrite` -/
structure LoopPar (α : Type) where
  F : α → Field                 -- the field handled in this iteration
  SB : α → Nat → Nat            -- source pointer at the start of the `index` loop, given the accumulated offset
  DB : α → Nat → Nat            -- destination pointer
  ss : α → Nat                  -- source stride
  ds : α → Nat                  -- destination stride
  sadv : α → Nat                -- source bump per `index`
  dadv : α → Nat                -- destination bump per `index`
  h : α → Nat                   -- increment of the accumulated offset after the field

def LoopPar.mv {α : Type} (L : LoopPar α) (n : Nat) (x : α) (o : Nat) : List (Nat × Nat) :=
  idxMoves (L.F x) (L.SB x o) (L.DB x o) n (L.ss x) (L.ds x) (L.sadv x) (L.dadv x)

/-- the generic field loop as a move program -/
def fieldLoop {α : Type} (L : LoopPar α) (n : Nat) (src : Buf) (xs : List α) (dst : Buf) : Buf :=
  applyMoves src (fieldMoves (L.mv n) L.h xs 0) dst

/-- coordinates of one byte move: position `jj` in the field list, `idx < order`, record `i < n`, byte `b < tsz` -/
structure Co where
  jj : Nat
  idx : Nat
  i : Nat
  b : Nat

section
variable {α : Type} [Inhabited α] (L : LoopPar α) (n : Nat) (xs : List α)

def LoopPar.P (c : Co) : Prop :=
  c.jj < xs.length ∧ c.idx < (L.F (xs.getD c.jj default)).order ∧ c.i < n ∧ c.b < (L.F (xs.getD c.jj default)).tsz

def LoopPar.D (c : Co) : Nat :=
  let x := xs.getD c.jj default
  L.DB x (pre (xs.map L.h) c.jj) + c.idx * L.dadv x + c.i * effD (L.F x).tsz (L.ss x) (L.ds x) + c.b

def LoopPar.S (c : Co) : Nat :=
  let x := xs.getD c.jj default
  L.SB x (pre (xs.map L.h) c.jj) + c.idx * L.sadv x + c.i * effS (L.F x).tsz (L.ss x) (L.ds x) + mir (L.F x).swap (L.F x).tsz c.b

theorem mem_fieldLoopMoves {m : Nat × Nat} :
    m ∈ fieldMoves (L.mv n) L.h xs 0 ↔ ∃ c, L.P n xs c ∧ m = (L.D xs c, L.S xs c) := by
  rw [mem_fieldMoves]
  constructor
  · rintro ⟨j, hj, hm⟩
    rw [LoopPar.mv, mem_idxMoves] at hm
    obtain ⟨idx, hidx, i, hi, b, hb, rfl⟩ := hm
    have e := getD_getElem hj (default : α)
    refine ⟨⟨j, idx, i, b⟩, ⟨hj, ?_, hi, ?_⟩, ?_⟩
    · simp only [e]; exact hidx
    · simp only [e]; exact hb
    · simp only [LoopPar.D, LoopPar.S, e, Nat.zero_add]
  · rintro ⟨⟨j, idx, i, b⟩, ⟨hj, hidx, hi, hb⟩, rfl⟩
    have e := getD_getElem hj (default : α)
    simp only at hj hidx hi hb
    simp only [e] at hidx hb
    refine ⟨j, hj, ?_⟩
    rw [LoopPar.mv, mem_idxMoves]
    refine ⟨idx, hidx, i, hi, b, hb, ?_⟩
    simp only [LoopPar.D, LoopPar.S, e, Nat.zero_add]

theorem fieldLoop_spec (src dst : Buf)
    (hinj : ∀ c c', L.P n xs c → L.P n xs c' → L.D xs c = L.D xs c' → L.S xs c = L.S xs c')
    (hb : ∀ c, L.P n xs c → L.D xs c < dst.size) :
    (∀ c, L.P n xs c → getB (fieldLoop L n src xs dst) (L.D xs c) = getB src (L.S xs c)) ∧
    (∀ p, (∀ c, L.P n xs c → L.D xs c ≠ p) → getB (fieldLoop L n src xs dst) p = getB dst p) :=
  moves_spec (L.P n xs) (L.D xs) (L.S xs) (fun _ => mem_fieldLoopMoves L n xs) hinj hb

omit [Inhabited α] in
@[simp] theorem size_fieldLoop (src dst : Buf) : (fieldLoop L n src xs dst).size = dst.size := by
  simp [fieldLoop]
end


/-! ### well-formed write lists -/

/-- a write-list entry as produced by `VSfdefine`/`VSsetfields` on a platform where file and memory element sizes agree -/
def Field.WF (f : Field) : Prop := 1 ≤ f.order ∧ 1 ≤ f.tsz ∧ f.isize = f.order * f.tsz ∧ f.esize = f.order * f.tsz

def isizes (w : WList) : List Nat := w.fields.map (·.isize)
def esizes (w : WList) : List Nat := w.fields.map (·.esize)

/-- well-formed write list: field sizes consistent, `off` = prefix sums of `isize`, `ivsize` = their total -/
def WList.WF (w : WList) : Prop :=
  (∀ f ∈ w.fields, f.WF) ∧ (∀ j, j < w.n → (w.field j).off = pre (isizes w) j) ∧ w.ivsize = (isizes w).sum

/-- `esize` of the selected fields, in selection order -/
def selSizes (w : WList) (items : List Nat) : List Nat := items.map fun i => (w.field i).esize

theorem field_mem {w : WList} {i : Nat} (h : i < w.n) : w.field i ∈ w.fields := by
  unfold WList.field; rw [getD_getElem h]; exact List.getElem_mem h

theorem WList.WF.field {w : WList} (hw : w.WF) {i : Nat} (h : i < w.n) : (w.field i).WF := hw.1 _ (field_mem h)

theorem Field.WF.ediv {f : Field} (h : f.WF) : f.esize / f.order = f.tsz := by
  rw [h.2.2.2]; exact Nat.mul_div_cancel_left _ h.1
theorem Field.WF.idiv {f : Field} (h : f.WF) : f.isize / f.order = f.tsz := by
  rw [h.2.2.1]; exact Nat.mul_div_cancel_left _ h.1
theorem Field.WF.ie {f : Field} (h : f.WF) : f.isize = f.esize := by rw [h.2.2.1, h.2.2.2]
theorem Field.WF.esize_pos {f : Field} (h : f.WF) : 0 < f.esize := by
  rw [h.2.2.2]; exact Nat.mul_pos h.1 h.2.1

theorem elem_lt {f : Field} (h : f.WF) {idx b : Nat} (hi : idx < f.order) (hb : b < f.tsz) : idx * f.tsz + b < f.esize := by
  rw [h.2.2.2]; exact mul_add_lt hi hb

theorem foldl_add_eq_sum {α : Type} (g : α → Nat) (xs : List α) (a : Nat) :
    xs.foldl (fun a x => a + g x) a = a + (xs.map g).sum := by
  induction xs generalizing a with
  | nil => simp
  | cons x t ih => rw [List.foldl_cons, ih]; simp [Nat.add_assoc]

theorem uvsizeOf_eq (w : WList) (items : List Nat) : uvsizeOf w items = (selSizes w items).sum := by
  simp [uvsizeOf, selSizes, foldl_add_eq_sum]

theorem intSizeOf_eq (w : WList) : intSizeOf w = (esizes w).sum := by
  simp [intSizeOf, esizes, foldl_add_eq_sum]

theorem isizes_length (w : WList) : (isizes w).length = w.n := by simp [isizes, WList.n]
theorem esizes_length (w : WList) : (esizes w).length = w.n := by simp [esizes, WList.n]

theorem isizes_getElem {w : WList} {i : Nat} (h : i < w.n) : (isizes w)[i]'(by rw [isizes_length]; exact h) = (w.field i).isize := by
  unfold WList.field; rw [getD_getElem h]; simp only [isizes, List.getElem_map]; rfl

theorem esizes_getElem {w : WList} {i : Nat} (h : i < w.n) : (esizes w)[i]'(by rw [esizes_length]; exact h) = (w.field i).esize := by
  unfold WList.field; rw [getD_getElem h]; simp only [esizes, List.getElem_map]; rfl

theorem off_add_le_ivsize {w : WList} (hw : w.WF) {i : Nat} (h : i < w.n) : (w.field i).off + (w.field i).isize ≤ w.ivsize := by
  rw [hw.2.1 i h, hw.2.2, ← isizes_getElem h]
  exact pre_add_le_sum _

theorem sum_pos_of_mem {l : List Nat} {x : Nat} (h : x ∈ l) (hx : 0 < x) : 0 < l.sum := by
  induction l with
  | nil => cases h
  | cons a t ih =>
    rcases List.mem_cons.mp h with e | e
    · subst e; simp; omega
    · have := ih e; simp; omega

theorem ivsize_pos {w : WList} (hw : w.WF) (h : 0 < w.n) : 0 < w.ivsize := by
  have := off_add_le_ivsize hw h
  have := (hw.field h).ie ▸ (hw.field h).esize_pos
  omega

/-- the stored (file) layout of a batch of `n` records at the current position: record-major for a FULL_INTERLACE
    vdata, field-major for a NO_INTERLACE vdata -/
def fileAddr (vfull : Bool) (w : WList) (n r i : Nat) : Nat := layoutAddr vfull (isizes w) n r i

theorem fileAddr_full {w : WList} (hw : w.WF) {i : Nat} (h : i < w.n) (n r : Nat) :
    fileAddr true w n r i = r * w.ivsize + (w.field i).off := by
  simp [fileAddr, layoutAddr, hw.2.1 i h, hw.2.2]

theorem fileAddr_no {w : WList} (hw : w.WF) {i : Nat} (h : i < w.n) (n r : Nat) :
    fileAddr false w n r i = (w.field i).off * n + r * (w.field i).isize := by
  have h' : i < (isizes w).length := by rw [isizes_length]; exact h
  simp only [fileAddr, layoutAddr, Bool.false_eq_true, if_false]
  rw [getD_eq_getElem h', isizes_getElem h, hw.2.1 i h]


/-! ### loops whose destination follows a record layout -/

section
variable {α : Type} [Inhabited α] (L : LoopPar α) (xs : List α)

/-- sizes (memory = file size under `Field.WF`) of the fields handled by a loop -/
def LoopPar.szs : List Nat := xs.map fun x => (L.F x).esize

theorem LoopPar.szs_getElem {jj : Nat} (h : jj < xs.length) :
    (L.szs xs)[jj]'(by simpa [LoopPar.szs] using h) = (L.F (xs.getD jj default)).esize := by
  rw [getD_getElem h]; simp only [LoopPar.szs, List.getElem_map]

/-- a field loop whose destination addresses follow a record layout (record- or field-major, `N` records, this call
    handling records `r0 .. r0+n`) delivers every source byte to its layout position and touches nothing else -/
theorem layout_dst_spec (hWF : ∀ x ∈ xs, (L.F x).WF) (full : Bool) (N r0 n base : Nat) (hN : r0 + n ≤ N) (src dst : Buf)
    (hsize : base + N * (L.szs xs).sum ≤ dst.size)
    (hD : ∀ c, L.P n xs c → L.D xs c =
      base + layoutAddr full (L.szs xs) N (r0 + c.i) c.jj + (c.idx * (L.F (xs.getD c.jj default)).tsz + c.b)) :
    (∀ c, L.P n xs c →
      getB (fieldLoop L n src xs dst)
        (base + layoutAddr full (L.szs xs) N (r0 + c.i) c.jj + (c.idx * (L.F (xs.getD c.jj default)).tsz + c.b))
        = getB src (L.S xs c)) ∧
    (∀ p, (∀ r, r0 ≤ r → r < r0 + n → ∀ jj, ∀ hj : jj < (L.szs xs).length, ∀ e < (L.szs xs)[jj],
        p ≠ base + layoutAddr full (L.szs xs) N r jj + e) →
      getB (fieldLoop L n src xs dst) p = getB dst p) := by
  have hlen : (L.szs xs).length = xs.length := by simp [LoopPar.szs]
  have hwf : ∀ c, L.P n xs c → (L.F (xs.getD c.jj default)).WF := by
    intro c hc; rw [getD_getElem hc.1]; exact hWF _ (List.getElem_mem _)
  have he : ∀ c (hc : L.P n xs c), c.idx * (L.F (xs.getD c.jj default)).tsz + c.b < (L.szs xs)[c.jj]'(by rw [hlen]; exact hc.1) := by
    intro c hc; rw [L.szs_getElem xs hc.1]; exact elem_lt (hwf c hc) hc.2.1 hc.2.2.2
  obtain ⟨s1, s2⟩ := fieldLoop_spec L n xs src dst
    (by
      intro c c' hc hc' e
      rw [hD c hc, hD c' hc'] at e
      have hj : c.jj < (L.szs xs).length := by rw [hlen]; exact hc.1
      have hj' : c'.jj < (L.szs xs).length := by rw [hlen]; exact hc'.1
      obtain ⟨e1, e2, e3⟩ := layoutAddr_inj (full := full) (n := N) (r := r0 + c.i) (r' := r0 + c'.i) hj hj' (he c hc) (he c' hc')
        (by have := hc.2.2.1; omega) (by have := hc'.2.2.1; omega) (by omega)
      have ei : c.i = c'.i := by omega
      obtain ⟨j, idx, i, b⟩ := c
      obtain ⟨j', idx', i', b'⟩ := c'
      simp only at e1 e2 e3 ei hc hc'
      subst e2; subst ei
      obtain ⟨e4, e5⟩ := div_mod_unique hc.2.2.2 hc'.2.2.2 e3
      subst e4; subst e5; rfl)
    (by
      intro c hc
      rw [hD c hc]
      have hj : c.jj < (L.szs xs).length := by rw [hlen]; exact hc.1
      have := layoutAddr_lt (full := full) (n := N) (r := r0 + c.i) hj (he c hc) (by have := hc.2.2.1; omega)
      omega)
  constructor
  · intro c hc; rw [← hD c hc]; exact s1 c hc
  · intro p hp
    apply s2
    intro c hc e
    rw [hD c hc] at e
    have hj : c.jj < (L.szs xs).length := by rw [hlen]; exact hc.1
    exact hp (r0 + c.i) (by omega) (by have := hc.2.2.1; omega) c.jj hj _ (he c hc) (by omega)
end


/-! ### the cases of `VSread` -/

theorem effD_of_ne {tsz ss ds : Nat} (h : ss ≠ 0) : effD tsz ss ds = ds := by simp [effD, h]
theorem effS_of_ne {tsz ss ds : Nat} (h : ss ≠ 0) : effS tsz ss ds = ss := by simp [effS, h]

theorem pre_map_mul {α : Type} (g : α → Nat) (n : Nat) (xs : List α) (j : Nat) :
    pre (xs.map fun x => g x * n) j = pre (xs.map g) j * n := by
  induction xs generalizing j with
  | nil => simp [pre]
  | cons x t ih =>
    cases j with
    | zero => simp [pre]
    | succ j =>
      simp only [pre, List.map_cons, List.take_succ_cons, List.sum_cons] at ih ⊢
      rw [ih j]; ring

theorem pre_congr {α : Type} {g g' : α → Nat} {xs : List α} (h : ∀ x ∈ xs, g x = g' x) (j : Nat) :
    pre (xs.map g) j = pre (xs.map g') j := by
  rw [List.map_congr_left h]

/-! #### VSread case C -/

def LRC (w : WList) (src hsize uvsize : Nat) : LoopPar Nat :=
  { F := w.field, SB := fun i _ => (w.field i).off, DB := fun _ o => src + o, ss := fun _ => hsize, ds := fun _ => uvsize,
    sadv := fun i => (w.field i).isize / (w.field i).order, dadv := fun i => (w.field i).esize / (w.field i).order,
    h := fun i => (w.field i).esize }

theorem readC_eq (w : WList) (items : List Nat) (vt buf : Buf) (src chunk hsize uvsize : Nat) :
    readC w items vt buf src chunk hsize uvsize = fieldLoop (LRC w src hsize uvsize) chunk vt items buf := by
  have := fieldFold_eq vt ((LRC w src hsize uvsize).mv chunk) (LRC w src hsize uvsize).h items 0 buf
  simp only [LoopPar.mv, LRC] at this
  simp only [readC, indexLoop_eq, fieldLoop, LRC]
  rw [this]

theorem szs_read (w : WList) (L : LoopPar Nat) (hF : L.F = w.field) (items : List Nat) : L.szs items = selSizes w items := by
  simp [LoopPar.szs, selSizes, hF]

/-- common shape of the four multi-field read cases: destination = user layout, source = some file layout `SA` -/
theorem read_case_spec {w : WList} (hw : w.WF) {items : List Nat} (hit : ∀ i ∈ items, i < w.n)
    (L : LoopPar Nat) (hF : L.F = w.field) (ufull : Bool) (N r0 n : Nat) (hN : r0 + n ≤ N) (src dst : Buf)
    (hsz : N * (selSizes w items).sum ≤ dst.size) (SA : Nat → Nat → Nat)
    (hD : ∀ c, L.P n items c → L.D items c =
      layoutAddr ufull (selSizes w items) N (r0 + c.i) c.jj + (c.idx * (w.field (items.getD c.jj default)).tsz + c.b))
    (hS : ∀ c, L.P n items c → L.S items c =
      SA c.i (items.getD c.jj default) + (c.idx * (w.field (items.getD c.jj default)).tsz +
        mir (w.field (items.getD c.jj default)).swap (w.field (items.getD c.jj default)).tsz c.b)) :
    (fieldLoop L n src items dst).size = dst.size ∧
    (∀ r < n, ∀ jj, ∀ hj : jj < items.length, ∀ idx < (w.field items[jj]).order, ∀ b < (w.field items[jj]).tsz,
      getB (fieldLoop L n src items dst) (layoutAddr ufull (selSizes w items) N (r0 + r) jj + (idx * (w.field items[jj]).tsz + b))
        = getB src (SA r items[jj] + (idx * (w.field items[jj]).tsz + mir (w.field items[jj]).swap (w.field items[jj]).tsz b))) ∧
    (∀ p, (∀ r, r0 ≤ r → r < r0 + n → ∀ jj, ∀ hj : jj < (selSizes w items).length, ∀ e < (selSizes w items)[jj],
        p ≠ layoutAddr ufull (selSizes w items) N r jj + e) → getB (fieldLoop L n src items dst) p = getB dst p) := by
  have hszs : L.szs items = selSizes w items := szs_read w L hF items
  have hWF : ∀ x ∈ items, (L.F x).WF := fun x hx => by rw [hF]; exact hw.field (hit x hx)
  obtain ⟨s1, s2⟩ := layout_dst_spec L items hWF ufull N r0 n 0 hN src dst (by rw [hszs]; omega)
    (by intro c hc; rw [hD c hc, hszs, hF]; omega)
  refine ⟨by simp, ?_, ?_⟩
  · intro r hr jj hj idx hidx b hb
    have e := getD_getElem hj (default : Nat)
    have hc : L.P n items ⟨jj, idx, r, b⟩ := ⟨hj, by simp only [e, hF]; exact hidx, hr, by simp only [e, hF]; exact hb⟩
    have := s1 ⟨jj, idx, r, b⟩ hc
    simp only [hszs, e, Nat.zero_add, hF] at this
    rw [this, hS _ hc]
    simp only [e]
  · intro p hp
    apply s2
    intro r h1 h2 jj hj e he
    have hj' : jj < (selSizes w items).length := by rw [← hszs]; exact hj
    have := hp r h1 h2 jj hj' e (by simpa [hszs] using he)
    simpa [hszs] using this

/-- VSread case C, one chunk of `chunk` records starting at record `done` of a read of `N` records -/
theorem readC_spec {w : WList} (hw : w.WF) {items : List Nat} (hit : ∀ i ∈ items, i < w.n) (hn : 0 < w.n)
    (vt buf : Buf) (N done chunk : Nat) (hN : done + chunk ≤ N) (hsz : N * (selSizes w items).sum ≤ buf.size) :
    let buf' := readC w items vt buf (done * (selSizes w items).sum) chunk w.ivsize (selSizes w items).sum
    buf'.size = buf.size ∧
    (∀ r < chunk, ∀ jj, ∀ hj : jj < items.length, ∀ idx < (w.field items[jj]).order, ∀ b < (w.field items[jj]).tsz,
      getB buf' (layoutAddr true (selSizes w items) N (done + r) jj + (idx * (w.field items[jj]).tsz + b))
        = getB vt (fileAddr true w chunk r items[jj] + (idx * (w.field items[jj]).tsz + mir (w.field items[jj]).swap (w.field items[jj]).tsz b))) ∧
    (∀ p, (∀ r, done ≤ r → r < done + chunk → ∀ jj, ∀ hj : jj < (selSizes w items).length, ∀ e < (selSizes w items)[jj],
        p ≠ layoutAddr true (selSizes w items) N r jj + e) → getB buf' p = getB buf p) := by
  intro buf'
  have hbuf : buf' = fieldLoop (LRC w (done * (selSizes w items).sum) w.ivsize (selSizes w items).sum) chunk vt items buf := readC_eq ..
  rw [hbuf]
  have hiv := ivsize_pos hw hn
  apply read_case_spec hw hit _ rfl true N done chunk hN vt buf hsz (fun r i => fileAddr true w chunk r i)
  · intro c hc
    have hx : items.getD c.jj default ∈ items := by rw [getD_getElem hc.1]; exact List.getElem_mem _
    have wf := hw.field (hit _ hx)
    simp only [LoopPar.D, layoutAddr, if_true, LRC, wf.ediv, effD_of_ne (Nat.pos_iff_ne_zero.mp hiv)]
    have : pre (List.map (fun i => (w.field i).esize) items) c.jj = pre (selSizes w items) c.jj := rfl
    rw [this]; ring
  · intro c hc
    have hx : items.getD c.jj default ∈ items := by rw [getD_getElem hc.1]; exact List.getElem_mem _
    have wf := hw.field (hit _ hx)
    simp only [LoopPar.S, LRC, wf.idiv, effS_of_ne (Nat.pos_iff_ne_zero.mp hiv), fileAddr_full hw (hit _ hx)]
    ring



/-! #### VSread cases A and B (user buffer NO_INTERLACE: running pointer `b1`) -/

def LRA (w : WList) (nelt hsize : Nat) : LoopPar Nat :=
  { F := w.field, SB := fun i _ => (w.field i).off, DB := fun _ o => o, ss := fun _ => hsize, ds := fun i => (w.field i).esize,
    sadv := fun i => (w.field i).isize / (w.field i).order, dadv := fun i => (w.field i).esize / (w.field i).order,
    h := fun i => (w.field i).order * ((w.field i).esize / (w.field i).order) + (nelt - 1) * (w.field i).esize }

theorem readA_eq (w : WList) (items : List Nat) (vt buf : Buf) (nelt hsize : Nat) :
    readA w items vt buf nelt hsize = fieldLoop (LRA w nelt hsize) nelt vt items buf := by
  have := fieldFold_eq vt ((LRA w nelt hsize).mv nelt) (LRA w nelt hsize).h items 0 buf
  simp only [LoopPar.mv, LRA] at this
  simp only [readA, indexLoop_eq, fieldLoop, LRA, Nat.add_assoc]
  rw [this]

def LRB (w : WList) (nelt : Nat) : LoopPar Nat :=
  { F := w.field, SB := fun i _ => (w.field i).off * nelt, DB := fun _ o => o, ss := fun i => (w.field i).isize, ds := fun i => (w.field i).esize,
    sadv := fun i => (w.field i).isize / (w.field i).order, dadv := fun i => (w.field i).esize / (w.field i).order,
    h := fun i => (w.field i).order * ((w.field i).esize / (w.field i).order) + (nelt - 1) * (w.field i).esize }

theorem readB_eq (w : WList) (items : List Nat) (vt buf : Buf) (nelt : Nat) :
    readB w items vt buf nelt = fieldLoop (LRB w nelt) nelt vt items buf := by
  have := fieldFold_eq vt ((LRB w nelt).mv nelt) (LRB w nelt).h items 0 buf
  simp only [LoopPar.mv, LRB] at this
  simp only [readB, indexLoop_eq, fieldLoop, LRB, Nat.add_assoc]
  rw [this]

/-- the running pointer of the NO_INTERLACE user buffer is `n ·` (prefix sum of the selected `esize`s) -/
theorem pre_running {w : WList} (hw : w.WF) {items : List Nat} (hit : ∀ i ∈ items, i < w.n) {nelt : Nat} (hn : 1 ≤ nelt) (jj : Nat) :
    pre (items.map fun i => (w.field i).order * ((w.field i).esize / (w.field i).order) + (nelt - 1) * (w.field i).esize) jj
      = pre (selSizes w items) jj * nelt := by
  rw [selSizes, ← pre_map_mul]
  apply pre_congr
  intro i hi
  have wf := hw.field (hit i hi)
  rw [wf.ediv, ← wf.2.2.2]
  obtain ⟨m, rfl⟩ : ∃ m, nelt = m + 1 := ⟨nelt - 1, by omega⟩
  simp only [Nat.add_sub_cancel]; ring

theorem selSizes_getD {w : WList} {items : List Nat} {jj : Nat} (hj : jj < items.length) :
    (selSizes w items).getD jj 0 = (w.field (items.getD jj default)).esize := by
  rw [getD_eq_getElem (by simpa [selSizes] using hj), getD_getElem hj]; simp [selSizes]

theorem readA_spec {w : WList} (hw : w.WF) {items : List Nat} (hit : ∀ i ∈ items, i < w.n) (hn : 0 < w.n)
    (vt buf : Buf) (nelt : Nat) (hnelt : 1 ≤ nelt) (hsz : nelt * (selSizes w items).sum ≤ buf.size) :
    let buf' := readA w items vt buf nelt w.ivsize
    buf'.size = buf.size ∧
    (∀ r < nelt, ∀ jj, ∀ hj : jj < items.length, ∀ idx < (w.field items[jj]).order, ∀ b < (w.field items[jj]).tsz,
      getB buf' (layoutAddr false (selSizes w items) nelt (0 + r) jj + (idx * (w.field items[jj]).tsz + b))
        = getB vt (fileAddr true w nelt r items[jj] + (idx * (w.field items[jj]).tsz + mir (w.field items[jj]).swap (w.field items[jj]).tsz b))) ∧
    (∀ p, (∀ r, 0 ≤ r → r < 0 + nelt → ∀ jj, ∀ hj : jj < (selSizes w items).length, ∀ e < (selSizes w items)[jj],
        p ≠ layoutAddr false (selSizes w items) nelt r jj + e) → getB buf' p = getB buf p) := by
  intro buf'
  have hbuf : buf' = fieldLoop (LRA w nelt w.ivsize) nelt vt items buf := readA_eq ..
  rw [hbuf]
  have hiv := ivsize_pos hw hn
  apply read_case_spec hw hit _ rfl false nelt 0 nelt (by omega) vt buf hsz (fun r i => fileAddr true w nelt r i)
  · intro c hc
    have hx : items.getD c.jj default ∈ items := by rw [getD_getElem hc.1]; exact List.getElem_mem _
    have wf := hw.field (hit _ hx)
    simp only [LoopPar.D, layoutAddr, Bool.false_eq_true, if_false, selSizes_getD hc.1]
    simp only [LRA, pre_running hw hit hnelt, wf.ediv, effD_of_ne (Nat.pos_iff_ne_zero.mp hiv)]
    ring
  · intro c hc
    have hx : items.getD c.jj default ∈ items := by rw [getD_getElem hc.1]; exact List.getElem_mem _
    have wf := hw.field (hit _ hx)
    simp only [LoopPar.S, LRA, wf.idiv, effS_of_ne (Nat.pos_iff_ne_zero.mp hiv), fileAddr_full hw (hit _ hx)]
    ring

theorem readB_spec {w : WList} (hw : w.WF) {items : List Nat} (hit : ∀ i ∈ items, i < w.n)
    (vt buf : Buf) (nelt : Nat) (hnelt : 1 ≤ nelt) (hsz : nelt * (selSizes w items).sum ≤ buf.size) :
    let buf' := readB w items vt buf nelt
    buf'.size = buf.size ∧
    (∀ r < nelt, ∀ jj, ∀ hj : jj < items.length, ∀ idx < (w.field items[jj]).order, ∀ b < (w.field items[jj]).tsz,
      getB buf' (layoutAddr false (selSizes w items) nelt (0 + r) jj + (idx * (w.field items[jj]).tsz + b))
        = getB vt (fileAddr false w nelt r items[jj] + (idx * (w.field items[jj]).tsz + mir (w.field items[jj]).swap (w.field items[jj]).tsz b))) ∧
    (∀ p, (∀ r, 0 ≤ r → r < 0 + nelt → ∀ jj, ∀ hj : jj < (selSizes w items).length, ∀ e < (selSizes w items)[jj],
        p ≠ layoutAddr false (selSizes w items) nelt r jj + e) → getB buf' p = getB buf p) := by
  intro buf'
  have hbuf : buf' = fieldLoop (LRB w nelt) nelt vt items buf := readB_eq ..
  rw [hbuf]
  apply read_case_spec hw hit _ rfl false nelt 0 nelt (by omega) vt buf hsz (fun r i => fileAddr false w nelt r i)
  · intro c hc
    have hx : items.getD c.jj default ∈ items := by rw [getD_getElem hc.1]; exact List.getElem_mem _
    have wf := hw.field (hit _ hx)
    have hpos : (w.field (items.getD c.jj default)).isize ≠ 0 := by rw [wf.ie]; exact Nat.pos_iff_ne_zero.mp wf.esize_pos
    simp only [LoopPar.D, layoutAddr, Bool.false_eq_true, if_false, selSizes_getD hc.1]
    simp only [LRB, pre_running hw hit hnelt, wf.ediv, effD_of_ne hpos]
    ring
  · intro c hc
    have hx : items.getD c.jj default ∈ items := by rw [getD_getElem hc.1]; exact List.getElem_mem _
    have wf := hw.field (hit _ hx)
    have hpos : (w.field (items.getD c.jj default)).isize ≠ 0 := by rw [wf.ie]; exact Nat.pos_iff_ne_zero.mp wf.esize_pos
    simp only [LoopPar.S, LRB, wf.idiv, effS_of_ne hpos, fileAddr_no hw (hit _ hx)]
    ring

/-! #### VSread case D (user FULL_INTERLACE, vdata NO_INTERLACE); the user offset advances by `isize` -/

def LRD (w : WList) (nelt uvsize : Nat) : LoopPar Nat :=
  { F := w.field, SB := fun i _ => (w.field i).off * nelt, DB := fun _ o => o, ss := fun i => (w.field i).isize, ds := fun _ => uvsize,
    sadv := fun i => (w.field i).isize / (w.field i).order, dadv := fun i => (w.field i).esize / (w.field i).order,
    h := fun i => (w.field i).isize }

theorem readD_eq (w : WList) (items : List Nat) (vt buf : Buf) (nelt uvsize : Nat) :
    readD w items vt buf nelt uvsize = fieldLoop (LRD w nelt uvsize) nelt vt items buf := by
  have := fieldFold_eq vt ((LRD w nelt uvsize).mv nelt) (LRD w nelt uvsize).h items 0 buf
  simp only [LoopPar.mv, LRD] at this
  simp only [readD, indexLoop_eq, fieldLoop, LRD]
  rw [this]

theorem readD_spec {w : WList} (hw : w.WF) {items : List Nat} (hit : ∀ i ∈ items, i < w.n)
    (vt buf : Buf) (nelt : Nat) (hsz : nelt * (selSizes w items).sum ≤ buf.size) :
    let buf' := readD w items vt buf nelt (selSizes w items).sum
    buf'.size = buf.size ∧
    (∀ r < nelt, ∀ jj, ∀ hj : jj < items.length, ∀ idx < (w.field items[jj]).order, ∀ b < (w.field items[jj]).tsz,
      getB buf' (layoutAddr true (selSizes w items) nelt (0 + r) jj + (idx * (w.field items[jj]).tsz + b))
        = getB vt (fileAddr false w nelt r items[jj] + (idx * (w.field items[jj]).tsz + mir (w.field items[jj]).swap (w.field items[jj]).tsz b))) ∧
    (∀ p, (∀ r, 0 ≤ r → r < 0 + nelt → ∀ jj, ∀ hj : jj < (selSizes w items).length, ∀ e < (selSizes w items)[jj],
        p ≠ layoutAddr true (selSizes w items) nelt r jj + e) → getB buf' p = getB buf p) := by
  intro buf'
  have hbuf : buf' = fieldLoop (LRD w nelt (selSizes w items).sum) nelt vt items buf := readD_eq ..
  rw [hbuf]
  apply read_case_spec hw hit _ rfl true nelt 0 nelt (by omega) vt buf hsz (fun r i => fileAddr false w nelt r i)
  · intro c hc
    have hx : items.getD c.jj default ∈ items := by rw [getD_getElem hc.1]; exact List.getElem_mem _
    have wf := hw.field (hit _ hx)
    have hpos : (w.field (items.getD c.jj default)).isize ≠ 0 := by rw [wf.ie]; exact Nat.pos_iff_ne_zero.mp wf.esize_pos
    have hpre : pre (items.map fun i => (w.field i).isize) c.jj = pre (selSizes w items) c.jj :=
      pre_congr (fun i hi => (hw.field (hit i hi)).ie) _
    simp only [LoopPar.D, layoutAddr, if_true]
    simp only [LRD, hpre, wf.ediv, effD_of_ne hpos]
    ring
  · intro c hc
    have hx : items.getD c.jj default ∈ items := by rw [getD_getElem hc.1]; exact List.getElem_mem _
    have wf := hw.field (hit _ hx)
    have hpos : (w.field (items.getD c.jj default)).isize ≠ 0 := by rw [wf.ie]; exact Nat.pos_iff_ne_zero.mp wf.esize_pos
    simp only [LoopPar.S, LRD, wf.idiv, effS_of_ne hpos, fileAddr_no hw (hit _ hx)]
    ring



theorem getB_extract {store : Buf} {s len x : Nat} (h : s + len ≤ store.size) (hx : x < len) :
    getB (store.extract s (s + len)) x = getB store (s + x) := by
  simp only [getB_eq, Array.getElem?_extract]
  have : x < min (s + len) store.size - s := by omega
  simp [this]

/-- bound of a source position inside a batch of `n` stored records -/
theorem fileAddr_lt {w : WList} (hw : w.WF) {vfull : Bool} {n r i e : Nat} (hi : i < w.n) (hr : r < n) (he : e < (w.field i).isize) :
    fileAddr vfull w n r i + e < w.ivsize * n := by
  have hi' : i < (isizes w).length := by rw [isizes_length]; exact hi
  have := layoutAddr_lt (full := vfull) (szs := isizes w) (n := n) (r := r) (j := i) (e := e) hi' (by rw [isizes_getElem hi]; exact he) hr
  rw [hw.2.2, Nat.mul_comm]; exact this

theorem elem_mir_lt {f : Field} (h : f.WF) {idx b : Nat} (hi : idx < f.order) (hb : b < f.tsz) :
    idx * f.tsz + mir f.swap f.tsz b < f.isize := by
  rw [h.2.2.1]; exact mul_add_lt hi (mir_lt hb)

/-! #### VSread case E (single-field vdata): one contiguous `DFKconvert` -/

theorem readE_spec {w : WList} (hw : w.WF) (hn : w.n = 1)
    (vt buf : Buf) (N done chunk : Nat) (hN : done + chunk ≤ N) (hsz : N * (selSizes w [0]).sum ≤ buf.size) :
    let f := w.field 0
    let buf' := dfkConvert f.tsz f.swap vt 0 buf (done * (selSizes w [0]).sum) (f.order * chunk) 0 0
    buf'.size = buf.size ∧
    (∀ r < chunk, ∀ jj, ∀ hj : jj < [0].length, ∀ idx < (w.field [0][jj]).order, ∀ b < (w.field [0][jj]).tsz,
      getB buf' (layoutAddr true (selSizes w [0]) N (done + r) jj + (idx * (w.field [0][jj]).tsz + b))
        = getB vt (fileAddr true w chunk r [0][jj] + (idx * (w.field [0][jj]).tsz + mir (w.field [0][jj]).swap (w.field [0][jj]).tsz b))) ∧
    (∀ p, (∀ r, done ≤ r → r < done + chunk → ∀ jj, ∀ hj : jj < (selSizes w [0]).length, ∀ e < (selSizes w [0])[jj],
        p ≠ layoutAddr true (selSizes w [0]) N r jj + e) → getB buf' p = getB buf p) := by
  intro f buf'
  have h0 : 0 < w.n := by omega
  have wf : f.WF := hw.field h0
  have hsum : (selSizes w [0]).sum = f.esize := by simp [selSizes, f]
  have hoff : f.off = 0 := by have := hw.2.1 0 h0; simpa [pre] using this
  have hbuf : buf' = applyMoves vt (convMoves f.tsz f.swap 0 (done * f.esize) (f.order * chunk) 0 0) buf := by
    simp only [buf', dfkConvert_eq, hsum]
  have hmem : ∀ m, m ∈ convMoves f.tsz f.swap 0 (done * f.esize) (f.order * chunk) 0 0 ↔
      ∃ c : Nat × Nat, (c.1 < f.order * chunk ∧ c.2 < f.tsz) ∧ m = (done * f.esize + c.1 * f.tsz + c.2, c.1 * f.tsz + mir f.swap f.tsz c.2) := by
    intro m
    simp only [convMoves, elemMoves, effS, effD, List.mem_flatMap, List.mem_map, List.mem_range, and_self, if_true, Nat.zero_add]
    constructor
    · rintro ⟨i, hi, b, hb, rfl⟩; exact ⟨(i, b), ⟨hi, hb⟩, rfl⟩
    · rintro ⟨⟨i, b⟩, ⟨hi, hb⟩, rfl⟩; exact ⟨i, hi, b, hb, rfl⟩
  have hlt : ∀ c : Nat × Nat, c.1 < f.order * chunk → c.2 < f.tsz → c.1 * f.tsz + c.2 < chunk * f.esize := by
    intro c h1 h2
    have := mul_add_lt (sz := f.tsz) h1 h2
    rw [wf.2.2.2]; calc _ < f.order * chunk * f.tsz := this
      _ = _ := by ring
  obtain ⟨s1, s2⟩ := moves_spec (src := vt) (dst := buf) (ms := convMoves f.tsz f.swap 0 (done * f.esize) (f.order * chunk) 0 0)
    (fun c : Nat × Nat => c.1 < f.order * chunk ∧ c.2 < f.tsz)
    (fun c => done * f.esize + c.1 * f.tsz + c.2) (fun c => c.1 * f.tsz + mir f.swap f.tsz c.2) hmem
    (by
      rintro ⟨i, b⟩ ⟨i', b'⟩ ⟨_, hb⟩ ⟨_, hb'⟩ e
      simp only at e hb hb' ⊢
      obtain ⟨e1, e2⟩ := div_mod_unique (m := i) (m' := i') hb hb' (by omega)
      subst e1; subst e2; rfl)
    (by
      rintro ⟨i, b⟩ ⟨hi, hb⟩
      have := hlt (i, b) hi hb
      simp only at this ⊢
      have h2 : (done + chunk) * f.esize ≤ N * f.esize := Nat.mul_le_mul_right _ hN
      rw [hsum] at hsz
      have h3 : (done + chunk) * f.esize = done * f.esize + chunk * f.esize := by ring
      omega)
  refine ⟨by rw [hbuf]; simp, ?_, ?_⟩
  · intro r hr jj hj idx hidx b hb
    have hj0 : jj = 0 := by simp at hj; exact hj
    subst hj0
    simp only [List.getElem_cons_zero] at hidx hb ⊢
    have hc : r * f.order + idx < f.order * chunk := by
      have := mul_add_lt (sz := f.order) hr hidx; rw [Nat.mul_comm f.order]; exact this
    have := s1 (r * f.order + idx, b) ⟨hc, hb⟩
    simp only at this
    rw [hbuf]
    have e1 : layoutAddr true (selSizes w [0]) N (done + r) 0 + (idx * f.tsz + b) = done * f.esize + (r * f.order + idx) * f.tsz + b := by
      simp only [layoutAddr, if_true, hsum, pre_zero, wf.2.2.2]; ring
    have e2 : fileAddr true w chunk r 0 + (idx * f.tsz + mir f.swap f.tsz b) = (r * f.order + idx) * f.tsz + mir f.swap f.tsz b := by
      rw [fileAddr_full hw h0]
      have : w.ivsize = f.isize := by
        have := hw.2.2
        have hl : w.fields.length = 1 := hn
        have : isizes w = [f.isize] := by
          simp only [isizes, f, WList.field]
          match hf : w.fields, hl with
          | [x], _ => simp
        rw [hw.2.2, this]; simp
      rw [this, wf.2.2.1]
      show r * (f.order * f.tsz) + f.off + _ = _
      rw [hoff]; ring
    rw [e1, e2]; exact this
  · intro p hp
    rw [hbuf]
    apply s2
    rintro ⟨i, b⟩ ⟨hi, hb⟩ e
    simp only at e hi hb
    have ho := wf.1
    have hq : i / f.order < chunk := by
      rw [Nat.div_lt_iff_lt_mul ho, Nat.mul_comm]; exact hi
    have hm := Nat.mod_lt i ho
    refine hp (done + i / f.order) (Nat.le_add_right _ _) (Nat.add_lt_add_left hq done) 0 (by simp [selSizes]) (i % f.order * f.tsz + b) ?_ ?_
    · simp only [selSizes, List.map_cons, List.map_nil, List.getElem_cons_zero]
      exact elem_lt wf hm hb
    · simp only [layoutAddr, if_true, hsum, pre_zero]
      rw [← e, wf.2.2.2]
      have := Nat.div_add_mod i f.order
      calc done * (f.order * f.tsz) + i * f.tsz + b
          = done * (f.order * f.tsz) + (f.order * (i / f.order) + i % f.order) * f.tsz + b := by rw [this]
        _ = _ := by ring



/-- one iteration of the chunk loop of VSread cases C/E -/
def readStep (w : WList) (items : List Nat) (vt buf : Buf) (src chunk hsize uvsize : Nat) : Buf :=
  if w.n = 1 then dfkConvert (w.field 0).tsz (w.field 0).swap vt 0 buf src ((w.field 0).order * chunk) 0 0
  else readC w items vt buf src chunk hsize uvsize

theorem readStep_spec {w : WList} (hw : w.WF) {items : List Nat} (hit : ∀ i ∈ items, i < w.n) (hn : 0 < w.n)
    (hE : w.n = 1 → items = [0])
    (vt buf : Buf) (N done chunk : Nat) (hN : done + chunk ≤ N) (hsz : N * (selSizes w items).sum ≤ buf.size) :
    let buf' := readStep w items vt buf (done * (selSizes w items).sum) chunk w.ivsize (selSizes w items).sum
    buf'.size = buf.size ∧
    (∀ r < chunk, ∀ jj, ∀ hj : jj < items.length, ∀ idx < (w.field items[jj]).order, ∀ b < (w.field items[jj]).tsz,
      getB buf' (layoutAddr true (selSizes w items) N (done + r) jj + (idx * (w.field items[jj]).tsz + b))
        = getB vt (fileAddr true w chunk r items[jj] + (idx * (w.field items[jj]).tsz + mir (w.field items[jj]).swap (w.field items[jj]).tsz b))) ∧
    (∀ p, (∀ r, done ≤ r → r < done + chunk → ∀ jj, ∀ hj : jj < (selSizes w items).length, ∀ e < (selSizes w items)[jj],
        p ≠ layoutAddr true (selSizes w items) N r jj + e) → getB buf' p = getB buf p) := by
  by_cases h1 : w.n = 1
  · have := hE h1; subst this
    simp only [readStep, h1, if_true]
    exact readE_spec hw h1 vt buf N done chunk hN hsz
  · simp only [readStep, h1, if_false]
    exact readC_spec hw hit hn vt buf N done chunk hN hsz

theorem readCELoop_spec {w : WList} (hw : w.WF) {items : List Nat} (hit : ∀ i ∈ items, i < w.n) (hn : 0 < w.n)
    (hE : w.n = 1 → items = [0]) (store : Buf) (N pos0 : Nat) (hst : pos0 + w.ivsize * N ≤ store.size) :
    ∀ (fuel chunk done : Nat) (buf : Buf), 1 ≤ chunk → done ≤ N → N - done + 1 ≤ fuel → N * (selSizes w items).sum ≤ buf.size →
    ∃ buf', readCELoop w items store w.ivsize (selSizes w items).sum N fuel chunk done (pos0 + w.ivsize * done)
        (done * (selSizes w items).sum) buf = some (buf', pos0 + w.ivsize * N) ∧
      buf'.size = buf.size ∧
      (∀ r, done ≤ r → r < N → ∀ jj, ∀ hj : jj < items.length, ∀ idx < (w.field items[jj]).order, ∀ b < (w.field items[jj]).tsz,
        getB buf' (layoutAddr true (selSizes w items) N r jj + (idx * (w.field items[jj]).tsz + b))
          = getB store (pos0 + (fileAddr true w N r items[jj] + (idx * (w.field items[jj]).tsz + mir (w.field items[jj]).swap (w.field items[jj]).tsz b)))) ∧
      (∀ p, (∀ r, done ≤ r → r < N → ∀ jj, ∀ hj : jj < (selSizes w items).length, ∀ e < (selSizes w items)[jj],
          p ≠ layoutAddr true (selSizes w items) N r jj + e) → getB buf' p = getB buf p) := by
  intro fuel
  induction fuel with
  | zero => intro chunk done buf _ _ hf; omega
  | succ fuel ih =>
    intro chunk done buf hc hd hf hsz
    unfold readCELoop
    by_cases hlt : done < N
    · simp only [hlt, if_true]
      set chunk' := if N - done < chunk then N - done else chunk with hch
      have hc1 : 1 ≤ chunk' := by rw [hch]; split <;> omega
      have hc2 : done + chunk' ≤ N := by rw [hch]; split <;> omega
      have hbytes : pos0 + w.ivsize * done + w.ivsize * chunk' ≤ store.size := by
        have := Nat.mul_le_mul_left w.ivsize hc2
        rw [Nat.mul_add] at this; omega
      rw [if_neg (by omega)]
      set vt := store.extract (pos0 + w.ivsize * done) (pos0 + w.ivsize * done + w.ivsize * chunk') with hvt
      obtain ⟨t1, t2, t3⟩ := readStep_spec hw hit hn hE vt buf N done chunk' hc2 hsz
      set buf1 := readStep w items vt buf (done * (selSizes w items).sum) chunk' w.ivsize (selSizes w items).sum with hb1
      have hstep : (if w.n = 1 then
            dfkConvert (w.field 0).tsz (w.field 0).swap vt 0 buf (done * (selSizes w items).sum) ((w.field 0).order * chunk') 0 0
          else readC w items vt buf (done * (selSizes w items).sum) chunk' w.ivsize (selSizes w items).sum) = buf1 := rfl
      simp only [hstep]
      have e1 : pos0 + w.ivsize * done + w.ivsize * chunk' = pos0 + w.ivsize * (done + chunk') := by ring
      have e2 : done * (selSizes w items).sum + chunk' * (selSizes w items).sum = (done + chunk') * (selSizes w items).sum := by ring
      rw [e1, e2]
      obtain ⟨buf', r1, r2, r3, r4⟩ := ih chunk' (done + chunk') buf1 hc1 hc2 (by omega) (by rw [t1]; exact hsz)
      refine ⟨buf', r1, by rw [r2, t1], ?_, ?_⟩
      · intro r hr1 hr2 jj hj idx hidx b hb
        by_cases hr : r < done + chunk'
        · -- delivered by this chunk, preserved by the rest of the loop
          have hi := hit _ (List.getElem_mem hj)
          have wf := hw.field hi
          have hjs : jj < (selSizes w items).length := by simpa [selSizes] using hj
          have hes : idx * (w.field items[jj]).tsz + b < (selSizes w items)[jj] := by
            simp only [selSizes, List.getElem_map]; exact elem_lt wf hidx hb
          rw [r4 _ (by
            intro r' h1 h2 jj' hj' e' he' heq
            obtain ⟨q1, _, _⟩ := layoutAddr_inj (full := true) (n := N) (r := r) (r' := r') hjs hj' hes he' hr2 h2 heq
            omega)]
          have := t2 (r - done) (by omega) jj hj idx hidx b hb
          rw [show done + (r - done) = r by omega] at this
          rw [this, hvt, getB_extract hbytes (by
            have := fileAddr_lt hw (vfull := true) (n := chunk') (r := r - done) hi (by omega) (elem_mir_lt wf hidx hb)
            exact this)]
          congr 1
          rw [fileAddr_full hw hi, fileAddr_full hw hi]
          have : r = done + (r - done) := by omega
          generalize r - done = k at this ⊢
          subst this; ring
        · exact r3 r (by omega) hr2 jj hj idx hidx b hb
      · intro p hp
        rw [r4 p (fun r h1 h2 => hp r (by omega) h2), t3 p (fun r h1 h2 => hp r h1 (by omega))]
    · have : done = N := by omega
      subst this
      simp only [Nat.lt_irrefl, if_false]
      exact ⟨buf, rfl, rfl, fun r h1 h2 => by omega, fun p _ => rfl⟩



theorem consts : FULL_INTERLACE = 0 ∧ NO_INTERLACE = 1 := by decide

theorem layoutAddr_single {szs : List Nat} (h : szs.length = 1) (n r : Nat) :
    layoutAddr false szs n r 0 = layoutAddr true szs n r 0 := by
  match szs, h with
  | [x], _ => simp [layoutAddr, pre]

theorem chunkInit_pos (total hsize nelt vtb : Nat) (h : 1 ≤ nelt) : 1 ≤ (chunkInit total hsize nelt vtb).1 := by
  unfold chunkInit; split <;> simp <;> omega

/-- **VSread, all cases.** For a well-formed write list, a valid read list (`[0]` when the vdata has one field), both
    vdata interlaces and both buffer interlaces: the call succeeds when the data element holds `nelt` records from the
    current position, advances the position by `nelt` records, and puts byte `b` of element `idx` of selected field `jj`
    of record `r` at its place in the requested buffer layout, taken from the stored layout of the batch (with the
    per-element byte reversal of the field's conversion kernel). No other byte of the buffer changes. -/
theorem vsreadCore_spec {w : WList} (hw : w.WF) {items : List Nat} (hit : ∀ i ∈ items, i < w.n) (hn : 0 < w.n)
    (hE : w.n = 1 → items = [0]) {vil il : Nat} (hvil : vil = FULL_INTERLACE ∨ vil = NO_INTERLACE)
    (hil : il = FULL_INTERLACE ∨ il = NO_INTERLACE) (store : Buf) (pos vtb : Nat) (buf : Buf) {nelt : Nat} (hnelt : 1 ≤ nelt)
    (hst : pos + w.ivsize * nelt ≤ store.size) (hsz : nelt * (selSizes w items).sum ≤ buf.size) :
    ∃ buf' vtb', vsreadCore w vil items store pos vtb buf nelt il = (vtb', some (buf', pos + w.ivsize * nelt)) ∧
      buf'.size = buf.size ∧
      (∀ r < nelt, ∀ jj, ∀ hj : jj < items.length, ∀ idx < (w.field items[jj]).order, ∀ b < (w.field items[jj]).tsz,
        getB buf' (layoutAddr (decide (il = FULL_INTERLACE)) (selSizes w items) nelt r jj + (idx * (w.field items[jj]).tsz + b))
          = getB store (pos + (fileAddr (decide (vil = FULL_INTERLACE)) w nelt r items[jj] +
              (idx * (w.field items[jj]).tsz + mir (w.field items[jj]).swap (w.field items[jj]).tsz b)))) ∧
      (∀ p, (∀ r < nelt, ∀ jj, ∀ hj : jj < (selSizes w items).length, ∀ e < (selSizes w items)[jj],
          p ≠ layoutAddr (decide (il = FULL_INTERLACE)) (selSizes w items) nelt r jj + e) → getB buf' p = getB buf p) := by
  obtain ⟨cF, cN⟩ := consts
  unfold vsreadCore
  rw [if_neg (by omega), if_neg (by omega)]
  by_cases hCE : w.n = 1 ∨ (il = FULL_INTERLACE ∧ vil = FULL_INTERLACE)
  · rw [if_pos hCE]
    simp only [uvsizeOf_eq]
    obtain ⟨buf', r1, r2, r3, r4⟩ := readCELoop_spec hw hit hn hE store nelt pos (by omega) (nelt + 1)
      (chunkInit (w.ivsize * nelt) w.ivsize nelt vtb).1 0 buf (chunkInit_pos _ _ _ _ hnelt) (by omega) (by omega) hsz
    simp only [Nat.mul_zero, Nat.add_zero, Nat.zero_mul] at r1
    refine ⟨buf', _, by rw [r1], r2, ?_, ?_⟩
    · intro r hr jj hj idx hidx b hb
      have := r3 r (by omega) hr jj hj idx hidx b hb
      rcases hCE with h1 | ⟨h2, h3⟩
      · have hi := hE h1; subst hi
        have hj0 : jj = 0 := by simp at hj; exact hj
        subst hj0
        have u1 : layoutAddr (decide (il = FULL_INTERLACE)) (selSizes w [0]) nelt r 0 = layoutAddr true (selSizes w [0]) nelt r 0 := by
          by_cases c : il = FULL_INTERLACE
          · simp [c]
          · simp only [c, decide_false]; exact layoutAddr_single (by simp [selSizes]) _ _
        have u2 : fileAddr (decide (vil = FULL_INTERLACE)) w nelt r 0 = fileAddr true w nelt r 0 := by
          by_cases c : vil = FULL_INTERLACE
          · simp [c]
          · simp only [c, decide_false, fileAddr]; exact layoutAddr_single (by rw [isizes_length]; exact h1) _ _
        simp only [List.getElem_cons_zero] at this ⊢
        rw [u1, u2]; exact this
      · simp only [h2, h3, decide_true]; exact this
    · intro p hp
      apply r4
      intro r _ hr jj hj e he
      have := hp r hr jj hj e he
      rcases hCE with h1 | ⟨h2, h3⟩
      · have hi := hE h1; subst hi
        have hj0 : jj = 0 := by simp [selSizes] at hj; exact hj
        subst hj0
        by_cases c : il = FULL_INTERLACE
        · simpa [c] using this
        · simp only [c, decide_false] at this
          rwa [layoutAddr_single (by simp [selSizes])] at this
      · simpa [h2] using this
  · rw [if_neg hCE]
    have hn1 : w.n ≠ 1 := fun h => hCE (Or.inl h)
    have hbytes : pos + nelt * w.ivsize ≤ store.size := by rw [Nat.mul_comm]; exact hst
    rw [if_neg (by omega)]
    set vt := store.extract pos (pos + nelt * w.ivsize) with hvt
    have hsrc : ∀ (vfull : Bool) r, r < nelt → ∀ jj (hj : jj < items.length), ∀ idx < (w.field items[jj]).order, ∀ b < (w.field items[jj]).tsz,
        getB vt (fileAddr vfull w nelt r items[jj] + (idx * (w.field items[jj]).tsz + mir (w.field items[jj]).swap (w.field items[jj]).tsz b))
          = getB store (pos + (fileAddr vfull w nelt r items[jj] + (idx * (w.field items[jj]).tsz + mir (w.field items[jj]).swap (w.field items[jj]).tsz b))) := by
      intro vfull r hr jj hj idx hidx b hb
      have hi := hit _ (List.getElem_mem hj)
      rw [hvt, getB_extract hbytes (by
        have := fileAddr_lt hw (vfull := vfull) (n := nelt) (r := r) hi hr (elem_mir_lt (hw.field hi) hidx hb)
        rw [Nat.mul_comm nelt]; exact this)]
    have e0 : pos + nelt * w.ivsize = pos + w.ivsize * nelt := by ring
    rcases hil with hil | hil <;> rcases hvil with hvil | hvil
    · exact absurd ⟨hil, hvil⟩ (fun h => hCE (Or.inr h))
    · -- case D
      subst hil; subst hvil
      simp only [uvsizeOf_eq, cF, cN, show ¬ ((0:Nat) = 1) by omega, false_and, and_false, if_false, and_self, if_true, e0]
      obtain ⟨t1, t2, t3⟩ := readD_spec hw hit vt buf nelt hsz
      refine ⟨_, _, rfl, t1, ?_, ?_⟩
      · intro r hr jj hj idx hidx b hb
        have := t2 r hr jj hj idx hidx b hb
        simp only [Nat.zero_add] at this
        simp only [decide_true, show ¬ ((1:Nat) = 0) by omega, decide_false]
        rw [this]; exact hsrc false r hr jj hj idx hidx b hb
      · intro p hp
        apply t3
        intro r _ hr jj hj e he
        simpa using hp r (by omega) jj hj e he
    · -- case A
      subst hil; subst hvil
      simp only [cF, cN, show ¬ ((1:Nat) = 0) by omega, false_and, and_false, if_false, and_self, if_true, e0]
      obtain ⟨t1, t2, t3⟩ := readA_spec hw hit hn vt buf nelt hnelt hsz
      refine ⟨_, _, rfl, t1, ?_, ?_⟩
      · intro r hr jj hj idx hidx b hb
        have := t2 r hr jj hj idx hidx b hb
        simp only [Nat.zero_add] at this
        simp only [decide_true, show ¬ ((1:Nat) = 0) by omega, decide_false]
        rw [this]; exact hsrc true r hr jj hj idx hidx b hb
      · intro p hp
        apply t3
        intro r _ hr jj hj e he
        simpa using hp r (by omega) jj hj e he
    · -- case B
      subst hil; subst hvil
      simp only [cF, cN, show ¬ ((1:Nat) = 0) by omega, false_and, and_false, if_false, and_self, if_true, e0]
      obtain ⟨t1, t2, t3⟩ := readB_spec hw hit vt buf nelt hnelt hsz
      refine ⟨_, _, rfl, t1, ?_, ?_⟩
      · intro r hr jj hj idx hidx b hb
        have := t2 r hr jj hj idx hidx b hb
        simp only [Nat.zero_add] at this
        simp only [show ¬ ((1:Nat) = 0) by omega, decide_false]
        rw [this]; exact hsrc false r hr jj hj idx hidx b hb
      · intro p hp
        apply t3
        intro r _ hr jj hj e he
        simpa using hp r (by omega) jj hj e he



theorem isizes_eq_esizes {w : WList} (hw : w.WF) : isizes w = esizes w := by
  simp only [isizes, esizes]
  exact List.map_congr_left fun f hf => (hw.1 f hf).ie

/-! ### `Hwrite` -/

theorem hwrite_spec (store : Buf) (pos : Nat) (vt : Buf) (bytes : Nat) :
    (hwrite store pos vt bytes).size = max store.size (pos + bytes) ∧
    (∀ x < bytes, getB (hwrite store pos vt bytes) (pos + x) = getB vt x) ∧
    (∀ p, p < pos ∨ pos + bytes ≤ p → getB (hwrite store pos vt bytes) p = getB store p) := by
  set st := if store.size < pos + bytes then store ++ Array.replicate (pos + bytes - store.size) (0 : Byte) else store with hst
  have hsz : st.size = max store.size (pos + bytes) := by
    rw [hst]; split
    · simp; omega
    · omega
  have hpad : ∀ p, getB st p = getB store p := by
    intro p
    rw [hst]; split
    · simp only [getB_eq, Array.getElem?_append]
      by_cases c : p < store.size
      · simp [c]
      · simp only [c, if_false]
        rw [Array.getElem?_eq_none (by omega : store.size ≤ p)]
        by_cases c2 : p - store.size < pos + bytes - store.size
        · simp [Array.getElem?_replicate, c2]
        · simp [Array.getElem?_replicate, c2]
    · rfl
  have hw : hwrite store pos vt bytes = applyMoves vt ((List.range bytes).map fun i => (pos + i, i)) st := by
    simp only [hwrite, applyMoves, List.foldl_map]
    rfl
  obtain ⟨s1, s2⟩ := moves_spec (src := vt) (dst := st) (ms := (List.range bytes).map fun i => (pos + i, i))
    (fun x : Nat => x < bytes) (fun x => pos + x) (fun x => x)
    (by intro m; simp only [List.mem_map, List.mem_range]
        constructor
        · rintro ⟨i, hi, rfl⟩; exact ⟨i, hi, rfl⟩
        · rintro ⟨i, hi, rfl⟩; exact ⟨i, hi, rfl⟩)
    (by intro c c' _ _ e; omega)
    (by intro c hc; rw [hsz]; omega)
  refine ⟨by rw [hw]; simp [hsz], ?_, ?_⟩
  · intro x hx; rw [hw]; exact s1 x hx
  · intro p hp; rw [hw, s2 p (by intro c hc; omega), hpad]

/-! ### the cases of `VSwrite` -/

/-- common shape of the write cases: destination = stored layout in `Vtbuf`, source = some user layout `UA` -/
theorem write_case_spec {w : WList} (hw : w.WF)
    (L : LoopPar Field) (hF : L.F = id) (vfull : Bool) (n : Nat) (src dst : Buf)
    (hsz : w.ivsize * n ≤ dst.size) (UA : Nat → Nat → Nat)
    (hD : ∀ c, L.P n w.fields c → L.D w.fields c =
      fileAddr vfull w n c.i c.jj + (c.idx * (w.field c.jj).tsz + c.b))
    (hS : ∀ c, L.P n w.fields c → L.S w.fields c =
      UA c.i c.jj + (c.idx * (w.field c.jj).tsz + mir (w.field c.jj).swap (w.field c.jj).tsz c.b)) :
    (fieldLoop L n src w.fields dst).size = dst.size ∧
    (∀ r < n, ∀ j < w.n, ∀ idx < (w.field j).order, ∀ b < (w.field j).tsz,
      getB (fieldLoop L n src w.fields dst) (fileAddr vfull w n r j + (idx * (w.field j).tsz + b))
        = getB src (UA r j + (idx * (w.field j).tsz + mir (w.field j).swap (w.field j).tsz b))) := by
  have hszs : L.szs w.fields = isizes w := by
    rw [isizes_eq_esizes hw]; simp [LoopPar.szs, esizes, hF]
  have hWF : ∀ x ∈ w.fields, (L.F x).WF := fun x hx => by rw [hF]; exact hw.1 x hx
  obtain ⟨s1, _⟩ := layout_dst_spec L w.fields hWF vfull n 0 n 0 (by omega) src dst
    (by rw [hszs, ← hw.2.2, Nat.mul_comm]; omega)
    (by intro c hc; rw [hD c hc, hszs, hF]; simp only [fileAddr, WList.field, id, Nat.zero_add])
  refine ⟨by simp, ?_⟩
  intro r hr j hj idx hidx b hb
  have hc : L.P n w.fields ⟨j, idx, r, b⟩ := ⟨hj, by simp only [hF, id]; exact hidx, hr, by simp only [hF, id]; exact hb⟩
  have := s1 ⟨j, idx, r, b⟩ hc
  simp only [hszs, Nat.zero_add, hF, id] at this
  rw [← hS _ hc]
  exact this

def LWC (src int_size hdf_size : Nat) : LoopPar Field :=
  { F := id, SB := fun _ o => src + o, DB := fun f _ => f.off, ss := fun _ => int_size, ds := fun _ => hdf_size,
    sadv := fun f => f.esize / f.order, dadv := fun f => f.isize / f.order, h := fun f => f.esize }

theorem writeC_eq (w : WList) (buf vt : Buf) (src chunk int_size hdf_size : Nat) :
    writeC w buf vt src chunk int_size hdf_size = fieldLoop (LWC src int_size hdf_size) chunk buf w.fields vt := by
  have := fieldFold_eq buf ((LWC src int_size hdf_size).mv chunk) (LWC src int_size hdf_size).h w.fields 0 vt
  simp only [LoopPar.mv, LWC, id] at this
  simp only [writeC, indexLoop_eq, fieldLoop, LWC, id]
  rw [this]

def LWA (nelt hdf_size : Nat) : LoopPar Field :=
  { F := id, SB := fun _ o => o, DB := fun f _ => f.off, ss := fun f => f.esize, ds := fun _ => hdf_size,
    sadv := fun f => f.esize / f.order, dadv := fun f => f.isize / f.order,
    h := fun f => f.order * (f.esize / f.order) + (nelt - 1) * f.esize }

theorem writeA_eq (w : WList) (buf vt : Buf) (nelt hdf_size : Nat) :
    writeA w buf vt nelt hdf_size = fieldLoop (LWA nelt hdf_size) nelt buf w.fields vt := by
  have := fieldFold_eq buf ((LWA nelt hdf_size).mv nelt) (LWA nelt hdf_size).h w.fields 0 vt
  simp only [LoopPar.mv, LWA, id] at this
  simp only [writeA, indexLoop_eq, fieldLoop, LWA, id, Nat.add_assoc]
  rw [this]

def LWB (nelt : Nat) : LoopPar Field :=
  { F := id, SB := fun _ o => o, DB := fun f _ => f.off * nelt, ss := fun f => f.esize, ds := fun f => f.isize,
    sadv := fun f => f.esize / f.order, dadv := fun f => f.isize / f.order,
    h := fun f => f.order * (f.esize / f.order) + (nelt - 1) * f.esize }

theorem writeB_eq (w : WList) (buf vt : Buf) (nelt : Nat) :
    writeB w buf vt nelt = fieldLoop (LWB nelt) nelt buf w.fields vt := by
  have := fieldFold_eq buf ((LWB nelt).mv nelt) (LWB nelt).h w.fields 0 vt
  simp only [LoopPar.mv, LWB, id] at this
  simp only [writeB, indexLoop_eq, fieldLoop, LWB, id, Nat.add_assoc]
  rw [this]

def LWD (nelt int_size : Nat) : LoopPar Field :=
  { F := id, SB := fun _ o => o, DB := fun f _ => f.off * nelt, ss := fun _ => int_size, ds := fun f => f.isize,
    sadv := fun f => f.esize / f.order, dadv := fun f => f.isize / f.order, h := fun f => f.esize }

theorem writeD_eq (w : WList) (buf vt : Buf) (nelt int_size : Nat) :
    writeD w buf vt nelt int_size = fieldLoop (LWD nelt int_size) nelt buf w.fields vt := by
  have := fieldFold_eq buf ((LWD nelt int_size).mv nelt) (LWD nelt int_size).h w.fields 0 vt
  simp only [LoopPar.mv, LWD, id] at this
  simp only [writeD, indexLoop_eq, fieldLoop, LWD, id]
  rw [this]



theorem esizes_sum_pos {w : WList} (hw : w.WF) (hn : 0 < w.n) : 0 < (esizes w).sum := by
  rw [← isizes_eq_esizes hw, ← hw.2.2]; exact ivsize_pos hw hn

theorem pre_running_fields {w : WList} (hw : w.WF) {nelt : Nat} (hn : 1 ≤ nelt) (jj : Nat) :
    pre (w.fields.map fun f => f.order * (f.esize / f.order) + (nelt - 1) * f.esize) jj = pre (esizes w) jj * nelt := by
  rw [esizes, ← pre_map_mul]
  apply pre_congr
  intro f hf
  have wf := hw.1 f hf
  rw [wf.ediv, ← wf.2.2.2]
  obtain ⟨m, rfl⟩ : ∃ m, nelt = m + 1 := ⟨nelt - 1, by omega⟩
  simp only [Nat.add_sub_cancel]; ring

theorem esizes_getD {w : WList} {j : Nat} (hj : j < w.n) : (esizes w).getD j 0 = (w.field j).esize := by
  rw [getD_eq_getElem (by rw [esizes_length]; exact hj), esizes_getElem hj]

theorem field_getD (w : WList) (j : Nat) : w.fields.getD j default = w.field j := rfl

/-- VSwrite case C/E gather of one chunk -/
theorem writeC_spec {w : WList} (hw : w.WF) (hn : 0 < w.n) (buf vt : Buf) (N done chunk : Nat)
    (hsz : w.ivsize * chunk ≤ vt.size) :
    let vt' := writeC w buf vt (done * (esizes w).sum) chunk (esizes w).sum w.ivsize
    vt'.size = vt.size ∧
    (∀ r < chunk, ∀ j < w.n, ∀ idx < (w.field j).order, ∀ b < (w.field j).tsz,
      getB vt' (fileAddr true w chunk r j + (idx * (w.field j).tsz + b))
        = getB buf (layoutAddr true (esizes w) N (done + r) j + (idx * (w.field j).tsz + mir (w.field j).swap (w.field j).tsz b))) := by
  intro vt'
  have hvt : vt' = fieldLoop (LWC (done * (esizes w).sum) (esizes w).sum w.ivsize) chunk buf w.fields vt := writeC_eq ..
  rw [hvt]
  have hpos := esizes_sum_pos hw hn
  apply write_case_spec hw _ rfl true chunk buf vt hsz (fun r j => layoutAddr true (esizes w) N (done + r) j)
  · intro c hc
    have wf := hw.field hc.1
    simp only [LoopPar.D, field_getD, LWC, wf.idiv, effD_of_ne (Nat.pos_iff_ne_zero.mp hpos), fileAddr_full hw hc.1]
    ring
  · intro c hc
    have wf := hw.field hc.1
    simp only [LoopPar.S, id, field_getD, LWC, wf.ediv, effS_of_ne (Nat.pos_iff_ne_zero.mp hpos), layoutAddr, if_true]
    have : pre (List.map (fun f : Field => f.esize) w.fields) c.jj = pre (esizes w) c.jj := rfl
    rw [this]; ring

theorem writeA_spec {w : WList} (hw : w.WF) (hn : 0 < w.n) (buf vt : Buf) (nelt : Nat) (hnelt : 1 ≤ nelt)
    (hsz : w.ivsize * nelt ≤ vt.size) :
    let vt' := writeA w buf vt nelt w.ivsize
    vt'.size = vt.size ∧
    (∀ r < nelt, ∀ j < w.n, ∀ idx < (w.field j).order, ∀ b < (w.field j).tsz,
      getB vt' (fileAddr true w nelt r j + (idx * (w.field j).tsz + b))
        = getB buf (layoutAddr false (esizes w) nelt r j + (idx * (w.field j).tsz + mir (w.field j).swap (w.field j).tsz b))) := by
  intro vt'
  have hvt : vt' = fieldLoop (LWA nelt w.ivsize) nelt buf w.fields vt := writeA_eq ..
  rw [hvt]
  apply write_case_spec hw _ rfl true nelt buf vt hsz (fun r j => layoutAddr false (esizes w) nelt r j)
  · intro c hc
    have wf := hw.field hc.1
    simp only [LoopPar.D, field_getD, LWA, wf.idiv, effD_of_ne (Nat.pos_iff_ne_zero.mp wf.esize_pos), fileAddr_full hw hc.1]
    ring
  · intro c hc
    have wf := hw.field hc.1
    simp only [LoopPar.S, id, field_getD, LWA, wf.ediv, effS_of_ne (Nat.pos_iff_ne_zero.mp wf.esize_pos), layoutAddr,
      Bool.false_eq_true, if_false, pre_running_fields hw hnelt, esizes_getD hc.1]
    ring

theorem writeB_spec {w : WList} (hw : w.WF) (buf vt : Buf) (nelt : Nat) (hnelt : 1 ≤ nelt)
    (hsz : w.ivsize * nelt ≤ vt.size) :
    let vt' := writeB w buf vt nelt
    vt'.size = vt.size ∧
    (∀ r < nelt, ∀ j < w.n, ∀ idx < (w.field j).order, ∀ b < (w.field j).tsz,
      getB vt' (fileAddr false w nelt r j + (idx * (w.field j).tsz + b))
        = getB buf (layoutAddr false (esizes w) nelt r j + (idx * (w.field j).tsz + mir (w.field j).swap (w.field j).tsz b))) := by
  intro vt'
  have hvt : vt' = fieldLoop (LWB nelt) nelt buf w.fields vt := writeB_eq ..
  rw [hvt]
  apply write_case_spec hw _ rfl false nelt buf vt hsz (fun r j => layoutAddr false (esizes w) nelt r j)
  · intro c hc
    have wf := hw.field hc.1
    simp only [LoopPar.D, field_getD, LWB, wf.idiv, effD_of_ne (Nat.pos_iff_ne_zero.mp wf.esize_pos), fileAddr_no hw hc.1]
    ring
  · intro c hc
    have wf := hw.field hc.1
    simp only [LoopPar.S, id, field_getD, LWB, wf.ediv, effS_of_ne (Nat.pos_iff_ne_zero.mp wf.esize_pos), layoutAddr,
      Bool.false_eq_true, if_false, pre_running_fields hw hnelt, esizes_getD hc.1]
    ring

theorem writeD_spec {w : WList} (hw : w.WF) (hn : 0 < w.n) (buf vt : Buf) (nelt : Nat)
    (hsz : w.ivsize * nelt ≤ vt.size) :
    let vt' := writeD w buf vt nelt (esizes w).sum
    vt'.size = vt.size ∧
    (∀ r < nelt, ∀ j < w.n, ∀ idx < (w.field j).order, ∀ b < (w.field j).tsz,
      getB vt' (fileAddr false w nelt r j + (idx * (w.field j).tsz + b))
        = getB buf (layoutAddr true (esizes w) nelt r j + (idx * (w.field j).tsz + mir (w.field j).swap (w.field j).tsz b))) := by
  intro vt'
  have hvt : vt' = fieldLoop (LWD nelt (esizes w).sum) nelt buf w.fields vt := writeD_eq ..
  rw [hvt]
  have hpos := esizes_sum_pos hw hn
  apply write_case_spec hw _ rfl false nelt buf vt hsz (fun r j => layoutAddr true (esizes w) nelt r j)
  · intro c hc
    have wf := hw.field hc.1
    simp only [LoopPar.D, field_getD, LWD, wf.idiv, effD_of_ne (Nat.pos_iff_ne_zero.mp hpos), fileAddr_no hw hc.1]
    ring
  · intro c hc
    have wf := hw.field hc.1
    simp only [LoopPar.S, id, field_getD, LWD, wf.ediv, effS_of_ne (Nat.pos_iff_ne_zero.mp hpos), layoutAddr, if_true]
    have : pre (List.map (fun f : Field => f.esize) w.fields) c.jj = pre (esizes w) c.jj := rfl
    rw [this]; ring



theorem elem_lt_isize {f : Field} (h : f.WF) {idx b : Nat} (hi : idx < f.order) (hb : b < f.tsz) : idx * f.tsz + b < f.isize := by
  rw [h.ie]; exact elem_lt h hi hb

theorem writeCELoop_spec {w : WList} (hw : w.WF) (hn : 0 < w.n) (buf : Buf) (N pos0 : Nat) :
    ∀ (fuel chunk done : Nat) (vt store : Buf), 1 ≤ chunk → done ≤ N → N - done + 1 ≤ fuel →
      w.ivsize * min chunk (N - done) ≤ vt.size →
    let res := writeCELoop w buf (esizes w).sum w.ivsize N fuel chunk done (pos0 + w.ivsize * done) (done * (esizes w).sum) vt store
    res.2 = pos0 + w.ivsize * N ∧
    store.size ≤ res.1.size ∧ (done < N → res.1.size = max store.size (pos0 + w.ivsize * N)) ∧
    (∀ r, done ≤ r → r < N → ∀ j < w.n, ∀ idx < (w.field j).order, ∀ b < (w.field j).tsz,
      getB res.1 (pos0 + (fileAddr true w N r j + (idx * (w.field j).tsz + b)))
        = getB buf (layoutAddr true (esizes w) N r j + (idx * (w.field j).tsz + mir (w.field j).swap (w.field j).tsz b))) ∧
    (∀ p, p < pos0 + w.ivsize * done ∨ pos0 + w.ivsize * N ≤ p → getB res.1 p = getB store p) := by
  intro fuel
  induction fuel with
  | zero => intro chunk done vt store _ _ hf; omega
  | succ fuel ih =>
    intro chunk done vt store hc hd hf hvs
    unfold writeCELoop
    by_cases hlt : done < N
    · simp only [hlt, if_true]
      set chunk' := if N - done < chunk then N - done else chunk with hch
      have hc1 : 1 ≤ chunk' := by rw [hch]; split <;> omega
      have hc2 : done + chunk' ≤ N := by rw [hch]; split <;> omega
      have hmin : min chunk (N - done) = chunk' := by rw [hch]; split <;> omega
      rw [hmin] at hvs
      obtain ⟨t1, t2⟩ := writeC_spec hw hn buf vt N done chunk' hvs
      set vt' := writeC w buf vt (done * (esizes w).sum) chunk' (esizes w).sum w.ivsize with hvt'
      obtain ⟨h1, h2, h3⟩ := hwrite_spec store (pos0 + w.ivsize * done) vt' (w.ivsize * chunk')
      set store1 := hwrite store (pos0 + w.ivsize * done) vt' (w.ivsize * chunk') with hs1
      have e1 : pos0 + w.ivsize * done + w.ivsize * chunk' = pos0 + w.ivsize * (done + chunk') := by ring
      have e2 : done * (esizes w).sum + chunk' * (esizes w).sum = (done + chunk') * (esizes w).sum := by ring
      rw [e1, e2]
      have hvs' : w.ivsize * min chunk' (N - (done + chunk')) ≤ vt'.size := by
        rw [t1]
        exact Nat.le_trans (Nat.mul_le_mul_left _ (Nat.min_le_left _ _)) hvs
      obtain ⟨r1, r2, r3, r4, r5⟩ := ih chunk' (done + chunk') vt' store1 hc1 hc2 (by omega) hvs'
      have hmono : w.ivsize * (done + chunk') ≤ w.ivsize * N := Nat.mul_le_mul_left _ hc2
      refine ⟨r1, by rw [h1] at r2; omega, ?_, ?_, ?_⟩
      · intro _
        by_cases hl2 : done + chunk' < N
        · rw [r3 hl2, h1, e1]; omega
        · have hEq : done + chunk' = N := by omega
          -- the recursive call returns immediately
          have : (writeCELoop w buf (esizes w).sum w.ivsize N fuel chunk' (done + chunk') (pos0 + w.ivsize * (done + chunk'))
              ((done + chunk') * (esizes w).sum) vt' store1).1.size = store1.size := by
            have hf' : fuel ≠ 0 := by omega
            obtain ⟨f', rfl⟩ : ∃ f', fuel = f' + 1 := ⟨fuel - 1, by omega⟩
            unfold writeCELoop; simp [hl2]
          rw [this, h1, e1, hEq]
      · intro r hr1 hr2 j hj idx hidx b hb
        by_cases hr : r < done + chunk'
        · have wf := hw.field hj
          have hx := fileAddr_lt hw (vfull := true) (n := chunk') (r := r - done) hj (by omega) (elem_lt_isize wf hidx hb)
          have hx2 := fileAddr_lt hw (vfull := true) (n := done + chunk') (r := r) hj hr (elem_lt_isize wf hidx hb)
          have hNe : fileAddr true w N r j = fileAddr true w (done + chunk') r j := by
            rw [fileAddr_full hw hj, fileAddr_full hw hj]
          have haddr : pos0 + (fileAddr true w N r j + (idx * (w.field j).tsz + b))
              = pos0 + w.ivsize * done + (fileAddr true w chunk' (r - done) j + (idx * (w.field j).tsz + b)) := by
            rw [fileAddr_full hw hj, fileAddr_full hw hj]
            have hk : r = done + (r - done) := by omega
            generalize r - done = k at hk ⊢
            subst hk; ring
          rw [r5 _ (Or.inl (by rw [hNe]; omega))]
          have := t2 (r - done) (by omega) j hj idx hidx b hb
          rw [show done + (r - done) = r by omega] at this
          rw [haddr, h2 _ hx, this]
        · exact r4 r (by omega) hr2 j hj idx hidx b hb
      · intro p hp
        rw [r5 p (by rcases hp with h | h; · left; omega
                     · right; exact h)]
        exact h3 p (by rcases hp with h | h; · left; exact h
                       · right; rw [e1]; omega)
    · have : done = N := by omega
      subst this
      rw [if_neg (Nat.lt_irrefl _)]
      exact ⟨rfl, Nat.le_refl _, fun h => absurd h (Nat.lt_irrefl _), fun r h1 h2 => by omega, fun p _ => rfl⟩



/-- **VSwrite, all cases.** The call succeeds, advances the position by `nelt` records, extends the data element if
    needed, stores byte `b` of element `idx` of field `j` of record `r` of the caller's buffer (laid out in the
    requested buffer interlace) at its place in the stored layout of the batch (byte-reversed per element for swapping
    kernels), and changes no byte of the data element outside the batch. -/
theorem vswriteCore_spec {w : WList} (hw : w.WF) (hn : 0 < w.n) {vil il : Nat}
    (hvil : vil = FULL_INTERLACE ∨ vil = NO_INTERLACE) (hil : il = FULL_INTERLACE ∨ il = NO_INTERLACE)
    (store : Buf) (pos vtb : Nat) (buf : Buf) {nelt : Nat} (hnelt : 1 ≤ nelt) :
    ∃ store' vtb', vswriteCore w vil store pos vtb buf nelt il = some (store', pos + w.ivsize * nelt, vtb') ∧
      store'.size = max store.size (pos + w.ivsize * nelt) ∧
      (∀ r < nelt, ∀ j < w.n, ∀ idx < (w.field j).order, ∀ b < (w.field j).tsz,
        getB store' (pos + (fileAddr (decide (vil = FULL_INTERLACE)) w nelt r j + (idx * (w.field j).tsz + b)))
          = getB buf (layoutAddr (decide (il = FULL_INTERLACE)) (esizes w) nelt r j +
              (idx * (w.field j).tsz + mir (w.field j).swap (w.field j).tsz b))) ∧
      (∀ p, p < pos ∨ pos + w.ivsize * nelt ≤ p → getB store' p = getB store p) := by
  obtain ⟨cF, cN⟩ := consts
  unfold vswriteCore
  rw [if_neg (by omega), if_neg (by omega), if_neg (by omega)]
  simp only [intSizeOf_eq]
  by_cases hCE : w.n = 1 ∨ (il = FULL_INTERLACE ∧ vil = FULL_INTERLACE)
  · rw [if_pos hCE]
    have hmin : ∀ c, 1 ≤ c → w.ivsize * min c (nelt - 0) ≤ (Array.replicate (w.ivsize * min c nelt) (0 : Byte)).size := by
      intro c _; simp
    obtain ⟨r1, r2, r3, r4, r5⟩ := writeCELoop_spec hw hn buf nelt pos (nelt + 1)
      (chunkInit (w.ivsize * nelt) w.ivsize nelt vtb).1 0
      (Array.replicate (w.ivsize * min (chunkInit (w.ivsize * nelt) w.ivsize nelt vtb).1 nelt) 0) store
      (chunkInit_pos _ _ _ _ hnelt) (by omega) (by omega) (hmin _ (chunkInit_pos _ _ _ _ hnelt))
    simp only [Nat.mul_zero, Nat.add_zero, Nat.zero_mul] at r1 r2 r3 r4 r5
    refine ⟨_, _, by rw [← r1], r3 (by omega), ?_, ?_⟩
    · intro r hr j hj idx hidx b hb
      have := r4 r (by omega) hr j hj idx hidx b hb
      rcases hCE with h1 | ⟨h2, h3⟩
      · have hj0 : j = 0 := by omega
        subst hj0
        have u1 : layoutAddr (decide (il = FULL_INTERLACE)) (esizes w) nelt r 0 = layoutAddr true (esizes w) nelt r 0 := by
          by_cases c : il = FULL_INTERLACE
          · simp [c]
          · simp only [c, decide_false]; exact layoutAddr_single (by rw [esizes_length]; exact h1) _ _
        have u2 : fileAddr (decide (vil = FULL_INTERLACE)) w nelt r 0 = fileAddr true w nelt r 0 := by
          by_cases c : vil = FULL_INTERLACE
          · simp [c]
          · simp only [c, decide_false, fileAddr]; exact layoutAddr_single (by rw [isizes_length]; exact h1) _ _
        rw [u1, u2]; exact this
      · simp only [h2, h3, decide_true]; exact this
    · intro p hp; exact r5 p hp
  · rw [if_neg hCE]
    obtain ⟨h1, h2, h3⟩ := hwrite_spec store pos
      (if il = NO_INTERLACE ∧ vil = FULL_INTERLACE then writeA w buf (Array.replicate (w.ivsize * nelt) 0) nelt w.ivsize
        else if il = NO_INTERLACE ∧ vil = NO_INTERLACE then writeB w buf (Array.replicate (w.ivsize * nelt) 0) nelt
        else if il = FULL_INTERLACE ∧ vil = NO_INTERLACE then writeD w buf (Array.replicate (w.ivsize * nelt) 0) nelt (esizes w).sum
        else Array.replicate (w.ivsize * nelt) 0) (w.ivsize * nelt)
    refine ⟨_, _, rfl, h1, ?_, h3⟩
    intro r hr j hj idx hidx b hb
    have wf := hw.field hj
    have hvsz : w.ivsize * nelt ≤ (Array.replicate (w.ivsize * nelt) (0 : Byte)).size := by simp
    rcases hil with hil | hil <;> rcases hvil with hvil | hvil
    · exact absurd ⟨hil, hvil⟩ (fun h => hCE (Or.inr h))
    · subst hil; subst hvil
      simp only [cF, cN, show ¬ ((0:Nat) = 1) by omega, show ¬ ((1:Nat) = 0) by omega, false_and, and_false, if_false,
        and_self, if_true, decide_true, decide_false] at h2 ⊢
      obtain ⟨_, t2⟩ := writeD_spec hw hn buf (Array.replicate (w.ivsize * nelt) 0) nelt hvsz
      rw [h2 _ (fileAddr_lt hw hj hr (elem_lt_isize wf hidx hb))]
      exact t2 r hr j hj idx hidx b hb
    · subst hil; subst hvil
      simp only [cF, cN, show ¬ ((0:Nat) = 1) by omega, show ¬ ((1:Nat) = 0) by omega, false_and, and_false, if_false,
        and_self, if_true, decide_true, decide_false] at h2 ⊢
      obtain ⟨_, t2⟩ := writeA_spec hw hn buf (Array.replicate (w.ivsize * nelt) 0) nelt hnelt hvsz
      rw [h2 _ (fileAddr_lt hw hj hr (elem_lt_isize wf hidx hb))]
      exact t2 r hr j hj idx hidx b hb
    · subst hil; subst hvil
      simp only [cF, cN, show ¬ ((0:Nat) = 1) by omega, show ¬ ((1:Nat) = 0) by omega, false_and, and_false, if_false,
        and_self, if_true, decide_true, decide_false] at h2 ⊢
      obtain ⟨_, t2⟩ := writeB_spec hw buf (Array.replicate (w.ivsize * nelt) 0) nelt hnelt hvsz
      rw [h2 _ (fileAddr_lt hw hj hr (elem_lt_isize wf hidx hb))]
      exact t2 r hr j hj idx hidx b hb



/-- position, inside the stored (file) representation of a field value, of the byte that becomes byte `e` of its memory
    representation: same element, mirrored inside the element for byte-swapping kernels -/
def mirE (f : Field) (e : Nat) : Nat := e / f.tsz * f.tsz + mir f.swap f.tsz (e % f.tsz)

theorem elem_split {f : Field} (wf : f.WF) {e : Nat} (he : e < f.esize) :
    e / f.tsz < f.order ∧ e % f.tsz < f.tsz ∧ e / f.tsz * f.tsz + e % f.tsz = e := by
  have ht := wf.2.1
  refine ⟨?_, Nat.mod_lt _ ht, by rw [Nat.mul_comm]; exact Nat.div_add_mod e f.tsz⟩
  rw [Nat.div_lt_iff_lt_mul ht, ← wf.2.2.2]; exact he

theorem mirE_lt {f : Field} (wf : f.WF) {e : Nat} (he : e < f.esize) : mirE f e < f.esize := by
  obtain ⟨h1, h2, _⟩ := elem_split wf he
  rw [wf.2.2.2]; exact mul_add_lt h1 (mir_lt h2)

theorem mirE_mirE {f : Field} (wf : f.WF) {e : Nat} (he : e < f.esize) : mirE f (mirE f e) = e := by
  obtain ⟨h1, h2, h3⟩ := elem_split wf he
  have ht := wf.2.1
  have hm := mir_lt (swap := f.swap) h2
  have d : (e / f.tsz * f.tsz + mir f.swap f.tsz (e % f.tsz)) / f.tsz = e / f.tsz := by
    rw [Nat.add_comm, Nat.add_mul_div_right _ _ ht, Nat.div_eq_of_lt hm]; simp
  have m : (e / f.tsz * f.tsz + mir f.swap f.tsz (e % f.tsz)) % f.tsz = mir f.swap f.tsz (e % f.tsz) := by
    rw [Nat.add_comm, Nat.add_mul_mod_self_right, Nat.mod_eq_of_lt hm]
  unfold mirE
  rw [d, m, mir_mir h2, h3]

theorem mirE_noswap {f : Field} (wf : f.WF) (hs : f.swap = false) {e : Nat} (he : e < f.esize) : mirE f e = e := by
  obtain ⟨_, _, h3⟩ := elem_split wf he
  simp only [mirE, mir, hs, Bool.false_eq_true, if_false]; exact h3

/-- byte-in-field form of `vsreadCore_spec` -/
theorem vsreadCore_bytes {w : WList} (hw : w.WF) {items : List Nat} (hit : ∀ i ∈ items, i < w.n) (hn : 0 < w.n)
    (hE : w.n = 1 → items = [0]) {vil il : Nat} (hvil : vil = FULL_INTERLACE ∨ vil = NO_INTERLACE)
    (hil : il = FULL_INTERLACE ∨ il = NO_INTERLACE) (store : Buf) (pos vtb : Nat) (buf : Buf) {nelt : Nat} (hnelt : 1 ≤ nelt)
    (hst : pos + w.ivsize * nelt ≤ store.size) (hsz : nelt * (selSizes w items).sum ≤ buf.size) :
    ∃ buf' vtb', vsreadCore w vil items store pos vtb buf nelt il = (vtb', some (buf', pos + w.ivsize * nelt)) ∧
      buf'.size = buf.size ∧
      (∀ r < nelt, ∀ jj, ∀ hj : jj < items.length, ∀ e < (w.field items[jj]).esize,
        getB buf' (layoutAddr (decide (il = FULL_INTERLACE)) (selSizes w items) nelt r jj + e)
          = getB store (pos + (fileAddr (decide (vil = FULL_INTERLACE)) w nelt r items[jj] + mirE (w.field items[jj]) e))) ∧
      (∀ p, (∀ r < nelt, ∀ jj, ∀ hj : jj < (selSizes w items).length, ∀ e < (selSizes w items)[jj],
          p ≠ layoutAddr (decide (il = FULL_INTERLACE)) (selSizes w items) nelt r jj + e) → getB buf' p = getB buf p) := by
  obtain ⟨buf', vtb', h1, h2, h3, h4⟩ := vsreadCore_spec hw hit hn hE hvil hil store pos vtb buf hnelt hst hsz
  refine ⟨buf', vtb', h1, h2, ?_, h4⟩
  intro r hr jj hj e he
  have wf := hw.field (hit _ (List.getElem_mem hj))
  obtain ⟨q1, q2, q3⟩ := elem_split wf he
  have := h3 r hr jj hj _ q1 _ q2
  rw [q3] at this
  exact this

/-- byte-in-field form of `vswriteCore_spec` -/
theorem vswriteCore_bytes {w : WList} (hw : w.WF) (hn : 0 < w.n) {vil il : Nat}
    (hvil : vil = FULL_INTERLACE ∨ vil = NO_INTERLACE) (hil : il = FULL_INTERLACE ∨ il = NO_INTERLACE)
    (store : Buf) (pos vtb : Nat) (buf : Buf) {nelt : Nat} (hnelt : 1 ≤ nelt) :
    ∃ store' vtb', vswriteCore w vil store pos vtb buf nelt il = some (store', pos + w.ivsize * nelt, vtb') ∧
      store'.size = max store.size (pos + w.ivsize * nelt) ∧
      (∀ r < nelt, ∀ j < w.n, ∀ e < (w.field j).esize,
        getB store' (pos + (fileAddr (decide (vil = FULL_INTERLACE)) w nelt r j + e))
          = getB buf (layoutAddr (decide (il = FULL_INTERLACE)) (esizes w) nelt r j + mirE (w.field j) e)) ∧
      (∀ p, p < pos ∨ pos + w.ivsize * nelt ≤ p → getB store' p = getB store p) := by
  obtain ⟨store', vtb', h1, h2, h3, h4⟩ := vswriteCore_spec hw hn hvil hil store pos vtb buf hnelt
  refine ⟨store', vtb', h1, h2, ?_, h4⟩
  intro r hr j hj e he
  have wf := hw.field hj
  obtain ⟨q1, q2, q3⟩ := elem_split wf he
  have := h3 r hr j hj _ q1 _ q2
  rw [q3] at this
  exact this

/-- every byte offset inside a record belongs to exactly one field -/
theorem pre_cover (szs : List Nat) {y : Nat} (hy : y < szs.sum) : ∃ j, ∃ hj : j < szs.length, ∃ e < szs[j], y = pre szs j + e := by
  induction szs generalizing y with
  | nil => simp at hy
  | cons a t ih =>
    by_cases c : y < a
    · exact ⟨0, by simp, y, by simpa using c, by simp [pre]⟩
    · obtain ⟨j, hj, e, he, h⟩ := ih (y := y - a) (by simp at hy; omega)
      refine ⟨j + 1, by simp; omega, e, by simpa using he, ?_⟩
      simp only [pre, List.take_succ_cons, List.sum_cons] at h ⊢
      omega



theorem buf_ext {a b : Buf} (hs : a.size = b.size) (h : ∀ p < a.size, getB a p = getB b p) : a = b := by
  apply Array.ext hs
  intro i h1 h2
  have := h i h1
  simp only [getB_eq, Array.getElem?_eq_getElem h1, Array.getElem?_eq_getElem h2, Option.getD_some] at this
  exact this

/-- every byte of a stored batch of `n` records belongs to exactly one (record, field, byte-in-field) -/
theorem file_cover {w : WList} (hw : w.WF) {n x : Nat} (hx : x < w.ivsize * n) :
    ∃ r < n, ∃ j < w.n, ∃ e < (w.field j).esize, x = fileAddr true w n r j + e := by
  have hiv : 0 < w.ivsize := by
    rcases Nat.eq_zero_or_pos w.ivsize with h | h
    · rw [h] at hx; simp at hx
    · exact h
  have hr : x / w.ivsize < n := by rw [Nat.div_lt_iff_lt_mul hiv, Nat.mul_comm]; exact hx
  have hy : x % w.ivsize < (isizes w).sum := by rw [← hw.2.2]; exact Nat.mod_lt _ hiv
  obtain ⟨j, hj, e, he, hje⟩ := pre_cover (isizes w) hy
  have hj' : j < w.n := by rw [← isizes_length]; exact hj
  refine ⟨x / w.ivsize, hr, j, hj', e, ?_, ?_⟩
  · rw [← (hw.field hj').ie, ← isizes_getElem hj']; exact he
  · rw [fileAddr_full hw hj', hw.2.1 j hj']
    have := Nat.div_add_mod x w.ivsize
    rw [Nat.mul_comm] at this
    omega

/-- **The `VDATA_BUFFER_MAX` chunk loop of VSwrite does not affect the result**: any two chunk sizes (hence any value of
    the static `Vtbufsize`, any buffer limit) give the same data element and position. -/
theorem chunked_write_eq {w : WList} (hw : w.WF) (hn : 0 < w.n) (buf : Buf) (N pos0 : Nat) (store vt1 vt2 : Buf)
    {c1 c2 : Nat} (h1 : 1 ≤ c1) (h2 : 1 ≤ c2) (hv1 : w.ivsize * min c1 N ≤ vt1.size) (hv2 : w.ivsize * min c2 N ≤ vt2.size)
    (hN : 1 ≤ N) :
    writeCELoop w buf (esizes w).sum w.ivsize N (N + 1) c1 0 pos0 0 vt1 store
      = writeCELoop w buf (esizes w).sum w.ivsize N (N + 1) c2 0 pos0 0 vt2 store := by
  obtain ⟨a1, _, a3, a4, a5⟩ := writeCELoop_spec hw hn buf N pos0 (N + 1) c1 0 vt1 store h1 (by omega) (by omega) (by simpa using hv1)
  obtain ⟨b1, _, b3, b4, b5⟩ := writeCELoop_spec hw hn buf N pos0 (N + 1) c2 0 vt2 store h2 (by omega) (by omega) (by simpa using hv2)
  simp only [Nat.mul_zero, Nat.add_zero, Nat.zero_mul] at a1 a3 a4 a5 b1 b3 b4 b5
  apply Prod.ext
  · apply buf_ext (by rw [a3 (by omega), b3 (by omega)])
    intro p _
    by_cases hp : p < pos0 ∨ pos0 + w.ivsize * N ≤ p
    · rw [a5 p hp, b5 p hp]
    · obtain ⟨r, hr, j, hj, e, he, hx⟩ := file_cover hw (n := N) (x := p - pos0) (by omega)
      have wf := hw.field hj
      obtain ⟨q1, q2, q3⟩ := elem_split wf he
      have hp' : p = pos0 + (fileAddr true w N r j + (e / (w.field j).tsz * (w.field j).tsz + e % (w.field j).tsz)) := by
        rw [q3]; omega
      rw [hp', a4 r (by omega) hr j hj _ q1 _ q2, b4 r (by omega) hr j hj _ q1 _ q2]
  · rw [a1, b1]

/-- **The chunk loop of VSread does not affect the result.** -/
theorem chunked_read_eq {w : WList} (hw : w.WF) {items : List Nat} (hit : ∀ i ∈ items, i < w.n) (hn : 0 < w.n)
    (hE : w.n = 1 → items = [0]) (store buf : Buf) (N pos0 : Nat) (hst : pos0 + w.ivsize * N ≤ store.size)
    (hsz : N * (selSizes w items).sum ≤ buf.size) {c1 c2 : Nat} (h1 : 1 ≤ c1) (h2 : 1 ≤ c2) :
    readCELoop w items store w.ivsize (selSizes w items).sum N (N + 1) c1 0 pos0 0 buf
      = readCELoop w items store w.ivsize (selSizes w items).sum N (N + 1) c2 0 pos0 0 buf := by
  obtain ⟨x1, a1, a2, a3, a4⟩ := readCELoop_spec hw hit hn hE store N pos0 hst (N + 1) c1 0 buf h1 (by omega) (by omega) hsz
  obtain ⟨x2, b1, b2, b3, b4⟩ := readCELoop_spec hw hit hn hE store N pos0 hst (N + 1) c2 0 buf h2 (by omega) (by omega) hsz
  simp only [Nat.mul_zero, Nat.add_zero, Nat.zero_mul] at a1 b1
  rw [a1, b1]
  have : x1 = x2 := by
    apply buf_ext (by rw [a2, b2])
    intro p _
    by_cases hp : ∃ r, r < N ∧ ∃ jj, ∃ hj : jj < (selSizes w items).length, ∃ e < (selSizes w items)[jj],
        p = layoutAddr true (selSizes w items) N r jj + e
    · obtain ⟨r, hr, jj, hj, e, he, rfl⟩ := hp
      have hj' : jj < items.length := by simpa [selSizes] using hj
      have wf := hw.field (hit _ (List.getElem_mem hj'))
      have he' : e < (w.field items[jj]).esize := by simpa [selSizes] using he
      obtain ⟨q1, q2, q3⟩ := elem_split wf he'
      have := a3 r (by omega) hr jj hj' _ q1 _ q2
      have := b3 r (by omega) hr jj hj' _ q1 _ q2
      rw [q3] at *
      simp_all
    · have hne : ∀ r, 0 ≤ r → r < N → ∀ jj, ∀ hj : jj < (selSizes w items).length, ∀ e < (selSizes w items)[jj],
          p ≠ layoutAddr true (selSizes w items) N r jj + e :=
        fun r _ hr jj hj e he heq => hp ⟨r, hr, jj, hj, e, he, heq⟩
      rw [a4 p hne, b4 p hne]
  rw [this]


/-! ### `VSfdefine` / `VSsetfields` produce well-formed write lists -/

/-- closed form of `assignOffs` -/
def offsFrom : Nat → List Field → List Field
  | _, [] => []
  | o, f :: t => { f with off := o } :: offsFrom (o + f.isize) t

theorem assignOffs_aux (fs acc : List Field) (o : Nat) :
    (fs.foldl (fun (p : List Field × Nat) f => ({ f with off := p.2 } :: p.1, p.2 + f.isize)) (acc, o)).1.reverse
      = acc.reverse ++ offsFrom o fs := by
  induction fs generalizing acc o with
  | nil => simp [offsFrom]
  | cons f t ih => rw [List.foldl_cons, ih]; simp [offsFrom]

theorem assignOffs_eq (fs : List Field) : assignOffs fs = offsFrom 0 fs := by
  simp [assignOffs, assignOffs_aux]

theorem offsFrom_isizes (o : Nat) (fs : List Field) : (offsFrom o fs).map (·.isize) = fs.map (·.isize) := by
  induction fs generalizing o with
  | nil => rfl
  | cons f t ih => simp [offsFrom, ih]

theorem offsFrom_length (o : Nat) (fs : List Field) : (offsFrom o fs).length = fs.length := by
  induction fs generalizing o with
  | nil => rfl
  | cons f t ih => simp [offsFrom, ih]

theorem offsFrom_wf (o : Nat) (fs : List Field) (h : ∀ f ∈ fs, f.WF) : ∀ f ∈ offsFrom o fs, f.WF := by
  induction fs generalizing o with
  | nil => simp [offsFrom]
  | cons f t ih =>
    intro g hg
    simp only [offsFrom, List.mem_cons] at hg
    rcases hg with rfl | hg
    · exact h f List.mem_cons_self
    · exact ih _ (fun x hx => h x (List.mem_cons_of_mem _ hx)) g hg

theorem offsFrom_off (o : Nat) (fs : List Field) (j : Nat) (hj : j < fs.length) :
    ((offsFrom o fs).getD j default).off = o + pre (fs.map (·.isize)) j := by
  induction fs generalizing o j with
  | nil => simp at hj
  | cons f t ih =>
    cases j with
    | zero => simp [offsFrom, pre]
    | succ j =>
      simp only [offsFrom, List.getD_cons_succ]
      rw [ih _ _ (by simpa using hj)]
      simp only [pre, List.map_cons, List.take_succ_cons, List.sum_cons]; omega

theorem nt_tables : ∀ i < 10, NT_SIZES.getD i 0 = NT_NSIZES.getD i 0 ∧ 1 ≤ NT_SIZES.getD i 0 := by decide

/-- facts about `DFKNTsize` on this platform: sizes are positive and the native size equals the file size -/
theorem ntInfo_valid {t : Nat} {nt : NT} (h : ntInfo t = some nt) : 1 ≤ nt.tsz ∧ nt.nsz = nt.tsz := by
  unfold ntInfo at h
  simp only at h
  split at h
  · cases h
  · split at h
    · cases h
    · rename_i i hi
      have hlt : i < 10 := by
        unfold findIdx at hi
        simp only at hi
        split at hi
        · cases hi; rename_i hl; simpa [NT_CODES] using hl
        · cases hi
      obtain ⟨e1, e2⟩ := nt_tables i hlt
      cases h
      simp only
      split
      · exact ⟨by rw [← e1]; exact e2, rfl⟩
      · exact ⟨e2, e1.symm⟩

/-- a user symbol as left behind by a successful `VSfdefine` -/
def SymDef.Valid (sd : SymDef) : Prop := 1 ≤ sd.order ∧ ∃ nt, ntInfo sd.type = some nt ∧ sd.isize = nt.tsz

/-- the reserved symbols are valid symbols of 4 bytes (checked on the generated table) -/
theorem rstab_valid : ∀ sd ∈ rstab, sd.Valid ∧ sd.order * sd.isize < 65536 := by
  have h : ∀ sd ∈ rstab, (1 ≤ sd.order ∧ (match ntInfo sd.type with | some nt => decide (sd.isize = nt.tsz) | none => false) = true)
      ∧ sd.order * sd.isize < 65536 := by decide
  intro sd hsd
  obtain ⟨⟨h1, h2⟩, h3⟩ := h sd hsd
  refine ⟨⟨h1, ?_⟩, h3⟩
  cases hnt : ntInfo sd.type with
  | none => rw [hnt] at h2; cases h2
  | some nt => rw [hnt] at h2; exact ⟨nt, rfl, by simpa using h2⟩

theorem buildWList_go_spec (usym : List SymDef) (hus : ∀ sd ∈ usym, sd.Valid) :
    ∀ (names : List String) (acc : List Field) (iv : Nat), (∀ f ∈ acc, f.WF) → iv = (acc.map (·.isize)).sum →
    ∀ fs iv', buildWList.go usym names acc iv = some (fs, iv') →
      (∀ f ∈ fs, f.WF) ∧ iv' = (fs.map (·.isize)).sum ∧ iv' ≤ MAX_FIELD_SIZE ∨ (names = [] ∧ fs = acc.reverse ∧ iv' = iv) := by
  intro names
  induction names with
  | nil =>
    intro acc iv hacc hiv fs iv' h
    simp only [buildWList.go] at h
    cases h
    right; exact ⟨rfl, rfl, rfl⟩
  | cons nm rest ih =>
    intro acc iv hacc hiv fs iv' h
    left
    have hM : MAX_FIELD_SIZE = 65535 := by decide
    simp only [buildWList.go] at h
    split at h
    · -- a user symbol
      rename_i sd hsd
      have hv := hus sd (List.mem_of_find?_eq_some hsd)
      obtain ⟨ho, nt, hnt, his⟩ := hv
      rw [hnt] at h
      simp only at h
      obtain ⟨ht1, ht2⟩ := ntInfo_valid hnt
      split at h
      · cases h
      · split at h
        · cases h
        · rename_i c1 c2
          have hle : sd.order * sd.isize ≤ 65535 := by omega
          have hnew : Field.WF (Field.mk sd.name sd.type nt.tsz nt.swap sd.order (sd.order * sd.isize) (sd.order * nt.nsz % 65536) 0) := by
            refine ⟨ho, ht1, by simp only [his], ?_⟩
            simp only [ht2, ← his]
            exact Nat.mod_eq_of_lt (by omega)
          have hacc' : ∀ f ∈ (Field.mk sd.name sd.type nt.tsz nt.swap sd.order (sd.order * sd.isize) (sd.order * nt.nsz % 65536) 0) :: acc, f.WF := by
            intro f hf
            rcases List.mem_cons.mp hf with rfl | hf
            · exact hnew
            · exact hacc f hf
          rcases ih _ (iv + sd.order * sd.isize) hacc' (by simp [hiv] <;> omega) fs iv' h with r | ⟨r1, r2, r3⟩
          · exact r
          · subst r2; subst r3
            refine ⟨?_, ?_, by omega⟩
            · intro f hf; exact hacc' f (List.mem_reverse.mp hf)
            · simp [hiv, List.sum_reverse] <;> omega
    · -- a reserved symbol (`rstab[]`)
      split at h
      · cases h
      · rename_i sd hsd
        obtain ⟨⟨ho, nt, hnt, his⟩, hlt⟩ := rstab_valid sd (List.mem_of_find?_eq_some hsd)
        rw [hnt] at h
        simp only at h
        obtain ⟨ht1, ht2⟩ := ntInfo_valid hnt
        split at h
        · cases h
        · rename_i c2
          have hmod : sd.order * sd.isize % 65536 = sd.order * sd.isize := Nat.mod_eq_of_lt hlt
          have hnew : Field.WF (Field.mk sd.name sd.type nt.tsz nt.swap sd.order (sd.order * sd.isize % 65536) (sd.order * nt.nsz % 65536) 0) := by
            refine ⟨ho, ht1, ?_, ?_⟩
            · show sd.order * sd.isize % 65536 = sd.order * nt.tsz
              rw [hmod, his]
            · show sd.order * nt.nsz % 65536 = sd.order * nt.tsz
              rw [ht2, ← his]; exact hmod
          have hacc' : ∀ f ∈ (Field.mk sd.name sd.type nt.tsz nt.swap sd.order (sd.order * sd.isize % 65536) (sd.order * nt.nsz % 65536) 0) :: acc, f.WF := by
            intro f hf
            rcases List.mem_cons.mp hf with rfl | hf
            · exact hnew
            · exact hacc f hf
          rcases ih _ (iv + sd.order * sd.isize % 65536) hacc' (by simp [hiv] <;> omega) fs iv' h with r | ⟨r1, r2, r3⟩
          · exact r
          · subst r2; subst r3
            refine ⟨?_, ?_, by omega⟩
            · intro f hf; exact hacc' f (List.mem_reverse.mp hf)
            · simp [hiv, List.sum_reverse] <;> omega

/-- **Schema consistency.** The write list built by `VSsetfields` from symbols defined by `VSfdefine` is well-formed:
    every field has `isize = esize = order · DFKNTsize(type)`, `off` is the running sum of the `isize`s in field-list
    order, and `ivsize` (the record size reported by `VSsizeof`/`VSinquire`, and the stride of `VSseek`) is their total. -/
theorem vssetfields_wf (usym : List SymDef) (hus : ∀ sd ∈ usym, sd.Valid) (names : List String) (w : WList)
    (h : buildWList usym names = some w) : w.WF ∧ w.ivsize ≤ MAX_FIELD_SIZE ∨ w.fields = [] := by
  unfold buildWList at h
  split at h
  · cases h
  · rename_i fs iv hgo
    cases h
    rcases buildWList_go_spec usym hus names [] 0 (by simp) (by simp) fs iv hgo with ⟨g1, g2, g3⟩ | ⟨_, g2, _⟩
    · left
      refine ⟨⟨?_, ?_, ?_⟩, g3⟩
      · simp only [assignOffs_eq]; exact offsFrom_wf 0 fs g1
      · intro j hj
        simp only [WList.n, assignOffs_eq, offsFrom_length] at hj
        simp only [WList.field, isizes, assignOffs_eq, offsFrom_isizes]
        rw [offsFrom_off 0 fs j hj]; omega
      · simp only [isizes, assignOffs_eq, offsFrom_isizes]; exact g2
    · right; simp [g2, assignOffs_eq, offsFrom]

/-- `VSfdefine` leaves only valid symbols behind -/
theorem vsfdefine_valid (usym : List SymDef) (hus : ∀ sd ∈ usym, sd.Valid) (name : String) (t order : Nat) (usym' : List SymDef)
    (h : vsfdefine usym name t order = some usym') : ∀ sd ∈ usym', sd.Valid := by
  unfold vsfdefine at h
  by_cases c0 : name.isEmpty = true ∨ name.contains ',' = true
  · rw [if_pos c0] at h; cases h
  · rw [if_neg c0] at h
    unfold vsfdefineTok at h
    by_cases c1 : order < 1 ∨ order > MAX_ORDER
    · rw [if_pos c1] at h; cases h
    · rw [if_neg c1] at h
      cases hnt : ntInfo t with
      | none => rw [hnt] at h; cases h
      | some nt =>
        rw [hnt] at h
        simp only at h
        by_cases c2 : nt.tsz * order > MAX_FIELD_SIZE
        · rw [if_pos c2] at h; cases h
        · rw [if_neg c2] at h
          have hnew : SymDef.Valid { name := name, type := t, isize := nt.tsz, order := order } :=
            ⟨by show 1 ≤ order; omega, nt, hnt, rfl⟩
          split at h
          · cases h
            intro sd hsd
            rcases List.mem_or_eq_of_mem_set hsd with h1 | h1
            · exact hus sd h1
            · rw [h1]; exact hnew
          · cases h
            intro sd hsd
            rcases List.mem_append.mp hsd with h1 | h1
            · exact hus sd h1
            · simp at h1; rw [h1]; exact hnew



/-! ### `VSfpack` -/

/-- a straight-line program of byte stores `dst[m.1] := m.2` -/
def applyVals (vs : List (Nat × Byte)) (dst : Buf) : Buf := vs.foldl (fun d m => d.setIfInBounds m.1 m.2) dst

@[simp] theorem size_applyVals (vs : List (Nat × Byte)) (dst : Buf) : (applyVals vs dst).size = dst.size := by
  induction vs generalizing dst with
  | nil => rfl
  | cons m t ih => simp [applyVals, List.foldl_cons] at ih ⊢; rw [ih]; simp

theorem applyVals_append (a b : List (Nat × Byte)) (dst : Buf) : applyVals (a ++ b) dst = applyVals b (applyVals a dst) := by
  simp [applyVals, List.foldl_append]

theorem applyMoves_eq_vals (src : Buf) (ms : List (Nat × Nat)) (dst : Buf) :
    applyMoves src ms dst = applyVals (ms.map fun m => (m.1, getB src m.2)) dst := by
  simp [applyMoves, applyVals, List.foldl_map]

theorem applyVals_notin {vs : List (Nat × Byte)} {dst : Buf} {p : Nat} (h : ∀ m ∈ vs, m.1 ≠ p) :
    getB (applyVals vs dst) p = getB dst p := by
  induction vs generalizing dst with
  | nil => rfl
  | cons m t ih =>
    simp only [applyVals, List.foldl_cons] at ih ⊢
    rw [ih (fun m' hm' => h m' (List.mem_cons_of_mem _ hm')), getB_set]
    have := h m List.mem_cons_self
    rw [if_neg (fun e => this e.1.symm)]

theorem applyVals_mem {vs : List (Nat × Byte)} {dst : Buf} {m : Nat × Byte} (hm : m ∈ vs) (hb : m.1 < dst.size)
    (hag : ∀ m' ∈ vs, m'.1 = m.1 → m'.2 = m.2) : getB (applyVals vs dst) m.1 = m.2 := by
  induction vs generalizing dst m with
  | nil => cases hm
  | cons h t ih =>
    simp only [applyVals, List.foldl_cons] at ih ⊢
    by_cases c : ∃ m' ∈ t, m'.1 = m.1
    · obtain ⟨m', hm', e⟩ := c
      have := ih (dst := dst.setIfInBounds h.1 h.2) (m := m') hm' (by simp; omega)
        (fun a ha ea => by rw [hag a (List.mem_cons_of_mem _ ha) (ea.trans e), hag m' (List.mem_cons_of_mem _ hm') e])
      rw [e] at this
      rw [this, hag m' (List.mem_cons_of_mem _ hm') e]
    · have hne : ∀ m' ∈ t, m'.1 ≠ m.1 := fun m' hm' e => c ⟨m', hm', e⟩
      have := applyVals_notin (dst := dst.setIfInBounds h.1 h.2) hne
      simp only [applyVals] at this
      rw [this, getB_set]
      rcases List.mem_cons.mp hm with e | e
      · subst e; simp [hb]
      · exact absurd rfl (hne m e)

theorem vals_spec {ι : Type} {dst : Buf} {vs : List (Nat × Byte)} (P : ι → Prop) (D : ι → Nat) (V : ι → Byte)
    (hmem : ∀ m, m ∈ vs ↔ ∃ c, P c ∧ m = (D c, V c))
    (hinj : ∀ c c', P c → P c' → D c = D c' → V c = V c')
    (hb : ∀ c, P c → D c < dst.size) :
    (∀ c, P c → getB (applyVals vs dst) (D c) = V c) ∧
    (∀ p, (∀ c, P c → D c ≠ p) → getB (applyVals vs dst) p = getB dst p) := by
  constructor
  · intro c hc
    have hm : (D c, V c) ∈ vs := (hmem _).mpr ⟨c, hc, rfl⟩
    exact applyVals_mem (dst := dst) hm (hb c hc) (by
      intro m' hm' e
      obtain ⟨c', hc', rfl⟩ := (hmem _).mp hm'
      exact hinj c' c hc' hc e)
  · intro p hp
    apply applyVals_notin
    intro m hm e
    obtain ⟨c, hc, rfl⟩ := (hmem _).mp hm
    exact hp c hc e

/-- an entry of the (un)pack program: `((fmsize, foff), field buffer)` -/
abbrev PEnt := (Nat × Nat) × Buf

def packVals (L : List PEnt) (recSize nrec : Nat) : List (Nat × Byte) :=
  (List.range nrec).flatMap fun i => L.flatMap fun e => (List.range e.1.1).map fun x => (i * recSize + e.1.2 + x, getB e.2 (i * e.1.1 + x))

theorem foldl_applyVals {α : Type} (g : α → List (Nat × Byte)) (xs : List α) (dst : Buf) :
    xs.foldl (fun d x => applyVals (g x) d) dst = applyVals (xs.flatMap g) dst := by
  induction xs generalizing dst with
  | nil => rfl
  | cons x t ih => rw [List.foldl_cons, ih, List.flatMap_cons, applyVals_append]

theorem copyBytes_eq_vals (src : Buf) (s : Nat) (dst : Buf) (d n : Nat) :
    copyBytes src s dst d n = applyVals ((List.range n).map fun x => (d + x, getB src (s + x))) dst := by
  simp [copyBytes, copyElem, applyVals, List.foldl_map]

theorem fpackPack_eq (sel : List (Nat × Nat)) (recSize nrec : Nat) (buf : Buf) (fbufs : List Buf) :
    fpackPack sel recSize nrec buf fbufs = applyVals (packVals (sel.zip fbufs) recSize nrec) buf := by
  simp only [fpackPack, copyBytes_eq_vals, packVals]
  rw [← foldl_applyVals]
  congr 1
  funext d i
  exact foldl_applyVals _ _ _

/-- the byte intervals of the packed fields inside a buffer record do not overlap (entries may repeat verbatim) and lie inside the record -/
def PDisj (L : List PEnt) (recSize : Nat) : Prop :=
  (∀ e ∈ L, e.1.2 + e.1.1 ≤ recSize) ∧
  (∀ e ∈ L, ∀ e' ∈ L, ∀ x < e.1.1, ∀ x' < e'.1.1, e.1.2 + x = e'.1.2 + x' → e = e')

theorem fpackPack_spec {L : List PEnt} {recSize nrec : Nat} (hd : PDisj L recSize) (buf : Buf) (hsz : nrec * recSize ≤ buf.size) :
    (applyVals (packVals L recSize nrec) buf).size = buf.size ∧
    (∀ i < nrec, ∀ e ∈ L, ∀ x < e.1.1, getB (applyVals (packVals L recSize nrec) buf) (i * recSize + e.1.2 + x) = getB e.2 (i * e.1.1 + x)) ∧
    (∀ p, (∀ i < nrec, ∀ e ∈ L, ∀ x < e.1.1, p ≠ i * recSize + e.1.2 + x) → getB (applyVals (packVals L recSize nrec) buf) p = getB buf p) := by
  obtain ⟨s1, s2⟩ := vals_spec (dst := buf) (vs := packVals L recSize nrec)
    (fun c : Nat × PEnt × Nat => c.1 < nrec ∧ c.2.1 ∈ L ∧ c.2.2 < c.2.1.1.1)
    (fun c => c.1 * recSize + c.2.1.1.2 + c.2.2) (fun c => getB c.2.1.2 (c.1 * c.2.1.1.1 + c.2.2))
    (by
      intro m
      simp only [packVals, List.mem_flatMap, List.mem_map, List.mem_range]
      constructor
      · rintro ⟨i, hi, e, he, x, hx, rfl⟩; exact ⟨(i, e, x), ⟨hi, he, hx⟩, rfl⟩
      · rintro ⟨⟨i, e, x⟩, ⟨hi, he, hx⟩, rfl⟩; exact ⟨i, hi, e, he, x, hx, rfl⟩)
    (by
      rintro ⟨i, e, x⟩ ⟨i', e', x'⟩ ⟨_, he, hx⟩ ⟨_, he', hx'⟩ h
      simp only at he he' hx hx' h ⊢
      have b1 := hd.1 e he
      have b2 := hd.1 e' he'
      obtain ⟨q1, q2⟩ := div_mod_unique (C := recSize) (m := i) (m' := i') (c := e.1.2 + x) (c' := e'.1.2 + x') (by omega) (by omega) (by omega)
      have := hd.2 e he e' he' x hx x' hx' q2
      subst this; subst q1
      have : x = x' := by omega
      subst this; rfl)
    (by
      rintro ⟨i, e, x⟩ ⟨hi, he, hx⟩
      simp only at hi he hx ⊢
      have b1 := hd.1 e he
      have := mul_add_lt (sz := recSize) (e := e.1.2 + x) hi (by omega)
      omega)
  refine ⟨by simp, ?_, ?_⟩
  · intro i hi e he x hx; exact s1 (i, e, x) ⟨hi, he, hx⟩
  · intro p hp; exact s2 p (fun c hc => (hp c.1 hc.1 c.2.1 hc.2.1 c.2.2 hc.2.2).symm)

/-- one unpacked field buffer -/
def unpackOne (buf : Buf) (recSize nrec : Nat) (e : PEnt) : Buf :=
  (List.range nrec).foldl (fun fb i => copyBytes buf (i * recSize + e.1.2) fb (i * e.1.1) e.1.1) e.2

theorem fpackUnpack_eq (sel : List (Nat × Nat)) (recSize nrec : Nat) (buf : Buf) (fbufs : List Buf) :
    fpackUnpack sel recSize nrec buf fbufs = (sel.zip fbufs).map (unpackOne buf recSize nrec) := rfl

theorem unpackOne_spec (buf : Buf) (recSize nrec : Nat) (e : PEnt) (hsz : nrec * e.1.1 ≤ e.2.size) :
    (unpackOne buf recSize nrec e).size = e.2.size ∧
    (∀ i < nrec, ∀ x < e.1.1, getB (unpackOne buf recSize nrec e) (i * e.1.1 + x) = getB buf (i * recSize + e.1.2 + x)) ∧
    (∀ p, nrec * e.1.1 ≤ p → getB (unpackOne buf recSize nrec e) p = getB e.2 p) := by
  have heq : unpackOne buf recSize nrec e = applyVals ((List.range nrec).flatMap fun i =>
      (List.range e.1.1).map fun x => (i * e.1.1 + x, getB buf (i * recSize + e.1.2 + x))) e.2 := by
    simp only [unpackOne, copyBytes_eq_vals]
    exact foldl_applyVals _ _ _
  obtain ⟨s1, s2⟩ := vals_spec (dst := e.2) (vs := (List.range nrec).flatMap fun i =>
      (List.range e.1.1).map fun x => (i * e.1.1 + x, getB buf (i * recSize + e.1.2 + x)))
    (fun c : Nat × Nat => c.1 < nrec ∧ c.2 < e.1.1) (fun c => c.1 * e.1.1 + c.2) (fun c => getB buf (c.1 * recSize + e.1.2 + c.2))
    (by
      intro m
      simp only [List.mem_flatMap, List.mem_map, List.mem_range]
      constructor
      · rintro ⟨i, hi, x, hx, rfl⟩; exact ⟨(i, x), ⟨hi, hx⟩, rfl⟩
      · rintro ⟨⟨i, x⟩, ⟨hi, hx⟩, rfl⟩; exact ⟨i, hi, x, hx, rfl⟩)
    (by
      rintro ⟨i, x⟩ ⟨i', x'⟩ ⟨_, hx⟩ ⟨_, hx'⟩ h
      simp only at hx hx' h ⊢
      obtain ⟨q1, q2⟩ := div_mod_unique hx hx' h
      subst q1; subst q2; rfl)
    (by
      rintro ⟨i, x⟩ ⟨hi, hx⟩
      have := mul_add_lt (sz := e.1.1) hi hx
      simp only at this ⊢; omega)
  rw [heq]
  refine ⟨by simp, fun i hi x hx => s1 (i, x) ⟨hi, hx⟩, ?_⟩
  intro p hp
  apply s2
  rintro ⟨i, x⟩ ⟨hi, hx⟩
  have := mul_add_lt (sz := e.1.1) hi hx
  simp only at this ⊢; omega



/-- the fields selected for (un)packing occupy pairwise disjoint byte intervals inside a buffer record -/
def SelDisj (sel : List (Nat × Nat)) (recSize : Nat) : Prop :=
  (∀ s ∈ sel, s.2 + s.1 ≤ recSize) ∧
  (∀ j j', ∀ hj : j < sel.length, ∀ hj' : j' < sel.length, ∀ x < sel[j].1, ∀ x' < sel[j'].1,
    sel[j].2 + x = sel[j'].2 + x' → j = j')

theorem pdisj_zip {sel : List (Nat × Nat)} {recSize : Nat} (h : SelDisj sel recSize) (fbufs : List Buf) :
    PDisj (sel.zip fbufs) recSize := by
  constructor
  · intro e he
    exact h.1 e.1 (List.of_mem_zip he).1
  · intro e he e' he' x hx x' hx' heq
    obtain ⟨j, hj, rfl⟩ := List.getElem_of_mem he
    obtain ⟨j', hj', rfl⟩ := List.getElem_of_mem he'
    simp only [List.getElem_zip] at hx hx' heq ⊢
    have hl : j < sel.length := by simp at hj; omega
    have hl' : j' < sel.length := by simp at hj'; omega
    have := h.2 j j' hl hl' x hx x' hx' heq
    subst this; rfl

/-- prefix-sum offsets (the `blist.offs` of `VSfpack`, i.e. the case `fields = NULL`) are disjoint -/
theorem seldisj_prefix (szs : List Nat) :
    SelDisj ((List.range szs.length).map fun j => (szs.getD j 0, pre szs j)) szs.sum := by
  constructor
  · intro s hs
    simp only [List.mem_map, List.mem_range] at hs
    obtain ⟨j, hj, rfl⟩ := hs
    simp only [getD_eq_getElem hj]
    exact pre_add_le_sum hj
  · intro j j' hj hj' x hx x' hx' heq
    simp only [List.length_map, List.length_range] at hj hj'
    simp only [List.getElem_map, List.getElem_range, getD_eq_getElem hj, getD_eq_getElem hj'] at hx hx' heq
    exact (interval_inj hj hj' hx hx' heq).1


end H4.VData
