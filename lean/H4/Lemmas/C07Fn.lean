import H4.Gen.Fn.Vio
import H4.Format
import H4.Lemmas.C2L
import H4.Lemmas.C08Fn
/-! Lemmas for `H4.Props.C07Fn`: `vpackvs` of `hdf/src/vio.c`, as TRANSLATED from the C text (`H4.Gen.Fn.Vio`, regenerated on
    every run), writes the `DFTAG_VH` record of the hand-written model `H4.Format.vpackvs`.

    Same method as `H4.Lemmas.C08Fn` (whose byte-level lemmas and `kernel_rfl` are reused): the generated `have` chain is
    restated as a composition of phases built from the byte-store combinators `pshr` / `pand`, the restatement is checked
    against the generated definition by the kernel (`vpackvs_phases`), every phase extends the output written so far (`At`).
    Core only. -/
set_option linter.unusedSimpArgs false
set_option linter.unusedVariables false
namespace H4.Lemmas.C07Fn
open H4 H4.Format H4.Gen.Hdf H4.Gen.Fn.Vio H4.C2L
open H4.Lemmas.C08Fn (bytesI bytesI_length bytesI_nil bytesI_cons bytesI_append and255 byte_toInt strcpy_lists cstr_takeWhile)

abbrev St := vpackvs.St

/-! ## 1. the generated text, restated in phases -/

/-- `*bb++ = (uint8)(((uintn)(x) >> k) & 0xff)` as the translator writes it (three checks, store, increment) -/
def pshr (s : St) (X k : Int) : St :=
  have s : St := vpackvs.chk s ((0 : Int) ≤ X ∧ (0 : Int) ≤ k ∧ k < (32 : Int))
  have s : St := vpackvs.chk s ((0 : Int) ≤ (X / 2 ^ Int.toNat (k)) ∧ (0 : Int) ≤ ((255) % 4294967296))
  have s : St := vpackvs.chk s (0 ≤ s.bb ∧ s.bb < s.buf.length)
  have s : St := vpackvs.St.set_buf s (s.buf.set (Int.toNat (s.bb)) ((((Int.ofNat (Int.toNat ((X / 2 ^ Int.toNat (k))) &&& Int.toNat (((255) % 4294967296))))) % 256)))
  let e0 : Int := (s.bb + 1)
  have s : St := vpackvs.St.set_bb s (e0)
  s

/-- `*bb++ = (uint8)((x) & m)` as the translator writes it (two checks, store, increment) -/
def pand (s : St) (X M : Int) : St :=
  have s : St := vpackvs.chk s ((0 : Int) ≤ X ∧ (0 : Int) ≤ M)
  have s : St := vpackvs.chk s (0 ≤ s.bb ∧ s.bb < s.buf.length)
  have s : St := vpackvs.St.set_buf s (s.buf.set (Int.toNat (s.bb)) ((((Int.ofNat (Int.toNat (X) &&& Int.toNat (M)))) % 256)))
  let e0 : Int := (s.bb + 1)
  have s : St := vpackvs.St.set_bb s (e0)
  s

/-- `UINT16ENCODE(bb, x)` (the low byte is `(x) & 0xff` on the promoted operand) -/
def encU16 (s : St) (X : Int) : St := pand (pshr s X 8) X 255
/-- `INT16ENCODE(bb, x)` (both bytes go through `(uintn)(x)`; `X` is the operand after that cast) -/
def encI16 (s : St) (X : Int) : St := pand (pshr s X 8) X ((255) % 4294967296)
/-- `UINT32ENCODE(bb, x)` / `INT32ENCODE(bb, x)` -/
def enc32 (s : St) (X : Int) : St := pand (pshr (pshr (pshr s X 24) X 16) X 8) X ((255) % 4294967296)

/-- `ret_value = SUCCEED; bb = &buf[0];` -/
def ph0 (s : St) : St :=
  have s : St := vpackvs.St.set_ret_value s (0)
  have s : St := vpackvs.St.set_bb s (0)
  s

/-- interlace, nvertices, ivsize, nfields -/
def ph1 (s : St) : St :=
  have s : St := encI16 s ((s.vs_interlace) % 4294967296)
  have s : St := enc32 s ((s.vs_nvertices) % 4294967296)
  have s : St := encU16 s s.vs_wlist_ivsize
  have s : St := encI16 s ((s.vs_wlist_n) % 4294967296)
  s

/-- `slen = (int16)strlen(p);` -/
def pstrA (s : St) (str : St → List Int) : St :=
  have s : St := vpackvs.chk s (0 ≤ 0 ∧ (0 : Int) ∈ ((str s).drop (Int.toNat (0))))
  have s : St := vpackvs.St.set_slen s (((((Int.ofNat (((str s).drop (Int.toNat (0))).takeWhile (· ≠ 0)).length)) + 32768) % 65536 - 32768))
  s

/-- `strcpy((char *)bb, p);` -/
def pstrB (s : St) (str : St → List Int) : St :=
  have s : St := vpackvs.chk s (0 ≤ 0 ∧ (0 : Int) ∈ ((str s).drop (Int.toNat (0))))
  have s : St := vpackvs.chk s (0 ≤ s.bb ∧ s.bb + (Int.ofNat (((str s).drop (Int.toNat (0))).takeWhile (· ≠ 0)).length + 1) ≤ s.buf.length)
  have s : St := vpackvs.St.set_buf s ((s.buf.take (Int.toNat (s.bb))) ++ (((str s).drop (Int.toNat (0))).take (Int.toNat (Int.ofNat (((str s).drop (Int.toNat (0))).takeWhile (· ≠ 0)).length + 1))) ++ (s.buf.drop (Int.toNat (s.bb + (Int.ofNat (((str s).drop (Int.toNat (0))).takeWhile (· ≠ 0)).length + 1)))))
  s

/-- `slen = (int16)strlen(p); INT16ENCODE(bb, slen); strcpy((char *)bb, p); bb += slen;` -/
def pstr (s : St) (str : St → List Int) : St :=
  have s : St := pstrA s str
  have s : St := encI16 s ((s.slen) % 4294967296)
  have s : St := pstrB s str
  have s : St := vpackvs.St.set_bb s ((s.bb + s.slen))
  s

/-- `UINT16ENCODE(bb, reg[i])` -/
def encU16r (s : St) (reg : St → List Int) : St :=
  have s : St := vpackvs.chk s (0 ≤ s.i ∧ s.i < (reg s).length)
  have s : St := pshr s ((reg s).getD (Int.toNat (s.i)) 0) 8
  have s : St := vpackvs.chk s (0 ≤ s.i ∧ s.i < (reg s).length)
  have s : St := pand s ((reg s).getD (Int.toNat (s.i)) 0) 255
  s

/-- `INT16ENCODE(bb, reg[i])` -/
def encI16r (s : St) (reg : St → List Int) : St :=
  have s : St := vpackvs.chk s (0 ≤ s.i ∧ s.i < (reg s).length)
  have s : St := pshr s ((((reg s).getD (Int.toNat (s.i)) 0)) % 4294967296) 8
  have s : St := vpackvs.chk s (0 ≤ s.i ∧ s.i < (reg s).length)
  have s : St := pand s ((((reg s).getD (Int.toNat (s.i)) 0)) % 4294967296) ((255) % 4294967296)
  s

/-- `INT32ENCODE(bb, reg[i])` -/
def encI32r (s : St) (reg : St → List Int) : St :=
  have s : St := vpackvs.chk s (0 ≤ s.i ∧ s.i < (reg s).length)
  have s : St := pshr s ((((reg s).getD (Int.toNat (s.i)) 0)) % 4294967296) 24
  have s : St := vpackvs.chk s (0 ≤ s.i ∧ s.i < (reg s).length)
  have s : St := pshr s ((((reg s).getD (Int.toNat (s.i)) 0)) % 4294967296) 16
  have s : St := vpackvs.chk s (0 ≤ s.i ∧ s.i < (reg s).length)
  have s : St := pshr s ((((reg s).getD (Int.toNat (s.i)) 0)) % 4294967296) 8
  have s : St := vpackvs.chk s (0 ≤ s.i ∧ s.i < (reg s).length)
  have s : St := pand s ((((reg s).getD (Int.toNat (s.i)) 0)) % 4294967296) ((255) % 4294967296)
  s

theorem loop0_body (fuel : Nat) (s : St) : vpackvs.loop0.body fuel s =
    (have s : St := encI16r s (·.vs_wlist_type); vpackvs.St.set_i s ((s.i + 1))) := by kernel_rfl
theorem loop1_body (fuel : Nat) (s : St) : vpackvs.loop1.body fuel s =
    (have s : St := encU16r s (·.vs_wlist_isize); vpackvs.St.set_i s ((s.i + 1))) := by kernel_rfl
theorem loop2_body (fuel : Nat) (s : St) : vpackvs.loop2.body fuel s =
    (have s : St := encU16r s (·.vs_wlist_off); vpackvs.St.set_i s ((s.i + 1))) := by kernel_rfl
theorem loop3_body (fuel : Nat) (s : St) : vpackvs.loop3.body fuel s =
    (have s : St := encU16r s (·.vs_wlist_order); vpackvs.St.set_i s ((s.i + 1))) := by kernel_rfl

/-- the current row of `vs->wlist.name` -/
def row (s : St) : List Int := s.vs_wlist_name.getD (Int.toNat (s.i)) []

/-- the body of the field-name loop without its increment -/
def body4 (s : St) : St :=
  have s : St := vpackvs.chk s (0 ≤ s.i ∧ s.i < s.vs_wlist_name.length)
  have s : St := pstrA s row
  have s : St := encI16 s ((s.slen) % 4294967296)
  have s : St := vpackvs.chk s (0 ≤ s.i ∧ s.i < s.vs_wlist_name.length)
  have s : St := pstrB s row
  have s : St := vpackvs.St.set_bb s ((s.bb + s.slen))
  s

theorem loop4_body (fuel : Nat) (s : St) : vpackvs.loop4.body fuel s =
    (have s : St := body4 s; vpackvs.St.set_i s ((s.i + 1))) := by kernel_rfl

theorem loop5_body (fuel : Nat) (s : St) : vpackvs.loop5.body fuel s =
    (have s : St := encI32r s (·.vs_alist_findex)
     have s : St := encU16r s (·.vs_alist_atag)
     have s : St := encU16r s (·.vs_alist_aref)
     vpackvs.St.set_i s ((s.i + 1))) := by kernel_rfl

/-- the five field loops (skipped for a Vdata without fields) -/
def ph2 (fuel : Nat) (s : St) : St :=
  if (s.vs_wlist_n > 0) then
      have s : St := vpackvs.St.set_i s (0)
      have s : St := vpackvs.loop0 fuel s
      have s : St := vpackvs.St.set_i s (0)
      have s : St := vpackvs.loop1 fuel s
      have s : St := vpackvs.St.set_i s (0)
      have s : St := vpackvs.loop2 fuel s
      have s : St := vpackvs.St.set_i s (0)
      have s : St := vpackvs.loop3 fuel s
      have s : St := vpackvs.St.set_i s (0)
      have s : St := vpackvs.loop4 fuel s
      s
    else
      s

/-- vsname, vsclass -/
def ph3 (s : St) : St := pstr s (·.vs_vsname)
def ph4 (s : St) : St := pstr s (·.vs_vsclass)

/-- extag, exref, version, more -/
def ph5 (s : St) : St :=
  have s : St := encU16 s s.vs_extag
  have s : St := encU16 s s.vs_exref
  have s : St := encI16 s ((s.vs_version) % 4294967296)
  have s : St := encI16 s ((s.vs_more) % 4294967296)
  s

/-- `if (vs->flags & VS_ATTR_SET) { INT32ENCODE(bb, vs->nattrs); for (…) { … } }` -/
def ph6b (fuel : Nat) (s : St) : St :=
  if ((Int.ofNat (Int.toNat (s.vs_flags) &&& Int.toNat (((1) % 4294967296)))) ≠ 0) then
      have s : St := enc32 s ((s.vs_nattrs) % 4294967296)
      have s : St := vpackvs.St.set_i s (0)
      have s : St := vpackvs.loop5 fuel s
      s
    else
      s

/-- the flags word and the attribute list -/
def ph6 (fuel : Nat) (s : St) : St :=
  if (s.vs_flags ≠ ((0) % 4294967296)) then
      have s : St := enc32 s s.vs_flags
      have s : St := vpackvs.chk s ((0 : Int) ≤ s.vs_flags ∧ (0 : Int) ≤ ((1) % 4294967296))
      have s : St := ph6b fuel s
      s
    else
      s

/-- version, more (second copy) -/
def ph7 (s : St) : St :=
  have s : St := encI16 s ((s.vs_version) % 4294967296)
  have s : St := encI16 s ((s.vs_more) % 4294967296)
  s

/-- `*size = (int32)(bb - buf) + 1; *bb = 0; return ret_value;` -/
def ph8 (s : St) : St :=
  have s : St := vpackvs.chk s (0 < s.size.length)
  have s : St := vpackvs.St.set_size s (s.size.set (Int.toNat (0)) (((s.bb - 0) + 1)))
  have s : St := vpackvs.chk s (0 ≤ s.bb ∧ s.bb < s.buf.length)
  have s : St := vpackvs.St.set_buf s (s.buf.set (Int.toNat (s.bb)) (((0) % 256)))
  have s : St := vpackvs.St.set_ret s (s.ret_value)
  s

/-- the translated function, called with NAMED arguments (the translator orders the parameters of the generated definition by
    their first use in the C text) -/
def vpackvsC (fuel : Nat) (interlace nvertices ivsize n : Int) (type isize off order : List Int) (names : List (List Int))
    (vsname vsclass : List Int) (extag exref version more flags nattrs : Int) (findex atag aref buf size : List Int) : St :=
  Gen.Fn.Vio.vpackvs (fuel := fuel) (vs_interlace := interlace) (vs_nvertices := nvertices) (vs_wlist_ivsize := ivsize)
    (vs_wlist_n := n) (vs_wlist_type := type) (vs_wlist_isize := isize) (vs_wlist_off := off) (vs_wlist_order := order)
    (vs_wlist_name := names) (vs_vsname := vsname) (vs_vsclass := vsclass) (vs_extag := extag) (vs_exref := exref)
    (vs_version := version) (vs_more := more) (vs_flags := flags) (vs_nattrs := nattrs) (vs_alist_findex := findex)
    (vs_alist_atag := atag) (vs_alist_aref := aref) (buf := buf) (size := size)

/-- **the restatement is the generated definition** (kernel-checked) -/
theorem vpackvs_phases (fuel : Nat) (interlace nvertices ivsize n : Int) (type isize off order : List Int) (names : List (List Int))
    (vsname vsclass : List Int) (extag exref version more flags nattrs : Int) (findex atag aref buf size : List Int) :
    vpackvsC fuel interlace nvertices ivsize n type isize off order names vsname vsclass extag exref version more flags nattrs
      findex atag aref buf size =
    ph8 (ph7 (ph6 fuel (ph5 (ph4 (ph3 (ph2 fuel (ph1 (ph0
      { vs_interlace := interlace, vs_nvertices := nvertices, vs_wlist_ivsize := ivsize, vs_wlist_n := n, vs_wlist_type := type,
        vs_wlist_isize := isize, vs_wlist_off := off, vs_wlist_order := order, vs_wlist_name := names, vs_vsname := vsname,
        vs_vsclass := vsclass, vs_extag := extag, vs_exref := exref, vs_version := version, vs_more := more, vs_flags := flags,
        vs_nattrs := nattrs, vs_alist_findex := findex, vs_alist_atag := atag, vs_alist_aref := aref, buf := buf,
        size := size })))))))) := by
  kernel_rfl

/-! ## 2. the output written so far -/

theorem chk_true (s : St) (c : Prop) [Decidable c] (h : c) : vpackvs.chk s c = s := by
  simp [vpackvs.chk, h]

/-- `*bb++ = v` -/
def put (s : St) (v : Int) : St := { s with buf := s.buf.set s.bb.toNat v, bb := s.bb + 1 }

theorem pshr_eq (s : St) (X k : Int) (hX : 0 ≤ X) (hk : k = 8 ∨ k = 16 ∨ k = 24) (hb : 0 ≤ s.bb ∧ s.bb < s.buf.length) :
    pshr s X k = put s ((X / 2 ^ k.toNat) % 256) := by
  have h2 : (0 : Int) ≤ X / 2 ^ Int.toNat k := Int.ediv_nonneg hX (Int.le_of_lt (Int.pow_pos (by decide)))
  have c1 : (0 : Int) ≤ X ∧ (0 : Int) ≤ k ∧ k < (32 : Int) := by omega
  have c2 : (0 : Int) ≤ (X / 2 ^ Int.toNat (k)) ∧ (0 : Int) ≤ ((255) % 4294967296) := ⟨h2, by decide⟩
  simp only [pshr]
  simp only [chk_true s _ c1]
  simp only [chk_true s _ c2]
  simp only [chk_true s _ hb]
  have e : ((255 : Int) % 4294967296) = 255 := by decide
  rw [e, and255 _ h2]
  rfl

theorem pand_eq (s : St) (X M : Int) (hX : 0 ≤ X) (hM : M = 255) (hb : 0 ≤ s.bb ∧ s.bb < s.buf.length) :
    pand s X M = put s (X % 256) := by
  subst hM
  have c1 : (0 : Int) ≤ X ∧ (0 : Int) ≤ 255 := ⟨hX, by decide⟩
  simp only [pand]
  simp only [chk_true s _ c1]
  simp only [chk_true s _ hb]
  rw [and255 _ hX]
  rfl

/-- everything but the cursor, the buffer, the two flags and the scratch variable `slen` -/
def frame (s : St) : St := { s with bb := 0, buf := [], ub := false, oof := false, slen := 0 }

/-- the function has written `out` at the start of the buffer, `bb` points behind it, the cell under `bb` may have been
    clobbered (by the terminating NUL of a `strcpy`), everything behind that cell is what the caller passed in (`b0`);
    no check has failed, no loop ran out of fuel; all other fields are those of `F` -/
structure At (F : St) (b0 : List Int) (s : St) (out : List Int) : Prop where
  bb : s.bb = (out.length : Int)
  buf : ∃ z, s.buf = out ++ z :: b0.drop (out.length + 1)
  fr : frame s = frame F
  ub : s.ub = false
  oof : s.oof = false

theorem At.bounds {F b0 s out} (h : At F b0 s out) : 0 ≤ s.bb ∧ s.bb < s.buf.length := by
  obtain ⟨z, hz⟩ := h.buf
  rw [h.bb, hz]
  simp only [List.length_append, List.length_cons]
  omega

theorem At.put {F b0 s out} (h : At F b0 s out) (v : Int) (hr : out.length + 1 < b0.length) :
    At F b0 (put s v) (out ++ [v]) := by
  obtain ⟨z, hz⟩ := h.buf
  refine ⟨?_, ?_, ?_, h.ub, h.oof⟩
  · simp only [C07Fn.put, h.bb, List.length_append, List.length_cons, List.length_nil]; omega
  · refine ⟨b0[out.length + 1], ?_⟩
    simp only [C07Fn.put, h.bb, hz, Int.toNat_natCast, List.length_append, List.length_cons, List.length_nil]
    rw [List.set_append_right _ _ (Nat.le_refl _)]
    simp only [Nat.sub_self, List.set_cons_zero, List.append_assoc, List.cons_append, List.nil_append]
    rw [List.drop_eq_getElem_cons hr]
  · exact h.fr

theorem pshr_at {F b0 s out} (h : At F b0 s out) (X k : Int) (hX : 0 ≤ X) (hk : k = 8 ∨ k = 16 ∨ k = 24)
    (hr : out.length + 1 < b0.length) : At F b0 (pshr s X k) (out ++ [(X / 2 ^ k.toNat) % 256]) := by
  rw [pshr_eq s X k hX hk h.bounds]; exact h.put _ hr

theorem pand_at {F b0 s out} (h : At F b0 s out) (X M : Int) (hX : 0 ≤ X) (hM : M = 255)
    (hr : out.length + 1 < b0.length) : At F b0 (pand s X M) (out ++ [X % 256]) := by
  rw [pand_eq s X M hX hM h.bounds]; exact h.put _ hr

theorem enc16_bytes (x : Nat) : bytesI (enc16 x) = [((x : Int) / 2 ^ (8 : Int).toNat) % 256, (x : Int) % 256] :=
  H4.Lemmas.C08Fn.u16_bytes x

theorem enc32_bytes (x : Nat) : bytesI (Format.enc32 x) =
    [((x : Int) / 2 ^ (24 : Int).toNat) % 256, ((x : Int) / 2 ^ (16 : Int).toNat) % 256, ((x : Int) / 2 ^ (8 : Int).toNat) % 256, (x : Int) % 256] :=
  H4.Lemmas.C08Fn.u32_bytes x

theorem enc16_length (x : Nat) : (enc16 x).length = 2 := rfl
theorem enc32_length (x : Nat) : (Format.enc32 x).length = 4 := rfl
theorem encS16_length (x : Int) : (encS16 x).length = 2 := rfl
theorem encS32_length (x : Int) : (encS32 x).length = 4 := rfl

/-- the two byte stores of a 16-bit ENCODE macro append `enc16 x` -/
theorem enc16g_at {F b0 s out} (h : At F b0 s out) (x : Nat) (X M : Int) (hx : X = x) (hM : M = 255)
    (hr : out.length + 2 < b0.length) : At F b0 (pand (pshr s X 8) X M) (out ++ bytesI (enc16 x)) := by
  subst hx
  have h1 := pshr_at h (x : Int) 8 (by omega) (Or.inl rfl) (by omega)
  have h2 := pand_at h1 (x : Int) M (by omega) hM (by simp only [List.length_append, List.length_cons, List.length_nil]; omega)
  rw [enc16_bytes]
  simpa only [List.append_assoc, List.cons_append, List.nil_append] using h2

theorem encU16_at {F b0 s out} (h : At F b0 s out) (x : Nat) (X : Int) (hx : X = x)
    (hr : out.length + 2 < b0.length) : At F b0 (encU16 s X) (out ++ bytesI (enc16 x)) :=
  enc16g_at h x X 255 hx rfl hr

theorem encS16_eq (v : Int) : encS16 v = enc16 ((v % 4294967296).toNat) := by
  have a : ((ofS16 v : Nat) : Int) = v % 65536 := by simp only [ofS16]; omega
  have b : (((v % 4294967296).toNat : Nat) : Int) = v % 4294967296 := by omega
  simp only [encS16, enc16]
  congr 1
  · apply UInt8.toNat_inj.mp
    simp only [UInt8.toNat_ofNat']
    omega
  · congr 1
    apply UInt8.toNat_inj.mp
    simp only [UInt8.toNat_ofNat']
    omega

/-- `INT16ENCODE(bb, v)` appends the model's `encS16 v`, for every integer `v` (both sides keep the low 16 bits) -/
theorem encI16_at {F b0 s out} (h : At F b0 s out) (v : Int) (X : Int) (hx : X = v % 4294967296)
    (hr : out.length + 2 < b0.length) : At F b0 (encI16 s X) (out ++ bytesI (encS16 v)) := by
  rw [encS16_eq]
  exact enc16g_at h _ X _ (by rw [hx]; omega) (by decide) hr

/-- `UINT32ENCODE(bb, x)` appends `enc32 x` -/
theorem enc32_at {F b0 s out} (h : At F b0 s out) (x : Nat) (X : Int) (hx : X = x)
    (hr : out.length + 4 < b0.length) : At F b0 (enc32 s X) (out ++ bytesI (Format.enc32 x)) := by
  subst hx
  have h1 := pshr_at h (x : Int) 24 (by omega) (Or.inr (Or.inr rfl)) (by omega)
  have h2 := pshr_at h1 (x : Int) 16 (by omega) (Or.inr (Or.inl rfl)) (by simp only [List.length_append, List.length_cons, List.length_nil]; omega)
  have h3 := pshr_at h2 (x : Int) 8 (by omega) (Or.inl rfl) (by simp only [List.length_append, List.length_cons, List.length_nil]; omega)
  have h4 := pand_at h3 (x : Int) ((255) % 4294967296) (by omega) (by decide) (by simp only [List.length_append, List.length_cons, List.length_nil]; omega)
  rw [enc32_bytes]
  simpa only [C07Fn.enc32, List.append_assoc, List.cons_append, List.nil_append] using h4

/-- `INT32ENCODE(bb, v)` appends the model's `encS32 v` -/
theorem encI32_at {F b0 s out} (h : At F b0 s out) (v : Int) (X : Int) (hx : X = v % 4294967296)
    (hr : out.length + 4 < b0.length) : At F b0 (enc32 s X) (out ++ bytesI (encS32 v)) :=
  enc32_at h (ofS32 v) X (by rw [hx]; simp only [ofS32]; omega) hr

/-- a field other than `bb`, `buf`, `ub`, `oof` is read off `F` -/
theorem At.get {F b0 s out} (h : At F b0 s out) {α} (f : St → α) (hf : ∀ t, f t = f (frame t)) : f s = f F := by
  rw [hf s, hf F, h.fr]

/-- assignments to the other fields act on `F` -/
theorem At.upd {F b0 s out} (h : At F b0 s out) (g : St → St) (hb : ∀ t, (g t).bb = t.bb) (hbuf : ∀ t, (g t).buf = t.buf)
    (hub : ∀ t, (g t).ub = t.ub) (hoof : ∀ t, (g t).oof = t.oof) (hg : ∀ t, frame (g t) = frame (g (frame t))) :
    At (g F) b0 (g s) out :=
  ⟨by rw [hb]; exact h.bb, by rw [hbuf]; exact h.buf, by rw [hg s, hg F, h.fr], by rw [hub]; exact h.ub, by rw [hoof]; exact h.oof⟩

theorem At.set_i {F b0 s out} (h : At F b0 s out) (v : Int) : At (F.set_i v) b0 (s.set_i v) out :=
  h.upd (·.set_i v) (fun _ => rfl) (fun _ => rfl) (fun _ => rfl) (fun _ => rfl) (fun _ => rfl)

theorem At.set_slen {F b0 s out} (h : At F b0 s out) (v : Int) : At F b0 (s.set_slen v) out :=
  ⟨h.bb, h.buf, h.fr, h.ub, h.oof⟩

/-! ## 3. array cells and the loops -/

theorem encU16r_at {F b0 s out} (h : At F b0 s out) (reg : St → List Int) (hreg : ∀ t, reg t = reg (frame t)) (k x : Nat)
    (hi : F.i = k) (hk : k < (reg F).length) (hx : (reg F).getD k 0 = (x : Int)) (hr : out.length + 2 < b0.length) :
    At F b0 (encU16r s reg) (out ++ bytesI (enc16 x)) := by
  have hI : ∀ {t o}, At F b0 t o → t.i = k := fun ht => (ht.get (·.i) (fun _ => rfl)).trans hi
  have hR : ∀ {t o}, At F b0 t o → reg t = reg F := fun ht => ht.get reg hreg
  have c1 : 0 ≤ s.i ∧ s.i < (reg s).length := by rw [hI h, hR h]; omega
  have e1 : (reg s).getD (Int.toNat (s.i)) 0 = (x : Int) := by rw [hI h, hR h, Int.toNat_natCast, hx]
  have h1 := pshr_at h (x : Int) 8 (by omega) (Or.inl rfl) (by omega)
  have c2 : 0 ≤ (pshr s (x : Int) 8).i ∧ (pshr s (x : Int) 8).i < (reg (pshr s (x : Int) 8)).length := by rw [hI h1, hR h1]; omega
  have e2 : (reg (pshr s (x : Int) 8)).getD (Int.toNat ((pshr s (x : Int) 8).i)) 0 = (x : Int) := by
    rw [hI h1, hR h1, Int.toNat_natCast, hx]
  have h2 := pand_at h1 (x : Int) 255 (by omega) rfl (by simp only [List.length_append, List.length_cons, List.length_nil]; omega)
  simp only [encU16r]
  simp only [chk_true s _ c1]
  rw [e1]
  simp only [chk_true _ _ c2]
  rw [e2, enc16_bytes]
  simpa only [List.append_assoc, List.cons_append, List.nil_append] using h2

theorem encI16r_at {F b0 s out} (h : At F b0 s out) (reg : St → List Int) (hreg : ∀ t, reg t = reg (frame t)) (k : Nat) (v : Int)
    (hi : F.i = k) (hk : k < (reg F).length) (hx : (reg F).getD k 0 = v) (hr : out.length + 2 < b0.length) :
    At F b0 (encI16r s reg) (out ++ bytesI (encS16 v)) := by
  have hI : ∀ {t o}, At F b0 t o → t.i = k := fun ht => (ht.get (·.i) (fun _ => rfl)).trans hi
  have hR : ∀ {t o}, At F b0 t o → reg t = reg F := fun ht => ht.get reg hreg
  obtain ⟨x, hxv⟩ : ∃ x : Nat, v % 4294967296 = (x : Int) := ⟨(v % 4294967296).toNat, by omega⟩
  have c1 : 0 ≤ s.i ∧ s.i < (reg s).length := by rw [hI h, hR h]; omega
  have e1 : ((reg s).getD (Int.toNat (s.i)) 0) % 4294967296 = (x : Int) := by rw [hI h, hR h, Int.toNat_natCast, hx, hxv]
  have h1 := pshr_at h (x : Int) 8 (by omega) (Or.inl rfl) (by omega)
  have c2 : 0 ≤ (pshr s (x : Int) 8).i ∧ (pshr s (x : Int) 8).i < (reg (pshr s (x : Int) 8)).length := by rw [hI h1, hR h1]; omega
  have e2 : ((reg (pshr s (x : Int) 8)).getD (Int.toNat ((pshr s (x : Int) 8).i)) 0) % 4294967296 = (x : Int) := by
    rw [hI h1, hR h1, Int.toNat_natCast, hx, hxv]
  have h2 := pand_at h1 (x : Int) ((255) % 4294967296) (by omega) (by decide) (by simp only [List.length_append, List.length_cons, List.length_nil]; omega)
  have eb : encS16 v = enc16 x := by
    rw [encS16_eq]; congr 1; omega
  simp only [encI16r]
  simp only [chk_true s _ c1]
  rw [e1]
  simp only [chk_true _ _ c2]
  rw [e2, eb, enc16_bytes]
  simpa only [List.append_assoc, List.cons_append, List.nil_append] using h2

theorem encI32r_at {F b0 s out} (h : At F b0 s out) (reg : St → List Int) (hreg : ∀ t, reg t = reg (frame t)) (k : Nat) (v : Int)
    (hi : F.i = k) (hk : k < (reg F).length) (hx : (reg F).getD k 0 = v) (hr : out.length + 4 < b0.length) :
    At F b0 (encI32r s reg) (out ++ bytesI (encS32 v)) := by
  have hI : ∀ {t o}, At F b0 t o → t.i = k := fun ht => (ht.get (·.i) (fun _ => rfl)).trans hi
  have hR : ∀ {t o}, At F b0 t o → reg t = reg F := fun ht => ht.get reg hreg
  obtain ⟨x, hxv⟩ : ∃ x : Nat, v % 4294967296 = (x : Int) := ⟨(v % 4294967296).toNat, by omega⟩
  have hc : ∀ {t o}, At F b0 t o → (0 ≤ t.i ∧ t.i < (reg t).length) := fun ht => by rw [hI ht, hR ht]; omega
  have he : ∀ {t o}, At F b0 t o → ((reg t).getD (Int.toNat (t.i)) 0) % 4294967296 = (x : Int) := fun ht => by
    rw [hI ht, hR ht, Int.toNat_natCast, hx, hxv]
  have h1 := pshr_at h (x : Int) 24 (by omega) (Or.inr (Or.inr rfl)) (by omega)
  have h2 := pshr_at h1 (x : Int) 16 (by omega) (Or.inr (Or.inl rfl)) (by simp only [List.length_append, List.length_cons, List.length_nil]; omega)
  have h3 := pshr_at h2 (x : Int) 8 (by omega) (Or.inl rfl) (by simp only [List.length_append, List.length_cons, List.length_nil]; omega)
  have h4 := pand_at h3 (x : Int) ((255) % 4294967296) (by omega) (by decide) (by simp only [List.length_append, List.length_cons, List.length_nil]; omega)
  have eb : encS32 v = Format.enc32 x := by
    simp only [encS32, ofS32]; congr 1; omega
  simp only [encI32r]
  simp only [chk_true s _ (hc h)]
  rw [he h]
  simp only [chk_true _ _ (hc h1)]
  rw [he h1]
  simp only [chk_true _ _ (hc h2)]
  rw [he h2]
  simp only [chk_true _ _ (hc h3)]
  rw [he h3, eb, enc32_bytes]
  simpa only [List.append_assoc, List.cons_append, List.nil_append] using h4

/-- **one induction for all six loops** `for (i = k; i < bound; i++) body`: `loop` is one of the generated loop functions (given by
    its two unfolding equations), `body` its body without the increment, `l` the model list it runs over, `piece a` the bytes the
    body appends for the element `a`; `P` collects what the body needs to know about the unchanged fields. -/
theorem loop_at {α : Type} (b0 : List Int) (loop : Nat → St → St) (body : St → St) (bound : St → Int)
    (hbf : ∀ t, bound t = bound (frame t)) (hbi : ∀ t v, bound (vpackvs.St.set_i t v) = bound t)
    (h0 : ∀ s, loop 0 s = if s.i < bound s then { s with oof := true } else s)
    (hS : ∀ f s, loop (f + 1) s = if s.i < bound s then loop f (vpackvs.St.set_i (body s) ((body s).i + 1)) else s)
    (l : List α) (piece : α → List Int) (P : St → Prop) (hPi : ∀ t v, P t → P (vpackvs.St.set_i t v))
    (hstep : ∀ (k : Nat) (hk : k < l.length) (F s : St) (out : List Int), P F → At F b0 s out → F.i = k →
      out.length + (piece l[k]).length < b0.length → At F b0 (body s) (out ++ piece l[k])) :
    ∀ (m fuel k : Nat) (F s : St) (out : List Int), m ≤ fuel → k + m = l.length → P F → At F b0 s out → F.i = k →
      bound F = l.length → out.length + ((l.drop k).flatMap piece).length < b0.length →
      At (F.set_i l.length) b0 (loop fuel s) (out ++ (l.drop k).flatMap piece) := by
  intro m
  induction m with
  | zero =>
    intro fuel k F s out _ hk _ h hi hn _
    have hc : ¬ (s.i < bound s) := by
      rw [h.get (·.i) (fun _ => rfl), h.get bound hbf, hi, hn]; omega
    have e : loop fuel s = s := by
      cases fuel with
      | zero => rw [h0, if_neg hc]
      | succ f => rw [hS, if_neg hc]
    have hd : l.drop k = [] := by simp; omega
    have hF : F.set_i l.length = F := by
      have : (l.length : Int) = F.i := by rw [hi]; congr 1; omega
      simp only [vpackvs.St.set_i, this]
    rw [e, hd, hF]
    simpa using h
  | succ m ih =>
    intro fuel k F s out hf hk hP h hi hn hr
    obtain ⟨fuel, rfl⟩ : ∃ f, fuel = f + 1 := ⟨fuel - 1, by omega⟩
    have hc : s.i < bound s := by
      rw [h.get (·.i) (fun _ => rfl), h.get bound hbf, hi, hn]; omega
    have hkl : k < l.length := by omega
    rw [List.drop_eq_getElem_cons hkl, List.flatMap_cons] at hr ⊢
    rw [List.length_append] at hr
    have h1 := hstep k hkl F s out hP h hi (by omega)
    have h2 := h1.set_i ((body s).i + 1)
    have hi2 : (body s).i = k := (h1.get (·.i) (fun _ => rfl)).trans hi
    rw [hS, if_pos hc]
    have h3 := ih fuel (k + 1) _ _ _ (by omega) (by omega) (hPi _ _ hP) h2 (by simp only [vpackvs.St.set_i, hi2]; omega)
      (by rw [hbi]; exact hn) (by rw [List.length_append]; omega)
    rw [← List.append_assoc]
    exact h3

/-! ## 4. names -/

/-- a name the record can hold: shorter than 32768 bytes (`(int16)strlen`) and, being a C string, without NUL -/
def NameOK (b : Bytes) : Prop := b.length < 32768 ∧ (0 : UInt8) ∉ b
instance (b : Bytes) : Decidable (NameOK b) := by unfold NameOK; infer_instance

theorem pstrA_at {F b0 s out} (h : At F b0 s out) (str : St → List Int) (hs : ∀ t, str t = str (frame t))
    (b : Bytes) (hb : NameOK b) (pad : List Int) (ha : str F = bytesI b ++ 0 :: pad) :
    At F b0 (pstrA s str) out ∧ (pstrA s str).slen = ((b.length : Nat) : Int) := by
  have es : str s = bytesI b ++ 0 :: pad := (h.get str hs).trans ha
  have c1 : 0 ≤ 0 ∧ (0 : Int) ∈ ((str s).drop (Int.toNat (0))) := by
    rw [es]; simp
  simp only [pstrA]
  simp only [chk_true s _ c1]
  rw [es]
  have t0 : Int.toNat 0 = 0 := rfl
  rw [t0, List.drop_zero, cstr_takeWhile b hb.2 pad]
  have e : ((((Int.ofNat (bytesI b).length)) + 32768) % 65536 - 32768) = ((b.length : Nat) : Int) := by
    have := hb.1
    simp only [bytesI_length, Int.ofNat_eq_natCast]; omega
  rw [e]
  exact ⟨h.set_slen _, rfl⟩

/-- `strcpy((char *)bb, p); bb += slen;` : the string is appended; its terminating NUL lands under `bb` -/
theorem pstrB_at {F b0 s out} (h : At F b0 s out) (str : St → List Int) (hs : ∀ t, str t = str (frame t))
    (b : Bytes) (hb : NameOK b) (pad : List Int) (ha : str F = bytesI b ++ 0 :: pad) (htl : s.slen = ((b.length : Nat) : Int))
    (hr : out.length + b.length < b0.length) :
    At F b0 (vpackvs.St.set_bb (pstrB s str) ((pstrB s str).bb + (pstrB s str).slen)) (out ++ bytesI b) := by
  obtain ⟨z, hz⟩ := h.buf
  have es : str s = bytesI b ++ 0 :: pad := (h.get str hs).trans ha
  have c1 : 0 ≤ 0 ∧ (0 : Int) ∈ ((str s).drop (Int.toNat (0))) := by
    rw [es]; simp
  have t0 : Int.toNat 0 = 0 := rfl
  have tw : ((str s).drop (Int.toNat (0))).takeWhile (· ≠ 0) = bytesI b := by
    rw [es, t0, List.drop_zero, cstr_takeWhile b hb.2 pad]
  have c2 : 0 ≤ s.bb ∧ s.bb + (Int.ofNat (((str s).drop (Int.toNat (0))).takeWhile (· ≠ 0)).length + 1) ≤ s.buf.length := by
    rw [tw, h.bb, hz]
    simp only [List.length_append, List.length_cons, List.length_drop, bytesI_length, Int.ofNat_eq_natCast]
    omega
  have e3 : s.slen = (b.length : Int) := htl
  have eb : pstrB s str = vpackvs.St.set_buf s (out ++ (bytesI b ++ [0]) ++ b0.drop (out.length + b.length + 1)) := by
    simp only [pstrB]
    simp only [chk_true s _ c1]
    simp only [chk_true s _ c2]
    rw [tw]
    congr 1
    rw [h.bb, hz, es, t0, List.drop_zero]
    have q1 : Int.toNat (out.length : Int) = out.length := Int.toNat_natCast _
    have q2 : Int.toNat (Int.ofNat (bytesI b).length + 1) = (bytesI b).length + 1 := by
      simp only [Int.ofNat_eq_natCast]; omega
    have q3 : Int.toNat ((out.length : Int) + (Int.ofNat (bytesI b).length + 1)) = out.length + ((bytesI b).length + 1) := by
      simp only [Int.ofNat_eq_natCast]; omega
    rw [q1, q2, q3, strcpy_lists, List.drop_drop, bytesI_length]
    congr 2
    omega
  rw [eb]
  refine ⟨?_, ⟨0, ?_⟩, h.fr, h.ub, h.oof⟩
  · simp only [vpackvs.St.set_bb, vpackvs.St.set_buf, h.bb, e3, List.length_append, bytesI_length]; omega
  · simp only [vpackvs.St.set_bb, vpackvs.St.set_buf, List.length_append, bytesI_length, List.append_assoc, List.cons_append,
      List.nil_append]

theorem pshr_slen (s : St) (X k : Int) : (pshr s X k).slen = s.slen := rfl
theorem pand_slen (s : St) (X M : Int) : (pand s X M).slen = s.slen := rfl

/-- a name field: `INT16ENCODE` of the length and the bytes, as the model's `encStr16` -/
theorem pstr_at {F b0 s out} (h : At F b0 s out) (str : St → List Int) (hs : ∀ t, str t = str (frame t))
    (b : Bytes) (hb : NameOK b) (pad : List Int) (ha : str F = bytesI b ++ 0 :: pad)
    (hr : out.length + (encStr16 b).length < b0.length) :
    At F b0 (pstr s str) (out ++ bytesI (encStr16 b)) := by
  have hlen := hb.1
  simp only [encStr16, List.length_append, enc16_length] at hr
  obtain ⟨h1, esl⟩ := pstrA_at h str hs b hb pad ha
  have h2 := enc16g_at h1 b.length (((pstrA s str).slen) % 4294967296) ((255) % 4294967296) (by rw [esl]; omega) (by decide) (by omega)
  have h3 := pstrB_at h2 str hs b hb pad ha (by rw [pand_slen, pshr_slen]; exact esl)
    (by simp only [List.length_append, bytesI_length, enc16_length]; omega)
  simp only [encStr16, bytesI_append, ← List.append_assoc]
  exact h3

theorem pshr_i (s : St) (X k : Int) : (pshr s X k).i = s.i := rfl
theorem pand_i (s : St) (X M : Int) : (pand s X M).i = s.i := rfl
theorem pshr_names (s : St) (X k : Int) : (pshr s X k).vs_wlist_name = s.vs_wlist_name := rfl
theorem pand_names (s : St) (X M : Int) : (pand s X M).vs_wlist_name = s.vs_wlist_name := rfl
theorem encI16_i (s : St) (X : Int) : (encI16 s X).i = s.i := by rw [encI16, pand_i, pshr_i]
theorem encI16_names (s : St) (X : Int) : (encI16 s X).vs_wlist_name = s.vs_wlist_name := by rw [encI16, pand_names, pshr_names]
theorem pstrA_i (s : St) (str : St → List Int) : (pstrA s str).i = s.i := by simp only [pstrA, vpackvs.chk, vpackvs.St.set_slen]
theorem pstrA_names (s : St) (str : St → List Int) : (pstrA s str).vs_wlist_name = s.vs_wlist_name := by simp only [pstrA, vpackvs.chk, vpackvs.St.set_slen]

/-- the body of the field-name loop is `pstr` on the current row -/
theorem body4_eq (s : St) (c1 : 0 ≤ s.i ∧ s.i < s.vs_wlist_name.length) : body4 s = pstr s row := by
  have c2 : 0 ≤ (encI16 (pstrA s row) (((pstrA s row).slen) % 4294967296)).i ∧
      (encI16 (pstrA s row) (((pstrA s row).slen) % 4294967296)).i <
        (encI16 (pstrA s row) (((pstrA s row).slen) % 4294967296)).vs_wlist_name.length := by
    rw [encI16_i, encI16_names, pstrA_i, pstrA_names]; exact c1
  simp only [body4]
  simp only [chk_true s _ c1]
  simp only [chk_true _ _ c2]
  rfl

/-! ## 5. the whole function -/

theorem bytesI_flatMap {α} (l : List α) (g : α → Bytes) : bytesI (l.flatMap g) = l.flatMap (fun a => bytesI (g a)) := by
  induction l with
  | nil => rfl
  | cons a l ih => simp only [List.flatMap_cons, bytesI_append, ih]

theorem flatMap_length_const {α} (l : List α) (g : α → Bytes) (c : Nat) (h : ∀ a, (g a).length = c) :
    (l.flatMap g).length = c * l.length := by
  induction l with
  | nil => rfl
  | cons a l ih => simp only [List.flatMap_cons, List.length_append, h, ih, List.length_cons]; rw [Nat.mul_succ]; omega

/-- the arguments the translated function is called with for the model header `v`: `n`/`nattrs` are the list lengths, the
    arrays may be longer than that (`tpad` …), every name is a C string (the rows of `wlist.name` all followed by `rowpad`) -/
def init (v : VH) (tpad ipad opad dpad rowpad : List Int) (rows : List (List Int)) (npad cpad fpad atpad arpad buf size : List Int) : St :=
  { vs_interlace := v.interlace, vs_nvertices := v.nvert, vs_wlist_ivsize := (v.ivsize : Int), vs_wlist_n := (v.fields.length : Int),
    vs_wlist_type := v.fields.map (·.type) ++ tpad, vs_wlist_isize := ints (v.fields.map (·.isize)) ++ ipad,
    vs_wlist_off := ints (v.fields.map (·.off)) ++ opad, vs_wlist_order := ints (v.fields.map (·.order)) ++ dpad,
    vs_wlist_name := v.fields.map (fun f => bytesI f.name ++ 0 :: rowpad) ++ rows,
    vs_vsname := bytesI v.name ++ 0 :: npad, vs_vsclass := bytesI v.cls ++ 0 :: cpad,
    vs_extag := (v.extag : Int), vs_exref := (v.exref : Int), vs_version := v.version, vs_more := v.more, vs_flags := (v.flags : Int),
    vs_nattrs := (v.attrs.length : Int), vs_alist_findex := v.attrs.map (·.findex) ++ fpad,
    vs_alist_atag := ints (v.attrs.map (·.atag)) ++ atpad, vs_alist_aref := ints (v.attrs.map (·.aref)) ++ arpad,
    buf := buf, size := size }

/-- what the phases need to know about the fields they never change -/
structure Regs (v : VH) (rowpad : List Int) (F : St) : Prop where
  il : F.vs_interlace = v.interlace
  nv : F.vs_nvertices = v.nvert
  ivs : F.vs_wlist_ivsize = (v.ivsize : Int)
  n : F.vs_wlist_n = (v.fields.length : Int)
  ty : ∃ pad, F.vs_wlist_type = v.fields.map (·.type) ++ pad
  isz : ∃ pad, F.vs_wlist_isize = ints (v.fields.map (·.isize)) ++ pad
  off : ∃ pad, F.vs_wlist_off = ints (v.fields.map (·.off)) ++ pad
  ord : ∃ pad, F.vs_wlist_order = ints (v.fields.map (·.order)) ++ pad
  nm : ∃ rows, F.vs_wlist_name = v.fields.map (fun f => bytesI f.name ++ 0 :: rowpad) ++ rows
  vn : ∃ pad, F.vs_vsname = bytesI v.name ++ 0 :: pad
  vc : ∃ pad, F.vs_vsclass = bytesI v.cls ++ 0 :: pad
  et : F.vs_extag = (v.extag : Int)
  er : F.vs_exref = (v.exref : Int)
  ver : F.vs_version = v.version
  more : F.vs_more = v.more
  fl : F.vs_flags = (v.flags : Int)
  na : F.vs_nattrs = (v.attrs.length : Int)
  fi : ∃ pad, F.vs_alist_findex = v.attrs.map (·.findex) ++ pad
  atg : ∃ pad, F.vs_alist_atag = ints (v.attrs.map (·.atag)) ++ pad
  arf : ∃ pad, F.vs_alist_aref = ints (v.attrs.map (·.aref)) ++ pad

theorem Regs.set_i {v rowpad F} (h : Regs v rowpad F) (x : Int) : Regs v rowpad (F.set_i x) :=
  ⟨h.il, h.nv, h.ivs, h.n, h.ty, h.isz, h.off, h.ord, h.nm, h.vn, h.vc, h.et, h.er, h.ver, h.more, h.fl, h.na, h.fi, h.atg, h.arf⟩

theorem getD_map_append {α} (l : List α) (g : α → Int) (pad : List Int) (k : Nat) (hk : k < l.length) :
    (l.map g ++ pad).getD k 0 = g l[k] := by
  rw [List.getD_eq_getElem?_getD, List.getElem?_append_left (by simpa using hk)]
  simp [hk]

theorem getD_ints_append {α} (l : List α) (g : α → Nat) (pad : List Int) (k : Nat) (hk : k < l.length) :
    (ints (l.map g) ++ pad).getD k 0 = ((g l[k] : Nat) : Int) := by
  rw [List.getD_eq_getElem?_getD, List.getElem?_append_left (by simpa using hk)]
  simp [ints, hk]

/-- the part of the record between the first and the second copy of version/more -/
def flagsPart (v : VH) : Bytes :=
  if v.flags ≠ 0 then
    Format.enc32 v.flags ++ (if v.flags % 2 = 1 then Format.enc32 v.attrs.length ++ v.attrs.flatMap encodeVAttr else [])
  else []

theorem land_one (n : Nat) : (Int.ofNat (Int.toNat (n : Int) &&& Int.toNat (((1) % 4294967296))) ≠ 0) ↔ n % 2 = 1 := by
  have e : Int.toNat ((1 : Int) % 4294967296) = 1 := by decide
  rw [e, Int.toNat_natCast, Nat.and_one_is_mod]
  simp only [Int.ofNat_eq_natCast, ne_eq]
  omega

end H4.Lemmas.C07Fn
