import H4.Lemmas.C07Fn10
/-! Lemmas for `H4.Props.C07Fn3`, part 9: the block `wlist.bptr` of the final state in closed form (types, offsets, isizes, orders,
    esizes).  Core only. -/
set_option linter.unusedSimpArgs false
set_option linter.unusedVariables false
namespace H4.Lemmas.C07Fn3
open H4 H4.Format H4.Gen.Hdf H4.Gen.Fn.Vio3 H4.C2L
open H4.Lemmas.C08Fn (bytesI bytesI_length bytesI_nil bytesI_cons bytesI_append)
open H4.Lemmas.C08Fn3 (b8 be16 be32 b8_range S32 be16N be16_eq be16N_lt be32N be32_eq be32N_lt w16 valsN valsN_length valsN_cons vals vals_eq fill
  vals_length fill_length orS)

/-! ## the block `wlist.bptr` in closed form -/

theorem fill_mid (P X S Y : List Int) (h : X.length = Y.length) : fill (P ++ X ++ S) P.length Y = P ++ Y ++ S := by
  simp only [fill]
  rw [List.append_assoc P X S, List.take_left' rfl, List.drop_append, ← h]
  have e1 : List.drop (P.length + X.length) P = [] := List.drop_eq_nil_of_le (by omega)
  have e2 : P.length + X.length - P.length = X.length := by omega
  rw [e1, e2, List.drop_left' rfl, List.nil_append]

theorem gens_getD (g : Int → Int) (l : List Int) (k n : Nat) (h : k + n ≤ l.length) :
    gens (fun t => g (l.getD (k + t) 0)) n = ((l.drop k).take n).map g := by
  induction n with
  | zero => simp [gens]
  | succ n ih =>
    rw [gens_succ, ih (by omega), List.take_succ_eq_append_getElem (by simp; omega), List.map_append]
    simp [List.getD_eq_getElem?_getD, List.getElem?_eq_getElem (show k + n < l.length by omega)]

/-- the block after the four array loops -/
theorem block4 (n : Nat) (T I O R : List Int) (hT : T.length = n) (hI : I.length = n) (hO : O.length = n) (hR : R.length = n) :
    fill (fill (fill (fill (List.replicate (5 * n) 170) 0 T) (2 * n) I) n O) (3 * n) R = T ++ O ++ I ++ R ++ List.replicate n 170 := by
  have e5 : List.replicate (5 * n) (170 : Int) = [] ++ List.replicate n 170 ++ (List.replicate n 170 ++ List.replicate n 170 ++ List.replicate n 170 ++ List.replicate n 170) := by
    simp only [List.nil_append, List.replicate_append_replicate]; congr 1; omega
  have s1 := fill_mid [] (List.replicate n 170) (List.replicate n 170 ++ List.replicate n 170 ++ List.replicate n 170 ++ List.replicate n 170) T (by simp [hT])
  rw [← e5] at s1
  simp only [List.length_nil, List.nil_append] at s1
  rw [s1]
  have a2 : T ++ (List.replicate n 170 ++ List.replicate n 170 ++ List.replicate n 170 ++ List.replicate n 170) =
      (T ++ List.replicate n 170) ++ List.replicate n 170 ++ (List.replicate n 170 ++ List.replicate n 170) := by simp only [List.append_assoc]
  have s2 := fill_mid (T ++ List.replicate n 170) (List.replicate n 170) (List.replicate n 170 ++ List.replicate n 170) I (by simp [hI])
  have l2 : (T ++ List.replicate n (170 : Int)).length = 2 * n := by simp [hT]; omega
  rw [l2] at s2
  rw [a2, s2]
  have a3 : T ++ List.replicate n 170 ++ I ++ (List.replicate n 170 ++ List.replicate n 170) =
      T ++ List.replicate n 170 ++ (I ++ (List.replicate n 170 ++ List.replicate n 170)) := by simp only [List.append_assoc]
  have s3 := fill_mid T (List.replicate n 170) (I ++ (List.replicate n 170 ++ List.replicate n 170)) O (by simp [hO])
  rw [hT] at s3
  rw [a3, s3]
  have a4 : T ++ O ++ (I ++ (List.replicate n 170 ++ List.replicate n 170)) = (T ++ O ++ I) ++ List.replicate n 170 ++ List.replicate n 170 := by simp only [List.append_assoc]
  have s4 := fill_mid (T ++ O ++ I) (List.replicate n 170) (List.replicate n 170) R (by simp [hR])
  have l4 : (T ++ O ++ I).length = 3 * n := by simp [hT, hO, hI]; omega
  rw [l4] at s4
  rw [a4, s4]

theorem gens_congr (f g : Nat → Int) (n : Nat) (h : ∀ t, t < n → f t = g t) : gens f n = gens g n := by
  simp only [gens]
  apply List.map_congr_left
  intro t ht
  exact h t (by simpa using ht)

/-- the `esize` values: `esize[t] = (uint16)(order[t] * DFKNTsize(type[t] | DFNT_NATIVE))` -/
def esizes (D : Int → Int) (T R : List Int) (n : Nat) : List Int := gens (fun t => (R.getD t 0 * D (orS (T.getD t 0) 4096)) % 65536) n

theorem getD_app5 (T O I R E : List Int) (n t : Nat) (hT : T.length = n) (hO : O.length = n) (hI : I.length = n) (hR : R.length = n) (ht : t < n) :
    (T ++ O ++ I ++ R ++ E).getD (3 * n + t) 0 = R.getD t 0 ∧ (T ++ O ++ I ++ R ++ E).getD (0 + t) 0 = T.getD t 0 := by
  constructor
  · simp only [List.getD_eq_getElem?_getD]
    rw [List.getElem?_append_left (by simp [hT, hO, hI, hR]; omega), List.getElem?_append_right (by simp [hT, hO, hI]; omega)]
    congr 2
    simp [hT, hO, hI]; omega
  · simp only [List.getD_eq_getElem?_getD, Nat.zero_add, List.append_assoc]
    rw [List.getElem?_append_left (by omega)]

/-- the whole block after the old-type mapping (`old`) and the `esize` loop -/
theorem block_final (M D : Int → Int) (old : Prop) [Decidable old] (n : Nat) (T I O R : List Int) (hT : T.length = n) (hI : I.length = n)
    (hO : O.length = n) (hR : R.length = n) :
    let b4 := T ++ O ++ I ++ R ++ List.replicate n 170
    let b5 := if old then fill b4 0 (gens (fun t => M (b4.getD (0 + t) 0)) n) else b4
    fill b5 (4 * n) (gens (esz D b5 0 (3 * n)) n) =
      (if old then T.map M else T) ++ O ++ I ++ R ++ esizes D (if old then T.map M else T) R n := by
  intro b4 b5
  have hb5 : b5 = (if old then T.map M else T) ++ O ++ I ++ R ++ List.replicate n 170 := by
    show (if old then fill b4 0 (gens (fun t => M (b4.getD (0 + t) 0)) n) else b4) = _
    split
    · rw [gens_getD M b4 0 n (by show 0 + n ≤ (T ++ O ++ I ++ R ++ List.replicate n 170).length; simp [hT, hO, hI, hR])]
      have e1 : (b4.drop 0).take n = T := by
        show ((T ++ O ++ I ++ R ++ List.replicate n 170).drop 0).take n = T
        rw [List.drop_zero]; simp only [List.append_assoc]; exact List.take_left' hT
      rw [e1]
      have := fill_mid [] T (O ++ I ++ R ++ List.replicate n 170) (T.map M) (by simp)
      simp only [List.nil_append, List.length_nil] at this
      show fill (T ++ O ++ I ++ R ++ List.replicate n 170) 0 (T.map M) = _
      simp only [List.append_assoc] at this ⊢
      exact this
    · rfl
  generalize hT' : (if old then T.map M else T) = T' at hb5 ⊢
  have hT'l : T'.length = n := by rw [← hT']; split <;> simp [hT]
  rw [hb5]
  have eg : gens (esz D (T' ++ O ++ I ++ R ++ List.replicate n 170) 0 (3 * n)) n = esizes D T' R n := by
    apply gens_congr
    intro t ht
    obtain ⟨g1, g2⟩ := getD_app5 T' O I R (List.replicate n 170) n t hT'l hO hI hR ht
    simp only [esz, g1, g2]
  rw [eg]
  have := fill_mid (T' ++ O ++ I ++ R) (List.replicate n 170) [] (esizes D T' R n) (by simp [esizes])
  have l4 : (T' ++ O ++ I ++ R).length = 4 * n := by simp [hT'l, hO, hI, hR]; omega
  rw [l4] at this
  simpa using this

local notation "r2" => (fun _ _ => rfl)

/-- the per-field values of the record -/
def typesAt (B : List Int) : List Int := (vals B 10 2 (nfN B)).map w16
def isizesAt (B : List Int) : List Int := vals B (10 + 2 * nfN B) 2 (nfN B)
def offsAt (B : List Int) : List Int := vals B (10 + 2 * nfN B + 2 * nfN B) 2 (nfN B)
def ordersAt (B : List Int) : List Int := vals B (10 + 2 * nfN B + 2 * nfN B + 2 * nfN B) 2 (nfN B)

theorem SF7_bptr (B : List Int) (s : St) (n : Nat) : (SF7 B s n).vs_wlist_bptr = (SF5 B s n).vs_wlist_bptr := rfl

theorem SF5_bptr (B : List Int) (s : St) (n : Nat) : (SF5 B s n).vs_wlist_bptr =
    fill (fill (fill (fill (List.replicate (5 * n) 170) 0 ((vals B 10 2 n).map w16)) (2 * n) ((vals B (10 + 2 * n) 2 n).map idv)) n
      ((vals B (10 + 2 * n + 2 * n) 2 n).map idv)) (3 * n) ((vals B (10 + 2 * n + 2 * n + 2 * n) 2 n).map idv) := rfl

theorem SFin_bptr_eq (M D : Int → Int) (B : List Int) (L : Nat) (s : St) :
    (SFin M D B L s).vs_wlist_bptr = (SEs D (SOld M (SV4 B (Smid B L s) (pEx B + 8)) (nfN B)) (nfN B)).vs_wlist_bptr := rfl

theorem SEs_bptr (D : Int → Int) (s : St) (n : Nat) (h0 : n ≠ 0) :
    (SEs D s n).vs_wlist_bptr = fill s.vs_wlist_bptr (4 * n) (gens (esz D s.vs_wlist_bptr 0 (3 * n)) n) := by
  rw [SEs, if_neg h0]; rfl

theorem SOld_bptr (M : Int → Int) (s : St) (n : Nat) (h0 : n ≠ 0) :
    (SOld M s n).vs_wlist_bptr = (if s.vs_version ≤ 2 then fill s.vs_wlist_bptr 0 (gens (fun t => M (s.vs_wlist_bptr.getD (0 + t) 0)) n) else s.vs_wlist_bptr) := by
  simp only [SOld, if_neg h0]
  split
  · rfl
  · rfl

/-- **the block `wlist.bptr` of the final state**: types (mapped through `map_from_old_types` for versions up to 2), offsets, isizes,
    orders, esizes - `n` cells each, in the order of the five cursors -/
theorem SFin_block (M D : Int → Int) (B : List Int) (L : Nat) (s : St) (h0 : nfN B ≠ 0) :
    (SFin M D B L s).vs_wlist_bptr =
      (if w16 (be16 B (L - 5)) ≤ 2 then (typesAt B).map M else typesAt B) ++ offsAt B ++ isizesAt B ++ ordersAt B ++
        esizes D (if w16 (be16 B (L - 5)) ≤ 2 then (typesAt B).map M else typesAt B) (ordersAt B) (nfN B) := by
  have hb4 : (Smid B L s).vs_wlist_bptr = typesAt B ++ offsAt B ++ isizesAt B ++ ordersAt B ++ List.replicate (nfN B) 170 := by
    rw [mid_proj (·.vs_wlist_bptr) r2 r2 r2 r2 r2 r2 r2, Stab, STable, if_neg h0, SF7_bptr, SF5_bptr, map_idv, map_idv, map_idv]
    exact block4 (nfN B) (typesAt B) (isizesAt B) (offsAt B) (ordersAt B) (by simp [typesAt]) (by simp [isizesAt]) (by simp [offsAt])
      (by simp [ordersAt])
  have hv : (SV4 B (Smid B L s) (pEx B + 8)).vs_version = w16 (be16 B (L - 5)) := by
    rw [SV4_proj (·.vs_version) B _ _ (fun _ => rfl) (fun _ _ => rfl), Smid_version]
  have hbv : (SV4 B (Smid B L s) (pEx B + 8)).vs_wlist_bptr = (Smid B L s).vs_wlist_bptr :=
    SV4_proj (·.vs_wlist_bptr) B _ _ (fun _ => rfl) (fun _ _ => rfl)
  have key := block_final M D (w16 (be16 B (L - 5)) ≤ 2) (nfN B) (typesAt B) (isizesAt B) (offsAt B) (ordersAt B) (by simp [typesAt]) (by simp [isizesAt])
    (by simp [offsAt]) (by simp [ordersAt])
  simp only at key
  rw [SFin_bptr_eq, SEs_bptr D _ _ h0, SOld_bptr M _ _ h0, hv, hbv, hb4]
  exact key

end H4.Lemmas.C07Fn3
