import H4.VGraph
import H4.Lemmas.Assoc
import H4.Lemmas.VGroupMem
import H4.Lemmas.VGroupCodec
/-! Simulation of the implementation model (`H4.VGroup.step`) by the reference graph model (`gstep`). -/
namespace H4.VGroup
open H4.Gen.Hdf

/-- abstraction of one in-memory Vgroup -/
def VGroup.abs (g : VGroup) : Node :=
  { members := g.mem.members, name := g.name, cls := g.cls, attrs := g.attrs, access := g.access, nattach := g.nattach }

/-- abstraction of the file: forget arrays, marks, versions, the disk -/
def File.abs (s : File) : Graph :=
  { vgs := s.vgs.map (fun e => (e.1, e.2.abs)), vds := s.vds, slots := s.slots }

/-- per-Vgroup representation invariant -/
def GInv (g : VGroup) : Prop := g.mem.OK ∧ g.toVG.WFmem ∧ (g.marked = true → 0 < g.nattach)

/-- file invariant: every unmarked Vgroup is on disk exactly as `vpackvg` renders it; nothing else is on disk -/
def Inv (s : File) : Prop :=
  (∀ r g, alook r s.vgs = some g → GInv g ∧ (g.marked = false → alook r s.disk = some (vpackvg g.toVG))) ∧
  KSorted s.vgs ∧ KSorted s.disk ∧ (∀ k, (alook k s.disk).isSome → (alook k s.vgs).isSome)

def cnt (r : Nat) (slots : List (Nat × Nat)) : Nat := (slots.filter (fun e => e.2 == r)).length

/-- handles and attach counts agree (a property of the reference state) -/
def GraphInv (g : Graph) : Prop :=
  ∀ r, cnt r g.slots = (match alook r g.vgs with | some n => n.nattach | none => 0)

theorem abs_alook (s : File) (r : Nat) : alook r s.abs.vgs = (alook r s.vgs).map VGroup.abs := by
  simp [File.abs, alook_map]

/-! ### handles -/

theorem cnt_cons (r slot r' : Nat) (l : List (Nat × Nat)) :
    cnt r ((slot, r') :: l) = (if r' = r then 1 else 0) + cnt r l := by
  simp only [cnt, List.filter_cons]
  by_cases h : r' = r
  · simp [h]; omega
  · simp [h]

theorem cnt_adel1 {slot r : Nat} {l : List (Nat × Nat)} (h : alook slot l = some r) (r' : Nat) :
    cnt r' l = (if r' = r then 1 else 0) + cnt r' (adel1 slot l) := by
  induction l with
  | nil => simp [alook] at h
  | cons a t ih =>
    obtain ⟨k, v⟩ := a
    simp only [alook] at h
    by_cases e : k = slot
    · simp only [e, if_true, Option.some.injEq] at h
      subst h
      simp only [adel1, e, if_true, cnt_cons]
      by_cases e2 : r' = v
      · simp [e2]
      · have : ¬ v = r' := fun x => e2 x.symm
        simp [e2, this]
    · simp only [e, if_false] at h
      simp only [adel1, e, if_false, cnt_cons, ih h]
      omega

/-! ### generic `withSlot` lemmas -/

theorem sim_withSlot {s : File} {slot : Nat} {k : VGroup → VGroup × Out} {k' : Node → Node × Out}
    (hk : ∀ r g, alook slot s.slots = some r → alook r s.vgs = some g → ((k g).1.abs, (k g).2) = k' g.abs) :
    (withSlot s slot k).1.abs = (gwithSlot s.abs slot k').1 ∧ (withSlot s slot k).2 = (gwithSlot s.abs slot k').2 := by
  simp only [withSlot, gwithSlot, withSlotG]
  have hs : s.abs.slots = s.slots := rfl
  rw [hs]
  cases h1 : alook slot s.slots with
  | none => simp [File.abs]
  | some r =>
    simp only [abs_alook]
    cases h2 : alook r s.vgs with
    | none => simp [File.abs]
    | some g =>
      have := hk r g h1 h2
      simp only [Option.map_some]
      rw [← this]
      simp [File.abs, aset_map]

theorem inv_withSlot {s : File} {slot : Nat} {k : VGroup → VGroup × Out} (hI : Inv s)
    (hk : ∀ r g, alook slot s.slots = some r → alook r s.vgs = some g →
      ((k g).1 = g ∨ (GInv (k g).1 ∧ (k g).1.marked = true))) : Inv (withSlot s slot k).1 := by
  obtain ⟨i1, i2, i3, i4⟩ := hI
  cases h1 : alook slot s.slots with
  | none => simp only [withSlot, withSlotG, h1]; exact ⟨i1, i2, i3, i4⟩
  | some r =>
    cases h2 : alook r s.vgs with
    | none => simp only [withSlot, withSlotG, h1, h2]; exact ⟨i1, i2, i3, i4⟩
    | some g =>
      simp only [withSlot, withSlotG, h1, h2]
      refine ⟨?_, ksorted_aset i2, i3, ?_⟩
      · intro r' g' hl
        simp only [alook_aset] at hl
        by_cases e : r' = r
        · subst e
          simp only [if_true, h2, Option.map_some, Option.some.injEq] at hl
          subst hl
          rcases hk r' g h1 h2 with hh | hh
          · rw [hh]; exact i1 r' g h2
          · exact ⟨hh.1, fun hm => by rw [hh.2] at hm; exact absurd hm (by decide)⟩
        · simp only [e, if_false] at hl
          exact i1 r' g' hl
      · intro k0 hk0
        have := i4 k0 hk0
        simp only [alook_aset]
        by_cases e : k0 = r
        · subst e; simp [h2]
        · simpa [e] using this

theorem ginv_withSlot_nattach {k' : Node → Node × Out} {s : Graph} {slot : Nat} (hG : GraphInv s)
    (hk : ∀ n, (k' n).1.nattach = n.nattach) : GraphInv (gwithSlot s slot k').1 := by
  cases h1 : alook slot s.slots with
  | none => simp only [gwithSlot, withSlotG, h1]; exact hG
  | some r =>
    cases h2 : alook r s.vgs with
    | none => simp only [gwithSlot, withSlotG, h1, h2]; exact hG
    | some g =>
      simp only [gwithSlot, withSlotG, h1, h2]
      intro r'
      have := hG r'
      simp only [alook_aset]
      by_cases e : r' = r
      · subst e; simp only [if_true, h2, Option.map_some, hk]; simpa [h2] using this
      · simpa [e] using this

/-- a slot that resolves points to an attached Vgroup -/
theorem nattach_pos_of_slot {s : Graph} (hG : GraphInv s) {slot r : Nat} {n : Node}
    (h1 : alook slot s.slots = some r) (h2 : alook r s.vgs = some n) : 0 < n.nattach := by
  have := hG r
  simp only [h2] at this
  have c := cnt_adel1 h1 r
  simp only [if_true] at c
  omega

end H4.VGroup

namespace H4.VGroup
open H4.Gen.Hdf

/-! ### group-level invariant preservation -/

theorem cstr_no_nul (n : Bytes) : (0 : Byte) ∉ cstr n := by
  unfold cstr
  induction n with
  | nil => simp
  | cons a t ih =>
    rw [List.takeWhile_cons]
    split
    · rename_i h
      simp only [ne_eq, decide_eq_true_eq] at h
      intro hm
      rcases List.mem_cons.mp hm with e | e
      · exact h e.symm
      · exact ih e
    · simp

theorem ginv_mem {g : VGroup} (h : GInv g) {m : Mem} (hm : m.OK) (hp : ∀ p ∈ m.members, PairOK p)
    (hn : 0 < g.nattach) : GInv { g with mem := m, marked := true } := by
  obtain ⟨_, ⟨_, _, w3, w4, w5, w6, w7, w8, w9, w10, w11, w12, w13, w14⟩, _⟩ := h
  refine ⟨hm, ⟨?_, hp, w3, w4, w5, w6, w7, w8, w9, w10, w11, w12, w13, w14⟩, fun _ => hn⟩
  have := Mem.members_length hm
  have := hm.2.2.2
  simp only [VGroup.toVG]; omega

theorem ginv_name {g : VGroup} (h : GInv g) (n : Bytes) (hl : (cstr n).length < 65536) (hn : 0 < g.nattach) :
    GInv { g with name := some (cstr n), marked := true } := by
  obtain ⟨m, ⟨w1, w2, _, w4, w5, w6, w7, w8, w9, w10, w11, w12, w13, w14⟩, _⟩ := h
  exact ⟨m, ⟨w1, w2, ⟨hl, cstr_no_nul n⟩, w4, w5, w6, w7, w8, w9, w10, w11, w12, w13, w14⟩, fun _ => hn⟩

theorem ginv_cls {g : VGroup} (h : GInv g) (n : Bytes) (hl : (cstr n).length < 65536) (hn : 0 < g.nattach) :
    GInv { g with cls := some (cstr n), marked := true } := by
  obtain ⟨m, ⟨w1, w2, w3, _, w5, w6, w7, w8, w9, w10, w11, w12, w13, w14⟩, _⟩ := h
  exact ⟨m, ⟨w1, w2, w3, ⟨hl, cstr_no_nul n⟩, w5, w6, w7, w8, w9, w10, w11, w12, w13, w14⟩, fun _ => hn⟩

theorem or_one_ne_zero (x : Nat) : x ||| 1 ≠ 0 := by
  intro h
  have := congrArg (fun y => y.testBit 0) h
  simp at this

theorem or_one_and_one (x : Nat) : (x ||| 1) &&& 1 ≠ 0 := by
  intro h
  have := congrArg (fun y => y.testBit 0) h
  simp at this

theorem ginv_attr {g : VGroup} (h : GInv g) (vsref : Nat) (hv : vsref < 65536) (hl : g.attrs.length < 2147483647)
    (hn : 0 < g.nattach) :
    GInv { g with attrs := g.attrs ++ [(DFTAG_VH, vsref)], flags := g.flags ||| VG_ATTR_SET,
                  version := VSET_NEW_VERSION, marked := true } := by
  obtain ⟨m, ⟨w1, w2, w3, w4, w5, w6, w7, _, _, _, _, w12, w13, w14⟩, _⟩ := h
  have c1 : VG_ATTR_SET = 1 := by decide
  refine ⟨m, ⟨w1, w2, w3, w4, w5, w6, w7, (by decide : VSET_NEW_VERSION < 65536), (by decide : toI16 VSET_NEW_VERSION ≤ 4), fun _ => rfl, ?_, ?_, ?_, ?_⟩, fun _ => hn⟩
  · intro h0; simp only [VGroup.toVG, c1] at h0; exact absurd h0 (or_one_ne_zero _)
  · simp only [VGroup.toVG, c1]; exact Nat.or_lt_two_pow (n := 32) w12 (by omega)
  · intro _
    simp only [VGroup.toVG, List.length_append, List.length_cons, List.length_nil]
    refine ⟨by omega, ?_⟩
    intro p hp
    rcases List.mem_append.mp hp with hp | hp
    · by_cases hb : g.flags &&& VG_ATTR_SET = 0
      · have := w14 hb; simp only [VGroup.toVG] at this; rw [this] at hp; simp at hp
      · exact (w13 hb).2 p hp
    · simp only [List.mem_singleton] at hp; subst hp
      exact ⟨(by decide : DFTAG_VH < 65536), hv⟩
  · intro h0; simp only [VGroup.toVG, c1] at h0; exact absurd h0 (or_one_and_one _)

theorem ginv_fresh : GInv ({} : VGroup) := by
  refine ⟨Mem.fresh_ok, ?_, fun _ => by decide⟩
  decide

/-- flushing keeps the persistent content (the version is already normal) -/
theorem flush_toVG {g : VGroup} (h : GInv g) :
    ({ g with version := packVersion g.toVG, marked := false, newvg := false } : VGroup).toVG = g.toVG := by
  have := packVersion_wf _ h.2.1.fix
  simp only [VGroup.toVG] at this ⊢
  rw [this]

end H4.VGroup
