import H4.Lemmas.ElemReopen
/-! `Hclose`, `Hopen`. -/
namespace H4.Elem
open H4.Gen.Hdf

theorem sync_wfe (f : File) (hw : WFE f) (hc : Coh f) : WFE f.sync ∧ Coh f.sync ∧ (∀ t r, f.sync.elem t r = f.elem t r) ∧
    (f.sync.dirtyEnd || f.sync.blkDirty.any id) = false ∧ (∀ j, f.sync.dd j = f.dd j) := by
  obtain ⟨s1, s2, s3, s4, s5, s6, s7, s8, s9⟩ := sync_spec f hw.toWFF hc
  have gdd : ∀ j, f.sync.dd j = f.dd j := by intro j; simp only [File.dd, s1]
  have glive : ∀ j, f.sync.live j ↔ f.live j := by intro j; unfold File.live; rw [gdd]
  have hw' : WFF f.sync := by
    refine ⟨by rw [s6]; exact hw.ndds_pos, ?_, ?_, ?_, ?_⟩
    · intro j o l hj he; rw [gdd] at he; rw [s5]; exact hw.ext_le j o l ((glive j).mp hj) he
    · intro a b oa la ob lb hab ha hb hea heb
      rw [gdd] at hea heb
      exact hw.disj a b oa la ob lb hab ((glive a).mp ha) ((glive b).mp hb) hea heb
    · intro k hk; rw [s3]; rw [s5] at hk; exact hw.tail0 k hk
    · intro a b ha hb ht hr
      rw [gdd, gdd] at ht hr
      exact hw.uniq a b ((glive a).mp ha) ((glive b).mp hb) ht hr
  have hframe : ∀ j, f.live j → f.sync.slotBytes j = f.slotBytes j := by
    intro j hj
    apply slotBytes_frame hw hw' j hj (T := fun _ => False)
    · intro x _ _; exact gdd x
    · exact link_of_links s4 _
    · intro x _ _; exact s3 x
    · exact fun h => h
    · intro _ _ _ _ _ h; exact h
  have hclean : (f.sync.dirtyEnd || f.sync.blkDirty.any id) = false := by
    unfold File.sync
    split
    · simp
    · rename_i hnd
      have := hc.cache
      simp only [this, Bool.true_and] at hnd
      simpa using hnd
  refine ⟨⟨hw', ?_, ?_, ?_⟩, ?_, ?_, hclean, gdd⟩
  · intro s hs hsp
    rw [gdd] at hsp
    obtain ⟨li, ho, hl, h1, h2, h3, h4⟩ := hw.linked_ok s ((glive s).mp hs) hsp
    refine ⟨li, ho, hl, by rw [keyOf_eq (gdd s), link_of_links s4]; exact h1, ?_, by rw [gdd]; exact h3, h4⟩
    exact h2.frame hw' (fun j _ => gdd j) (fun _ _ o _ r _ _ _ => s3 (o + r))
  · intro s hs hsp
    rw [gdd] at hsp ⊢
    exact hw.hdr_tag s ((glive s).mp hs) hsp
  · intro a b l1 l2 j h1 hs1 h2 hs2 hk1 hk2 hb1 hb2
    rw [gdd] at hs1 hs2
    rw [keyOf_eq (gdd a), link_of_links s4] at hk1
    rw [keyOf_eq (gdd b), link_of_links s4] at hk2
    have tr : ∀ (li : LinkInfo), f.sync.blockSlotOf li j → f.blockSlotOf li j := by
      intro li ⟨t, idx, h0, hk⟩
      exact ⟨t, idx, h0, by unfold File.hasKey File.live at *; rw [← gdd]; exact hk⟩
    exact hw.own a b l1 l2 j ((glive a).mp h1) hs1 ((glive b).mp h2) hs2 hk1 hk2 (tr l1 hb1) (tr l2 hb2)
  · -- Coh
    have hcache : f.sync.cache = true := by
      unfold File.sync; split
      · exact hc.cache
      · exact hc.cache
    refine ⟨hcache, by rw [s6]; exact hc.ndds_pos, by rw [s2, s1], by rw [s9, s6, s1]; exact hc.dirty_len, ?_⟩
    intro i hi _
    rw [s2]
    simp only [File.dd, s1]
  · intro t r
    apply elem_frame hw.toWFF hw'
    · intro j; exact hasKey_congr (by rw [gdd]) (by rw [gdd])
    · intro j hk; exact hframe j hk.1

/-- replacing a file no access record refers to -/
theorem WFW.setFile_nohandle {w : World} (hw : WFW w) (fi : Nat) (hfi : fi < w.files.length) (f' : File) (hE : WFE f') (hC : Coh f')
    (hno : NoHandleIn w fi) : WFW (w.setFile fi f') := by
  refine ⟨?_, ?_, ?_⟩
  · intro j; rw [file_setFile w fi j f' hfi]; split
    · exact hE
    · exact hw.files j
  · intro j; rw [file_setFile w fi j f' hfi]; split
    · exact hC
    · exact hw.coh j
  · intro h a ha
    rw [acc_setFile] at ha
    have hold := hw.handles h a ha
    have hne := hno h a ha
    have hf : (w.setFile fi f').file a.file = w.file a.file := file_setFile_ne w fi _ _ hne
    exact hold.transfer (by rw [hf]) (by rw [hf]) (by rw [hf]; exact id)

theorem abs_setFile_nohandle {w : World} (fi : Nat) (hfi : fi < w.files.length) (f' : File) (hno : NoHandleIn w fi)
    (hpres : f'.present = (w.file fi).present) (hel : ∀ t r, f'.elem t r = (w.file fi).elem t r) :
    (abs w).Eqv (abs (w.setFile fi f')) := by
  refine ⟨?_, ?_, ?_⟩
  · intro j
    show (w.file j).present = ((w.setFile fi f').file j).present
    rw [file_setFile w fi j f' hfi]; split
    · rename_i c; rw [c, hpres]
    · rfl
  · intro j k _
    show (w.file j).elem k.1 k.2 = ((w.setFile fi f').file j).elem k.1 k.2
    rw [file_setFile w fi j f' hfi]; split
    · rename_i c; rw [c, hel]
    · rfl
  · intro h
    simp only [abs_hnd, acc_setFile]
    cases ha : w.acc h with
    | none => rfl
    | some a =>
      simp only [Option.map_some]
      rw [file_setFile_ne w fi _ _ (hno h a ha)]

theorem stepOK_close (w : World) (hw : WFW w) (fi : Nat) (hsafe : OpSafe w (.close fi)) : StepOK w (.close fi) := by
  by_cases hop : (w.file fi).isOpen = false
  · exact stepOK_fail_same w hw _ (by simp only [step, hclose]; rw [if_pos (by simp [hop])])
  have hop' : (w.file fi).isOpen = true := by simpa using hop
  by_cases hat : (w.file fi).attach > 0
  · exact stepOK_fail_same w hw _ (by simp only [step, hclose]; rw [if_neg (by simp [hop']), if_pos hat])
  have hfi := file_lt_of_open w fi hop'
  obtain ⟨hE, hC, hel, _, _⟩ := sync_wfe (w.file fi) (hw.files fi) (hw.coh fi)
  have hE2 : WFE ({ (w.file fi).sync with isOpen := false } : File) := by
    have hw' : WFF ({ (w.file fi).sync with isOpen := false } : File) := ⟨hE.ndds_pos, hE.ext_le, hE.disj, hE.tail0, hE.uniq⟩
    refine ⟨hw', ?_, hE.hdr_tag, hE.own⟩
    intro s hs hsp
    obtain ⟨li, ho, hl, h1, h2, h3, h4⟩ := hE.linked_ok s hs hsp
    exact ⟨li, ho, hl, h1, h2.frame hw' (fun _ _ => rfl) (fun _ _ _ _ _ _ _ _ => rfl), h3, h4⟩
  have hC2 : Coh ({ (w.file fi).sync with isOpen := false } : File) := coh_of_fields hC rfl rfl rfl rfl rfl
  unfold StepOK
  have hstep : step w (.close fi) = (w.setFile fi { (w.file fi).sync with isOpen := false }, .ok) := by
    simp only [step, hclose]; rw [if_neg (by simp [hop']), if_neg hat]
  rw [hstep]
  refine ⟨hw.setFile_nohandle fi hfi _ hE2 hC2 hsafe, abs w, rfl, ?_⟩
  apply abs_setFile_nohandle fi hfi _ hsafe
  · show (w.file fi).sync.present = _
    exact (sync_spec (w.file fi) (hw.files fi).toWFF (hw.coh fi)).2.2.2.2.2.2.2.1
  · intro t r; exact hel t r

end H4.Elem

namespace H4.Elem
open H4.Gen.Hdf

/-- well-formedness only depends on the DD list, the bytes, `f_end_off`, `ndds` and the descriptors -/
theorem WFE.of_same {f g : File} (hw : WFE f) (gdd : ∀ j, g.dd j = f.dd j) (grd : ∀ x, rd g.disk x = rd f.disk x)
    (glinks : g.links = f.links) (gend : g.endOff = f.endOff) (gndds : g.ndds = f.ndds) :
    WFE g ∧ ∀ t r, g.elem t r = f.elem t r := by
  have glive : ∀ j, g.live j ↔ f.live j := by intro j; unfold File.live; rw [gdd]
  have hw' : WFF g := by
    refine ⟨by rw [gndds]; exact hw.ndds_pos, ?_, ?_, ?_, ?_⟩
    · intro j o l hj he; rw [gdd] at he; rw [gend]; exact hw.ext_le j o l ((glive j).mp hj) he
    · intro a b oa la ob lb hab ha hb hea heb
      rw [gdd] at hea heb
      exact hw.disj a b oa la ob lb hab ((glive a).mp ha) ((glive b).mp hb) hea heb
    · intro k hk; rw [grd]; rw [gend] at hk; exact hw.tail0 k hk
    · intro a b ha hb ht hr
      rw [gdd, gdd] at ht hr
      exact hw.uniq a b ((glive a).mp ha) ((glive b).mp hb) ht hr
  have hframe : ∀ j, f.live j → g.slotBytes j = f.slotBytes j := by
    intro j hj
    apply slotBytes_frame hw hw' j hj (T := fun _ => False)
    · intro x _ _; exact gdd x
    · exact link_of_links glinks _
    · intro x _ _; exact grd x
    · exact fun h => h
    · intro _ _ _ _ _ h; exact h
  refine ⟨⟨hw', ?_, ?_, ?_⟩, ?_⟩
  · intro s hs hsp
    rw [gdd] at hsp
    obtain ⟨li, ho, hl, h1, h2, h3, h4⟩ := hw.linked_ok s ((glive s).mp hs) hsp
    refine ⟨li, ho, hl, by rw [keyOf_eq (gdd s), link_of_links glinks]; exact h1, ?_, by rw [gdd]; exact h3, h4⟩
    exact h2.frame hw' (fun j _ => gdd j) (fun _ _ o _ r _ _ _ => grd (o + r))
  · intro s hs hsp
    rw [gdd] at hsp ⊢
    exact hw.hdr_tag s ((glive s).mp hs) hsp
  · intro a b l1 l2 j h1 hs1 h2 hs2 hk1 hk2 hb1 hb2
    rw [gdd] at hs1 hs2
    rw [keyOf_eq (gdd a), link_of_links glinks] at hk1
    rw [keyOf_eq (gdd b), link_of_links glinks] at hk2
    have tr : ∀ (li : LinkInfo), g.blockSlotOf li j → f.blockSlotOf li j := by
      intro li ⟨t, idx, h0, hk⟩
      exact ⟨t, idx, h0, by unfold File.hasKey File.live at *; rw [← gdd]; exact hk⟩
    exact hw.own a b l1 l2 j ((glive a).mp h1) hs1 ((glive b).mp h2) hs2 hk1 hk2 (tr l1 hb1) (tr l2 hb2)
  · intro t r
    apply elem_frame hw.toWFF hw'
    · intro j; exact hasKey_congr (by rw [gdd]) (by rw [gdd])
    · intro j hk; exact hframe j hk.1

theorem rd_zeros (n x : Nat) : rd (zeros n) x = 0 := by
  simp only [rd_eq, zeros, List.getElem?_replicate]; split <;> rfl

theorem getD_replicate_nil (n j : Nat) : (List.replicate n nilDD).getD j nilDD = nilDD := by
  simp only [List.getD_eq_getElem?_getD, List.getElem?_replicate]; split <;> rfl

/-- a freshly created file (`Hopen(DFACC_CREATE)`): well-formed, nothing in it but the version record -/
theorem create_spec (ndds0 : Nat) :
    WFE (File.create ndds0) ∧ Coh (File.create ndds0) ∧ (File.create ndds0).present = true ∧ (File.create ndds0).isOpen = true ∧
    ∀ k, UserKey k → (File.create ndds0).elem k.1 k.2 = none := by
  unfold File.create
  have hn1 : 1 ≤ nddsOf ndds0 := by
    unfold nddsOf; simp only [DEF_NDDS, MIN_NDDS]
    by_cases h0 : ndds0 = 0
    · simp [h0]
    · by_cases h4 : ndds0 < 4
      · simp [h0, h4]
      · simp only [h0, h4, if_false]; omega
  generalize nddsOf ndds0 = ndds at hn1
  generalize hb : File.blank ndds = b
  have bdd : ∀ j, b.dd j = nilDD := by intro j; rw [← hb]; exact getD_replicate_nil ndds j
  have bnl : ∀ j, ¬ b.live j := by intro j h; apply h; rw [bdd]; rfl
  have brd : ∀ x, rd b.disk x = 0 := by intro x; rw [← hb]; exact rd_zeros _ x
  have hwb : WFE b := by
    refine ⟨⟨by rw [← hb]; exact hn1, ?_, ?_, fun k _ => brd k, ?_⟩, ?_, ?_, ?_⟩
    · intro j _ _ hj; exact absurd hj (bnl j)
    · intro a _ _ _ _ _ _ ha; exact absurd ha (bnl a)
    · intro a _ ha; exact absurd ha (bnl a)
    · intro s hs; exact absurd hs (bnl s)
    · intro s hs; exact absurd hs (bnl s)
    · intro a _ _ _ _ ha; exact absurd ha (bnl a)
  have hcb : Coh b := by
    rw [← hb]
    refine ⟨rfl, hn1, rfl, by simp [File.blank], ?_⟩
    intro i _ _
    simp only [File.dd, File.blank]
  unfold File.putNew
  simp only
  -- the version record
  have hfresh : ∀ j, ¬ b.hasKey j DFTAG_VERSION 1 := fun j h => bnl j h.1
  have C := ddCreate_spec b DFTAG_VERSION 1 hwb.ndds_pos hwb.tail0
  have W1 := C.wff hwb.toWFF (by decide) hfresh
  have hC1 := coh_ddCreate hcb DFTAG_VERSION 1
  generalize hc : b.ddCreate DFTAG_VERSION 1 = c at C W1 hC1
  obtain ⟨f1, i⟩ := c
  simp only at C W1 hC1 ⊢
  have hv : isSpecial DFTAG_VERSION = false ∧ baseTag DFTAG_VERSION ≠ DFTAG_LINKED := by decide
  have hlive1 : ∀ j, f1.live j ↔ j = i := by
    intro j; unfold File.live
    by_cases e : j = i
    · subst e; rw [C.dd_new]; simp; decide
    · rw [C.dd_keep j e, bdd]; simp [e, nilDD]
  obtain ⟨E1, _⟩ := hwb.plain_step W1 i (fun x hx _ => absurd hx (bnl x)) (by rw [C.dd_new]; exact hv)
    (fun hl => absurd hl (bnl i)) (fun x hx1 _ => (hlive1 x).mp hx1) C.links (fun y _ _ => C.rd_keep y)
  have S := setLength_spec f1 i LIBVER_LEN C.lt W1.tail0
  have W2 := S.wff W1 ((hlive1 i).mpr rfl) (by rw [C.dd_new])
  have hC2 := coh_setLength hC1 i LIBVER_LEN C.lt
  generalize hs : f1.setLength i LIBVER_LEN = sl at S W2 hC2
  obtain ⟨f2, off⟩ := sl
  simp only at S W2 hC2 ⊢
  obtain ⟨E2, _⟩ := E1.plain_step W2 i (fun x _ hne => S.dd_keep x hne) (by rw [S.dd_new, C.dd_new]; exact hv)
    (fun _ => by rw [C.dd_new]; exact hv) (fun x hx1 hnx => by
      by_cases e : x = i
      · exact e
      · exfalso; apply hnx; unfold File.live at *; rw [← S.dd_keep x e]; exact hx1) S.links (fun y _ _ => S.rd_keep y)
  have hrd3 : ∀ x, rd (f2.pwrite off (zeros LIBVER_LEN)).disk x = rd f2.disk x := by
    intro x
    apply pwrite_zeros_rd
    intro y _ _
    rw [S.rd_keep, C.rd_keep]; exact brd y
  have hfit : off + (zeros LIBVER_LEN).length ≤ (f2.pwrite off (zeros LIBVER_LEN)).endOff := by
    show off + (zeros LIBVER_LEN).length ≤ f2.endOff
    rw [zeros_length, S.end_eq, S.off_eq]; exact Nat.le_refl _
  rw [endOff_max_noop _ _ hfit]
  obtain ⟨E3, hel3⟩ := E2.of_same (g := f2.pwrite off (zeros LIBVER_LEN)) (fun _ => rfl) hrd3 rfl rfl rfl
  refine ⟨E3, coh_pwrite hC2 _ _, ?_, ?_, ?_⟩
  · show f2.present = true; rw [S.present, C.present, ← hb]; rfl
  · show f2.isOpen = true
    have hb_open : b.isOpen = true := by rw [← hb]; rfl
    have h1 : ∀ (g : File) (j : Nat), (g.updateDD j).isOpen = g.isOpen := by
      intro g j; unfold File.updateDD; simp only [File.dd]; split <;> split <;> rfl
    have h2 : ∀ (g : File) (n : Nat), (g.getDiskBlock n).1.isOpen = g.isOpen := by
      intro g n; unfold File.getDiskBlock; simp only; split
      · rfl
      · split <;> rfl
    have h3 : f1.isOpen = b.isOpen := by
      rw [← (show (b.ddCreate DFTAG_VERSION 1).1 = f1 by rw [hc])]
      unfold File.ddCreate
      cases b.findFree with
      | some k => simp only; rw [h1]
      | none => simp only; rw [h1]; unfold File.newDDBlock; simp only; rw [h2]
    have h4 : f2.isOpen = f1.isOpen := by
      rw [← (show (f1.setLength i LIBVER_LEN).1 = f2 by rw [hs])]
      unfold File.setLength File.ddSetExt; simp only; rw [h1]; exact h2 f1 _
    rw [h4, h3, hb_open]
  · intro k hu
    show (f2.pwrite off (zeros LIBVER_LEN)).elem k.1 k.2 = none
    unfold File.elem
    have : (f2.pwrite off (zeros LIBVER_LEN)).select k.1 k.2 = none := by
      apply select_none_of
      intro j hk
      have hj : f2.live j := hk.1
      have hji : j = i := by
        by_cases e : j = i
        · exact e
        · exfalso; unfold File.live at hj; rw [S.dd_keep j e] at hj; exact ((hlive1 j).mp hj |> e)
      subst hji
      have h2 := hk.2.1
      rw [pwrite_dd, S.dd_new, C.dd_new] at h2
      simp only at h2
      rw [baseTag_not_special _ hu.1] at h2
      exact hu.2.2.2.1 (h2.symm.trans (by decide))
    rw [this]; rfl

end H4.Elem

namespace H4.Elem
open H4.Gen.Hdf

/-- `step`'s padding of the file table -/
def padW (w : World) (fi : Nat) : World :=
  if fi < w.files.length then w else { w with files := w.files ++ List.replicate (fi + 1 - w.files.length) {} }

theorem padW_file (w : World) (fi j : Nat) : (padW w fi).file j = w.file j := by
  unfold padW
  split
  · rfl
  · simp only [file_def, List.getElem?_append]
    split
    · rfl
    · rename_i h
      rw [List.getElem?_eq_none (Nat.le_of_not_lt h)]
      simp only [List.getElem?_replicate]
      split <;> rfl

theorem padW_acc (w : World) (fi h : Nat) : (padW w fi).acc h = w.acc h := by
  unfold padW; split <;> rfl

theorem padW_len (w : World) (fi : Nat) : fi < (padW w fi).files.length := by
  unfold padW
  split
  · assumption
  · simp; omega

theorem padW_ok (w : World) (hw : WFW w) (fi : Nat) : WFW (padW w fi) ∧ (abs w).Eqv (abs (padW w fi)) := by
  constructor
  · refine ⟨fun j => by rw [padW_file]; exact hw.files j, fun j => by rw [padW_file]; exact hw.coh j, ?_⟩
    intro h a ha
    rw [padW_acc] at ha
    have := hw.handles h a ha
    exact this.transfer (by rw [padW_file]) (by rw [padW_file]) (by rw [padW_file]; exact id)
  · refine ⟨fun j => by show (w.file j).present = ((padW w fi).file j).present; rw [padW_file],
      fun j k _ => by show (w.file j).elem k.1 k.2 = ((padW w fi).file j).elem k.1 k.2; rw [padW_file], ?_⟩
    intro h
    simp only [abs_hnd, padW_acc]
    cases w.acc h with
    | none => rfl
    | some a => simp only [Option.map_some, padW_file]

theorem sync_noop (f : File) (h : (f.dirtyEnd || f.blkDirty.any id) = false) : f.sync = f := by
  unfold File.sync
  rw [h]
  simp

theorem stepOK_open (w : World) (hw : WFW w) (fi mode ndds : Nat) (hsafe : OpSafe w (.open fi mode ndds)) :
    StepOK w (.open fi mode ndds) := by
  obtain ⟨hno, hre⟩ := hsafe
  obtain ⟨hwp, hep⟩ := padW_ok w hw fi
  have hstep : step w (.open fi mode ndds) = hopen (padW w fi) fi mode ndds := rfl
  have hnop : NoHandleIn (padW w fi) fi := by intro h a ha; rw [padW_acc] at ha; exact hno h a ha
  have hfi := padW_len w fi
  have hfile : (padW w fi).file fi = w.file fi := padW_file w fi fi
  have hfail : step w (.open fi mode ndds) = (padW w fi, .fail) → StepOK w (.open fi mode ndds) := by
    intro h
    unfold StepOK
    rw [h]
    exact ⟨hwp, abs w, rfl, hep⟩
  have hcreate : step w (.open fi mode ndds) = ((padW w fi).setFile fi (File.create ndds), .ok) →
      (mode = DFACC_CREATE ∨ (w.file fi).present = false) → StepOK w (.open fi mode ndds) := by
    intro h hc
    obtain ⟨cE, cC, cP, _, cEl⟩ := create_spec ndds
    unfold StepOK
    rw [h]
    refine ⟨hwp.setFile_nohandle fi hfi _ cE cC hnop, ?v, ?h1, ?h2⟩
    case h1 =>
      simp only [specStep]
      have : mode = DFACC_CREATE ∨ (abs w).present fi = false := hc
      rw [if_pos this]
    case h2 =>
      refine ⟨?_, ?_, ?_⟩
      · intro j
        show (if j = fi then true else (w.file j).present) = (((padW w fi).setFile fi (File.create ndds)).file j).present
        rw [file_setFile _ fi j _ hfi]
        split
        · exact cP.symm
        · rw [padW_file]
      · intro j k hu
        show (if j = fi then none else (w.file j).elem k.1 k.2) = (((padW w fi).setFile fi (File.create ndds)).file j).elem k.1 k.2
        rw [file_setFile _ fi j _ hfi]
        split
        · exact (cEl k hu).symm
        · rw [padW_file]
      · intro h'
        show (abs w).hnd h' = _
        simp only [abs_hnd, acc_setFile, padW_acc]
        cases ha : w.acc h' with
        | none => rfl
        | some a =>
          simp only [Option.map_some]
          rw [file_setFile_ne _ fi _ _ (hno h' a ha), padW_file]
  by_cases hop : (w.file fi).isOpen = true
  · exact hfail (by rw [hstep]; unfold hopen; simp only [hfile, hop, if_true])
  have hop0 : (w.file fi).isOpen = false := by simpa using hop
  by_cases hcr : mode = DFACC_CREATE
  · exact hcreate (by rw [hstep]; unfold hopen; simp only [hfile, hop0, Bool.false_eq_true, if_false, hcr, if_true]) (Or.inl hcr)
  by_cases hpr : (w.file fi).present = true
  · -- an existing file: `HTPstart` reads the DD list back
    obtain ⟨hclean, hz⟩ := hre hpr hcr
    have hsn := sync_noop (w.file fi) hclean
    obtain ⟨g, hg, gE, gC, gEl, gP, _⟩ := reopen_preserves (w.file fi) (hw.files fi) (hw.coh fi) (decide (mode % 4 ≥ DFACC_WRITE)) hz
    rw [hsn] at hg
    have h : step w (.open fi mode ndds) = ((padW w fi).setFile fi g, .ok) := by
      rw [hstep]; unfold hopen
      simp only [hfile, hop0, Bool.false_eq_true, if_false, hcr, hpr, Bool.not_true, hg]
    unfold StepOK
    rw [h]
    refine ⟨hwp.setFile_nohandle fi hfi _ gE gC hnop, abs w, ?_, ?_⟩
    · simp only [specStep]
      have : ¬ (mode = DFACC_CREATE ∨ (abs w).present fi = false) := by
        intro c; rcases c with c | c
        · exact hcr c
        · have : (w.file fi).present = false := c
          rw [hpr] at this; exact absurd this (by decide)
      rw [if_neg this]
    · refine Eqv.trans hep ?_
      apply abs_setFile_nohandle fi hfi g hnop
      · rw [hfile]; exact gP
      · intro t r; rw [hfile]; exact gEl t r
  · have hpr0 : (w.file fi).present = false := by simpa using hpr
    by_cases hwm : mode % 4 ≥ DFACC_WRITE
    · exact hcreate (by
        rw [hstep]; unfold hopen
        simp only [hfile, hop0, Bool.false_eq_true, if_false, hcr, hpr0, Bool.not_false, if_true, hwm]) (Or.inr hpr0)
    · exact hfail (by
        rw [hstep]; unfold hopen
        simp only [hfile, hop0, Bool.false_eq_true, if_false, hcr, hpr0, Bool.not_false, if_true, hwm])

end H4.Elem
