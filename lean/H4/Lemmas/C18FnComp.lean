import H4.Lemmas.C18Fn
/-! Helper lemmas for `H4.Props.C18Fn`, second part: `parse_comp` of `hrepack_parse.c` as translated (`H4.Gen.Fn.Repack.parse_comp`).
    The cell / character correspondence, the string builtins and the shared scanners are in `H4.Lemmas.C18Fn`. -/
set_option maxRecDepth 8000

namespace H4.C18Fn
open H4.Tools H4.Gen.Tools

/-! ### parse_comp: the loops -/

section comp
open H4.Gen.Fn.Repack

theorem comp_loop0 (bs rest : List Int) (hlen : bs.length < 2 ^ 31) :
    ∀ (rem pre : List Int) (s : parse_comp.St) (fuel : Nat), bs = pre ++ rem →
    s.str = bs ++ 0 :: rest → s.len = bs.length → s.i = pre.length → rem.length ≤ fuel → s.done = false → s.gto = false →
    ∃ c', parse_comp.loop0 fuel s = { s with
      i := bs.length, c_ := c', end_obj := lastColonC rem pre.length s.end_obj, n := s.n + rem.count 44 } := by
  intro rem
  induction rem with
  | nil =>
    intro pre s fuel hbs hstr hl hi _ hd hg
    have : ¬ (s.i < s.len) := by rw [hi, hl, hbs]; simp
    refine ⟨s.c_, ?_⟩
    cases fuel <;> (simp [parse_comp.loop0, this, lastColonC, ← hi, hl, hbs]; cases s; simp_all)
  | cons c cs ih =>
    intro pre s fuel hbs hstr hl hi hf hd hg
    obtain ⟨fuel, rfl⟩ : ∃ f, fuel = f + 1 := ⟨fuel - 1, by simp at hf; omega⟩
    have hlt : s.i < s.len := by rw [hi, hl, hbs]; simp; omega
    have hb : (pre.length : Int) < s.str.length := by rw [hstr, hbs]; simp; omega
    have hget : s.str.getD pre.length 0 = c := by rw [hstr, hbs]; simp [List.getD_eq_getElem?_getD]
    rw [parse_comp.loop0, if_pos ⟨hlt, by simp [hd, hg]⟩]
    have hbody : parse_comp.loop0.body (fuel + 1) s = { s with
        i := ((pre.length + 1 : Nat) : Int), c_ := c,
        end_obj := if c = 58 then (pre.length : Int) else s.end_obj, n := if c = 44 then s.n + 1 else s.n } := by
      cases s
      simp only at hstr hl hi hd hg hget hb
      subst hi hl hd hg
      have h1 : (0 : Int) ≤ (pre.length : Int) ∧ (pre.length : Int) < _ := ⟨by omega, hb⟩
      simp only [parse_comp.loop0.body, parse_comp.chk, h1, Int.toNat_natCast, hget, and_self, decide_true, Bool.not_true, Bool.or_false]
      have hw : ((pre.length : Int) + 1) % 4294967296 = ((pre.length + 1 : Nat) : Int) := by
        have : pre.length < 2 ^ 31 := by rw [hbs] at hlen; simp at hlen; omega
        omega
      by_cases h58 : c = 58 <;> by_cases h44 : c = 44 <;> simp [h58, h44, hw]
    rw [hbody]
    obtain ⟨c', hc'⟩ := ih (pre ++ [c]) { s with
        i := ((pre.length + 1 : Nat) : Int), c_ := c,
        end_obj := if c = 58 then (pre.length : Int) else s.end_obj, n := if c = 44 then s.n + 1 else s.n }
      fuel (by simp [hbs]) hstr hl (by simp) (by simpa using hf) hd hg
    refine ⟨c', ?_⟩
    rw [hc']
    simp only [lastColonC, List.length_append, List.length_singleton, List.count_cons]
    by_cases h44 : c = 44 <;> simp [h44, Int.add_assoc] <;> omega


theorem comp_loop1 (lst tail : List Int) (N : Nat) (hlen : lst.length < 2 ^ 31) :
    ∀ (rem pre cur junk : List Int) (s : parse_comp.St) (fuel nd : Nat), lst = pre ++ rem →
    s.str = lst ++ tail → s.end_obj = lst.length → s.j = pre.length → s.k = cur.length → s.obj = cur ++ junk → cur.length + junk.length = 256 →
    CStr cur → CStr rem → s.n = nd → s.obj_list = 0 → s.obj_list_blk.length = N * 256 → (rem ≠ [] → nd + rem.count 44 + 1 ≤ N) →
    rem.length ≤ fuel → s.done = false → s.gto = false →
    ∃ j k c n obj blk g, parse_comp.loop1 fuel s = { s with j := j, k := k, c_ := c, n := n, obj := obj, obj_list_blk := blk, gto := g } ∧
      (match namesLoopC rem cur with
       | none => g = true
       | some names => g = false ∧ n = ((nd + names.length : Nat) : Int) ∧ blk = putNames s.obj_list_blk nd names) := by
  intro rem
  induction rem with
  | nil =>
    intro pre cur junk s fuel nd hl hstr he hj _ _ _ _ _ hn _ _ _ _ hd hg
    have : ¬ (s.j < s.end_obj) := by rw [hj, he, hl]; simp
    refine ⟨s.j, s.k, s.c_, s.n, s.obj, s.obj_list_blk, s.gto, ?_, ?_⟩
    · cases fuel <;> simp [parse_comp.loop1, this]
    · simp [namesLoopC, putNames, hg, hn]
  | cons c cs ih =>
    intro pre cur junk s fuel nd hl hstr he hj hk hobj hjl hcur hrem hn hol hbl hroom hf hd hg
    obtain ⟨fuel, rfl⟩ : ∃ f, fuel = f + 1 := ⟨fuel - 1, by simp at hf; omega⟩
    have hlt : s.j < s.end_obj := by rw [hj, he, hl]; simp; omega
    have hb : (pre.length : Int) < s.str.length := by rw [hstr, hl]; simp; omega
    have hget : s.str.getD pre.length 0 = c := by rw [hstr, hl]; simp [List.getD_eq_getElem?_getD]
    have hc := hrem.cons
    rw [parse_comp.loop1, if_pos ⟨hlt, by simp [hd, hg]⟩]
    by_cases hlong : cur.length ≥ H4_MAX_NC_NAME - 1
    · -- the name does not fit: `goto out`
      have hbody : parse_comp.loop1.body (fuel + 1) s = { s with c_ := c, gto := true } := by
        cases s
        simp only at hstr he hj hk hobj hn hol hbl hd hg hget hb
        subst hj hk hd hg
        have h1 : (0 : Int) ≤ (pre.length : Int) ∧ (pre.length : Int) < _ := ⟨by omega, hb⟩
        have h2 : (cur.length : Int) ≥ 256 - 1 := by simp [H4_MAX_NC_NAME] at hlong; omega
        simp only [parse_comp.loop1.body, parse_comp.chk, h1, hget, h2, Int.toNat_natCast, and_self, decide_true, Bool.not_true, Bool.or_false,
          if_true, or_true, Bool.false_eq_true, false_or, ite_true]
      rw [hbody]
      refine ⟨s.j, s.k, c, s.n, s.obj, s.obj_list_blk, true, ?_, ?_⟩
      · cases fuel <;> simp [parse_comp.loop1]
      · simp [namesLoopC, hlong]
    · have hk254 : cur.length ≤ 254 := by simp [H4_MAX_NC_NAME] at hlong; omega
      obtain ⟨a, b, jr, rfl⟩ : ∃ a b jr, junk = a :: b :: jr := by
        match junk, hjl with
        | [], h => simp at h; omega
        | [_], h => simp at h; omega
        | a :: b :: jr, _ => exact ⟨a, b, jr, rfl⟩
      by_cases hem : c = 44 ∨ cs = []
      · -- a name ends here: `name` and the cells behind it in `obj`
        have hroom' := hroom (by simp)
        obtain ⟨blk, hblk⟩ : ∃ blk, blk = s.obj_list_blk := ⟨_, rfl⟩
        have hbody : parse_comp.loop1.body (fuel + 1) s = { s with
            c_ := c, obj := List.replicate 256 0, obj_list_blk := putName blk nd (if c = 44 then cur else cur ++ [c]),
            n := ((nd + 1 : Nat) : Int), j := ((pre.length + 1 : Nat) : Int), k := 0 } := by
          cases s
          simp only at hstr he hj hk hobj hn hol hbl hd hg hget hb hblk
          subst hj hk hd hg hobj hn hol he hblk
          have h1 : (0 : Int) ≤ (pre.length : Int) ∧ (pre.length : Int) < _ := ⟨by omega, hb⟩
          have h2 : ¬ ((cur.length : Int) ≥ 256 - 1) := by omega
          have h3 : (0 : Int) ≤ (cur.length : Int) ∧ (cur.length : Int) < ((cur ++ a :: b :: jr).length : Int) := by simp; omega
          have h3' : (0 : Int) ≤ (cur.length : Int) + 1 ∧ (cur.length : Int) + 1 < ((cur ++ a :: b :: jr).length : Int) := by simp; omega
          have hem' : c = 44 ∨ (pre.length : Int) = (lst.length : Int) - 1 := by
            rcases hem with h | h
            · exact Or.inl h
            · right; rw [hl, h]; simp
          have hnd : (0 + (nd : Int) * 256).toNat = nd * 256 := by omega
          have hnN : nd + 1 ≤ N := by simp only [List.count_cons] at hroom'; omega
          have hz : ((0 : Int) + 128) % 256 - 128 = 0 := by decide
          by_cases h44 : c = 44
          · subst h44
            have hset : ((cur ++ a :: b :: jr).set cur.length 44).set cur.length 0 = cur ++ 0 :: b :: jr := by simp
            have htw := takeWhile_cstr cur (b :: jr) hcur
            have htk := take_name cur (b :: jr)
            have hnd2 : (0 + (nd : Int) * 256 + ((cur.length : Int) + 1)).toNat = nd * 256 + (cur.length + 1) := by omega
            have h4 : (0 : Int) ≤ 0 + (nd : Int) * 256 ∧ 0 + (nd : Int) * 256 + ((cur.length : Int) + 1) ≤ (blk.length : Int) := by
              rw [hbl]; omega
            have h5 : (cur ++ 0 :: b :: jr).length = 256 := by simp at hjl ⊢; omega
            have hdrop : (cur ++ 0 :: b :: jr).drop 256 = [] := List.drop_eq_nil_of_le (by omega)
            have hmem : (0 : Int) ∈ cur ++ 0 :: b :: jr := by simp
            simp only [parse_comp.loop1.body, parse_comp.chk, h1, hget, h2, h3, Int.toNat_natCast, and_self, decide_true, Bool.not_true, Bool.or_false,
              if_true, or_true, Bool.false_eq_true, false_or, ite_true, if_false, true_or, or_self, ite_false]
            simp only [Int.reduceSub, hset, Int.toNat_zero, List.drop_zero, htw, Int.ofNat_eq_natCast,
              Int.toNat_natCast_add_one, htk, hnd, hnd2, h4, h5, hdrop, hmem, List.length_set, h3.2, Int.reduceToNat, List.take_zero,
              List.nil_append, List.append_nil, Int.reduceLE, Int.reduceAdd, Int.reduceMod, true_and, Std.le_refl, and_self, decide_true, Bool.not_true, Bool.or_false,
              parse_comp.St.set_obj, parse_comp.St.set_n, parse_comp.St.set_k, parse_comp.St.set_j, putName, Int.natCast_add, Int.cast_ofNat_Int,
              if_true]
          · have hcs : cs = [] := by rcases hem with h | h; exact absurd h h44; exact h
            have hset : ((cur ++ a :: b :: jr).set cur.length c).set (cur.length + 1) 0 = (cur ++ [c]) ++ 0 :: jr := by simp
            have hcn : CStr (cur ++ [c]) := hcur.append (CStr.single hc.1.1 hc.1.2)
            have htw := takeWhile_cstr (cur ++ [c]) jr hcn
            have htk := take_name (cur ++ [c]) jr
            have hnd2 : (0 + (nd : Int) * 256 + (((cur ++ [c]).length : Int) + 1)).toNat = nd * 256 + ((cur ++ [c]).length + 1) := by omega
            have h4 : (0 : Int) ≤ 0 + (nd : Int) * 256 ∧ 0 + (nd : Int) * 256 + (((cur ++ [c]).length : Int) + 1) ≤ (blk.length : Int) := by
              rw [hbl]; simp; omega
            have h5 : ((cur ++ [c]) ++ 0 :: jr).length = 256 := by simp at hjl ⊢; omega
            have hdrop : ((cur ++ [c]) ++ 0 :: jr).drop 256 = [] := List.drop_eq_nil_of_le (by omega)
            have hmem : (0 : Int) ∈ (cur ++ [c]) ++ 0 :: jr := by simp
            have hlast : (lst.length : Int) - 1 = (pre.length : Int) := by rw [hl, hcs]; simp
            simp only [parse_comp.loop1.body, parse_comp.chk, h1, hget, h2, h3, h3', h44, hlast, Int.toNat_natCast, and_self, decide_true, Bool.not_true, Bool.or_false,
              if_true, or_true, Bool.false_eq_true, false_or, ite_true, if_false, true_or, or_self, ite_false]
            simp only [Int.reduceSub, hset, Int.toNat_zero, List.drop_zero, htw, Int.ofNat_eq_natCast,
              Int.toNat_natCast_add_one, htk, hnd, hnd2, h4, h5, hdrop, hmem, List.length_set, h3.2, h3'.2, Int.reduceToNat, List.take_zero,
              List.nil_append, List.append_nil, Int.reduceLE, Int.reduceAdd, Int.reduceMod, true_and, Std.le_refl, and_self, decide_true, Bool.not_true, Bool.or_false,
              parse_comp.St.set_obj, parse_comp.St.set_n, parse_comp.St.set_k, parse_comp.St.set_j, putName, Int.natCast_add, Int.cast_ofNat_Int,
              if_false]
        rw [hbody]
        -- the rest of the list
        have hnames : namesLoopC (c :: cs) cur = (namesLoopC cs []).map ((if c = 44 then cur else cur ++ [c]) :: ·) := by
          rw [namesLoopC, if_neg hlong, if_pos hem]
        obtain ⟨j', k', c', n', obj', blk', g', hrun, hres⟩ := ih (pre ++ [c]) [] (List.replicate 256 0) { s with
            c_ := c, obj := List.replicate 256 0, obj_list_blk := putName blk nd (if c = 44 then cur else cur ++ [c]),
            n := ((nd + 1 : Nat) : Int), j := ((pre.length + 1 : Nat) : Int), k := 0 }
          fuel (nd + 1) (by simp [hl]) hstr he (by simp) rfl rfl (by simp only [List.length_nil, List.length_replicate]) CStr.nil hc.2 rfl hol
          (by
            have hnN : nd + 1 ≤ N := by simp only [List.count_cons] at hroom'; omega
            have hbl' : blk.length = N * 256 := by rw [hblk]; exact hbl
            show (putName blk nd _).length = N * 256
            rw [putName_length _ _ _ (by split <;> (try simp only [List.length_append, List.length_cons, List.length_nil]) <;> omega), hbl'])
          (by
            intro hne
            have h44 : c = 44 := hem.resolve_right hne
            rw [h44, List.count_cons_self] at hroom'
            omega)
          (by simpa using hf) hd hg
        refine ⟨j', k', c', n', obj', blk', g', ?_, ?_⟩
        · rw [hrun]
        · rw [hnames]
          cases hnl : namesLoopC cs [] with
          | none => simpa [hnl] using hres
          | some names =>
            rw [hnl] at hres
            simp only [Option.map_some] at hres ⊢
            obtain ⟨h1, h2, h3⟩ := hres
            refine ⟨h1, by rw [h2]; simp; omega, ?_⟩
            rw [h3, putNames, hblk]
      · -- an ordinary character of a name
        have h44 : ¬ c = 44 := fun h => hem (Or.inl h)
        have hcs : cs ≠ [] := fun h => hem (Or.inr h)
        have hbody : parse_comp.loop1.body (fuel + 1) s = { s with
            c_ := c, obj := (cur ++ [c]) ++ b :: jr, j := ((pre.length + 1 : Nat) : Int), k := (((cur ++ [c]).length : Nat) : Int) } := by
          cases s
          simp only at hstr he hj hk hobj hn hol hbl hd hg hget hb
          subst hj hk hd hg hobj hn hol he
          have h1 : (0 : Int) ≤ (pre.length : Int) ∧ (pre.length : Int) < _ := ⟨by omega, hb⟩
          have h2 : ¬ ((cur.length : Int) ≥ 256 - 1) := by omega
          have h3 : (0 : Int) ≤ (cur.length : Int) ∧ (cur.length : Int) < ((cur ++ a :: b :: jr).length : Int) := by simp; omega
          have hnl : ¬ ((pre.length : Int) = (lst.length : Int) - 1) := by
            rw [hl]; obtain ⟨y, ys, rfl⟩ := List.exists_cons_of_ne_nil hcs; simp; omega
          have hset : (cur ++ a :: b :: jr).set cur.length c = (cur ++ [c]) ++ b :: jr := by simp
          simp only [parse_comp.loop1.body, parse_comp.chk, h1, hget, h2, h3, h44, hnl, Int.toNat_natCast, and_self, decide_true, Bool.not_true, Bool.or_false,
            if_true, or_true, Bool.false_eq_true, false_or, ite_true, if_false, true_or, or_self, ite_false, hset,
            parse_comp.St.set_obj, parse_comp.St.set_n, parse_comp.St.set_k, parse_comp.St.set_j, Int.natCast_add, Int.cast_ofNat_Int,
            List.length_append, List.length_singleton]
          have h3b : (cur.length : Int) < (cur.length : Int) + ((a :: b :: jr).length : Int) := by simp; omega
          simp only [h3b, and_self, decide_true, Bool.not_true, Bool.or_false]
        rw [hbody]
        have hnames : namesLoopC (c :: cs) cur = namesLoopC cs (cur ++ [c]) := by
          rw [namesLoopC, if_neg hlong, if_neg hem]
        obtain ⟨j', k', c', n', obj', blk', g', hrun, hres⟩ := ih (pre ++ [c]) (cur ++ [c]) (b :: jr) { s with
            c_ := c, obj := (cur ++ [c]) ++ b :: jr, j := ((pre.length + 1 : Nat) : Int), k := (((cur ++ [c]).length : Nat) : Int) }
          fuel nd (by simp [hl]) hstr he (by simp) rfl rfl (by simp at hjl ⊢; omega) (hcur.append (CStr.single hc.1.1 hc.1.2)) hc.2 hn hol hbl
          (by intro _; have := hroom (by simp); rw [List.count_cons_of_ne (fun h => h44 h)] at this; exact this)
          (by simpa using hf) hd hg
        refine ⟨j', k', c', n', obj', blk', g', ?_, ?_⟩
        · rw [hrun]
        · rw [hnames]; exact hres



theorem comp_loop4_stop (fuel : Nat) (s : parse_comp.St) (h : ¬ ((s.u < s.len) ∧ ¬(s.done ∨ s.gto))) : parse_comp.loop4 fuel s = s := by
  cases fuel <;> simp only [parse_comp.loop4, h, if_false]

/-- the parameter digits after the blank: all of them must be digits, at most 4 fit in stype[5] -/
theorem comp_loop4 (bs rest : List Int) (hlen : bs.length < 2 ^ 31) :
    ∀ (rem pre ds sj : List Int) (s : parse_comp.St) (fuel : Nat), bs = pre ++ rem →
    s.str = bs ++ 0 :: rest → s.len = bs.length → s.u = pre.length → s.m = ds.length → s.stype = ds ++ sj → ds.length + sj.length = 5 →
    ds.length ≤ 4 → (∀ c ∈ rem, IsChar c ∧ c ≠ 0) → rem.length ≤ fuel → s.done = false → s.gto = false →
    ∃ u c m stype g, parse_comp.loop4 fuel s = { s with u := u, c_ := c, m := m, stype := stype, gto := g } ∧
      (if (toStr rem).all Char.isDigit = true ∧ ds.length + rem.length ≤ 4 then
         g = false ∧ m = ((ds.length + rem.length : Nat) : Int) ∧ ∃ sj', stype = (ds ++ rem) ++ sj' ∧ (ds ++ rem).length + sj'.length = 5
       else g = true) := by
  intro rem
  induction rem with
  | nil =>
    intro pre ds sj s fuel hbs hstr hl hu hm hst hsl h4 _ _ hd hg
    have : ¬ (s.u < s.len) := by rw [hu, hl, hbs]; simp
    refine ⟨s.u, s.c_, s.m, s.stype, s.gto, ?_, ?_⟩
    · rw [comp_loop4_stop _ _ (by simp [this])]
    · simp only [toStr_nil, List.all_nil, List.length_nil, Nat.add_zero, h4, and_self, if_true, List.append_nil]
      exact ⟨hg, hm, sj, hst, hsl⟩
  | cons c cs ih =>
    intro pre ds sj s fuel hbs hstr hl hu hm hst hsl h4 hrem hf hd hg
    obtain ⟨fuel, rfl⟩ : ∃ f, fuel = f + 1 := ⟨fuel - 1, by simp at hf; omega⟩
    have hlt : s.u < s.len := by rw [hu, hl, hbs]; simp; omega
    have hb : (pre.length : Int) < s.str.length := by rw [hstr, hbs]; simp; omega
    have hget : s.str.getD pre.length 0 = c := by rw [hstr, hbs]; simp [List.getD_eq_getElem?_getD]
    have hc := hrem c (by simp)
    have hmod : -1 ≤ c % 256 ∧ c % 256 ≤ 255 := by omega
    have hw : ((pre.length : Int) + 1) % 4294967296 = ((pre.length + 1 : Nat) : Int) := by
      have : pre.length < 2 ^ 31 := by rw [hbs] at hlen; simp at hlen; omega
      omega
    rw [parse_comp.loop4, if_pos ⟨hlt, by simp [hd, hg]⟩]
    by_cases hbad : ¬ (toChar c).isDigit = true ∨ ds.length ≥ 4
    · have hbody : parse_comp.loop4.body (fuel + 1) s = { s with c_ := c, gto := true } := by
        cases s
        simp only at hstr hl hu hm hst hd hg hget hb
        subst hu hm hd hg hst hl
        have h1 : (0 : Int) ≤ (pre.length : Int) ∧ (pre.length : Int) < _ := ⟨by omega, hb⟩
        have hA : ((¬((if 48 ≤ c % 256 ∧ c % 256 ≤ 57 then 1 else 0) ≠ 0)) ∨ ((ds.length : Int) ≥ 5 - 1)) := by
          rcases hbad with h | h
          · left; rw [toChar_isDigit] at h; simp [h]
          · right; omega
        simp only [parse_comp.loop4.body, parse_comp.chk, h1, hget, hmod, hA, Int.toNat_natCast, c18logic, parse_comp.St.set_gto]
      rw [hbody]
      refine ⟨s.u, c, s.m, s.stype, true, by rw [comp_loop4_stop]; simp, ?_⟩
      rw [if_neg]
      rintro ⟨h1, h2⟩
      rcases hbad with h | h
      · simp at h1; exact h h1.1
      · simp at h2; omega
    · have hdig : (toChar c).isDigit = true := by
        by_cases h : (toChar c).isDigit = true
        · exact h
        · exact absurd (Or.inl h) hbad
      have hd3 : ds.length ≤ 3 := by
        by_cases h : ds.length ≥ 4
        · exact absurd (Or.inr h) hbad
        · omega
      obtain ⟨a, jr, rfl⟩ : ∃ a jr, sj = a :: jr := by
        match sj, hsl with
        | [], h => simp at h; omega
        | a :: jr, _ => exact ⟨a, jr, rfl⟩
      have hbody : parse_comp.loop4.body (fuel + 1) s = { s with
          c_ := c, stype := (ds ++ [c]) ++ jr, u := ((pre.length + 1 : Nat) : Int), m := (((ds ++ [c]).length : Nat) : Int) } := by
        cases s
        simp only at hstr hl hu hm hst hd hg hget hb
        subst hu hm hd hg hst hl
        have h1 : (0 : Int) ≤ (pre.length : Int) ∧ (pre.length : Int) < _ := ⟨by omega, hb⟩
        have hA : ¬ ((¬((if 48 ≤ c % 256 ∧ c % 256 ≤ 57 then 1 else 0) ≠ 0)) ∨ ((ds.length : Int) ≥ 5 - 1)) := by
          rintro (h | h)
          · apply h; rw [toChar_isDigit] at hdig; simp [hdig]
          · omega
        have hA2 : (0 : Int) ≤ (ds.length : Int) ∧ (ds.length : Int) < ((ds ++ a :: jr).length : Int) := by simp; omega
        have hset : (ds ++ a :: jr).set ds.length c = (ds ++ [c]) ++ jr := by simp
        simp only [parse_comp.loop4.body, parse_comp.chk, h1, hget, hmod, eq_false hA, hA2, hset, hw, Int.toNat_natCast, c18logic,
          parse_comp.St.set_u, parse_comp.St.set_m, List.length_append, List.length_singleton, Int.natCast_add, Int.cast_ofNat_Int]
        have h3b : (ds.length : Int) < (ds.length : Int) + ((a :: jr).length : Int) := by simp; omega
        simp only [h3b, c18logic]
      rw [hbody]
      obtain ⟨u', c', m', st', g', hrun, hres⟩ := ih (pre ++ [c]) (ds ++ [c]) jr { s with
          c_ := c, stype := (ds ++ [c]) ++ jr, u := ((pre.length + 1 : Nat) : Int), m := (((ds ++ [c]).length : Nat) : Int) }
        fuel (by simp [hbs]) hstr hl (by simp) rfl rfl (by simp at hsl ⊢; omega) (by simp; omega) (fun x hx => hrem x (by simp [hx])) (by simpa using hf) hd hg
      refine ⟨u', c', m', st', g', by rw [hrun], ?_⟩
      simp only [toStr_cons, List.all_cons, hdig, Bool.true_and, List.length_cons]
      have e1 : (ds ++ [c]).length + cs.length = ds.length + (cs.length + 1) := by simp; omega
      have e2 : (ds ++ [c]) ++ cs = ds ++ c :: cs := by simp
      rw [e1, e2] at hres
      exact hres

theorem comp_loop3_stop (fuel : Nat) (s : parse_comp.St) (h : ¬ ((s.u < s.len) ∧ ¬(s.done ∨ s.gto))) : parse_comp.loop3 fuel s = s := by
  cases fuel <;> simp only [parse_comp.loop3, h, if_false]

/-- `strcmp(smask, "NN")` / `"EC"` on the three cells of `smask` once its NUL is in place: never leaves them -/
theorem strcmp3 (x y a b : Int) (ha : a % 256 ≠ 0) (hb : b % 256 ≠ 0) : ∃ r, strcmpC [x, y, 0] [a, b, 0] = some r := by
  simp only [strcmpC]
  by_cases h1 : x % 256 = a % 256
  · rw [if_neg (by simpa using h1), if_neg (by omega)]
    by_cases h2 : y % 256 = b % 256
    · rw [if_neg (by simpa using h2), if_neg (by omega)]
      exact ⟨0, by simp⟩
    · rw [if_pos (by simpa using h2)]; exact ⟨_, rfl⟩
  · rw [if_pos (by simpa using h1)]; exact ⟨_, rfl⟩

/-- digits only -/
def Digits (ds : List Int) : Prop := ∀ c ∈ ds, 48 ≤ c ∧ c ≤ 57

theorem Digits.tok {ds : List Int} (h : Digits ds) : TokOK ds := by
  intro c hc; have := h c hc; unfold IsChar; refine ⟨by omega, ?_, ?_, ?_, ?_⟩ <;> omega

/-- what the szip scanner keeps true of `m`, `l`, `stype[]`, `smask[]`, `*n_objs`: the indices stay inside the buffers, and `stype` holds
    the digits read so far - followed by a NUL once a comma was seen, so that the later `atoi(stype)` stops before any unwritten cell -/
structure SzOK (m l : Int) (stype smask nobjs : List Int) : Prop where
  stl : stype.length = 5
  sml : smask.length = 3
  m0 : 0 ≤ m
  m4 : m ≤ 4
  nol : 0 < nobjs.length
  tok : (l = -1 ∧ ∃ ds, m = (ds.length : Int) ∧ stype.take ds.length = ds ∧ Digits ds) ∨
        (0 ≤ l ∧ l ≤ 2 ∧ ∃ ds, (ds.length : Int) < m ∧ stype.take (ds.length + 1) = ds ++ [0] ∧ Digits ds)

/-- after the scanner: `stype[m] = '\0'; atoi(stype)` stays inside `stype` and does not overflow -/
theorem SzOK.atoi {m l : Int} {stype smask nobjs : List Int} (h : SzOK m l stype smask nobjs) :
    (0 ≤ m ∧ m < (stype.length : Int)) ∧ ∃ v, atoiC (stype.set m.toNat 0) = some v := by
  have h5 := h.stl
  refine ⟨⟨h.m0, by have := h.m4; omega⟩, ?_⟩
  rcases h.tok with ⟨_, ds, hm, htk, hd⟩ | ⟨_, _, ds, hm, htk, hd⟩
  · have hmn : m.toNat = ds.length := by omega
    have hlt : ds.length < stype.length := by have := h.m4; omega
    have : stype.set m.toNat 0 = ds ++ 0 :: stype.drop (ds.length + 1) := by
      rw [hmn]
      conv => lhs; rw [← List.take_append_drop ds.length stype]
      rw [htk, List.set_append_right _ _ (by simp)]
      have hd1 : stype.drop ds.length = stype[ds.length] :: stype.drop (ds.length + 1) := List.drop_eq_getElem_cons hlt
      rw [hd1, Nat.sub_self, List.set_cons_zero]
    rw [this]
    exact ⟨_, atoiC_spec ds _ hd.tok (by have := h.m4; omega)⟩
  · have hlt : ds.length + 1 ≤ stype.length := by have := h.m4; omega
    have : stype.set m.toNat 0 = ds ++ 0 :: (stype.set m.toNat 0).drop (ds.length + 1) := by
      conv => lhs; rw [← List.take_append_drop (ds.length + 1) (stype.set m.toNat 0)]
      rw [List.take_set_of_le (by omega), htk]
      simp
    rw [this]
    exact ⟨_, atoiC_spec ds _ hd.tok (by have := h.m4; omega)⟩


theorem SzOK.digit_step {m : Int} {stype smask nobjs : List Int} (h : SzOK m (-1) stype smask nobjs) (c : Int) (hc : 48 ≤ c ∧ c ≤ 57) (hm : m < 4) :
    SzOK (m + 1) (-1) (stype.set m.toNat c) smask nobjs := by
  rcases h.tok with ⟨_, ds, hmd, htk, hd⟩ | ⟨h0, _⟩
  · refine ⟨by rw [List.length_set]; exact h.stl, h.sml, by have := h.m0; omega, by omega, h.nol, Or.inl ⟨rfl, ds ++ [c], by simp; omega, ?_, ?_⟩⟩
    · have hmn : m.toNat = ds.length := by omega
      have hlt : ds.length < stype.length := by have := h.stl; omega
      rw [hmn, List.length_append, List.length_singleton, H4.C2L.take_set_succ _ _ _ hlt, htk]
    · intro x hx; rcases List.mem_append.mp hx with h' | h'
      · exact hd x h'
      · simp at h'; subst h'; exact hc
  · omega

theorem SzOK.comma {m l : Int} {stype smask nobjs : List Int} (h : SzOK m l stype smask nobjs) :
    ∀ m', m' = m + 1 → m < 4 → ∀ l', 0 ≤ l' → l' ≤ 2 → ∀ smask', smask'.length = 3 → ∀ nobjs', 0 < nobjs'.length →
    SzOK m' l' (stype.set m.toNat 0) smask' nobjs' := by
  intro m' hm' hm4 l' hl0 hl2 smask' hsm nobjs' hno
  subst hm'
  have hst := h.stl
  refine ⟨by rw [List.length_set]; exact hst, hsm, by have := h.m0; omega, by omega, hno, Or.inr ⟨hl0, hl2, ?_⟩⟩
  rcases h.tok with ⟨_, ds, hmd, htk, hd⟩ | ⟨_, _, ds, hmd, htk, hd⟩
  · have hmn : m.toNat = ds.length := by omega
    have hlt : ds.length < stype.length := by omega
    exact ⟨ds, by omega, by rw [hmn, H4.C2L.take_set_succ _ _ _ hlt, htk], hd⟩
  · exact ⟨ds, by omega, by rw [List.take_set_of_le (by omega), htk], hd⟩

theorem SzOK.mask {m l : Int} {stype smask nobjs : List Int} (h : SzOK m l stype smask nobjs) (hl : 0 ≤ l) :
    ∀ m', m' = m + 1 → m < 4 → ∀ l', 0 ≤ l' → l' ≤ 2 → ∀ smask', smask'.length = 3 → ∀ nobjs', 0 < nobjs'.length →
    SzOK m' l' stype smask' nobjs' := by
  intro m' hm' hm4 l' hl0 hl2 smask' hsm nobjs' hno
  subst hm'
  refine ⟨h.stl, hsm, by have := h.m0; omega, by omega, hno, Or.inr ⟨hl0, hl2, ?_⟩⟩
  rcases h.tok with ⟨h1, _⟩ | ⟨_, _, ds, hmd, htk, hd⟩
  · omega
  · exact ⟨ds, by omega, htk, hd⟩


/-- **the szip scanner never leaves `stype[5]` / `smask[3]` / the string** (its result is thrown away: SZIP is refused afterwards) -/
theorem comp_loop3 (bs rest : List Int) (hbs : CStr bs) (hlen : bs.length < 2 ^ 31) :
    ∀ (n : Nat) (s : parse_comp.St) (fuel p : Nat), s.str = bs ++ 0 :: rest → s.len = bs.length → s.u = p → bs.length + 1 - p ≤ n → n ≤ fuel →
    SzOK s.m s.l s.stype s.smask s.n_objs → s.done = false → s.gto = false →
    ∃ u c m l stype smask i nobjs sm g, parse_comp.loop3 fuel s = { s with
        u := u, c_ := c, m := m, l := l, stype := stype, smask := smask, i := i, n_objs := nobjs, comp_szip_mode := sm, gto := g } ∧
      (g = false → SzOK m l stype smask nobjs) := by
  intro n
  induction n with
  | zero =>
    intro s fuel p hstr hl hu hn _ hok hd hg
    refine ⟨s.u, s.c_, s.m, s.l, s.stype, s.smask, s.i, s.n_objs, s.comp_szip_mode, s.gto, ?_, fun _ => hok⟩
    rw [comp_loop3_stop]; rw [hu, hl]; simp; omega
  | succ n ih =>
    intro s fuel p hstr hl hu hn hf hok hd hg
    by_cases hpl : p < bs.length
    case neg =>
      refine ⟨s.u, s.c_, s.m, s.l, s.stype, s.smask, s.i, s.n_objs, s.comp_szip_mode, s.gto, ?_, fun _ => hok⟩
      rw [comp_loop3_stop]; rw [hu, hl]; simp; omega
    obtain ⟨fuel, rfl⟩ : ∃ f, fuel = f + 1 := ⟨fuel - 1, by omega⟩
    have hlt : s.u < s.len := by rw [hu, hl]; omega
    rw [parse_comp.loop3, if_pos ⟨hlt, by simp [hd, hg]⟩]
    -- the cell at `u` and the one behind it (at worst the terminating NUL)
    obtain ⟨pre, c0, post, hbs', hpre⟩ : ∃ pre c0 post, bs = pre ++ c0 :: post ∧ pre.length = p :=
      ⟨bs.take p, bs[p], bs.drop (p + 1), by rw [← List.drop_eq_getElem_cons hpl, List.take_append_drop], by simp; omega⟩
    obtain ⟨c1, tl, htl⟩ : ∃ c1 tl, post ++ 0 :: rest = c1 :: tl := by cases post <;> simp
    have hstr' : s.str = pre ++ c0 :: c1 :: tl := by rw [hstr, hbs', List.append_assoc, List.cons_append, htl]
    have hb0 : (p : Int) < s.str.length := by rw [hstr']; simp; omega
    have hb1 : (p : Int) + 1 < s.str.length := by rw [hstr']; simp; omega
    have hget0 : s.str.getD p 0 = c0 := by rw [hstr', ← hpre]; simp [List.getD_eq_getElem?_getD]
    have hget1 : s.str.getD (p + 1) 0 = c1 := by rw [hstr', ← hpre]; simp [List.getD_eq_getElem?_getD]
    have hc0 : IsChar c0 := (hbs c0 (by rw [hbs']; simp)).1
    have hc1 : IsChar c1 := by
      cases post with
      | nil => simp at htl; rw [← htl.1]; unfold IsChar; omega
      | cons y ys => simp at htl; rw [← htl.1]; exact (hbs y (by rw [hbs']; simp)).1
    have hmod0 : -1 ≤ c0 % 256 ∧ c0 % 256 ≤ 255 := by omega
    have hmod1 : -1 ≤ c1 % 256 ∧ c1 % 256 ≤ 255 := by omega
    have hp31 : p < 2 ^ 31 := by omega
    have hw1 : ((p : Int) + 1) % 4294967296 = ((p + 1 : Nat) : Int) := by omega
    have hw2 : (((p + 1 : Nat) : Int) + 1) % 4294967296 = ((p + 2 : Nat) : Int) := by omega
    have hm0 := hok.m0; have hm4 := hok.m4; have hstl := hok.stl; have hsml := hok.sml; have hnol := hok.nol
    -- one pass of the body done: either `goto out`, or the scanner moved on and its invariant holds again
    have cont : ∀ (u' : Nat) (c' m' l' : Int) (st' sk' : List Int) (i' : Int) (no' : List Int) (sm' : Int) (g' : Bool),
        parse_comp.loop3.body (fuel + 1) s = { s with
          u := (u' : Int), c_ := c', m := m', l := l', stype := st', smask := sk', i := i', n_objs := no', comp_szip_mode := sm', gto := g' } →
        (g' = false → p < u' ∧ SzOK m' l' st' sk' no') →
        ∃ u c m l stype smask i nobjs sm g, parse_comp.loop3 fuel (parse_comp.loop3.body (fuel + 1) s) = { s with
            u := u, c_ := c, m := m, l := l, stype := stype, smask := smask, i := i, n_objs := nobjs, comp_szip_mode := sm, gto := g } ∧
          (g = false → SzOK m l stype smask nobjs) := by
      intro u' c' m' l' st' sk' i' no' sm' g' hbody hprog
      rw [hbody]
      cases g' with
      | true =>
        exact ⟨u', c', m', l', st', sk', i', no', sm', true, by rw [comp_loop3_stop]; simp, fun h => by simp at h⟩
      | false =>
        obtain ⟨hpu, hok'⟩ := hprog rfl
        obtain ⟨u2, c2, m2, l2, st2, sk2, i2, no2, sm2, g2, hrun, hres⟩ := ih { s with
            u := (u' : Int), c_ := c', m := m', l := l', stype := st', smask := sk', i := i', n_objs := no', comp_szip_mode := sm', gto := false }
          fuel u' hstr hl rfl (by omega) (by omega) hok' hd rfl
        exact ⟨u2, c2, m2, l2, st2, sk2, i2, no2, sm2, g2, by rw [hrun], hres⟩
    have hA0 : (0 : Int) ≤ (p : Int) ∧ (p : Int) < (s.str.length : Int) := ⟨by omega, hb0⟩
    have hA1 : (0 : Int) ≤ ((p + 1 : Nat) : Int) ∧ ((p + 1 : Nat) : Int) < (s.str.length : Int) := ⟨by omega, by push_cast; exact hb1⟩
    by_cases hK : c0 = 44
    · -- a comma: the parameter ends, the cell behind it is the first mask character
      have hz : ((0 : Int) + 128) % 256 - 128 = 0 := by decide
      have h0n : ¬ ((0 : Int) = -1) := by decide
      by_cases hm5 : s.m ≥ 4
      · refine cont (p + 1) c1 s.m 0 (s.stype.set s.m.toNat 0) s.smask s.i s.n_objs s.comp_szip_mode true ?_ (fun h => by simp at h)
        rcases s with ⟨obj_list, i, u, c_, len, j, m, n_, k, end_obj, no_param, l, szm, info, ty, str, n_objs, obj, scomp, stype, smask, blk, ub, oof, ret, retnull, done, gto⟩
        simp only at hstr hl hu hd hg hget0 hget1 hA0 hA1 hm0 hm4 hstl hsml hnol hm5
        subst hu hd hg hl
        have hm5' : (m ≥ 5 - 1) := by omega
        have hA2 : (0 : Int) ≤ m ∧ m < (stype.length : Int) := by omega
        simp only [parse_comp.loop3.body, parse_comp.chk, hA0, hget0, eq_true hK, hA2, hz, hw1, hA1, hget1, hmod1, eq_false h0n, eq_true hm5', Int.toNat_natCast, c18logic,
          parse_comp.St.set_gto, parse_comp.St.set_l, parse_comp.St.set_u, parse_comp.St.set_c_, parse_comp.St.set_stype]
      · have hm3 : s.m < 4 := by omega
        obtain ⟨x, y, z, hxyz⟩ : ∃ x y z, s.smask = [x, y, z] := by
          match hsk : s.smask, hsml with
          | [x, y, z], _ => exact ⟨x, y, z, rfl⟩
        refine cont (p + 2) c1 (s.m + 1) 1 (s.stype.set s.m.toNat 0) [c1, y, z] s.i s.n_objs s.comp_szip_mode false ?_ ?_
        · rcases s with ⟨obj_list, i, u, c_, len, j, m, n_, k, end_obj, no_param, l, szm, info, ty, str, n_objs, obj, scomp, stype, smask, blk, ub, oof, ret, retnull, done, gto⟩
          simp only at hstr hl hu hd hg hget0 hget1 hA0 hA1 hm0 hm4 hstl hsml hnol hm5 hxyz
          subst hu hd hg hl hxyz
          have hm5' : ¬ (m ≥ 5 - 1) := by omega
          have hA2 : (0 : Int) ≤ m ∧ m < (stype.length : Int) := by omega
          have h03 : ¬ ((0 : Int) ≥ 3 - 1) := by decide
          have h0s : (0 : Int) ≤ 0 ∧ (0 : Int) < (([x, y, z] : List Int).length : Int) := by simp
          have h01 : (0 : Int) + 1 = 1 := rfl
          have h12 : ¬ ((1 : Int) = 2) := by decide
          have hset : ([x, y, z] : List Int).set 0 c1 = [c1, y, z] := rfl
          simp only [parse_comp.loop3.body, parse_comp.chk, hA0, hget0, eq_true hK, hA2, hz, hw1, hA1, hget1, hmod1, eq_false h0n, eq_false hm5', eq_false h03, h0s, h01, eq_false h12,
            Int.toNat_zero, hset, hw2, Int.toNat_natCast, c18logic,
            parse_comp.St.set_l, parse_comp.St.set_u, parse_comp.St.set_c_, parse_comp.St.set_stype, parse_comp.St.set_m, parse_comp.St.set_smask]
        · intro _
          exact ⟨by omega, hok.comma _ rfl hm3 1 (by omega) (by omega) _ rfl _ hnol⟩
    · -- no comma here
      by_cases hl1 : s.l = -1
      · by_cases hbad : ¬ (48 ≤ c0 % 256 ∧ c0 % 256 ≤ 57) ∨ s.m ≥ 4
        · refine cont p c0 s.m s.l s.stype s.smask s.i s.n_objs s.comp_szip_mode true ?_ (fun h => by simp at h)
          rcases s with ⟨obj_list, i, u, c_, len, j, m, n_, k, end_obj, no_param, l, szm, info, ty, str, n_objs, obj, scomp, stype, smask, blk, ub, oof, ret, retnull, done, gto⟩
          simp only at hstr hl hu hd hg hget0 hget1 hA0 hA1 hm0 hm4 hstl hsml hnol hl1 hbad
          subst hu hd hg hl hl1
          by_cases hdg : ((if 48 ≤ c0 % 256 ∧ c0 % 256 ≤ 57 then 1 else 0) ≠ 0)
          · have hm5 : (m ≥ 5 - 1) := by
              rcases hbad with h | h
              · exfalso
                by_cases hd' : 48 ≤ c0 % 256 ∧ c0 % 256 ≤ 57
                · exact h hd'
                · simp [hd'] at hdg
              · omega
            simp only [parse_comp.loop3.body, parse_comp.chk, hA0, hget0, eq_false hK, hmod0, eq_true hdg, eq_true hm5, Int.toNat_natCast, c18logic, parse_comp.St.set_gto]
          · simp only [parse_comp.loop3.body, parse_comp.chk, hA0, hget0, eq_false hK, hmod0, eq_false hdg, Int.toNat_natCast, c18logic, parse_comp.St.set_gto]
        · have hdig : 48 ≤ c0 % 256 ∧ c0 % 256 ≤ 57 := by
            by_cases h : 48 ≤ c0 % 256 ∧ c0 % 256 ≤ 57
            · exact h
            · exact absurd (Or.inl h) hbad
          have hm3 : s.m < 4 := by
            by_cases h : s.m ≥ 4
            · exact absurd (Or.inr h) hbad
            · omega
          refine cont (p + 1) c0 (s.m + 1) s.l (s.stype.set s.m.toNat c0) s.smask s.i s.n_objs s.comp_szip_mode false ?_ ?_
          · rcases s with ⟨obj_list, i, u, c_, len, j, m, n_, k, end_obj, no_param, l, szm, info, ty, str, n_objs, obj, scomp, stype, smask, blk, ub, oof, ret, retnull, done, gto⟩
            simp only at hstr hl hu hd hg hget0 hget1 hA0 hA1 hl1 hm0 hm4 hstl hsml hnol hm3
            subst hu hd hg hl hl1
            have hdg : ((if 48 ≤ c0 % 256 ∧ c0 % 256 ≤ 57 then 1 else 0) ≠ 0) := by simp [hdig]
            have hm5 : ¬ (m ≥ 5 - 1) := by omega
            have hA2 : (0 : Int) ≤ m ∧ m < (stype.length : Int) := by omega
            simp only [parse_comp.loop3.body, parse_comp.chk, hA0, hget0, eq_false hK, hmod0, eq_true hdg, eq_false hm5, hA2, hw1, Int.toNat_natCast, c18logic,
              parse_comp.St.set_u, parse_comp.St.set_m]
          · intro _
            refine ⟨by omega, ?_⟩
            have := hok
            rw [hl1] at this ⊢
            exact this.digit_step c0 (by unfold IsChar at hc0; omega) hm3
      · -- the mask after the comma
        have hl02 : 0 ≤ s.l ∧ s.l ≤ 2 := by
          rcases hok.tok with ⟨h, _⟩ | ⟨h1, h2, _⟩
          · exact absurd h hl1
          · exact ⟨h1, h2⟩
        by_cases hm5 : s.m ≥ 4
        · refine cont p c0 s.m s.l s.stype s.smask s.i s.n_objs s.comp_szip_mode true ?_ (fun h => by simp at h)
          rcases s with ⟨obj_list, i, u, c_, len, j, m, n_, k, end_obj, no_param, l, szm, info, ty, str, n_objs, obj, scomp, stype, smask, blk, ub, oof, ret, retnull, done, gto⟩
          simp only at hstr hl hu hd hg hget0 hget1 hA0 hA1 hm0 hm4 hstl hsml hnol hl1 hm5
          subst hu hd hg hl
          have hm5' : (m ≥ 5 - 1) := by omega
          simp only [parse_comp.loop3.body, parse_comp.chk, hA0, hget0, eq_false hK, hmod0, eq_false hl1, eq_true hm5', Int.toNat_natCast, c18logic, parse_comp.St.set_gto]
        · have hm3 : s.m < 4 := by omega
          by_cases hl2 : s.l = 2
          · refine cont p c0 s.m s.l s.stype s.smask s.i s.n_objs s.comp_szip_mode true ?_ (fun h => by simp at h)
            rcases s with ⟨obj_list, i, u, c_, len, j, m, n_, k, end_obj, no_param, l, szm, info, ty, str, n_objs, obj, scomp, stype, smask, blk, ub, oof, ret, retnull, done, gto⟩
            simp only at hstr hl hu hd hg hget0 hget1 hA0 hA1 hm0 hm4 hstl hsml hnol hl1 hm5 hl2
            subst hu hd hg hl hl2
            have hm5' : ¬ (m ≥ 5 - 1) := by omega
            have h2n : ¬ ((2 : Int) = -1) := by decide
            have h23 : ((2 : Int) ≥ 3 - 1) := by decide
            simp only [parse_comp.loop3.body, parse_comp.chk, hA0, hget0, eq_false hK, hmod0, eq_false h2n, eq_false hm5', eq_true h23, Int.toNat_natCast, c18logic, parse_comp.St.set_gto]
          · obtain ⟨x, y, z, hxyz⟩ : ∃ x y z, s.smask = [x, y, z] := by
              match hsk : s.smask, hsml with
              | [x, y, z], _ => exact ⟨x, y, z, rfl⟩
            by_cases hl0 : s.l = 0
            · -- first mask character
              refine cont (p + 1) c0 (s.m + 1) 1 s.stype [c0, y, z] s.i s.n_objs s.comp_szip_mode false ?_ ?_
              · rcases s with ⟨obj_list, i, u, c_, len, j, m, n_, k, end_obj, no_param, l, szm, info, ty, str, n_objs, obj, scomp, stype, smask, blk, ub, oof, ret, retnull, done, gto⟩
                simp only at hstr hl hu hd hg hget0 hget1 hA0 hA1 hm0 hm4 hstl hsml hnol hl1 hm5 hl0 hxyz
                subst hu hd hg hl hl0 hxyz
                have hm5' : ¬ (m ≥ 5 - 1) := by omega
                have h0n : ¬ ((0 : Int) = -1) := by decide
                have h03 : ¬ ((0 : Int) ≥ 3 - 1) := by decide
                have h0s : (0 : Int) ≤ 0 ∧ (0 : Int) < (([x, y, z] : List Int).length : Int) := by simp
                have h01 : (0 : Int) + 1 = 1 := rfl
                have h12 : ¬ ((1 : Int) = 2) := by decide
                have hset : ([x, y, z] : List Int).set 0 c0 = [c0, y, z] := rfl
                simp only [parse_comp.loop3.body, parse_comp.chk, hA0, hget0, eq_false hK, hmod0, eq_false h0n, eq_false hm5', eq_false h03, h0s, h01, eq_false h12,
                  Int.toNat_zero, hset, hw1, Int.toNat_natCast, c18logic, parse_comp.St.set_u, parse_comp.St.set_m]
              · intro _
                exact ⟨by omega, hok.mask hl02.1 _ rfl hm3 1 (by omega) (by omega) _ rfl _ hnol⟩
            · -- second mask character: the mask is complete
              have hl1' : s.l = 1 := by omega
              obtain ⟨r1, hr1⟩ := strcmp3 x c0 78 78 (by decide) (by decide)
              obtain ⟨r2, hr2⟩ := strcmp3 x c0 69 67 (by decide) (by decide)
              have hI : ∃ I : Int, I = (((s.len % 4294967296) - (1 % 4294967296)) % 4294967296) := ⟨_, rfl⟩
              obtain ⟨I, hI⟩ := hI
              have hbody : ∃ (sm : Int) (g : Bool) (u' : Nat) (m' : Int), parse_comp.loop3.body (fuel + 1) s = { s with
                    u := (u' : Int), c_ := c0, m := m', l := 2, stype := s.stype, smask := [x, c0, 0], i := I,
                    n_objs := s.n_objs.set 0 (s.n_objs.getD 0 0 - 1), comp_szip_mode := sm, gto := g } ∧ (g = false → u' = p + 1 ∧ m' = s.m + 1) := by
                rcases s with ⟨obj_list, i, u, c_, len, j, m, n_, k, end_obj, no_param, l, szm, info, ty, str, n_objs, obj, scomp, stype, smask, blk, ub, oof, ret, retnull, done, gto⟩
                simp only at hstr hl hu hd hg hget0 hget1 hA0 hA1 hm0 hm4 hstl hsml hnol hl1 hm5 hl1' hxyz hI
                subst hu hd hg hl hl1' hxyz
                have hm5' : ¬ (m ≥ 5 - 1) := by omega
                have h1n : ¬ ((1 : Int) = -1) := by decide
                have h13 : ¬ ((1 : Int) ≥ 3 - 1) := by decide
                have h1s : (0 : Int) ≤ 1 ∧ (1 : Int) < (([x, y, z] : List Int).length : Int) := by simp
                have h11 : (1 : Int) + 1 = 2 := rfl
                have h2s : (0 : Int) ≤ 2 ∧ (2 : Int) < (([x, c0, z] : List Int).length : Int) := by simp
                have ht1 : Int.toNat 1 = 1 := rfl
                have ht2 : Int.toNat 2 = 2 := rfl
                have hz : ((0 : Int) + 128) % 256 - 128 = 0 := by decide
                have hset1 : ([x, y, z] : List Int).set 1 c0 = [x, c0, z] := rfl
                have hset2 : ([x, c0, z] : List Int).set 2 0 = [x, c0, 0] := rfl
                by_cases e1 : r1 = 0
                · refine ⟨0, false, p + 1, m + 1, ?_, fun _ => ⟨rfl, rfl⟩⟩
                  simp only [parse_comp.loop3.body, parse_comp.chk, hA0, hget0, eq_false hK, hmod0, eq_false h1n, eq_false hm5', eq_false h13, h1s, h11, h2s, ht1, ht2, hz,
                    hset1, hset2, hr1, e1, ← hI, hnol, Int.toNat_zero, Option.isSome_some, Option.getD_some, hw1, Int.toNat_natCast, c18logic,
                    parse_comp.St.set_u, parse_comp.St.set_m, parse_comp.St.set_comp_szip_mode]
                · by_cases e2 : r2 = 0
                  · refine ⟨1, false, p + 1, m + 1, ?_, fun _ => ⟨rfl, rfl⟩⟩
                    simp only [parse_comp.loop3.body, parse_comp.chk, hA0, hget0, eq_false hK, hmod0, eq_false h1n, eq_false hm5', eq_false h13, h1s, h11, h2s, ht1, ht2, hz,
                      hset1, hset2, hr1, eq_false e1, hr2, e2, ← hI, hnol, Int.toNat_zero, Option.isSome_some, Option.getD_some, hw1, Int.toNat_natCast, c18logic,
                      parse_comp.St.set_u, parse_comp.St.set_m, parse_comp.St.set_comp_szip_mode]
                  · refine ⟨szm, true, p, m, ?_, fun h => by simp at h⟩
                    simp only [parse_comp.loop3.body, parse_comp.chk, hA0, hget0, eq_false hK, hmod0, eq_false h1n, eq_false hm5', eq_false h13, h1s, h11, h2s, ht1, ht2, hz,
                      hset1, hset2, hr1, eq_false e1, hr2, eq_false e2, ← hI, hnol, Int.toNat_zero, Option.isSome_some, Option.getD_some, Int.toNat_natCast, c18logic,
                      parse_comp.St.set_gto]
              obtain ⟨sm, g, u', m', hb, hgf⟩ := hbody
              refine cont u' c0 m' 2 s.stype [x, c0, 0] I (s.n_objs.set 0 (s.n_objs.getD 0 0 - 1)) sm g hb ?_
              intro hg0
              obtain ⟨rfl, rfl⟩ := hgf hg0
              exact ⟨by omega, hok.mask hl02.1 _ rfl hm3 2 (by omega) (by omega) _ rfl _ (by rw [List.length_set]; exact hnol)⟩

/-! ### parse_comp, loop 2: pieces of the body (copies of the generated text; `comp_body_pieces` ties them to it) -/

/-- `parse_comp`, loop 2, up to the store into `scomp[]` (copy of the generated text) -/
def cpPre (s : parse_comp.St) : parse_comp.St :=
  have s : parse_comp.St := parse_comp.chk s (0 ≤ s.i ∧ s.i < s.str.length)
  have s : parse_comp.St := parse_comp.St.set_c_ s ((s.str.getD (Int.toNat (s.i)) 0))
  have s : parse_comp.St := if (s.k ≥ (10 - 1)) then
      have s : parse_comp.St := parse_comp.St.set_gto s (true)
      s
    else
      s
  have s : parse_comp.St := if s.done ∨ s.gto then s else
    have s : parse_comp.St := parse_comp.chk s (0 ≤ s.k ∧ s.k < s.scomp.length)
    have s : parse_comp.St := parse_comp.St.set_scomp s (s.scomp.set (Int.toNat (s.k)) (s.c_))
    s
  s

/-- ... the branch `c == ' '` (parameter scanners, `atoi`) / last character (`no_param`) -/
def cpA (fuel : Nat) (s : parse_comp.St) : parse_comp.St :=
  have s : parse_comp.St := if (s.c_ = 32) then
      have s : parse_comp.St := parse_comp.chk s (0 ≤ s.k ∧ s.k < s.scomp.length)
      have s : parse_comp.St := parse_comp.St.set_scomp s (s.scomp.set (Int.toNat (s.k)) ((((0) + 128) % 256 - 128)))
      have s : parse_comp.St := parse_comp.chk s ((strcmpC s.scomp ([83, 90, 73, 80, 0] : List Int)).isSome = true)
      have s : parse_comp.St := if (((strcmpC s.scomp ([83, 90, 73, 80, 0] : List Int)).getD 0) = 0) then
          have s : parse_comp.St := parse_comp.St.set_l s ((- 1))
          have s : parse_comp.St := parse_comp.St.set_m s (0)
          have s : parse_comp.St := parse_comp.St.set_u s ((((s.i + ((1) % 4294967296))) % 4294967296))
          have s : parse_comp.St := parse_comp.loop3 fuel s
          s
        else
          have s : parse_comp.St := parse_comp.St.set_m s (0)
          have s : parse_comp.St := parse_comp.St.set_u s ((((s.i + ((1) % 4294967296))) % 4294967296))
          have s : parse_comp.St := parse_comp.loop4 fuel s
          s
      have s : parse_comp.St := if s.done ∨ s.gto then s else
        have s : parse_comp.St := parse_comp.chk s (0 ≤ s.m ∧ s.m < s.stype.length)
        have s : parse_comp.St := parse_comp.St.set_stype s (s.stype.set (Int.toNat (s.m)) ((((0) + 128) % 256 - 128)))
        s
      have s : parse_comp.St := if s.done ∨ s.gto then s else
        have s : parse_comp.St := parse_comp.chk s ((atoiC s.stype).isSome = true)
        have s : parse_comp.St := parse_comp.St.set_comp_info s (((atoiC s.stype).getD 0))
        s
      have s : parse_comp.St := if s.done ∨ s.gto then s else
        have s : parse_comp.St := parse_comp.St.set_i s ((((s.i + ((s.m) % 4294967296))) % 4294967296))
        s
      s
    else
      have s : parse_comp.St := if (s.i = (((s.len - ((1) % 18446744073709551616))) % 18446744073709551616)) then
          have s : parse_comp.St := parse_comp.chk s (0 ≤ (s.k + 1) ∧ (s.k + 1) < s.scomp.length)
          have s : parse_comp.St := parse_comp.St.set_scomp s (s.scomp.set (Int.toNat ((s.k + 1))) ((((0) + 128) % 256 - 128)))
          have s : parse_comp.St := parse_comp.St.set_no_param s (1)
          s
        else
          s
      s
  s

/-- ... the `strcmp(scomp, …)` chain -/
def cpB (s : parse_comp.St) : parse_comp.St :=
  have s : parse_comp.St := if s.done ∨ s.gto then s else
    have s : parse_comp.St := parse_comp.chk s ((strcmpC s.scomp ([78, 79, 78, 69, 0] : List Int)).isSome = true)
    have s : parse_comp.St := if (((strcmpC s.scomp ([78, 79, 78, 69, 0] : List Int)).getD 0) = 0) then
        have s : parse_comp.St := parse_comp.St.set_comp_type s (((0) % 4294967296))
        s
      else
        have s : parse_comp.St := parse_comp.chk s ((strcmpC s.scomp ([82, 76, 69, 0] : List Int)).isSome = true)
        have s : parse_comp.St := if (((strcmpC s.scomp ([82, 76, 69, 0] : List Int)).getD 0) = 0) then
            have s : parse_comp.St := parse_comp.St.set_comp_type s (((1) % 4294967296))
            have s : parse_comp.St := if (s.m > 0) then
                have s : parse_comp.St := parse_comp.St.set_gto s (true)
                s
              else
                s
            s
          else
            have s : parse_comp.St := parse_comp.chk s ((strcmpC s.scomp ([72, 85, 70, 70, 0] : List Int)).isSome = true)
            have s : parse_comp.St := if (((strcmpC s.scomp ([72, 85, 70, 70, 0] : List Int)).getD 0) = 0) then
                have s : parse_comp.St := parse_comp.St.set_comp_type s (((3) % 4294967296))
                have s : parse_comp.St := if (s.no_param ≠ 0) then
                    have s : parse_comp.St := parse_comp.St.set_gto s (true)
                    s
                  else
                    s
                s
              else
                have s : parse_comp.St := parse_comp.chk s ((strcmpC s.scomp ([71, 90, 73, 80, 0] : List Int)).isSome = true)
                have s : parse_comp.St := if (((strcmpC s.scomp ([71, 90, 73, 80, 0] : List Int)).getD 0) = 0) then
                    have s : parse_comp.St := parse_comp.St.set_comp_type s (((4) % 4294967296))
                    have s : parse_comp.St := if (s.no_param ≠ 0) then
                        have s : parse_comp.St := parse_comp.St.set_gto s (true)
                        s
                      else
                        s
                    s
                  else
                    have s : parse_comp.St := parse_comp.chk s ((strcmpC s.scomp ([74, 80, 69, 71, 0] : List Int)).isSome = true)
                    have s : parse_comp.St := if (((strcmpC s.scomp ([74, 80, 69, 71, 0] : List Int)).getD 0) = 0) then
                        have s : parse_comp.St := parse_comp.St.set_comp_type s (((7) % 4294967296))
                        have s : parse_comp.St := if (s.no_param ≠ 0) then
                            have s : parse_comp.St := parse_comp.St.set_gto s (true)
                            s
                          else
                            s
                        s
                      else
                        have s : parse_comp.St := parse_comp.chk s ((strcmpC s.scomp ([83, 90, 73, 80, 0] : List Int)).isSome = true)
                        have s : parse_comp.St := if (((strcmpC s.scomp ([83, 90, 73, 80, 0] : List Int)).getD 0) = 0) then
                            have s : parse_comp.St := parse_comp.St.set_gto s (true)
                            s
                          else
                            have s : parse_comp.St := parse_comp.St.set_gto s (true)
                            s
                        s
                    s
                s
            s
        s
    s
  s

/-- ... the loop increment -/
def cpPost (s : parse_comp.St) : parse_comp.St :=
  have s : parse_comp.St := if s.done ∨ s.gto then s else
    have s : parse_comp.St := parse_comp.St.set_i s ((((s.i + 1)) % 4294967296))
    have s : parse_comp.St := parse_comp.St.set_k s ((s.k + 1))
    s
  s

/-- the six `strcmp(scomp, "<coder>")` of the chain on a buffer that holds the token `tok` and its NUL -/
theorem chain_cmps (tok junk : List Int) (h : CStr tok) :
    ∃ r0 r1 r2 r3 r4 r5 : Int,
      (strcmpC (tok ++ 0 :: junk) [78, 79, 78, 69, 0] = some r0 ∧ (r0 = 0 ↔ toStr tok = "NONE".toList)) ∧
      (strcmpC (tok ++ 0 :: junk) [82, 76, 69, 0] = some r1 ∧ (r1 = 0 ↔ toStr tok = "RLE".toList)) ∧
      (strcmpC (tok ++ 0 :: junk) [72, 85, 70, 70, 0] = some r2 ∧ (r2 = 0 ↔ toStr tok = "HUFF".toList)) ∧
      (strcmpC (tok ++ 0 :: junk) [71, 90, 73, 80, 0] = some r3 ∧ (r3 = 0 ↔ toStr tok = "GZIP".toList)) ∧
      (strcmpC (tok ++ 0 :: junk) [74, 80, 69, 71, 0] = some r4 ∧ (r4 = 0 ↔ toStr tok = "JPEG".toList)) ∧
      (strcmpC (tok ++ 0 :: junk) [83, 90, 73, 80, 0] = some r5 ∧ (r5 = 0 ↔ toStr tok = "SZIP".toList)) := by
  obtain ⟨r0, h0, e0⟩ := strcmp_buf tok junk h [78, 79, 78, 69] (by decide)
  obtain ⟨r1, h1, e1⟩ := strcmp_buf tok junk h [82, 76, 69] (by decide)
  obtain ⟨r2, h2, e2⟩ := strcmp_buf tok junk h [72, 85, 70, 70] (by decide)
  obtain ⟨r3, h3, e3⟩ := strcmp_buf tok junk h [71, 90, 73, 80] (by decide)
  obtain ⟨r4, h4, e4⟩ := strcmp_buf tok junk h [74, 80, 69, 71] (by decide)
  obtain ⟨r5, h5, e5⟩ := strcmp_buf tok junk h [83, 90, 73, 80] (by decide)
  have l0 : toStr ([78, 79, 78, 69] : List Int) = "NONE".toList := by decide
  have l1 : toStr ([82, 76, 69] : List Int) = "RLE".toList := by decide
  have l2 : toStr ([72, 85, 70, 70] : List Int) = "HUFF".toList := by decide
  have l3 : toStr ([71, 90, 73, 80] : List Int) = "GZIP".toList := by decide
  have l4 : toStr ([74, 80, 69, 71] : List Int) = "JPEG".toList := by decide
  have l5 : toStr ([83, 90, 73, 80] : List Int) = "SZIP".toList := by decide
  exact ⟨r0, r1, r2, r3, r4, r5, ⟨h0, by rw [e0, l0]⟩, ⟨h1, by rw [e1, l1]⟩, ⟨h2, by rw [e2, l2]⟩, ⟨h3, by rw [e3, l3]⟩, ⟨h4, by rw [e4, l4]⟩, ⟨h5, by rw [e5, l5]⟩⟩


/-- **the `strcmp(scomp, …)` chain** computes the model's `compOfName` on the token in `scomp[]`; no `strcmp` leaves the buffer -/
theorem cpB_spec (s : parse_comp.St) (tok junk : List Int) (hsc : s.scomp = tok ++ 0 :: junk) (htok : CStr tok)
    (hd : s.done = false) (hg : s.gto = false) :
    ∃ ty g, cpB s = { s with comp_type := ty, gto := g } ∧
      (match compOfName (toStr tok) s.m.toNat (decide (s.no_param ≠ 0)) s.comp_info with
       | none => g = true
       | some c => g = false ∧ ty = c.type) := by
  obtain ⟨r0, r1, r2, r3, r4, r5, ⟨h0, e0⟩, ⟨h1, e1⟩, ⟨h2, e2⟩, ⟨h3, e3⟩, ⟨h4, e4⟩, ⟨h5, e5⟩⟩ := chain_cmps tok junk htok
  rcases s with ⟨obj_list, i, u, c_, len, j, m, n_, k, end_obj, no_param, l, szm, info, ty, str, n_objs, obj, scomp, stype, smask, blk, ub, oof, ret, retnull, done, gto⟩
  simp only at hsc hd hg
  subst hsc hd hg
  have hm : (m.toNat > 0) ↔ m > 0 := by omega
  by_cases c0 : r0 = 0
  · refine ⟨0, false, ?_, ?_⟩
    · simp only [cpB, parse_comp.chk, h0, eq_true c0, Option.isSome_some, Option.getD_some, Int.reduceMod, c18logic, parse_comp.St.set_comp_type]
    · simp [compOfName, e0.mp c0, COMP_CODE_NONE]
  have n0 := mt e0.mpr c0
  by_cases c1 : r1 = 0
  · by_cases hmp : m > 0
    · refine ⟨1, true, ?_, ?_⟩
      · simp only [cpB, parse_comp.chk, h0, eq_false c0, h1, eq_true c1, eq_true hmp, Option.isSome_some, Option.getD_some, Int.reduceMod, c18logic,
          parse_comp.St.set_comp_type, parse_comp.St.set_gto]
      · have : m.toNat > 0 := hm.mpr hmp
        simp [compOfName, e1.mp c1, this]
    · refine ⟨1, false, ?_, ?_⟩
      · simp only [cpB, parse_comp.chk, h0, eq_false c0, h1, eq_true c1, eq_false hmp, Option.isSome_some, Option.getD_some, Int.reduceMod, c18logic,
          parse_comp.St.set_comp_type]
      · have : ¬ m.toNat > 0 := fun h => hmp (hm.mp h)
        simp [compOfName, e1.mp c1, this, COMP_CODE_RLE]
  have n1 := mt e1.mpr c1
  -- HUFF / GZIP / JPEG: the coders that must have a parameter
  by_cases c2 : r2 = 0
  · by_cases hnp : no_param ≠ 0
    · refine ⟨3, true, ?_, ?_⟩
      · simp only [cpB, parse_comp.chk, h0, eq_false c0, h1, eq_false c1, h2, eq_true c2, eq_true hnp, Option.isSome_some, Option.getD_some, Int.reduceMod, c18logic,
          parse_comp.St.set_comp_type, parse_comp.St.set_gto]
      · simp [compOfName, e2.mp c2, hnp]
    · refine ⟨3, false, ?_, ?_⟩
      · simp only [cpB, parse_comp.chk, h0, eq_false c0, h1, eq_false c1, h2, eq_true c2, eq_false hnp, Option.isSome_some, Option.getD_some, Int.reduceMod, c18logic,
          parse_comp.St.set_comp_type]
      · simp [compOfName, e2.mp c2, hnp, COMP_CODE_SKPHUFF]
  have n2 := mt e2.mpr c2
  by_cases c3 : r3 = 0
  · by_cases hnp : no_param ≠ 0
    · refine ⟨4, true, ?_, ?_⟩
      · simp only [cpB, parse_comp.chk, h0, eq_false c0, h1, eq_false c1, h2, eq_false c2, h3, eq_true c3, eq_true hnp, Option.isSome_some, Option.getD_some, Int.reduceMod, c18logic,
          parse_comp.St.set_comp_type, parse_comp.St.set_gto]
      · simp [compOfName, e3.mp c3, hnp]
    · refine ⟨4, false, ?_, ?_⟩
      · simp only [cpB, parse_comp.chk, h0, eq_false c0, h1, eq_false c1, h2, eq_false c2, h3, eq_true c3, eq_false hnp, Option.isSome_some, Option.getD_some, Int.reduceMod, c18logic,
          parse_comp.St.set_comp_type]
      · simp [compOfName, e3.mp c3, hnp, COMP_CODE_DEFLATE]
  have n3 := mt e3.mpr c3
  by_cases c4 : r4 = 0
  · by_cases hnp : no_param ≠ 0
    · refine ⟨7, true, ?_, ?_⟩
      · simp only [cpB, parse_comp.chk, h0, eq_false c0, h1, eq_false c1, h2, eq_false c2, h3, eq_false c3, h4, eq_true c4, eq_true hnp, Option.isSome_some, Option.getD_some, Int.reduceMod, c18logic,
          parse_comp.St.set_comp_type, parse_comp.St.set_gto]
      · simp [compOfName, e4.mp c4, hnp]
    · refine ⟨7, false, ?_, ?_⟩
      · simp only [cpB, parse_comp.chk, h0, eq_false c0, h1, eq_false c1, h2, eq_false c2, h3, eq_false c3, h4, eq_true c4, eq_false hnp, Option.isSome_some, Option.getD_some, Int.reduceMod, c18logic,
          parse_comp.St.set_comp_type]
      · simp [compOfName, e4.mp c4, hnp, COMP_CODE_JPEG]
  have n4 := mt e4.mpr c4
  -- "SZIP" (not available in this build) and everything else: `goto out`
  refine ⟨ty, true, ?_, ?_⟩
  · by_cases c5 : r5 = 0
    · simp only [cpB, parse_comp.chk, h0, eq_false c0, h1, eq_false c1, h2, eq_false c2, h3, eq_false c3, h4, eq_false c4, h5, eq_true c5, Option.isSome_some, Option.getD_some, c18logic,
        parse_comp.St.set_gto]
    · simp only [cpB, parse_comp.chk, h0, eq_false c0, h1, eq_false c1, h2, eq_false c2, h3, eq_false c3, h4, eq_false c4, h5, eq_false c5, Option.isSome_some, Option.getD_some, c18logic,
        parse_comp.St.set_gto]
  · rw [compOfName, if_neg n0, if_neg n1, if_neg n2, if_neg n3, if_neg n4]


theorem comp_loop4' (bs rest : List Int) (hlen : bs.length < 2 ^ 31) (rem pre ds sj : List Int) (s L : parse_comp.St) (fuel : Nat)
    (hL : parse_comp.loop4 fuel s = L) (hbs : bs = pre ++ rem)
    (hstr : s.str = bs ++ 0 :: rest) (hl : s.len = bs.length) (hu : s.u = pre.length) (hm : s.m = ds.length) (hst : s.stype = ds ++ sj)
    (hsl : ds.length + sj.length = 5) (h4 : ds.length ≤ 4) (hrem : ∀ c ∈ rem, IsChar c ∧ c ≠ 0) (hf : rem.length ≤ fuel)
    (hd : s.done = false) (hg : s.gto = false) :
    ∃ u c m stype g, L = { s with u := u, c_ := c, m := m, stype := stype, gto := g } ∧
      (if (toStr rem).all Char.isDigit = true ∧ ds.length + rem.length ≤ 4 then
         g = false ∧ m = ((ds.length + rem.length : Nat) : Int) ∧ ∃ sj', stype = (ds ++ rem) ++ sj' ∧ (ds ++ rem).length + sj'.length = 5
       else g = true) := by
  subst hL; exact comp_loop4 bs rest hlen rem pre ds sj s fuel hbs hstr hl hu hm hst hsl h4 hrem hf hd hg

theorem comp_loop3' (bs rest : List Int) (hbs : CStr bs) (hlen : bs.length < 2 ^ 31) (n : Nat) (s L : parse_comp.St) (fuel p : Nat)
    (hL : parse_comp.loop3 fuel s = L) (hstr : s.str = bs ++ 0 :: rest) (hl : s.len = bs.length) (hu : s.u = p) (hn : bs.length + 1 - p ≤ n) (hf : n ≤ fuel)
    (hok : SzOK s.m s.l s.stype s.smask s.n_objs) (hd : s.done = false) (hg : s.gto = false) :
    ∃ u c m l stype smask i nobjs sm g, L = { s with
        u := u, c_ := c, m := m, l := l, stype := stype, smask := smask, i := i, n_objs := nobjs, comp_szip_mode := sm, gto := g } ∧
      (g = false → SzOK m l stype smask nobjs) := by
  subst hL; exact comp_loop3 bs rest hbs hlen n s fuel p hstr hl hu hn hf hok hd hg

/-- the last character of the string (not a blank): the token is closed, `no_param = 1` -/
theorem cpA_last (fuel : Nat) (s : parse_comp.St) (bs : List Int) (hlen : bs.length < 2 ^ 31) (pre sc jr : List Int) (b : Int)
    (hl : s.len = bs.length) (hi : s.i = pre.length) (hlast : pre.length + 1 = bs.length) (hc32 : s.c_ ≠ 32)
    (hk : s.k = sc.length) (hsc : s.scomp = (sc ++ [s.c_]) ++ b :: jr) (hscl : s.scomp.length = 10) :
    cpA fuel s = { s with scomp := (sc ++ [s.c_]) ++ 0 :: jr, no_param := 1 } := by
  rcases s with ⟨obj_list, i, u, c, len, j, m, n_, k, end_obj, no_param, l, szm, info, ty, str, n_objs, obj, scomp, stype, smask, blk, ub, oof, ret, retnull, done, gto⟩
  simp only at hl hi hc32 hk hsc hscl
  subst hl hi hk hsc
  have hlm : ((bs.length : Int) - 1 % 18446744073709551616) % 18446744073709551616 = (bs.length : Int) - 1 := by omega
  have ha3 : (pre.length : Int) = (bs.length : Int) - 1 := by omega
  have hA2 : (0 : Int) ≤ (sc.length : Int) + 1 ∧ (sc.length : Int) + 1 < (((sc ++ [c]) ++ b :: jr).length : Int) := by
    simp at hscl ⊢; omega
  have hz : ((0 : Int) + 128) % 256 - 128 = 0 := by decide
  have hset : ((sc ++ [c]) ++ b :: jr).set (sc.length + 1) 0 = (sc ++ [c]) ++ 0 :: jr := by simp
  simp only [cpA, parse_comp.chk, eq_false hc32, hlm, eq_true ha3, hA2, hz, Int.toNat_natCast_add_one, hset, c18logic,
    parse_comp.St.set_no_param, parse_comp.St.set_scomp]


/-- a blank after a coder name other than SZIP: the rest of the string must be at most 4 digits; `comp->info = atoi(...)`, `i` jumps to the end -/
theorem cpA_space_digits (fuel : Nat) (s : parse_comp.St) (bs rest : List Int) (hlen : bs.length < 2 ^ 31) (pre rem sc jr : List Int) (b : Int)
    (hbs : bs = pre ++ 32 :: rem) (hstr : s.str = bs ++ 0 :: rest) (hl : s.len = bs.length) (hi : s.i = pre.length) (hc : s.c_ = 32)
    (hk : s.k = sc.length) (hsc : s.scomp = (sc ++ [32]) ++ b :: jr) (hscl : s.scomp.length = 10) (hcsc : CStr sc)
    (hnsz : toStr sc ≠ "SZIP".toList) (hstl : s.stype.length = 5) (hrem : ∀ c ∈ rem, IsChar c ∧ c ≠ 0) (hf : rem.length ≤ fuel)
    (hd : s.done = false) (hg : s.gto = false) :
    ∃ u c' m stype info i' g, cpA fuel s = { s with
        scomp := sc ++ 0 :: b :: jr, m := m, u := u, c_ := c', stype := stype, comp_info := info, i := i', gto := g } ∧
      (if (toStr rem).all Char.isDigit = true ∧ rem.length ≤ 4 then
         g = false ∧ m = ((rem.length : Nat) : Int) ∧ info = ((atoi (toStr rem) : Nat) : Int) ∧ i' = ((pre.length + rem.length : Nat) : Int)
       else g = true) := by
  obtain ⟨r5, h5, e5⟩ := strcmp_buf sc (b :: jr) hcsc [83, 90, 73, 80] (by decide)
  have l5 : toStr ([83, 90, 73, 80] : List Int) = "SZIP".toList := by decide
  rw [l5] at e5
  simp only [List.cons_append, List.nil_append] at h5
  have c5 : ¬ r5 = 0 := fun h => hnsz (e5.mp h)
  rcases s with ⟨obj_list, i, u, c, len, j, m, n_, k, end_obj, no_param, l, szm, info, ty, str, n_objs, obj, scomp, stype, smask, blk, ub, oof, ret, retnull, done, gto⟩
  simp only at hstr hl hi hc hk hsc hscl hstl hd hg
  subst hstr hl hi hc hk hsc hd hg
  have hA2 : (0 : Int) ≤ (sc.length : Int) ∧ (sc.length : Int) < (((sc ++ [32]) ++ b :: jr).length : Int) := by simp at hscl ⊢; omega
  have hz : ((0 : Int) + 128) % 256 - 128 = 0 := by decide
  have hset : ((sc ++ [32]) ++ b :: jr).set sc.length 0 = sc ++ 0 :: b :: jr := by simp
  have hp31 : pre.length < 2 ^ 31 := by rw [hbs] at hlen; simp at hlen; omega
  have hw : ((pre.length : Int) + 1 % 4294967296) % 4294967296 = ((pre.length + 1 : Nat) : Int) := by omega
  have h32 : (32 : Int) = 32 := rfl
  simp only [cpA, parse_comp.chk, hA2, hz, Int.toNat_natCast, hset, h5, Option.isSome_some, Option.getD_some, eq_false c5, hw, c18logic,
    parse_comp.St.set_m, parse_comp.St.set_u]
  generalize hL : parse_comp.loop4 fuel _ = L
  obtain ⟨u', c', m', st', g', hrun, hres⟩ := comp_loop4' bs rest hlen rem (pre ++ [32]) [] stype _ L fuel hL
    (by simp [hbs]) rfl rfl (by simp) rfl rfl (by simpa using hstl) (by simp) hrem hf rfl rfl
  clear hL
  simp only [List.length_nil, Nat.zero_add, List.nil_append] at hres
  by_cases hok : (toStr rem).all Char.isDigit = true ∧ rem.length ≤ 4
  · rw [if_pos hok] at hres
    obtain ⟨rfl, rfl, sj', rfl, hsj⟩ := hres
    obtain ⟨a1, jr1, rfl⟩ : ∃ a1 jr1, sj' = a1 :: jr1 := by
      match sj', hsj with
      | [], h => simp at h; omega
      | a1 :: jr1, _ => exact ⟨a1, jr1, rfl⟩
    have hdig : Digits rem := by
      intro x hx
      have := (hrem x hx).1
      have hd' : (toChar x).isDigit = true := by
        have := List.all_eq_true.mp hok.1 (toChar x) (by simp [toStr]; exact ⟨x, hx, rfl⟩)
        exact this
      exact (toChar_isDigit' this).mp hd'
    have hatoi := atoiC_spec rem jr1 hdig.tok (by omega)
    have hA3 : (0 : Int) ≤ (rem.length : Int) ∧ (rem.length : Int) < ((rem ++ a1 :: jr1).length : Int) := by simp; omega
    have hset2 : (rem ++ a1 :: jr1).set rem.length 0 = rem ++ 0 :: jr1 := by simp
    have hw2 : ((pre.length : Int) + (rem.length : Int) % 4294967296) % 4294967296 = ((pre.length + rem.length : Nat) : Int) := by
      have : pre.length + rem.length < 2 ^ 31 := by rw [hbs] at hlen; simp at hlen; omega
      omega
    refine ⟨u', c', ((rem.length : Nat) : Int), rem ++ 0 :: jr1, ((atoi (toStr rem) : Nat) : Int), ((pre.length + rem.length : Nat) : Int), false, ?_,
      by rw [if_pos hok]; exact ⟨rfl, rfl, rfl, rfl⟩⟩
    rw [hrun]
    simp only [parse_comp.chk, hA3, hz, Int.toNat_natCast, hset2, hatoi, Option.isSome_some, Option.getD_some, hw2, c18logic,
      parse_comp.St.set_stype, parse_comp.St.set_comp_info, parse_comp.St.set_i]
  · rw [if_neg hok] at hres
    subst hres
    refine ⟨u', c', m', st', info, (pre.length : Int), true, ?_, by rw [if_neg hok]⟩
    rw [hrun]
    simp only [c18logic]


/-- a blank after `SZIP`: the szip scanner runs (inside its buffers), `atoi(stype)` stays inside `stype`; the token in `scomp[]` is untouched -/
theorem cpA_space_szip (fuel : Nat) (s : parse_comp.St) (bs rest : List Int) (hcbs : CStr bs) (hlen : bs.length < 2 ^ 31) (pre rem sc jr : List Int) (b : Int)
    (hbs : bs = pre ++ 32 :: rem) (hstr : s.str = bs ++ 0 :: rest) (hl : s.len = bs.length) (hi : s.i = pre.length) (hc : s.c_ = 32)
    (hk : s.k = sc.length) (hsc : s.scomp = (sc ++ [32]) ++ b :: jr) (hscl : s.scomp.length = 10) (hcsc : CStr sc)
    (hsz : toStr sc = "SZIP".toList) (hstl : s.stype.length = 5) (hsml : s.smask.length = 3) (hnol : 0 < s.n_objs.length) (hf : rem.length + 1 ≤ fuel)
    (hd : s.done = false) (hg : s.gto = false) :
    ∃ u c' m l stype smask i' nobjs sm info g, cpA fuel s = { s with
        scomp := sc ++ 0 :: b :: jr, l := l, m := m, u := u, c_ := c', stype := stype, smask := smask, i := i', n_objs := nobjs,
        comp_szip_mode := sm, comp_info := info, gto := g } := by
  obtain ⟨r5, h5, e5⟩ := strcmp_buf sc (b :: jr) hcsc [83, 90, 73, 80] (by decide)
  have l5 : toStr ([83, 90, 73, 80] : List Int) = "SZIP".toList := by decide
  rw [l5] at e5
  simp only [List.cons_append, List.nil_append] at h5
  have c5 : r5 = 0 := e5.mpr hsz
  rcases s with ⟨obj_list, i, u, c, len, j, m, n_, k, end_obj, no_param, l, szm, info, ty, str, n_objs, obj, scomp, stype, smask, blk, ub, oof, ret, retnull, done, gto⟩
  simp only at hstr hl hi hc hk hsc hscl hstl hsml hnol hd hg
  subst hstr hl hi hc hk hsc hd hg
  have hA2 : (0 : Int) ≤ (sc.length : Int) ∧ (sc.length : Int) < (((sc ++ [32]) ++ b :: jr).length : Int) := by simp at hscl ⊢; omega
  have hz : ((0 : Int) + 128) % 256 - 128 = 0 := by decide
  have hset : ((sc ++ [32]) ++ b :: jr).set sc.length 0 = sc ++ 0 :: b :: jr := by simp
  have hp31 : pre.length < 2 ^ 31 := by rw [hbs] at hlen; simp at hlen; omega
  have hw : ((pre.length : Int) + 1 % 4294967296) % 4294967296 = ((pre.length + 1 : Nat) : Int) := by omega
  simp only [cpA, parse_comp.chk, hA2, hz, Int.toNat_natCast, hset, h5, Option.isSome_some, Option.getD_some, eq_true c5, hw, c18logic,
    parse_comp.St.set_m, parse_comp.St.set_u, parse_comp.St.set_l]
  generalize hL : parse_comp.loop3 fuel _ = L
  have hok0 : SzOK 0 (-1) stype smask n_objs :=
    ⟨hstl, hsml, by omega, by omega, hnol, Or.inl ⟨rfl, [], rfl, rfl, fun _ h => by simp at h⟩⟩
  obtain ⟨u', c', m', l', st', sk', i', no', sm', g', hrun, hres⟩ := comp_loop3' bs rest hcbs hlen (rem.length + 1) _ L fuel (pre.length + 1) hL
    rfl rfl rfl (by rw [hbs]; simp) hf hok0 rfl rfl
  clear hL
  cases g' with
  | true =>
    refine ⟨u', c', m', l', st', sk', i', no', sm', info, true, ?_⟩
    rw [hrun]
    simp only [c18logic]
  | false =>
    obtain ⟨hmb, v, hv⟩ := (hres rfl).atoi
    refine ⟨u', c', m', l', st'.set m'.toNat 0, sk', (i' + m' % 4294967296) % 4294967296, no', sm', v, false, ?_⟩
    rw [hrun]
    simp only [parse_comp.chk, hmb, hz, hv, Option.isSome_some, Option.getD_some, c18logic,
      parse_comp.St.set_stype, parse_comp.St.set_comp_info, parse_comp.St.set_i]


/-- one pass of loop 2 in terms of the pieces -/
def cpBody (fuel : Nat) (s : parse_comp.St) : parse_comp.St :=
  cpPost (if (cpPre s).done ∨ (cpPre s).gto then cpPre s else
    if ((cpPre s).c_ = 32) ∨ ((cpPre s).i = ((((cpPre s).len - ((1) % 18446744073709551616))) % 18446744073709551616)) then cpB (cpA fuel (cpPre s))
    else cpPre s)

theorem comp_body_pieces (fuel : Nat) (s : parse_comp.St) : parse_comp.loop2.body fuel s = cpBody fuel s := by
  unfold parse_comp.loop2.body
  extract_lets s1 s2 s3 s4 s5 s6 t0 t1 t2 t3 t4 t5 t6 t7 t8 t9 t10 t11 t12 t13 t14 t15 t16 t17 t18 t19 t20 t21 t22 t23 t24 t25 t26 t27 t28 t29 t30 t31 t32 t33 t34 t35 t36 t37 t38 t39 t40 t41 t42 t43 t44 t45 t46 t47 t48 t49 t50 t51 t52 t53 t54 t55 t56
  have hpre : t0 = cpPre s := rfl
  have hA : t24 = cpA fuel t0 := rfl
  have hB : t51 = cpB t24 := rfl
  have hP : t56 = cpPost t53 := rfl
  have h53 : t53 = if t0.done = true ∨ t0.gto = true then t0 else t52 := rfl
  have h52 : t52 = if t0.c_ = 32 ∨ t0.i = (t0.len - 1 % 18446744073709551616) % 18446744073709551616 then t51 else t0 := rfl
  rw [hP, h53, h52, hB, hA, hpre]
  rfl

theorem comp_loop2_stop (fuel : Nat) (s : parse_comp.St) (h : ¬ ((s.i < s.len) ∧ ¬(s.done ∨ s.gto))) : parse_comp.loop2 fuel s = s := by
  cases fuel <;> simp only [parse_comp.loop2, h, if_false]

theorem cpPre_full (s : parse_comp.St) (hA0 : 0 ≤ s.i ∧ s.i < (s.str.length : Int)) (hk : s.k ≥ 10 - 1) (hd : s.done = false) (hg : s.gto = false) :
    cpPre s = { s with c_ := s.str.getD s.i.toNat 0, gto := true } := by
  rcases s with ⟨obj_list, i, u, c, len, j, m, n_, k, end_obj, no_param, l, szm, info, ty, str, n_objs, obj, scomp, stype, smask, blk, ub, oof, ret, retnull, done, gto⟩
  simp only at hA0 hk hd hg
  subst hd hg
  simp only [cpPre, parse_comp.chk, hA0, eq_true hk, c18logic, parse_comp.St.set_gto, parse_comp.St.set_c_]

theorem cpPre_store (s : parse_comp.St) (hA0 : 0 ≤ s.i ∧ s.i < (s.str.length : Int)) (hk : ¬ (s.k ≥ 10 - 1))
    (hA2 : 0 ≤ s.k ∧ s.k < (s.scomp.length : Int)) (hd : s.done = false) (hg : s.gto = false) :
    cpPre s = { s with c_ := s.str.getD s.i.toNat 0, scomp := s.scomp.set s.k.toNat (s.str.getD s.i.toNat 0) } := by
  rcases s with ⟨obj_list, i, u, c, len, j, m, n_, k, end_obj, no_param, l, szm, info, ty, str, n_objs, obj, scomp, stype, smask, blk, ub, oof, ret, retnull, done, gto⟩
  simp only at hA0 hk hA2 hd hg
  subst hd hg
  simp only [cpPre, parse_comp.chk, hA0, eq_false hk, hA2, c18logic, parse_comp.St.set_scomp, parse_comp.St.set_c_]

theorem cpPost_skip (s : parse_comp.St) (h : s.done = true ∨ s.gto = true) : cpPost s = s := by
  simp only [cpPost, h, if_true]

theorem cpPost_step (s : parse_comp.St) (hd : s.done = false) (hg : s.gto = false) :
    cpPost s = { s with i := (s.i + 1) % 4294967296, k := s.k + 1 } := by
  rcases s with ⟨obj_list, i, u, c, len, j, m, n_, k, end_obj, no_param, l, szm, info, ty, str, n_objs, obj, scomp, stype, smask, blk, ub, oof, ret, retnull, done, gto⟩
  simp only at hd hg
  subst hd hg
  simp only [cpPost, c18logic, parse_comp.St.set_i, parse_comp.St.set_k]

theorem cpB_skip (s : parse_comp.St) (h : s.done = true ∨ s.gto = true) : cpB s = s := by
  simp only [cpB, h, if_true]

theorem compOfName_info (t : Str) (m : Nat) (np : Bool) (info : Int) (c : Comp) (h : compOfName t m np info = some c) : c.info = info := by
  unfold compOfName at h
  repeat' split at h
  all_goals first | (simp at h; done) | (simp at h; rw [← h])


theorem compValue_cons (c : Char) (rest sc : Str) : compValue (c :: rest) sc =
    (if sc.length ≥ SCOMP_SZ - 1 then none
    else if c = ' ' then
      if rest.all Char.isDigit && rest.length ≤ STYPE_SZ - 1 && sc ≠ "SZIP".toList then
        compOfName sc rest.length false (atoi rest)
      else none
    else match rest with
      | [] => compOfName (sc ++ [c]) 0 true (-1)
      | _ :: _ => compValue rest (sc ++ [c])) := by
  conv => lhs; unfold compValue
  rfl

/-- **the "get compression type" loop** computes `compValue`; the fields it leaves behind are existentially bound except the outputs -/
theorem comp_loop2 (bs rest : List Int) (hcbs : CStr bs) (hlen : bs.length < 2 ^ 31) :
    ∀ (rem pre sc sj : List Int) (s : parse_comp.St) (fuel : Nat), bs = pre ++ rem → rem ≠ [] →
    s.str = bs ++ 0 :: rest → s.len = bs.length → s.i = pre.length →
    s.k = sc.length → s.scomp = sc ++ sj → sc.length + sj.length = 10 → CStr sc →
    s.m = 0 → s.no_param = 0 → s.comp_info = -1 → s.stype.length = 5 → s.smask.length = 3 → 0 < s.n_objs.length →
    rem.length + 1 ≤ fuel → s.done = false → s.gto = false →
    ∃ i k c scomp m u l stype smask nobjs szm info ty np g, parse_comp.loop2 fuel s = { s with
        i := i, k := k, c_ := c, scomp := scomp, m := m, u := u, l := l, stype := stype, smask := smask, n_objs := nobjs,
        comp_szip_mode := szm, comp_info := info, comp_type := ty, no_param := np, gto := g } ∧
      (match compValue (toStr rem) (toStr sc) with
       | none => g = true
       | some cv => g = false ∧ ty = cv.type ∧ info = cv.info ∧ nobjs = s.n_objs) := by
  intro rem
  induction rem with
  | nil => intro pre sc sj s fuel _ h; exact absurd rfl h
  | cons c cs ih =>
    intro pre sc sj s fuel hbs _ hstr hl hi hk hsc hscl hcsc hm hnp hinfo hstl hsml hnol hf hd hg
    obtain ⟨fuel, rfl⟩ : ∃ f, fuel = f + 1 := ⟨fuel - 1, by omega⟩
    simp only [List.length_cons] at hf
    have hlt : s.i < s.len := by rw [hi, hl, hbs]; simp; omega
    have hb : (pre.length : Int) < s.str.length := by rw [hstr, hbs]; simp; omega
    have hget : s.str.getD s.i.toNat 0 = c := by rw [hi, hstr, hbs]; simp [List.getD_eq_getElem?_getD]
    have hA0 : 0 ≤ s.i ∧ s.i < (s.str.length : Int) := by rw [hi]; exact ⟨by omega, hb⟩
    have hc := hcbs c (by rw [hbs]; simp)
    have hccs : CStr cs := fun x hx => hcbs x (by rw [hbs]; simp [hx])
    have h32 := toChar_eq_ascii hc.1 ' ' 32 rfl (by omega)
    rw [parse_comp.loop2, if_pos ⟨hlt, by simp [hd, hg]⟩, comp_body_pieces]
    unfold cpBody
    by_cases hk9 : sc.length ≥ SCOMP_SZ - 1
    · -- the coder name does not fit in scomp[]
      have hk' : s.k ≥ 10 - 1 := by rw [hk]; simp [SCOMP_SZ] at hk9; omega
      rw [cpPre_full s hA0 hk' hd hg, hget, if_pos (Or.inr rfl), cpPost_skip _ (Or.inr rfl), comp_loop2_stop _ _ (by simp)]
      refine ⟨s.i, s.k, c, s.scomp, s.m, s.u, s.l, s.stype, s.smask, s.n_objs, s.comp_szip_mode, s.comp_info, s.comp_type, s.no_param, true, rfl, ?_⟩
      simp only [toStr_cons]
      rw [compValue_cons, if_pos (by simpa using hk9)]
      trivial
    · have hk8 : sc.length ≤ 8 := by simp [SCOMP_SZ] at hk9; omega
      have hk' : ¬ (s.k ≥ 10 - 1) := by rw [hk]; omega
      obtain ⟨a, b, jr, rfl⟩ : ∃ a b jr, sj = a :: b :: jr := by
        match sj, hscl with
        | [], h => simp at h; omega
        | [_], h => simp at h; omega
        | a :: b :: jr, _ => exact ⟨a, b, jr, rfl⟩
      have hA2 : 0 ≤ s.k ∧ s.k < (s.scomp.length : Int) := by rw [hk, hsc]; simp; omega
      have hsetc : s.scomp.set s.k.toNat c = (sc ++ [c]) ++ b :: jr := by rw [hk, hsc]; simp
      have hscl10 : ((sc ++ [c]) ++ b :: jr).length = 10 := by simp at hscl ⊢; omega
      have hmk9 : ¬ ((toStr sc).length ≥ SCOMP_SZ - 1) := by simpa using hk9
      rw [cpPre_store s hA0 hk' hA2 hd hg, hget, hsetc, if_neg (by simp [hd, hg])]
      have hlm : ((bs.length : Int) - 1 % 18446744073709551616) % 18446744073709551616 = (bs.length : Int) - 1 := by
        have : 1 ≤ bs.length := by rw [hbs]; simp; omega
        omega
      have hlast : s.i = (s.len - 1 % 18446744073709551616) % 18446744073709551616 ↔ cs = [] := by
        rw [hi, hl, hlm, hbs]; cases cs <;> simp <;> omega
      by_cases hsp : c = 32
      · -- a blank: the coder name is complete, a parameter follows
        subst hsp
        have hmsp : toChar 32 = ' ' := by decide
        rw [if_pos (Or.inl rfl)]
        have hmodel : compValue (toStr (32 :: cs)) (toStr sc) =
            if ((toStr cs).all Char.isDigit && decide ((toStr cs).length ≤ STYPE_SZ - 1) && decide (toStr sc ≠ "SZIP".toList)) = true then
              compOfName (toStr sc) (toStr cs).length false (atoi (toStr cs)) else none := by
          simp only [toStr_cons]
          rw [compValue_cons, if_neg hmk9, if_pos hmsp]
        rw [hmodel]
        by_cases hsz : toStr sc = "SZIP".toList
        · -- SZIP: the szip scanner runs, then the request is refused
          have hcond : ¬ (((toStr cs).all Char.isDigit && decide ((toStr cs).length ≤ STYPE_SZ - 1) && decide (toStr sc ≠ "SZIP".toList)) = true) := by
            simp [hsz]
          rw [if_neg hcond]
          obtain ⟨u', c', m', l', st', sk', i', no', sm', info', g', hA⟩ := cpA_space_szip (fuel + 1)
            { s with c_ := 32, scomp := (sc ++ [32]) ++ b :: jr } bs rest hcbs hlen pre cs sc jr b hbs hstr hl hi rfl hk rfl hscl10 hcsc hsz hstl hsml hnol
            (by omega) hd hg
          rw [hA]
          cases g' with
          | true =>
            rw [cpB_skip _ (Or.inr rfl), cpPost_skip _ (Or.inr rfl), comp_loop2_stop _ _ (by simp)]
            exact ⟨i', s.k, c', sc ++ 0 :: b :: jr, m', u', l', st', sk', no', sm', info', s.comp_type, s.no_param, true, rfl, rfl⟩
          | false =>
            obtain ⟨ty, g, hB, hres⟩ := cpB_spec { s with
                c_ := c', scomp := sc ++ 0 :: b :: jr, l := l', m := m', u := u', stype := st', smask := sk', i := i', n_objs := no',
                comp_szip_mode := sm', comp_info := info', gto := false } sc (b :: jr) rfl hcsc hd rfl
            rw [hB]
            have hnone : compOfName (toStr sc) (Int.toNat m') (decide (s.no_param ≠ 0)) info' = none := by
              rw [hsz]; simp [compOfName]
            have hgt : g = true := by
              have := hres; rw [show (compOfName (toStr sc) (Int.toNat m') (decide (s.no_param ≠ 0)) info') = none from hnone] at this; exact this
            subst hgt
            rw [cpPost_skip _ (Or.inr rfl), comp_loop2_stop _ _ (by simp)]
            exact ⟨i', s.k, c', sc ++ 0 :: b :: jr, m', u', l', st', sk', no', sm', info', ty, s.no_param, true, rfl, rfl⟩
        · obtain ⟨u', c', m', st', info', i', g', hA, hresA⟩ := cpA_space_digits (fuel + 1)
            { s with c_ := 32, scomp := (sc ++ [32]) ++ b :: jr } bs rest hlen pre cs sc jr b hbs hstr hl hi rfl hk rfl hscl10 hcsc hsz hstl hccs
            (by omega) hd hg
          rw [hA]
          have hcondiff : (((toStr cs).all Char.isDigit && decide ((toStr cs).length ≤ STYPE_SZ - 1) && decide (toStr sc ≠ "SZIP".toList)) = true) ↔
              ((toStr cs).all Char.isDigit = true ∧ cs.length ≤ 4) := by
            have hsz' : ¬ toStr sc = ['S', 'Z', 'I', 'P'] := hsz
            simp [hsz', STYPE_SZ]
          by_cases hok : (toStr cs).all Char.isDigit = true ∧ cs.length ≤ 4
          · rw [if_pos hok] at hresA
            obtain ⟨rfl, rfl, rfl, rfl⟩ := hresA
            rw [if_pos (hcondiff.mpr hok)]
            obtain ⟨ty, g, hB, hres⟩ := cpB_spec { s with
                c_ := c', scomp := sc ++ 0 :: b :: jr, m := ((cs.length : Nat) : Int), u := u', stype := st',
                comp_info := ((atoi (toStr cs) : Nat) : Int), i := ((pre.length + cs.length : Nat) : Int), gto := false } sc (b :: jr) rfl hcsc hd rfl
            rw [hB]
            have hmod : compOfName (toStr sc) (Int.toNat ((cs.length : Nat) : Int)) (decide (s.no_param ≠ 0)) ((atoi (toStr cs) : Nat) : Int) =
                compOfName (toStr sc) (toStr cs).length false (atoi (toStr cs)) := by
              rw [hnp]; simp
            have hres' : (match compOfName (toStr sc) (toStr cs).length false (atoi (toStr cs)) with
                | none => g = true
                | some cv => g = false ∧ ty = cv.type) := by
              rw [← hmod]; exact hres
            cases g with
            | true =>
              rw [cpPost_skip _ (Or.inr rfl), comp_loop2_stop _ _ (by simp)]
              refine ⟨_, s.k, c', sc ++ 0 :: b :: jr, _, u', s.l, st', s.smask, s.n_objs, s.comp_szip_mode, _, ty, s.no_param, true, rfl, ?_⟩
              cases hco : compOfName (toStr sc) (toStr cs).length false (atoi (toStr cs)) with
              | none => trivial
              | some cv => rw [hco] at hres'; exact absurd hres'.1 (by simp)
            | false =>
              have hplen : pre.length + cs.length + 1 = bs.length := by rw [hbs]; simp; omega
              rw [cpPost_step _ (by exact hd) (by rfl), comp_loop2_stop _ _ (by
                show ¬ (((((pre.length + cs.length : Nat) : Int) + 1) % 4294967296 < s.len) ∧ _)
                rw [hl]; intro h; omega)]
              refine ⟨_, s.k + 1, c', sc ++ 0 :: b :: jr, _, u', s.l, st', s.smask, s.n_objs, s.comp_szip_mode, _, ty, s.no_param, false, rfl, ?_⟩
              cases hco : compOfName (toStr sc) (toStr cs).length false (atoi (toStr cs)) with
              | none => rw [hco] at hres'; exact absurd hres' (by simp)
              | some cv =>
                rw [hco] at hres'
                exact ⟨rfl, hres'.2, by rw [compOfName_info _ _ _ _ _ hco], rfl⟩
          · rw [if_neg hok] at hresA
            subst hresA
            rw [if_neg (fun h => hok (hcondiff.mp h))]
            rw [cpB_skip _ (Or.inr rfl), cpPost_skip _ (Or.inr rfl), comp_loop2_stop _ _ (by simp)]
            exact ⟨i', s.k, c', sc ++ 0 :: b :: jr, m', u', s.l, st', s.smask, s.n_objs, s.comp_szip_mode, info', s.comp_type, s.no_param, true, rfl, rfl⟩
      · have hmsp : ¬ toChar c = ' ' := fun h => hsp (by simpa using h32.mp h)
        by_cases hcse : cs = []
        · -- the last character: the name is complete, no parameter
          subst hcse
          have hplast : pre.length + 1 = bs.length := by rw [hbs]; simp
          rw [if_pos (Or.inr (hlast.mpr rfl))]
          rw [cpA_last (fuel + 1) _ bs hlen pre sc jr b (by exact hl) (by exact hi) hplast (by exact hsp) (by exact hk) (by rfl) (by exact hscl10)]
          obtain ⟨ty, g, hB, hres⟩ := cpB_spec { s with c_ := c, scomp := (sc ++ [c]) ++ 0 :: jr, no_param := 1 } (sc ++ [c]) jr rfl
            (hcsc.append (CStr.single hc.1 hc.2)) hd hg
          rw [hB]
          have hmod : compOfName (toStr (sc ++ [c])) (Int.toNat s.m) (decide ((1 : Int) ≠ 0)) s.comp_info = compOfName (toStr sc ++ [toChar c]) 0 true (-1) := by
            rw [hm, hinfo]; simp
          have hres' : (match compOfName (toStr sc ++ [toChar c]) 0 true (-1) with
              | none => g = true
              | some cv => g = false ∧ ty = cv.type) := by
            rw [← hmod]; exact hres
          have hmodel : compValue (toStr [c]) (toStr sc) = compOfName (toStr sc ++ [toChar c]) 0 true (-1) := by
            simp only [toStr_cons, toStr_nil]
            rw [compValue_cons, if_neg hmk9, if_neg hmsp]
          rw [hmodel]
          cases g with
          | true =>
            rw [cpPost_skip _ (Or.inr rfl), comp_loop2_stop _ _ (by simp)]
            refine ⟨s.i, s.k, c, (sc ++ [c]) ++ 0 :: jr, s.m, s.u, s.l, s.stype, s.smask, s.n_objs, s.comp_szip_mode, s.comp_info, ty, 1, true, rfl, ?_⟩
            cases hco : compOfName (toStr sc ++ [toChar c]) 0 true (-1) with
            | none => trivial
            | some cv => rw [hco] at hres'; exact absurd hres'.1 (by simp)
          | false =>
            rw [cpPost_step _ (by exact hd) (by rfl), comp_loop2_stop _ _ (by
              show ¬ (((s.i + 1) % 4294967296 < s.len) ∧ _)
              rw [hi, hl]; intro h; omega)]
            refine ⟨(s.i + 1) % 4294967296, s.k + 1, c, (sc ++ [c]) ++ 0 :: jr, s.m, s.u, s.l, s.stype, s.smask, s.n_objs, s.comp_szip_mode, s.comp_info, ty, 1, false, rfl, ?_⟩
            cases hco : compOfName (toStr sc ++ [toChar c]) 0 true (-1) with
            | none => rw [hco] at hres'; exact absurd hres' (by simp)
            | some cv =>
              rw [hco] at hres'
              exact ⟨rfl, hres'.2, by rw [compOfName_info _ _ _ _ _ hco]; exact hinfo, rfl⟩
        · -- an ordinary character of the coder name
          rw [if_neg (by rintro (h | h); exact hsp h; exact hcse (hlast.mp h)), cpPost_step _ (by exact hd) (by exact hg)]
          have hw : (s.i + 1) % 4294967296 = ((pre.length + 1 : Nat) : Int) := by
            have : pre.length < 2 ^ 31 := by rw [hbs] at hlen; simp at hlen; omega
            rw [hi]; omega
          obtain ⟨i', k', c', scomp', m', u', l', st', sk', no', szm', info', ty', np', g', hrun, hres⟩ := ih (pre ++ [c]) (sc ++ [c]) (b :: jr)
            { s with c_ := c, scomp := (sc ++ [c]) ++ b :: jr, i := (s.i + 1) % 4294967296, k := s.k + 1 }
            fuel (by simp [hbs]) hcse hstr hl (by show (s.i + 1) % 4294967296 = _; rw [hw]; simp) (by show s.k + 1 = _; rw [hk]; simp) rfl
            (by simp at hscl10 ⊢; omega) (hcsc.append (CStr.single hc.1 hc.2)) hm hnp hinfo hstl hsml hnol (by omega) hd hg
          refine ⟨i', k', c', scomp', m', u', l', st', sk', no', szm', info', ty', np', g', by rw [hrun], ?_⟩
          obtain ⟨y, ys, rfl⟩ := List.exists_cons_of_ne_nil hcse
          simp only [toStr_cons]
          rw [compValue_cons, if_neg hmk9, if_neg hmsp]
          simpa using hres


/-! ### parse_comp: the straight-line code around the loops, cut into pieces (copies of the generated text, glued by `rfl`) -/

def pcA (str n_objs : List Int) (comp_szip_mode comp_info comp_type : Int) : parse_comp.St :=
  let s : parse_comp.St := { str := str, n_objs := n_objs, comp_szip_mode := comp_szip_mode, comp_info := comp_info, comp_type := comp_type, obj := List.replicate 256 170, scomp := List.replicate 10 170, stype := List.replicate 5 170, smask := List.replicate 3 170, obj_list_blk := [] }
  have s : parse_comp.St := parse_comp.chk s (0 ≤ 0 ∧ (0 : Int) ∈ (s.str.drop (Int.toNat (0))))
  have s : parse_comp.St := parse_comp.St.set_len s ((Int.ofNat ((s.str.drop (Int.toNat (0))).takeWhile (· ≠ 0)).length))
  have s : parse_comp.St := parse_comp.St.set_end_obj s ((- 1))
  have s : parse_comp.St := parse_comp.St.set_no_param s (0)
  have s : parse_comp.St := parse_comp.St.set_i s (((0) % 4294967296))
  have s : parse_comp.St := parse_comp.St.set_n s (0)
  s

def pcB (fuel : Nat) (s : parse_comp.St) : parse_comp.St :=
  have s : parse_comp.St := if (s.end_obj = (- 1)) then
      have s : parse_comp.St := parse_comp.St.set_retnull s (true)
      have s : parse_comp.St := parse_comp.St.set_done s (true)
      s
    else
      s
  have s : parse_comp.St := if s.done ∨ s.gto then s else
    have s : parse_comp.St := parse_comp.chk s ((s.end_obj = 0) ∨ (0 ≤ (s.end_obj - 1) ∧ (s.end_obj - 1) < s.str.length))
    have s : parse_comp.St := if ((s.end_obj = 0) ∨ ((s.str.getD (Int.toNat ((s.end_obj - 1))) 0) = 44)) then
        have s : parse_comp.St := parse_comp.St.set_retnull s (true)
        have s : parse_comp.St := parse_comp.St.set_done s (true)
        s
      else
        s
    s
  have s : parse_comp.St := if s.done ∨ s.gto then s else
    have s : parse_comp.St := parse_comp.St.set_n s ((s.n + 1))
    s
  have s : parse_comp.St := if s.done ∨ s.gto then s else
    have s : parse_comp.St := parse_comp.chk s ((0 : Int) ≤ (Int.tdiv (((((s.n) % 18446744073709551616) * 256)) % 18446744073709551616) 1))
    have s : parse_comp.St := parse_comp.St.set_obj_list_blk s (List.replicate (Int.toNat (Int.tdiv (((((s.n) % 18446744073709551616) * 256)) % 18446744073709551616) 1)) 170)
    have s : parse_comp.St := parse_comp.St.set_obj_list s (0)
    s
  have s : parse_comp.St := if s.done ∨ s.gto then s else
    have s : parse_comp.St := parse_comp.chk s (0 < s.n_objs.length)
    have s : parse_comp.St := parse_comp.St.set_n_objs s (s.n_objs.set (Int.toNat (0)) (s.n))
    s
  have s : parse_comp.St := if s.done ∨ s.gto then s else
    have s : parse_comp.St := parse_comp.St.set_j s (0)
    have s : parse_comp.St := parse_comp.St.set_k s (0)
    have s : parse_comp.St := parse_comp.St.set_n s (0)
    have s : parse_comp.St := parse_comp.loop1 fuel s
    s
  s

def pcC (fuel : Nat) (s : parse_comp.St) : parse_comp.St :=
  have s : parse_comp.St := if s.done ∨ s.gto then s else
    have s : parse_comp.St := if ((s.end_obj + 1) = s.len) then
        have s : parse_comp.St := parse_comp.St.set_gto s (true)
        s
      else
        s
    s
  have s : parse_comp.St := if s.done ∨ s.gto then s else
    have s : parse_comp.St := parse_comp.St.set_m s (0)
    s
  have s : parse_comp.St := if s.done ∨ s.gto then s else
    have s : parse_comp.St := parse_comp.St.set_i s ((((s.end_obj + 1)) % 4294967296))
    have s : parse_comp.St := parse_comp.St.set_k s (0)
    have s : parse_comp.St := parse_comp.loop2 fuel s
    s
  s

/-- the `switch (comp->type)` that checks the parameter -/
def pcD (s : parse_comp.St) : parse_comp.St :=
  have s : parse_comp.St := if s.done ∨ s.gto then s else
    let sw : Int := s.comp_type
    have s : parse_comp.St :=
      if sw = ((1) % 4294967296) then
          s
      else
        if sw = ((3) % 4294967296) then
            have s : parse_comp.St := if (s.comp_info ≤ 0) then
                have s : parse_comp.St := parse_comp.St.set_gto s (true)
                s
              else
                s
            s
        else
          if sw = ((4) % 4294967296) then
              have s : parse_comp.St := if ((s.comp_info < 0) ∨ (s.comp_info > 9)) then
                  have s : parse_comp.St := parse_comp.St.set_gto s (true)
                  s
                else
                  s
              s
          else
            if sw = ((7) % 4294967296) then
                have s : parse_comp.St := if ((s.comp_info < 0) ∨ (s.comp_info > 100)) then
                    have s : parse_comp.St := parse_comp.St.set_gto s (true)
                    s
                  else
                    s
                s
            else
              if sw = ((5) % 4294967296) then
                  have s : parse_comp.St := parse_comp.St.set_gto s (true)
                  s
              else
                  s
    s
  s

def pcE (s : parse_comp.St) : parse_comp.St :=
  have s : parse_comp.St := if s.done ∨ s.gto then s else
    have s : parse_comp.St := parse_comp.St.set_ret s (s.obj_list)
    have s : parse_comp.St := parse_comp.St.set_done s (true)
    s
  have s : parse_comp.St := if s.done then s else
    have s : parse_comp.St := parse_comp.St.set_gto s (false)
    s
  have s : parse_comp.St := if s.done ∨ s.gto then s else
    have s : parse_comp.St := parse_comp.St.set_retnull s (true)
    have s : parse_comp.St := parse_comp.St.set_done s (true)
    s
  s

theorem parse_comp_split (fuel : Nat) (str n_objs : List Int) (szm info ty : Int) :
    parse_comp fuel str n_objs szm info ty = pcE (pcD (pcC fuel (pcB fuel (parse_comp.loop0 fuel (pcA str n_objs szm info ty))))) := rfl

theorem pcB_nocolon (fuel : Nat) (s : parse_comp.St) (he : s.end_obj = -1) (hd : s.done = false) (hg : s.gto = false) :
    pcB fuel s = { s with retnull := true, done := true } := by
  cases s
  simp only at he hd hg
  subst he hd hg
  simp only [pcB, parse_comp.St.set_retnull, parse_comp.St.set_done, Int.reduceNeg, c18logic]


theorem pcB_badlist (fuel : Nat) (s : parse_comp.St) (bs rest : List Int) (e : Nat) (hstr : s.str = bs ++ 0 :: rest) (he : s.end_obj = e) (hel : e < bs.length)
    (hbad : e = 0 ∨ bs.getD (e - 1) 0 = 44) (hd : s.done = false) (hg : s.gto = false) :
    pcB fuel s = { s with retnull := true, done := true } := by
  cases s
  simp only at he hd hg hstr
  subst he hd hg hstr
  have h1 : ¬ ((e : Int) = -1) := by omega
  have h2 : ((e : Int) = 0 ∨ 0 ≤ (e : Int) - 1 ∧ (e : Int) - 1 < ((bs ++ 0 :: rest).length : Int)) := by
    by_cases h0 : e = 0
    · left; omega
    · right; simp; omega
  have h3 : ((e : Int) = 0 ∨ (bs ++ 0 :: rest).getD ((e : Int) - 1).toNat 0 = 44) := by
    rcases hbad with h | h
    · left; omega
    · by_cases h0 : e = 0
      · left; omega
      · right
        have : ((e : Int) - 1).toNat = e - 1 := by omega
        rw [this, ← h]
        simp [List.getD_eq_getElem?_getD, List.getElem?_append_left (by omega : e - 1 < bs.length)]
  simp only [pcB, parse_comp.chk, parse_comp.St.set_retnull, parse_comp.St.set_done, Int.reduceNeg, eq_false h1, h2, h3, c18logic]



theorem pcB_names (fuel : Nat) (s : parse_comp.St) (bs rest : List Int) (e cnt : Nat) (hstr : s.str = bs ++ 0 :: rest) (he : s.end_obj = e)
    (hel : e < bs.length) (hgood : ¬ (e = 0 ∨ bs.getD (e - 1) 0 = 44)) (hn : s.n = cnt) (hcnt : cnt = bs.count 44)
    (hobj : s.obj = List.replicate 256 170) (hno : 0 < s.n_objs.length) (hbs : CStr bs) (hlen : bs.length < 2 ^ 31) (hf : bs.length ≤ fuel)
    (hd : s.done = false) (hg : s.gto = false) :
    ∃ j k c n obj blk g, pcB fuel s = { s with
        n_objs := s.n_objs.set 0 ((cnt + 1 : Nat) : Int), obj_list := 0, j := j, k := k, c_ := c, n := n, obj := obj, obj_list_blk := blk, gto := g } ∧
      (match namesLoopC (bs.take e) [] with
       | none => g = true
       | some names => g = false ∧ n = ((names.length : Nat) : Int) ∧ blk = putNames (List.replicate ((cnt + 1) * 256) 170) 0 names) := by
  have hcl : cnt ≤ bs.length := by rw [hcnt]; exact List.count_le_length
  have hstep : pcB fuel s = parse_comp.loop1 fuel { s with
      n := 0, obj_list_blk := List.replicate ((cnt + 1) * 256) 170, obj_list := 0, n_objs := s.n_objs.set 0 ((cnt + 1 : Nat) : Int), j := 0, k := 0 } := by
    cases s
    simp only at he hd hg hstr hn hno
    subst he hd hg hstr hn
    have h1 : ¬ ((e : Int) = -1) := by omega
    have h2 : ((e : Int) = 0 ∨ 0 ≤ (e : Int) - 1 ∧ (e : Int) - 1 < ((bs ++ 0 :: rest).length : Int)) := by right; simp; omega
    have h3 : ¬ ((e : Int) = 0 ∨ (bs ++ 0 :: rest).getD ((e : Int) - 1).toNat 0 = 44) := by
      intro h; apply hgood
      rcases h with h | h
      · left; omega
      · by_cases h0 : e = 0
        · left; exact h0
        · right
          have : ((e : Int) - 1).toNat = e - 1 := by omega
          rw [this] at h
          rw [← h]
          simp [List.getD_eq_getElem?_getD, List.getElem?_append_left (by omega : e - 1 < bs.length)]
    have hN : Int.tdiv (((((cnt : Int) + 1) % 18446744073709551616) * 256) % 18446744073709551616) 1 = (((cnt + 1) * 256 : Nat) : Int) := by
      rw [Int.tdiv_one]; omega
    have hN0 : (0 : Int) ≤ (((cnt + 1) * 256 : Nat) : Int) := by omega
    simp only [pcB, parse_comp.chk, Int.reduceNeg, eq_false h1, h2, eq_false h3, hN, hN0, hno, Int.toNat_natCast, Int.toNat_zero, Int.natCast_add, Int.cast_ofNat_Int, c18logic,
      parse_comp.St.set_n, parse_comp.St.set_obj_list_blk, parse_comp.St.set_obj_list, parse_comp.St.set_n_objs, parse_comp.St.set_j, parse_comp.St.set_k]
  rw [hstep]
  have hcount : (bs.take e).count 44 ≤ bs.count 44 := (List.take_sublist e bs).count_le 44
  obtain ⟨j, k, c, n, obj, blk, g, hrun, hres⟩ := comp_loop1 (bs.take e) (bs.drop e ++ 0 :: rest) (cnt + 1) (by simp; omega)
    (bs.take e) [] [] (List.replicate 256 170) { s with
      n := 0, obj_list_blk := List.replicate ((cnt + 1) * 256) 170, obj_list := 0, n_objs := s.n_objs.set 0 ((cnt + 1 : Nat) : Int), j := 0, k := 0 }
    fuel 0 (by simp) (by show s.str = _; rw [hstr, ← List.append_assoc, List.take_append_drop]) (by show s.end_obj = _; rw [he]; simp; omega)
    rfl rfl (by show s.obj = _; rw [hobj]; rfl) (by simp only [List.length_nil, List.length_replicate]) CStr.nil (hbs.take e) rfl rfl
    (by simp only [List.length_replicate]) (by intro _; rw [hcnt]; omega) (by simp; omega) hd hg
  refine ⟨j, k, c, n, obj, blk, g, ?_, ?_⟩
  · rw [hrun]
  · cases hnl : namesLoopC (bs.take e) [] with
    | none => rw [hnl] at hres; exact hres
    | some names => rw [hnl] at hres; simpa using hres



theorem pcC_skip (fuel : Nat) (s : parse_comp.St) (h : s.done = true ∨ s.gto = true) : pcC fuel s = s := by
  simp only [pcC, h, if_true]


theorem pcC_empty (fuel : Nat) (s : parse_comp.St) (h : s.end_obj + 1 = s.len) (hd : s.done = false) (hg : s.gto = false) :
    pcC fuel s = { s with gto := true } := by
  cases s
  simp only at h hd hg
  subst hd hg
  simp only [pcC, h, parse_comp.St.set_gto, c18logic]


theorem pcE_done (s : parse_comp.St) (h : s.done = true) : pcE s = s := by
  simp only [pcE, h, true_or, if_true]


theorem pcE_ok (s : parse_comp.St) (hd : s.done = false) (hg : s.gto = false) : pcE s = { s with ret := s.obj_list, done := true } := by
  cases s
  simp only at hd hg
  subst hd hg
  simp only [pcE, parse_comp.St.set_ret, parse_comp.St.set_done, c18logic]


theorem pcE_out (s : parse_comp.St) (hd : s.done = false) (hg : s.gto = true) :
    pcE s = { s with gto := false, retnull := true, done := true } := by
  cases s
  simp only at hd hg
  subst hd hg
  simp only [pcE, parse_comp.St.set_gto, parse_comp.St.set_retnull, parse_comp.St.set_done, c18logic]




theorem pcA_eq (bs rest n_objs : List Int) (szm info ty : Int) (hbs : CStr bs) :
    pcA (bs ++ 0 :: rest) n_objs szm info ty = {
      str := bs ++ 0 :: rest, n_objs := n_objs, comp_szip_mode := szm, comp_info := info, comp_type := ty,
      obj := List.replicate 256 170, scomp := List.replicate 10 170, stype := List.replicate 5 170, smask := List.replicate 3 170,
      obj_list_blk := [], len := bs.length, end_obj := -1, no_param := 0, i := 0, n := 0 } := by
  have htw := takeWhile_cstr bs rest hbs
  have hmem : (0 : Int) ∈ bs ++ 0 :: rest := by simp
  simp only [pcA, parse_comp.chk, Int.toNat_zero, List.drop_zero, htw, hmem, Int.ofNat_eq_natCast, Int.reduceMod, Int.reduceNeg, c18logic, Std.le_refl,
    parse_comp.St.set_len, parse_comp.St.set_end_obj, parse_comp.St.set_i, parse_comp.St.set_n, parse_comp.St.set_no_param]

/-- the value after the `':'` -/
theorem pcC_value (fuel : Nat) (s : parse_comp.St) (bs rest : List Int) (e : Nat) (hstr : s.str = bs ++ 0 :: rest) (hl : s.len = bs.length)
    (he : s.end_obj = e) (hel : e + 1 < bs.length) (hscl : s.scomp.length = 10) (hnp : s.no_param = 0) (hinfo : s.comp_info = -1)
    (hstl : s.stype.length = 5) (hsml : s.smask.length = 3) (hnol : 0 < s.n_objs.length)
    (hbs : CStr bs) (hlen : bs.length < 2 ^ 31) (hf : bs.length ≤ fuel) (hd : s.done = false) (hg : s.gto = false) :
    ∃ i k c scomp m u l stype smask nobjs szm info ty np g, pcC fuel s = { s with
        i := i, k := k, c_ := c, scomp := scomp, m := m, u := u, l := l, stype := stype, smask := smask, n_objs := nobjs,
        comp_szip_mode := szm, comp_info := info, comp_type := ty, no_param := np, gto := g } ∧
      (match compValue (toStr (bs.drop (e + 1))) [] with
       | none => g = true
       | some cv => g = false ∧ ty = cv.type ∧ info = cv.info ∧ nobjs = s.n_objs) := by
  have hstep : pcC fuel s = parse_comp.loop2 fuel { s with m := 0, i := ((e + 1 : Nat) : Int), k := 0 } := by
    rcases s with ⟨obj_list, i, u, c, len, j, m, n_, k, end_obj, no_param, l, szm, info, ty, str, n_objs, obj, scomp, stype, smask, blk, ub, oof, ret, retnull, done, gto⟩
    simp only at hstr hl he hd hg
    subst hstr hl he hd hg
    have h1 : ¬ ((e : Int) + 1 = (bs.length : Int)) := by omega
    have hw : ((e : Int) + 1) % 4294967296 = ((e + 1 : Nat) : Int) := by omega
    simp only [pcC, eq_false h1, hw, c18logic, parse_comp.St.set_m, parse_comp.St.set_i, parse_comp.St.set_k]
  rw [hstep]
  have hne : bs.drop (e + 1) ≠ [] := by
    intro h; have := congrArg List.length h; simp at this; omega
  obtain ⟨i, k, c, scomp, m, u, l, stype, smask, nobjs, szm, info, ty, np, g, hrun, hres⟩ := comp_loop2 bs rest hbs hlen (bs.drop (e + 1)) (bs.take (e + 1)) [] s.scomp
    { s with m := 0, i := ((e + 1 : Nat) : Int), k := 0 } fuel (List.take_append_drop _ _).symm hne hstr hl
    (by simp; omega) rfl rfl (by simpa using hscl) CStr.nil rfl hnp hinfo hstl hsml hnol (by simp; omega) hd hg
  refine ⟨i, k, c, scomp, m, u, l, stype, smask, nobjs, szm, info, ty, np, g, by rw [hrun], ?_⟩
  simp only [toStr_nil] at hres
  cases hcv : compValue (toStr (bs.drop (e + 1))) [] with
  | none => rw [hcv] at hres; exact hres
  | some cv => rw [hcv] at hres; exact hres

/-- the parameter check after the loop -/
theorem pcD_spec (s : parse_comp.St) (hty : s.comp_type = 0 ∨ s.comp_type = 1 ∨ s.comp_type = 3 ∨ s.comp_type = 4 ∨ s.comp_type = 7)
    (hd : s.done = false) (hg : s.gto = false) :
    pcD s = { s with gto := !compParamOk ⟨s.comp_type, s.comp_info⟩ } := by
  rcases s with ⟨obj_list, i, u, c, len, j, m, n_, k, end_obj, no_param, l, szm, info, ty, str, n_objs, obj, scomp, stype, smask, blk, ub, oof, ret, retnull, done, gto⟩
  simp only at hty hd hg
  subst hd hg
  rcases hty with rfl | rfl | rfl | rfl | rfl
  · simp [pcD, compParamOk, COMP_CODE_SKPHUFF, COMP_CODE_DEFLATE, COMP_CODE_JPEG]
  · simp [pcD, compParamOk, COMP_CODE_SKPHUFF, COMP_CODE_DEFLATE, COMP_CODE_JPEG]
  · by_cases h : info ≤ 0
    · have : ¬ info > 0 := by omega
      simp [pcD, compParamOk, COMP_CODE_SKPHUFF, COMP_CODE_DEFLATE, COMP_CODE_JPEG, h, this, parse_comp.St.set_gto]
    · have : info > 0 := by omega
      simp [pcD, compParamOk, COMP_CODE_SKPHUFF, COMP_CODE_DEFLATE, COMP_CODE_JPEG, h, this]
  · by_cases h : info < 0 ∨ info > 9
    · have : ¬ (0 ≤ info ∧ info ≤ 9) := by omega
      simp [pcD, compParamOk, COMP_CODE_SKPHUFF, COMP_CODE_DEFLATE, COMP_CODE_JPEG, h, this, parse_comp.St.set_gto]
    · have : (0 ≤ info ∧ info ≤ 9) := by omega
      simp [pcD, compParamOk, COMP_CODE_SKPHUFF, COMP_CODE_DEFLATE, COMP_CODE_JPEG, h, this]
  · by_cases h : info < 0 ∨ info > 100
    · have : ¬ (0 ≤ info ∧ info ≤ 100) := by omega
      simp [pcD, compParamOk, COMP_CODE_SKPHUFF, COMP_CODE_DEFLATE, COMP_CODE_JPEG, h, this, parse_comp.St.set_gto]
    · have : (0 ≤ info ∧ info ≤ 100) := by omega
      simp [pcD, compParamOk, COMP_CODE_SKPHUFF, COMP_CODE_DEFLATE, COMP_CODE_JPEG, h, this]

theorem pcD_skip (s : parse_comp.St) (h : s.done = true ∨ s.gto = true) : pcD s = s := by
  simp only [pcD, h, if_true]

theorem compOfName_type (t : Str) (m : Nat) (np : Bool) (info : Int) (c : Comp) (h : compOfName t m np info = some c) :
    c.type = 0 ∨ c.type = 1 ∨ c.type = 3 ∨ c.type = 4 ∨ c.type = 7 := by
  unfold compOfName at h
  repeat' split at h
  all_goals first | (simp at h; done) | (simp at h; rw [← h]; simp [COMP_CODE_NONE, COMP_CODE_RLE, COMP_CODE_SKPHUFF, COMP_CODE_DEFLATE, COMP_CODE_JPEG])

theorem compValue_type : ∀ (v sc : Str) (c : Comp), compValue v sc = some c →
    c.type = 0 ∨ c.type = 1 ∨ c.type = 3 ∨ c.type = 4 ∨ c.type = 7 := by
  intro v
  induction v with
  | nil => intro sc c h; simp [compValue] at h
  | cons x xs ih =>
    intro sc c h
    rw [compValue_cons] at h
    split at h
    · simp at h
    · split at h
      · split at h
        · exact compOfName_type _ _ _ _ _ h
        · simp at h
      · cases xs with
        | nil => exact compOfName_type _ _ _ _ _ h
        | cons y ys => exact ih _ _ h


theorem compOfName_no_comma (t : Str) (m : Nat) (np : Bool) (info : Int) (c : Comp) (h : compOfName t m np info = some c) : ',' ∉ t := by
  unfold compOfName at h
  repeat' split at h
  all_goals first | (simp at h; done) | (rename_i ht; first | (rw [ht]; decide) | skip)
  all_goals (rename_i h1 h2; first | (rw [h2]; decide) | (rw [h1]; decide))

theorem compValue_no_comma : ∀ (v sc : Str) (c : Comp), compValue v sc = some c → ',' ∉ sc ∧ ',' ∉ v := by
  intro v
  induction v with
  | nil => intro sc c h; simp [compValue] at h
  | cons x xs ih =>
    intro sc c h
    rw [compValue_cons] at h
    split at h
    · simp at h
    · split at h
      · next hx =>
        split at h
        · next hcond =>
          have hsc := compOfName_no_comma _ _ _ _ _ h
          simp only [Bool.and_eq_true, List.all_eq_true, decide_eq_true_eq] at hcond
          refine ⟨hsc, ?_⟩
          intro hm
          rcases List.mem_cons.mp hm with h' | h'
          · rw [hx] at h'; exact absurd h' (by decide)
          · have := hcond.1.1 _ h'; simp at this
        · simp at h
      · cases xs with
        | nil =>
          have := compOfName_no_comma _ _ _ _ _ h
          simp only [List.mem_append, List.mem_singleton, not_or] at this
          exact ⟨this.1, by simpa using this.2⟩
        | cons y ys =>
          have := ih _ _ h
          simp only [List.mem_append, List.mem_singleton, not_or] at this
          refine ⟨this.1.1, ?_⟩
          intro hm
          rcases List.mem_cons.mp hm with h' | h'
          · exact this.1.2 h'
          · exact this.2 h'


/-- what `parse_comp` hands back for an accepted string: the list (not NULL, at the start of its block), `*n_objs`, the names row by row,
    `comp->type` and `comp->info` -/
structure CompOut (s : parse_comp.St) (n_objs0 : List Int) (n : Nat) (names : List Str) (c : Comp) : Prop where
  notnull : s.retnull = false
  ret : s.ret = 0
  nobjs : s.n_objs = n_objs0.set 0 (n : Int)
  count : names.length = n
  blk : s.obj_list_blk.length = n * 256
  rows : ∀ i (h : i < names.length), toStr (cstrAt s.obj_list_blk (i * 256)) = names[i]
  type : s.comp_type = c.type
  info : s.comp_info = c.info

/-- everything after the first loop, for a state `S` that the first loop can leave -/
theorem parse_comp_tail (fuel : Nat) (bs rest n_objs : List Int) (hbs : CStr bs) (hlen : bs.length < 2 ^ 31) (hf : bs.length ≤ fuel)
    (S : parse_comp.St) (hstr : S.str = bs ++ 0 :: rest) (hl : S.len = bs.length) (hE : S.end_obj = lastColonC bs 0 (-1))
    (hn : S.n = ((bs.count 44 : Nat) : Int)) (hobj : S.obj = List.replicate 256 170) (hscl : S.scomp.length = 10) (hstl : S.stype.length = 5)
    (hsml : S.smask.length = 3) (hno : S.n_objs = n_objs) (hnol : 0 < n_objs.length) (hnp : S.no_param = 0) (hinfo : S.comp_info = -1)
    (hub : S.ub = false) (hoof : S.oof = false) (hd : S.done = false) (hg : S.gto = false) (hrn : S.retnull = false)
    (s : parse_comp.St) (hs : s = pcE (pcD (pcC fuel (pcB fuel S)))) :
    s.ub = false ∧ s.oof = false ∧ s.done = true ∧
    (match parseComp (toStr bs) with
     | none => s.retnull = true
     | some (n, names, c) => CompOut s n_objs n names c) := by
  have hch : ∀ c ∈ bs, IsChar c := fun c hc => (hbs c hc).1
  have hE' := lastColonC_eq bs hch
  have hcount := count_model bs hch
  unfold parseComp
  cases hlc : lastColon (toStr bs) with
  | none =>
    rw [hlc] at hE'
    rw [pcB_nocolon _ _ (hE.trans hE') hd hg, pcC_skip _ _ (Or.inl rfl), pcD_skip _ (Or.inl rfl), pcE_done _ rfl] at hs
    subst hs
    exact ⟨hub, hoof, rfl, rfl⟩
  | some e =>
    rw [hlc] at hE'
    obtain ⟨hel, hcolon⟩ := lastColon_bound _ _ hlc
    rw [toStr_length] at hel
    simp only [encPos] at hE'
    have hE2 : S.end_obj = (e : Int) := hE.trans hE'
    by_cases hbad : badObjList (toStr bs) e = true
    · rw [pcB_badlist _ _ bs rest e hstr hE2 hel ((badObjList_iff bs hbs e hel).mp hbad) hd hg, pcC_skip _ _ (Or.inl rfl), pcD_skip _ (Or.inl rfl), pcE_done _ rfl] at hs
      subst hs
      refine ⟨hub, hoof, rfl, ?_⟩
      simp only [hbad, if_true]
    · have hgood := mt (badObjList_iff bs hbs e hel).mpr hbad
      simp only [hbad, Bool.false_eq_true, if_false]
      obtain ⟨j, k, c, n, obj, blk, g, hB, hres⟩ := pcB_names fuel S bs rest e (bs.count 44) hstr hE2 hel hgood hn rfl hobj (by rw [hno]; exact hnol) hbs hlen hf hd hg
      rw [hB] at hs
      have hnm := namesLoopC_model (bs.take e) [] (fun c hc => hch c (List.mem_of_mem_take hc))
      rw [toStr_take, toStr_nil] at hnm
      cases hnl : namesLoopC (bs.take e) [] with
      | none =>
        rw [hnl] at hres hnm
        subst hres
        simp only [Option.map_none] at hnm
        rw [pcC_skip _ _ (Or.inr (by rfl)), pcD_skip _ (Or.inr (by rfl)), pcE_out _ (by exact hd) (by rfl)] at hs
        subst hs
        rw [← hnm]
        exact ⟨hub, hoof, rfl, rfl⟩
      | some names =>
        rw [hnl] at hres hnm
        obtain ⟨rfl, rfl, rfl⟩ := hres
        simp only [Option.map_some] at hnm
        rw [← hnm]
        simp only []
        rw [← toStr_drop]
        by_cases hemp : e + 1 = bs.length
        · have hm : (toStr (bs.drop (e + 1))).isEmpty = true := by
            rw [List.isEmpty_iff, ← List.length_eq_zero_iff]; simp; omega
          rw [pcC_empty _ _ (by show S.end_obj + 1 = S.len; rw [hE2, hl]; omega) (by exact hd) (by rfl), pcD_skip _ (Or.inr (by rfl)), pcE_out _ (by exact hd) (by rfl)] at hs
          subst hs
          refine ⟨hub, hoof, rfl, ?_⟩
          simp only [hm, if_true]
        · have hm : ¬ (toStr (bs.drop (e + 1))).isEmpty = true := by
            rw [List.isEmpty_iff, ← List.length_eq_zero_iff]; simp; omega
          simp only [hm, if_false]
          obtain ⟨i', k', c', sc', m', u', l', st', sk', no', szm', info', ty', np', g', hC, hres⟩ := pcC_value fuel { S with
              n_objs := S.n_objs.set 0 ((bs.count 44 + 1 : Nat) : Int), obj_list := 0, j := j, k := k, c_ := c, n := ((names.length : Nat) : Int), obj := obj,
              obj_list_blk := putNames (List.replicate ((bs.count 44 + 1) * 256) 170) 0 names, gto := false }
            bs rest e hstr hl hE2 (by omega) hscl hnp hinfo hstl hsml (by show 0 < (S.n_objs.set 0 _).length; rw [List.length_set, hno]; exact hnol) hbs hlen hf hd rfl
          rw [hC] at hs
          cases hcv : compValue (toStr (bs.drop (e + 1))) [] with
          | none =>
            rw [hcv] at hres
            subst hres
            rw [pcD_skip _ (Or.inr (by rfl)), pcE_out _ (by exact hd) (by rfl)] at hs
            subst hs
            exact ⟨hub, hoof, rfl, rfl⟩
          | some cv =>
            rw [hcv] at hres
            obtain ⟨rfl, rfl, rfl, rfl⟩ := hres
            rw [pcD_spec _ (compValue_type _ _ _ hcv) (by exact hd) (by rfl)] at hs
            by_cases hpok : compParamOk cv = true
            · have hpok' : compParamOk ⟨cv.type, cv.info⟩ = true := hpok
              simp only [hpok, if_true]
              rw [pcE_ok _ (by exact hd) (by show (!compParamOk ⟨cv.type, cv.info⟩) = false; rw [hpok']; rfl)] at hs
              subst hs
              refine ⟨hub, hoof, rfl, ?_⟩
              have hnames := namesLoopC_names _ _ _ hnl (hbs.take e) CStr.nil
              have hN : names.length = bs.count 44 + 1 := by
                have h1 := namesLoopC_length _ _ _ hnl
                have he0 : e ≠ 0 := fun h => hgood (Or.inl h)
                have hne : bs.take e ≠ [] := by
                  intro h
                  have : (bs.take e).length = 0 := by rw [h]; rfl
                  rw [List.length_take] at this
                  omega
                have hlast : ¬ (bs.take e).getLast? = some 44 := by
                  intro h; apply hgood; right
                  rw [List.getLast?_eq_getElem?, List.length_take, Nat.min_eq_left (by omega), List.getElem?_take_of_lt (by omega)] at h
                  simp [List.getD_eq_getElem?_getD, h]
                rw [if_neg (by simp [hne, hlast])] at h1
                have h2 : bs.count 44 = (bs.take e).count 44 + (bs.drop e).count 44 := by
                  rw [← List.count_append, List.take_append_drop]
                have h3 : (bs.drop e).count 44 = 0 := by
                  rw [List.drop_eq_getElem_cons hel, List.count_cons]
                  have hv : (toStr (bs.drop (e + 1))).count ',' = 0 := List.count_eq_zero.mpr (compValue_no_comma _ _ _ hcv).2
                  rw [count_model _ (fun c hc => hch c (List.mem_of_mem_drop hc))] at hv
                  have hce : ¬ bs[e] = 44 := by
                    intro h
                    have : (toStr bs).getD e ' ' = toChar bs[e] := by
                      simp [toStr, List.getD_eq_getElem?_getD, List.getElem?_map, List.getElem?_eq_getElem hel]
                    rw [this, h] at hcolon
                    exact absurd hcolon (by decide)
                  simp [hv, hce]
                omega
              have hroom : 0 + names.length ≤ bs.count 44 + 1 := by omega
              have hl255 : ∀ nm ∈ names, nm.length ≤ 255 := fun nm h => (hnames nm h).1
              refine ⟨hrn, rfl, ?_, ?_, ?_, ?_, rfl, rfl⟩
              · show S.n_objs.set 0 _ = _
                rw [hno]; unfold countCommas; rw [hcount]
              · rw [List.length_map, hN]; unfold countCommas; rw [hcount]
              · show (putNames _ 0 names).length = _
                rw [putNames_length names _ 0 (bs.count 44 + 1) (by simp only [List.length_replicate]) hroom hl255]
                unfold countCommas; rw [hcount]
              · intro i hi
                have hi' : i < names.length := by simpa using hi
                have hrow := putNames_rows names (List.replicate ((bs.count 44 + 1) * 256) 170) 0 (bs.count 44 + 1) (by simp only [List.length_replicate]) hroom hl255 i hi'
                rw [Nat.zero_add] at hrow
                show toStr (cstrAt (putNames _ 0 names) (i * 256)) = _
                rw [cstrAt_of_row _ _ _ (hnames _ (List.getElem_mem hi')).2 hrow]
                simp
            · have hpok' : compParamOk ⟨cv.type, cv.info⟩ = false := by simpa using hpok
              simp only [hpok, Bool.false_eq_true, if_false]
              rw [pcE_out _ (by exact hd) (by show (!compParamOk ⟨cv.type, cv.info⟩) = true; rw [hpok']; rfl)] at hs
              subst hs
              exact ⟨hub, hoof, rfl, rfl⟩


theorem parse_comp_main (fuel : Nat) (bs rest n_objs : List Int) (szm ty : Int) (hbs : CStr bs) (hlen : bs.length < 2 ^ 31) (hf : bs.length ≤ fuel)
    (hno : 0 < n_objs.length) (s : parse_comp.St)
    (hs : s = parse_comp fuel (bs ++ 0 :: rest) n_objs szm (-1) ty) :
    s.ub = false ∧ s.oof = false ∧ s.done = true ∧
    (match parseComp (toStr bs) with
     | none => s.retnull = true
     | some (n, names, c) => CompOut s n_objs n names c) := by
  rw [parse_comp_split, pcA_eq _ _ _ _ _ _ hbs] at hs
  obtain ⟨c0, h0⟩ := comp_loop0 bs rest hlen bs [] {
      str := bs ++ 0 :: rest, n_objs := n_objs, comp_szip_mode := szm, comp_info := -1, comp_type := ty,
      obj := List.replicate 256 170, scomp := List.replicate 10 170, stype := List.replicate 5 170, smask := List.replicate 3 170,
      obj_list_blk := [], len := bs.length, end_obj := -1, no_param := 0, i := 0, n := 0 }
    fuel (by simp) rfl rfl rfl hf rfl rfl
  rw [h0] at hs
  exact parse_comp_tail fuel bs rest n_objs hbs hlen hf _ rfl rfl rfl (by simp) rfl (by simp only [List.length_replicate])
    (by simp only [List.length_replicate]) (by simp only [List.length_replicate]) rfl hno rfl rfl rfl rfl rfl rfl rfl s hs


end comp

end H4.C18Fn
