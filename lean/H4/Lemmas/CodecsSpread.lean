import H4.Codecs
/-! Lemmas for the in-place row spreading of `DFR8getimage` (C15). -/
namespace H4.Codecs

theorem spreadRow_length (w xdim y x : Nat) (buf : List Byte) : (spreadRow w xdim y x buf).length = buf.length := by
  induction x generalizing buf with
  | zero => rfl
  | succ x ih => simp [spreadRow, ih]

theorem getD_set (l : List Byte) (i j : Nat) (a : Byte) (hi : i < l.length) :
    (l.set i a).getD j 0 = if j = i then a else l.getD j 0 := by
  simp only [List.getD_eq_getElem?_getD, List.getElem?_set, hi, if_true]
  by_cases h : i = j
  · subst h; simp
  · have : ¬ j = i := fun e => h e.symm
    simp [h, this]

/-- one row: the `x` columns done land at stride `xdim`, every other byte is untouched -/
theorem spreadRow_getD (w xdim y : Nat) (hw : w ≤ xdim) (x : Nat) (buf : List Byte) (hlen : y * xdim + x ≤ buf.length) (i : Nat) :
    (spreadRow w xdim y x buf).getD i 0 =
      if y * xdim ≤ i ∧ i < y * xdim + x then buf.getD (y * w + (i - y * xdim)) 0 else buf.getD i 0 := by
  induction x generalizing buf with
  | zero =>
    simp only [spreadRow]
    have : ¬ (y * xdim ≤ i ∧ i < y * xdim + 0) := by omega
    rw [if_neg this]
  | succ x ih =>
    have hyw : y * w ≤ y * xdim := Nat.mul_le_mul_left y hw
    simp only [spreadRow]
    rw [ih _ (by simp only [List.length_set]; omega)]
    have hin : y * xdim + x < buf.length := by omega
    by_cases h1 : y * xdim ≤ i ∧ i < y * xdim + x
    · have h2 : y * xdim ≤ i ∧ i < y * xdim + (x + 1) := ⟨h1.1, by omega⟩
      simp only [h1, h2, and_self, if_true]
      rw [getD_set _ _ _ _ hin]
      have : ¬ y * w + (i - y * xdim) = y * xdim + x := by omega
      simp [this]
    · simp only [h1, if_false]
      rw [getD_set _ _ _ _ hin]
      by_cases h3 : i = y * xdim + x
      · subst h3
        have h2 : y * xdim ≤ y * xdim + x ∧ y * xdim + x < y * xdim + (x + 1) := ⟨by omega, by omega⟩
        simp only [h2, and_self, if_true]
        have : y * xdim + x - y * xdim = x := by omega
        simp [this]
      · have h2 : ¬ (y * xdim ≤ i ∧ i < y * xdim + (x + 1)) := by omega
        simp [h3, h2]

theorem spreadRowsFrom_length (w xdim h : Nat) (buf : List Byte) : (spreadRowsFrom w xdim h buf).length = buf.length := by
  induction h, buf using spreadRowsFrom.induct w xdim with
  | case1 => rfl
  | case2 => rfl
  | case3 y buf ih => simp only [spreadRowsFrom]; rw [ih, spreadRow_length]

/-- all rows: pixel (r, c) ends at `r * xdim + c`, and nothing at or beyond `h * xdim` is touched -/
theorem spreadRowsFrom_spec (w xdim : Nat) (hw : w ≤ xdim) (h : Nat) (buf : List Byte)
    (hlen : h = 0 ∨ (h - 1) * xdim + w ≤ buf.length) :
    (∀ r c, r < h → c < w → (spreadRowsFrom w xdim h buf).getD (r * xdim + c) 0 = buf.getD (r * w + c) 0) ∧
    (∀ i, h * xdim ≤ i → (spreadRowsFrom w xdim h buf).getD i 0 = buf.getD i 0) := by
  induction h, buf using spreadRowsFrom.induct w xdim with
  | case1 => exact ⟨fun r c hr _ => absurd hr (Nat.not_lt_zero r), fun i _ => rfl⟩
  | case2 =>
    refine ⟨fun r c hr _ => ?_, fun i _ => rfl⟩
    have : r = 0 := by omega
    subst this; simp [spreadRowsFrom]
  | case3 y buf ih =>
    have hl : (y + 1) * xdim + w ≤ buf.length := by
      rcases hlen with h0 | h1
      · omega
      · simpa using h1
    simp only [spreadRowsFrom]
    have hrow := spreadRow_getD w xdim (y + 1) hw w buf hl
    have ih' := ih (Or.inr (by
      rw [spreadRow_length]
      have : (y + 1 - 1) * xdim ≤ (y + 1) * xdim := Nat.mul_le_mul_right xdim (by omega)
      omega))
    have hmul : (y + 1) * w ≤ (y + 1) * xdim := Nat.mul_le_mul_left (y + 1) hw
    constructor
    · intro r c hr hc
      by_cases hry : r < y + 1
      · rw [ih'.1 r c hry hc, hrow]
        have h1 : (r + 1) * w ≤ (y + 1) * w := Nat.mul_le_mul_right w (by omega)
        have h2 : (r + 1) * w = r * w + w := by rw [Nat.add_mul]; omega
        have : ¬ ((y + 1) * xdim ≤ r * w + c ∧ r * w + c < (y + 1) * xdim + w) := by omega
        simp [this]
      · have hr' : r = y + 1 := by omega
        subst hr'
        rw [ih'.2 _ (by omega), hrow]
        have h2 : (y + 1) * xdim ≤ (y + 1) * xdim + c ∧ (y + 1) * xdim + c < (y + 1) * xdim + w := ⟨by omega, by omega⟩
        have h3 : (y + 1) * xdim + c - (y + 1) * xdim = c := by omega
        simp [h2, h3]
    · intro i hi
      have hi' : (y + 1 + 1) * xdim ≤ i := hi
      rw [Nat.add_mul] at hi' 
      rw [ih'.2 i (by omega), hrow]
      have : ¬ ((y + 1) * xdim ≤ i ∧ i < (y + 1) * xdim + w) := by omega
      simp [this]

end H4.Codecs
