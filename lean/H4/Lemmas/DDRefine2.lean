import H4.Lemmas.DDRefine
/-! # Refinement, continued: the read-only calls, the caching switches and close/reopen -/
namespace H4.DD
open H4.Gen.Hdf H4.Bitvect

/-! ## `Hnumber` -/

theorem count_abs {s : File} (P : Nat → Bool) (hP : ∀ t, P t = true → t ≠ 1) :
    (s.slots.filter (fun d => P d.tag)).length = (s.abs.filter (fun e => P e.1)).length := by
  have e1 : s.slots.filter (fun d => P d.tag) = (liveOf s.slots).filter (fun d => P d.tag) := by
    unfold liveOf
    rw [List.filter_filter]
    apply List.filter_congr
    intro d _
    by_cases hp : P d.tag = true
    · have := hP _ hp
      simp [hp, isLive, DFTAG_NULL, this]
    · simp [hp]
  rw [e1]
  unfold File.abs absl
  rw [List.filter_map, List.length_map]
  rfl

theorem number_refines (cfg : Cfg) (s : File) {t : Nat} (h1 : t ≠ 1) :
    eraseOut (.number t) (step cfg s (.number t)).1 = (specStep cfg s.abs (.number t)).1 := by
  simp only [step, specStep, eraseOut, hnumber]
  congr 1
  by_cases h0 : t = 0
  · subst h0
    rw [htiCountDD_wild]
    simp only [if_true]
    have := count_abs (s := s) (fun t => !(t == DFTAG_NULL || t == DFTAG_FREE)) (by
      intro t ht; simp [DFTAG_NULL] at ht; exact ht.1)
    rw [this]
    congr 1
    apply List.filter_congr
    intro e he
    obtain ⟨d, hd, rfl⟩ := abs_mem_key he
    have := (isLive_iff d).mp (mem_liveOf.mp hd).2
    simp [ent, DFTAG_NULL, this, bne]
  · rw [if_neg h0]
    have hc : (htiCountDD cfg s t).1 = (s.slots.filter (numMatch t)).length := by
      by_cases h108 : t = 108
      · subst h108
        simp [htiCountDD, DFTAG_WILDCARD, DFTAG_NULL, DFTAG_FREE, H4.Gen.DDTie.DFTAG_FREE]
        rfl
      · exact htiCountDD_count cfg s h0 h1 h108
    rw [hc]
    exact count_abs (s := s) (fun x => x == t || (mkSpecial t != DFTAG_NULL && x == mkSpecial t)) (by
      intro x hx
      simp [DFTAG_NULL] at hx
      rcases hx with hx | ⟨h2, hx⟩
      · omega
      · omega)

/-! ## `Hexist` -/

theorem findMatch_ent (st sr : Nat) (d : DD) : findMatch st sr d = (isLive d && entMatch st sr (ent d)) := by
  simp [findMatch, entMatch, ent, Bool.and_assoc]

theorem exist_refines (cfg : Cfg) {s : File} (h : Inv cfg s) (t r : Nat) (hg : ¬ (t = 1 ∧ r = 0)) :
    ∃ s', (step cfg s (.exist t r)).2 = some s' ∧ Inv cfg s' ∧
      eraseOut (.exist t r) (step cfg s (.exist t r)).1 = (specStep cfg s.abs (.exist t r)).1 ∧
      s'.abs.Perm (specStep cfg s.abs (.exist t r)).2 := by
  simp only [step, specStep, hexist, eraseOut]
  by_cases hex : t ≠ 0 ∧ r ≠ 0
  · rw [hfind_exact s hex.1 hex.2, if_pos hex]
    refine ⟨s, rfl, h, ?_, List.Perm.refl _⟩
    cases hq : lookupPos s t r with
    | none =>
      have hgn : specGet s.abs (baseTag t, r) = none := specGet_none (lookupPos_none h.wf hq)
      rw [hgn]; rfl
    | some q =>
      obtain ⟨hv, hl, hk⟩ := lookupPos_some hq
      have hgn : specGet s.abs (baseTag t, r) = some (ent (getDD s.blocks q)) := by
        rw [← hk]; exact specGet_some h.wf.wfl.nodup (getDD_mem_live hv hl)
      rw [hgn]; rfl
  · have hwild : t = 0 ∨ r = 0 := by omega
    have h1 : t ≠ 1 := by omega
    rw [hfind_start, htiFindDD_fwd s hwild h1, if_neg hex]
    simp only
    cases hs : scanFwd (fwdPred t r) s.blocks 0 0 with
    | none =>
      refine ⟨s, rfl, h, ?_, List.Perm.refl _⟩
      have hnone := scanFwd_none hs
      rw [sufFrom_zero_zero, filter_fwdPred hwild h1, List.filter_eq_nil_iff] at hnone
      have : s.abs.any (entMatch t r) = false := by
        rw [Bool.eq_false_iff]
        intro hany
        rw [List.any_eq_true] at hany
        obtain ⟨e, he, hm⟩ := hany
        obtain ⟨d, hd, rfl⟩ := abs_mem_key he
        obtain ⟨hmem, hl⟩ := mem_liveOf.mp hd
        exact hnone d hmem (by rw [findMatch_ent, hl, hm]; rfl)
      simp [this]
    | some q =>
      refine ⟨s, rfl, h, ?_, List.Perm.refl _⟩
      obtain ⟨hv, hp, _⟩ := scanFwd_some hs
      rw [fwdPred_eq hwild h1, findMatch_ent] at hp
      simp only [Bool.and_eq_true] at hp
      have : s.abs.any (entMatch t r) = true := by
        rw [List.any_eq_true]
        exact ⟨ent (getDD s.blocks q), List.mem_map.mpr ⟨_, getDD_mem_live hv hp.1, rfl⟩, hp.2⟩
      simp [this]

/-! ## `Hnewref`, `Htagnewref` -/

theorem newref_inv (cfg : Cfg) {s : File} (h : Inv cfg s) : Inv cfg (hnewref s).2 ∧ (hnewref s).2.slots = s.slots := by
  unfold hnewref
  split
  · refine ⟨⟨⟨h.wf.wfl, h.wf.noub, h.wf.ne, h.wf.slotne⟩, DiskOK_frame h.disk rfl rfl rfl rfl rfl, ?_⟩, rfl⟩
    intro hf d hd
    have := h.maxref hf d hd
    show d.ref ≤ s.maxref + 1
    omega
  · exact ⟨h, rfl⟩

theorem tagnewref_inv (cfg : Cfg) {s : File} (h : Inv cfg s) (t : Nat) :
    Inv cfg (htagnewref cfg s t).2 ∧ (htagnewref cfg s t).2.slots = s.slots := by
  obtain ⟨hwf, hb, hd, hfe, hc, hfd, hm, _⟩ := htagnewref_spec cfg h.wf t
  have hsl : (htagnewref cfg s t).2.slots = s.slots := by show slotsOf _ = slotsOf _; rw [hb]
  refine ⟨⟨hwf, DiskOK_frame h.disk hb hd hfe hc hfd, ?_⟩, hsl⟩
  intro hf d hdd
  rw [hm]
  apply h.maxref hf
  rw [live_eq] at hdd ⊢
  rw [hsl] at hdd; exact hdd

/-! ## `Hcache`, `Hsync` -/

theorem dview_map_clean (blocks : List Block) : dview (blocks.map clean) = dview blocks := by
  simp [dview, clean, List.map_map, Function.comp_def]

theorem WF_of_dview {s s' : File} (h : WF s) (hd : dview s'.blocks = dview s.blocks) (ht : s'.tags = s.tags)
    (hu : s'.ub = s.ub) : WF s' := by
  refine ⟨?_, by rw [hu]; exact h.noub, by rw [length_congr hd]; exact h.ne, ?_⟩
  · show WFl (slotsOf s'.blocks) s'.tags
    rw [slotsOf_congr hd, ht]; exact h.wfl
  · intro b hb
    rw [valid_congr hd]
    exact h.slotne b (by rw [← length_congr hd]; exact hb)

theorem htpSync_inv (cfg : Cfg) {s : File} (h : Inv cfg s) : Inv cfg (htpSync s) ∧ (htpSync s).slots = s.slots := by
  have hb := (htpSync_spec h.disk).1
  have hdv : dview (htpSync s).blocks = dview s.blocks := by rw [hb]; exact dview_map_clean _
  have hsl : (htpSync s).slots = s.slots := slotsOf_congr hdv
  refine ⟨⟨WF_of_dview h.wf hdv rfl rfl, htpSync_DiskOK h.disk, ?_⟩, hsl⟩
  intro hf d hd
  rw [live_eq, hsl] at hd
  exact h.maxref hf d hd

theorem hiSync_inv (cfg : Cfg) {s : File} (h : Inv cfg s) : Inv cfg (hiSync s) ∧ (hiSync s).slots = s.slots := by
  unfold hiSync
  split
  · obtain ⟨hi, hsl⟩ := htpSync_inv cfg h
    refine ⟨⟨⟨hi.wf.wfl, hi.wf.noub, hi.wf.ne, hi.wf.slotne⟩, ?_, hi.maxref⟩, hsl⟩
    have := hiSync_DiskOK h.disk
    unfold hiSync at this
    rename_i hc
    rw [if_pos hc] at this
    exact this
  · exact ⟨h, rfl⟩

theorem no_dirty_of_not_cached {s : File} (h : DiskOK s) (hc : s.cache = false ∨ s.fdirty = false) :
    ∀ b ∈ s.blocks, b.dirty = false := by
  intro b hb
  cases hd : b.dirty with
  | false => rfl
  | true =>
    have := h.dirtyflag b hb hd
    rcases hc with hc | hc <;> simp [hc] at this

theorem hiSync_clean {s : File} (h : DiskOK s) (hc : s.cache = true) : ∀ b ∈ (hiSync s).blocks, b.dirty = false := by
  unfold hiSync
  by_cases hf : s.fdirty = true
  · rw [if_pos ⟨hc, hf⟩]
    intro b hb
    have hbb : b ∈ (htpSync s).blocks := hb
    rw [(htpSync_spec h).1] at hbb
    obtain ⟨b0, _, rfl⟩ := List.mem_map.mp hbb
    rfl
  · rw [if_neg (by simp [hf])]
    have hf' : s.fdirty = false := by cases hh : s.fdirty <;> simp_all
    exact no_dirty_of_not_cached h (Or.inr hf')

theorem hcache_inv (cfg : Cfg) {s : File} (h : Inv cfg s) (on : Bool) :
    Inv cfg (hcache s on) ∧ (hcache s on).slots = s.slots := by
  unfold hcache
  by_cases hc : on = false ∧ s.cache = true
  · simp only [hc, and_self, if_true]
    obtain ⟨hi, hsl⟩ := hiSync_inv cfg h
    have hcl := hiSync_clean h.disk hc.2
    refine ⟨⟨⟨hi.wf.wfl, hi.wf.noub, hi.wf.ne, hi.wf.slotne⟩, ?_, hi.maxref⟩, hsl⟩
    refine ⟨hi.disk.len, hi.disk.clean, hi.disk.chain, hi.disk.bound, ?_⟩
    intro b hb hd
    have := hcl b hb
    rw [this] at hd; cases hd
  · rw [if_neg hc]
    refine ⟨⟨⟨h.wf.wfl, h.wf.noub, h.wf.ne, h.wf.slotne⟩, ?_, h.maxref⟩, rfl⟩
    refine ⟨h.disk.len, h.disk.clean, h.disk.chain, h.disk.bound, ?_⟩
    intro b hb hd
    have := h.disk.dirtyflag b hb hd
    show on = true ∧ s.fdirty = true
    refine ⟨?_, this.2⟩
    cases on with
    | true => rfl
    | false => exact absurd ⟨rfl, this.1⟩ hc

/-! ## `Hclose` + `Hopen`: `HTPstart` rebuilds the same directory -/

def deadOf (d : DD) : DD := { d with tag := DFTAG_NULL }

theorem liveOf_map_dead (l : List DD) : liveOf (l.map deadOf) = [] := by
  simp [liveOf, List.filter_eq_nil_iff, isLive, deadOf]

theorem registerAll_spec_aux {l : List DD} {tags0 : Tags} (hl : WFl l tags0) :
    ∀ (rest done : List DD) (acc : Tags), l = done ++ rest → WFl (done ++ rest.map deadOf) acc →
      ∃ tags', registerAll acc rest = some tags' ∧ WFl l tags' := by
  intro rest
  induction rest with
  | nil =>
    intro done acc hd hw
    refine ⟨acc, rfl, ?_⟩
    rw [hd]; simpa using hw
  | cons d rest ih =>
    intro done acc hd hw
    by_cases hdt : d.tag = DFTAG_NULL
    · have hdead : deadOf d = d := by cases d; simp_all [deadOf]
      have : registerAll acc (d :: rest) = registerAll acc rest := by
        simp [registerAll, hdt]
      rw [this]
      apply ih (done ++ [d]) acc (by rw [hd]; simp)
      simp only [List.map_cons, hdead] at hw
      simpa using hw
    · have hlive : isLive d = true := by simp [isLive]; exact hdt
      have hdm : d ∈ liveOf l := by rw [hd]; exact mem_liveOf.mpr ⟨by simp, hlive⟩
      have hok := hl.live_ok d hdm
      have hn : KeysNodup (done ++ d :: rest) := by rw [← hd]; exact hl.nodup
      obtain ⟨k1, _⟩ := keys_of_split hn hlive
      simp only [List.map_cons] at hw
      obtain ⟨tags', hreg, hw'⟩ := WFl_insert (d' := d) hw (by simp [isLive, deadOf]) hok.1 hok.2 (by
        intro x hx
        rw [liveOf_split_dead (by simp [isLive, deadOf]), liveOf_map_dead, List.append_nil] at hx
        have := k1 (ent x) (List.mem_map.mpr ⟨x, hx, rfl⟩)
        simpa using this) (hl.offlen d hdm)
      have : registerAll acc (d :: rest) = registerAll tags' rest := by
        simp [registerAll, hdt, hreg]
      rw [this]
      apply ih (done ++ [d]) tags' (by rw [hd]; simp)
      simpa using hw'

theorem registerAll_spec {l : List DD} {tags0 : Tags} (hl : WFl l tags0) :
    ∃ tags', registerAll [] l = some tags' ∧ WFl l tags' := by
  apply registerAll_spec_aux hl l [] [] rfl
  have e : liveOf ([] ++ l.map deadOf) = [] := by simpa using liveOf_map_dead l
  have h1 : ∀ d ∈ liveOf ([] ++ l.map deadOf), (2 ≤ d.tag ∧ d.tag < 65536) ∧ (1 ≤ d.ref ∧ d.ref < 65536) := by
    rw [e]; intro d hd; cases hd
  have h2 : KeysNodup ([] ++ l.map deadOf) := by unfold KeysNodup; rw [e]; exact List.nodup_nil
  have h3 : TagsOK [] ([] ++ l.map deadOf) := by
    constructor
    · intro base bv h; simp [tget] at h
    · intro base _ d hd; rw [e] at hd; cases hd
  have h4 : ∀ d ∈ liveOf ([] ++ l.map deadOf), okOL d := by rw [e]; intro d hd; cases hd
  exact ⟨h1, h2, h3, h4⟩

theorem foldl_maxref_ge (l : List DD) : ∀ (m : Nat),
    m ≤ l.foldl (fun (m : Nat) (d : DD) => if m < d.ref then d.ref else m) m ∧
    ∀ d ∈ l, d.ref ≤ l.foldl (fun (m : Nat) (d : DD) => if m < d.ref then d.ref else m) m := by
  induction l with
  | nil => intro m; simp
  | cons a t ih =>
    intro m
    simp only [List.foldl_cons]
    obtain ⟨h1, h2⟩ := ih (if m < a.ref then a.ref else m)
    have h0 : m ≤ (if m < a.ref then a.ref else m) ∧ a.ref ≤ (if m < a.ref then a.ref else m) := by
      split <;> omega
    refine ⟨Nat.le_trans h0.1 h1, ?_⟩
    intro d hd
    rcases List.mem_cons.mp hd with rfl | hd
    · exact Nat.le_trans h0.2 h1
    · exact h2 d hd

theorem foldl_dds_ge (l : List DD) : ∀ (e : Nat),
    e ≤ l.foldl (fun (e : Nat) (d : DD) => if d.off + d.len > (e : Int) then (d.off + d.len).toNat else e) e := by
  induction l with
  | nil => intro e; simp
  | cons a t ih =>
    intro e
    simp only [List.foldl_cons]
    have h0 : e ≤ (if a.off + a.len > (e : Int) then (a.off + a.len).toNat else e) := by
      split <;> omega
    exact Nat.le_trans h0 (ih _)

theorem endOff_aux (blocks : List Block) : ∀ (e : Nat),
    e ≤ blocks.foldl (fun (e : Nat) (b : Block) =>
        let e := max e (b.myoff + (NDDS_SZ + OFFSET_SZ) + b.dds.length * DD_SZ)
        b.dds.foldl (fun (e : Nat) (d : DD) => if d.off + d.len > (e : Int) then (d.off + d.len).toNat else e) e) e ∧
    ∀ b ∈ blocks, b.myoff < blocks.foldl (fun (e : Nat) (b : Block) =>
        let e := max e (b.myoff + (NDDS_SZ + OFFSET_SZ) + b.dds.length * DD_SZ)
        b.dds.foldl (fun (e : Nat) (d : DD) => if d.off + d.len > (e : Int) then (d.off + d.len).toNat else e) e) e := by
  induction blocks with
  | nil => intro e; simp
  | cons a t ih =>
    intro e
    simp only [List.foldl_cons]
    have hsz : 0 < NDDS_SZ + OFFSET_SZ := by decide
    have hstep := foldl_dds_ge a.dds (max e (a.myoff + (NDDS_SZ + OFFSET_SZ) + a.dds.length * DD_SZ))
    have hm1 : e ≤ max e (a.myoff + (NDDS_SZ + OFFSET_SZ) + a.dds.length * DD_SZ) := Nat.le_max_left _ _
    have hm2 : a.myoff + (NDDS_SZ + OFFSET_SZ) + a.dds.length * DD_SZ ≤
        max e (a.myoff + (NDDS_SZ + OFFSET_SZ) + a.dds.length * DD_SZ) := Nat.le_max_right _ _
    obtain ⟨h1, h2⟩ := ih (a.dds.foldl (fun (e : Nat) (d : DD) => if d.off + d.len > (e : Int) then (d.off + d.len).toNat else e)
      (max e (a.myoff + (NDDS_SZ + OFFSET_SZ) + a.dds.length * DD_SZ)))
    refine ⟨Nat.le_trans hm1 (Nat.le_trans hstep h1), ?_⟩
    intro b hb
    rcases List.mem_cons.mp hb with rfl | hb
    · have : b.myoff < b.myoff + (NDDS_SZ + OFFSET_SZ) + b.dds.length * DD_SZ := by omega
      exact Nat.lt_of_lt_of_le this (Nat.le_trans hm2 (Nat.le_trans hstep h1))
    · exact h2 b hb

theorem endOff_bound (blocks : List Block) : ∀ b ∈ blocks, b.myoff < endOff blocks := (endOff_aux blocks 0).2

/-- the state `Hopen` builds from the flushed disk image -/
theorem htpStart_spec (cfg : Cfg) {s : File} (h : Inv cfg s) :
    ∃ s', htpStart (hclose s).disk = some s' ∧ Inv cfg s' ∧ s'.slots = s.slots := by
  have hdisk := hclose_disk h.disk
  have hread : readChain (hclose s).disk (hclose s).disk.length MAGICLEN = some (s.blocks.map clean) :=
    decode_synced h.wf h.disk
  have hdv : dview (s.blocks.map clean) = dview s.blocks := dview_map_clean _
  have hsl : slotsOf (s.blocks.map clean) = s.slots := slotsOf_congr hdv
  obtain ⟨tags', hreg, hwfl⟩ := registerAll_spec h.wf.wfl
  unfold htpStart
  rw [hread]
  simp only [hsl, hreg]
  refine ⟨_, rfl, ⟨⟨?_, rfl, ?_, ?_⟩, ⟨?_, ?_, ?_, ?_, ?_⟩, ?_⟩, hsl⟩
  · show WFl (slotsOf (s.blocks.map clean)) tags'
    rw [hsl]; exact hwfl
  · show 0 < (s.blocks.map clean).length
    simpa using h.wf.ne
  · intro b hb
    show Valid (s.blocks.map clean) _
    rw [valid_congr hdv]
    exact h.wf.slotne b (by simpa using hb)
  · show (hclose s).disk.length = (s.blocks.map clean).length
    rw [hdisk]; simp
  · intro i b d h1 h2 _
    have h1' : (s.blocks.map clean)[i]? = some b := h1
    have h2' : (hclose s).disk[i]? = some d := h2
    rw [hdisk] at h2'
    simp only [List.getElem?_map] at h1' h2'
    cases hbi : s.blocks[i]? with
    | none => simp [hbi] at h1'
    | some b0 =>
      simp [hbi] at h1' h2'
      subst h1' h2'; rfl
  · show chainFrom MAGICLEN (s.blocks.map clean)
    exact (chainFrom_map_clean _ _).mpr h.disk.chain
  · exact endOff_bound _
  · intro b hb hd
    have hb' : b ∈ s.blocks.map clean := hb
    obtain ⟨b0, _, rfl⟩ := List.mem_map.mp hb'
    simp [clean] at hd
  · intro _ d hd
    have hd' : d ∈ liveOf (slotsOf (s.blocks.map clean)) := hd
    rw [hsl] at hd'
    exact (foldl_maxref_ge s.slots 0).2 d (mem_liveOf.mp hd').1

theorem specStep_inquire_snd (cfg : Cfg) (sp : List Ent) (t r : Nat) : (specStep cfg sp (.inquire t r)).2 = sp := by
  simp only [specStep]
  cases specGet sp (baseTag t, r) <;> rfl

theorem hreopen_inv (cfg : Cfg) {s : File} (h : Inv cfg s) :
    ∃ s', hreopen cfg s = some s' ∧ Inv cfg s' ∧ s'.abs.Perm s.abs := by
  obtain ⟨s1, hst, hinv1, hsl1⟩ := htpStart_spec cfg h
  unfold hreopen
  rw [hst]
  simp only
  obtain ⟨s2, hs2, hinv2, _, hperm⟩ := inquire_refines cfg hinv1 DFTAG_VERSION 1 (by decide) (by decide)
  simp only [step, Option.some.injEq] at hs2
  rw [specStep_inquire_snd] at hperm
  refine ⟨_, rfl, by rw [hs2]; exact hinv2, ?_⟩
  rw [hs2]
  have : s1.abs = s.abs := abs_of_slots hsl1
  rw [← this]; exact hperm

end H4.DD
