import H4.Lemmas.Bits
import H4.BitIO
/-! Lemmas for the `hbitio.c` model: arithmetic of the bit packer, the sequential-write invariant `WInv`
    and the sequential-read invariant `RInv`. Core only. -/
set_option linter.unusedSimpArgs false
set_option linter.unusedVariables false
namespace H4.BitIO
open H4.Bits H4.Gen.Hbitio

theorem consts : BITBUF_SIZE = 4096 ∧ BITNUM = 8 ∧ DATANUM = 32 := ⟨rfl, rfl, rfl⟩
theorem maskL_eq : ∀ w, w < 33 → maskL w = 2 ^ w - 1 := by decide
theorem maskC_eq : ∀ w, w < 9 → maskC w = 2 ^ w - 1 := by decide

theorem or_eq_add {B x c : Nat} (hB : B % 2 ^ c = 0) (hx : x < 2 ^ c) : B ||| x = B + x := by
  have h := Nat.shiftLeft_add_eq_or_of_lt hx (B / 2 ^ c)
  rw [Nat.shiftLeft_eq] at h
  have : B / 2 ^ c * 2 ^ c = B := by
    have := Nat.div_add_mod B (2 ^ c); rw [hB, Nat.mul_comm] at this; omega
  rw [this] at h; exact h.symm

theorem div_of_mul_add {q k d : Nat} (hd : d < 2 ^ k) : (q * 2 ^ k + d) / 2 ^ k = q := by
  rw [Nat.mul_comm, Nat.mul_add_div (Nat.two_pow_pos k), Nat.div_eq_of_lt hd]; omega

theorem msbBits_mul_add {q k d : Nat} (hd : d < 2 ^ k) (a : Nat) :
    msbBits (a + k) (q * 2 ^ k + d) = msbBits a q ++ msbBits k d := by
  rw [msbBits_add, div_of_mul_add hd]
  congr 1
  apply msbBits_eq_of_mod
  rw [Nat.mul_comm, Nat.mul_add_mod]

theorem pending_early {c w B d : Nat} (hc : c ≤ 8) (hw : w < c) (hB : B < 256) (hB0 : B % 2 ^ c = 0) (hd : d < 2 ^ w) :
    B + d * 2 ^ (c - w) < 256 ∧ (B + d * 2 ^ (c - w)) % 2 ^ (c - w) = 0 ∧ d * 2 ^ (c - w) < 2 ^ c ∧
    msbBits (8 - (c - w)) ((B + d * 2 ^ (c - w)) / 2 ^ (c - w)) = msbBits (8 - c) (B / 2 ^ c) ++ msbBits w d := by
  obtain ⟨q, rfl⟩ : ∃ q, B = q * 2 ^ c := ⟨B / 2 ^ c, by have := Nat.div_add_mod B (2 ^ c); rw [hB0, Nat.mul_comm] at this; omega⟩
  have hcw : 2 ^ c = 2 ^ w * 2 ^ (c - w) := by rw [← Nat.pow_add]; congr 1; omega
  have h8 : (256 : Nat) = 2 ^ (8 - c) * 2 ^ c := by
    rw [← Nat.pow_add, show 8 - c + c = 8 by omega]
  have hq : q < 2 ^ (8 - c) := by
    rw [h8] at hB; exact Nat.lt_of_mul_lt_mul_right hB
  have e1 : q * 2 ^ c + d * 2 ^ (c - w) = (q * 2 ^ w + d) * 2 ^ (c - w) := by
    rw [hcw, Nat.add_mul, Nat.mul_assoc]
  have hlt : q * 2 ^ w + d < 2 ^ (8 - c) * 2 ^ w := by
    have : (q + 1) * 2 ^ w ≤ 2 ^ (8 - c) * 2 ^ w := Nat.mul_le_mul_right _ hq
    rw [Nat.add_mul] at this; omega
  refine ⟨?_, ?_, ?_, ?_⟩
  · rw [e1, h8, hcw, ← Nat.mul_assoc]
    exact Nat.mul_lt_mul_of_lt_of_le hlt (Nat.le_refl _) (Nat.two_pow_pos _)
  · rw [e1, Nat.mul_mod_left]
  · rw [hcw]; exact Nat.mul_lt_mul_of_lt_of_le hd (Nat.le_refl _) (Nat.two_pow_pos _)
  · rw [e1, Nat.mul_div_cancel _ (Nat.two_pow_pos _), Nat.mul_div_cancel _ (Nat.two_pow_pos _)]
    have : 8 - (c - w) = (8 - c) + w := by omega
    rw [this, msbBits_mul_add hd]

theorem exists_mul_of_mod {B c : Nat} (h : B % 2 ^ c = 0) : ∃ q, B = q * 2 ^ c :=
  ⟨B / 2 ^ c, by have := Nat.div_add_mod B (2 ^ c); rw [h, Nat.mul_comm] at this; omega⟩

theorem first_byte {c w B d : Nat} (hc : c ≤ 8) (hw : c ≤ w) (hB : B < 256) (hB0 : B % 2 ^ c = 0) (hd : d < 2 ^ w) :
    d / 2 ^ (w - c) < 2 ^ c ∧ B + d / 2 ^ (w - c) < 256 ∧
    msbBits 8 (B + d / 2 ^ (w - c)) ++ msbBits (w - c) d = msbBits (8 - c) (B / 2 ^ c) ++ msbBits w d := by
  obtain ⟨q, rfl⟩ := exists_mul_of_mod hB0
  have h8 : (256 : Nat) = 2 ^ (8 - c) * 2 ^ c := by
    rw [← Nat.pow_add, show 8 - c + c = 8 by omega]
  have hq : q < 2 ^ (8 - c) := by
    rw [h8] at hB; exact Nat.lt_of_mul_lt_mul_right hB
  have hx : d / 2 ^ (w - c) < 2 ^ c := by
    rw [Nat.div_lt_iff_lt_mul (Nat.two_pow_pos _), ← Nat.pow_add, show c + (w - c) = w by omega]; exact hd
  have hlt : q * 2 ^ c + d / 2 ^ (w - c) < 256 := by
    have : (q + 1) * 2 ^ c ≤ 2 ^ (8 - c) * 2 ^ c := Nat.mul_le_mul_right _ hq
    rw [Nat.add_mul] at this; omega
  refine ⟨hx, hlt, ?_⟩
  have e8 : 8 = (8 - c) + c := by omega
  have : msbBits 8 (q * 2 ^ c + d / 2 ^ (w - c)) = msbBits (8 - c) q ++ msbBits c (d / 2 ^ (w - c)) := by
    conv => lhs; rw [e8]
    exact msbBits_mul_add hx _
  rw [this, Nat.mul_div_cancel _ (Nat.two_pow_pos _), List.append_assoc]
  congr 1
  have ew : w = c + (w - c) := by omega
  conv => rhs; rw [ew]
  rw [msbBits_add]

theorem whole_byte {c d : Nat} (hc : 8 ≤ c) :
    msbBits c d = msbBits 8 ((d / 2 ^ (c - 8)) % 256) ++ msbBits (c - 8) d := by
  have : c = 8 + (c - 8) := by omega
  conv => lhs; rw [this]
  rw [msbBits_add]
  congr 1
  exact (msbBits_mod (k := 8) _ (Nat.le_refl 8)).symm

theorem pending_final {c2 d : Nat} (hc : c2 < 8) :
    (d * 2 ^ (8 - c2)) % 256 < 256 ∧ ((d * 2 ^ (8 - c2)) % 256) % 2 ^ (8 - c2) = 0 ∧
    msbBits (8 - (8 - c2)) (((d * 2 ^ (8 - c2)) % 256) / 2 ^ (8 - c2)) = msbBits c2 d := by
  have h8 : (256 : Nat) = 2 ^ c2 * 2 ^ (8 - c2) := by
    rw [← Nat.pow_add, show c2 + (8 - c2) = 8 by omega]
  have e : (d * 2 ^ (8 - c2)) % 256 = (d % 2 ^ c2) * 2 ^ (8 - c2) := by
    rw [h8, Nat.mul_mod_mul_right]
  refine ⟨Nat.mod_lt _ (by omega), ?_, ?_⟩
  · rw [e, Nat.mul_mod_left]
  · rw [e, Nat.mul_div_cancel _ (Nat.two_pow_pos _), show 8 - (8 - c2) = c2 by omega]
    exact msbBits_mod d (Nat.le_refl _)

/-! ## sequential writing -/

/-- bytes emitted so far: flushed blocks followed by the bytes in the buffer before `bytep` -/
def emitted (s : St) : List Byte := s.elem ++ s.pre.reverse

/-- invariant of a bit id in write mode that has only been written sequentially since `Hstartbitwrite` on a new element -/
structure WInv (s : St) : Prop where
  wMode : s.wMode = true
  wAcc : s.wAccess = true
  noOob : s.oob = false
  noErr : s.err = false
  posn : s.posn = s.elem.length
  blk : s.blockOff = s.elem.length
  bytez : s.bytez = 4096
  bytep : s.bytep = s.pre.length
  lt : s.pre.length < 4096
  len : s.pre.length + s.post.length = 4096
  boff : s.byteOff = s.elem.length + s.pre.length
  moff : s.maxOff ≤ s.byteOff
  fresh : s.elem = [] → ∀ x ∈ s.post, x = 0
  big : s.elem = [] ∨ 4096 ≤ s.elem.length

theorem putByte_ok {s : St} (h : WInv s) (b : Nat) :
    WInv (putByte s b) ∧ emitted (putByte s b) = emitted s ++ [UInt8.ofNat b] ∧
    (putByte s b).count = s.count ∧ (putByte s b).bits = s.bits ∧ (putByte s b).maxOff = s.maxOff ∧
    (putByte s b).byteOff = s.byteOff + 1 := by
  obtain ⟨h1, h2, h3, h4, h5, h6, h7, h8, h9, h10, h11, h12, h13, h14⟩ := h
  match hp : s.post with
  | [] => simp [hp] at h10; omega
  | x :: r =>
    simp only [putByte, St.store, hp, afterStore, St.adv]
    by_cases hfull : s.bytep + 1 = s.bytez
    · -- buffer full: flushed
      have hr : r = [] := by
        have : r.length = 0 := by simp [hp] at h10; omega
        exact List.eq_nil_of_length_eq_zero this
      subst hr
      have hmo : ¬ (s.maxOff > s.byteOff + 1) := by omega
      simp only [hfull, if_true, St.setPtr, St.buf, hWrite, hmo, if_false, h7]
      have hlen : (UInt8.ofNat b :: s.pre).reverse.length = 4096 := by simp; omega
      have htake : List.take 4096 ((UInt8.ofNat b :: s.pre).reverse ++ []) = (UInt8.ofNat b :: s.pre).reverse := by
        rw [List.append_nil, List.take_of_length_le (by omega)]
      rw [htake]
      refine ⟨⟨?_, ?_, ?_, ?_, ?_, ?_, ?_, ?_, ?_, ?_, ?_, ?_, ?_, ?_⟩, ?_, ?_, ?_, ?_, ?_⟩ <;>
        first
        | assumption
        | (simp [emitted, h5, h6, h11]; done)
        | (simp [emitted, h5, h6, h11]; omega)
    · simp only [hfull, if_false]
      have hlt : s.pre.length + 1 < 4096 := by rw [h8, h7] at hfull; omega
      have hr : s.pre.length + (r.length + 1) = 4096 := by simpa [hp] using h10
      refine ⟨⟨?_, ?_, ?_, ?_, ?_, ?_, ?_, ?_, ?_, ?_, ?_, ?_, ?_, ?_⟩, ?_, ?_, ?_, ?_, ?_⟩ <;>
        first
        | assumption
        | (intro he x hx; exact h13 he x (by simp [hp, hx]))
        | (simp [emitted, h8, h11]; done)
        | (simp [emitted, h8, h11]; omega)

theorem WInv.regs {s : St} (h : WInv s) (c b : Nat) : WInv { s with count := c, bits := b } :=
  ⟨h.wMode, h.wAcc, h.noOob, h.noErr, h.posn, h.blk, h.bytez, h.bytep, h.lt, h.len, h.boff, h.moff, h.fresh, h.big⟩

theorem WInv.cnt {s : St} (h : WInv s) (c : Nat) : WInv { s with count := c } :=
  ⟨h.wMode, h.wAcc, h.noOob, h.noErr, h.posn, h.blk, h.bytez, h.bytep, h.lt, h.len, h.boff, h.moff, h.fresh, h.big⟩

theorem wholeBytes_ok : ∀ (f : Nat) (s : St) (d c : Nat), WInv s → c ≤ f →
    WInv (wholeBytes f s d c).1 ∧ (wholeBytes f s d c).2 < 8 ∧
    (wholeBytes f s d c).1.count = s.count ∧ (wholeBytes f s d c).1.bits = s.bits ∧
    (wholeBytes f s d c).1.maxOff = s.maxOff ∧ s.byteOff ≤ (wholeBytes f s d c).1.byteOff ∧
    ∃ bs, emitted (wholeBytes f s d c).1 = emitted s ++ bs ∧ bytesBits bs ++ msbBits (wholeBytes f s d c).2 d = msbBits c d := by
  intro f
  induction f with
  | zero =>
    intro s d c h hc
    have : c = 0 := by omega
    subst this
    exact ⟨h, by simp [wholeBytes], rfl, rfl, rfl, Nat.le_refl _, [], by simp [wholeBytes], by simp [wholeBytes]⟩
  | succ f ih =>
    intro s d c h hc
    unfold wholeBytes
    by_cases h8 : c ≥ BITNUM
    · rw [if_pos h8]
      have hp := putByte_ok h ((d >>> (c - BITNUM)) % 256)
      have hc8 : 8 ≤ c := h8
      obtain ⟨i1, i2, i3, i4, i5, i6, bs, i7, i8⟩ := ih (putByte s ((d >>> (c - BITNUM)) % 256)) d (c - BITNUM) hp.1 (by simp [BITNUM] at h8 ⊢; omega)
      refine ⟨i1, i2, by rw [i3, hp.2.2.1], by rw [i4, hp.2.2.2.1], by rw [i5, hp.2.2.2.2.1], by have := hp.2.2.2.2.2; omega, ?_⟩
      refine ⟨UInt8.ofNat ((d >>> (c - BITNUM)) % 256) :: bs, by rw [i7, hp.2.1]; simp, ?_⟩
      rw [bytesBits_cons, List.append_assoc, i8, toNat_ofNat_byte, Nat.mod_mod, Nat.shiftRight_eq_div_pow]
      exact (whole_byte hc8).symm
    · rw [if_neg h8]
      exact ⟨h, by simp [BITNUM] at h8; omega, rfl, rfl, rfl, Nat.le_refl _, [], by simp, by simp⟩

/-- register invariant in write mode: `count` free bit positions, the low `count` bits of `bits` are clear -/
def RegOK (s : St) : Prop := 1 ≤ s.count ∧ s.count ≤ 8 ∧ s.bits < 256 ∧ s.bits % 2 ^ s.count = 0

/-- the logical bit stream written so far: emitted bytes, then the bits pending in the `bits` register -/
def stream (s : St) : List Bool := bytesBits (emitted s) ++ msbBits (8 - s.count) (s.bits / 2 ^ s.count)

theorem pow_le_256 {c : Nat} (h : c ≤ 8) : 2 ^ c ≤ 256 := by
  have : 2 ^ c ≤ 2 ^ 8 := Nat.pow_le_pow_right (by omega) h
  simpa using this

theorem bitwriteCore_ok {s : St} (h : WInv s) (hr : RegOK s) (w v : Nat) (hw1 : 1 ≤ w) (hw : w ≤ 32) :
    WInv (bitwriteCore s w v) ∧ RegOK (bitwriteCore s w v) ∧
    stream (bitwriteCore s w v) = stream s ++ msbBits w v ∧
    (s.maxOff = s.byteOff → (bitwriteCore s w v).maxOff = (bitwriteCore s w v).byteOff) := by
  obtain ⟨hc1, hc8, hB, hB0⟩ := hr
  have hmask : v &&& maskL w = v % 2 ^ w := by
    rw [maskL_eq w (by omega), Nat.and_two_pow_sub_one_eq_mod]
  have hd : v % 2 ^ w < 2 ^ w := Nat.mod_lt _ (Nat.two_pow_pos _)
  have hbits : msbBits w (v % 2 ^ w) = msbBits w v := msbBits_mod v (Nat.le_refl _)
  unfold bitwriteCore
  simp only [hmask]
  generalize v % 2 ^ w = d at hd hbits
  by_cases hearly : w < s.count
  · rw [if_pos hearly]
    obtain ⟨p1, p2, p3, p4⟩ := pending_early hc8 hearly hB hB0 hd
    have hx : (d <<< (s.count - w)) % 256 = d * 2 ^ (s.count - w) := by
      rw [Nat.shiftLeft_eq]
      exact Nat.mod_eq_of_lt (Nat.lt_of_lt_of_le p3 (pow_le_256 hc8))
    have hor : s.bits ||| (d <<< (s.count - w)) % 256 = s.bits + d * 2 ^ (s.count - w) := by
      rw [hx]; exact or_eq_add hB0 p3
    rw [hor]
    refine ⟨h.regs _ _, ⟨by simp; omega, by simp; omega, p1, p2⟩, ?_, fun e => e⟩
    simp only [stream, emitted]
    rw [p4, hbits, List.append_assoc]
  · rw [if_neg hearly]
    have hcw : s.count ≤ w := by omega
    obtain ⟨f1, f2, f3⟩ := first_byte hc8 hcw hB hB0 hd
    have hx : (d >>> (w - s.count)) % 256 = d / 2 ^ (w - s.count) := by
      rw [Nat.shiftRight_eq_div_pow]
      exact Nat.mod_eq_of_lt (Nat.lt_of_lt_of_le f1 (pow_le_256 hc8))
    have hor : (s.bits ||| (d >>> (w - s.count)) % 256) % 256 = s.bits + d / 2 ^ (w - s.count) := by
      rw [hx, or_eq_add hB0 f1]; exact Nat.mod_eq_of_lt f2
    rw [hor]
    obtain ⟨q1, q2, q3, q4, q5, q6⟩ := putByte_ok h (s.bits + d / 2 ^ (w - s.count))
    generalize putByte s (s.bits + d / 2 ^ (w - s.count)) = s1 at q1 q2 q3 q4 q5 q6
    obtain ⟨r1, r2, r3, r4, r5, r6, bs, r7, r8⟩ := wholeBytes_ok (w - s.count) s1 d (w - s.count) q1 (Nat.le_refl _)
    generalize wholeBytes (w - s.count) s1 d (w - s.count) = res at r1 r2 r3 r4 r5 r6 r7 r8
    obtain ⟨s2, c2⟩ := res
    simp only at r1 r2 r3 r4 r5 r6 r7 r8 ⊢
    have hcnt : BITNUM - c2 > 0 := by simp [BITNUM]; omega
    rw [if_pos hcnt]
    obtain ⟨g1, g2, g3⟩ := pending_final (d := d) r2
    have hb8 : BITNUM - c2 = 8 - c2 := rfl
    have hsl : (d <<< (BITNUM - c2)) % 256 = (d * 2 ^ (8 - c2)) % 256 := by rw [Nat.shiftLeft_eq]; rfl
    rw [hsl, hb8]
    have hW : WInv { s2 with count := 8 - c2, bits := d * 2 ^ (8 - c2) % 256 } := r1.regs _ _
    have hstream : bytesBits (s2.elem ++ s2.pre.reverse) ++ msbBits (8 - (8 - c2)) (d * 2 ^ (8 - c2) % 256 / 2 ^ (8 - c2)) =
        stream s ++ msbBits w v := by
      have e1 : s2.elem ++ s2.pre.reverse = emitted s2 := rfl
      rw [e1, r7, q2, g3, bytesBits_append, bytesBits_append, bytesBits_singleton, toNat_ofNat_byte, Nat.mod_eq_of_lt f2]
      rw [List.append_assoc, List.append_assoc, r8, f3, hbits]
      simp [stream, List.append_assoc]
    have hmo : s2.maxOff ≤ s2.byteOff := r1.moff
    by_cases hgt : s2.byteOff > s2.maxOff
    · rw [if_pos hgt]
      refine ⟨⟨hW.wMode, hW.wAcc, hW.noOob, hW.noErr, hW.posn, hW.blk, hW.bytez, hW.bytep, hW.lt, hW.len, hW.boff, Nat.le_refl _, hW.fresh, hW.big⟩,
        ⟨by simp <;> omega, by simp <;> omega, g1, g2⟩, hstream, fun _ => rfl⟩
    · rw [if_neg hgt]
      refine ⟨hW, ⟨by simp <;> omega, by simp <;> omega, g1, g2⟩, hstream, fun _ => ?_⟩
      show s2.maxOff = s2.byteOff
      omega

theorem bitwrite_eq {s : St} (h : WInv s) (hr : RegOK s) (w v : Nat) (hw1 : 1 ≤ w) (hw : w ≤ 32) :
    bitwrite s w v = (bitwriteCore s w (v % 2 ^ 32), some w) := by
  have hc := (bitwriteCore_ok h hr w (v % 2 ^ 32) hw1 hw).1
  unfold bitwrite
  have h0 : ¬ w = 0 := by omega
  have hmin : min w DATANUM = w := by simp [DATANUM]; omega
  simp only [h0, if_false, h.wAcc, h.wMode, Bool.not_true, hmin, Bool.false_eq_true]
  rw [show DATANUM = 32 from rfl, hc.noErr]
  simp

theorem writeFields_ok : ∀ (fs : List (Nat × Nat)) (s : St), WInv s → RegOK s → s.maxOff = s.byteOff →
    (∀ f ∈ fs, 1 ≤ f.1 ∧ f.1 ≤ 32) →
    WInv (writeFields s fs) ∧ RegOK (writeFields s fs) ∧ (writeFields s fs).maxOff = (writeFields s fs).byteOff ∧
    stream (writeFields s fs) = stream s ++ fieldsBits fs := by
  intro fs
  induction fs with
  | nil => intro s h hr hm _; exact ⟨h, hr, hm, by simp [writeFields]⟩
  | cons f fs ih =>
    intro s h hr hm hf
    obtain ⟨w, v⟩ := f
    have hw := hf (w, v) (by simp)
    simp only [writeFields]
    rw [bitwrite_eq h hr w v hw.1 hw.2]
    obtain ⟨a1, a2, a3, a4⟩ := bitwriteCore_ok h hr w (v % 2 ^ 32) hw.1 hw.2
    obtain ⟨b1, b2, b3, b4⟩ := ih _ a1 a2 (a4 hm) (fun f hf' => hf f (by simp [hf']))
    refine ⟨b1, b2, b3, ?_⟩
    rw [b4, a3, fieldsBits_cons, List.append_assoc]
    congr 2
    exact msbBits_mod (k := 32) v hw.2

theorem startWrite_ok : WInv (startWrite none) ∧ RegOK (startWrite none) ∧
    (startWrite none).maxOff = (startWrite none).byteOff ∧ stream (startWrite none) = [] := by
  have e : startWrite none = { elem := [], posn := 0, isNew := true, wAccess := true, wMode := true, blockOff := 0, maxOff := 0, byteOff := 0, count := 8, bufRead := 0, bits := 0, pre := [], post := List.replicate 4096 0, bytep := 0, bytez := 4096 } := by
    rfl
  rw [e]
  refine ⟨⟨rfl, rfl, rfl, rfl, rfl, rfl, rfl, rfl, by simp only [List.length_nil]; omega,
    by simp only [List.length_nil, List.length_replicate], rfl, Nat.le_refl _, ?_, Or.inl rfl⟩,
    ⟨by simp, by simp, by simp, by simp⟩, rfl, ?_⟩
  · intro _ x hx; exact (List.mem_replicate.mp hx).2
  · simp [stream, emitted, msbBits]

theorem msbBits_zero (c : Nat) : msbBits c 0 = List.replicate c false := by
  induction c with
  | zero => rfl
  | succ c ih => simp [msbBits, ih, List.replicate_succ]

theorem mergeMask_eq : ∀ c, c < 8 → (255 ^^^ ((maskC (BITNUM - c) <<< c) % 256)) = 2 ^ c - 1 := by decide

/-- the byte stored by the merge branch of `HIbitflush`: pending bits on top, the old low bits of the buffer byte below -/
theorem merge_byte {c B x : Nat} (hc1 : 1 ≤ c) (hc : c < 8) (hB : B < 256) (hB0 : B % 2 ^ c = 0) :
    msbBits 8 ((((x &&& (255 ^^^ ((maskC (BITNUM - c) <<< c) % 256))) ||| B)) % 256) =
      msbBits (8 - c) (B / 2 ^ c) ++ msbBits c x := by
  rw [mergeMask_eq c hc, Nat.and_two_pow_sub_one_eq_mod, Nat.or_comm]
  have hx : x % 2 ^ c < 2 ^ c := Nat.mod_lt _ (Nat.two_pow_pos _)
  rw [or_eq_add hB0 hx]
  obtain ⟨q, rfl⟩ := exists_mul_of_mod hB0
  have h8 : (256 : Nat) = 2 ^ (8 - c) * 2 ^ c := by
    rw [← Nat.pow_add, show 8 - c + c = 8 by omega]
  have hq : q < 2 ^ (8 - c) := by
    rw [h8] at hB; exact Nat.lt_of_mul_lt_mul_right hB
  have hlt : q * 2 ^ c + x % 2 ^ c < 256 := by
    have : (q + 1) * 2 ^ c ≤ 2 ^ (8 - c) * 2 ^ c := Nat.mul_le_mul_right _ hq
    rw [Nat.add_mul] at this; omega
  rw [Nat.mod_eq_of_lt hlt, Nat.mul_div_cancel _ (Nat.two_pow_pos _)]
  have e8 : 8 = (8 - c) + c := by omega
  conv => lhs; rw [e8]
  rw [msbBits_mul_add hx, msbBits_mod x (Nat.le_refl _)]


theorem msbBits_ones : ∀ c, c ≤ 8 → msbBits c 255 = List.replicate c true := by
  intro c
  induction c with
  | zero => intro _; rfl
  | succ c ih =>
    intro h
    have ht : Nat.testBit 255 c = true := by
      rw [show (255 : Nat) = 2 ^ 8 - 1 from rfl, Nat.testBit_two_pow_sub_one]; simp; omega
    simp [msbBits, ht, ih (by omega), List.replicate_succ]

/-- the write-out part of `HIbitflush` on a state without pending bits: the element becomes the emitted bytes -/
theorem writeout_ok {s : St} (h : WInv s) (hc : s.count = 8) (hm : s.maxOff = s.byteOff) (fb : Option Bool) :
    (bitflush s fb true).elem = emitted s := by
  obtain ⟨h1, h2, h3, h4, h5, h6, h7, h8, h9, h10, h11, h12, h13, h14⟩ := h
  obtain ⟨elem, posn, isNew, wAccess, wMode, blockOff, maxOff, byteOff, count, bufRead, bits, pre, post, bytep, bytez, oob, err⟩ := s
  simp only at h1 h2 h3 h4 h5 h6 h7 h8 h9 h10 h11 h12 h13 h14 hc hm
  subst h1 h2 h3 h4 h5 h6 h7 h8 hm hc
  unfold bitflush
  have hnc : ¬ (8 < BITNUM) := by simp [BITNUM]
  simp only [hnc, if_false, if_true, emitted]
  have hmin : min 4096 (maxOff - elem.length) = pre.length := by omega
  rw [hmin]
  by_cases hz : pre.length > 0
  · simp only [hz, if_true, hWrite, St.buf]
    have htk : List.take pre.length (pre.reverse ++ post) = pre.reverse := by
      rw [List.take_append_of_le_length (by simp)]
      rw [List.take_of_length_le (by simp)]
    rw [htk, List.take_of_length_le (Nat.le_refl _), List.drop_of_length_le (by omega)]
    simp
  · simp only [hz, if_false]
    have hnil : pre = [] := List.eq_nil_of_length_eq_zero (by omega)
    simp [hnil]

/-- `Hendbitaccess(id, flushbit)` after sequential writing: the pending bits are completed to a byte with the flush bit
    and exactly the bytes produced are written out - for every stream length -/
theorem endAccess_ok {s : St} (h : WInv s) (hr : RegOK s) (hm : s.maxOff = s.byteOff) (fb : Bool) :
    ∃ k, k < 8 ∧ bytesBits (endAccess s (some fb)) = stream s ++ List.replicate k fb := by
  have hw := h.wMode
  by_cases hc : s.count < 8
  · -- pending bits: `Hbitwrite(count, flushbit ? 0xFF : 0)` completes the byte
    have hc1 := hr.1
    obtain ⟨w1, r1, s1, m1⟩ := bitwriteCore_ok h hr s.count (if fb then 0xFF else 0) hc1 (by omega)
    have hpad : msbBits s.count (if fb then 0xFF else 0) = List.replicate s.count fb := by
      cases fb
      · simp [msbBits_zero]
      · simp only [if_true]; exact msbBits_ones s.count (by omega)
    have hmin : min s.count DATANUM = s.count := by simp [DATANUM]; omega
    have hend : endAccess s (some fb) = (bitflush (bitwriteCore s s.count (if fb then 0xFF else 0)) (some fb) true).elem := by
      have hcnt' : (bitwriteCore s s.count (if fb then 0xFF else 0)).count = 8 := by
        have hl := congrArg List.length s1
        simp [stream, emitted] at hl
        have := r1.1; have := r1.2.1
        omega
      unfold endAccess
      rw [hw]; simp only [if_true]
      conv => lhs; unfold bitflush
      have hcb : s.count < BITNUM := hc
      have hge : s.byteOff ≥ s.maxOff ∧ (some fb).isSome = true := ⟨by omega, rfl⟩
      simp only [hcb, if_true, hge, and_self, hmin, Option.getD_some]
      conv => rhs; unfold bitflush
      have hnc : ¬ ((bitwriteCore s s.count (if fb then 0xFF else 0)).count < BITNUM) := by rw [hcnt']; simp [BITNUM]
      simp only [hnc, if_false, if_true]
    have hcnt' : (bitwriteCore s s.count (if fb then 0xFF else 0)).count = 8 := by
      have hl := congrArg List.length s1
      simp [stream, emitted] at hl
      have := r1.1; have := r1.2.1
      omega
    rw [hend, writeout_ok w1 hcnt' (m1 hm)]
    refine ⟨s.count, hc, ?_⟩
    have : bytesBits (emitted (bitwriteCore s s.count (if fb then 0xFF else 0))) = stream (bitwriteCore s s.count (if fb then 0xFF else 0)) := by
      simp [stream, hcnt', msbBits]
    rw [this, s1, hpad]
  · have hc8 : s.count = 8 := by have := hr.2.1; omega
    refine ⟨0, by omega, ?_⟩
    unfold endAccess
    rw [hw]; simp only [if_true]
    rw [writeout_ok h hc8 hm]
    simp [stream, hc8, msbBits]

/-- length of what `Hendbitaccess` leaves: one byte per 8 bits of the stream, the last one completed -/
theorem endAccess_length {s : St} (h : WInv s) (hr : RegOK s) (hm : s.maxOff = s.byteOff) (fb : Bool) :
    (endAccess s (some fb)).length = ((stream s).length + 7) / 8 := by
  obtain ⟨k, hk, e⟩ := endAccess_ok h hr hm fb
  have hl := congrArg List.length e
  simp only [length_bytesBits, List.length_append, List.length_replicate] at hl
  have hs : (stream s).length = 8 * (emitted s).length + (8 - s.count) := by simp [stream]
  have := hr.1; have := hr.2.1
  omega

/-! ## sequential reading -/

/-- buffer bytes between `bytep` and `bytez` -/
def window (s : St) : List Byte := s.post.take (s.bytez - s.bytep)
/-- bytes not yet fetched: the rest of the buffer window, then the rest of the element -/
def rest (s : St) : List Byte := window s ++ s.elem.drop s.posn
/-- the bits still to be delivered: the `count` low bits of `bits`, then the unfetched bytes -/
def avail (s : St) : List Bool := msbBits s.count s.bits ++ bytesBits (rest s)

structure RInv (s : St) : Prop where
  rMode : s.wMode = false
  noOob : s.oob = false
  noErr : s.err = false
  notNew : s.isNew = false
  bytep : s.bytep = s.pre.length
  zle : s.bytez ≤ 4096
  ple : s.bytep ≤ s.bytez
  len : s.pre.length + s.post.length = 4096
  cnt : s.count < 8
  posn : s.posn ≤ s.elem.length

theorem fetch_ok {s : St} (h : RInv s) {x : Byte} {t : List Byte} (hr : rest s = x :: t) :
    ∃ s1, refill s = some s1 ∧ ∃ s2, getByte s1 = (x.toNat, s2) ∧ RInv s2 ∧ s2.count = s.count ∧ s2.bits = s.bits ∧ rest s2 = t := by
  obtain ⟨h1, h2, h3, h4, h5, h6, h7, h8, h9, h10⟩ := h
  obtain ⟨elem, posn, isNew, wAccess, wMode, blockOff, maxOff, byteOff, count, bufRead, bits, pre, post, bytep, bytez, oob, err⟩ := s
  simp only at h1 h2 h3 h4 h5 h6 h7 h8 h9 h10
  subst h1 h2 h3 h4 h5
  simp only [rest, window] at hr
  unfold refill
  by_cases hfull : pre.length = bytez
  · -- refill from the element
    subst hfull
    simp only [if_true, hRead, Bool.false_eq_true, if_false]
    simp only [Nat.sub_self, List.take_zero, List.nil_append] at hr
    have hlt : posn < elem.length := by
      rcases Nat.lt_or_ge posn elem.length with h | h
      · exact h
      · rw [List.drop_of_length_le h] at hr; cases hr
    generalize hn : (if BITBUF_SIZE = 0 ∨ BITBUF_SIZE + posn > elem.length then elem.length - posn else BITBUF_SIZE) = n
    have hn' : n = min 4096 (elem.length - posn) := by
      rw [← hn]
      have hB : BITBUF_SIZE = 4096 := rfl
      by_cases hcnd : (BITBUF_SIZE = 0 ∨ BITBUF_SIZE + posn > elem.length)
      · rw [if_pos hcnd]; omega
      · rw [if_neg hcnd]; omega
    generalize hd : List.take n (List.drop posn elem) = d
    have hdl : d.length = n := by rw [← hd, List.length_take, List.length_drop]; omega
    have hd1 : d = x :: d.tail := by
      rw [← hd, hr]; cases n with
      | zero => omega
      | succ n => simp
    have hn0 : 0 < n := by omega
    have hd0 : ¬ d.length = 0 := by omega
    simp only [hd0, if_false]
    refine ⟨_, rfl, ?_⟩
    simp only [St.load, St.setPtr, St.buf, List.reverse_reverse, List.take_append_drop, List.take_zero, List.reverse_nil, List.drop_zero, List.nil_append, getByte, St.peek, St.adv]
    have hbuf : d ++ List.drop d.length (pre.reverse ++ post) = x :: (d.tail ++ List.drop d.length (pre.reverse ++ post)) := by
      calc d ++ List.drop d.length (pre.reverse ++ post) = (x :: d.tail) ++ List.drop d.length (pre.reverse ++ post) := by rw [← hd1]
        _ = _ := rfl
    rw [hbuf]
    simp only
    refine ⟨_, rfl, ?_⟩
    split
    all_goals
      refine ⟨⟨rfl, rfl, rfl, rfl, by simp, by simp; omega, by simp; omega, ?_, h9, by simp; omega⟩, rfl, rfl, ?_⟩
      · simp only [List.length_cons, List.length_nil, List.length_append, List.length_tail, List.length_drop, List.length_reverse]; omega
      · simp only [rest, window]
        have e1 : List.take (d.length - (0 + 1)) (d.tail ++ List.drop d.length (pre.reverse ++ post)) = d.tail := by
          rw [List.take_append_of_le_length (by simp)]
          rw [List.take_of_length_le (by simp)]
        have e2 : List.drop (posn + n) elem = List.drop n (List.drop posn elem) := by rw [List.drop_drop]
        rw [e1]
        have e3 : List.drop posn elem = d ++ List.drop n (List.drop posn elem) := by rw [← hd, List.take_append_drop]
        rw [e3, hd1] at hr
        simp at hr
        exact hr
  · simp only [hfull, if_false]
    refine ⟨_, rfl, ?_⟩
    have hlt : pre.length < bytez := by omega
    match post, h8, hr with
    | [], h8, _ => simp at h8; omega
    | y :: r, h8, hr =>
      have hbz : bytez - pre.length = (bytez - (pre.length + 1)) + 1 := by omega
      rw [hbz, List.take_succ_cons] at hr
      simp at hr
      simp only [getByte, St.peek, St.adv, hr.1]
      refine ⟨_, rfl, ?_⟩
      split
      all_goals
        refine ⟨⟨rfl, rfl, rfl, rfl, by simp, h6, by simp; omega, by simp at h8 ⊢; omega, h9, h10⟩, rfl, rfl, ?_⟩
        simp only [rest, window]
        exact hr.2

theorem dvd_pow_mod {b c k : Nat} (h : b % 2 ^ c = 0) (hk : k ≤ c) : b % 2 ^ k = 0 := by
  obtain ⟨q, rfl⟩ := exists_mul_of_mod h
  have : 2 ^ c = 2 ^ (c - k) * 2 ^ k := by rw [← Nat.pow_add]; congr 1; omega
  rw [this, ← Nat.mul_assoc, Nat.mul_mod_left]

theorem readWhole_ok : ∀ (f : Nat) (s : St) (b c : Nat), RInv s → c ≤ f → c ≤ 32 → b % 2 ^ c = 0 → c / 8 ≤ (rest s).length →
    ∃ s', readWhole f s b c = (s', b + ofBits (bytesBits ((rest s).take (c / 8))) * 2 ^ (c % 8), c % 8, false) ∧
      RInv s' ∧ s'.count = s.count ∧ s'.bits = s.bits ∧ rest s' = (rest s).drop (c / 8) := by
  intro f
  induction f with
  | zero =>
    intro s b c h hc _ _ _
    have : c = 0 := by omega
    subst this
    exact ⟨s, by simp [readWhole, ofBits], h, rfl, rfl, by simp⟩
  | succ f ih =>
    intro s b c h hc h32 hb hlen
    unfold readWhole
    by_cases h8 : c ≥ BITNUM
    · have h8' : 8 ≤ c := h8
      rw [if_pos h8]
      have hk : c / 8 = (c - 8) / 8 + 1 := by omega
      have hr8 : c % 8 = (c - 8) % 8 := by omega
      match hrs : rest s, hlen with
      | [], hlen => simp at hlen; omega
      | x :: t, hlen =>
        obtain ⟨s1, e1, s2, e2, i2, c2, b2, r2⟩ := fetch_ok h hrs
        rw [e1]; simp only [e2]
        have hxlt : x.toNat < 256 := UInt8.toNat_lt x
        have hcb : BITNUM = 8 := rfl
        have hpw : 2 ^ c = 2 ^ 8 * 2 ^ (c - 8) := by rw [← Nat.pow_add]; congr 1; omega
        have hx1 : x.toNat * 2 ^ (c - 8) < 2 ^ c := by
          rw [hpw]; exact Nat.mul_lt_mul_of_lt_of_le hxlt (Nat.le_refl _) (Nat.two_pow_pos _)
        have hx2 : (x.toNat <<< (c - BITNUM)) % 2 ^ DATANUM = x.toNat * 2 ^ (c - 8) := by
          rw [Nat.shiftLeft_eq, hcb]
          apply Nat.mod_eq_of_lt
          have : 2 ^ c ≤ 2 ^ 32 := Nat.pow_le_pow_right (by omega) h32
          exact Nat.lt_of_lt_of_le hx1 this
        rw [hx2, or_eq_add hb hx1, hcb]
        have hb1 : (b + x.toNat * 2 ^ (c - 8)) % 2 ^ (c - 8) = 0 := by
          rw [Nat.add_mul_mod_self_right]; exact dvd_pow_mod hb (by omega)
        have hlen' : (c - 8) / 8 ≤ (rest s2).length := by rw [r2]; simp at hlen; omega
        obtain ⟨s', e3, i3, c3, b3, r3⟩ := ih s2 (b + x.toNat * 2 ^ (c - 8)) (c - 8) i2 (by omega) (by omega) hb1 hlen'
        refine ⟨s', ?_, i3, by rw [c3, c2], by rw [b3, b2], by rw [r3, r2, hk]; rfl⟩
        rw [e3, r2, hk, List.take_succ_cons, bytesBits_cons, ofBits_append, ofBits_msbBits, ← hr8]
        have htl : (bytesBits (List.take ((c - 8) / 8) t)).length = 8 * ((c - 8) / 8) := by
          rw [length_bytesBits, List.length_take]; simp at hlen; omega
        rw [htl, Nat.mod_eq_of_lt hxlt]
        have hsplit : 2 ^ (c - 8) = 2 ^ (8 * ((c - 8) / 8)) * 2 ^ ((c - 8) % 8) := by
          rw [← Nat.pow_add]; congr 1; omega
        rw [hsplit, hr8]
        simp only [Nat.add_mul, Nat.mul_assoc, Nat.add_assoc]
    · rw [if_neg h8]
      have h8' : c < 8 := by simp [BITNUM] at h8; omega
      have hk : c / 8 = 0 := by omega
      have hr8 : c % 8 = c := by omega
      exact ⟨s, by simp [hk, hr8, ofBits], h, rfl, rfl, by simp [hk]⟩

theorem RInv.setCnt {s : St} (h : RInv s) (c : Nat) (hc : c < 8) : RInv { s with count := c } :=
  ⟨h.rMode, h.noOob, h.noErr, h.notNew, h.bytep, h.zle, h.ple, h.len, hc, h.posn⟩

theorem RInv.setCntBits {s : St} (h : RInv s) (c b : Nat) (hc : c < 8) : RInv { s with count := c, bits := b } :=
  ⟨h.rMode, h.noOob, h.noErr, h.notNew, h.bytep, h.zle, h.ple, h.len, hc, h.posn⟩

theorem getByte_count (s : St) (c : Nat) :
    getByte { s with count := c } = ((getByte s).1, { (getByte s).2 with count := c }) := by
  obtain ⟨elem, posn, isNew, wAccess, wMode, blockOff, maxOff, byteOff, count, bufRead, bits, pre, post, bytep, bytez, oob, err⟩ := s
  unfold getByte St.peek St.adv
  cases post <;> simp only <;> split <;> rfl

theorem rest_count (s : St) (c : Nat) : rest { s with count := c } = rest s := rfl
theorem rest_cntbits (s : St) (c b : Nat) : rest { s with count := c, bits := b } = rest s := rfl

theorem take_msbBits {a : Nat} (n r : Nat) (h : r ≤ a) : (msbBits a n).take r = msbBits r (n / 2 ^ (a - r)) := by
  have : a = r + (a - r) := by omega
  conv => lhs; rw [this, msbBits_add]
  rw [List.take_append_of_le_length (by simp), List.take_of_length_le (by simp)]

theorem drop_msbBits {a : Nat} (n r : Nat) (h : r ≤ a) : (msbBits a n).drop r = msbBits (a - r) n := by
  have : a = r + (a - r) := by omega
  conv => lhs; rw [this, msbBits_add]
  rw [List.drop_append_of_le_length (by simp), List.drop_of_length_le (by simp)]; simp

theorem bitread_ok {s : St} (h : RInv s) (w : Nat) (hw1 : 1 ≤ w) (hw : w ≤ 32) (hav : w ≤ (avail s).length) :
    ∃ s', bitread s w = (s', some (w, ofBits ((avail s).take w))) ∧ RInv s' ∧ avail s' = (avail s).drop w := by
  have h0 : ¬ w = 0 := by omega
  have hmin : min w DATANUM = w := by simp [DATANUM]; omega
  have hs : (if s.wMode = true then write2read s else s) = s := by rw [h.rMode]; rfl
  unfold bitread
  simp only [h0, if_false, hmin]
  rw [hs]
  by_cases hle : w ≤ s.count
  · rw [if_pos hle]
    have hw8 : w < 9 := by have := h.cnt; omega
    have hml : w ≤ (msbBits s.count s.bits).length := by rw [length_msbBits]; exact hle
    have hT : (avail s).take w = msbBits w (s.bits / 2 ^ (s.count - w)) := by
      simp only [avail]
      rw [List.take_append_of_le_length hml, take_msbBits _ _ hle]
    have hD : (avail s).drop w = msbBits (s.count - w) s.bits ++ bytesBits (rest s) := by
      simp only [avail]
      rw [List.drop_append_of_le_length hml, drop_msbBits _ _ hle]
    have hval : (s.bits >>> (s.count - w)) &&& maskC w = ofBits ((avail s).take w) := by
      rw [hT, ofBits_msbBits, maskC_eq w hw8, Nat.and_two_pow_sub_one_eq_mod, Nat.shiftRight_eq_div_pow]
    rw [hval]
    refine ⟨_, rfl, h.setCnt _ (by have := h.cnt; omega), ?_⟩
    rw [hD]; rfl
  · rw [if_neg hle]
    have hcnt := h.cnt
    have hgt : s.count < w := by omega
    -- the buffered bits, positioned
    have hb0 : (if s.count > 0 then (((s.bits &&& maskC s.count) <<< (w - s.count)) % 2 ^ DATANUM, w - s.count) else (0, w)) =
        ((s.bits % 2 ^ s.count) * 2 ^ (w - s.count), w - s.count) := by
      by_cases hz : s.count > 0
      · rw [if_pos hz, maskC_eq _ (by omega), Nat.and_two_pow_sub_one_eq_mod, Nat.shiftLeft_eq]
        congr 1
        apply Nat.mod_eq_of_lt
        have h1 : s.bits % 2 ^ s.count < 2 ^ s.count := Nat.mod_lt _ (Nat.two_pow_pos _)
        have h2 : s.bits % 2 ^ s.count * 2 ^ (w - s.count) < 2 ^ s.count * 2 ^ (w - s.count) :=
          Nat.mul_lt_mul_of_lt_of_le h1 (Nat.le_refl _) (Nat.two_pow_pos _)
        rw [← Nat.pow_add, show s.count + (w - s.count) = w by omega] at h2
        exact Nat.lt_of_lt_of_le h2 (Nat.pow_le_pow_right (by omega) hw)
      · rw [if_neg hz]
        have : s.count = 0 := by omega
        simp [this, Nat.mod_one]
    rw [hb0]
    simp only
    generalize hc0 : w - s.count = c0
    have hlen : (avail s).length = s.count + 8 * (rest s).length := by simp [avail]
    have hk : c0 / 8 ≤ (rest s).length := by omega
    have hbm : (s.bits % 2 ^ s.count * 2 ^ c0) % 2 ^ c0 = 0 := Nat.mul_mod_left _ _
    obtain ⟨s1, e1, i1, c1, b1, r1⟩ := readWhole_ok c0 s _ c0 h (Nat.le_refl _) (by omega) hbm hk
    rw [e1]
    simp only [Bool.false_eq_true, if_false]
    generalize hP : msbBits s.count s.bits ++ bytesBits (List.take (c0 / 8) (rest s)) = P
    have hBl : (bytesBits (List.take (c0 / 8) (rest s))).length = 8 * (c0 / 8) := by
      rw [length_bytesBits, List.length_take]; omega
    have hPl : P.length = s.count + 8 * (c0 / 8) := by rw [← hP]; simp [hBl]
    have hPv : ofBits P = s.bits % 2 ^ s.count * 2 ^ (8 * (c0 / 8)) + ofBits (bytesBits (List.take (c0 / 8) (rest s))) := by
      rw [← hP, ofBits_append, ofBits_msbBits, hBl]
    generalize hB : ofBits (bytesBits (List.take (c0 / 8) (rest s))) = B at e1 hPv
    have hsplit : 2 ^ c0 = 2 ^ (8 * (c0 / 8)) * 2 ^ (c0 % 8) := by
      rw [← Nat.pow_add]; congr 1; omega
    have havail : avail s = P ++ bytesBits (rest s1) := by
      simp only [avail]; rw [← hP, r1, List.append_assoc, ← bytesBits_append, List.take_append_drop]
    by_cases hr : c0 % 8 > 0
    · rw [if_pos hr]
      match hrs : rest s1 with
      | [] =>
        have : ((rest s).drop (c0 / 8)).length = 0 := by rw [← r1, hrs]; rfl
        simp at this; omega
      | x :: t =>
        obtain ⟨s2, e2, s3, e3, i3, c3, b3, r3⟩ := fetch_ok i1 hrs
        rw [e2]
        simp only [getByte_count, e3]
        have hxlt : x.toNat < 256 := UInt8.toNat_lt x
        have hr8 : BITNUM - c0 % 8 = 8 - c0 % 8 := rfl
        have hw' : w = P.length + c0 % 8 := by omega
        rw [hrs, bytesBits_cons] at havail
        have hT : (avail s).take w = P ++ msbBits (c0 % 8) (x.toNat / 2 ^ (8 - c0 % 8)) := by
          rw [havail, hw', List.take_append, List.take_of_length_le (Nat.le_add_right _ _)]
          simp only [Nat.add_sub_cancel_left]
          rw [List.take_append_of_le_length (by rw [length_msbBits]; omega), take_msbBits _ _ (by omega)]
        have hD : (avail s).drop w = msbBits (8 - c0 % 8) x.toNat ++ bytesBits t := by
          rw [havail, hw', List.drop_append, List.drop_of_length_le (Nat.le_add_right _ _), List.nil_append]
          simp only [Nat.add_sub_cancel_left]
          rw [List.drop_append_of_le_length (by rw [length_msbBits]; omega), drop_msbBits _ _ (by omega)]
        have hval : (s.bits % 2 ^ s.count * 2 ^ c0 + B * 2 ^ (c0 % 8)) ||| (x.toNat >>> (BITNUM - c0 % 8)) = ofBits ((avail s).take w) := by
          rw [hT, ofBits_append, ofBits_msbBits, hPv, length_msbBits]
          have hxs : x.toNat / 2 ^ (8 - c0 % 8) < 2 ^ (c0 % 8) := by
            rw [Nat.div_lt_iff_lt_mul (Nat.two_pow_pos _), ← Nat.pow_add, show c0 % 8 + (8 - c0 % 8) = 8 by omega]; exact hxlt
          rw [Nat.mod_eq_of_lt hxs, hr8, Nat.shiftRight_eq_div_pow]
          have hdv : (s.bits % 2 ^ s.count * 2 ^ c0 + B * 2 ^ (c0 % 8)) % 2 ^ (c0 % 8) = 0 := by
            rw [hsplit, ← Nat.mul_assoc, ← Nat.add_mul, Nat.mul_mod_left]
          rw [or_eq_add hdv hxs, hsplit]
          simp only [Nat.add_mul, Nat.mul_assoc]
        rw [hval]
        refine ⟨_, rfl, (i3.setCntBits _ _ (by simp [BITNUM]; omega)), ?_⟩
        rw [hD]; simp only [avail, rest_cntbits, r3, hr8]
    · rw [if_neg hr]
      have hr0 : c0 % 8 = 0 := by omega
      have hw' : w = P.length := by omega
      have hT : (avail s).take w = P := by
        rw [havail, hw', List.take_append_of_le_length (Nat.le_refl _), List.take_of_length_le (Nat.le_refl _)]
      have hD : (avail s).drop w = bytesBits (rest s1) := by
        rw [havail, hw', List.drop_append_of_le_length (Nat.le_refl _), List.drop_of_length_le (Nat.le_refl _)]; simp
      have hval : s.bits % 2 ^ s.count * 2 ^ c0 + B * 2 ^ (c0 % 8) = ofBits ((avail s).take w) := by
        rw [hT, hPv, hr0, hsplit, hr0]
        simp
      rw [hval]
      refine ⟨_, rfl, i1.setCnt 0 (by omega), ?_⟩
      rw [hD]; simp only [avail, rest_count, msbBits, List.nil_append]

theorem takeFields_append (l junk : List Bool) : ∀ (ws : List Nat), ws.sum ≤ l.length →
    takeFields (l ++ junk) ws = takeFields l ws := by
  intro ws
  induction ws generalizing l with
  | nil => intro _; rfl
  | cons w ws ih =>
    intro h
    simp only [List.sum_cons] at h
    simp only [takeFields]
    rw [List.take_append_of_le_length (by omega), List.drop_append_of_le_length (by omega)]
    rw [ih (l.drop w) (by simp; omega)]

theorem readFieldsS_ok : ∀ (ws : List Nat) (s : St), RInv s → (∀ w ∈ ws, 1 ≤ w ∧ w ≤ 32) → ws.sum ≤ (avail s).length →
    ∃ s', readFieldsS s ws = some (takeFields (avail s) ws, s') ∧ RInv s' ∧ avail s' = (avail s).drop ws.sum := by
  intro ws
  induction ws with
  | nil => intro s h _ _; exact ⟨s, rfl, h, by simp⟩
  | cons w ws ih =>
    intro s h hw hsum
    simp only [List.sum_cons] at hsum
    have hw1 := hw w (by simp)
    obtain ⟨s', e, i, a⟩ := bitread_ok h w hw1.1 hw1.2 (by omega)
    obtain ⟨s'', e2, i2, a2⟩ := ih s' i (fun x hx => hw x (by simp [hx])) (by rw [a]; simp; omega)
    refine ⟨s'', ?_, i2, ?_⟩
    · simp only [readFieldsS, e, if_true, takeFields, e2, a, Option.map_some]
    · rw [a2, a, List.drop_drop, List.sum_cons]

theorem readFields_ok (ws : List Nat) (s : St) (h : RInv s) (hw : ∀ w ∈ ws, 1 ≤ w ∧ w ≤ 32) (hsum : ws.sum ≤ (avail s).length) :
    readFields s ws = some (takeFields (avail s) ws) := by
  obtain ⟨s', e, _, _⟩ := readFieldsS_ok ws s h hw hsum
  simp [readFields, e]

theorem startRead_ok (e : List Byte) : RInv (startRead e) ∧ ∃ junk, avail (startRead e) = bytesBits e ++ junk := by
  have hB : BITBUF_SIZE = 4096 := rfl
  unfold startRead
  by_cases hpos : e.length > 0
  · have hnn : ¬ (min (e.length - 0) BITBUF_SIZE = 0 ∨ min (e.length - 0) BITBUF_SIZE + 0 > e.length) := by omega
    simp only [hpos, if_true, hRead, Bool.false_eq_true, if_false, hnn, List.drop_zero, St.load, St.setPtr, St.buf,
      List.reverse_nil, List.nil_append, List.take_zero, List.reverse_reverse, List.take_append_drop, List.drop_zero]
    generalize hn : min (e.length - 0) BITBUF_SIZE = n
    have hn1 : n ≤ e.length := by omega
    have hn2 : n ≤ 4096 := by omega
    have hl : (List.take n e).length = n := by rw [List.length_take]; omega
    refine ⟨⟨rfl, rfl, rfl, rfl, rfl, by simp only [hl]; omega, by simp, ?_, by simp, by simp; omega⟩, ⟨[], ?_⟩⟩
    · simp only [List.length_nil, List.length_append, hl, List.length_drop, List.length_replicate]; omega
    · simp only [avail, rest, window, msbBits, List.nil_append, hl, Nat.zero_add, Nat.sub_zero, List.append_nil]
      rw [List.take_append_of_le_length (by omega), List.take_of_length_le (by omega), List.take_append_drop]
  · have he : e = [] := List.eq_nil_of_length_eq_zero (by omega)
    subst he
    simp only [List.length_nil, Nat.lt_irrefl, gt_iff_lt, if_false, St.setPtr, St.buf, List.reverse_nil, List.nil_append]
    refine ⟨⟨rfl, rfl, rfl, rfl, ?_, by simp only []; omega, by simp, ?_, by simp, by simp⟩, ⟨[], ?_⟩⟩
    · simp only [List.length_reverse, List.length_take, List.length_replicate]; omega
    · simp only [List.length_reverse, List.length_take, List.length_drop, List.length_replicate]; omega
    · simp only [avail, rest, window, msbBits, List.nil_append, Nat.sub_self, List.take_zero, List.drop_nil, bytesBits_nil, List.append_nil]


/-! ## seeking (read mode, one block) -/

theorem drop_bytesBits (l : List UInt8) (B : Nat) : (bytesBits l).drop (8 * B) = bytesBits (l.drop B) := by
  induction B generalizing l with
  | zero => simp
  | succ B ih =>
    cases l with
    | nil => simp
    | cons b l =>
      rw [bytesBits_cons, List.drop_append, List.drop_of_length_le (by simp; omega), List.nil_append, length_msbBits,
        show 8 * (B + 1) - 8 = 8 * B by omega, ih]
      simp

/-- `Hbitseek` on a freshly opened read bit id whose element fits the buffer (one block): afterwards the bits still to be
    delivered are exactly the element's bit stream with the first `8·B + b` bits dropped -/
theorem seek_fresh_ok (e : List Byte) (B b : Nat) (hlen : e.length ≤ 4096) (hB : B < e.length) (hb : b < 8) :
    (bitseek (startRead e) B b).2 = true ∧ RInv (bitseek (startRead e) B b).1 ∧
    ∃ junk, avail (bitseek (startRead e) B b).1 = (bytesBits e).drop (8 * B + b) ++ junk := by
  have hB' : BITBUF_SIZE = 4096 := rfl
  have hpos : e.length > 0 := by omega
  have hnn : ¬ (min (e.length - 0) BITBUF_SIZE = 0 ∨ min (e.length - 0) BITBUF_SIZE + 0 > e.length) := by omega
  have hmin : min (e.length - 0) BITBUF_SIZE = e.length := by omega
  have hst : startRead e = { elem := e, posn := e.length, maxOff := e.length, byteOff := 0, wAccess := false, wMode := false, bytez := e.length, pre := [], post := e ++ (List.replicate BITBUF_SIZE (0 : Byte)).drop e.length, bytep := 0, bufRead := e.length, blockOff := 0, count := 0 } := by
    unfold startRead
    have hnn' : ¬ (e.length = 0 ∨ e.length + 0 > e.length) := by omega
    simp only [hpos, if_true, hRead, Bool.false_eq_true, if_false, hnn, hnn', List.drop_zero, St.load, St.setPtr, St.buf,
      List.reverse_nil, List.nil_append, List.take_zero, List.reverse_reverse, List.take_append_drop, List.drop_zero, hmin,
      List.take_of_length_le (Nat.le_refl e.length), Nat.zero_add]
  rw [hst]
  generalize hZ : (List.replicate BITBUF_SIZE (0 : Byte)).drop e.length = Z
  have hZl : Z.length = 4096 - e.length := by rw [← hZ, List.length_drop, List.length_replicate]; omega
  unfold bitseek
  have hc1 : ¬ (b > BITNUM - 1 ∨ B > e.length) := by simp [BITNUM]; omega
  have hc2 : ¬ (B < 0 ∨ B ≥ 0 + BITBUF_SIZE) := by omega
  simp only [hc1, if_false, hc2, Bool.false_eq_true, St.setPtr, St.buf, List.reverse_nil, List.nil_append, Nat.sub_zero]
  -- the element split at `B`
  obtain ⟨x, r, hx⟩ : ∃ x r, List.drop B e = x :: r := by
    have : (List.drop B e).length > 0 := by simp; omega
    match h : List.drop B e with
    | [] => rw [h] at this; simp at this
    | x :: r => exact ⟨x, r, rfl⟩
  have hxz : List.drop B (e ++ Z) = x :: (r ++ Z) := by
    rw [List.drop_append_of_le_length (by omega), hx]; rfl
  have htl : (List.take B (e ++ Z)).length = B := by rw [List.length_take]; simp; omega
  have hrl : r.length = e.length - B - 1 := by
    have := congrArg List.length hx; simp at this; omega
  have hbits : bytesBits (x :: r) = (bytesBits e).drop (8 * B) := by rw [← hx, drop_bytesBits]
  rw [hxz]
  by_cases hb0 : b > 0
  · simp only [hb0, if_true, St.peek, St.adv]
    refine ⟨trivial, ⟨rfl, rfl, rfl, rfl, by simp [htl], by simp only []; omega, by simp only []; omega, by simp [htl, hrl, hZl]; omega,
      by simp [BITNUM]; omega, by simp⟩, ⟨[], ?_⟩⟩
    simp only [avail, rest, window, List.drop_length, bytesBits_nil, List.append_nil]
    rw [List.take_append_of_le_length (by omega), List.take_of_length_le (by omega)]
    have h8 : BITNUM - b = 8 - b := rfl
    rw [h8, ← drop_msbBits x.toNat b (by omega), ← List.drop_drop, ← hbits, bytesBits_cons,
      List.drop_append_of_le_length (by simp; omega)]
  · have hb' : b = 0 := by omega
    subst hb'
    simp only [Nat.lt_irrefl, gt_iff_lt, if_false]
    refine ⟨trivial, ⟨rfl, rfl, rfl, rfl, by simp [htl], by simp only []; omega, by simp only []; omega, by simp [htl, hrl, hZl]; omega,
      by simp, by simp⟩, ⟨[], ?_⟩⟩
    simp only [avail, rest, window, msbBits, List.nil_append, List.drop_length, bytesBits_nil, List.append_nil, Nat.add_zero]
    have : List.take (e.length - B) (x :: (r ++ Z)) = x :: r := by
      rw [show e.length - B = (x :: r).length by simp [hrl]; omega]
      exact List.take_left' rfl
    rw [this, hbits]

end H4.BitIO
